#!/bin/bash
# Development tool: confirms a seeded change delivered by an adversary agent in a scratch worktree of /repo
# (suite passes with the patch, demo fails with it and passes without), then stores it under /verif/seeded/<id>/.
# usage: confirm_seeded.sh /tmp/adv_out/C09-1 [...]
WT=/tmp/confirm_wt_$$
export CARGO_NET_OFFLINE=true
git -C /repo worktree add -q --detach $WT HEAD || exit 2
for d in "$@"; do
  id=$(basename $d)
  git -C $WT checkout -q -- . ; git -C $WT clean -fdq -e target
  if ! git -C $WT apply $d/patch.diff 2>/tmp/confirm_err_$$; then echo "$id: PATCH DOES NOT APPLY: $(head -2 /tmp/confirm_err_$$)"; continue; fi
  (cd $WT && cargo build --offline --features verif-hooks >/dev/null 2>&1) || { echo "$id: does not build with hooks"; continue; }
  suite=$(cd $WT && cargo test --workspace --offline 2>&1 | grep -E "^test result:" | awk '{p+=$4; f+=$6} END {print p" passed "f" failed"}')
  cp $d/demo.rs $WT/tests/demo_seeded.rs 2>/dev/null || { mkdir -p $WT/tests; cp $d/demo.rs $WT/tests/demo_seeded.rs; }
  with=$(cd $WT && cargo test --offline --test demo_seeded 2>&1 | grep -E "^test result:" | head -1)
  git -C $WT apply -R $d/patch.diff
  without=$(cd $WT && cargo test --offline --test demo_seeded 2>&1 | grep -E "^test result:" | head -1)
  rm -f $WT/tests/demo_seeded.rs
  echo "$id: suite[$suite] demo-with-patch[$with] demo-without[$without]"
  if echo "$suite" | grep -q " 0 failed" && echo "$with" | grep -q "FAILED" && echo "$without" | grep -q "test result: ok"; then
    mkdir -p /verif/seeded/$id; cp $d/patch.diff $d/demo.rs /verif/seeded/$id/
    python3 - "$d" "$id" "$suite" "$with" "$without" <<'PY'
import json, sys
d, mid, suite, w, wo = sys.argv[1:6]
m = json.load(open(d + '/meta.json'))
m['confirmed'] = dict(by='vp/confirm_seeded.sh in a scratch worktree of /repo', suite_with_patch=suite, demo_with_patch=w, demo_without_patch=wo)
json.dump(m, open('/verif/seeded/%s/meta.json' % mid, 'w'), indent=1)
PY
    echo "$id: CONFIRMED -> /verif/seeded/$id"
  else
    echo "$id: NOT CONFIRMED"
  fi
done
git -C /repo worktree remove --force $WT
