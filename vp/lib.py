"""Shared machinery of the checks: builds, the two services, the Coq audit, evidence, replay files.

Layout (see DESIGN.md section 2):
  coq/      Gallina model (Model/), proofs (Refine/), property theorems (Props/Cxx.v)
  ocaml/    model_svc: extracted model behind the line protocol
  harness/  impl_svc: /repo's current working tree behind the same protocol
"""
import fcntl, hashlib, json, os, random, re, resource, subprocess, sys, time
from fractions import Fraction

ROOT = os.path.dirname(os.path.dirname(os.path.abspath(__file__)))
COQ = os.path.join(ROOT, 'coq')
OCAML = os.path.join(ROOT, 'ocaml')
# development-only overrides (used by vp/mutants.py to test seeded changes on a scratch copy of /repo)
REPO = os.environ.get('VERIF_REPO_DIR', '/repo')
HARNESS = os.environ.get('VERIF_HARNESS_DIR', os.path.join(ROOT, 'harness'))
EVID = os.environ.get('VERIF_EVIDENCE_DIR', os.path.join(ROOT, 'evidence'))
REPLAY = os.path.join(EVID, 'replay')
MODEL_BIN = os.path.join(OCAML, '_build', 'default', 'model_svc.exe')
IMPL_BIN = {'debug': os.path.join(HARNESS, 'target', 'debug', 'impl_svc'),
            'release': os.path.join(HARNESS, 'target', 'release', 'impl_svc')}
NCPU = os.cpu_count() or 4
BIN_TARGET = os.path.join(HARNESS, 'target', 'repo-bins')
os.environ['RNT_BIN_DIR'] = os.path.join(BIN_TARGET, 'debug')
ENV = dict(os.environ, CARGO_NET_OFFLINE='true')

# ---------------------------------------------------------------- terms

class Id(str):
    """identifier token of the protocol"""
    __slots__ = ()
    def __repr__(self): return 'Id(%s)' % str.__repr__(self)

def enc(t):
    if isinstance(t, bool): return 'true' if t else 'false'
    if isinstance(t, Id): return str(t)
    if isinstance(t, int): return str(t)
    if isinstance(t, Fraction):
        return str(t.numerator) if t.denominator == 1 else '%d/%d' % (t.numerator, t.denominator)
    if isinstance(t, (list, tuple)): return '[' + ' '.join(enc(x) for x in t) + ']'
    if isinstance(t, str): return t
    raise TypeError(repr(t))

def line(op, *args):
    return op + ''.join(' ' + enc(a) for a in args)

_tok = re.compile(r'\[|\]|[^\s\[\]]+')
def parse_terms(s):
    toks = _tok.findall(s)
    pos = 0
    def term():
        nonlocal pos
        t = toks[pos]; pos += 1
        if t == '[':
            out = []
            while toks[pos] != ']':
                out.append(term())
            pos += 1
            return out
        c = t[0]
        if c == '-' or c.isdigit():
            if '/' in t:
                a, b = t.split('/')
                return Fraction(int(a), int(b))
            return int(t)
        if t == 'true': return True
        if t == 'false': return False
        return Id(t)
    out = []
    while pos < len(toks):
        out.append(term())
    return out

class Ans:
    """One answer line of a service: kind in ok|panic|outoffuel|unsupported|badinput|modelerror|crash|timeout."""
    __slots__ = ('kind', 'val', 'cls', 'raw')
    def __init__(self, raw):
        self.raw = raw
        parts = raw.split(' ', 1)
        self.kind = parts[0]
        self.val = None; self.cls = None
        if self.kind == 'ok':
            ts = parse_terms(parts[1] if len(parts) > 1 else '')
            self.val = ts[0] if ts else None
        elif self.kind == 'panic':
            rest = parts[1] if len(parts) > 1 else ''
            self.cls = rest.split(' ', 1)[0]
    def key(self):
        """what is compared between implementation and model: value, or panic class"""
        if self.kind == 'ok': return ('ok', enc(self.val))
        if self.kind == 'panic': return ('panic', self.cls)
        return (self.kind,)
    def __repr__(self): return self.raw[:300]

# ---------------------------------------------------------------- cases

IMPL_ONLY = '<impl-only>'   # Case(model=IMPL_ONLY): no model line; the case is decided by its oracle alone (must have one)

class Case:
    __slots__ = ('op', 'impl', 'model', 'compare', 'oracle', 'nontrivial', 'tag', 'profile', 'note', 'always_oracle')
    def __init__(self, op, impl, model=None, compare=None, oracle=None, nontrivial=True, tag=None, profile='debug',
                 note=None, always_oracle=False):
        self.op = op; self.impl = impl; self.model = model if model is not None else impl
        self.compare = compare; self.oracle = oracle; self.nontrivial = nontrivial
        self.tag = tag or op; self.profile = profile; self.note = note; self.always_oracle = always_oracle

def release_slice(cases, rng, frac, mode_ops=(), plain_ops=None):
    """Clones a random slice of the dev-profile cases into the release profile (same input, the release build of impl_svc).
    mode_ops: operations whose MODEL takes the build profile as an optional last argument (`wrapping` is appended to the model
    line); plain_ops: operations whose model has no profile argument (None = every other operation). IMPL_ONLY cases included."""
    out = []
    for c in cases:
        if c.profile != 'debug' or rng.random() >= frac: continue
        if c.op in mode_ops:
            m = c.model
            if m is IMPL_ONLY: nm = m
            elif callable(m): nm = (lambda m_: (lambda ia: (lambda l: l + ' wrapping' if l else l)(m_(ia))))(m)
            else: nm = m + ' wrapping'
        elif plain_ops is None or c.op in plain_ops:
            nm = c.model
        else:
            continue
        out.append(Case(c.op, c.impl, model=nm, compare=c.compare, oracle=c.oracle, nontrivial=c.nontrivial, tag=c.tag + ':release',
                        profile='release', note=c.note, always_oracle=c.always_oracle))
    return out

def o_cli_seq(ncmds):
    """oracle of the harness operation cli_seq: the combined run printed one document per command, each equal to the document
    printed when the command runs alone"""
    def orc(ia):
        if ia.kind != 'ok' or not isinstance(ia.val, list): return 'several commands in one configuration: the binary failed (%s)' % ia.raw[:120]
        if ia.val[0] != ncmds: return 'several commands in one configuration: %s documents printed for %d commands' % (ia.val[0], ncmds)
        bad = [i for i, b in enumerate(ia.val[1:]) if b is not True]
        if bad: return 'several commands in one configuration: the answer to command number %s differs from the answer the same command gives alone' % bad
        return None
    return orc

def parse_poly_str(txt):
    """inverse of the library's Display for polynomials: 'X^2 + (-3)X + 5' -> [5, -3, 1]; '0' -> []"""
    import re as _re
    txt = txt.strip()
    if txt == '0': return []
    co = {}
    for term in txt.split(' + '):
        m = _re.fullmatch(r'(\(-?\d+\)|\d+)?(X(\^(\d+))?)?', term)
        if not m or term == '': raise ValueError('unparsable term %r in %r' % (term, txt))
        c = m.group(1); c = 1 if c is None else int(c.strip('()'))
        d = 0 if m.group(2) is None else 1 if m.group(4) is None else int(m.group(4))
        if d in co: raise ValueError('degree %d twice in %r' % (d, txt))
        co[d] = c
    return [co.get(i, 0) for i in range(max(co) + 1)]

def default_compare(ia, ma):
    if ia.key() != ma.key():
        return 'implementation %r vs model %r' % (ia.raw[:200], ma.raw[:200])
    return None

def hook_stream(seed, n):
    """the first n bytes the verif-hooks generator hands out for a seed and an empty script (splitmix64, little endian);
    HOOK_DEFAULT_SEED is the state a process starts with when install() was never called (the CLI binaries)"""
    M = (1 << 64) - 1
    sm = seed; out = bytearray()
    while len(out) < n:
        sm = (sm + 0x9E3779B97F4A7C15) & M
        z = sm
        z = ((z ^ (z >> 30)) * 0xBF58476D1CE4E5B9) & M
        z = ((z ^ (z >> 27)) * 0x94D049BB133111EB) & M
        z ^= z >> 31
        out += z.to_bytes(8, 'little')
    return list(out[:n])
HOOK_DEFAULT_SEED = 0x9E3779B97F4A7C15

# ---------------------------------------------------------------- builds

class Lock:
    def __init__(self, name): self.path = os.path.join(ROOT, '.' + name + '.lock')
    def __enter__(self):
        self.f = open(self.path, 'w'); fcntl.flock(self.f, fcntl.LOCK_EX); return self
    def __exit__(self, *a):
        fcntl.flock(self.f, fcntl.LOCK_UN); self.f.close()

def sh(cmd, cwd=None, timeout=3600, env=None):
    p = subprocess.run(cmd, cwd=cwd, shell=isinstance(cmd, str), stdout=subprocess.PIPE, stderr=subprocess.STDOUT,
                       text=True, timeout=timeout, env=env or ENV)
    return p.returncode, p.stdout

class BuildError(Exception):
    pass

def coq_project():
    head = open(os.path.join(COQ, '_CoqProject.head')).read()
    files = []
    for d in ('Model', 'Refine', 'Props', 'Extract'):
        for dp, _, fs in os.walk(os.path.join(COQ, d)):
            for f in fs:
                if f.endswith('.v') and not f.startswith('.') and not f.startswith('Audit_'):
                    files.append(os.path.relpath(os.path.join(dp, f), COQ))
    txt = head + '\n'.join(sorted(files)) + '\n'
    p = os.path.join(COQ, '_CoqProject')
    if not os.path.exists(p) or open(p).read() != txt:
        open(p, 'w').write(txt)
        rc, out = sh('coq_makefile -f _CoqProject -o Makefile', cwd=COQ)
        if rc: raise BuildError('coq_makefile failed:\n' + out)
    elif not os.path.exists(os.path.join(COQ, 'Makefile')):
        rc, out = sh('coq_makefile -f _CoqProject -o Makefile', cwd=COQ)
        if rc: raise BuildError('coq_makefile failed:\n' + out)

def build_coq(targets=None):
    """Full .vo build (never -vos) of the whole development or of the given .vo targets."""
    with Lock('coq'):
        os.makedirs(os.path.join(OCAML, 'extracted'), exist_ok=True)
        rc, out = sh([sys.executable, os.path.join(ROOT, 'vp', 'gen_extract.py')])
        if rc: raise BuildError('gen_extract failed:\n' + out)
        coq_project()
        tg = ' '.join(targets) if targets else ''
        rc, out = sh('timeout 3000 make -j%d %s' % (NCPU, tg), cwd=COQ, timeout=3100)
        if rc: raise BuildError('coq make failed:\n' + out[-6000:])
        return out

def build_ocaml():
    with Lock('ocaml'):
        rc, out = sh('./gen_ops_all.sh && dune build ./model_svc.exe 2>&1', cwd=OCAML, timeout=1800)
        if rc: raise BuildError('dune build failed:\n' + out[-6000:])

def build_harness(profiles=('debug',), bins=False):
    """Rebuilds impl_svc against /repo's current working tree (path dependency, hooks on)."""
    with Lock('cargo'):
        lock = os.path.join(HARNESS, 'Cargo.lock')
        if not os.path.exists(lock):
            import shutil; shutil.copy(os.path.join(REPO, 'Cargo.lock'), lock)
        for prof in profiles:
            flag = '--release' if prof == 'release' else ''
            rc, out = sh('cargo build --offline %s 2>&1' % flag, cwd=HARNESS, timeout=3000)
            if rc: raise BuildError('cargo build (%s) failed:\n%s' % (prof, out[-6000:]))
        if bins:
            # /repo's own binaries (CLI glue), built outside /repo
            rc, out = sh('cargo build --offline --manifest-path %s/Cargo.toml --bins --features verif-hooks --target-dir %s 2>&1' % (REPO, BIN_TARGET),
                         cwd=HARNESS, timeout=3000)
            if rc: raise BuildError('cargo build of /repo binaries failed:\n%s' % out[-6000:])

# ---------------------------------------------------------------- services

def _limits_model():
    # the extracted model recurses deeply (non-tail recursion over fuel): unlimited stack, bounded memory
    try:
        resource.setrlimit(resource.RLIMIT_STACK, (resource.RLIM_INFINITY, resource.RLIM_INFINITY))
        resource.setrlimit(resource.RLIMIT_AS, (16 << 30, 16 << 30))
    except Exception:
        pass

def _limits_impl():
    # the implementation keeps the default stack, so that a runaway recursion dies at once
    # (stack overflow abort) instead of filling the memory; address space bounded at 4 GB as a backstop
    try:
        resource.setrlimit(resource.RLIMIT_AS, (4 << 30, 4 << 30))
    except Exception:
        pass

def run_batch(binary, lines, timeout=600):
    """Feeds the lines to one service process; restarts after a crash or a hang; returns one Ans per line.
    After the first hang the remaining lines get a short time limit, after the second the rest is given up
    (answered 'timeout'): a hanging implementation must not stall the whole check."""
    out = []
    i = 0
    n = len(lines)
    hangs = 0
    while i < n:
        chunk = lines[i:]
        if hangs >= 2:
            out.extend(Ans('timeout') for _ in chunk)
            break
        tmo = timeout if hangs == 0 else min(timeout, 60)
        try:
            p = subprocess.run([binary], input='\n'.join(chunk) + '\n', stdout=subprocess.PIPE, stderr=subprocess.DEVNULL,
                               text=True, timeout=tmo, preexec_fn=(_limits_model if binary == MODEL_BIN else _limits_impl))
            got = p.stdout.split('\n')
            if got and got[-1] == '': got.pop()
            crashed = 'crash rc=%s' % p.returncode
        except subprocess.TimeoutExpired as e:
            so = e.stdout or ''
            if isinstance(so, bytes): so = so.decode('utf-8', 'replace')
            got = so.split('\n')
            if got: got.pop()  # possibly partial last line
            crashed = 'timeout'
            hangs += 1
        got = got[:len(chunk)]
        out.extend(Ans(g) for g in got)
        i += len(got)
        if i < n and len(got) < len(chunk):
            out.append(Ans(crashed))   # the line the process died on
            i += 1
    return out

def run_parallel(binary, lines, timeout=600, jobs=None):
    """Shards the lines over several processes (order preserved)."""
    from concurrent.futures import ThreadPoolExecutor
    jobs = jobs or NCPU
    n = len(lines)
    if n == 0: return []
    jobs = max(1, min(jobs, (n + 7) // 8))
    shards = [list(range(k, n, jobs)) for k in range(jobs)]
    res = [None] * n
    def work(idx):
        r = run_batch(binary, [lines[i] for i in idx], timeout)
        return idx, r
    with ThreadPoolExecutor(jobs) as ex:
        for idx, r in ex.map(work, shards):
            for i, a in zip(idx, r): res[i] = a
    return res

# ---------------------------------------------------------------- Coq audit

FORBIDDEN = re.compile(r'\b(Admitted|admit|Axiom|Axioms|Parameter|Parameters|Conjecture|Conjectures|Admit\s+Obligations|'
                       r'Unset\s+Guard\s+Checking|Unset\s+Positivity\s+Checking|Unset\s+Universe\s+Checking|bypass_check|'
                       r'type-in-type|impredicative-set)\b')
SECTION_ONLY = re.compile(r'^\s*(Variable|Variables|Hypothesis|Hypotheses|Context)\b')

def strip_comments(s):
    out = []; depth = 0; i = 0
    while i < len(s):
        if s.startswith('(*', i): depth += 1; i += 2; continue
        if s.startswith('*)', i) and depth: depth -= 1; i += 2; continue
        if depth == 0: out.append(s[i])
        elif s[i] == '\n': out.append('\n')
        i += 1
    return ''.join(out)

def grep_audit():
    """No Admitted/admit/Axiom/Parameter/..., no Variable/Hypothesis outside a Section, anywhere in coq/."""
    bad = []
    for dp, _, fs in os.walk(COQ):
        for f in fs:
            if not f.endswith('.v'): continue
            p = os.path.join(dp, f)
            src = strip_comments(open(p).read())
            depth = 0
            for ln, l in enumerate(src.split('\n'), 1):
                if re.match(r'^\s*(Section|Module\s+Type)\b', l): depth += 1
                elif re.match(r'^\s*End\b', l) and depth: depth -= 1
                m = FORBIDDEN.search(l)
                if m: bad.append('%s:%d: %s' % (os.path.relpath(p, ROOT), ln, m.group(0)))
                if depth == 0 and SECTION_ONLY.match(l):
                    bad.append('%s:%d: %s outside a section' % (os.path.relpath(p, ROOT), ln, l.strip()[:40]))
    for extra in ('_CoqProject.head',):
        s = open(os.path.join(COQ, extra)).read()
        if 'type-in-type' in s or 'impredicative-set' in s or 'bypass' in s:
            bad.append(extra + ': forbidden flag')
    return bad

ALLOWED_AXIOMS = {
    # primitive floats are used only by the C20 float model; names appear as kernel primitives, not axioms
}

def props_theorems(pid):
    p = os.path.join(COQ, 'Props', pid + '.v')
    src = strip_comments(open(p).read())
    return re.findall(r'^\s*(?:Theorem|Lemma|Corollary)\s+([A-Za-z_][A-Za-z0-9_\']*)', src, re.M)

def coq_audit(pid):
    """Compiles Props/<pid>.v (and what it needs), then asks Coq for the assumptions of every theorem in it.
    Returns dict(theorems=[...], assumptions={thm: [...]}, closed=[...], problems=[...])."""
    problems = []
    build_coq(['Props/%s.vo' % pid, 'Extract/Extract.vo'])
    thms = props_theorems(pid)
    if not thms:
        problems.append('Props/%s.v states no theorem' % pid)
    audit = os.path.join(COQ, 'Props', 'Audit_%s.v' % pid)
    with open(audit, 'w') as f:
        f.write('From RNT.Props Require Import %s.\n' % pid)
        for t in thms:
            f.write('Check %s.\nPrint Assumptions %s.\n' % (t, t))
    try:
        rc, out = sh('timeout 600 coqc -q -noglob -Q Model RNT.Model -Q Refine RNT.Refine -Q Props RNT.Props Props/Audit_%s.v' % pid, cwd=COQ, timeout=700)
    finally:
        for ext in ('.v', '.vo', '.vok', '.vos', '.glob'):
            try: os.remove(audit[:-2] + ext)
            except OSError: pass
        try: os.remove(os.path.join(COQ, 'Props', '.Audit_%s.aux' % pid))
        except OSError: pass
    if rc:
        problems.append('audit file failed to compile: ' + out[-2000:])
        return dict(theorems=thms, assumptions={}, closed=[], problems=problems)
    # parse: sequence of "<name>\n : <type>" then either "Closed under the global context" or "Axioms:\n name : type ..."
    assumptions = {}
    blocks = re.split(r'^(?=\S+\s*\n?\s+:\s)', out, flags=re.M)
    # simpler: walk theorem by theorem using the known order
    pos = 0
    for k, t in enumerate(thms):
        i = out.find(t, pos)
        j = len(out)
        if k + 1 < len(thms):
            m = re.search(r'^%s\s*$|^%s\s*\n\s+:' % (re.escape(thms[k + 1]), re.escape(thms[k + 1])), out[i + len(t):], re.M)
            if m: j = i + len(t) + m.start()
        seg = out[i:j]
        pos = j
        if 'Closed under the global context' in seg:
            assumptions[t] = []
        elif 'Axioms:' in seg:
            ax = re.findall(r'^([A-Za-z_][\w\.\']*)\s*:', seg.split('Axioms:', 1)[1], re.M)
            assumptions[t] = ax
        else:
            assumptions[t] = ['<unparsed>']
            problems.append('could not parse Print Assumptions output for ' + t)
    closed = [t for t in thms if assumptions.get(t) == []]
    for t in thms:
        for a in assumptions.get(t, []):
            if a not in ALLOWED_AXIOMS:
                problems.append('theorem %s depends on non-allow-listed axiom %s' % (t, a))
    return dict(theorems=thms, assumptions=assumptions, closed=closed, problems=problems)

def coqchk(pid):
    """Independent re-check of Props/<pid>.vo and everything it depends on; returns (problems, summary)."""
    rc, out = sh('timeout 3000 coqchk -o -silent -Q Model RNT.Model -Q Refine RNT.Refine -Q Props RNT.Props RNT.Props.%s 2>&1' % pid,
                 cwd=COQ, timeout=3100)
    problems = []
    if rc: problems.append('coqchk failed: ' + out[-1500:])
    m = re.search(r'\* Axioms:(.*?)\* Constants/Inductives relying on type-in-type:(.*?)\* Constants/Inductives relying on unsafe \(co\)fixpoints:(.*?)\* Inductives whose positivity is assumed:(.*)', out, re.S)
    summ = {}
    if m:
        names = ['axioms', 'type_in_type', 'unsafe_fixpoints', 'assumed_positivity']
        for n, g in zip(names, m.groups()):
            items = [x.strip() for x in g.strip().split('\n') if x.strip() and x.strip() != '<none>']
            summ[n] = items
            if n != 'axioms' and items: problems.append('coqchk: %s: %s' % (n, items))
        for a in summ.get('axioms', []):
            if a.split()[0] not in ALLOWED_AXIOMS and not a.startswith('Coq.Floats') and 'PrimFloat' not in a and 'Uint63' not in a and 'PrimInt63' not in a:
                problems.append('coqchk: axiom %s' % a)
    elif not rc:
        problems.append('coqchk: could not parse context summary')
    return problems, summ

# ---------------------------------------------------------------- evidence / findings

def known_findings():
    p = os.path.join(ROOT, 'known_findings.json')
    if not os.path.exists(p): return []
    return json.load(open(p)).get('findings', [])

def write_json(path, obj):
    os.makedirs(os.path.dirname(path), exist_ok=True)
    tmp = path + '.tmp'
    with open(tmp, 'w') as f: json.dump(obj, f, indent=1, default=str)
    os.replace(tmp, path)

TRUSTED_BASE = [
    'Coq 8.16.1 kernel (coqc; vm_compute used by bounded [B] theorems and non-vacuity examples; no native_compute)',
    'axioms: none (every property theorem is "Closed under the global context" unless listed in assumptions)',
    'hand-written Gallina model of the anchored Rust routines (coq/Model), tied to /repo by the correspondence check only on the explored inputs',
    'extraction: ExtrOcamlBasic only (Extract Inductive for bool, option, unit, list, prod, sumbool, sumor); Z/positive/nat/Qc extracted as Coq inductives; no Extract Constant',
    'OCaml driver model_svc (term parsing, Zarith<->Coq Z conversion) and OCaml 4.13 compiler',
    'Rust harness impl_svc, the verif-hooks scripted RNG in /repo, python orchestrator vp/ (generators, comparison, oracles)',
    'num-bigint/num-rational arithmetic taken as Z/Qc; BigInt::nth_root, modpow, gcd/lcm modelled by their specifications',
]
