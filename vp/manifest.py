#!/usr/bin/env python3
"""Writes /verif/MANIFEST.json from the table below (kept here so that the file always validates)."""
import json, os
ROOT = os.path.dirname(os.path.dirname(os.path.abspath(__file__)))

import importlib, sys
sys.path.insert(0, os.path.join(ROOT, 'vp'))

def load_claims():
    """A property is claimed when vp/props/cXX.py exists and defines CLAIM = dict(technique=, text=, note=, ref=)."""
    out = {}
    for i in range(1, 21):
        pid = 'C%02d' % i
        if not os.path.exists(os.path.join(ROOT, 'vp', 'props', pid.lower() + '.py')): continue
        try:
            mod = importlib.import_module('props.' + pid.lower())
        except Exception as e:
            print('warning: cannot import props.%s: %r' % (pid.lower(), e)); continue
        c = getattr(mod, 'CLAIM', None)
        # a property is only claimed once Props/<pid>.v states real theorems (not the bootstrap placeholder)
        import re
        try:
            src = open(os.path.join(ROOT, 'coq', 'Props', pid + '.v')).read()
        except OSError:
            src = ''
        names = re.findall(r'^\s*(?:Theorem|Lemma|Corollary)\s+([A-Za-z_][A-Za-z0-9_\']*)', src, re.M)
        if len([n for n in names if 'placeholder' not in n.lower() and 'bootstrap' not in n.lower()]) < 3:
            c = None
        if c: out[pid] = (c['technique'], c['text'], c['note'], c.get('ref', 'DESIGN.md section 4, ' + pid))
    return out
CHECKS = load_claims()
PENDING = {}
ALL = ['C%02d' % i for i in range(1, 21)]

def main():
    checks = []
    for pid in ALL:
        if pid not in CHECKS: continue
        tech, text, note, ref = CHECKS[pid]
        checks.append(dict(
            property_id=pid,
            quick_cmd='./vp/check %s --tier quick' % pid,
            thorough_cmd='./vp/check %s --tier thorough' % pid,
            evidence_file='/verif/evidence/%s.json' % pid,
            replay_cmd_template='./vp/check %s --replay {path}' % pid,
            engine='coq-model+correspondence',
            level_claimed=dict(category='proof', text=text, design_ref=ref),
            level_note=note,
            technique=tech))
    na = [dict(property_id=p, reason=PENDING.get(p, 'model, theorems and correspondence check for this property are not built yet in this revision (planned; see DESIGN.md section 4)'))
          for p in ALL if p not in CHECKS]
    m = dict(
        version=1,
        setup_cmd='cd /verif && ./vp/setup.sh',
        hooks=dict(guard='verif-hooks (cargo feature of the root crate rust-number-theory)',
                   enable='harness/Cargo.toml depends on /repo with features = ["verif-hooks"]; impl_svc is rebuilt by every check',
                   baseline_off_cmd='cd /repo && cargo test --workspace --no-fail-fast --offline',
                   source_commits=HOOK_COMMITS, add_only=True),
        engines=[dict(name='coq-model+correspondence', path='/verif/vp/check', serves_properties=[c['property_id'] for c in checks],
                      kind_free_text='Coq 8.16 theorems about a hand-written Gallina model (coq/), extracted to OCaml (ocaml/model_svc) and compared with the implementation (harness/impl_svc) on generated inputs; independent oracles search for a failing input when the tie breaks')],
        checks=checks,
        notes='Genuine defects repaired by fix: commits are listed in known_findings.json (status fixed; they suppress nothing).',
        not_applicable=na)
    json.dump(m, open(os.path.join(ROOT, 'MANIFEST.json'), 'w'), indent=1)

HOOK_COMMITS = ['5ec79f3', '9d09cb3', '33c287e']
if __name__ == '__main__':
    main()
