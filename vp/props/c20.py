"""C20 LLL, Cholesky / short vectors, roots-of-unity count.

Three models answer the cases:
  * ops lll / cholesky_find / find_value / short_vectors: the binary64 instance of coq/Model/Lll.v
    (coq/Model/LllFloat.v), evaluated by `coqc` + vm_compute on generated files (primitive floats are
    not extracted); compared bit-exactly (every double printed as the exact rational it denotes);
  * ops *_exact: the extracted exact-rational instance (model_svc), compared on what exact and
    floating-point arithmetic must agree on (the set of short vectors at non-boundary bounds, the
    decomposition and the values up to 1e-9); for lll the exact run may legitimately take other
    branches than the double run: agreement of H is counted and printed, never alarmed;
  * find_muk has no model (Newton iteration from sin/cos starts): oracle only.
"""
import atexit, math, os, re, shutil, subprocess, sys, tempfile
from fractions import Fraction
from concurrent.futures import ThreadPoolExecutor
import lib
from lib import line, Id, Case, Ans, enc

RULE = ('lll: integer bases of dimension 2..8, entries up to 10^4 (uniform boxes of several sizes, unimodular re-basings of '
        'short bases, knapsack-type, near-dependent rows, already reduced, singular [outside the property, correspondence only]); '
        'non-trivial = non-singular and H != identity. short vectors: Gram matrices B*B^T (dimension <= 5) with bound c + 1/2 '
        '(non-boundary; brute-force box enumeration as oracle) and with integer c (boundary; bit-exact correspondence only). '
        'also bounds attained exactly on forms whose decomposition is exact in binary64 (oracle applies, boundary included); dense 3x3/4x4 Gram matrices for find/find_value. find_muk: cyclotomic (3 <= n <= 12), quadratic, cubic, biquadratic fields, each over several RNG seeds.')
PROVED = [
    'lll_H_unimodular [P]: for EVERY arithmetic record (hence also for the binary64 arithmetic of the code, whatever its rounding), '
    'every input and fuel: a returned H is reached from the identity by adjacent row exchanges and integer row additions and has a '
    'two-sided integer inverse',
    'lll_small_panics [P]: fewer than two rows -> index panic (any arithmetic)',
    'lll_HB [P, exact arithmetic]: B\' = H*B for every square input',
    'red_preserves_gs, swap_preserves_gs [P, exact arithmetic]: RED and SWAP keep "bstar, mu, b are the Gram-Schmidt data of rows '
    '0..kmax" (characterising relations b_i = b*_i + sum mu_ij b*_j, orthogonality, B_i = |b*_i|^2); SWAP under new |b*_k|^2 != 0',
    'lll_reduced_partial [C, exact arithmetic]: if the flag is_lll_reduced the model evaluates on its own output is true then the '
    'output is LLL-reduced with parameter 3/4 (exact Gram-Schmidt by the textbook formulas); superseded by lll_reduced_exact',
    'step2_preserves_gs [P, exact arithmetic]: step 2 (incremental Gram-Schmidt of a row reached for the first time, k = kmax + 1) '
    'establishes the Gram-Schmidt relation for rows 0..k given it for rows 0..kmax with non-zero |b*_j|^2',
    'main_loop_inv [P, exact arithmetic]: the invariant "shapes; bstar, mu, b are the Gram-Schmidt data of rows 0..kmax; |b*_i|^2 > 0; '
    'rows linearly independent; rows 0..k-1 size-reduced and Lovasz(3/4)" is kept by step 2, RED(k,k-1) / Lovasz test / SWAP(k-1) / '
    'k := max(1,k-1), the descending loop RED(k,l) for l = k-2..0 and k+1, in the order of the code; a returning run ends with '
    'kmax = n-1 and all n rows reduced (b*_k != 0 and the SWAP precondition are derived from linear independence)',
    'lll_reduced_exact, lll_reduced_exact_prop, lll_exact_checked_flag [P, exact arithmetic]: for EVERY square rational basis with '
    'linearly independent rows (rows_independent: no non-trivial rational combination of the rows vanishes; right_inverse_independent: '
    'implied by a right inverse) and EVERY fuel: if lll returns (B\', H) then is_lll_reduced B\' = true, i.e. the Gram-Schmidt vectors '
    'of B\' (textbook formulas) are non-zero, |mu_ij| <= 1/2 for j < i and (3/4 - mu_{i+1,i}^2)|b*_i|^2 <= |b*_{i+1}|^2: the flag of '
    'lll_reduced_partial is always true (partial correctness: termination not included)',
    'lll_exact_no_panic [P, exact arithmetic]: on a square matrix with >= 2 rows (singular or not) the run never panics (Done or OutOfFuel)',
    'lll_exact_correct [P, exact arithmetic]: the LLL clause in one statement (partial correctness): non-singular square B, >= 2 rows: '
    'no panic, and a returned (B\', H) has H unimodular, B\' = H*B, B\' LLL-reduced with 3/4',
    'swap_potential, red_potential [P, exact arithmetic]: one step of the termination argument: under the loop invariant, after a failed '
    'Lovasz test SWAP(k-1) multiplies d_{k-1} = |b*_0|^2...|b*_{k-1}|^2 by a factor < 3/4, leaves the other d_i unchanged and all positive; '
    'RED changes none',
    'gs_prod_is_int [P]: for Gram-Schmidt data of rows 0..i of an integer matrix, |b*_0|^2...|b*_i|^2 is an integer (Gram determinant; '
    'MathComp determinants); swap_gd [P, exact arithmetic]: in terms of the current basis only (all rows), a SWAP after a failed Lovasz '
    'test strictly decreases the (k-1)-th leading Gram determinant and leaves the others unchanged',
    'lll_exact_terminates, lll_exact_total [P, exact arithmetic]: TERMINATION for every square rational basis with >= 2 linearly '
    'independent rows: there is a fuel0 such that for every fuel >= fuel0 the run returns (B\', H), with H unimodular, B\' = H*B and B\' '
    'LLL-reduced with 3/4 (potential: prod_i c^(2(i+1)) d_i with c a common denominator is a positive integer, unchanged by step 2 and '
    'RED, strictly smaller after each SWAP)',
    'cholesky_find_entries [P, exact arithmetic]: for every square Q, Cholesky::find returns q with q_aa = A^(a)_aa, '
    'q_ab = A^(a)_ab / A^(a)_aa (a < b), 0 below the diagonal, A^(i) the matrices of the symmetric elimination (Schur complements)',
    'posdef_pivots_pos, pivots_pos_posdef [P]: a symmetric rational matrix is positive definite (x^T Q x > 0 for every rational x != 0) '
    'iff all pivots A^(i)_ii are positive',
    'cholesky_find_spec, cholesky_find_spec_pivots [P, exact arithmetic]: for a symmetric positive-definite rational Q, Cholesky::find '
    'returns q with positive diagonal and find_value(q, x) = x^T Q x for every integer vector x of the right length',
    'short_vectors_gram_spec [P, exact arithmetic]: for a symmetric positive-definite Gram matrix Q and bound c, the enumeration on '
    'find(Q) returns without repetition pairs (v, y), y a non-zero integer vector, v = y^T Q y <= c, and exactly one of y, -y for every '
    'non-zero integer y with y^T Q y <= c',
    'short_vectors_sound [P, exact arithmetic]: every returned (v, x): x non-zero of the right length, v = find_value(x), v <= c',
    'short_vectors_complete, short_vectors_spec [P, exact arithmetic]: for a decomposition with positive diagonal and c >= 0 the '
    'enumeration returns, without repetition, exactly the x with value <= c whose highest non-zero coordinate is negative; hence '
    'exactly one of x, -x for every non-zero x with value <= c; c < 0 panics',
    'Qc_range_spec (used by the above): the exact instance\'s floor(sqrt t - u), ceil(-sqrt t - u) bound exactly the integers x with (x+u)^2 <= t',
]
NOT_PROVED = [
    'everything about floating-point error: the theorems about reducedness, B\' = H*B and the enumeration are about the exact-arithmetic '
    'instance of the same generic code; for the binary64 instance only lll_H_unimodular/lll_small_panics hold by proof. Reducedness of '
    'the code\'s output, B\' = H*B, completeness of the floating-point enumeration and the unit count are checked by the exact oracles '
    'on every generated case (always_oracle=True), not proved',
    'that the PARTICULAR fuel lll_fuel(n, bits) used by lll_exact / the extracted model suffices: termination is proved in the form '
    '"some fuel suffices" (lll_exact_terminates); a quantitative bound would need Hadamard-type bounds of the initial Gram determinants '
    'from the entry size and the log_{4/3} arithmetic (for rational inputs with many distinct denominators the formula is not '
    'obviously sufficient); in the correspondence runs OutOfFuel never occurred',
    'find_muk / numerical_roots / embeddings (Newton iteration from sin/cos starts, complex arithmetic): not modelled, oracle only',
]
CLAIM = dict(
    technique='Coq proofs about a Gallina model written once over a record of arithmetic operations (theorems for every arithmetic, '
              'and for the exact-rational instance) + bit-exact correspondence of the binary64 instance (PrimFloat, vm_compute inside '
              'coqc) with the implementation + exact rational oracles on every case',
    text='H is unimodular for every arithmetic (so also for the code\'s floating point); in exact arithmetic: B\' = H*B; for every square '
         'basis with linearly independent rows the run terminates (from some fuel on) and every returning run yields an LLL-reduced B\' '
         '(|mu_ij| <= 1/2, Lovasz with 3/4; exact Gram-Schmidt by the textbook formulas; no model-computed flag any more); for a symmetric positive-definite Gram matrix Q, '
         'Cholesky::find returns a decomposition with positive diagonal whose value at every integer x is x^T Q x, and the short-vector '
         'enumeration on it returns exactly one of x, -x, with its value, for every non-zero integer x with x^T Q x <= c. The model is tied to /repo by '
         'comparing (B\', H), the Cholesky decomposition, values and short-vector lists of impl_svc with the PrimFloat instance bit for bit '
         '(integer-valued inputs), and with the extracted exact instance where both must agree.',
    note='Floating-point error, sufficiency of the specific fuel formula lll_fuel (termination of the exact LLL is proved for SOME fuel) and '
         'find_muk are not proved: for the binary64 code reducedness '
         '(exact Gram-Schmidt of H*B, tolerance 1e-6), brute-force short vectors and known unit counts are oracle checks on the explored '
         'inputs. The exact instance idealises f64 as Q and i64 as Z (no NaN, no saturation); x/0 = 0 there.',
    ref='DESIGN.md section 4, C20')
TRUSTED_EXTRA = ['coqc vm_compute evaluation of Coq primitive floats (PrimFloat = IEEE binary64, as Rust f64) for the correspondence runs; '
                 'python parsing of the printed results (vp/props/c20.py)']
TIMEOUT = 900

# ---------------------------------------------------------------- exact linear algebra (oracle side)

def det_bareiss(M):
    """determinant of an integer matrix (fraction-free); for rational entries: of the matrix scaled to integers
    (same sign and same zero-ness)"""
    n = len(M)
    den = 1
    for r in M:
        for x in r:
            if isinstance(x, Fraction): den = den * x.denominator // math.gcd(den, x.denominator)
    A = [[int(x * den) for x in r] for r in M]
    sign, prev = 1, 1
    for k in range(n - 1):
        if A[k][k] == 0:
            p = next((i for i in range(k + 1, n) if A[i][k] != 0), None)
            if p is None: return 0
            A[k], A[p] = A[p], A[k]; sign = -sign
        for i in range(k + 1, n):
            for j in range(k + 1, n):
                A[i][j] = (A[i][j] * A[k][k] - A[i][k] * A[k][j]) // prev
        prev = A[k][k]
    return sign * A[n - 1][n - 1]

def matmul(A, B):
    return [[sum(A[i][k] * B[k][j] for k in range(len(B))) for j in range(len(B[0]))] for i in range(len(A))]

def gram_schmidt(B):
    """exact: b*_i = b_i - sum_{j<i} mu_ij b*_j, mu_ij = <b_i, b*_j>/<b*_j, b*_j>"""
    n = len(B)
    bs, mu, nr = [], [[Fraction(0)] * n for _ in range(n)], []
    for i in range(n):
        v = [Fraction(x) for x in B[i]]
        for j in range(i):
            if nr[j] == 0: return None
            mu[i][j] = sum(Fraction(x) * y for x, y in zip(B[i], bs[j])) / nr[j]
            v = [a - mu[i][j] * b for a, b in zip(v, bs[j])]
        bs.append(v); nr.append(sum(a * a for a in v))
    return bs, mu, nr

EPS = Fraction(1, 10 ** 6)

def reduced_defect(B):
    g = gram_schmidt(B)
    if g is None: return 'degenerate Gram-Schmidt'
    _, mu, nr = g
    n = len(B)
    if any(x <= 0 for x in nr): return 'zero Gram-Schmidt vector'
    for i in range(n):
        for j in range(i):
            if abs(mu[i][j]) > Fraction(1, 2) + EPS:
                return '|mu[%d][%d]| = %.12g > 1/2' % (i, j, float(abs(mu[i][j])))
    for i in range(1, n):
        if nr[i] < (Fraction(3, 4) - EPS - mu[i][i - 1] ** 2) * nr[i - 1]:
            return 'Lovasz condition fails at %d: |b*_%d|^2 = %.12g < (3/4 - mu^2) |b*_%d|^2 = %.12g' % (
                i, i, float(nr[i]), i - 1, float((Fraction(3, 4) - mu[i][i - 1] ** 2) * nr[i - 1]))
    return None

def is_num(x): return isinstance(x, (int, Fraction)) and not isinstance(x, bool)

def o_lll(B):
    n = len(B)
    def orc(ia):
        if ia.kind != 'ok': return 'lll did not return: %s' % ia.raw[:160]
        Bp, H = ia.val
        if len(H) != n or any(len(r) != n or not all(isinstance(x, int) for x in r) for r in H):
            return 'H is not an integer %dx%d matrix' % (n, n)
        d = det_bareiss(H)
        if d not in (1, -1): return 'det H = %d' % d
        HB = matmul(H, B)
        if len(Bp) != n or any(len(r) != len(B[0]) for r in Bp): return 'shape of B\''
        for i in range(n):
            for j in range(len(B[0])):
                if not is_num(Bp[i][j]): return 'B\'[%d][%d] = %s is not finite' % (i, j, Bp[i][j])
                # B' is computed in floating point: 1e-9 relative to the size of the terms of (H*B)[i][j]
                if abs(Bp[i][j] - HB[i][j]) > Fraction(1, 10 ** 9) * max(1, sum(abs(H[i][k] * B[k][j]) for k in range(n))):
                    return 'B\'[%d][%d] = %s but (H*B) = %s' % (i, j, Bp[i][j], HB[i][j])
        return reduced_defect(HB)
    return orc

def quad(Q, x):
    return sum(Q[i][j] * x[i] * x[j] for i in range(len(x)) for j in range(len(x)))

def inv_diag(Q):
    """diagonal of Q^-1 (Fractions) by Gauss-Jordan"""
    n = len(Q)
    A = [[Fraction(x) for x in r] + [Fraction(int(i == j)) for j in range(n)] for i, r in enumerate(Q)]
    for c in range(n):
        p = next(i for i in range(c, n) if A[i][c] != 0)
        A[c], A[p] = A[p], A[c]
        piv = A[c][c]; A[c] = [x / piv for x in A[c]]
        for i in range(n):
            if i != c and A[i][c] != 0:
                f = A[i][c]; A[i] = [a - f * b for a, b in zip(A[i], A[c])]
    return [A[i][n + i] for i in range(n)]

def isqrt_floor(fr):
    return math.isqrt(fr.numerator * fr.denominator) // fr.denominator if fr >= 0 else 0

def box_of(Q, c):
    """|x_i| <= sqrt(c (Q^-1)_ii) for every x with x^T Q x <= c"""
    return [isqrt_floor(c * d) + 1 for d in inv_diag(Q)]

def brute_short(Q, c):
    n = len(Q); box = box_of(Q, c)
    out = set()
    def rec(i, x):
        if i == n:
            if any(x) and quad(Q, x) <= c:
                k = next(j for j in range(n - 1, -1, -1) if x[j])
                out.add(tuple(x) if x[k] < 0 else tuple(-t for t in x))
            return
        for v in range(-box[i], box[i] + 1):
            rec(i + 1, x + [v])
    rec(0, [])
    return out

def canon_sign(x):
    k = next((j for j in range(len(x) - 1, -1, -1) if x[j]), None)
    if k is None: return None
    return tuple(x) if x[k] < 0 else tuple(-t for t in x)

def o_short(Q, c):
    def orc(ia):
        if ia.kind != 'ok': return 'find_short_vectors did not return: %s' % ia.raw[:160]
        want = brute_short(Q, c)
        seen = set()
        for v, x in ia.val:
            k = canon_sign(x)
            if k is None: return 'zero vector returned'
            if k in seen: return 'vector %s returned twice (up to sign)' % (x,)
            seen.add(k)
            qx = quad(Q, x)
            if not is_num(v) or abs(v - qx) > Fraction(1, 10 ** 6) * max(1, qx):
                return 'value %s for x = %s, x^T Q x = %s' % (v, x, qx)
            if qx > c: return 'x = %s returned with Q(x) = %s > c = %s' % (x, qx, c)
        if seen != want:
            miss = sorted(want - seen)[:3]
            return 'missing vectors (up to sign) %s; %d returned, %d expected' % (miss, len(seen), len(want))
        return None
    return orc

def chol_exact(Q):
    """Cholesky::find in exact arithmetic (same loops)"""
    n = len(Q)
    q = [[Fraction(0)] * n for _ in range(n)]
    for i in range(n):
        for j in range(i, n): q[i][j] = Fraction(Q[i][j])
    for i in range(n):
        if q[i][i] == 0: return None
        for j in range(i + 1, n):
            q[j][i] = q[i][j]; q[i][j] /= q[i][i]
        for k in range(i + 1, n):
            for l in range(k, n): q[k][l] -= q[k][i] * q[i][l]
    for i in range(n):
        for j in range(i): q[i][j] = Fraction(0)
    return q

def pow2(x): return x > 0 and x.numerator & (x.numerator - 1) == 0 and x.denominator & (x.denominator - 1) == 0

def float_exact_form(Q):
    """Sufficient condition for the double-precision enumeration to coincide with the exact one, boundary included:
    the exact decomposition has powers of two on the diagonal and small dyadic entries elsewhere. Then every
    operation of Cholesky::find and dfs is exact (divisions are by powers of two, all numbers are dyadic with
    few bits), except sqrt at non-squares, where sqrt(t) - u stays ~1e-8 away from every integer (t, u dyadic
    with denominators <= 2^10), far more than the rounding error."""
    q = chol_exact(Q)
    if q is None: return False
    n = len(Q)
    for i in range(n):
        if not pow2(q[i][i]) or q[i][i].numerator > 64 or q[i][i].denominator > 4: return False
        for j in range(i + 1, n):
            d = q[i][j].denominator
            if d & (d - 1) or d > 16 or abs(q[i][j].numerator) > 1 << 12: return False
    return max(abs(x) for r in Q for x in r) < 1 << 12

def o_value(Q, x):
    def orc(ia):
        if ia.kind != 'ok' or not is_num(ia.val): return 'find_value: %s' % ia.raw[:160]
        qx = quad(Q, x)
        if abs(ia.val - qx) > Fraction(1, 10 ** 9) * max(1, abs(qx)): return 'find_value = %s, x^T Q x = %s' % (ia.val, qx)
        return None
    return orc

def o_muk(expected, r, s):
    def orc(ia):
        if ia.kind != 'ok': return 'find_muk did not return: %s' % ia.raw[:200]
        w, rr, ss = ia.val
        if (rr, ss) != (r, s): return 'numerical roots: signature (%d, %d), expected (%d, %d)' % (rr, ss, r, s)
        if w != expected: return 'find_muk = %d, the field has %d roots of unity' % (w, expected)
        return None
    return orc

# ---------------------------------------------------------------- the binary64 model inside coqc

_tok = re.compile(r"-?\d+|[A-Za-z_][\w']*|[()\[\];,]")

def parse_coq(s):
    toks = _tok.findall(s); pos = 0
    def peek(): return toks[pos] if pos < len(toks) else None
    def atom():
        nonlocal pos
        t = toks[pos]; pos += 1
        if t == '(':
            items = [app()]
            while peek() == ',':
                pos += 1; items.append(app())
            assert toks[pos] == ')', toks[pos]; pos += 1
            return items[0] if len(items) == 1 else tuple(items)
        if t == '[':
            items = []
            if peek() == ']':
                pos += 1; return items
            items.append(expr())
            while peek() == ';':
                pos += 1; items.append(expr())
            assert toks[pos] == ']'; pos += 1
            return items
        if t[0] == '-' or t[0].isdigit(): return int(t)
        return Id(t)
    def app():
        head = atom()
        args = []
        while peek() is not None and peek() not in (')', ']', ';', ','):
            args.append(atom())
        return ('app', head, args) if args else head
    def expr():
        nonlocal pos
        items = [app()]
        while peek() == ',':
            pos += 1; items.append(app())
        return items[0] if len(items) == 1 else tuple(items)
    r = expr()
    assert pos == len(toks), (pos, len(toks))
    return r

def fl(me):
    m, e = me
    if e == 9999: return Id('nan') if m == 0 else Id('inf') if m > 0 else Id('ninf')
    return Fraction(m) * (Fraction(2) ** e)

PANIC = {'POverflow': 'overflow', 'PDiv0': 'div0', 'PAssert': 'assert', 'PIndex': 'index', 'PUnwrap': 'unwrap', 'POther': 'other'}

def outcome_ans(t, conv):
    if t == Id('OutOfFuel'): return Ans('outoffuel')
    if isinstance(t, tuple) and t[0] == 'app':
        h, args = t[1], t[2]
        if h == Id('Panic'): return Ans('panic ' + PANIC[str(args[0])])
        if h == Id('Done'): return Ans('ok ' + enc(conv(args[0])))
    raise ValueError('unexpected model output %r' % (t,))

def coq_mat(M): return '[' + '; '.join('[' + '; '.join(str(int(x)) for x in r) + ']' for r in M) + ']'
def coq_vec(v): return '[' + '; '.join(str(int(x)) for x in v) + ']'

def float_query(ml):
    """model line -> (Coq expression, converter of the parsed Done-value)"""
    ts = lib.parse_terms(ml)
    op = str(ts[0])
    if op == 'lll':
        conv = lambda v: [[[fl(x) for x in r] for r in v[0]], v[1]]
        if all(isinstance(x, int) for r in ts[1] for x in r):
            return 'lll_float %s' % coq_mat(ts[1]), conv
        def dy(x):
            x = Fraction(x); e = x.denominator.bit_length() - 1
            assert x.denominator == 1 << e and abs(x.numerator) < 1 << 53
            return '(%d, %d)' % (x.numerator, e)
        return 'lll_float_dy [%s]' % '; '.join('[' + '; '.join(dy(x) for x in r) + ']' for r in ts[1]), conv
    if op == 'cholesky_find':
        return 'cholesky_float %s' % coq_mat(ts[1]), lambda v: [[fl(x) for x in r] for r in v]
    if op == 'find_value':
        return 'value_float %s %s' % (coq_mat(ts[1]), coq_vec(ts[2])), lambda v: fl(v)
    if op == 'short_vectors':
        return ('short_float %s (%d) (%d)' % (coq_mat(ts[1]), ts[2], ts[3]),
                lambda v: [[fl((t[0], t[1])), t[2]] for t in v])
    raise ValueError(op)

COQ_HEAD = ('From RNT.Model Require Import Base Lll LllFloat.\nOpen Scope Z_scope.\n'
            'Set Printing Width 1000000.\nSet Printing Depth 1000000.\n')

def run_coq_shard(workdir, k, items):
    """items: list of (expr, conv); returns list of Ans"""
    path = os.path.join(workdir, 'C20cases_%d.v' % k)
    with open(path, 'w') as f:
        f.write(COQ_HEAD)
        for e, _ in items: f.write('Eval vm_compute in (%s).\n' % e)
    cmd = ['timeout', '800', 'coqc', '-q', '-noglob', '-Q', os.path.join(lib.COQ, 'Model'), 'RNT.Model', path]
    p = subprocess.run(cmd, stdout=subprocess.PIPE, stderr=subprocess.STDOUT, text=True, cwd=workdir)
    vals = re.findall(r'^\s+= (.*?)\n\s+: ', p.stdout, re.M | re.S)
    if p.returncode != 0 or len(vals) != len(items):
        return [Ans('modelerror coqc rc=%s got %d of %d: %s' % (p.returncode, len(vals), len(items), p.stdout[-300:].replace('\n', ' ')))] * len(items)
    out = []
    for v, (_, conv) in zip(vals, items):
        try: out.append(outcome_ans(parse_coq(v), conv))
        except Exception as ex: out.append(Ans('modelerror %r on %s' % (ex, v[:200])))
    return out

def run_float_model(lines):
    if not lines: return []
    lib.build_coq(['Model/LllFloat.vo'])
    items = [float_query(l) for l in lines]
    jobs = max(1, min(lib.NCPU, (len(items) + 11) // 12))
    shards = [list(range(k, len(items), jobs)) for k in range(jobs)]
    workdir = tempfile.mkdtemp(prefix='.c20cases_', dir=lib.ROOT)
    res = [None] * len(items)
    try:
        with ThreadPoolExecutor(jobs) as ex:
            for idx, r in zip(shards, ex.map(lambda a: run_coq_shard(workdir, a[0], [items[i] for i in a[1]]), enumerate(shards))):
                for i, a in zip(idx, r): res[i] = a
    finally:
        shutil.rmtree(workdir, ignore_errors=True)
    return res

def run_model(lines):
    """called by vp/check with all model lines of the property"""
    kinds = []
    for l in lines:
        op = l.split(' ', 1)[0]
        kinds.append('exact' if op.endswith('_exact') else 'none' if op == 'find_muk' else 'float')
    fi = [i for i, k in enumerate(kinds) if k == 'float']
    ei = [i for i, k in enumerate(kinds) if k == 'exact']
    res = [Ans('ok none')] * len(lines)
    with ThreadPoolExecutor(2) as ex:
        ff = ex.submit(run_float_model, [lines[i] for i in fi])
        fe = ex.submit(lib.run_parallel, lib.MODEL_BIN, [lines[i] for i in ei], TIMEOUT)
        for i, a in zip(fi, ff.result()): res[i] = a
        for i, a in zip(ei, fe.result()): res[i] = a
    return res

# ---------------------------------------------------------------- comparisons with the exact model

EXACT_STATS = dict(lll_same_H=0, lll_other_branch=0)
def _report():
    if EXACT_STATS['lll_same_H'] + EXACT_STATS['lll_other_branch']:
        print('C20 info: exact-rational run of the model returned the same H as the implementation in %d of %d lll cases '
              '(the others took a different branch at a rounding boundary; each output is checked by the oracle)' % (
                  EXACT_STATS['lll_same_H'], EXACT_STATS['lll_same_H'] + EXACT_STATS['lll_other_branch']))
atexit.register(_report)

def cmp_lll_exact(B):
    def cmp(ia, ma):
        if ma.kind != 'ok': return 'exact model: %s' % ma.raw[:100]
        Bq, Hq, flag = ma.val
        # the exact run must itself be a unimodular transform; its reducedness flag is the [C] theorem's hypothesis
        if matmul(Hq, B) != Bq: return 'exact model: B\' != H*B'
        if flag is not True: return 'exact model: output not LLL-reduced (flag false)'
        if ia.kind == 'ok' and ia.val[1] == Hq: EXACT_STATS['lll_same_H'] += 1
        else: EXACT_STATS['lll_other_branch'] += 1
        return None
    return cmp

def close(a, b, rel=Fraction(1, 10 ** 9)):
    return is_num(a) and is_num(b) and abs(a - b) <= rel * max(1, abs(a), abs(b))

def cmp_short_exact(ia, ma):
    if ia.kind != 'ok' or ma.kind != 'ok': return lib.default_compare(ia, ma)
    if [x for _, x in ia.val] != [x for _, x in ma.val]:
        return 'vectors differ: implementation %s vs exact model %s' % (ia.raw[:150], ma.raw[:150])
    for (v, _), (w, _) in zip(ia.val, ma.val):
        if not close(v, w): return 'value %s vs exact %s' % (v, w)
    return None

def cmp_mat_close(ia, ma):
    if ia.kind != 'ok' or ma.kind != 'ok': return lib.default_compare(ia, ma)
    A, B = ia.val, ma.val
    if len(A) != len(B) or any(len(r) != len(s) for r, s in zip(A, B)): return 'shape'
    for r, s in zip(A, B):
        for a, b in zip(r, s):
            if not close(a, b): return 'entry %s vs exact %s' % (a, b)
    return None

def cmp_val_close(ia, ma):
    if ia.kind != 'ok' or ma.kind != 'ok': return lib.default_compare(ia, ma)
    return None if close(ia.val, ma.val) else 'value %s vs exact %s' % (ia.val, ma.val)

# ---------------------------------------------------------------- generators

def rand_unimodular(rng, n, steps, size):
    U = [[int(i == j) for j in range(n)] for i in range(n)]
    for _ in range(steps):
        i, j = rng.sample(range(n), 2)
        if rng.random() < 0.25:
            U[i], U[j] = U[j], U[i]
        else:
            q = rng.randint(-size, size)
            U[i] = [a + q * b for a, b in zip(U[i], U[j])]
    return U

def gen_bases(rng, th):
    out = []
    reps = 8 if not th else 60
    for n in range(2, 9):
        for bound in (1, 3, 10, 100, 10 ** 4):
            for _ in range(reps if n <= 6 else max(2, reps // 2)):
                out.append(('uniform-%d' % bound if bound < 10 ** 4 else 'uniform-1e4',
                            [[rng.randint(-bound, bound) for _ in range(n)] for _ in range(n)]))
        for _ in range(reps):
            # unimodular re-basing of a short basis, entries kept <= 10^4
            for attempt in range(20):
                S = [[rng.randint(-3, 3) + (rng.choice([2, 5, 9]) if i == j else 0) for j in range(n)] for i in range(n)]
                U = rand_unimodular(rng, n, rng.randint(n, 4 * n), 3)
                M = matmul(U, S)
                if max(abs(x) for r in M for x in r) <= 10 ** 4: break
            else:
                M = S
            out.append(('rebased', M))
        for _ in range(max(2, reps // 2)):
            # knapsack-type: identity next to a column of big numbers
            M = [[int(i == j) for j in range(n)] for i in range(n)]
            for i in range(n): M[i][n - 1] = rng.randint(1, 10 ** 4)
            out.append(('knapsack', M))
            # near-dependent rows
            r0 = [rng.randint(-100, 100) for _ in range(n)]
            M = [[rng.randint(1, 50) * x + rng.randint(-1, 1) for x in r0] for _ in range(n)]
            out.append(('near-dependent', M))
        out.append(('reduced', [[int(i == j) for j in range(n)] for i in range(n)]))
        out.append(('reduced', [[(i + 2) * int(i == j) for j in range(n)] for i in range(n)]))
        out.append(('descending-diagonal', [[(n - i) * 7 * int(i == j) for j in range(n)] for i in range(n)]))
    out.append(('unit-test', [[1, 1, 1], [-1, 0, 2], [3, 5, 6]]))
    # huge but exactly representable entries (|mu| >= 2^63: the size-reduction quotient does not fit a machine word; every
    # intermediate product stays exact because the other entries are tiny powers of two)
    for M in ([[1, 0], [2 ** 64, 1]], [[1, 0], [10 ** 19, 1]], [[2, 0], [-2 ** 70, 1]], [[1, 0], [-2 ** 63, 1]], [[1, 0], [2 ** 63 + 2 ** 11, 1]],
              [[4, 0, 0], [0, 2, 0], [2 ** 70, 3 * 2 ** 66, 1]], [[1, 0, 0], [2 ** 65, 1, 0], [0, 2 ** 66, 1]]):
        out.append(('huge-exact', M))
    # dimensions 4 and 5 with small entries (many exact ties) and with large entries
    for n in (4, 5):
        for bound in (5, 10 ** 4):
            for _ in range(2 * reps):
                out.append(('dim%d-%s' % (n, 'small' if bound == 5 else 'large'),
                            [[rng.randint(-bound, bound) for _ in range(n)] for _ in range(n)]))
    # full 53-bit mantissas (exactly representable dyadic rationals): B' is then rounded as well
    for n in range(2, 7):
        for _ in range(reps):
            sc = rng.choice([0, 0, 3, 10])
            out.append(('dyadic53', [[Fraction(rng.randrange(-(1 << 53) + 1, 1 << 53), 1 << (53 - sc)) for _ in range(n)] for _ in range(n)]))
    # the same lattices at other scales (multiplication by a power of two is exact in binary64): reducedness is scale invariant,
    # an absolute tolerance in the Lovasz or the size-reduction test is not
    base = [M for t_, M in out if t_ in ('rebased', 'near-dependent', 'unit-test', 'uniform-100', 'knapsack') and len(M) <= 5]
    rng.shuffle(base)
    for M in base[:24 if not th else 160] + [[[1, 1, 1], [-1, 0, 2], [3, 5, 6]], [[201, 37], [1648, 297]]]:
        k = rng.choice([20, 20, 40, 150, -60, -200])
        sc_ = Fraction(1, 2 ** k) if k > 0 else Fraction(2 ** -k)
        out.append(('scaled-2^%d' % -k, [[x * sc_ for x in r] for r in M]))
    return out

def cyclotomic(n):
    """Phi_n, lowest degree first, by exact division of x^n - 1"""
    def pdiv(a, b):
        a = a[:]; q = [0] * (len(a) - len(b) + 1)
        for i in range(len(q) - 1, -1, -1):
            q[i] = a[i + len(b) - 1] // b[-1]
            for j, c in enumerate(b): a[i + j] -= q[i] * c
        assert not any(a)
        return q
    p = [-1] + [0] * (n - 1) + [1]
    for d in range(1, n):
        if n % d == 0: p = pdiv(p, cyclotomic(d))
    return p

def muk_fields():
    F = []
    for n in range(3, 13):
        ph = cyclotomic(n); deg = len(ph) - 1
        F.append(('cyclotomic', ph, n if n % 2 == 0 else 2 * n, 0, deg // 2))
    for d in (2, 3, 5, 6, 7, 10, 13, 17, 21, 101):
        F.append(('real-quadratic', [-d, 0, 1], 2, 2, 0))
    for d in (1, 2, 3, 5, 6, 7, 11, 15, 19, 23, 163):
        F.append(('imaginary-quadratic', [d, 0, 1], 4 if d == 1 else 6 if d == 3 else 2, 0, 1))
    F.append(('imaginary-quadratic', [1, 1, 1], 6, 0, 1))
    F.append(('imaginary-quadratic', [2, 1, 1], 2, 0, 1))
    for d in (2, 3, 5, 6, 7, 10):
        F.append(('pure-cubic', [-d, 0, 0, 1], 2, 1, 1))
    F.append(('cubic', [1, -3, 0, 1], 2, 3, 0))       # x^3 - 3x + 1, totally real
    F.append(('cubic', [-1, -1, 0, 1], 2, 1, 1))      # x^3 - x - 1
    F.append(('biquadratic', [1, 0, -10, 0, 1], 2, 4, 0))     # Q(sqrt2, sqrt3)
    F.append(('biquadratic', [9, 0, -2, 0, 1], 8, 0, 2))      # Q(sqrt2, i) = Q(zeta_8)
    F.append(('biquadratic', [36, 0, -8, 0, 1], 4, 0, 2))     # Q(i, sqrt5)
    F.append(('biquadratic', [64, 0, -4, 0, 1], 6, 0, 2))     # Q(sqrt-3, sqrt5)
    F.append(('biquadratic', [9, 0, 14, 0, 1], 2, 0, 2))      # Q(sqrt-2, sqrt-5)
    F.append(('biquadratic', [1, 0, -1, 0, 1], 12, 0, 2))     # Q(i, sqrt3) = Q(zeta_12)
    F.append(('biquadratic', [25, 0, 2, 0, 1], 6, 0, 2))      # Q(sqrt-3, sqrt2): (sqrt2 + sqrt-3)^2 = -1 + 2 sqrt-6
    # non-monic defining polynomials of the same fields: Phi_n(2x) (leading coefficient 2^phi(n)) and reversed real/imaginary quadratics
    for n in (3, 4, 5, 8, 12):
        ph = cyclotomic(n); deg = len(ph) - 1
        F.append(('cyclotomic-nonmonic', [c * 2 ** i for i, c in enumerate(ph)], n if n % 2 == 0 else 2 * n, 0, deg // 2))
    F.append(('cyclotomic-nonmonic', [1, 2, 4, 8, 16], 10, 0, 2))         # 16x^4 + 8x^3 + 4x^2 + 2x + 1: Q(zeta_5)
    F.append(('cyclotomic-nonmonic', [1, 0, -4, 0, 16], 12, 0, 2))        # 16x^4 - 4x^2 + 1: Q(zeta_12)
    F.append(('real-quadratic-nonmonic', [-1, 0, 7], 2, 2, 0))
    F.append(('imaginary-quadratic-nonmonic', [1, 0, 3], 6, 0, 1))
    F.append(('imaginary-quadratic-nonmonic', [1, 2, 4], 6, 0, 1))        # 4x^2 + 2x + 1 = Phi_3(2x)
    F.append(('cubic-nonmonic', [-1, 0, 0, 2], 2, 1, 1))
    F.append(('cubic-nonmonic', [1, 1, 0, 2], 2, 1, 1))         # 2x^3 + x + 1 (disc -116)
    return F

# polynomials on which Newton's iteration has attracting cycles or large basins of slow convergence: a start that does not
# converge must be rejected and redrawn, so the count of real/complex embeddings must be right for EVERY seed
NEWTON_HOSTILE = [('cubic-newton-cycle', [2, -2, 0, 1], 2, 1, 1),        # x^3 - 2x + 2: the 2-cycle 0 <-> 1
                  ('cubic-newton-cycle', [-2, -2, 0, 1], 2, 1, 1),       # x^3 - 2x - 2 (mirror image)
                  ('quartic-newton-hostile', [5, 0, -1, 0, 1], 2, 0, 2)] # x^4 - x^2 + 5, no real root (irreducible: disc of t^2 - t + 5 is -19)

PROFILES = ('debug', 'release')

def cases(rng, tier):
    th = tier == 'thorough'
    out = []
    # ---- lll
    for tag, B in gen_bases(rng, th):
        n = len(B)
        sing = det_bareiss(B) == 0
        ident = [[int(i == j) for j in range(n)] for i in range(n)]
        out.append(Case('lll', line('lll', B), oracle=None if sing else o_lll(B), always_oracle=not sing,
                        nontrivial=not sing and tag != 'reduced', tag='lll-' + ('singular' if sing else tag)))
        if not sing and (th or rng.random() < 0.5):
            out.append(Case('lll_exact', line('lll', B), model=line('lll_exact', B), compare=cmp_lll_exact(B),
                            nontrivial=False, tag='lll-exact-model'))
    # malformed shapes (outside the property; the panic class must agree)
    for B in ([], [[1, 2]], [[1, 2, 3], [4, 5, 6]], [[1, 0], [0, 1], [1, 1]], [[3, 1], [1, 3], [7, 9]], [[1], [2]]):
        out.append(Case('lll', line('lll', B), nontrivial=False, tag='lll-shape'))
    # ---- Cholesky / short vectors
    nq = 0
    target = 160 if not th else 1200
    while nq < target:
        n = rng.randint(1, 5)
        bound = rng.choice([1, 2, 3, 5, 10])
        B = [[rng.randint(-bound, bound) for _ in range(n)] for _ in range(n)]
        if det_bareiss(B) == 0: continue
        if rng.random() < 0.5 and n >= 2:
            B = matmul(rand_unimodular(rng, n, n, 2), B)
        Q = matmul(B, [list(c) for c in zip(*B)])
        mn = min(Q[i][i] for i in range(n))
        c0 = rng.choice([mn, mn + 1, 2 * mn, rng.randint(1, 4 * mn), rng.randint(0, mn)])
        c = Fraction(2 * c0 + 1, 2)
        box = box_of(Q, c)
        vol = 1
        for b in box: vol *= 2 * b + 1
        if vol > (20000 if not th else 200000): continue
        nq += 1
        out.append(Case('cholesky_find', line('cholesky_find', Q), tag='cholesky'))
        out.append(Case('cholesky_exact', line('cholesky_find', Q), model=line('cholesky_exact', Q), compare=cmp_mat_close, tag='cholesky-exact-model'))
        x = [rng.randint(-20, 20) for _ in range(n)]
        out.append(Case('find_value', line('find_value', Q, x), oracle=o_value(Q, x), always_oracle=True, tag='find_value'))
        out.append(Case('find_value_exact', line('find_value', Q, x), model=line('find_value_exact', Q, x), compare=cmp_val_close, tag='find_value-exact-model'))
        out.append(Case('short_vectors', line('short_vectors', Q, 2 * c0 + 1, 1), oracle=o_short(Q, c), always_oracle=True,
                        tag='short-nonboundary'))
        out.append(Case('short_vectors_exact', line('short_vectors', Q, 2 * c0 + 1, 1), model=line('short_vectors_exact', Q, c),
                        compare=cmp_short_exact, tag='short-exact-model'))
        # exact boundary: in general the enumeration may legitimately depend on rounding (bit-exact correspondence
        # only); when every floating-point operation is exact the oracle applies as well
        if float_exact_form(Q):
            out.append(Case('short_vectors', line('short_vectors', Q, c0, 0), oracle=o_short(Q, Fraction(c0)), always_oracle=True,
                            tag='short-attained'))
        else:
            out.append(Case('short_vectors', line('short_vectors', Q, c0, 0), nontrivial=False, tag='short-boundary'))
    # bounds that are attained exactly, on forms whose decomposition is exact in binary64 (R^T D R with D powers of
    # two and R unit upper triangular with integer or half-integer entries): model, implementation, exact model and
    # brute force must all agree, the vectors with x^T Q x = c included (a change of `rem < 0.0` into `rem <= 0.0`
    # drops exactly those)
    att = [([[2, 1], [1, 1]], 2), ([[2, 1], [1, 1]], 1), ([[1, 0], [0, 1]], 1), ([[1, 0, 0], [0, 1, 0], [0, 0, 1]], 1),
           ([[1, 0, 0], [0, 1, 0], [0, 0, 1]], 2), ([[2, 0], [0, 2]], 2), ([[4]], 4), ([[1]], 9)]
    natt = 0
    want_att = 60 if not th else 600
    while natt < want_att:
        n = rng.randint(1, 4)
        D = [Fraction(rng.choice([1, 1, 2, 2, 4, Fraction(1, 2)])) for _ in range(n)]
        R = [[Fraction(int(i == j)) if j <= i else Fraction(rng.randint(-4, 4), rng.choice([1, 1, 2])) for j in range(n)] for i in range(n)]
        Qf = [[sum(R[k][i] * D[k] * R[k][j] for k in range(n)) for j in range(n)] for i in range(n)]
        if any(x.denominator != 1 for r in Qf for x in r): continue
        Q = [[int(x) for x in r] for r in Qf]
        if not float_exact_form(Q): continue
        x0 = [rng.randint(-2, 2) for _ in range(n)]
        if not any(x0): continue
        c0 = rng.choice([quad(Q, x0), quad(Q, x0), min(Q[i][i] for i in range(n))])
        vol = 1
        for b in box_of(Q, Fraction(c0)): vol *= 2 * b + 1
        if vol > (20000 if not th else 200000): continue
        natt += 1
        att.append((Q, c0))
    for Q, c0 in att:
        assert float_exact_form(Q)
        out.append(Case('short_vectors', line('short_vectors', Q, c0, 0), oracle=o_short(Q, Fraction(c0)), always_oracle=True,
                        tag='short-attained'))
        out.append(Case('short_vectors_exact', line('short_vectors', Q, c0, 0), model=line('short_vectors_exact', Q, c0),
                        tag='short-attained-exact-model'))       # default comparison: identical lists and values
    # general (dense, non-tridiagonal) 3x3 and 4x4 Gram matrices for Cholesky::find / find_value
    for n in (3, 4):
        k = 0
        while k < (25 if not th else 250):
            B = [[rng.randint(-4, 4) for _ in range(n)] for _ in range(n)]
            if det_bareiss(B) == 0: continue
            if rng.random() < 0.5: B = matmul(rand_unimodular(rng, n, 2 * n, 2), B)
            Q = matmul(B, [list(c) for c in zip(*B)])
            offd = [Q[i][j] for i in range(n) for j in range(i + 1, n)]
            if len(set(offd)) < len(offd) - 1 or 0 in offd: continue        # unequal, non-zero off-diagonal entries
            k += 1
            out.append(Case('cholesky_find', line('cholesky_find', Q), tag='cholesky-dense%d' % n))
            out.append(Case('cholesky_exact', line('cholesky_find', Q), model=line('cholesky_exact', Q), compare=cmp_mat_close,
                            tag='cholesky-exact-model'))
            for _ in range(3):
                x = [rng.randint(-30, 30) for _ in range(n)]
                out.append(Case('find_value', line('find_value', Q, x), oracle=o_value(Q, x), always_oracle=True, tag='find_value-dense%d' % n))
    out.append(Case('short_vectors', line('short_vectors', [[2, 1], [1, 1]], -1, 0), nontrivial=False, tag='short-negative-bound'))
    out.append(Case('short_vectors', line('short_vectors', [[0, 0], [0, 0]], 3, 0), nontrivial=False, tag='short-degenerate'))
    out.append(Case('short_vectors', line('short_vectors', [[1, 2], [2, 1]], 3, 0), nontrivial=False, tag='short-degenerate'))
    out.append(Case('cholesky_find', line('cholesky_find', [[1, 2, 3], [4, 5]]), nontrivial=False, tag='cholesky-shape'))
    out.append(Case('find_value', line('find_value', [[2, 1], [1, 1]], [1, 2, 3]), nontrivial=False, tag='find_value-shape'))
    # ---- roots of unity
    nseeds = 4 if not th else 25
    for tag, f, w, r, s in muk_fields():
        for _ in range(nseeds):
            seed = rng.getrandbits(63)
            out.append(Case('find_muk', line('find_muk', f, seed), compare=lambda ia, ma: None, oracle=o_muk(w, r, s),
                            always_oracle=True, tag='muk-' + tag))
    for tag, f, w, r, s in NEWTON_HOSTILE[:3]:
        for _ in range(60 if not th else 400):
            seed = rng.getrandbits(63)
            out.append(Case('find_muk', line('find_muk', f, seed), compare=lambda ia, ma: None, oracle=o_muk(w, r, s),
                            always_oracle=True, tag='muk-' + tag))
    # a slice of the cases again on the release build of the implementation (wrapping arithmetic, debug assertions off)
    out += lib.release_slice(out, rng, 0.1, mode_ops=())
    return out
