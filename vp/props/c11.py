"""C11 Hensel lifting: lift_factorization, one hensel_lift step, poly_coprime_witness / poly_ext_gcd."""
import lib
from lib import line, Id, Case
from props.polymod_common import *

PROVED = ['[P] hensel_step_spec (Cohen 3.5.5; any p > 1 dividing q, a monic): c = a1 b1 mod q p, a1 = a and b1 = b mod q, a1 monic of the degree of a, coefficients in [0, q p)',
          '[P] hensel_step_total: no panic / fuel exhaustion under the same preconditions',
          '[P] coprime_witness_spec (p prime, leading coefficients not divisible by p): whenever poly_coprime_witness returns, a u + b v = 1 mod p, u and v reduced '
          '(with the Bezout identity of num\'s extended_gcd and of poly_ext_gcd)',
          '[P] lift_factorization_spec (p prime, e >= 1, p not dividing lc(c), factors monic with c = lc * prod f_i mod p): if the routine returns, g_i monic, '
          'deg g_i = deg f_i, g_i = f_i mod p, coefficients in [0, p^e) (e >= 2), lc * prod g_i = c mod p^e and prod g_i = c * lc^-1 mod p^e; e = 1 returns the input',
          '[P] lift_factorization_total: the lift returns (no panic, no fuel exhaustion) when the monic factors are pairwise coprime mod p; '
          'with fuel sufficiency of num\'s extended_gcd (potential argument) and of poly_ext_gcd',
          '[P] coprime_witness_total: the Bezout witness exists for coprime arguments',
          '[P] lift_factorization_e1']
NOT_PROVED = []
RULE = ('lift_factorization on planted inputs: p in {2,3,5,7,13,101,2^61-1}, e in 1..12, 1..8 distinct monic irreducible factors mod p '
        '(total degree <= 10), c = lc * prod + p * (random), lc prime to p (also huge / negative), coefficients of c disguised by multiples '
        'of p and negative, factor order shuffled; exact factorisations over Z whose factors have zero p-adic digits below p^k (zero correction steps) with the mod-p factors given canonical, negative or shifted by multiples of p; a second stream takes the factors from the implementation\'s own factorize_mod_p of a '
        'random c that is squarefree mod p; single hensel_lift steps with q = p^k; coprime witness on coprime and non-coprime pairs; '
        'a separate stream outside the preconditions (duplicate factors, p | lc, wrong product). Non-trivial = at least 2 factors and e >= 2.')
CLAIM = dict(
    technique='Coq proof about the Gallina model of src/poly_mod/hensel.rs and prim.rs (ext gcd, coprime witness) + extracted-model-vs-implementation correspondence + independent oracle (the five clauses recomputed)',
    text='Proved for all inputs (no bound on p, e, degrees, number of factors): one Hensel step, the Bezout witness, and the whole multi-factor lift by induction on the factor list and on e (partial correctness + termination = total correctness). The model is tied to /repo by running the extracted model and impl_svc on the same inputs.',
    note='Total correctness under the stated preconditions (p prime, p not dividing lc(c), monic pairwise coprime factors with c = lc * prod mod p). p | lc(c) (outside the precondition) makes the implementation recurse without bound (see the comment in the generator).',
    ref='DESIGN.md section 4, C11')
TIMEOUT = 1200
PS = [2, 3, 5, 7, 13, 101, 2 ** 61 - 1]

def o_lift(p, e, c, fs):
    """preconditions hold by construction; the five clauses on the implementation's answer"""
    def orc(ia):
        if ia.kind != 'ok': return 'lift_factorization did not return: %s' % ia.raw[:100]
        gs = ia.val
        if e <= 1:
            return None if gs == [list(f) for f in fs] else 'e = %d must return the input factors' % e
        if len(gs) != len(fs): return 'number of factors changed'
        m = p ** e
        for g, f in zip(gs, fs):
            if not g or g[-1] != 1: return 'lifted factor %s is not monic' % (g,)
            if any(not (0 <= x < m) for x in g): return 'coefficients of %s are not in [0, p^e)' % (g,)
            if len(g) != len(f): return 'degree changed: %s from %s' % (g, f)
            if red(g, p) != red(f, p): return '%s is not congruent to %s mod p' % (g, f)
        cr = red(c, m)
        inv = pow(cr[-1], -1, m)
        target = red(zscal(inv, cr), m)
        if red(zprod(gs), m) != target: return 'product of the lifted factors is not c/lc(c) mod p^e'
        return None
    return orc

def o_step(p, q, c, a, b):
    def orc(ia):
        if ia.kind != 'ok': return 'hensel_lift did not return: %s' % ia.raw[:100]
        a1, b1, qr = ia.val
        if qr != q * p: return 'modulus %d, expected %d' % (qr, q * p)
        if red(zsub(c, zmul(a1, b1)), qr) != []: return 'c != a1 b1 mod q p'
        if red(zsub(a1, a), q) != [] or red(zsub(b1, b), q) != []: return 'a1, b1 do not reduce to a, b mod q'
        if len(a1) != len(a) or a1[-1] != 1: return 'a1 is not monic of the degree of a'
        if any(not (0 <= x < qr) for x in a1 + b1): return 'coefficients not in [0, q p)'
        return None
    return orc

def o_witness(a, b, p):
    def orc(ia):
        g = pgcd(a, b, p)
        if deg(g) != 0:
            return None if (ia.kind == 'panic' and ia.cls == 'other') else 'gcd is not a unit: expected the panic, got %s' % ia.raw[:100]
        if ia.kind != 'ok': return 'coprime pair, but %s' % ia.raw[:100]
        u, v = ia.val
        if red(zadd(zmul(a, u), zmul(b, v)), p) != [1]: return 'a u + b v != 1 mod p'
        if any(not (0 <= x < p) for x in u + v): return 'u, v not reduced'
        return None
    return orc

def planted(rng, p, th):
    """(c, factors) with c = lc * prod(factors) mod p, factors distinct monic irreducible, p not dividing lc"""
    for _ in range(100):
        k = rng.choice([1, 2, 2, 3, 3, 4, 5, 6, 7, 8])
        degs = []
        total = 0
        for _ in range(k):
            d = rng.choice([1, 1, 1, 2, 2, 3, 4])
            if total + d > 10: break
            degs.append(d); total += d
        fs = distinct_irreducibles(rng, p, degs)
        if fs: break
    lc = rng.choice([1, 1, rng.randrange(1, p), rng.randrange(1, p) - p, rng.getrandbits(80) * p + rng.randrange(1, p)])
    prod = zprod(fs)
    noise = [rng.randrange(-5, 6) if rng.random() < 0.7 else rng.getrandbits(70) for _ in range(len(prod) - 1)] + [0]
    c = zadd(zscal(lc, prod), zscal(p, noise))
    rng.shuffle(fs)
    return c, fs

PROFILES = ('debug', 'release')

def cases(rng, tier):
    th = tier == 'thorough'
    out = []
    n_planted = 700 if th else 110
    for i in range(n_planted):
        p = PS[i % len(PS)]
        e = rng.choice([1, 2, 2, 3, 3, 4, 5, 6, 8, 10, 12])
        c, fs = planted(rng, p, th)
        out.append(Case('pm_lift_factorization', line('pm_lift_factorization', p, e, c, fs), oracle=o_lift(p, e, c, fs), always_oracle=True,
                        nontrivial=(len(fs) >= 2 and e >= 2), tag='lift-planted-%dfac%s' % (min(len(fs), 4), '+' if len(fs) >= 4 else '')))
    # exact factorisations over Z with sparse p-adic digits: c = lc * prod F_i over Z with F_i = f_i + p^k g_i (k >= 2, or g_i = 0),
    # so the lifting steps below p^k have a ZERO correction term (the fixed point is reached for a while and then left again);
    # the mod-p factors are supplied canonical or as other representatives (negative / shifted by multiples of p, still monic)
    for i in range(600 if th else 120):
        p = PS[i % (len(PS) - 1)]
        k = rng.choice([2, 2, 3, 4])
        e = rng.choice([k, k + 1, k + 2, 2 * k + 1, 9])
        fs = distinct_irreducibles(rng, p, [rng.choice([1, 1, 1, 2, 3]) for _ in range(rng.choice([2, 2, 3, 4]))])
        if not fs: continue
        zero_g = rng.random() < 0.35
        Fs = [f if zero_g else zadd(f, zscal(p ** k, [rng.randrange(0, p) for _ in range(len(f) - 1)])) for f in fs]
        if rng.random() < 0.5: Fs = [[c_ - (p ** (k + 1) if rng.random() < 0.3 else 0) for c_ in F[:-1]] + [1] for F in Fs]
        lc = rng.choice([1, 1, 1, -1, rng.randrange(1, p), -5 if p != 5 else -3])
        c = zscal(lc, zprod(Fs))
        given = fs if rng.random() < 0.4 else [disguise(rng, f[:-1], p, 1) + [1] for f in fs]
        if rng.random() < 0.3: given = [[(x_ % p) - (p if x_ % p else 0) for x_ in f[:-1]] + [1] for f in fs]
        out.append(Case('pm_lift_factorization', line('pm_lift_factorization', p, e, c, given), oracle=o_lift(p, e, c, given), always_oracle=True,
                        nontrivial=e >= 2, tag='lift-zero-digits-%s' % ('exact' if zero_g else 'k%d' % k)))
    for p_, c_, fs_ in [(5, [1, 0, 1, 0, 1], [[1, 1, 1], [1, -1, 1]]), (7, [0, -1, 0, 1], [[0, 1], [1, 1], [-1, 1]]),
                        (3, [99, 119, 21, 1], [[1, 1], [0, 1], [2, 1]]), (3, [99, 119, 21, 1], [[1, 1], [9, 1], [11, 1]])]:
        for e in (2, 3, 4, 6):
            out.append(Case('pm_lift_factorization', line('pm_lift_factorization', p_, e, c_, fs_), oracle=o_lift(p_, e, c_, fs_), always_oracle=True,
                            nontrivial=True, tag='lift-zero-digits-fixed'))
    # factors from the implementation's own factorize_mod_p of a random c that is squarefree mod p
    pre = []
    for i in range(300 if th else 60):
        p = PS[i % len(PS)]
        d = rng.randrange(2, 11)
        c = [rng.randrange(-3 * p, 3 * p) if p < 2 ** 32 else rng.randrange(-p, p) for _ in range(d)] + [rng.randrange(1, p)]
        pre.append((p, c))
    ans = lib.run_parallel(lib.IMPL_BIN['debug'], [line('pm_factorize', c, p, p, 12345 + i, []) for i, (p, c) in enumerate(pre)])
    for (p, c), ia in zip(pre, ans):
        v, _ = rng_value(ia)
        if v is None or not v or any(e != 1 for _, e in v): continue
        fs = [g for g, _ in v]
        rng.shuffle(fs)
        e = rng.choice([2, 3, 4, 6, 9, 12])
        out.append(Case('pm_lift_factorization', line('pm_lift_factorization', p, e, c, fs), oracle=o_lift(p, e, c, fs), always_oracle=True,
                        nontrivial=len(fs) >= 2, tag='lift-own-factorisation'))
    # degenerate shapes inside the property
    for p in PS:
        f1 = random_irreducible(rng, p, 3)
        c = zscal(3 if p != 3 else 2, f1)
        for e in [1, 2, 5]:
            out.append(Case('pm_lift_factorization', line('pm_lift_factorization', p, e, c, [f1]), oracle=o_lift(p, e, c, [f1]),
                            nontrivial=False, tag='lift-single-factor'))
        out.append(Case('pm_lift_factorization', line('pm_lift_factorization', p, 0, c, [f1]), nontrivial=False, tag='lift-e0'))
        out.append(Case('pm_lift_factorization', line('pm_lift_factorization', p, 3, [5 if p != 5 else 2], []), nontrivial=False, tag='lift-no-factor'))
    # outside the preconditions: the model must still agree with the code
    for i in range(60 if th else 20):
        p = PS[i % (len(PS) - 1)]
        c, fs = planted(rng, p, th)
        # NOT GENERATED: p | lc(c) (excluded by the property's precondition). There the first lift returns factors whose
        # leading coefficient is divisible by p; in the next round poly_ext_gcd (prim.rs:183) recurses without bound
        # (modinv(lc, p) = 0, the remainder never gets smaller): the implementation dies (stack overflow / memory), the model
        # answers outoffuel, e.g. pm_lift_factorization 7 3 [24 50 35 10 1 7] [[1 1] [2 1] [3 1] [4 1]] (stack overflow).
        kind = rng.choice(['duplicate', 'wrong-product', 'zero-c', 'nonmonic-factor'])
        if kind == 'duplicate': fs = fs + [fs[0]]
        elif kind == 'wrong-product': c = zadd(c, [1])
        elif kind == 'zero-c': c = []
        else: fs = [zscal(2, fs[0])] + fs[1:] if p != 2 else fs
        out.append(Case('pm_lift_factorization', line('pm_lift_factorization', p, rng.choice([2, 3]), c, fs), nontrivial=False, tag='lift-outside-' + kind))
    # single steps with q = p^k
    for i in range(400 if th else 80):
        p = PS[i % len(PS)]
        k = rng.choice([1, 1, 2, 3, 5])
        q = p ** k
        fs = distinct_irreducibles(rng, p, [rng.choice([1, 2, 3]), rng.choice([1, 2, 3])])
        if not fs: continue
        a = zadd(fs[0], zscal(p, [rng.randrange(q // p) for _ in range(len(fs[0]) - 1)]))
        b = zadd(zscal(rng.randrange(1, p), fs[1]), zscal(p, [rng.randrange(q // p) for _ in range(len(fs[1]))]))
        g, u, v = pegcd(a, b, p)
        assert g == [1]
        # deg u < deg b, deg v < deg a
        qq, u = pdivmod(u, b, p); v = padd(v, pmul(qq, a, p), p)
        c = zadd(zmul(a, b), zscal(q, [rng.randrange(-9, 10) for _ in range(len(a) + len(b) - 1)]))
        if rng.random() < 0.4:
            u = disguise(rng, u, p, 1); v = disguise(rng, v, p, 1)
        out.append(Case('pm_hensel_lift', line('pm_hensel_lift', p, q, c, a, b, u, v), oracle=o_step(p, q, c, a, b), tag='hensel-step-k%d' % min(k, 3)))
    out.append(Case('pm_hensel_lift', line('pm_hensel_lift', 9, 9, [3, 2, 1], [-3, 1], [-4, 1], [1], [-1]), tag='hensel-step-cohen'))
    for args in [(0, 5, [1, 2], [1], [1, 1], [], [1]), (5, 0, [1, 2], [1], [1, 1], [], [1]), (5, 5, [], [], [], [], [])]:
        out.append(Case('pm_hensel_lift', line('pm_hensel_lift', *args), nontrivial=False, tag='hensel-step-outside'))
    # coprime witness / extended gcd
    for i in range(600 if th else 150):
        p = rng.choice(PS + [65537, 18446744073709551629])
        a = random_poly(rng, p, rng.randrange(0, 7)); b = random_poly(rng, p, rng.randrange(0, 7))
        r = rng.random()
        if r < 0.3:
            h = random_poly(rng, p, rng.randrange(1, 3)); a = pmul(a, h, p); b = pmul(b, h, p)
        elif r < 0.35: a = []
        elif r < 0.4: b = []
        elif r < 0.42: a = []; b = []
        out.append(Case('pm_coprime_witness', line('pm_coprime_witness', a, b, p), oracle=o_witness(a, b, p),
                        tag='witness-' + ('coprime' if deg(pgcd(a, b, p)) == 0 else 'common-factor')))
        out.append(Case('pm_poly_ext_gcd', line('pm_poly_ext_gcd', a, b, p), tag='poly_ext_gcd'))
        x = rng.randrange(-p * p, p * p); y = rng.choice([p, p * p, p ** 3, -p, rng.randrange(1, p * p)])
        out.append(Case('pm_egcd', line('pm_egcd', x, y), tag='num-extended_gcd'))
        d = rng.choice([p, p * p, -p, 3])
        f = [rng.randrange(-p * p, p * p) for _ in range(rng.randrange(0, 6))]
        out.append(Case('pm_poly_div', line('pm_poly_div', f, d), tag='poly_div'))
        out.append(Case('pm_poly_mul', line('pm_poly_mul', f, rng.choice([0, 1, -1, p, x])), tag='poly_mul'))
    for x, y in [(0, 0), (0, 5), (5, 0), (-5, 0), (0, -5), (6, 4), (-6, 4), (6, -4), (-6, -4), (1, 1), (7, 7), (-7, 7)]:
        out.append(Case('pm_egcd', line('pm_egcd', x, y), nontrivial=False, tag='num-extended_gcd-edge'))
    out.append(Case('pm_poly_div', line('pm_poly_div', [1, 2], 0), nontrivial=False, tag='poly_div-edge'))
    out.append(Case('pm_poly_div', line('pm_poly_div', [], 0), nontrivial=False, tag='poly_div-edge'))
    out.append(Case('pm_coprime_witness', line('pm_coprime_witness', [1, 1], [1], 0), nontrivial=False, tag='witness-edge'))
    out.append(Case('pm_coprime_witness', line('pm_coprime_witness', [], [3], 0), nontrivial=False, tag='witness-edge'))
    out.append(Case('pm_coprime_witness', line('pm_coprime_witness', [], [3], 7), oracle=o_witness([], [3], 7), nontrivial=False, tag='witness-edge'))
    # a slice of the cases again on the release build of the implementation (wrapping arithmetic, debug assertions off)
    out += lib.release_slice(out, rng, 0.15, mode_ops=())
    return out
