"""Shared by c14.py / c15.py: exact arithmetic in Q[x]/(f) and on rational lattices written from the
definitions with fractions.Fraction (no model, no sympy), generators of polynomials, elements, bases."""
import itertools, math
from fractions import Fraction
import lib
from lib import line, Id, Case

F = Fraction

# ------------------------------------------------------------------ polynomials over Q (lists, lowest degree first)

def ptrim(p):
    p = [F(x) for x in p]
    while p and p[-1] == 0: p.pop()
    return p

def padd(a, b):
    n = max(len(a), len(b))
    return ptrim([(a[i] if i < len(a) else 0) + (b[i] if i < len(b) else 0) for i in range(n)])

def psub(a, b):
    n = max(len(a), len(b))
    return ptrim([(a[i] if i < len(a) else 0) - (b[i] if i < len(b) else 0) for i in range(n)])

def pmul(a, b):
    if not a or not b: return []
    r = [F(0)] * (len(a) + len(b) - 1)
    for i, x in enumerate(a):
        if x == 0: continue
        for j, y in enumerate(b):
            r[i + j] += x * y
    return ptrim(r)

def pdivmod(a, f):
    """quotient and remainder of a by f over Q (f non-zero, canonical)"""
    r = ptrim(a); f = ptrim(f)
    n = len(f) - 1
    q = [F(0)] * max(0, len(r) - n)
    while len(r) - 1 >= n and r:
        k = len(r) - 1 - n
        c = r[-1] / f[-1]
        q[k] = c
        for j in range(n + 1):
            r[k + j] -= c * f[j]
        r = ptrim(r)
    return ptrim(q), r

def pmod(a, f): return pdivmod(a, f)[1]

def mulmod(a, b, f): return pmod(pmul(a, b), f)

def powmod_naive(a, e, f):
    """a^e in Q[x]/(f) by e successive multiplications (not square-and-multiply)"""
    r = pmod([F(1)], f)
    for _ in range(e): r = mulmod(r, a, f)
    return r

def pdiff(f): return ptrim([i * c for i, c in enumerate(f)][1:])

# ------------------------------------------------------------------ exact linear algebra over Q

def fmat(A): return [[F(x) for x in r] for r in A]

def det(A):
    """Gaussian elimination over Fractions; checked against the Leibniz expansion for n <= 4"""
    n = len(A)
    M = fmat(A)
    d = F(1)
    for c in range(n):
        p = next((r for r in range(c, n) if M[r][c] != 0), None)
        if p is None: return F(0)
        if p != c:
            M[p], M[c] = M[c], M[p]; d = -d
        d *= M[c][c]
        for r in range(c + 1, n):
            if M[r][c] != 0:
                fct = M[r][c] / M[c][c]
                M[r] = [x - fct * y for x, y in zip(M[r], M[c])]
    if n <= 4:
        assert d == det_leibniz(A)
    return d

def det_leibniz(A):
    n = len(A)
    tot = F(0)
    for perm in itertools.permutations(range(n)):
        inv = sum(1 for i in range(n) for j in range(i + 1, n) if perm[i] > perm[j])
        t = F(-1 if inv % 2 else 1)
        for i in range(n):
            t *= F(A[i][perm[i]])
            if t == 0: break
        tot += t
    return tot

def matmul(A, B):
    k = len(B); m = len(B[0]) if B else 0
    return [[sum((F(r[l]) * F(B[l][j]) for l in range(k)), F(0)) for j in range(m)] for r in A]

def transpose(A): return [list(c) for c in zip(*A)] if A else []

def inverse(A):
    n = len(A)
    M = [list(r) + [F(int(i == j)) for j in range(n)] for i, r in enumerate(fmat(A))]
    for c in range(n):
        p = next((r for r in range(c, n) if M[r][c] != 0), None)
        if p is None: return None
        M[p], M[c] = M[c], M[p]
        pv = M[c][c]
        M[c] = [x / pv for x in M[c]]
        for r in range(n):
            if r != c and M[r][c] != 0:
                fct = M[r][c]
                M[r] = [x - fct * y for x, y in zip(M[r], M[c])]
    return [r[n:] for r in M]

def solve_left(B, v):
    """x with x * B = v (B square invertible), or None"""
    Bi = inverse(B)
    if Bi is None: return None
    return matmul([v], Bi)[0]

def is_int(x): return F(x).denominator == 1

def lcm(a, b): return abs(a * b) // math.gcd(a, b) if a and b else 0

def lcm_den(rows):
    l = 1
    for r in rows:
        for x in r: l = lcm(l, F(x).denominator)
    return l

def is_square(M, n=None):
    if not isinstance(M, list) or any(not isinstance(r, list) for r in M): return False
    n = len(M) if n is None else n
    return len(M) == n and all(len(r) == n for r in M)

def is_lower_hnf(H):
    """None if the square integer matrix H is in the library's row-style lower-triangular Hermite normal form of
    full rank: zero above the diagonal, positive diagonal, entries below a diagonal entry in [0, that entry)."""
    n = len(H)
    for i in range(n):
        if len(H[i]) != n: return 'row %d has the wrong width' % i
        if any(not is_int(x) for x in H[i]): return 'row %d is not integral' % i
        if any(H[i][j] != 0 for j in range(i + 1, n)): return 'row %d is not zero right of the diagonal' % i
        if H[i][i] <= 0: return 'diagonal entry %d is not positive' % i
    for c in range(n):
        for r in range(c + 1, n):
            if not (0 <= H[r][c] < H[c][c]): return 'entry (%d,%d) not in [0, pivot)' % (r, c)
    return None

def canonical_problem(R):
    """None if the stored basis R (square rational) is canonical: l = lcm of its denominators, l*R in HNF."""
    if not is_square(R): return 'stored basis is not square'
    l = lcm_den(R)
    return is_lower_hnf([[F(x) * l for x in r] for r in R])

def same_module(R, M):
    """rows of R and rows of M (both square, M invertible) generate the same Z-module"""
    Mi = inverse(M)
    if Mi is None: return False
    V = matmul(R, Mi)
    return all(is_int(x) for r in V for x in r) and abs(det(V)) == 1

def contains(A, B):
    """Z-span of the rows of A contains the rows of B (A square invertible)"""
    Ai = inverse(A)
    V = matmul(B, Ai)
    return all(is_int(x) for r in V for x in r)

def minors_gcd_frac(G, n):
    """gcd of the n x n minors of the rational matrix G (rows x n), as a Fraction (0 if all vanish)"""
    l = lcm_den(G)
    Gi = [[int(F(x) * l) for x in r] for r in G]
    g = 0
    for rows in itertools.combinations(range(len(Gi)), n):
        d = det([Gi[i] for i in rows])
        g = math.gcd(g, int(d))
    return F(g, l ** n)

# ------------------------------------------------------------------ resultant / discriminant from the Sylvester matrix

def sylvester(f, g):
    """Sylvester matrix of f (degree m) and g (degree n), highest coefficient first in each row"""
    m, n = len(f) - 1, len(g) - 1
    ff = list(reversed(f)); gg = list(reversed(g))
    S = []
    for i in range(n): S.append([F(0)] * i + ff + [F(0)] * (n - 1 - i))
    for i in range(m): S.append([F(0)] * i + gg + [F(0)] * (m - 1 - i))
    return S

def resultant(f, g):
    f = ptrim(f); g = ptrim(g)
    if not f or not g: return F(0)
    if len(f) == 1 and len(g) == 1: return F(1)
    return det(sylvester(f, g))

def disc_poly(f):
    """disc f = (-1)^(n(n-1)/2) Res(f, f') / lc(f), n = deg f >= 1"""
    f = ptrim(f); n = len(f) - 1
    if n == 1: return F(1)
    r = resultant(f, pdiff(f))
    if (n * (n - 1) // 2) % 2: r = -r
    return r / f[-1]

# ------------------------------------------------------------------ the regular representation w.r.t. a basis

def elem_of(B, a):
    """sum a_i * (row i of B) as a polynomial in theta"""
    n = len(B)
    return ptrim([sum((F(a[i]) * F(B[i][k]) for i in range(n)), F(0)) for k in range(len(B[0]) if B else 0)])

def coords(B, p):
    n = len(B)
    v = [F(p[k]) if k < len(p) else F(0) for k in range(n)]
    return solve_left(B, v)

def mult_matrix(B, f, alpha):
    """row j = coordinates of alpha * w_j in the basis B"""
    return [coords(B, mulmod(alpha, ptrim(B[j]), f)) for j in range(len(B))]

def trace_form(B, f):
    n = len(B)
    T = [[None] * n for _ in range(n)]
    for i in range(n):
        for j in range(i, n):
            M = mult_matrix(B, f, mulmod(ptrim(B[i]), ptrim(B[j]), f))
            T[i][j] = T[j][i] = sum((M[k][k] for k in range(n)), F(0))
    return T

# ------------------------------------------------------------------ irreducibility over Q (sufficient test: irreducible mod some p)

def _pm_trim(a):
    while a and a[-1] == 0: a.pop()
    return a

def _pm_mod(a, f, p):
    a = [x % p for x in a]; _pm_trim(a)
    n = len(f) - 1
    iv = pow(f[-1], -1, p)
    while len(a) - 1 >= n and a:
        k = len(a) - 1 - n
        c = a[-1] * iv % p
        for j in range(n + 1): a[k + j] = (a[k + j] - c * f[j]) % p
        _pm_trim(a)
    return a

def _pm_mulmod(a, b, f, p):
    if not a or not b: return []
    r = [0] * (len(a) + len(b) - 1)
    for i, x in enumerate(a):
        for j, y in enumerate(b): r[i + j] = (r[i + j] + x * y) % p
    return _pm_mod(r, f, p)

def _pm_powmod(a, e, f, p):
    r = [1]
    while e:
        if e & 1: r = _pm_mulmod(r, a, f, p)
        a = _pm_mulmod(a, a, f, p); e >>= 1
    return r

def _pm_gcd(a, b, p):
    a = _pm_trim([x % p for x in a]); b = _pm_trim([x % p for x in b])
    while b:
        a, b = b, _pm_mod(a, b, p)
    return a

def irreducible_mod(f, p):
    f = [x % p for x in f]
    n = len(f) - 1
    if f[-1] == 0: return False
    if n == 1: return True
    x = [0, 1]
    h = x; hs = []
    for _ in range(n):
        h = _pm_powmod(h, p, f, p); hs.append(h)
    if _pm_mod(hs[n - 1], f, p) != _pm_mod(x, f, p): return False
    for q in (2, 3, 5):
        if n % q == 0:
            hk = hs[n // q - 1]
            d = [(u - v) % p for u, v in itertools.zip_longest(hk, x, fillvalue=0)]
            g = _pm_gcd(f, _pm_trim(d), p)
            if len(g) != 1: return False
    return True

PRIMES = [2, 3, 5, 7, 11, 13, 17, 19, 23, 29, 31, 37, 41, 43, 47, 53, 59, 61, 67, 71, 73, 79, 83, 89, 97]

def irreducible_Q(f):
    """True only if f (integer coefficients, degree >= 1) is certainly irreducible over Q"""
    return any(f[-1] % p and irreducible_mod(f, p) for p in PRIMES)

# ------------------------------------------------------------------ generators

def rand_poly(rng, deg, bound, monic=False, nonmonic=False):
    f = [rng.randint(-bound, bound) for _ in range(deg)]
    if monic: lc = 1
    else:
        lc = rng.choice([-1, 1]) * rng.randint(2 if nonmonic else 1, max(2, bound))
    return f + [lc]

def rand_irreducible(rng, deg, bound, monic=True):
    for _ in range(400):
        f = rand_poly(rng, deg, bound, monic=monic, nonmonic=not monic)
        if f[0] != 0 and irreducible_Q(f): return f
    raise RuntimeError('no irreducible polynomial found')

def rand_reducible(rng, deg, bound, monic=True):
    d1 = rng.randint(1, deg - 1)
    g = rand_poly(rng, d1, bound, monic=monic, nonmonic=False)
    h = rand_poly(rng, deg - d1, bound, monic=monic, nonmonic=False)
    return [int(x) for x in pmul(g, h)]

def rand_rat(rng, bits, dbits=None):
    dbits = bits if dbits is None else dbits
    return F(rng.randint(-(1 << bits), 1 << bits), rng.randint(1, 1 << dbits) if dbits else 1)

def rand_elem(rng, n, bits, dbits=None, deg=None):
    """canonical representative of degree < n"""
    k = rng.randint(0, n) if deg is None else deg + 1
    return ptrim([rand_rat(rng, bits, dbits) for _ in range(k)])

def rand_unimodular(rng, n, steps=None, big=3):
    U = [[int(i == j) for j in range(n)] for i in range(n)]
    if n == 1: return [[rng.choice([-1, 1])]]
    for _ in range(steps if steps is not None else 3 * n):
        t = rng.randint(0, 5)
        i, j = rng.sample(range(n), 2)
        if t == 0: U[i], U[j] = U[j], U[i]
        elif t == 1: U[i] = [-x for x in U[i]]
        else:
            c = rng.randint(-big, big)
            U[i] = [x + c * y for x, y in zip(U[i], U[j])]
    return U

def rand_with_det(rng, n, idx):
    """integer matrix with |det| = idx: unimodular * lower triangular with diagonal of product idx * unimodular"""
    diag = [1] * n
    m = idx; p = 2
    fac = []
    while m > 1 and p * p <= m:
        while m % p == 0: fac.append(p); m //= p
        p += 1
    if m > 1: fac.append(m)
    for q in fac: diag[rng.randrange(n)] *= q
    L = [[(diag[i] if i == j else (rng.randint(0, 6) if j < i else 0)) for j in range(n)] for i in range(n)]
    U = rand_unimodular(rng, n, steps=n + 1, big=2)
    V = rand_unimodular(rng, n, steps=n + 1, big=2)
    S = matmul(matmul(U, L), V)
    return [[int(x) for x in r] for r in S]

def rand_basis(rng, n, bits=4, dens=(1, 1, 2, 3, 4, 6, 12)):
    """random full-rank rational n x n matrix"""
    while True:
        M = [[F(rng.randint(-(1 << bits), 1 << bits), rng.choice(dens)) for _ in range(n)] for _ in range(n)]
        if det(M) != 0: return M

def impl_query(lines, timeout=300):
    """asks the implementation (debug build) at generation time; used only as a source of inputs"""
    return lib.run_parallel(lib.IMPL_BIN['debug'], lines, timeout=timeout)

def power_basis(f, theta=None):
    """rows 1, t, t^2, ... (t = theta, default x) reduced modulo f"""
    n = len(f) - 1
    t = [F(0), F(1)] if theta is None else theta
    t = pmod(t, f)
    rows = []; cur = pmod([F(1)], f)
    for _ in range(n):
        rows.append([cur[k] if k < len(cur) else F(0) for k in range(n)])
        cur = mulmod(cur, t, f)
    return rows

def nonmonic_basis(f):
    """1, a_n t, a_n t^2 + a_{n-1} t, ...: the basis of Z[theta] cap Z[1/theta] written out from the definition"""
    n = len(f) - 1
    rows = [[F(int(k == 0)) for k in range(n)]]
    for i in range(1, n):
        # a_n t^i + a_{n-1} t^{i-1} + ... + a_{n-i+1} t
        row = [F(0)] * n
        for j in range(1, i + 1): row[j] = F(f[n - i + j])
        rows.append(row)
    return rows
