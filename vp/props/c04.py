"""C04 resultant = Sylvester determinant (src/resultant.rs): resultant (sub-resultant PRS over Z) and
resultant_rational (Euclid over Q)."""
from fractions import Fraction
from lib import line, Id, Case
from props import res_common as R

RULE = ('exhaustive: all ordered pairs of polynomials of degree <= 2 with coefficients in {-2..2} (incl. zero and constants) and of '
        'degree <= 3 with coefficients in {-1..1}; random degree <= 12 with coefficients up to 2^64; planted common factors (resultant 0); '
        'sparse pairs with degree gaps delta >= 2; constants, zero, f = g, f | g; negative and non-primitive leading coefficients; '
        'scaling law Res(s f, t g) = s^deg g t^deg f Res(f, g) on pairs of implementation outputs; resultant_rational on the same integer '
        'inputs and on inputs with denominators; a share of every stream also in the release profile. Non-trivial = both non-constant. '
        'The model op resultant_x also returns its exactness flag; a false flag is reported as a disagreement; the last tag gives the count.')
PROVED = ['[P] resultant_zero_l/_r, resultant_rational_zero_l/_r: a zero argument gives 0 (flag true, no panic, either mode)',
          '[P] resultant_consts / resultant_rational_consts: two constants give 1, no panic in mode Checked (D2 is repaired)',
          '[P] resultant_const_r / resultant_const_l / resultant_rational_const_r: constant c against degree n gives c^n (both argument orders), flag true',
          '[P] resultant_no_outoffuel, resultant_rational_no_outoffuel: supplied fuel suffices for all coefficient lists',
          '[P] resultant_rational_total: canonical inputs => resultant_rational returns a value (no assert, no usize underflow) in either mode',
          '[P] resultant_rational_spec: canonical non-zero inputs => the value returned by resultant_rational is det(Sylvester_mx) of the refined polynomials (MathComp), for all inputs, either mode',
          '[P] res_recurrence / resultant_redl / resultant_redr (any commutative ring) / resultant_swap / resultant_constl/_constr / resultant_scale: Sylvester-determinant identities proved from the matrix (new: mxpoly.v has none of them)',
          '[P] resultant_linear_convention: resultant (X-a) (X-b) = b-a, fixing that the classical Res(f,g) is MathComp resultant g f',
          '[P] prs_step / resultant_swap_idomain: pseudo-division step of the sub-resultant PRS at determinant level; symmetry over integral domains',
          '[P] SR_step (SubresDet.v): polynomial subresultants S_j defined as determinants over {poly R}; one division step a A = T B + C maps a^m S_j(A,B) to +- lc(B)^k S_j(B,C), any commutative ring',
          '[P] resultant_flag_true (sub-resultant structure theorem, SubresInv.v/SubresFlag.v): for all canonical inputs (lengths fit a usize), either mode, every truncating division of resultant_smart (by a*b^delta, by b^delta, and the final g^n / b^(n-1)) has remainder zero: the exactness flag is always true',
          '[P] resultant_total: hence resultant never panics on canonical inputs (no division by zero, no failed debug assertion, no usize underflow), either mode',
          '[P] resultant_int_spec: for all canonical non-zero inputs resultant f g = det(Sylvester_mx (Poly g) (Poly f)) (no flag hypothesis; from resultant_int_partial + resultant_flag_true)',
          '[P] resultant_rational_agrees: on canonical non-zero integer inputs resultant_rational returns the same value as resultant, unconditionally',
          '[P] resultant_scale_model: scaling law on the outputs of the integer routine: for canonical non-zero f, g and s, t <> 0, resultant (s f) (t g) = s^deg g * t^deg f * resultant f g',
          '[P] resultant_rational_scale_model (fifth wave): scaling law on the outputs of the rational routine, as a statement about two runs: for canonical non-zero f, g over Q (denominators allowed) and non-zero rationals s, t, in either mode, '
          'both runs return and resultant_rational (s f) (t g) = s^deg g * t^deg f * resultant_rational f g',
          '[C] resultant_flag_no_panic_partial, resultant_int_partial, resultant_rational_agrees_partial: the first-wave conditional forms (kept; now subsumed)']
NOT_PROVED = []
PROFILES = ('debug', 'release')

TIMEOUT = 3600          # per service process; the extracted model computes with Coq's binary integers (slow on 64-bit coefficients)

CLAIM = dict(
    technique='Coq proofs: (1) MathComp-level Sylvester-matrix recurrences (new) and the Euclid recursion = determinant; (2) refinement of the Gallina model of resultant_rational to it (resultant_rational_spec, all inputs); (3) integer sub-resultant routine: special cases, termination, Cohen bookkeeping invariant (value = determinant under the flag), and the sub-resultant structure theorem (polynomial subresultants as determinants over {poly Z}, invariant b^(deg F-j-1) a^(deg G-j) S_j(A0,B0) = +- S_j(F,G)) proving that the exactness flag computed by the model is always true; + extracted-model-vs-implementation correspondence + Bareiss Sylvester-determinant oracle on every case',
    text='For all canonical non-zero inputs (lengths fit a usize), in both build modes: resultant f g = det(Sylvester) (resultant_int_spec), resultant_rational f g = det(Sylvester) (resultant_rational_spec), the two routines agree on integer inputs, every BigInt division of the integer routine is exact (resultant_flag_true) and neither routine panics (resultant_total, resultant_rational_total); zero inputs give 0; the scaling law Res(s f, t g) = s^deg g t^deg f Res(f, g) holds on the outputs of both routines (resultant_scale_model over Z, resultant_rational_scale_model over Q). '
         'The model is tied to the code by the correspondence check; the determinant is additionally re-checked on every generated case by an independent fraction-free computation.',
    note='MathComp lays the Sylvester matrix out low-degree first: the classical Res(f,g) is resultant g f (resultant_linear_convention). Signs of the subresultants are not tracked in the structure theorem (only exactness needs them up to sign); the sign of the result comes from the first-wave invariant.',
    ref='DESIGN.md section 4, C04')

def o_res(f, g, rational=False):
    def orc(ia):
        if ia.kind != 'ok': return 'resultant(%s, %s) did not return: %s' % (f, g, ia.raw[:120])
        exp = R.res_sylvester_q(f, g) if rational else R.res_sylvester(f, g)
        if Fraction(ia.val) != exp: return 'resultant(%s, %s) = %s, Sylvester determinant is %s' % (f, g, ia.val, exp)
        return None
    return orc

def o_scale(f, g, s, t, rational=False):
    def orc(ia):
        if ia.kind != 'ok': return 'resultant list did not return: %s' % ia.raw[:120]
        r1, r2 = [Fraction(x) for x in ia.val]
        exp = R.res_sylvester_q(f, g) if rational else R.res_sylvester(f, g)
        if r1 != exp: return 'resultant(%s, %s) = %s, Sylvester determinant is %s' % (f, g, r1, exp)
        if f and g and r2 != Fraction(s) ** R.deg(g) * Fraction(t) ** R.deg(f) * r1:
            return 'scaling law fails: Res(f,g) = %s, Res(%s f, %s g) = %s for f=%s g=%s' % (r1, s, t, r2, f, g)
        return None
    return orc

NEEDS_CLI = True

def cases(rng, tier):
    th = tier == 'thorough'
    out = []
    fc = R.FlagCount('resultant')
    cmpf = R.cmp_flagged(fc, 'resultant')
    cmpl = R.cmp_flagged_list(fc, 'resultant')

    def add_int(f, g, tag, prof='debug'):
        out.append(Case('resultant', line('resultant', f, g), model=line('resultant_x', f, g, R.MODE[prof]), compare=cmpf,
                        oracle=o_res(f, g), always_oracle=True, nontrivial=(len(f) > 1 and len(g) > 1), tag=tag, profile=prof))
    def add_rat(f, g, tag, prof='debug'):
        out.append(Case('resultant_rational', line('resultant_rational', f, g), model=line('resultant_rational', f, g, R.MODE[prof]),
                        oracle=o_res(f, g, True), always_oracle=True, nontrivial=(len(f) > 1 and len(g) > 1), tag=tag, profile=prof))
    # The extracted model computes in Qc with Coq's binary positives and re-normalises after every operation: Euclid over Q
    # on degree-12 inputs with 64-bit coefficients takes minutes per case. The rational routine therefore gets the same inputs
    # only below a cost bound (the implementation itself is exercised at full size through `resultant`, same oracle).
    LIMIT = 2e8 if th else 1.5e7
    def cost(f, g):
        d = len(f) + len(g)
        bits = max([abs(Fraction(x).numerator).bit_length() + Fraction(x).denominator.bit_length() for x in f + g] + [1])
        return d ** 4 * bits ** 2
    def both(f, g, tag):
        prof = 'release' if rng.random() < 0.25 else 'debug'
        add_int(f, g, tag, prof)
        if cost(f, g) <= LIMIT: add_rat(f, g, tag + '/rational', prof)

    # --- exhaustive small pairs
    P2 = R.small_polys(2, -2, 2)
    P3 = R.small_polys(3, -1, 1)
    k = 0
    for P, tg in ((P2, 'exhaustive-deg2'), (P3, 'exhaustive-deg3')):
        for f in P:
            for g in P:
                k += 1
                add_int(f, g, tg, 'release' if k % 5 == 0 else 'debug')
                if th or k % 4 == 0: add_rat(f, g, tg + '/rational', 'release' if k % 3 == 0 else 'debug')

    # --- random dense
    # coefficients at the machine-word boundaries (+-2^31, 2^32, 2^63, 2^64, 2^127 and neighbours), degrees 1..3, both profiles
    edge = [s_ * (2 ** e_ + d_) for e_ in (31, 32, 63, 64, 127) for d_ in (-1, 0, 1) for s_ in (1, -1)]
    for _ in range(40 if not th else 400):
        f = [rng.choice(edge) if rng.random() < 0.6 else rng.randrange(-3, 4) for _ in range(rng.randrange(2, 5))]
        g = [rng.choice(edge) if rng.random() < 0.6 else rng.randrange(-3, 4) for _ in range(rng.randrange(2, 4))]
        if f[-1] == 0: f[-1] = 1
        if g[-1] == 0: g[-1] = -1
        for prof in ('debug', 'release'): add_int(f, g, 'word-boundary-coefficients', prof)

    for _ in range(150 if not th else 2000):
        df = rng.randrange(0, 13); dg = rng.randrange(0, 13)
        bits = rng.choice([2, 8, 32, 64])
        both(R.rpoly(rng, df, bits), R.rpoly(rng, dg, bits), 'random')
    # sizes chosen for the rational model: small degree with big coefficients, big degree with small coefficients
    for _ in range(150 if not th else 1500):
        dmax, bits = rng.choice([(12, 2), (9, 4), (7, 8), (5, 24), (4, 64), (3, 64)])
        both(R.rpoly(rng, rng.randrange(0, dmax + 1), bits), R.rpoly(rng, rng.randrange(0, dmax + 1), bits), 'random-sized-for-Q')
    # --- planted common factor (resultant 0), also with non-primitive and negative content
    for _ in range(100 if not th else 1000):
        h = R.rpoly(rng, rng.randrange(1, 5), rng.choice([2, 8, 40]))
        f1 = R.rpoly(rng, rng.randrange(0, 7), rng.choice([2, 8, 40])); g1 = R.rpoly(rng, rng.randrange(0, 7), rng.choice([2, 8, 40]))
        both(R.pmul(h, f1), R.pmul(h, g1), 'common-factor')
    # --- degree gaps, sparse
    for _ in range(100 if not th else 1000):
        dg = rng.randrange(1, 6); df = dg + rng.randrange(2, 8)
        f = R.rpoly(rng, df, rng.choice([2, 16, 64]), sparse=0.6); g = R.rpoly(rng, dg, rng.choice([2, 16, 64]), sparse=0.4)
        if rng.random() < 0.5: f, g = g, f
        both(f, g, 'degree-gap')
    # x^a + c against x^b + d: remainder sequences with gaps at every step
    for _ in range(60 if not th else 400):
        a = rng.randrange(2, 13); b = rng.randrange(1, 13)
        f = R.strip([R.rint(rng, 8)] + [0] * (a - 1) + [rng.choice([1, -1, 2, -3])])
        g = R.strip([R.rint(rng, 8)] + [0] * (b - 1) + [rng.choice([1, -1, 2, -3])])
        both(f, g, 'binomial-gap')
    # --- constants, zero
    for _ in range(60 if not th else 300):
        c = R.rint(rng, rng.choice([2, 8, 64])); c2 = R.rint(rng, rng.choice([2, 8, 64]))
        p = R.rpoly(rng, rng.randrange(1, 10), rng.choice([4, 64]))
        for f, g in (([c] if c else [], p), (p, [c] if c else []), (R.strip([c]), R.strip([c2])), ([], p), (p, []), ([], [])):
            both(f, g, 'constant-or-zero')
    # --- f = g, f | g, g | f
    for _ in range(60 if not th else 400):
        f = R.rpoly(rng, rng.randrange(1, 8), rng.choice([3, 32]))
        q = R.rpoly(rng, rng.randrange(0, 5), rng.choice([3, 32]))
        both(f, f, 'equal'); both(f, R.pmul(f, q), 'divides'); both(R.pmul(f, q), f, 'divides'); both(f, R.pscale(-1, f), 'equal')
    # --- negative / non-primitive leading coefficients
    for _ in range(100 if not th else 800):
        c = rng.choice([-1, -2, 6, -6, 10, -15, 2 ** 33, -(2 ** 33) * 3])
        d = rng.choice([-1, -3, 4, -4, 9, 2 ** 20])
        f = R.pscale(c, R.rpoly(rng, rng.randrange(1, 9), 12, lc=rng.choice([-1, -5, 7, -12])))
        g = R.pscale(d, R.rpoly(rng, rng.randrange(1, 9), 12, lc=rng.choice([-1, 1, -6, 30])))
        both(f, g, 'lc-negative-nonprimitive')
    # --- scaling law on implementation outputs (integer and rational routine)
    for _ in range(120 if not th else 1200):
        f = R.rpoly(rng, rng.randrange(0, 9), rng.choice([3, 20, 64])); g = R.rpoly(rng, rng.randrange(0, 9), rng.choice([3, 20, 64]))
        s = rng.choice([-1, 2, -3, 7, -(2 ** 40) + 1, 10]); t = rng.choice([-1, -2, 5, 2 ** 35, -9])
        prof = 'release' if rng.random() < 0.25 else 'debug'
        pairs = [[f, g], [R.pscale(s, f), R.pscale(t, g)]]
        out.append(Case('resultant_list', line('resultant_list', pairs), model=line('resultant_list', pairs, R.MODE[prof]), compare=cmpl,
                        oracle=o_scale(f, g, s, t), always_oracle=True, nontrivial=(len(f) > 1 and len(g) > 1), tag='scaling-law', profile=prof))
        sq = Fraction(s, rng.choice([1, 3, 10, 2 ** 20 + 1])); tq = Fraction(t, rng.choice([1, 2, 7, 15]))
        pairs = [[f, g], [R.pscale(sq, f), R.pscale(tq, g)]]
        if cost(pairs[1][0], pairs[1][1]) <= LIMIT:
            out.append(Case('resultant_rational_list', line('resultant_rational_list', pairs), model=line('resultant_rational_list', pairs, R.MODE[prof]),
                            oracle=o_scale(f, g, sq, tq, True), always_oracle=True, nontrivial=(len(f) > 1 and len(g) > 1), tag='scaling-law/rational', profile=prof))
    # --- rational inputs with denominators
    for _ in range(120 if not th else 1200):
        def rq(d):
            p = R.rpoly(rng, d, rng.choice([3, 16, 64]))
            return R.strip([Fraction(x, rng.choice([1, 1, 2, 3, 12, 2 ** 31 - 1, rng.getrandbits(20) + 1])) for x in p])
        f = rq(rng.randrange(0, 9)); g = rq(rng.randrange(0, 9))
        while cost(f, g) > LIMIT:       # shorten until the model can afford it
            f = R.strip(f[:-1]) or [Fraction(2)]; g = R.strip(g[:-1]) or [Fraction(3)]
        add_rat(f, g, 'rational-denominators', 'release' if rng.random() < 0.25 else 'debug')
    # --- sentinel: publishes the exactness-flag count through its tag (must stay last)
    s = Case('resultant', line('resultant', [], []), model=line('resultant_x', [], [], R.MODE['debug']), compare=cmpf, nontrivial=False, tag='flag-count')
    fc.sentinel = s
    out.append(s)
    # --- CLI glue: `rust-number-theory <config>` with to_find = resultant; the configuration lists the coefficients as
    # written (trailing zeros included: the CLI must strip them), the printed value must be the library's / model's value
    def cmp_cli(ia, ma):
        if ia.kind != 'ok' or ma.kind != 'ok':
            return 'CLI %r vs model %r' % (ia.raw[:200], ma.raw[:200])
        if ia.val == Id('cli_failed'): return 'the CLI exited with an error, model %r' % ma.raw[:200]
        if ia.val != ma.val[0]: return 'CLI printed %r, model value %r' % (ia.raw[:200], ma.raw[:200])
        return None
    cli = [([1, 2, 0], [3, 0, 1]), ([1, 2], [3, 0, 1, 0, 0]), ([0, 0, 1], [5]), ([7], [3]), ([1, 1, 1], [1, 1, 1]), ([2, -3, 0, 4], [-1, 0, 6])]
    for _ in range(10 if not th else 60):
        f = [rng.randrange(-50, 51) for _ in range(rng.randrange(1, 7))] + [0] * rng.choice([0, 0, 1, 2])
        g = [rng.randrange(-50, 51) for _ in range(rng.randrange(1, 7))] + [0] * rng.choice([0, 0, 1])
        cli.append((f, g))
    for f, g in cli:
        if not any(f) or not any(g): continue
        out.append(Case('cli_resultant', line('cli_resultant', f, g), model=line('resultant_x', f, g, R.MODE['debug']), compare=cmp_cli,
                        oracle=(lambda f=f, g=g: (lambda ia: None if ia.kind == 'ok' and ia.val == R.res_sylvester(R.strip(list(f)), R.strip(list(g))) else 'CLI resultant of %s, %s printed %s' % (f, g, ia.raw[:100])))(),
                        always_oracle=True, tag='cli'))
    return out
