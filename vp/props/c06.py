"""C06 integral basis = maximal order (src/integral_basis/{mod,round2}.rs on top of order.rs, factorize.rs, hnf.rs,
solve_linear_system.rs): find_integral_basis, round2::one_step, and the CLI path `to_find: [integral_basis]`.

The oracle is written from the definitions with fractions.Fraction and arithmetic mod p (no model, no sympy):
ring axioms of the returned lattice, containment of the starting order, the discriminant three ways (formula, trace form,
closed forms of the families), p-maximality by the Dedekind criterion (monic f, p prime to the index) and by an own
Pohst-Zassenhaus test (the ring of multipliers of the p-radical is the order itself)."""
import math, itertools
from fractions import Fraction
import lib
from lib import line, Id, Case, enc, default_compare
from props.ao_common import (F, ptrim, pmul, pmod, mulmod, det, matmul, inverse, is_int, fmat, is_square,
                             canonical_problem, contains, disc_poly, nonmonic_basis, impl_query)

NEEDS_CLI = True
TIMEOUT = 1500

RULE = ('families with closed-form field discriminants: quadratic x^2 - d (|d| <= 60 and d = s*m^2 with m up to 2^5, 3^3, 30), pure cubic '
        'x^3 - a (|a| <= 40 and a = a0*m^3), cyclotomic Phi_n (3 <= n <= 12), biquadratic Q(sqrt m, sqrt n) '
        '(x^4 - 2(m+n)x^2 + (m-n)^2), each as a group [f(x), f(x-k), (-1)^n f(-x), c^n f(x/c), x^n f(1/x), and compositions] '
        '(non-monic f, large / prime-power indices, several Round 2 iterations at one prime), all members of a group must give the '
        'same discriminant = the closed form; random irreducible f of degree 2..6 with coefficients |c| <= 9 (<= 5 from degree 4 on) '
        '(irreducibility: own rational-root test + factor-degree patterns mod primes < 100; undecided are skipped) with the same '
        'transformations; degree 1; |disc(starting order)| is kept below 10^10 (quick) / 10^12 (thorough) because the code '
        'factorises it by trial division; one_step on starting / intermediate / maximal orders at primes dividing or not dividing '
        'the discriminant, negative and composite p; the CLI on a sample of all families; plus an edge stream compared with the '
        'model only (zero, constant, non-squarefree, reducible, non-primitive f; p in {0} for degree 1). '
        'non-trivial = degree >= 2')
PROVED = [
    '[P] find_integral_basis_deg1: for every linear f (both profiles) the result is the starting order [[1]]',
    '[P] find_integral_basis_fixpoint: if the driver returns O then the starting order, its discriminant and the trial factorisation '
    'were computed and O is the end of a chain of while-loop runs, one per prime power of the factorisation (primes_run), hence '
    'reachable from the starting order by finitely many one_step results; prime_run_exit: each run ends with remaining exponent < 2 '
    'or with a step that returned howmany = 0 on an order reachable from where the run started; prime_run_checked_sum: dev-profile '
    'exponent bookkeeping e\' = e - 2*sum(howmany) without wrap-around; prime_loop_fuel_ok: the loop fuel suffices (dev profile)',
    '[P] one_step_index: on a stored basis (lower triangular with positive diagonal, as from_basis produces; the starting order and '
    'every step result are such: non_monic_lower) with p > 0 and deg f >= 1: index(new, old) = p^howmany exactly, howmany >= 0; '
    'one_step_index_any: for arbitrary input bases the same whenever the computed index is positive',
    '[P] one_step_contains / find_integral_basis_contains: the lattice returned by one_step (by the driver) is a deg x deg basis and '
    'every basis row of the input order (of the starting order) is an integer combination of its rows; find_integral_basis_one: 1 lies in '
    'the returned order (uses hnf_new_correct of the '
    'HNF development for HNF::new on [U_p; pI] and inside Order::from_basis)',
    '[P] disc_index: disc(old) = disc(new) * index^2 whenever index and the two discriminant calls return; ib_find_disc_index, '
    'ib_find_index_pos: the entry point returns (O, d, i) with disc(start) = d * i^2 and i >= 1',
    '[P] pow_ge_total, howmany_of_fuel_ok, pow_mod_p_fuel_ok: for p >= 2 the fuel of the three loops of round2.rs without a syntactic '
    'bound suffices (while pow < deg; while index > 1; square-and-multiply)',
    '[C] prime_loop_no_underflow_partial: in the dev profile the u64 update e -= 2*howmany never overflows, so the only panics of the '
    'while loop are those of one_step, PROVIDED every lattice produced on the way has an integral discriminant (i.e. is an order)',
    # ---- third wave
    '[P] mul_mod_p_closed: on an n x n x n table and p != 0, mul_mod_p a b t p = [ (sum_ij a_i b_j t[i][j][k]) % p ]_k (closed form, '
    'bilinear over integer combinations: tmul_lincomb_l/r); kernel_hnf_trunc_spec: HNF::new(HNF::kernel(m)) truncated to w columns '
    'generates the projection on the first w coordinates of the integer left kernel of m (C03 kernel_basis + C02 hnf_lattice)',
    '[P] compute_i_p_spec: the rows of I_p generate exactly { x in Z^deg : sum_i x_i Phi_i = 0 (mod p) }, Phi_i = e_i^pow by the model\'s '
    'pow_mod_p (both inclusions); i_p_contains_p: p Z^deg is inside; compute_i_p_total: no panic on well-shaped tables',
    '[P] pow_additive (freshman\'s dream for pow_mod_p): for a commutative associative table with a unit, p prime, table reduced mod p^2 '
    'then mod p as one_step does, q = p^k: x^q = sum_i x_i e_i^q (mod p) and x^q = 0 => (yx)^q = 0 (mod p) (regular representation mod p '
    'into commuting matrices over F_p, Frobenius_autD_comm); order_has_unit: the table of an order containing 1 has a unit',
    '[P] up_step_spec / up_step_total: one iteration of the U_p loop never panics on well-shaped data and returns a normal form of '
    '{ u in current U_p : i_p[i] * u in p I_p } (table mod p^2; the reduction is immaterial because p^2 Z^deg is inside p I_p)',
    '[P] one_step_lattices: in every returning call of one_step, I_p as above and U_p = { u in I_p : x*u in p I_p for all x in I_p }; '
    'h generates U_p + p Z^deg',
    '[P] reachable_step_order / one_step_order_one: for every step the driver can take (order reachable from the starting order, prime p, '
    'non-zero leading coefficient) and that returns: the exact table T of the order exists, is commutative and associative, the step\'s '
    'tables are its reductions (mult_tables_exact); the power map is additive mod p (pow_linear), I_p = { x : x^pow = 0 mod p } '
    '(the p-radical, with the model\'s pow_mod_p), I_p is an ideal (ideal_of), and L = U_p + p Z^deg satisfies L*L in pL and contains '
    'p Z^deg: the new lattice (1/p) L O contains O and is closed under multiplication (in coordinates w.r.t. the input order)',
    '[C] one_step_ring_closed_partial: the same ring closure for any input order with a deg x deg basis and any p != 0, conditional on '
    'ideal_of (I_p is an ideal); compute_i_p_radical_partial: I_p is the radical, conditional on pow_linear',
    '[P] one_step_is_order (the Round 2 step maps orders to orders): if the input of a returning step at a prime p is an order -- a '
    'stored basis of a lattice that contains 1 and on which Order::get_mult_table returns (closed under multiplication) -- then so is '
    'its result (ring closure carried from coordinates to the stored basis o\' = hnf_reduce((h/p)O) through the product of Q[x]/(f)); '
    'order_step_returns: on an order and at a prime the step returns; prime_loop_order: the while loop at a prime, started on an order, '
    'returns an order or panics with the u64 overflow of e -= 2*howmany only',
    '[P] find_integral_basis_order_monic / monic_start_table: for every monic f of degree >= 1 (both profiles) the starting order is '
    'closed under multiplication (remainders of X^k by a monic integer polynomial are integral; same lattice as the power basis), hence '
    'without any flag: a returning driver returns an order (stored basis, contains 1, get_mult_table returns on it) and every panic of '
    'the driver is a panic of non_monic_initial_order, of o.discriminant(theta), of the trial factorisation (discriminant 0) or the u64 '
    'overflow of e -= 2*howmany -- no panic inside one_step is reachable',
    '[C] find_integral_basis_order_partial: PROVIDED Order::get_mult_table returns on the starting order Z[theta] cap Z[1/theta] (flag '
    'computed by the model; it does on every explored input), the driver returns an order and each of its panics is a panic of '
    'non_monic_initial_order, of o.discriminant(theta), of the trial factorisation (discriminant 0) or the u64 overflow of the exponent '
    'bookkeeping: no assertion / index / unwrap panic of one_step is reachable (primes from C11 trial_factorize_spec)',
    '[P] one_step_only_assert: on a stored basis and at a prime, one_step never runs out of fuel and its only reachable panic is '
    'assert!(inv[k].is_integer()) (round2.rs:40): the expect on solve_linear_system and every index operation are unreachable',
    '[P] one_step_no_panic / one_step_returns: on a stored basis (lower triangular, positive diagonal) and a prime p, every panic of '
    'one_step is a panic of the construction of the two tables (the expect on solve_linear_system or assert!(inv[k].is_integer()), i.e. '
    'the input is not closed under multiplication) and the step never runs out of fuel; unreachable: assert!(u_p.len() <= deg), '
    'assert_eq!(u_p.dim(), deg) (full rank of [U_p; pI]), the panics of Order::from_basis (the new basis (h/p)O is non-singular), '
    'the panic! of index (old = S * new with S integral) and every assert_eq!(index % p, 0) (det S divides p^deg)',
    # ---- fourth wave
    '[P] prime_loop_no_underflow / prime_loop_returns (the statement of prime_loop_no_underflow_partial without its integrality '
    'hypothesis, both profiles): on an order whose discriminant is p^e * r, p prime not dividing r, 0 <= e < 2^64, the while loop of '
    'the driver never panics -- every order on the way has an integer discriminant (C15 order_disc_trace_form), disc(old) = disc(new) '
    '* p^(2 howmany), hence 2*howmany <= e at every turn and e -= 2*howmany cannot underflow -- and with the fuel the driver supplies it '
    'returns an order whose discriminant is that of the input divided by a power of p',
    '[P] find_integral_basis_no_panic_monic: for every monic f of degree deg >= 1 (2 deg < 2^64) whose starting order has a non-zero '
    'discriminant d0 of fewer than 2^64 bits, in both build profiles find_integral_basis returns (no panic, no OutOfFuel) and the '
    'result is an order (trial_factorize_spec gives the exact exponents e of the distinct primes of d0; the exponents of the later '
    'primes are unchanged by the steps at earlier primes); non_monic_total_monic: the starting order of a monic f is computed',
    '[P] pz_core (Pohst-Zassenhaus / Cohen Thm 6.1.3, in the coordinates of one_step_lattices): T the table of an order (commutative, '
    'associative, unit), p prime, I_p the radical { x : x^pow = 0 mod p } with pow = p^k >= deg; an over-ring O\'\' with N O\'\' in O given by the '
    'set Ll of coordinate vectors of N O\'\' (N Z^deg in Ll, Ll*Ll in N Ll); if some w0/N of O\'\' is outside O while p w0/N is inside, then there '
    'is u not in p Z^deg with u * I_p in p I_p (u/p lies in the multiplier ring of I_p and not in O). Proved element by element in the '
    'MathComp comRingType of the table (no products of ideals); nilpotent mod p => deg-th power 0 mod p via the regular representation over F_p '
    'and a rank argument for nilpotent matrices',
    '[P] step_zero_p_maximal / p_maximal_step_zero / step_zero_iff_p_maximal (Pohst-Zassenhaus for the model): on an order O (is_order: stored '
    'basis, contains 1, get_mult_table returns), at a prime p, f with non-zero leading coefficient: one_step returns howmany = 0 IF AND ONLY IF '
    'O is p-maximal, i.e. p divides index(O2, O) for no over-order O2 (any deg x deg rational basis on which get_mult_table returns and '
    'whose lattice contains O). Hard direction: O = S O2 with S integral, index = det S, |det S| O2 in O (adjugate), a vector of the kernel of S '
    'mod p gives an element of O2 outside O carried into O by p, closure of the coordinates of |det S| O2 under the table product from the '
    'table of O2 (product of Q[x]/(f)), pz_core, and index(result, O) = 1 forces U_p + p Z^deg = p Z^deg',
    '[P] small_disc_p_maximal: p^2 not dividing disc(O) implies O p-maximal (disc(O) = disc(O2) index^2, disc(O2) an integer by C15 '
    'order_disc_trace_form); p_maximal_transfer: p-maximality passes to a larger order of index prime to p; prime_loop_p_maximal: the while '
    'loop at p returns a p-maximal order containing its input',
    '[P] find_integral_basis_p_maximal / find_integral_basis_maximal: for every monic f of degree deg >= 1 (2 deg < 2^64) whose starting order '
    'has a non-zero discriminant of fewer than 2^64 bits, in both build profiles the driver returns an order O that is p-maximal at EVERY '
    'prime p, and O is the maximal order: every over-order O2 (lattice closed under multiplication containing O) has index 1 (or -1, '
    'orientation of the basis) and the same lattice as O (over_unit_equal)',
    '[P] step_zero_equivalences: on an order, at a prime, for a returning step: howmany = 0 <=> p divides the index of O in no over-order '
    '<=> O has no over-order of index p^k with k > 0 (the usual wording); all_p_maximal_maximal: p-maximal at every prime => index 1 or -1 '
    'in every over-order, which has the same lattice',
    '[C] find_integral_basis_maximal_partial / find_integral_basis_p_maximal_partial: the driver theorems for ANY f with non-zero leading '
    'coefficient, PROVIDED the starting order is computed and closed under multiplication (flag computed by the model; proved for monic f; '
    'fifth wave: the flag holds for every f, see non_monic_start_is_order)',
    # ---- fifth wave
    '[P] non_monic_start_is_order / non_monic_start_table / non_monic_flag (Dedekind): for EVERY f = a_n x^n + .. + a_0 of degree n >= 1 with '
    'a_n != 0 (canonical coefficient list; any sign, not necessarily primitive, irreducible or squarefree) non_monic_initial_order returns '
    '(generator matrix 1, w_1, .., w_(n-1), w_i = a_n x^i + .. + a_(n-i+1) x, lower triangular with diagonal 1, a_n, .., a_n: det_trig) and the '
    'stored basis is an order (is_order: stored basis, contains 1, Order::get_mult_table returns on it: all products have integer coordinates). '
    'Proof: with b_u = a_(n-u), D_k = b_0 x^k + .. + b_(k-1) x, the identity D_i D_j = sum_(u<i) b_u D_(i+j-u) - sum_(v<i) b_(j+v) D_(i-v) holds in '
    'every commutative ring (Round2W5Ident.DP_mul, induction on i with D_(k+1) = x D_k + b_k x); w_k = D_k (k < n), D_n = f - a_0, '
    'D_k = x^(k-n) f (k > n), so modulo f each w_i w_j is an integer combination of 1, w_1, .., w_(n-1); hnf_reduce keeps the lattice; '
    'dedekind_generators_table: get_mult_table also returns on the generator rows themselves (before hnf_reduce)',
    '[P] find_integral_basis_order (the statement of find_integral_basis_order_partial without its flag, any f with non-zero leading '
    'coefficient, degree >= 1, both profiles): the starting order is computed and is an order; a returning driver returns an order; every panic '
    'of the driver is a panic of o.discriminant(theta), of the trial factorisation (discriminant 0) or the u64 overflow of e -= 2*howmany -- no '
    'panic of non_monic_initial_order and no panic inside one_step is reachable',
    '[P] find_integral_basis_no_panic / find_integral_basis_p_maximal_all / find_integral_basis_maximal_all: the fourth-wave driver theorems '
    'WITHOUT the hypothesis "f monic": for every f of degree deg >= 1 (2 deg < 2^64) with non-zero leading coefficient whose starting order has a '
    'non-zero discriminant of fewer than 2^64 bits, in both build profiles find_integral_basis returns (no panic, enough fuel) an order that is '
    'p-maximal at every prime and is the maximal order (index 1 or -1 in every over-order, which has the same lattice)',
    # ---- eighth wave
    '[P] maximal_order_contains / maximal_order_unique / driver_largest_order (f canonical of degree n >= 1, not necessarily irreducible): an '
    'order O1 of Q[x]/(f) without larger order (no_larger_order: every over-order lies in its lattice -- the conclusion of '
    'find_integral_basis_maximal_all) contains EVERY order O2 (weak_order: any n x n rational matrix, no normal form required, whose lattice '
    'contains 1 and on which get_mult_table returns), not only those that contain O1; two orders without larger order have the same lattice; '
    'under the driver hypotheses the order returned by find_integral_basis contains every order: it is the largest order. Proof: the product '
    'module O1 O2 contains O1 and O2, is closed under multiplication by commutativity, is finitely generated of full rank, so has a basis '
    '(HNF::new of its generators after clearing denominators: C02 hnf_new_total / hnf_new_correct, full rank as in Round2W3Det) on which '
    'get_mult_table returns (C14 get_mult_table_iff): it is an over-order of O1; maximal_order_same_stored / maximal_order_stored_equal: hence '
    '(C15 order_canonical, HNF canonicity) Order::from_basis has the same outcome on any two orders without larger order, and two such orders '
    'that are fixed points of from_basis are equal as lists of rationals',
    '[P] disc_invariant_shift / disc_invariant_scale / disc_invariant_neg / disc_invariant_recip and ib_find_disc_shift / _scale / _recip '
    '(independence of the generator for theta + k, c theta with c a non-zero integer, -theta, 1/theta): for f of degree n >= 1 (2n < 2^64) and '
    'g = poly_shift f k = f(x + k), g = poly_scale f c = c^n f(x/c) (c = -1: (-1)^n f(-x)), g = rev f = x^n f(1/x) (f(0) != 0), both f and g under the '
    'hypotheses of find_integral_basis_maximal_all (non-zero discriminant of the starting order with fewer than 2^64 bits): the orders returned '
    'by find_integral_basis for f and for g have the same order_disc, and the discriminants returned by the entry point ib_find are equal. '
    'Proof: x |-> h (h = x - k, c x, x^-1 mod f) induces an algebra isomorphism Q[x]/(g) -> Q[x]/(f) with an invertible matrix Phi on '
    'coordinates; it is multiplicative, so it maps the maximal order of g to an order without larger order of f, which has the lattice of the '
    'driver result for f (maximal_order_unique); the regular representations are conjugate by Phi, so the trace forms of the power bases satisfy '
    'P_g = Phi P_f Phi^T; both discriminants are det(B)^2 det(P) (C15 order_disc_trace_form, trZ_pform), and two bases of one lattice differ by an '
    'integer matrix of determinant +-1. poly_shift_eval pins the meaning of poly_shift (evaluation at x = evaluation of f at x + k); '
    'poly_shift_length / poly_scale_length / rev_canon_length: the transformed lists are canonical of the same length',
]
NOT_PROVED = [
    'that the discriminant of the returned order equals the field discriminant as defined through embeddings / that the maximal order is the '
    'integral closure of Z in Q[x]/(f) (no notion of integral element in the development; maximality is stated as: no strictly larger '
    'lattice closed under multiplication, and -- eighth wave -- the returned order contains every order, i.e. every full-rank lattice containing 1 '
    'and closed under multiplication; this characterises the ring of integers when f is irreducible because every integral element lies in '
    'some order, but that last step is not formalised)',
    'independence of the generator beyond the four changes named in the property text: theta + k, -theta, c*theta, 1/theta are proved '
    '(disc_invariant_shift / _neg / _scale / _recip; compositions follow by chaining, each step needing the driver hypotheses for both '
    'polynomials); for an arbitrary second generator the statement is proved only in MathComp vocabulary (Refine/W8C06Main.v '
    'disc_invariant_driver_unit: any polynomial h with g(h) = 0 mod f whose substitution matrix is invertible) and not exported to Props; that '
    'the discriminant hypothesis (non-zero, fewer than 2^64 bits) for g follows from the one for f is NOT proved: it is a hypothesis for both',
    'inside one_step only the assertions of the table construction (expect on solve_linear_system, is_integer) are reachable, and only '
    'on inputs that are not orders (w3_not_a_ring); on orders the step is proved panic-free (order_step_returns)',
    'inputs whose discriminant is 0 (f not squarefree: trial_factorize panics on its assert) or has 2^64 bits or more (the u64 exponents of '
    'the factorisation would not fit) are excluded from find_integral_basis_no_panic / _p_maximal_all / _maximal_all by hypothesis; so is '
    '2 deg >= 2^64',
]
ASSUMPTIONS = ['num::integer::lcm on BigInt taken as Z.lcm (non-negative)',
               'one_step is reached through the feature-gated access wrapper integral_basis::verif::one_step of /repo (module round2 is private)']

CLAIM = dict(
    technique='Coq proof about the Gallina model of find_integral_basis / round2::one_step + extracted-model-vs-implementation correspondence '
              '+ independent maximality oracle on every explored input',
    text='Proved for all inputs about the model (coq/Props/C06.v, 87 theorems, closed under the global context). Eighth wave: the order returned by the driver '
         'contains every order of Q[x]/(f) and is the only order without larger order (as a lattice), and the discriminant the code reports is the same for f and for the '
         'minimal polynomials of theta + k, -theta, c*theta (c a non-zero integer) and 1/theta (each pair under the driver hypotheses). Fifth wave: Dedekind\'s lemma -- the '
         'starting order Z[theta] cap Z[1/theta] of EVERY f of degree >= 1 with non-zero leading coefficient is computed and is an order (closed under '
         'multiplication: get_mult_table returns on it), so all driver theorems hold for monic and non-monic f alike, without any flag. Fourth wave: the Pohst-Zassenhaus '
         'theorem for the model (one_step on an order at a prime returns howmany = 0 iff the order is p-maximal), no u64 underflow of the exponent '
         'bookkeeping, and for every f (monic or not, non-zero leading coefficient) whose starting order has non-zero discriminant (fewer than 2^64 bits, 2 deg < 2^64), in both build profiles: '
         'find_integral_basis returns (no panic, enough fuel) an order that is p-maximal at every prime and is the maximal order (every lattice closed '
         'under multiplication that contains it is equal to it). Earlier waves: the loop structure and exit '
         'condition of the driver, index(new, old) = p^howmany for every step on a stored basis, containment of the input order in every '
         'step result and of the starting order in the final result, disc(start) = disc(O) * index^2 with index >= 1, the degree-1 case, '
         '(conditionally on integrality of the intermediate discriminants) absence of u64 underflow; and for the Round 2 step itself: the '
         'lattices it computes (I_p = kernel of the linearised power map = the p-radical { x : x^pow = 0 mod p }, an ideal; U_p = its p-fold '
         'multiplier lattice), that the step maps orders to orders (contains 1, closed under multiplication: get_mult_table returns on the '
         'result) and cannot panic or run out of fuel on an order at a prime, hence that the driver returns an order and can only panic outside one_step '
         '(unconditionally, for monic and non-monic f). The model (coq/Model/Round2.v on '
         'top of Hnf.v, LinAlg.v, Order.v, Algebraic.v, Resultant.v, Elementary.v) reproduces the driver and the Round 2 step statement by '
         'statement (tables mod p and p^2 with truncating %, Frobenius power, I_p and U_p through HNF::new(HNF::kernel(.)) with row '
         'truncation, assertions, u64 exponent bookkeeping); it is tied to /repo by running the extracted model and impl_svc (library, '
         'one_step through the access wrapper, and the CLI) on the same inputs.',
    note='NOT proved: identification of the maximal order with the integral closure (only: it contains every order); independence of the generator is proved for the four changes of generator of the property text, not for an arbitrary second generator; these clauses are checked on every explored input by an independent oracle (ring axioms, '
         'discriminant by formula / trace form / closed forms of quadratic, pure cubic, cyclotomic, biquadratic fields, p-maximality by '
         'the Dedekind criterion and by an own multiplier-ring test, equal discriminants across changes of generator).',
    ref='DESIGN.md section 4, C06')

# ------------------------------------------------------------------ F_p[x] (lists of ints in [0,p), lowest degree first)

def ftrim(a):
    while a and a[-1] == 0: a.pop()
    return a

def fred(a, p): return ftrim([x % p for x in a])

def fsub(a, b, p):
    n = max(len(a), len(b))
    return ftrim([((a[i] if i < len(a) else 0) - (b[i] if i < len(b) else 0)) % p for i in range(n)])

def fmul(a, b, p):
    if not a or not b: return []
    r = [0] * (len(a) + len(b) - 1)
    for i, x in enumerate(a):
        if x:
            for j, y in enumerate(b): r[i + j] = (r[i + j] + x * y) % p
    return ftrim(r)

def fdivmod(a, b, p):
    a = list(a); n = len(b) - 1
    iv = pow(b[-1], -1, p)
    q = [0] * max(0, len(a) - n)
    while len(a) - 1 >= n and a:
        k = len(a) - 1 - n
        c = a[-1] * iv % p
        q[k] = c
        for j in range(n + 1): a[k + j] = (a[k + j] - c * b[j]) % p
        ftrim(a)
    return ftrim(q), a

def fmonic(a, p):
    if not a: return a
    iv = pow(a[-1], -1, p)
    return [x * iv % p for x in a]

def fgcd(a, b, p):
    a, b = list(a), list(b)
    while b: a, b = b, fdivmod(a, b, p)[1]
    return fmonic(a, p)

def fderiv(a, p): return ftrim([i * c % p for i, c in enumerate(a)][1:])

def fpowmod(a, e, f, p):
    r = [1]; a = fdivmod(a, f, p)[1]
    while e:
        if e & 1: r = fdivmod(fmul(r, a, p), f, p)[1]
        a = fdivmod(fmul(a, a, p), f, p)[1]; e >>= 1
    return r

def fradical(f, p):
    """product of the distinct monic irreducible factors of f (non-zero) in F_p[x]"""
    f = fmonic(f, p)
    if len(f) <= 1: return [1]
    df = fderiv(f, p)
    if not df:                                      # f = h(x^p) = h(x)^p
        return fradical([f[i] for i in range(0, len(f), p)], p)
    g = fgcd(f, df, p)
    w = fdivmod(f, g, p)[0]                          # factors with multiplicity prime to p, once each
    while True:
        y = fgcd(g, w, p)
        if len(y) <= 1: break
        g = fdivmod(g, y, p)[0]
    return fmul(w, fradical(g, p), p) if len(g) > 1 else w

def degree_pattern(f, p):
    """degrees of the irreducible factors of f mod p (with repetition), or None when p | lc or f is not squarefree mod p"""
    if f[-1] % p == 0: return None
    g = fmonic(fred(f, p), p)
    if len(fgcd(g, fderiv(g, p), p)) > 1: return None
    out = []; h = [0, 1]; d = 0
    while len(g) - 1 >= 2 * (d + 1):
        d += 1
        h = fpowmod(h, p, g, p)
        c = fgcd(g, fsub(h, [0, 1], p), p)
        if len(c) > 1:
            out += [d] * ((len(c) - 1) // d)
            g = fdivmod(g, c, p)[0]
            h = fdivmod(h, g, p)[1] if len(g) > 1 else []
    if len(g) > 1: out.append(len(g) - 1)
    return out

SMALL_PRIMES = [p for p in range(2, 100) if all(p % q for q in range(2, p))]

def has_rational_root(f):
    if f[0] == 0: return True
    def divs(m):
        m = abs(m); return [d for d in range(1, m + 1) if m % d == 0] if m <= 10 ** 6 else []
    for a in divs(f[0]):
        for b in divs(f[-1]):
            for s in (1, -1):
                if sum(c * (s * a) ** i * b ** (len(f) - 1 - i) for i, c in enumerate(f)) == 0: return True
    return False

def irreducible_own(f):
    """True / False / None (undecided) for f in Z[x] of degree >= 1 over Q"""
    n = len(f) - 1
    if n == 1: return True
    if has_rational_root(f): return False
    if n <= 3: return True
    possible = set(range(n + 1))
    for p in SMALL_PRIMES:
        pat = degree_pattern(f, p)
        if pat is None: continue
        sums = {0}
        for d in pat: sums |= {s + d for s in sums}
        possible &= sums
        if possible == {0, n}: return True
    return None

# ------------------------------------------------------------------ integers

def factor_small(n, bound=10 ** 4):
    """(list of (p, e) with p < bound, cofactor)"""
    n = abs(n); out = []
    p = 2
    while p < bound and p * p <= n:
        e = 0
        while n % p == 0: n //= p; e += 1
        if e: out.append((p, e))
        p += 1
    if 1 < n < bound * bound: out.append((n, 1)); n = 1
    return out, n

def square_primes(d):
    """the primes p with p^2 | d, for 0 < |d| < 10^12 (a cofactor above 10^8 without factor below 10^4 is p, pq or p^2)"""
    fs, c = factor_small(d)
    ps = [p for p, e in fs if e >= 2]
    if c > 1:
        r = math.isqrt(c)
        if r * r == c: ps.append(r)
    return ps

def trial_cost(n):
    """number of iterations of the trial-division loop of factorize(n)"""
    n = abs(n); p = 2; it = 0
    while p * p <= n:
        while n % p == 0: n //= p
        p += 1; it += 1
    return it

def squarefree_part(d):
    """(s, t) with d = s t^2, s squarefree (sign in s)"""
    s = 1 if d > 0 else -1; t = 1; d = abs(d)
    p = 2
    while p * p <= d:
        e = 0
        while d % p == 0: d //= p; e += 1
        s *= p ** (e % 2); t *= p ** (e // 2)
        p += 1
    return s * d, t

def quad_disc(d):
    s, _ = squarefree_part(d)
    return s if s % 4 == 1 else 4 * s

def cubic_disc(a):
    """discriminant of Q(cbrt a), a not a cube: cube-free part a0 = b c^2 (b, c squarefree, coprime); -27 b^2 c^2 unless
    b^2 = c^2 mod 9 (then -3 b^2 c^2)"""
    a = abs(a); b = c = 1; p = 2
    while a > 1:
        e = 0
        while a % p == 0: a //= p; e += 1
        if e % 3 == 1: b *= p
        if e % 3 == 2: c *= p
        p += 1
    assert b * c > 1
    return (-3 if (b * b - c * c) % 9 == 0 else -27) * b * b * c * c

def phi(n): return sum(1 for k in range(1, n + 1) if math.gcd(k, n) == 1)

def cyclo(n):
    """Phi_n = (x^n - 1) / prod_{d | n, d < n} Phi_d"""
    num = [F(-1)] + [F(0)] * (n - 1) + [F(1)]
    for d in range(1, n):
        if n % d == 0:
            den = [F(x) for x in cyclo(d)]
            q = []; a = list(num)
            while len(a) >= len(den):
                c = a[-1] / den[-1]; q.append(c)
                k = len(a) - len(den)
                for j, y in enumerate(den): a[k + j] -= c * y
                a.pop()
            assert all(x == 0 for x in a)
            num = list(reversed(q))
    return [int(x) for x in num]

def cyclo_disc(n):
    ph = phi(n); d = n ** ph
    for p in SMALL_PRIMES:
        if n % p == 0: d //= p ** (ph // (p - 1))
    return d if (ph // 2) % 2 == 0 else -d

def biquad(m, n): return [(m - n) ** 2, 0, -2 * (m + n), 0, 1]

def biquad_disc(m, n):
    g = math.gcd(m, n)
    return quad_disc(m) * quad_disc(n) * quad_disc(m * n // (g * g))

# ------------------------------------------------------------------ changes of generator

def shift(f, k):
    """f(x - k): minimal polynomial of theta + k (Horner)"""
    r = []
    for c in reversed(f):
        r = [0] + r
        for i in range(len(r) - 1): r[i] -= k * r[i + 1]
        r[0] += c
    return r

def negate(f):
    n = len(f) - 1
    return [c * (-1) ** (n - i) for i, c in enumerate(f)]

def scale(f, c):
    """c^n f(x / c): minimal polynomial of c theta (same leading coefficient)"""
    n = len(f) - 1
    return [a * c ** (n - i) for i, a in enumerate(f)]

def reverse(f): return list(reversed(f))

def primitive(f):
    g = 0
    for c in f: g = math.gcd(g, c)
    return [c // g for c in f]

def variants(f, rng, want):
    """polynomials defining the same field as f (f first)"""
    cand = [f, shift(f, 1), negate(f), shift(f, -1), scale(f, 2), reverse(f), shift(f, 2), scale(f, 3), reverse(shift(f, 1)),
            negate(reverse(shift(f, -1))), scale(f, 4), shift(scale(f, 2), 1), scale(reverse(f), 2), reverse(shift(f, 3)),
            scale(f, 6), scale(f, 8), scale(f, 9), reverse(scale(f, 2)), shift(reverse(shift(f, 2)), 1)]
    out = []
    for g in cand:
        g = primitive(g)
        if g[0] == 0 or g in out: continue
        out.append(g)
    head, tail = out[:1], out[1:]
    rng.shuffle(tail)
    return head + tail[:want]

def start_disc(f): return int(disc_poly([F(c) for c in f]))      # disc(Z[theta] cap Z[1/theta]) = disc f

# ------------------------------------------------------------------ the order as a ring

class Ord:
    """lattice with basis B (rows, power basis of theta) in Q[x]/(f): coordinates, multiplication table"""
    def __init__(self, f, B):
        self.f = [F(c) for c in f]; self.n = len(f) - 1
        self.B = fmat(B); self.Bi = inverse(self.B)
        self._T = None
    def coords(self, pol):
        v = [pol[k] if k < len(pol) else F(0) for k in range(self.n)]
        return matmul([v], self.Bi)[0]
    def table(self):
        """T[i][j] = coordinates of w_i w_j (Fractions; integral iff the lattice is closed under multiplication)"""
        if self._T is None:
            n = self.n; W = [ptrim(r) for r in self.B]
            T = [[None] * n for _ in range(n)]
            for i in range(n):
                for j in range(i, n):
                    T[i][j] = T[j][i] = self.coords(mulmod(W[i], W[j], self.f))
            self._T = T
        return self._T

def mul_vec(T, a, b, p, n):
    r = [0] * n
    for i in range(n):
        if a[i] == 0: continue
        for j in range(n):
            c = a[i] * b[j]
            if c == 0: continue
            row = T[i][j]
            for k in range(n): r[k] += c * row[k]
    return [x % p for x in r] if p else r

def rref_mod(rows, p):
    """reduced row echelon form over F_p: (rows, pivot columns)"""
    rows = [[x % p for x in r] for r in rows]
    piv = []; r = 0
    ncol = len(rows[0]) if rows else 0
    for c in range(ncol):
        k = next((i for i in range(r, len(rows)) if rows[i][c]), None)
        if k is None: continue
        rows[r], rows[k] = rows[k], rows[r]
        iv = pow(rows[r][c], -1, p)
        rows[r] = [x * iv % p for x in rows[r]]
        for i in range(len(rows)):
            if i != r and rows[i][c]:
                m = rows[i][c]
                rows[i] = [(x - m * y) % p for x, y in zip(rows[i], rows[r])]
        piv.append(c); r += 1
    return rows[:r], piv

def kernel_mod(M, p):
    """basis of {x : x M = 0 mod p} (row vectors), M with n rows"""
    n = len(M)
    aug = [[x % p for x in M[i]] + [int(i == j) for j in range(n)] for i in range(n)]
    m = len(M[0]) if M else 0
    rows, piv = rref_mod(aug, p)
    return [r[m:] for r, c in zip(rows, piv) if c >= m]

def radical_brute(T, p, n):
    """nilpotent elements of O/pO by enumeration: x^N = 0 with N the power of two >= n"""
    nil = []
    for x in itertools.product(range(p), repeat=n):
        y = list(x); k = 1
        while k < n:
            y = mul_vec(T, y, y, p, n); k *= 2
        if not any(y): nil.append(list(x))
    return rref_mod(nil, p)[0]

def radical_trace(T, p, n):
    """p > n: the radical of O/pO is the kernel of the trace form"""
    tr = [sum(T[k][l][l] for l in range(n)) for k in range(n)]
    G = [[sum(T[i][j][k] * tr[k] for k in range(n)) for j in range(n)] for i in range(n)]
    return rref_mod(kernel_mod(G, p), p)[0] if n else []

def radical_frobenius(T, p, n):
    """kernel of the F_p-linear map x -> x^(p^k), p^k >= n"""
    q = 1
    while q < n: q *= p
    M = []
    for i in range(n):
        e = [int(i == j) for j in range(n)]
        r = None; b = e; k = q
        while k:
            if k & 1: r = b if r is None else mul_vec(T, r, b, p, n)
            b = mul_vec(T, b, b, p, n); k >>= 1
        M.append(r)
    return rref_mod(kernel_mod(M, p), p)[0]

def radical(T, p, n):
    if p ** n <= 4000: return radical_brute(T, p, n)
    if p > n: return radical_trace(T, p, n)
    return radical_frobenius(T, p, n)

def pmaximal_problem(O, p):
    """None iff the order O (integral multiplication table) is p-maximal: the ring of multipliers of its p-radical I_p is O
    itself, i.e. the n maps (x -> w_i x) on I_p / p I_p are linearly independent over F_p (Pohst-Zassenhaus)"""
    n = O.n
    T = [[[int(x) for x in O.table()[i][j]] for j in range(n)] for i in range(n)]
    rad = radical(T, p, n)
    piv = [next(c for c in range(n) if r[c]) for r in rad]
    J = [list(r) for r in rad] + [[p * int(c == j) for c in range(n)] for j in range(n) if j not in piv]
    Ji = inverse(J)
    vecs = []
    for i in range(n):
        e = [int(i == c) for c in range(n)]
        flat = []
        for k in range(n):
            prod = mul_vec(T, e, J[k], 0, n)
            co = matmul([prod], Ji)[0]
            if any(not is_int(x) for x in co): return 'the p-radical at %d is not an ideal (own computation)' % p
            flat += [int(x) % p for x in co]
        vecs.append(flat)
    rk = len(rref_mod(vecs, p)[0])
    if rk < n: return 'not %d-maximal: the ring of multipliers of the %d-radical is larger by %d^%d' % (p, p, p, n - rk)
    return None

def dedekind_maximal(f, p):
    """monic f: Z[theta] is p-maximal iff gcd(g, h, T) = 1 mod p, g = radical of f mod p, h = f / g, T = (g h - f) / p"""
    fb = fred(f, p)
    g = fradical(fb, p)
    h = fdivmod(fb, g, p)[0]
    gl = [F(x) for x in g]; hl = [F(x) for x in h]
    tt = [x / p for x in ptrim([a - b for a, b in itertools.zip_longest(pmul(gl, hl), [F(c) for c in f], fillvalue=F(0))])]
    assert all(is_int(x) for x in tt)
    t = fred([int(x) for x in tt], p)
    d = fgcd(g, h, p)
    d = fgcd(d, t, p) if t else d
    return len(d) <= 1

def order_problem(f, B, disc, index, expect=None, check_max=True):
    """None iff [B, disc, index] is the maximal order of Q[x]/(f), f irreducible of degree n >= 1, with its data"""
    n = len(f) - 1
    if not is_square(B, n): return 'basis is not %d x %d' % (n, n)
    pb = canonical_problem(B)
    if pb: return 'stored basis not canonical: %s' % pb
    O = Ord(f, B)
    if O.Bi is None: return 'basis is singular'
    if any(not is_int(x) for x in O.coords([F(1)])): return '1 is not in the lattice'
    for i, row in enumerate(O.table()):
        for j, v in enumerate(row):
            if any(not is_int(x) for x in v): return 'not closed under multiplication: w_%d w_%d has coordinates %s' % (i, j, v)
    S = nonmonic_basis(f)
    if not contains(O.B, S): return 'does not contain the starting order'
    dB = det(O.B); dS = det(fmat(S))
    q = abs(dS) / abs(dB)
    if q.denominator != 1 or index != q or index <= 0: return 'index = %s, |det start| / |det O| = %s' % (index, q)
    ff = [F(c) for c in f]
    dexp = disc_poly(ff) * dB ** 2 / F(f[-1]) ** (2 * (n - 1))
    if dexp != disc: return 'discriminant = %s, disc(f) det^2 / lc^(2n-2) = %s' % (disc, dexp)
    dstart = disc_poly(ff) * dS ** 2 / F(f[-1]) ** (2 * (n - 1))
    if disc * index * index != dstart: return 'disc * index^2 = %s, disc(start) = %s' % (disc * index * index, dstart)
    # the discriminant once more, as the determinant of the trace form Tr(w_i w_j)
    T = O.table()
    tr = [sum(T[k][l][l] for l in range(n)) for k in range(n)]
    G = [[sum(T[i][j][k] * tr[k] for k in range(n)) for j in range(n)] for i in range(n)]
    if det(G) != disc: return 'discriminant = %s, det of the trace form = %s' % (disc, det(G))
    if expect is not None and disc != expect: return 'discriminant = %s, closed form of the field discriminant = %s' % (disc, expect)
    if check_max and disc != 0:
        for p in square_primes(disc):
            pb = pmaximal_problem(O, p)
            if pb: return pb
        if f[-1] == 1:
            for p in square_primes(start_disc(f)):
                if index % p and not dedekind_maximal(f, p):
                    return 'index %s prime to %d but Z[theta] is not %d-maximal (Dedekind criterion)' % (index, p, p)
    return None

def group_problem(fs, vals, expect):
    if len(vals) != len(fs): return 'wrong number of answers'
    d0 = None
    for f, (B, disc, index) in zip(fs, vals):
        pb = order_problem(f, B, disc, index, expect)
        if pb: return 'f = %s: %s' % (f, pb)
        if d0 is None: d0 = disc
        elif disc != d0: return 'f = %s gives discriminant %s, but %s gives %s for the same field' % (f, disc, fs[0], d0)
    return None

def o_group(fs, expect=None):
    def orc(ia):
        if ia.kind != 'ok': return 'find_integral_basis did not return: %s' % ia.raw[:160]
        return group_problem(fs, ia.val, expect)
    return orc

def o_single(f, expect=None):
    def orc(ia):
        if ia.kind != 'ok': return 'find_integral_basis did not return: %s' % ia.raw[:160]
        return group_problem([f], [ia.val], expect)
    return orc

def o_cli(f, expect=None):
    def orc(ia):
        if ia.kind != 'ok' or ia.val == Id('cli_failed'): return 'CLI on %s did not return: %s' % (f, ia.raw[:120])
        index, disc = ia.val
        if expect is not None and disc != expect: return 'CLI discriminant %s, closed form %s' % (disc, expect)
        if disc * index * index != start_disc(f): return 'CLI: disc * index^2 = %s, disc(start) = %s' % (disc * index * index, start_disc(f))
    return orc

def compare_cli(ia, ma):
    """CLI: ok [index disc] | ok cli_failed; model ib_find: ok [basis disc index] | panic"""
    if ia.kind != 'ok': return default_compare(ia, ma)
    if ia.val == Id('cli_failed'):
        return None if ma.kind == 'panic' else 'CLI failed, model %r' % ma.raw[:200]
    if ma.kind != 'ok': return 'CLI %r vs model %r' % (ia.raw[:200], ma.raw[:200])
    if [ma.val[2], ma.val[1]] != list(ia.val): return 'CLI printed %r, library/model (index, disc) = %r' % (ia.raw[:200], [ma.val[2], ma.val[1]])
    return None

def o_step(f, Bold, p, prime_p):
    """one_step on an order with basis Bold (known to be an order) at p: [basis howmany]"""
    def orc(ia):
        if ia.kind != 'ok': return 'one_step did not return: %s' % ia.raw[:160]
        B, h = ia.val
        n = len(f) - 1
        if not is_square(B, n): return 'basis is not %d x %d' % (n, n)
        pb = canonical_problem(B)
        if pb: return 'stored basis not canonical: %s' % pb
        O = Ord(f, B)
        if not contains(O.B, fmat(Bold)): return 'one_step: the result does not contain the input order'
        q = abs(det(fmat(Bold))) / abs(det(O.B))
        if q != F(abs(p)) ** h: return 'one_step: index %s is not p^howmany = %d^%d' % (q, p, h)
        if prime_p:
            for i, row in enumerate(O.table()):
                for j, v in enumerate(row):
                    if any(not is_int(x) for x in v): return 'one_step: result not closed under multiplication (w_%d w_%d)' % (i, j)
            mx = pmaximal_problem(Ord(f, Bold), p)
            if h == 0 and mx: return 'one_step returned index 1 but the input order is %s' % mx
            if h > 0 and mx is None: return 'one_step enlarged an order that is %d-maximal' % p
        return None
    return orc

# ------------------------------------------------------------------ generators

def idx_tag(dstart, dK):
    q = dstart // dK
    r = math.isqrt(abs(q))
    if r == 1: return 'idx1'
    fs, c = factor_small(r)
    if c == 1 and len(fs) == 1: return 'idx-p' if fs[0][1] == 1 else 'idx-p^k'
    return 'idx-composite'

def ok_size(f, limit, cost):
    d = start_disc(f)
    return d != 0 and abs(d) <= limit and trial_cost(d) <= cost and max(abs(c) for c in f) < 10 ** 9

def group_case(fs, expect, tag):
    n = len(fs[0]) - 1
    return Case('ib_find_many', line('ib_find_many', fs), oracle=o_group(fs, expect), nontrivial=n >= 2, tag=tag, always_oracle=True)

def single_case(f, expect, tag):
    n = len(f) - 1
    return Case('ib_find', line('ib_find', f), oracle=o_single(f, expect), nontrivial=n >= 2, tag=tag, always_oracle=True)

def cli_case(f, expect, tag):
    return Case('cli_integral_basis', line('cli_integral_basis', f), model=line('ib_find', f), compare=compare_cli, oracle=o_cli(f, expect),
                nontrivial=len(f) >= 3, tag='cli:' + tag, always_oracle=True)

def family(out, bases, rng, limit, cost, want, chunk=4):
    """bases: (f, closed-form discriminant or None, tag).  Emits the groups of variants of each f, in chunks; without a closed
    form every chunk starts with the same reference member, so that all members are compared with each other."""
    for f, expect, tag in bases:
        vs = [g for g in variants(f, rng, want) if ok_size(g, limit, cost)]
        if not vs: continue
        ref, rest = vs[0], vs[1:]
        chunks = [rest[k:k + chunk - 1] for k in range(0, len(rest), chunk - 1)] or [[]]
        for c in chunks:
            grp = [ref] + c
            t = tag
            if expect is not None: t += ':' + idx_tag(start_disc(grp[-1]), expect)
            t += ':monic' if all(g[-1] == 1 for g in grp) else ':nonmonic'
            out.append(group_case(grp, expect, t))

def rand_irreducible_own(rng, deg, bound, monic):
    for _ in range(200):
        f = [rng.randint(-bound, bound) for _ in range(deg)] + [1 if monic else rng.choice([-1, 1]) * rng.randint(2, max(2, bound))]
        if f[0] == 0: continue
        f = primitive(f)
        if irreducible_own(f): return f
    return None

PROFILES = ('debug', 'release')

def cases(rng, tier):
    th = tier == 'thorough'
    limit = 10 ** 12 if th else 10 ** 10
    cost = 400000 if th else 40000
    want = 12 if th else 5
    out = []
    bases = []
    # quadratic
    ds = [d for d in range(-60, 61) if d not in (0, 1) and squarefree_part(d)[0] != 1]
    if not th: ds = [d for d in ds if abs(d) <= 12 or d % 7 == 0 or d % 4 == 1 and d % 3 == 0]
    for d in ds: bases.append(([-d, 0, 1], quad_disc(d), 'quad'))
    for s in (-3, -1, 2, 5, -7, 13, 6, -15, 21):
        for m in ([2, 4, 8, 16, 32, 3, 9, 27, 6, 12, 30, 5, 25, 7, 49] if th else [4, 32, 9, 27, 30, 25]):
            bases.append(([-s * m * m, 0, 1], quad_disc(s), 'quad-planted'))
    # pure cubic
    As = [a for a in range(-40, 41) if a not in (0, 1, -1) and round(abs(a) ** (1 / 3)) ** 3 != abs(a)]
    if not th: As = [a for a in As if abs(a) <= 12 or a % 9 in (1, 8) or a % 6 == 0]
    for a in As: bases.append(([-a, 0, 0, 1], cubic_disc(a), 'cubic'))
    for a0 in (2, 3, 10, 12, 17, 19, 28):
        for m in ([2, 3, 4, 5, 6] if th else [2, 3]):
            bases.append(([-a0 * m ** 3, 0, 0, 1], cubic_disc(a0), 'cubic-planted'))
    # cyclotomic
    for n in range(3, 13):
        bases.append((cyclo(n), cyclo_disc(n), 'cyclo%d' % n))
    # biquadratic
    pairs = [(2, 3), (-1, 2), (-1, 3), (2, 5), (-3, 5), (3, 7), (-1, -2), (5, 13), (-3, -7), (2, -5), (6, 10), (-1, 5), (-2, -3), (3, 5),
             (-7, 5), (13, 17), (-1, 6), (10, 15), (-3, 13), (5, 21)]
    if not th: pairs = pairs[:10]
    for m, n in pairs: bases.append((biquad(m, n), biquad_disc(m, n), 'biquad'))
    family(out, bases, rng, limit, cost, want)
    # Dedekind's cubic and the library's own test polynomials
    for f, dK in (([-8, -2, -1, 1], -503), ([5, 6, -7, 6, -7, 6], 7601837), ([37, 2, 1], -4), ([4, 3, 2, 1], -200), ([5, 4, 3, 2, 1], 10800),
                  ([6, 5, 4, 3, 2, 1], 1037232), ([7, 6, 5, 4, 3, 2, 1], -9834496)):
        if len(f) <= 6 or th: out.append(single_case(f, dK, 'known'))
    if th: out.append(single_case([8, 7, 6, 5, 4, 3, 2, 1], -241864704, 'known'))
    # every prime q < 260 (quick: a rotating third of them plus all q = 1 mod 30) as the index: x^2 - k q^2 has discriminant 4 k q^2,
    # the field discriminant is quad_disc(k) and Round 2 must run at q (a trial division that skips a residue class of divisors,
    # or mishandles one prime, leaves that q^2 in the discriminant)
    qs = [q for q in range(3, 260, 2) if all(q % d for d in range(3, int(q ** 0.5) + 1, 2))]
    for i, q in enumerate(qs):
        if th or q % 30 == 1 or i % 3 == rng.randrange(3):
            k = rng.choice([2, 3, -1, 5, -7])
            if k % q == 0: k = 2
            out.append(single_case([-k * q * q, 0, 1], quad_disc(k), 'index-prime-q'))
    # random irreducible
    rb = []
    plan = [(2, 9, 40), (3, 9, 60), (4, 5, 60), (5, 3, 24), (6, 2, 8)] if not th else [(2, 9, 120), (3, 9, 200), (4, 6, 200), (5, 4, 90), (6, 3, 40)]
    for deg, bound, cnt in plan:
        for k in range(cnt):
            f = rand_irreducible_own(rng, deg, bound, monic=k % 3 != 2)
            if f is not None and ok_size(f, limit, cost): rb.append((f, None, 'random:deg%d' % deg))
    family(out, rb, rng, limit, cost, 3 if not th else 5)
    # pure fields of degree >= 5 with wild ramification at 2 or 3 (x^n - a, a = 4, 8, 9, 12, ...): the p-radical has nilpotent
    # elements of index up to n, so the Frobenius exponent must really reach p^j >= n (an exponent stopped at p or p^2 is
    # wrong only here); a filtered by the generator's own irreducibility test
    ph = []
    for n_, as_ in ((5, (4, 8, 16, 9, 27, 12, -4, 48)), (6, (12, 24, 18, -12)), (7, (4, 8, 9))):
        for a_ in as_:
            f = [-a_] + [0] * (n_ - 1) + [1]
            if ok_size(f, limit, cost * 4) and irreducible_own(f): ph.append((f, None, 'pure-deg%d' % n_))
    if not th: ph = ph[:9]
    family(out, ph, rng, limit, cost * 4, 1 if not th else 3)
    # degree 1
    for k in range(12 if not th else 60):
        f = [rng.randint(-50, 50), rng.choice([-1, 1]) * rng.randint(1, 30)]
        out.append(Case('ib_find', line('ib_find', f), oracle=o_single(f, 1), nontrivial=False, tag='deg1', always_oracle=True))
    out.append(single_case([0, 1], 1, 'deg1'))
    # CLI
    sample = [b for b in bases if ok_size(b[0], limit, cost)]
    rng.shuffle(sample)
    for f, expect, tag in sample[:(40 if th else 10)]:
        vs = [g for g in variants(f, rng, 3) if ok_size(g, limit, cost)]
        for g in vs[:2]: out.append(cli_case(g, expect, tag))
    for f in ([3, 2], [-8, -2, -1, 1], [5, 6, -7, 6, -7, 6]): out.append(cli_case(f, None, 'known'))
    # one_step (needs the feature-gated access wrapper in /repo)
    out += step_cases(rng, th, bases + rb, limit, cost)
    # one Round-2 step on the wildly ramified pure fields at p = 2 and 3, from the starting order (no factorisation of the
    # discriminant is needed for a single step, so degree 8 and 9 are affordable here)
    if step_supported():
        wild = [f for f, _, _ in ph] + [[12] + [0] * 7 + [1], [-20] + [0] * 7 + [1], [6] + [0] * 8 + [1], [-4] + [0] * 6 + [1]]
        for f in wild:
            S = [[F(x) for x in r] for r in nonmonic_basis(f)]
            for q in (2, 3):
                out.append(Case('ib_one_step', line('ib_one_step', f, [Id('nonmonic'), f], q), oracle=o_step(f, S, q, True),
                                tag='step:start:pure-wild', always_oracle=True))
    # one Round-2 step at LARGE primes (p around 2^21, 2^23, 2^31, 2^61): products of three residues mod p exceed a machine word
    # long before p does; the library works on BigInt and must be exact there. f = (x - s)^2 + q^2 has index q at q,
    # f = (x - s)^3 - 2 q^3 has index q^3
    if step_supported():
        for q in (10007, 2097169, 6000011, 2147483659, 2305843009213693951):
            for f in ([q * q, 0, 1], [1234567 * 1234567 + q * q, -2 * 1234567, 1], [-2 * q ** 3, 0, 0, 1]):
                S = [[F(x) for x in r] for r in nonmonic_basis(f)]
                out.append(Case('ib_one_step', line('ib_one_step', f, [Id('nonmonic'), f], q), oracle=o_step(f, S, q, True),
                                tag='step:start:large-prime', always_oracle=True))
    # edge stream: outside the property's domain, compared with the model only
    edge = [[], [0], [4], [-1], [0, 0, 1], [0, 0, 0, 1], [1, 2, 1], [-1, 0, 1], [0, 1, 1], [-1, 0, 0, 1], [2, 0, 2], [4, 0, 2], [6, 4],
            [0, 2], [-2, 0, 1, 0, 1], [1, 0, 2, 0, 1], [4, 0, 5, 0, 1], [-4, 0, 0, 0, 1], [0, 1, 0, 1], [1, 0, 0, 0, 0], [2, 3, 0]]
    for f in edge:
        out.append(Case('ib_find', line('ib_find', f), nontrivial=False, tag='edge'))
    for f in edge[:8]:
        out.append(Case('cli_integral_basis', line('cli_integral_basis', f), model=line('ib_find', f), compare=compare_cli, nontrivial=False, tag='cli:edge'))
    # a slice of the cases again on the release build of the implementation (wrapping arithmetic, debug assertions off)
    out += lib.release_slice(out, rng, 0.1, mode_ops=('ib_find', 'ib_find_many'), plain_ops=())
    return out

def step_supported():
    a = impl_query([line('ib_one_step', [3, 0, 1], [Id('nonmonic'), [3, 0, 1]], 2)])[0]
    return a.kind != 'unsupported'

def step_cases(rng, th, bases, limit, cost):
    if not step_supported():
        return []
    out = []
    pool = [b for b in bases if ok_size(b[0], limit, cost)]
    rng.shuffle(pool)
    pool = pool[:(150 if th else 40)]
    qs = []; inter = []
    for f, _, tag in pool:
        for g in [g for g in variants(f, rng, 2) if ok_size(g, limit, cost)][:2]:
            qs.append((g, tag))
    ans = impl_query([line('ib_find', g) for g, _ in qs])
    for (g, tag), a in zip(qs, ans):
        if a.kind != 'ok': continue
        n = len(g) - 1
        d = start_disc(g)
        ps = [p for p, e in factor_small(d)[0]][:4]
        S = [[F(x) for x in r] for r in nonmonic_basis(g)]
        Bmax = a.val[0]
        for p in ps + [q for q in (2, 3, 5, 7) if d % q][:1]:
            out.append(Case('ib_one_step', line('ib_one_step', g, [Id('nonmonic'), g], p), oracle=o_step(g, S, p, True), nontrivial=n >= 2,
                            tag='step:start:' + tag, always_oracle=True))
            out.append(Case('ib_one_step', line('ib_one_step', g, [Id('basis'), Bmax], p), oracle=o_step(g, Bmax, p, True), nontrivial=n >= 2,
                            tag='step:maximal:' + tag, always_oracle=True))
        inter.append((g, ps, tag))
        # composite and negative p: compared with the model only
        for p in (-2, -3, 4, 6):
            if n >= 1:
                out.append(Case('ib_one_step', line('ib_one_step', g, [Id('nonmonic'), g], p), nontrivial=False, tag='step:odd-p'))
    # intermediate orders: the result of a step that enlarged the order, stepped again (twice)
    for _ in range(2):
        qs2 = [(g, p, tag, B) for g, p, tag, B in
               [(g, p, tag, None) for g, ps, tag in inter for p in ps]] if _ == 0 else nxt
        lines = [line('ib_one_step', g, [Id('nonmonic'), g] if B is None else [Id('basis'), B], p) for g, p, tag, B in qs2]
        nxt = []
        for (g, p, tag, B), a in zip(qs2, impl_query(lines)):
            if a.kind == 'ok' and a.val[1] > 0:
                B2 = a.val[0]
                out.append(Case('ib_one_step', line('ib_one_step', g, [Id('basis'), B2], p), oracle=o_step(g, B2, p, True),
                                nontrivial=len(g) >= 3, tag='step:intermediate:' + tag, always_oracle=True))
                nxt.append((g, p, tag, B2))
    # lattices that are not orders of Q[x]/(f) (wrong dimension, not a ring, no 1): compared with the model only
    I3 = [[1, 0, 0], [0, 1, 0], [0, 0, 1]]; I2 = [[1, 0], [0, 1]]
    for f, M, p in (([3, 0, 1], I3, 2), ([-2, 0, 0, 1], I2, 2), ([3, 0, 1], [[1, 0], [0, F(1, 3)]], 3), ([3, 0, 1], [[2, 0], [0, 2]], 2),
                    ([3, 0, 1], [[1, 0], [F(1, 2), F(1, 2)]], 6), ([-1, 0, 1], I2, 2), ([5, 0, 1], [[3, 0], [1, 1]], 3),
                    ([-2, 0, 0, 1], [[1, 0, 0], [0, 2, 0], [0, 0, 4]], 2), ([1, 0, 0, 0, 1], [[1, 0, 0, 0], [0, 1, 0, 0]], 2)):
        out.append(Case('ib_one_step', line('ib_one_step', f, [Id('basis'), M], p), nontrivial=False, tag='step:edge'))
    out.append(Case('ib_one_step', line('ib_one_step', [3, 0, 1], [Id('triv'), [3, 0, 1]], 2), nontrivial=False, tag='step:edge'))
    for f, p in (([3, 2], 0), ([3, 2], 1), ([3, 2], -1), ([4], 2), ([0, 0, 1], 2), ([-1, 0, 1], 2)):
        out.append(Case('ib_one_step', line('ib_one_step', f, [Id('nonmonic'), f], p), nontrivial=False, tag='step:edge'))
    return out
