"""C08 factorisation modulo a prime: factorize_mod_p and its stages squarefree / degree / final_split, plus the
primitives of src/poly_mod/prim.rs they are built from."""
import lib
from lib import line, Id, Case
from props.polymod_common import *

PROVED = ['[P] modpow_spec / modpow_cong / modpow_total: modpow = x^e mod m (all x, e >= 0, m <> 0)',
          '[P] poly_mod_reduced / poly_mod_nth: canonical output, coefficients in [0,p), coefficientwise reduction',
          '[P] poly_divrem_spec + poly_divrem_total (p prime, lc(b) not divisible by p): a = q b + r mod p, deg r < deg b, q and r reduced; '
          'uses Fermat\'s little theorem over Z (transferred from MathComp fermat_little) for modinv = x^(p-2)',
          '[P] poly_gcd_spec: the gcd of reduced polynomials is reduced and divides both arguments modulo p',
          '[P] poly_gcd_total / poly_ext_gcd_total: the supplied fuel suffices on reduced arguments (deterministic termination)',
          '[P] poly_modpow_spec: for e > 0 the result is x^e modulo (g, p), reduced',
          '[P] factorize_normalised: for every prime p, f, pusize >= 0, draw stream and profile: if factorize_mod_p returns, every g_i is monic, canonical, '
          'with coefficients in [0,p) and degree >= 1; e_i >= 1 in the dev profile (structural invariants: all intermediate polynomials reduced and non-zero)',
          '[P] final_split_product: equal-degree stage (Cantor-Zassenhaus for every draw stream, and the p = 2 branch): if it returns, the product of the pieces is the input mod p, all pieces reduced and non-zero',
          '[P] degree_product: distinct-degree stage: the product of the parts is the input up to a unit constant',
          '[B] factorize_mod_2_small: every non-zero f over F_2 of degree <= 8: the model returns without panic/draws and the answer passes an '
          'independent exhaustive-search check of all clauses (monic, irreducible, distinct, multiplicities, product)',
          '[B] pusize_irrelevant_small / pusize_irrelevant_big: p > deg f (all f over F_5 deg <= 4, F_7 deg <= 3; p = nextprime(2^64), '
          'coefficients in {0,1,2}, deg <= 2): squarefree returns the same for every pusize tried incl. 0, no panic',
          '[P] squarefree_zero_panics',
          '[P] squarefree_product: p prime, f mod p <> 0, pusize = p or p > deg f (and dev profile or at most 2^64 coefficients, so that no multiplicity wraps): '
          'the pairs returned by the square-free stage multiply back to f modulo p up to a unit constant. Proved in F_p[x] (MathComp {poly \'F_p}) with the loop '
          'invariants result * (t v^(k+1))^e ~ f and t | t\' v; the p-th-root step by Fermat + freshman\'s dream (q^p = q(X^p) over F_p)',
          '[P] factorize_mod_p_product: the product clause for all inputs and every draw stream: if factorize_mod_p returns (g_i, e_i) then '
          'f = lc(f mod p) * prod g_i^e_i modulo p (same side conditions); with factorize_normalised: every clause except irreducibility and distinctness',
          '[P] pusize_irrelevant: for every prime p > deg f, squarefree and factorize_mod_p have the same outcome (value, panic, fuel) for any two pusize values, 0 included '
          '(the p-th-root branch is unreachable: a non-constant polynomial with zero derivative has degree >= p)',
          '[P] factorize_mod_p_irreducible: for every prime p, f mod p <> 0, every draw stream, both profiles (pusize = p or p > deg f): if factorize_mod_p returns, '
          'every g_i is irreducible modulo p and the g_i are pairwise distinct. Proved in F_p[x]: the radical (product of the square-free parts) is square-free and is carried '
          'unchanged up to units through the later stages (pairwise coprime factors); F_p[x]/(g) is a field with p^deg g elements (MathComp irredp_FAdjoin), hence '
          'g | X^(p^deg g) - X and an irreducible divisor of X^(p^d) - X has degree <= d; a piece of degree in [d, 2d) whose irreducible factors all have degree d is irreducible',
          '[P] degree_separates: distinct-degree stage on a square-free reduced input: every returned (a, d) has d >= 1 and all irreducible factors of a of degree exactly d',
          '[P] degree_divides: distinct-degree stage on any reduced non-zero input: every a_d found by the loop divides X^(p^d) - X modulo p',
          '[P] squarefree_total / degree_total: the deterministic stages return (no panic, the supplied fuel suffices): squarefree for f mod p <> 0 with at most 2^64 coefficients '
          'and pusize = p or p > deg f (both profiles: no multiplicity exceeds deg f), degree on every reduced non-zero input',
          '[P] factorize_mod_p_no_panic: same hypotheses, every draw stream, both profiles: the outcome of factorize_mod_p is a value or the model\'s OutOfFuel (bounded retry loops of the '
          'equal-degree stage only) -- never a panic; in particular assert_eq!(factor.deg(), d) cannot fire (every piece is irreducible of degree exactly d)',
          '[P] profile_irrelevant / multiplicities_positive: same hypotheses: the release profile computes exactly what the dev profile computes (nothing wraps), '
          'so e_i >= 1 in both profiles',
          '[P] factorize_mod_p_constant: f mod p a non-zero constant gives the empty list without a draw',
          '[P] pusize_irrelevant_beyond_word: for a prime p >= 2^64 and at most 2^64 coefficients any two pusize values (0 included) give the same outcome',
          '[P] final_split_2_terminates (fifth wave): the fuel of the p = 2 equal-degree stage suffices: on a reduced input, square-free modulo 2, of degree >= 1, whose irreducible factors all have degree d, final_split _ 2 d returns -- '
          'the trace-map loop t = x, x^3, x^5, ... finds a proper divisor within the supplied length + 2 attempts (in fact within deg/2 + 1: some odd m < deg f has gcd(f, Tr(x^m)) proper, because the trace F_2[x]/(f) -> F_2^k is onto -- '
          'a polynomial of degree 2^(d-1) has at most 2^(d-1) roots in the field F_2[x]/(g) of 2^d elements, MathComp irredp_FAdjoin, plus the Chinese remainder theorem -- while the set of u with constant trace vector is closed under +, squaring and '
          'congruence mod f) and the recursion depth length + 1 suffices (both pieces of a split have smaller degree)',
          '[P] factorize_mod_2_terminates (fifth wave): for p = 2 (which draws no random number), every f with f mod 2 <> 0, at most 2^64 coefficients, pusize = 2 (or at most 2 coefficients), both profiles: factorize_mod_p RETURNS; '
          'with the partial-correctness theorems this is total correctness of the factorisation modulo 2 for all inputs',
          '[P] final_split_odd_depth_fuel_irrelevant / final_split_depth_fuel_irrelevant / final_split_out_of_fuel_not_depth (seventh wave): for p prime and a reduced non-zero input (every d, every draw stream, every accumulated result) '
          'final_split_odd has the same outcome (value, panic or OutOfFuel, and the stream left) for every recursion-depth fuel >= length poly (both pieces of a split are shorter than the input); so for odd p final_split equals '
          'final_split_odd with any depth fuel >= the supplied length + 1, and an OutOfFuel of final_split persists under every larger depth fuel: it comes from a retry loop (400 attempts) or a draw (rejection-sampling fuel), never from the depth']
NOT_PROVED = ['e_i >= 1 in the release profile for absurd pusize (pusize <> p with p <= deg f) or more than 2^64 coefficients: a wrapped e *= pusize can be 0',
              'all clauses when pusize <> p and p <= deg f (the code then reads wrong coefficients or divides by zero: outside the contract); '
              'the product clause in the release profile for coefficient vectors longer than 2^64',
              'termination for all draw streams (false: only with probability 1)']
RULE = ('factorize_mod_p on every coefficient vector up to a degree bound over F_2, F_3, F_5, F_7 (pusize = p); random and structured '
        'polynomials of degree <= 12 (thorough: 16) over p in {11, 13, 101, 65537, 2^61-1, nextprime(2^64)}: planted products of distinct '
        'irreducibles with multiplicities, p-th powers, g^p h^2, > 2 equal-degree irreducible factors, leading coefficient divisible by p, '
        'negative coefficients / shifted by multiples of p; pusize in {p, 0, 7} whenever p > deg f; f = g(x^k) with pusize = k, 2k for primes p > deg f (up to beyond 2^64); the stages and the primitives '
        'separately; non-trivial = f mod p non-constant. Random draws of the implementation are logged and replayed by the model.')
CLAIM = dict(
    technique='Coq proof about the Gallina model of src/poly_mod/{prim,factorize_mod_p}.rs + extracted-model-vs-implementation correspondence with replayed random draws + independent oracle',
    text='Proved for all inputs: the arithmetic layer (modpow, poly_mod, poly_divrem for prime p, poly_gcd divides), the normalisation clause of the factoriser (monic, reduced, degree >= 1, multiplicity >= 1), the product clause (f = lc(f mod p) * prod g_i^e_i modulo p for every prime p, f mod p <> 0, every draw stream, pusize = p or p > deg f; likewise for the square-free, distinct-degree and equal-degree stages separately), irreducibility modulo p and pairwise distinctness of the returned g_i (same hypotheses) -- i.e. every clause of the property as partial correctness --, the separation of degrees by the distinct-degree stage on square-free inputs, and the independence of pusize for every prime p > deg f. For p = 2 (no random draws) termination is proved for ALL inputs (factorize_mod_2_terminates: the trace-map loop of final_split_2 succeeds within the supplied attempts), so the factorisation modulo 2 is totally correct. Proved on bounded domains by vm_compute: full correctness (incl. termination without draws) of factorize_mod_p over F_2 up to degree 8. The model is tied to /repo by running the extracted model and impl_svc on the same inputs and the same random bytes.',
    note='The clauses are proved as partial correctness (what holds whenever factorize_mod_p returns) together with: no panic for any input and draw stream, and termination of the deterministic stages squarefree and degree, and of the whole routine for p = 2; for odd p termination of the Cantor-Zassenhaus retry loop holds with probability 1 only and is not a theorem (the recursion-depth fuel of that stage is proved never to be what runs out: final_split_out_of_fuel_not_depth) (the independent oracle checks every clause on every explored input, always_oracle).',
    ref='DESIGN.md section 4, C08')
TIMEOUT = 1200

def fits_usize(p): return 0 <= p < 2 ** 64

def o_factorize(f, p):
    """the property's clauses on the implementation's answer"""
    def orc(ia):
        if p < 2: return None                        # not a prime: outside the property
        v, why = rng_value(ia)
        fr = red(f, p)
        if not fr: return None                       # f mod p = 0 is outside the property
        if v is None: return 'factorize_mod_p(%s, %d) did not return: %s' % (f, p, why)
        if deg(fr) == 0:
            return None if v == [] else 'constant polynomial gave %s' % (v,)
        seen = []
        prod = [1]
        for g, e in v:
            if not (isinstance(e, int) and e >= 1): return 'multiplicity %r' % (e,)
            if len(g) < 2 or g[-1] != 1 or any(not (0 <= c < p) for c in g): return 'factor %s not monic/reduced/of degree >= 1' % (g,)
            if g in seen: return 'factor %s returned twice' % (g,)
            seen.append(g)
            if not irreducible(g, p): return 'factor %s is reducible mod %d' % (g, p)
            prod = pmul(prod, ppow(g, e, p), p)
        if prod != pmonic(fr, p): return 'product of the factors is %s, f/lc = %s' % (prod, pmonic(fr, p))
        return None
    return orc

def o_squarefree(f, p):
    def orc(ia):
        fr = red(f, p)
        if not fr: return None
        if ia.kind != 'ok': return 'squarefree did not return: %s' % ia.raw[:100]
        prod = [1]; parts = []
        for g, e in ia.val:
            g = red(g, p)
            if deg(g) < 1 or e < 1: return 'part %s^%s' % (g, e)
            if deg(pgcd(g, pderiv(g, p), p)) != 0: return 'part %s is not squarefree' % (g,)
            for h in parts:
                if deg(pgcd(g, h, p)) != 0: return 'parts %s and %s are not coprime' % (g, h)
            parts.append(g)
            prod = pmul(prod, ppow(g, e, p), p)
        if pmonic(prod, p) != pmonic(fr, p): return 'product %s is not associated to f = %s' % (prod, fr)
        return None
    return orc

def o_degree(f, p):
    """input squarefree: every part A_d is a product of irreducibles of degree exactly d"""
    def orc(ia):
        fr = red(f, p)
        if ia.kind != 'ok': return 'degree did not return: %s' % ia.raw[:100]
        prod = [1]; last = 0
        for g, d in ia.val:
            g = red(g, p)
            if d <= last: return 'degrees not ascending'
            last = d
            if deg(g) < 1 or deg(g) % d: return 'part %s for degree %d' % (g, d)
            x = [0, 1]; xp = pdivmod(x, g, p)[1]
            for j in range(1, d + 1):
                xp = ppowmod(xp, p, g, p)
                if j < d and deg(pgcd(psub(xp, x, p), g, p)) != 0: return 'part %s for degree %d has a factor of degree %d' % (g, d, j)
            if psub(xp, x, p) != []: return 'part %s does not divide x^(p^%d) - x' % (g, d)
            prod = pmul(prod, g, p)
        if pmonic(prod, p) != pmonic(fr, p): return 'product %s is not associated to the input %s' % (prod, fr)
        return None
    return orc

def o_final_split(f, p, d, k):
    def orc(ia):
        v, why = rng_value(ia)
        if v is None: return 'final_split did not return: %s' % why
        if len(v) != k: return 'expected %d factors, got %d' % (k, len(v))
        prod = [1]
        for g in v:
            g = red(g, p)
            if deg(g) != d or not irreducible(g, p): return 'piece %s is not irreducible of degree %d' % (g, d)
            prod = pmul(prod, g, p)
        if pmonic(prod, p) != pmonic(red(f, p), p): return 'product %s is not associated to the input' % (prod,)
        return None
    return orc

class _Wrap:
    """presents a bare factor list as the answer shape of pm_factorize ([ok value bytes]) to the oracle"""
    def __init__(self, v):
        self.kind = 'ok'; self.val = [Id('ok'), v, []]; self.raw = enc(v)

def fac_case(rng, f, p, pusize, tag, nontrivial=True, script=()):
    seed = rng.getrandbits(64)
    return Case('pm_factorize', line('pm_factorize', f, p, pusize, seed, list(script)),
                model=model_with_bytes('pm_factorize', f, p, pusize), compare=compare_rng,
                oracle=o_factorize(f, p), always_oracle=True, nontrivial=nontrivial and deg(red(f, p)) >= 1, tag=tag)

def pusizes(rng, f, p):
    """the machine-word copy of p: p itself when it fits; any value when p > deg f (the p-th-root branch is unreachable)"""
    out = [p] if fits_usize(p) else []
    if p > len(f):
        out += [0, 7]
    return out

def structured(rng, p, maxdeg):
    """(tag, f) with f in Z[x], built from planted factors"""
    kind = rng.choice(['random', 'random', 'planted', 'planted', 'equal-degree', 'pth-power', 'gp-h2', 'lc-div-p', 'sparse'])
    if kind == 'random':
        f = random_poly(rng, p, rng.randrange(1, maxdeg + 1))
    elif kind == 'sparse':
        d = rng.randrange(2, maxdeg + 1)
        f = [0] * (d + 1); f[d] = rng.randrange(1, p); f[0] = rng.randrange(p)
        if rng.random() < 0.5: f[rng.randrange(d)] = rng.randrange(p)
    elif kind == 'planted':
        f = [rng.randrange(1, p)]
        while True:
            g = random_poly(rng, p, rng.choice([1, 1, 1, 2, 2, 3]), monic=True)
            e = rng.choice([1, 1, 1, 2, 2, 3, 4])
            h = zmul(f, zpow(g, e))
            if deg(h) > maxdeg: break
            f = h
        if deg(f) < 1: f = random_poly(rng, p, 2)
    elif kind == 'equal-degree':
        d = rng.choice([1, 1, 2, 2, 3]) if maxdeg < 16 else rng.choice([1, 2, 2, 3, 4])
        k = rng.randrange(3, max(4, maxdeg // d + 1))
        k = min(k, maxdeg // d)
        if d == 1: k = min(k, p)
        fs = distinct_irreducibles(rng, p, [d] * k) or [[0, 1]]
        f = zscal(rng.randrange(1, p), zprod(fs))
    elif kind == 'pth-power':
        if p * 1 > maxdeg:
            # no p-th power fits: a high power of a linear polynomial instead
            g = random_poly(rng, p, 1, monic=True); f = zpow(g, rng.randrange(2, maxdeg + 1)); kind = 'power'
        else:
            g = random_poly(rng, p, rng.randrange(1, maxdeg // p + 1))
            f = zpow(g, p)
    elif kind == 'gp-h2':
        if 1 * p + 2 > maxdeg:
            g = random_poly(rng, p, 1, monic=True); h = random_poly(rng, p, 1, monic=True)
            f = zmul(zpow(g, 3), zpow(h, 2)); kind = 'g3-h2'
        else:
            dg = rng.randrange(1, (maxdeg - 2) // p + 1)
            g = random_poly(rng, p, dg)
            h = random_poly(rng, p, rng.randrange(1, (maxdeg - dg * p) // 2 + 1))
            f = zmul(zpow(g, p), zpow(h, 2))
    else:  # lc-div-p
        f = random_poly(rng, p, rng.randrange(1, maxdeg))
        f = f + [0] * rng.randrange(0, 2) + [p * rng.randrange(1, 4)]
    f = red(f, p) if kind != 'lc-div-p' else f
    if rng.random() < 0.5: f = disguise(rng, f, p)
    return kind, f

NEEDS_CLI = True

PROFILES = ('debug', 'release')

def cases(rng, tier):
    th = tier == 'thorough'
    out = []
    # ---- exhaustive small fields (pusize = p)
    bounds = {2: 8, 3: 5, 5: 4, 7: 4} if th else {2: 6, 3: 4, 5: 3, 7: 3}
    for p, n in bounds.items():
        for f in all_coeff_vectors(p, n + 1):
            if not any(f): continue
            out.append(fac_case(rng, f, p, p, 'all-F%d' % p))
    # ---- structured / random over the listed primes
    maxdeg = 16 if th else 12
    for p in [2, 3, 5, 7] + PRIMES_BIG:
        reps = (60 if th else 14) if p <= 7 else (160 if th else 34)
        if p.bit_length() > 60: reps = 40 if th else 16
        for _ in range(reps):
            # the extracted model computes on Coq's binary Z: 64-bit primes are slow, keep the quick tier small there
            md = min(maxdeg, 12) if p <= 7 else maxdeg if p.bit_length() <= 60 else 10 if th else 7
            kind, f = structured(rng, p, md)
            pus = pusizes(rng, f, p)
            if not pus: continue
            pu = pus[0] if (p <= 7 or rng.random() < 0.4) else rng.choice(pus)
            tag = '%s-p%s' % (kind, 'big' if p > 2 ** 32 else 'mid' if p > 7 else 'small')
            if pu != p: tag += '-pusize%d' % pu
            out.append(fac_case(rng, f, p, pu, tag))
    # primes next to the machine-word boundaries 2^31, 2^32, 2^63, 2^64 (the word-size copy is p itself below 2^64)
    for pw in [2147483647, 4294967291, 4294967311, 9223372036854775783, 18446744073709551557]:
        for _ in range(2 if not th else 10):
            kind, f = structured(rng, pw, 5 if not th else 7)
            out.append(fac_case(rng, f, pw, pw, kind + '-p-word-boundary'))
    # p beyond a machine word: every admissible pusize on the same input
    pbig = PRIMES_BIG[-1]
    for _ in range(4 if not th else 30):
        kind, f = structured(rng, pbig, 6 if not th else 8)
        for pu in [0, 7, 1, 2 ** 64 - 1]:
            out.append(fac_case(rng, f, pbig, pu, 'pusize-any-p>2^64'))
    # the machine-word copy is a small number k >= 2 and every exponent of f is a multiple of k (f = g(x^k)), p prime > deg f (also
    # beyond a machine word): the p-th-root branch must not be taken for k, the result is the same as for pusize = 0 / p
    for pz in [PRIMES_BIG[-1], PRIMES_BIG[-1], 101, 65537, 2 ** 61 - 1]:
        for _ in range(3 if not th else 12):
            k = rng.choice([2, 2, 3, 4, 6])
            g = [rng.randrange(0, 7) for _ in range(rng.choice([2, 3, 3]))] + [1]
            if g[0] == 0: g[0] = 2
            f = [0] * (k * (len(g) - 1) + 1)
            for i_, c_ in enumerate(g): f[k * i_] = c_
            for pu in sorted({k, 2 * k, 0} | ({pz} if fits_usize(pz) else set())):
                out.append(fac_case(rng, f, pz, pu, 'pusize-divides-every-exponent'))
    for pu in (2, 4, 0):
        out.append(fac_case(rng, [2, 0, 3, 0, 1], PRIMES_BIG[-1], pu, 'pusize-divides-every-exponent'))
    # textbook / unit-test inputs and degenerate shapes
    for f, p in [([2] + [0] * 25 + [1], 3), ([0, 0, 1, 0, 1], 3), ([1, 0, 0, 1], 2), ([1, 0, 0, 0, 0, 1], 5), ([1, 2, 1], 5),
                 ([-1] + [0] * 14 + [1], 2), ([-1] + [0] * 12 + [1], 13), ([0, 1], 2), ([0, 0, 0, 0, 3], 5), ([1] * 11, 11), ([1] * 7, 2)]:
        out.append(fac_case(rng, f, p, p, 'textbook'))
    for p in [2, 3, 7, 101, PRIMES_BIG[-1]]:
        for c in [1, p - 1, p + 1, -1]:
            out.append(fac_case(rng, [c], p, p if fits_usize(p) else 0, 'constant', nontrivial=False))
        # f mod p = 0: outside the property (explicit panic!() in squarefree), model must agree
        out.append(fac_case(rng, [], p, p if fits_usize(p) else 0, 'zero-outside', nontrivial=False))
        out.append(fac_case(rng, [p, -p, 2 * p], p, p if fits_usize(p) else 0, 'zero-outside', nontrivial=False))
    # modulus 0 / 1: outside the property
    for f, p in [([1, 2, 1], 0), ([], 0), ([1, 2, 1], 1)]:
        out.append(fac_case(rng, f, p, p, 'modulus-outside', nontrivial=False))
    # ---- stages
    for p in [2, 3, 5, 7, 11, 101, 2 ** 61 - 1, PRIMES_BIG[-1]]:
        for _ in range((30 if th else 8) if p.bit_length() <= 60 else (10 if th else 3)):
            kind, f = structured(rng, p, 10 if p.bit_length() <= 60 else 8 if th else 6)
            pu = rng.choice(pusizes(rng, f, p))
            if red(f, p):
                out.append(Case('pm_squarefree', line('pm_squarefree', f, p, pu), oracle=o_squarefree(f, p), tag='squarefree'))
            # distinct-degree stage on a squarefree input
            degs = [rng.choice([1, 1, 2, 2, 3, 4]) for _ in range(rng.randrange(1, 5))]
            fs = distinct_irreducibles(rng, p, degs)
            if fs:
                g = zscal(rng.randrange(1, p), zprod(fs)); g = red(g, p)
                out.append(Case('pm_degree', line('pm_degree', g, p), oracle=o_degree(g, p), tag='degree'))
            # equal-degree stage
            d = rng.choice([1, 2, 3]); k = rng.randrange(1, 5)
            if d == 1: k = min(k, p)
            fs = distinct_irreducibles(rng, p, [d] * k)
            if fs:
                g = red(zscal(rng.randrange(1, p), zprod(fs)), p)
                seed = rng.getrandbits(64)
                out.append(Case('pm_final_split', line('pm_final_split', g, p, d, seed, []),
                                model=model_with_bytes('pm_final_split', g, p, d), compare=compare_rng,
                                oracle=o_final_split(g, p, d, k), tag='final_split-%s' % ('2' if p == 2 else 'odd')))
    # final_split outside its precondition: d = 0 (division by zero), deg < d (unreachable!())
    for f, p, d in [([1, 1, 1], 3, 0), ([1, 1], 3, 2), ([1, 1, 1], 2, 0), ([1, 1], 2, 2), ([2, 0, 1], -3, 1)]:
        out.append(Case('pm_final_split', line('pm_final_split', f, p, d, 1, []), model=model_with_bytes('pm_final_split', f, p, d),
                        compare=compare_rng, nontrivial=False, tag='final_split-outside'))
    # ---- primitives of prim.rs
    for _ in range(400 if th else 120):
        p = rng.choice([2, 3, 5, 7, 13, 101, 65537, 2 ** 61 - 1, PRIMES_BIG[-1]])
        a = disguise(rng, random_poly(rng, p, rng.randrange(0, 9)), p, 2) if rng.random() < 0.9 else []
        b = disguise(rng, random_poly(rng, p, rng.randrange(0, 6)), p, 1) if rng.random() < 0.9 else []
        if rng.random() < 0.3:
            h = random_poly(rng, p, rng.randrange(1, 3)); a = zmul(a, h); b = zmul(b, h)
        br = red(b, p)                              # poly_divrem/poly_gcd expect reduced operands (lc invertible)
        ar = red(a, p)
        out.append(Case('pm_poly_mod', line('pm_poly_mod', a, p), tag='poly_mod'))
        out.append(Case('pm_poly_divrem', line('pm_poly_divrem', a, br, p), tag='poly_divrem'))
        out.append(Case('pm_poly_gcd', line('pm_poly_gcd', ar, br, p), tag='poly_gcd'))
        out.append(Case('pm_poly_mod_sub', line('pm_poly_mod_sub', a, b, p), tag='poly_mod_sub'))
        out.append(Case('pm_differential', line('pm_differential', a, p), tag='differential'))
        e = rng.choice([0, 1, 2, 3, p, p - 1, (p - 1) // 2, rng.getrandbits(70)])
        if deg(br) >= 1:
            out.append(Case('pm_poly_modpow', line('pm_poly_modpow', ar, e, br, p), tag='poly_modpow'))
        x = rng.randrange(-p, 2 * p)
        out.append(Case('pm_modpow', line('pm_modpow', x, e, p), tag='modpow'))
        out.append(Case('pm_modinv', line('pm_modinv', x, p), tag='modinv'))
    # primitives with degenerate moduli and non-invertible leading coefficients (single pass: always terminate)
    for a, b, p in [([1, 2, 3, 4], [1, 2], 0), ([], [1, 2], 0), ([1, 2, 3, 4], [1, 2], 1), ([1, 2, 3, 4], [1, 2], 4), ([1, 2, 3, 4], [1, 5], 5),
                    ([1, 2, 3, 4], [1, 2], -7), ([5, 4, 3], [], 7), ([], [], 7), ([1, 2], [1, 2, 3], 7)]:
        out.append(Case('pm_poly_divrem', line('pm_poly_divrem', a, b, p), nontrivial=False, tag='poly_divrem-edge'))
        out.append(Case('pm_poly_mod', line('pm_poly_mod', a, p), nontrivial=False, tag='poly_mod-edge'))
    for x, e, m in [(3, 5, 0), (3, 0, 0), (3, -4, 7), (-3, 5, 7), (3, 5, -7), (0, 0, 5), (2, 10, 1), (5, 1, 5)]:
        out.append(Case('pm_modpow', line('pm_modpow', x, e, m), nontrivial=False, tag='modpow-edge'))
    # --- CLI glue: `rust-number-theory <config>` with to_find = factorization-mod-p. The binary is built with the hooks
    # feature, so its generator starts from the fixed default state: the model replays that byte stream (lib.hook_stream).
    # pusize is what main.rs derives: p when it fits a machine word, 0 otherwise.
    import lib as _lib
    stream = _lib.hook_stream(_lib.HOOK_DEFAULT_SEED, 6000)
    def cmp_cli(ia, ma):
        if ia.kind != 'ok' or ma.kind != 'ok' or ma.val[0] != 'ok':
            return 'CLI %r vs model %r' % (ia.raw[:200], ma.raw[:200])
        if ia.val == Id('cli_failed'): return 'the CLI exited with an error, model %r' % ma.raw[:200]
        if enc(ia.val) != enc(ma.val[1]): return 'CLI printed %r, model (same draws) %r' % (ia.raw[:200], enc(ma.val[1])[:200])
        if ma.val[3] is not False: return 'model ran out of the replayed default stream'
        return None
    cli = [([1, 0, 1], 5), ([1, 0, 1, 0], 5), ([2, 0, 0, 0, 0, 0, 1], 7), ([0, 0, 1, 0, 1], 3), ([1, 0, 0, 1], 2), ([-1, 0, 1], 18446744073709551629),
           ([6, 11, 6, 1], 13), ([1, 1, 1, 1, 1], 11)]
    for _ in range(8 if not th else 40):
        q = rng.choice([2, 3, 5, 7, 11, 13, 101, 65537])
        cli.append(([rng.randrange(-20, 21) for _ in range(rng.randrange(2, 7))] + [0] * rng.choice([0, 0, 1]), q))
    # several primes in ONE configuration (the loop over primes in main.rs must factor the same f for each of them);
    # decided by the oracle on the printed output, prime by prime
    def o_multi(f, qs):
        def orc(ia):
            if ia.kind != 'ok' or ia.val == Id('cli_failed'): return 'CLI factorization-mod-p of %s for primes %s: %s' % (f, qs, ia.raw[:120])
            if [e[0] for e in ia.val] != list(qs): return 'CLI printed moduli %s for primes %s' % ([e[0] for e in ia.val], qs)
            for (q, fl) in ia.val:
                if deg(red(f, q)) < 0: continue
                r = o_factorize(f, q)(_Wrap(fl))
                if r is not None: return 'CLI, prime %s of %s: %s' % (q, qs, r)
            return None
        return orc
    multi = [([7, -3, 0, 1], [5, 11]), ([9, 10, 0, 0, 1], [13, 7, 3]), ([-1, 0, 0, 0, 1], [2, 3, 5, 7]), ([6, 11, 6, 1], [101, 2, 65537])]
    for _ in range(6 if not th else 40):
        f = [rng.randrange(-40, 41) for _ in range(rng.randrange(3, 7))]
        if f[-1] == 0: f[-1] = 1
        multi.append((f, rng.sample([2, 3, 5, 7, 11, 13, 101, 65537], rng.choice([2, 3]))))
    for f, qs in multi:
        if any(deg(red(f, q)) < 0 for q in qs): continue
        out.append(Case('cli_factor_mod_p_multi', line('cli_factor_mod_p_multi', f, qs), model=_lib.IMPL_ONLY, oracle=o_multi(f, qs),
                        always_oracle=True, tag='cli-multi'))
    for f, qs in multi[:4]:
        if any(deg(red(f, q)) < 0 for q in qs): continue
        out.append(Case('cli_seq', line('cli_seq', Id('pp'), f, qs, [Id('fmp'), Id('fmp')]), model=_lib.IMPL_ONLY, oracle=_lib.o_cli_seq(2),
                        always_oracle=True, tag='cli-several-commands'))
    for f, q in cli:
        if deg(red(f, q)) < 0: continue
        pus = q if fits_usize(q) else 0
        out.append(Case('cli_factor_mod_p', line('cli_factor_mod_p', f, q), model=line('pm_factorize', f, q, pus, stream, Id('checked')), compare=cmp_cli,
                        oracle=(lambda f=f, q=q: (lambda ia: None if ia.kind == 'ok' and ia.val != Id('cli_failed') and o_factorize(f, q)(_Wrap(ia.val)) is None
                                                   else 'CLI factorization-mod-p of %s mod %s: %s' % (f, q, ia.raw[:120])))(),
                        always_oracle=True, tag='cli'))
    # a slice of the cases again on the release build of the implementation (wrapping arithmetic, debug assertions off)
    out += lib.release_slice(out, rng, 0.08, mode_ops=('pm_factorize', 'pm_squarefree'), plain_ops=())
    return out
