"""C19 elementary helpers: modular inverse, perfect power, Kronecker symbol, sieve, prime iterator."""
import math
from lib import line, Id
from lib import Case

RULE = ('inv: all |a|,m in a box + random 256-bit pairs; perfect_power: all n below a bound + random b^k (+-1); '
        'kronecker: all (a,b) in a box + near the i64 extremes; primes: every bound below a limit; '
        'non-trivial = gcd>1 or negative a (inv), true perfect powers and neighbours, both arguments non-zero and not both even (kronecker)')
PROVED = ['inv_spec (all a, m >= 1)', 'zmod_spec', 'extgcd fuel sufficiency', 'perfect_power_spec (all n >= 0, floor-root model of nth_root)',
          'kronecker: range {-1,0,1}, b = 0 and both-even clauses; bounded equality with the reference symbol']
NOT_PROVED = ['kronecker = Kronecker symbol for unbounded arguments (needs quadratic reciprocity; not available in MathComp 1.15/stdlib)']

CLAIM = dict(
    technique='Coq proof about the Gallina model (inv/zmod/perfect_power/sieve/kronecker) + extracted-model-vs-implementation correspondence',
    text='Theorems in coq/Props/C19.v hold for all integers (no bound); the model is tied to /repo by running the extracted model and impl_svc on the same inputs (exhaustive boxes + random big integers).',
    note='Kronecker = mathematical symbol is proved only on a bounded box (quadratic reciprocity unavailable); BigInt::nth_root is modelled by its floor-root specification; trusted base listed in the evidence file.',
    ref='DESIGN.md section 4, C19')

def egcd(a, b):
    while b: a, b = b, a % b
    return abs(a)

def o_inv(a, m):
    def orc(ia):
        if ia.kind != 'ok': return 'inv(%d,%d) did not return: %s' % (a, m, ia.raw[:100])
        g = egcd(a, m)
        v = ia.val
        if g == 1:
            if v[0] != 'ok' or not (0 <= v[1] < m) or (a * v[1] - 1) % m != 0 and m != 1:
                return 'inv(%d,%d) = %s but gcd = 1' % (a, m, ia.raw)
        elif v != [Id('err'), g]:
            return 'inv(%d,%d) = %s, expected Err(%d)' % (a, m, ia.raw, g)
        return None
    return orc

def iroot(n, k):
    lo, hi = 0, 1 << (n.bit_length() // k + 1)
    while lo < hi:
        mid = (lo + hi + 1) // 2
        if mid ** k <= n: lo = mid
        else: hi = mid - 1
    return lo

def o_pp(n):
    def orc(ia):
        if ia.kind != 'ok': return 'perfect_power(%d): %s' % (n, ia.raw[:100])
        b, k = ia.val
        if k < 1 or b ** k != n: return 'perfect_power(%d) = (%d,%d): b^k != n' % (n, b, k)
        if n >= 2:
            for kk in range(k + 1, n.bit_length() + 1):
                if iroot(n, kk) ** kk == n: return 'perfect_power(%d) = (%d,%d) but exponent %d works' % (n, b, k, kk)
        return None
    return orc

def kron_ref(a, b):
    """Kronecker symbol from the definition (factorisation of b, Euler criterion)."""
    if b == 0: return 1 if abs(a) == 1 else 0
    res = 1
    if b < 0:
        b = -b
        if a < 0: res = -res
    while b % 2 == 0:
        b //= 2
        if a % 2 == 0: return 0
        res *= 1 if a % 8 in (1, 7) else -1
    p = 3
    while b > 1:
        if p * p > b: p = b
        while b % p == 0:
            b //= p
            t = pow(a % p, (p - 1) // 2, p)
            if t == 0: return 0
            res *= 1 if t == 1 else -1
        p += 2
    return res

def o_kron(a, b):
    def orc(ia):
        if ia.kind != 'ok': return 'kronecker(%d,%d): %s' % (a, b, ia.raw[:100])
        if ia.val != kron_ref(a, b): return 'kronecker(%d,%d) = %s, symbol is %d' % (a, b, ia.val, kron_ref(a, b))
        return None
    return orc

def o_primes(bound):
    def orc(ia):
        exp = [p for p in range(2, bound + 1) if all(p % d for d in range(2, int(p ** 0.5) + 1))]
        if ia.kind != 'ok' or ia.val != exp: return 'primes(%d) wrong: %s' % (bound, ia.raw[:100])
        return None
    return orc

def cases(rng, tier):
    th = tier == 'thorough'
    out = []
    # modular inverse
    A, M = (200, 120) if not th else (2000, 600)
    for m in range(1, M + 1):
        step = 1 if (th or m <= 30) else 7
        for a in range(-A + (m % step), A + 1, step):
            out.append(Case('inv', line('inv', a, m), oracle=o_inv(a, m), nontrivial=(egcd(a, m) > 1 or a < 0), tag='inv-box'))
    for _ in range(300 if not th else 3000):
        bits = rng.choice([8, 32, 64, 128, 256])
        m = rng.getrandbits(bits) + 1
        a = rng.getrandbits(bits + rng.choice([0, 0, 8])) - rng.choice([0, 1 << (bits - 1)])
        if rng.random() < 0.3:
            g = rng.getrandbits(bits // 4) + 2; a *= g; m *= g
        out.append(Case('inv', line('inv', a, m), oracle=o_inv(a, m), tag='inv-random'))
    for a, m in [(0, 1), (1, 1), (5, 1), (-1, 1), (0, 5), (7, 7), (-7, 7), (2 ** 64, 2 ** 64 + 1), (-(2 ** 64), 3)]:
        out.append(Case('inv', line('inv', a, m), oracle=o_inv(a, m), tag='inv-edge'))
    # modulus 0 / negative modulus are outside the property; the model must still agree with the code
    for a, m in [(1, 0), (3, 0), (-1, 0), (3, -7), (-3, -7), (2, -4)]:
        out.append(Case('inv', line('inv', a, m), nontrivial=False, tag='inv-outside'))
    for _ in range(100):
        x = rng.randrange(-10 ** 6, 10 ** 6); mo = rng.randrange(1, 1000)
        out.append(Case('zmod', line('zmod', x, mo), tag='zmod'))
    # perfect powers
    N = 3000 if not th else 1 << 17
    for n in range(0, N):
        out.append(Case('perfect_power', line('perfect_power', n), oracle=o_pp(n), nontrivial=n >= 4, tag='pp-all'))
    for _ in range(150 if not th else 1500):
        k = rng.choice([2, 3, 4, 5, 6, 7, 9, 11, 12, 16, 30, 64])
        b = rng.getrandbits(rng.choice([2, 8, 16, 40])) + 2
        n = b ** k + rng.choice([0, 0, 0, 1, -1])
        if n.bit_length() > 2200: continue
        out.append(Case('perfect_power', line('perfect_power', n), oracle=o_pp(n), tag='pp-random'))
        kk = rng.choice([1, 2, 3, k, k + 1])
        out.append(Case('is_perfect_power', line('is_perfect_power', n, kk), tag='ipp'))
    out.append(Case('perfect_power', line('perfect_power', -5), nontrivial=False, tag='pp-negative'))
    # Kronecker
    R = 45 if not th else 400
    for a in range(-R, R + 1):
        for b in range(-R, R + 1):
            out.append(Case('kronecker', line('kronecker', a, b), oracle=o_kron(a, b),
                            nontrivial=(a != 0 and b != 0 and (a % 2 or b % 2)), tag='kron-box'))
    ext = [2 ** 62, 2 ** 62 - 1, 2 ** 63 - 1, -(2 ** 63) + 1, -(2 ** 62), 3 * 2 ** 60, -(2 ** 63)]
    for _ in range(300 if not th else 4000):
        a = rng.choice(ext) + rng.randrange(-50, 51) if rng.random() < 0.4 else rng.randrange(-2 ** 63, 2 ** 63)
        b = rng.choice(ext) + rng.randrange(-50, 51) if rng.random() < 0.4 else rng.randrange(-2 ** 63, 2 ** 63)
        a = max(-2 ** 63, min(2 ** 63 - 1, a)); b = max(-2 ** 63, min(2 ** 63 - 1, b))
        big = abs(a) > 2 ** 40 or abs(b) > 2 ** 40
        out.append(Case('kronecker', line('kronecker', a, b), oracle=None if big and abs(b) > 2 ** 40 else o_kron(a, b), tag='kron-large'))
    # sieve and iterator
    B = 400 if not th else 3000
    for bound in list(range(0, B)) + ([5000, 7919, 10007] if th else [1009]):
        out.append(Case('primes', line('primes', bound), oracle=o_primes(bound), nontrivial=bound >= 2, tag='primes'))
    for k in [0, 1, 2, 10, 100, 300] + ([1000, 2000] if th else []):
        out.append(Case('primes_iter', line('primes_iter', k), tag='primes_iter'))
    return out
