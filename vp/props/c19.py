"""C19 elementary helpers: modular inverse, perfect power, Kronecker symbol, sieve, prime iterator."""
import math
from lib import line, Id
from lib import Case

RULE = ('inv: all |a|,m in a box + random 256-bit pairs; perfect_power: all n below a bound + random b^k (+-1); '
        'kronecker: all (a,b) in a box + near the i64 extremes; primes: every bound below a limit; '
        'non-trivial = gcd>1 or negative a (inv), true perfect powers and neighbours, both arguments non-zero and not both even (kronecker); '
        'trial-division factorize (C01 helper): every n below a bound incl. n < 1 + random products')
PROVED = [
    '[P] extgcd_fuel_suffices: the recursive Euclid never runs out of the fuel the model gives it (all a, b)',
    '[P] inv_spec: all a, all m >= 1: gcd = 1 -> Ok x, 0 <= x < m, a*x mod m = 1 mod m; else Err (gcd a m)',
    '[P] zmod_spec: zmod x mo = x mod mo for mo > 0',
    '[P] iroot_spec: the model of BigInt::nth_root is the floor root (k >= 1, n >= 0)',
    '[P] perfect_power_spec: n >= 0 -> (b, k), b^k = n, k >= 1; for n >= 2 no k\' > k has an exact integer k\'-th root '
    '(n = 0, 1 are k-th powers for every k and the code answers k = 1); perfect_power_negative: n < 0 panics',
    '[P] primes_spec: the sieve returns exactly the strictly increasing list of the primes <= bound (Znumtheory.prime)',
    '[P] td_is_prime_spec: the trial-division is_prime of primes.rs decides Znumtheory.prime (fuel suffices)',
    '[P, partial correctness] primes_take_spec: a result of Primes::new().take(k) has length k, is strictly increasing and '
    'is exactly the set of primes up to its last element (= the first k primes)',
    '[P] bertrand: Bertrand\'s postulate, for every integer n >= 1 there is a prime p (Znumtheory.prime) with n < p <= 2n. '
    'Erdos\' proof, fully in Coq, no axiom: 4^n <= 2n*C(2n,n); Legendre\'s formula gives p^(v_p C(2n,n)) <= 2n, v_p <= 1 for p > sqrt(2n), '
    'v_p = 0 for 2n/3 < p <= n; the product of the primes <= m is <= 4^m (via C(2k+1,k) <= 4^k); for n >= 1024 no prime in (n,2n] would give '
    '4^n <= (2n)^(sqrt(2n)+2) * 4^(2n/3), refuted in integer arithmetic (cube, compare powers of 2, 9(k+1)^2 <= 2^(k-1) for k >= 12); n < 1259 by the '
    'prime chain 2,3,5,7,13,23,43,83,163,317,631,1259 (Refine/BertrandBin.v, BertrandVal.v, BertrandMain.v over MathComp nat; BertrandZ.v bridges to Z)',
    '[P] primes_next_total: for every now >= 1 one next() of the iterator model returns within the now + 2 candidates it is given '
    '(never OutOfFuel): Done (p, p + 1) with p the least prime >= now, and p <= 2*now',
    '[P] primes_take_total: for EVERY k, Primes::new().take(k) of the model returns Done l with l of length k, strictly increasing, all prime, '
    'containing every prime below any of its elements (= the first k primes): total correctness, fuel sufficiency included',
    '[P] primes_iter_complete: the iterator enumerates all primes, every prime q is among its first q outputs; primes_take_snoc: take k is a '
    'prefix of take (k+1), so the k-th output is the k-th prime, in increasing order',
    '[P] kronecker_range: result in {-1,0,1} whenever the routine returns (all integers, both profiles)',
    '[P] kronecker_b0 ((a/0) = [|a| = 1]) and kronecker_both_even (0)',
    '[P] kronecker_total: for all a, b in the i64 range, dev and release profile, the routine returns: no overflow panic '
    'is reachable (-b and a.abs() are only applied to odd values, never i64::MIN) and the loop fuel of the model suffices',
    '[B] kronecker_bounded: for |a|, |b| <= 2^7 the routine equals the reference symbol kron_ref (factorisation of b over the '
    'proved sieve, Euler criterion for odd primes, (a/2) table, (a/-1) = sign a), vm_compute over 257 x 257 x 2 profiles; '
    'kron_ref_factorisation_bounded: the factorisation used by the reference is complete on the box',
    '[P] kronecker_spec: for ALL a, b in the i64 range, dev and release profile, kronecker m a b = Done (K a b), where '
    'K (Refine/RecipKronecker.v) is the Kronecker symbol from the definition: K a 0 = [|a| = 1]; else (a/sign b) * product over the '
    'prime factors p of |b| with multiplicity (trial division, smallest first) of the local symbol (a/p) '
    '(p = 2: table by a mod 8; odd p: Euler criterion (a mod p)^((p-1)/2) mod p; (a/-1) = -1 iff a < 0). Proof: loop invariant '
    'k * (a_cur/b_cur) = (a/b) with b_cur odd positive, using the Jacobi-symbol laws below and the overflow/fuel facts of kronecker_total',
    '[P] K_factorisation + K_b0 + factorisation_exists: K a (u * p1...pk) = (a/u) * (a/p1)...(a/pk) for ANY sign u and ANY list of '
    'primes (any order), and every b <> 0 has such a factorisation: these equations determine K, so the order of the recursion in its '
    'definition is immaterial; kron_ref_K: the reference symbol of kronecker_bounded equals K on its box',
    '[P] legendre_qr (Euler criterion, both halves: the Euler-power symbol is 1 exactly on the non-zero squares mod p; converse by '
    'counting the roots of X^((p-1)/2) - 1 over F_p, Refine/RecipEuler.v), legendre_mul, legendre_eq0 (Fermat), legendre_m1, legendre_2 (Gauss\'s lemma), legendre_reciprocity '
    '(law of quadratic reciprocity for distinct odd primes: Gauss\'s lemma + Eisenstein\'s lattice-point count, Refine/RecipLegendre.v, '
    'MathComp zmodp/bigop; transferred to Z.pow/Z.modulo in Refine/RecipBridge.v); jacobi_reciprocity: (m/n) = eps(m,n) (n/m) for all '
    'odd positive m, n, coprime or not (Refine/RecipJacobi.v, RecipKronecker.v)',
]
NOT_PROVED = [
    'BigInt::nth_root itself (num\'s Newton iteration) is not modelled: the model uses a bit-by-bit floor root, tied to the code by correspondence only',
]

CLAIM = dict(
    technique='Coq proofs about the Gallina model (inv/zmod/perfect_power/sieve/prime iterator/kronecker) + extracted-model-vs-implementation correspondence',
    text='The theorems of coq/Props/C19.v: modular inverse, zmod, floor root, perfect power, sieve, trial-division primality, '
         'Kronecker range / b = 0 / both-even / totality on i64 hold for all integers (no bound); the prime iterator is proved totally '
         'correct for every k (take(k) returns exactly the first k primes in increasing order, every prime is eventually produced; the fuel of one '
         'next(), now + 2 candidates, suffices by Bertrand\'s postulate, which is proved in Coq by Erdos\' argument); kronecker_spec: the model of kronecker_symbol_i64 returns the Kronecker symbol K a b (defined from the definition: sign, '
         '(a/2) table, Euler criterion over the prime factorisation of |b|) for ALL a, b in the i64 range in both build profiles; the '
         'number theory it needs (Euler\'s criterion, Gauss\'s lemma, supplementary laws, quadratic reciprocity, Jacobi-symbol laws) is proved in Coq, '
         'nothing assumed. The bounded enumeration theorem (|a|,|b| <= 128 against kron_ref) is kept and kron_ref = K on that box. The model is '
         'tied to /repo by running the extracted model and impl_svc on the same inputs (exhaustive boxes + random big integers + i64 '
         'extremes), with independent oracles.',
    note='Not proved: BigInt::nth_root is modelled by a floor-root routine, not num\'s Newton iteration. The iterator theorems are about the '
         'model over unbounded Z; the code\'s usize state (and d*d in is_prime) would only overflow for primes near 2^64, unreachable by iteration. '
         'Trusted base listed in the evidence file.',
    ref='DESIGN.md section 4, C19')

PROFILES = ('debug', 'release')

def egcd(a, b):
    while b: a, b = b, a % b
    return abs(a)

def o_inv(a, m):
    def orc(ia):
        if ia.kind != 'ok': return 'inv(%d,%d) did not return: %s' % (a, m, ia.raw[:100])
        g = egcd(a, m)
        v = ia.val
        if g == 1:
            if v[0] != 'ok' or not (0 <= v[1] < m) or (a * v[1] - 1) % m != 0 and m != 1:
                return 'inv(%d,%d) = %s but gcd = 1' % (a, m, ia.raw)
        elif v != [Id('err'), g]:
            return 'inv(%d,%d) = %s, expected Err(%d)' % (a, m, ia.raw, g)
        return None
    return orc

def iroot(n, k):
    lo, hi = 0, 1 << (n.bit_length() // k + 1)
    while lo < hi:
        mid = (lo + hi + 1) // 2
        if mid ** k <= n: lo = mid
        else: hi = mid - 1
    return lo

def o_pp(n):
    def orc(ia):
        if ia.kind != 'ok': return 'perfect_power(%d): %s' % (n, ia.raw[:100])
        b, k = ia.val
        if k < 1 or b ** k != n: return 'perfect_power(%d) = (%d,%d): b^k != n' % (n, b, k)
        if n >= 2:
            for kk in range(k + 1, n.bit_length() + 1):
                if iroot(n, kk) ** kk == n: return 'perfect_power(%d) = (%d,%d) but exponent %d works' % (n, b, k, kk)
        return None
    return orc

def kron_ref(a, b):
    """Kronecker symbol from the definition (factorisation of b, Euler criterion)."""
    if b == 0: return 1 if abs(a) == 1 else 0
    res = 1
    if b < 0:
        b = -b
        if a < 0: res = -res
    while b % 2 == 0:
        b //= 2
        if a % 2 == 0: return 0
        res *= 1 if a % 8 in (1, 7) else -1
    p = 3
    while b > 1:
        if p * p > b: p = b
        while b % p == 0:
            b //= p
            t = pow(a % p, (p - 1) // 2, p)
            if t == 0: return 0
            res *= 1 if t == 1 else -1
        p += 2
    return res

def o_kron(a, b):
    def orc(ia):
        if ia.kind != 'ok': return 'kronecker(%d,%d): %s' % (a, b, ia.raw[:100])
        if ia.val != kron_ref(a, b): return 'kronecker(%d,%d) = %s, symbol is %d' % (a, b, ia.val, kron_ref(a, b))
        return None
    return orc

def o_primes(bound):
    def orc(ia):
        exp = [p for p in range(2, bound + 1) if all(p % d for d in range(2, int(p ** 0.5) + 1))]
        if ia.kind != 'ok' or ia.val != exp: return 'primes(%d) wrong: %s' % (bound, ia.raw[:100])
        return None
    return orc

def o_primes_iter(k):
    """Primes::new().take(k) is the list of the first k primes (independent sieve)"""
    def orc(ia):
        N = max(30, 12 * k + 30)
        while True:
            sv = bytearray([1]) * (N + 1); sv[0:2] = b'\0\0'
            for i in range(2, int(N ** 0.5) + 1):
                if sv[i]: sv[i * i::i] = bytearray(len(sv[i * i::i]))
            ps = [i for i in range(N + 1) if sv[i]]
            if len(ps) >= k: break
            N *= 2
        if ia.kind != 'ok' or ia.val != ps[:k]:
            got = ia.val if ia.kind == 'ok' else None
            bad = next((i for i in range(min(k, len(got))) if got[i] != ps[i]), None) if isinstance(got, list) else None
            return 'Primes::new().take(%d) is not the first %d primes%s' % (k, k, '' if bad is None else ': element %d is %s, expected %d' % (bad, got[bad], ps[bad]))
        return None
    return orc

def is_prime_td(p):
    if p < 2: return False
    d = 2
    while d * d <= p:
        if p % d == 0: return False
        d += 1
    return True

def o_tf(n):
    """trial division factorize (src/factorize.rs, used by C01): strictly increasing prime bases, positive exponents, product n"""
    def orc(ia):
        if n < 1: return None if ia.kind == 'panic' else 'factorize(%d) should hit its assertion: %s' % (n, ia.raw[:100])
        if ia.kind != 'ok': return 'factorize(%d): %s' % (n, ia.raw[:100])
        prod, last = 1, 1
        for pe in ia.val:
            p, e = pe
            if p <= last or e < 1 or not is_prime_td(p): return 'factorize(%d) = %s: bad entry (%d,%d)' % (n, ia.raw[:200], p, e)
            prod *= p ** e; last = p
        if prod != n: return 'factorize(%d) = %s: product is %d' % (n, ia.raw[:200], prod)
        return None
    return orc

def cases(rng, tier):
    th = tier == 'thorough'
    out = []
    # modular inverse
    # (thorough: |a| <= 2000, m <= 2000 as in the property text, thinned by a stride above m = 64 to keep the case list
    #  -- and the memory of the runner, which holds all cases and answers -- below ~1M entries)
    A, M = (200, 120) if not th else (2000, 2000)
    for m in range(1, M + 1):
        step = (1 if m <= 64 else 29) if th else (1 if m <= 30 else 7)
        for a in range(-A + (m % step), A + 1, step):
            out.append(Case('inv', line('inv', a, m), oracle=o_inv(a, m), nontrivial=(egcd(a, m) > 1 or a < 0), tag='inv-box'))
    for _ in range(300 if not th else 3000):
        bits = rng.choice([8, 32, 64, 128, 256])
        m = rng.getrandbits(bits) + 1
        a = rng.getrandbits(bits + rng.choice([0, 0, 8])) - rng.choice([0, 1 << (bits - 1)])
        if rng.random() < 0.3:
            g = rng.getrandbits(bits // 4) + 2; a *= g; m *= g
        out.append(Case('inv', line('inv', a, m), oracle=o_inv(a, m), tag='inv-random'))
    for a, m in [(0, 1), (1, 1), (5, 1), (-1, 1), (0, 5), (7, 7), (-7, 7), (2 ** 64, 2 ** 64 + 1), (-(2 ** 64), 3)]:
        out.append(Case('inv', line('inv', a, m), oracle=o_inv(a, m), tag='inv-edge'))
    # moduli and arguments at the machine-word boundaries, in both build profiles (a fast path in i64/u64/i128 arithmetic wraps in
    # release and panics in dev exactly here): m next to 2^31, 2^32, 2^63, 2^64, 2^127, 2^128; a small, next to m, next to +-2^63
    for e in (31, 32, 63, 64, 127, 128):
        for dm in (-25, -1, 0, 1, 13):
            m = 2 ** e + dm
            for a in (2, 3, 4, 7, m - 1, m - 2, (m + 1) // 2, -3, -(m - 2), 2 ** 63 - 1, -(2 ** 63), 2 ** 62 + 1, rng.randrange(1, m), rng.randrange(1, m)):
                for prof in ('debug', 'release'):
                    out.append(Case('inv', line('inv', a, m), oracle=o_inv(a, m), tag='inv-word-boundary', profile=prof))
    # modulus 0 / negative modulus are outside the property; the model must still agree with the code
    for a, m in [(1, 0), (3, 0), (-1, 0), (3, -7), (-3, -7), (2, -4)]:
        out.append(Case('inv', line('inv', a, m), nontrivial=False, tag='inv-outside'))
    for _ in range(100):
        x = rng.randrange(-10 ** 6, 10 ** 6); mo = rng.randrange(1, 1000)
        out.append(Case('zmod', line('zmod', x, mo), tag='zmod'))
    # perfect powers
    N = 3000 if not th else 1 << 17
    for n in range(0, N):
        out.append(Case('perfect_power', line('perfect_power', n), oracle=o_pp(n), nontrivial=n >= 4, tag='pp-all'))
    for _ in range(150 if not th else 1500):
        k = rng.choice([2, 3, 4, 5, 6, 7, 9, 11, 12, 16, 30, 64])
        b = rng.getrandbits(rng.choice([2, 8, 16, 40])) + 2
        n = b ** k + rng.choice([0, 0, 0, 1, -1])
        if n.bit_length() > (2200 if th else 800): continue    # the extracted model's Z is unary-binary: 1200-bit roots cost ~13 s each
        out.append(Case('perfect_power', line('perfect_power', n), oracle=o_pp(n), tag='pp-random'))
        kk = rng.choice([1, 2, 3, k, k + 1])
        out.append(Case('is_perfect_power', line('is_perfect_power', n, kk), tag='ipp'))
    # the helper itself on the degenerate arguments n = 0, 1 (every k) and small n: exact k-th root or None (independent oracle)
    def o_ipp(n, k):
        def orc(ia):
            lo, hi = 0, max(1, n)
            r = None
            for b_ in range(0, min(n, 1 << 12) + 1):
                if b_ ** k == n: r = b_; break
                if b_ ** k > n: break
            exp = [Id('some'), r] if r is not None else Id('none')
            if ia.kind != 'ok' or ia.val != exp: return 'is_perfect_power(%d, %d) = %s, expected %s' % (n, k, ia.raw[:60], exp)
            return None
        return orc
    for n in (0, 1, 2, 4, 8, 9, 16, 27, 64, 81, 100, 1024):
        for k in (1, 2, 3, 4, 5, 6, 10, 64):
            out.append(Case('is_perfect_power', line('is_perfect_power', n, k), oracle=o_ipp(n, k), always_oracle=True, tag='ipp-small'))
    for k in (0, 1, 2, 5, 30):
        out.append(Case('primes_iter_default', line('primes_iter_default', k), oracle=o_primes_iter(k), always_oracle=True, nontrivial=k >= 1, tag='primes_iter-default'))
    # small bases with EVERY exponent in a range (a cap on the exponent search that is slightly too low shows only for
    # particular (base, exponent) pairs, e.g. 3^17)
    for b in (2, 3, 5, 6, 7, 10, 12):
        for k in range(1, 70 if not th else 260):
            n = b ** k
            out.append(Case('perfect_power', line('perfect_power', n), oracle=o_pp(n), tag='pp-small-base'))
            if k % 5 == 0: out.append(Case('perfect_power', line('perfect_power', n + 1), oracle=o_pp(n + 1), tag='pp-small-base'))
    out.append(Case('perfect_power', line('perfect_power', -5), nontrivial=False, tag='pp-negative'))
    # Kronecker
    R = 45 if not th else 300
    for a in range(-R, R + 1):
        for b in range(-R, R + 1):
            out.append(Case('kronecker', line('kronecker', a, b), oracle=o_kron(a, b),
                            nontrivial=(a != 0 and b != 0 and (a % 2 or b % 2)), tag='kron-box'))
    ext = [2 ** 62, 2 ** 62 - 1, 2 ** 63 - 1, -(2 ** 63) + 1, -(2 ** 62), 3 * 2 ** 60, -(2 ** 63)]
    for _ in range(300 if not th else 4000):
        a = rng.choice(ext) + rng.randrange(-50, 51) if rng.random() < 0.4 else rng.randrange(-2 ** 63, 2 ** 63)
        b = rng.choice(ext) + rng.randrange(-50, 51) if rng.random() < 0.4 else rng.randrange(-2 ** 63, 2 ** 63)
        a = max(-2 ** 63, min(2 ** 63 - 1, a)); b = max(-2 ** 63, min(2 ** 63 - 1, b))
        big = abs(a) > 2 ** 40 or abs(b) > 2 ** 40
        out.append(Case('kronecker', line('kronecker', a, b), oracle=None if big and abs(b) > 2 ** 40 else o_kron(a, b), tag='kron-large'))
    # sieve and iterator
    B = 400 if not th else 3000
    for bound in list(range(0, B)) + ([5000, 7919, 10007] if th else [1009]):
        out.append(Case('primes', line('primes', bound), oracle=o_primes(bound), nontrivial=bound >= 2, tag='primes'))
    for k in [0, 1, 2, 10, 100, 300, 700] + ([1000, 2000, 5000] if th else []):
        out.append(Case('primes_iter', line('primes_iter', k), oracle=o_primes_iter(k), nontrivial=k >= 1, tag='primes_iter'))
    # trial-division factorize (lemma trial_factorize_spec in Refine/TrialDivProofs.v, consumed by C01)
    for n in range(-2, 1200 if not th else 20000):
        out.append(Case('trial_factorize', line('trial_factorize', n), oracle=o_tf(n), nontrivial=n >= 4, tag='trial-factorize'))
    for _ in range(60 if not th else 600):
        a = rng.getrandbits(rng.choice([4, 8, 12])) + 2; b = rng.getrandbits(rng.choice([4, 8, 12])) + 2
        n = a ** rng.choice([1, 1, 2, 3]) * b
        if n < 1 << 27: out.append(Case('trial_factorize', line('trial_factorize', n), oracle=o_tf(n), tag='trial-factorize'))
    return out
