"""C02 Hermite normal form is the canonical basis of the row lattice (number-theory-linear/src/hnf.rs)."""
import lib
from lib import line, Id, Case
from props import hnf_common as H

RULE = ('ALL matrices of shape <= 2x3 / 3x2 with entries in -2..2 (+ a slice of 3x3; thorough: all 3x3 over -1..1, half of 3x3 over -2..2, all 2x2/2x3/3x2 over -3..3, slices of 2x4/4x2) in batches; '
        'structured random matrices n,m <= 8: random, planted rank deficiency, zero rows/columns, gcd-structured single column, sparse, '
        'triangular with negative pivots, duplicated/negated rows, entries up to 2^64 (a few 2^200); canonicity pairs (unimodular re-basing T*A, '
        'row permutation, appended dependent/zero rows) and negative controls (index-2 sublattices); union / determinant / dim / deg; '
        'separate edge stream: empty, n x 0, ragged rows, width mismatch in union. non-trivial = at least 2 rows and a non-zero entry')
PROVED = [
    'hnf_terminates / hnf_new_terminates [P]: on every rectangular n x m input (n, m >= 1) the model returns Done: no panic is reachable and the logarithmic inner-loop fuel 2*bits+5 suffices (measure: product of two consecutive pivots halves)',
    'hnf_U [P]: H in normal form, U n x n with a two-sided integer inverse, U*A = [0_k ; H], k + #rows H = n',
    'hnf_lattice [P]: rowspan_Z H = rowspan_Z A',
    'hnf_shape [P]: is_hnf H = true (last non-zero entry of each row positive, pivot columns strictly increasing, entries below a pivot in [0,pivot))',
    'hnf_rows_independent [P]: the rows of H are Z-linearly independent (with hnf_lattice: a basis; #rows H = rank of the lattice)',
    'hnf_new_spec [P]', 'hnf_unique [P]: is_hnf H -> is_hnf H\' -> same row span -> H = H\'',
    'hnf_canonical [P]: same row span -> HNF::new A = HNF::new B (as outcomes)',
    'hnf_row_permutation, hnf_rebasing (T unimodular), hnf_appended_dependent_rows [P]',
    'union_spec [P]: union (new A) (new B) = new (A ++ B) for non-empty normal forms; union_empty [P]',
    'determinant_pivots [P]: determinant = product of the positive diagonal pivots of a square (lower triangular) normal form, 0 if non-empty and not square, 1 if empty',
    'rowspan_as_matrix_product [P] (bridge, coq/Refine/DetBridge.v): In_rowspanZ m v A <-> v = c *m zmx A for an integer row vector c; the list product mmul is MathComp *m, idmat is 1%:M, '
    'stacking is col_mx, unimodular (two-sided integer inverse) implies \\det = +-1',
    'hnf_rank [P]: #rows H = \\rank of A over Q (MathComp mxrank of the matrix mapped into Qc), and k = n - rank',
    'determinant_index [P]: for square n x n A: det A <> 0 -> H has n rows and determinant(HNF::new A) = |\\det A| (Leibniz determinant; = index of the row lattice in Z^n); '
    'det A = 0 -> H has fewer than n rows and determinant returns 0 (1 for the empty form)',
    'determinant_index_lattice [P]: for any n x m generating set A whose lattice has a square basis matrix B with det B <> 0: determinant(HNF::new A) = |\\det B| (lattice index; via hnf_canonical)',
]
NOT_PROVED = [
    'ragged input (rows of different lengths) and n x 0 matrices: outside the property; covered by the correspondence only',
]

CLAIM = dict(
    technique='Coq proof about the Gallina model of hnf_with_u/HNF::new/union/determinant (coq/Model/Hnf.v, proofs in coq/Refine/Hnf*.v, MatZ.v) + extracted-model-vs-implementation correspondence',
    text='For all integer matrices with n, m >= 1 (no size bound): the model terminates without panic; H is in normal form, generates exactly the row lattice of A, '
         'has independent rows and #rows H = rank of A over Q; the normal form of a lattice is unique, hence HNF::new is canonical (row permutations, unimodular re-basing, '
         'appended dependent/zero rows), union = normal form of the stacked generators, determinant = product of the positive diagonal pivots, and for square A this is |det A| '
         '(MathComp Leibniz determinant of the matrix view zmx; 0 resp. non-square form exactly when det A = 0). The model mirrors hnf.rs line by line '
         '(checked index accesses, the k bookkeeping, the (|a|, index) minimum, floor_div) and is tied to /repo by running extracted model and impl_svc on the same inputs '
         '(exhaustive small matrices, structured random up to 8x8 and 2^200, ragged/degenerate edge stream incl. panic classes).',
    note='determinant = index: |det| of any square basis matrix of the lattice (determinant_index_lattice), in particular of A itself when A is square. '
         'U is only determined up to the kernel; the theorems do not fix it. '
         'HNF::new of an all-zero matrix is the empty form with deg 0 and determinant 1 (empty product); the property text is silent there.',
    ref='DESIGN.md section 4, C02')

def nontriv(a):
    return len(a) >= 2 and any(x for r in a for x in r)

def batches(mats, size):
    buf = []
    for a in mats:
        buf.append(a)
        if len(buf) == size:
            yield buf; buf = []
    if buf: yield buf

def batch_cases(out, mats, tag, size=400, oracle=True):
    for b in batches(mats, size):
        out.append(Case('hnf_with_u_batch', line('hnf_with_u_batch', b), oracle=H.o_hu_batch(b) if oracle else None,
                        always_oracle=oracle, tag=tag))

PROFILES = ('debug', 'release')

def cases(rng, tier):
    th = tier == 'thorough'
    out = []
    # ---- exhaustive small domains (batched: rectangular input never panics)
    for (n, m) in [(1, 1), (1, 2), (2, 1), (1, 3), (3, 1), (2, 2), (2, 3), (3, 2)]:
        batch_cases(out, H.all_mats(n, m, -2, 2), 'all-%dx%d' % (n, m))
    if th:
        # memory of the runner (all answers are held parsed) bounds the exhaustive domains: 3x3 over -1..1 completely,
        # every 2nd matrix of the lexicographic enumeration of 3x3 over -2..2 (random phase), 2x2/2x3/3x2 over -3..3 completely
        batch_cases(out, H.all_mats(3, 3, -1, 1), 'all-3x3-pm1', size=1000)
        ph = rng.randrange(2)
        batch_cases(out, (a for t, a in enumerate(H.all_mats(3, 3, -2, 2)) if t % 2 == ph), 'half-3x3', size=1000)
        for (n, m) in [(2, 2), (2, 3), (3, 2)]:
            batch_cases(out, (a for a in H.all_mats(n, m, -3, 3) if any(abs(x) == 3 for r in a for x in r)), 'all3-%dx%d' % (n, m), size=1000)
        sl = ([[rng.randrange(-3, 4) for _ in range(m)] for _ in range(n)] for (n, m) in [(2, 4), (4, 2)] for _ in range(100000))
        batch_cases(out, sl, 'slice-2x4-4x2', size=1000)
    else:
        sl = [[[rng.randrange(-2, 3) for _ in range(3)] for _ in range(3)] for _ in range(20000)]
        batch_cases(out, sl, 'slice-3x3')
        sl = [[[rng.randrange(-3, 4) for _ in range(m)] for _ in range(n)] for (n, m) in [(2, 4), (4, 2)] for _ in range(1500)]
        batch_cases(out, sl, 'slice-2x4-4x2')
    # ---- structured random matrices, one case each
    cnt = 1500 if not th else 7000
    for tag, a in H.structured_mats(rng, cnt, 5, [2, 4, 8, 16, 32, 64]):
        out.append(Case('hnf_with_u', line('hnf_with_u', a), oracle=H.o_hu(a), always_oracle=True, nontrivial=nontriv(a), tag=tag))
    for tag, a in H.structured_mats(rng, cnt // 2, 8, [2, 4, 8, 16]):
        out.append(Case('hnf_with_u', line('hnf_with_u', a), oracle=H.o_hu(a), always_oracle=True, nontrivial=nontriv(a), tag=tag + '-8'))
    for tag, a in H.structured_mats(rng, 12 if not th else 120, 8, [64]):
        out.append(Case('hnf_with_u', line('hnf_with_u', a), oracle=H.o_hu(a), always_oracle=True, nontrivial=nontriv(a), tag=tag + '-8x64'))
    for tag, a in H.structured_mats(rng, 10 if not th else 100, 4, [200]):
        out.append(Case('hnf_with_u', line('hnf_with_u', a), oracle=H.o_hu(a), always_oracle=True, nontrivial=nontriv(a), tag='huge-' + tag))
    # ---- HNF::new on its own (lattice equality through an independently certified reference)
    for tag, a in H.structured_mats(rng, 300 if not th else 3000, 6, [2, 4, 16, 64]):
        out.append(Case('hnf_new', line('hnf_new', a), oracle=H.o_new(a), always_oracle=False, nontrivial=nontriv(a), tag='new-' + tag))
    # ---- canonicity pairs
    for tag, a in H.structured_mats(rng, 500 if not th else 5000, 5, [2, 4, 8, 32, 64]):
        n, m = len(a), len(a[0])
        kind = rng.randrange(5)
        same = True
        if kind == 0:
            t = H.rand_unimodular(rng, n); b = H.matmul(t, a); ptag = 'rebase'
        elif kind == 1:
            b = [list(r) for r in a]; rng.shuffle(b); ptag = 'permute'
        elif kind == 2:
            b = [list(r) for r in a]
            for _ in range(rng.randrange(1, 4)):
                c = [H.rand_entry(rng, 3) for _ in range(n)]
                b.insert(rng.randrange(len(b) + 1), H.vecmat(c, a, m) if rng.random() < 0.8 else [0] * m)
            ptag = 'append-dependent'
        elif kind == 3:
            # different generating set of the same lattice: rebase, then append dependent rows, then shuffle
            t = H.rand_unimodular(rng, n, cbits=6); b = H.matmul(t, a)
            b.append(H.vecmat([H.rand_entry(rng, 4) for _ in range(n)], a, m)); rng.shuffle(b); ptag = 'regenerate'
        else:
            # negative control: an index-p sublattice (one generator multiplied) when the rows are independent
            b = [list(r) for r in a]; j = rng.randrange(n); p = rng.choice([2, 3, -2, 5])
            b[j] = [p * x for x in b[j]]
            same = H.rank_q(a, m) < n or not any(b[j])
            if not same: ptag = 'control-sublattice'
            else:
                # dependent rows: cannot tell cheaply; decide with the certified reference
                same = H.certified_hnf(a, m)[0] == H.certified_hnf(b, m)[0]; ptag = 'control-undecided'
        out.append(Case('hnf_new_pair', line('hnf_new_pair', a, b), oracle=H.o_pair(a, b, same), always_oracle=(not same),
                        nontrivial=nontriv(a), tag='pair-' + ptag))
    # ---- entries at the machine-word boundaries (+-2^31, 2^32, 2^63, 2^64, 2^127 and their neighbours) mixed with small ones
    edge = [s_ * (2 ** e_ + d_) for e_ in (31, 32, 63, 64, 127) for d_ in (-1, 0, 1) for s_ in (1, -1)]
    for _ in range(60 if not th else 600):
        n = rng.randrange(1, 5); m = rng.randrange(1, 5)
        a = [[rng.choice(edge) if rng.random() < 0.5 else rng.randrange(-3, 4) for _ in range(m)] for _ in range(n)]
        out.append(Case('hnf_with_u', line('hnf_with_u', a), oracle=H.o_hu(a), always_oracle=True, nontrivial=nontriv(a), tag='word-boundary-entries'))
        out.append(Case('hnf_determinant', line('hnf_determinant', a), oracle=H.o_det(a), always_oracle=True, nontrivial=nontriv(a), tag='word-boundary-entries'))
    # ---- long generator lists (65..130 rows, 2..4 columns, tiny entries): the essential generators sit in the tail, the head spans
    # a proper sublattice (a blockwise reduction that drops or reorders a partial block shows only here)
    for _ in range(12 if not th else 120):
        m = rng.randrange(2, 5); n = rng.choice([65, 66, 70, 95, 97, 130])
        head = [[2 * rng.randrange(-2, 3) for _ in range(m)] for _ in range(n - m - rng.randrange(0, 3))]
        tail = [[int(i == j) for j in range(m)] for i in range(m)]
        rng.shuffle(tail)
        a = head + tail + [[2 * rng.randrange(-1, 2) for _ in range(m)] for _ in range(n - len(head) - m)]
        out.append(Case('hnf_new', line('hnf_new', a), oracle=H.o_new(a), always_oracle=True, nontrivial=True, tag='new-long-list'))
        b = [list(r) for r in reversed(a)]
        out.append(Case('hnf_new_pair', line('hnf_new_pair', a, b), oracle=H.o_pair(a, b, True), always_oracle=True, nontrivial=True, tag='pair-long-list'))
    for k in (33, 40, 64, 65):
        a = [[2 * int(i == j) for j in range(k)] for i in range(k)] if k <= 40 else [[2 * int(j == i % 3) for j in range(3)] for i in range(k)]
        b = [[int(i == j) for j in range(len(a[0]))] for i in range(len(a[0]))]
        out.append(Case('hnf_union', line('hnf_union', a, b), oracle=H.o_union(a, b), always_oracle=True, tag='union-long'))
    # ---- lattices of DIFFERENT rank (negative controls for PartialEq): a sub-family of the generators, the zero module, and a
    # lattice against itself plus one independent vector; decided by the certified reference
    for tag, a in H.structured_mats(rng, 120 if not th else 1200, 5, [2, 4, 16]):
        n, m = len(a), len(a[0])
        kind = rng.randrange(3)
        if kind == 0: b = [[0] * m for _ in range(rng.randrange(1, 3))]; ptag = 'zero-module'
        elif kind == 1: b = [list(r) for r in a[:max(1, n - 1)]] if n > 1 else [[0] * m]; ptag = 'fewer-generators'
        else: b = [list(r) for r in a] + [[H.rand_entry(rng, 3) for _ in range(m)]]; ptag = 'one-more-generator'
        same = H.certified_hnf(a, m)[0] == H.certified_hnf(b, m)[0]
        out.append(Case('hnf_new_pair', line('hnf_new_pair', a, b), oracle=H.o_pair(a, b, same), always_oracle=(not same),
                        nontrivial=nontriv(a), tag='pair-rank-' + ptag))
        out.append(Case('hnf_new_pair', line('hnf_new_pair', b, a), oracle=H.o_pair(b, a, same), always_oracle=(not same),
                        nontrivial=nontriv(a), tag='pair-rank-' + ptag))
    for a, b in [([[2, 0]], [[3, 1], [1, 1]]), ([[0, 0], [0, 0]], [[1, 0], [0, 1]]), ([[1, 0, 0]], [[1, 0, 0], [0, 1, 0]]), ([[0, 0, 3]], [[0, 2, 0], [0, 0, 3]])]:
        for x, y in ((a, b), (b, a)):
            out.append(Case('hnf_new_pair', line('hnf_new_pair', x, y), oracle=H.o_pair(x, y, False), always_oracle=True, tag='pair-rank-fixed'))
    # ---- union, determinant, dim, deg
    for tag, a in H.structured_mats(rng, 300 if not th else 3000, 5, [2, 4, 16, 64]):
        m = len(a[0])
        b = rng.choice(H.structured_mats(rng, 1, 5, [2, 8, 64]))[1]
        if len(b[0]) != m:
            b = H.rand_mat(rng, rng.randrange(1, 5), m, rng.choice([2, 8, 64])) if rng.random() < 0.9 else b
        if rng.random() < 0.1: b = [[0] * m for _ in range(rng.randrange(1, 3))]
        if rng.random() < 0.05: a = [[0] * m]
        if len(b[0]) == m:
            out.append(Case('hnf_union', line('hnf_union', a, b), oracle=H.o_union(a, b), always_oracle=False, tag='union'))
        else:
            empty = not any(x for r in a for x in r) or not any(x for r in b for x in r)
            out.append(Case('hnf_union', line('hnf_union', a, b), nontrivial=False, tag='union-width-mismatch' + ('-empty' if empty else '')))
    # determinants (lattice indices) beyond one and two machine words: diagonal and triangular pivots whose product passes 2^64 /
    # 2^128 at different positions, plain and after a unimodular change of generators
    for _ in range(40 if not th else 400):
        n = rng.randrange(2, 5)
        piv = [rng.choice([1, 2, 3, 6 * 2 ** 33, 2 ** 40, 2 ** 70 + 1, 2 ** 64 - 1, 2 ** 32, 10 ** 19, rng.getrandbits(70) | 1]) for _ in range(n)]
        a = [[0] * n for _ in range(n)]
        for i in range(n):
            a[i][i] = piv[i] * rng.choice([1, -1])
            for j in range(i): a[i][j] = rng.randrange(-5, 6) if rng.random() < 0.5 else 0
        if rng.random() < 0.5: a = H.matmul(H.rand_unimodular(rng, n), a)
        if rng.random() < 0.3: a = a + [[0] * n]
        out.append(Case('hnf_determinant', line('hnf_determinant', a), oracle=H.o_det(a), always_oracle=True, tag='det-beyond-word'))
    for a in ([[2 ** 40, 0], [0, 2 ** 40]], [[0, -(2 ** 70 + 1)], [3, 0]], [[3, 0], [0, 2 ** 70]], [[2 ** 70, 0], [0, 3]]):
        out.append(Case('hnf_determinant', line('hnf_determinant', a), oracle=H.o_det(a), always_oracle=True, tag='det-beyond-word'))
    # inputs that are ALMOST in normal form: square, lower triangular, positive diagonal, reduced next to the diagonal, but with
    # unreduced entries two or more places left of it (a fast path "already normal" with an incomplete test returns them unchanged)
    for _ in range(60 if not th else 600):
        n = rng.randrange(3, 7)
        a = [[0] * n for _ in range(n)]
        for i in range(n):
            a[i][i] = rng.choice([1, 1, 2, 3, 5, 12])
        for i in range(n):
            for j in range(i):
                r_ = rng.randrange(0, a[j][j])
                a[i][j] = r_ if j == i - 1 or rng.random() < 0.4 else r_ + a[j][j] * rng.choice([1, -1, 2, -3])
        out.append(Case('hnf_new', line('hnf_new', a), oracle=H.o_new(a), always_oracle=True, nontrivial=True, tag='new-almost-normal'))
        b = [list(r) for r in a]; rng.shuffle(b)
        out.append(Case('hnf_new_pair', line('hnf_new_pair', a, b), oracle=H.o_pair(a, b, True), always_oracle=True, nontrivial=True, tag='pair-almost-normal'))
    for tag, a in H.structured_mats(rng, 300 if not th else 3000, 5, [2, 4, 16, 64]):
        n, m = len(a), len(a[0])
        if rng.random() < 0.5:
            a = H.rand_mat(rng, m + rng.choice([0, 0, 1, 2]), m, rng.choice([2, 8, 64]))
        out.append(Case('hnf_determinant', line('hnf_determinant', a), oracle=H.o_det(a), always_oracle=True,
                        nontrivial=any(x for r in a for x in r), tag='det-square' if len(a) == len(a[0]) else 'det-rect'))
        out.append(Case('hnf_dim_deg', line('hnf_dim_deg', a), oracle=H.o_dim_deg(a), always_oracle=True, tag='dim-deg'))
    # ---- edge / malformed stream: model and code must agree (panic class included); the property does not speak here
    for a in H.DEGENERATE + H.RAGGED:
        for op in ('hnf_with_u', 'hnf_new', 'hnf_determinant', 'hnf_dim_deg'):
            out.append(Case(op, line(op, a), nontrivial=False, tag='edge-' + ('ragged' if a in H.RAGGED else 'degenerate')))
        for b in ([[1, 2]], [[0, 0]], [[5]], [], [[]], [[1, 2], [3]], [[1], [2, 3]], [[1, 2, 3]]):
            out.append(Case('hnf_union', line('hnf_union', a, b), nontrivial=False, tag='edge-union'))
            out.append(Case('hnf_union', line('hnf_union', b, a), nontrivial=False, tag='edge-union'))
            out.append(Case('hnf_new_pair', line('hnf_new_pair', a, b), nontrivial=False, tag='edge-pair'))
    for _ in range(100 if not th else 1000):
        # random ragged: perturb one row length of a random matrix
        a = H.rand_mat(rng, rng.randrange(1, 5), rng.randrange(1, 5), 3)
        j = rng.randrange(len(a))
        if rng.random() < 0.5 and a[j]: a[j] = a[j][:rng.randrange(len(a[j]))]
        else: a[j] = a[j] + [H.rand_entry(rng, 3) for _ in range(rng.randrange(1, 3))]
        out.append(Case('hnf_with_u', line('hnf_with_u', a), nontrivial=False, tag='edge-ragged-random'))
        out.append(Case('hnf_determinant', line('hnf_determinant', a), nontrivial=False, tag='edge-ragged-random'))
        out.append(Case('hnf_union', line('hnf_union', a, [r[:1] for r in a if r] or [[1]]), nontrivial=False, tag='edge-ragged-random'))
    # a slice of the cases again on the release build of the implementation (wrapping arithmetic, debug assertions off)
    out += lib.release_slice(out, rng, 0.1, mode_ops=())
    return out
