"""C13 primality test (src/prime.rs): Miller-Rabin with 20 random bases drawn from the hooked generator."""
import math
import lib
from lib import line, Id, Case

RULE = ('every n below a bound (and a few n <= 1) under seeded draws; Carmichael numbers (Korselt search + Chernick triples), '
        'strong pseudoprimes to small bases (search for base 2 + published psi_k), provable random primes (Pocklington chains) and '
        'semiprimes up to 512 bits: verdict compared with the model AND with a deterministic reference; scripted adversarial '
        'draws (all bases 1, all n-1, known strong liars, liars then a witness, rejected draws): model == implementation only; '
        'the consumer ecm::factorize on perfect powers of composites, prime powers, Carmichael numbers and their squares (every base prime, product n); '
        'non-trivial = odd n > 2 (the Miller-Rabin rounds run)')
TIMEOUT = 3000      # per service batch; a 512-bit prime costs the extracted model ~2 min (20 rounds of unary-binary modpow)
PROVED = [
    '[P] is_prime_small: false for n <= 1, true for 2, false for even n > 2, for every draw stream (stream untouched)',
    '[P] modpow_spec: the model of BigInt::modpow is b^e mod m (m > 0, e >= 0); mr_decomp_spec: n - 1 = d 2^c, d odd',
    '[P] is_prime_complete: for every prime n (Znumtheory.prime) and every draw stream the model returns Done (true, _) or OutOfFuel; '
    'is_prime_no_panic: never a panic. (Fermat from MathComp binomial.fermat_little bridged to Z; x^2 = 1 mod p -> x = +-1 by prime_mult.) '
    'is_prime_short_stream / is_prime_complete_short_stream: on a stream of fewer than 4096 bytes the model never runs out of fuel, so a prime is accepted',
    '[P] witness_rejects: if one of the <= 20 bases drawn is not a strong liar (textbook definition strong_liar) the verdict is false; '
    'gcd_witness: a base with gcd(a, n) > 1 is never a strong liar',
    '[P] liars_accept + is_prime_verdict: the verdict on odd n > 2 is true iff the 20 bases drawn are all strong liars; '
    'a false verdict stops at the first non-liar; drawn_range: every base drawn is in [1, n)',
    '[B] liar_bound_small: for every odd composite n < 2^10 the strong liars in [1, n) number <= (n-1)/4 (vm_compute enumeration)',
    '[P] rabin_monier: for EVERY odd composite n > 9 the strong liars in [1, n) (textbook strong_liar, n - 1 = d 2^c from the model\'s decomposition) '
    'number <= (n-1)/4; rabin_monier_phi: they are <= 1/4 of the phi(n) residues in [1, n) prime to n; liar_bound: <= (n-1)/4 for every odd composite n > 2 '
    '(n = 9 by the enumeration). Proof in MathComp (coq/Refine/RabinMonierGroup.v, RabinMonierCases.v, RabinMonierNat.v) on {unit \'Z_n}: the liars lie in '
    'the subgroup {u : u^m = +-1}, m = d 2^J with J the largest index at which some unit reaches -1; Chinese remainders give index >= 2 for each further '
    'coprime factor of n (three coprime factors: index >= 4); a square factor p^2 | n gives index >= p^(k-1) (the units killed by 2m | n-1 form a p\'-group); '
    'n = p q: the cyclic group (Z/q)^* yields a unit with u^(n-1) <> 1; transfer to Z and to mr_round in RabinMonierZ.v',
    '[P] liar_fraction: for every odd composite n > 2, of the (n-1)^20 sequences of 20 bases in [1, n) at most ((n-1)/4)^20 are accepting '
    '(4^20 * #acc <= (n-1)^20, acc and all given as duplicate-free lists with their membership characterised), and is_prime n r = Done (true, r\') '
    'holds exactly when the 20 bases drawn from the stream r form a sequence of acc: the counting form of "error at most 4^-20"',
]
NOT_PROVED = [
    'uniformity/independence of the bases is a property of the real generator (rand::thread_rng), not of the model: the theorems quantify over all draw streams; '
    'liar_fraction is a counting statement over sequences of bases (at most a 4^-20 fraction accept); turning it into a probability needs the 20 bases to be '
    'independent and uniform on [1, n), which is assumed of the generator, not proved',
    'OutOfFuel: the model gives up after 4096 successive rejected candidates inside one gen_bigint_range call (the real loop is unbounded); '
    'is_prime_complete lists it as the only alternative outcome',
]

CLAIM = dict(
    technique='Coq proof about the Gallina model of is_prime (all n, all draw streams) + extracted-model-vs-implementation correspondence with replayed draws',
    text='The theorems of coq/Props/C13.v hold for all integers n and all draw streams: early returns; one-sided error (a prime is never rejected); '
         'the verdict is false as soon as a drawn base fails the strong-probable-prime condition and true exactly when 20 strong liars are drawn. '
         'The per-round error bound 1/4 (Rabin-Monier: at most (n-1)/4, indeed phi(n)/4, strong liars in [1, n)) is proved for every odd composite n, and with it the '
         'counting form of the 4^-20 bound: at most ((n-1)/4)^20 of the (n-1)^20 sequences of 20 bases make the model accept a composite (liar_fraction). '
         'The model is tied to /repo by replaying the bytes the '
         'hooked generator handed out (verdict equal, model consumes exactly the logged bytes); under seeded draws the verdict is also compared '
         'with a deterministic reference (deterministic Miller-Rabin below 3.3e24, Pocklington-certified primes and products by construction above).',
    note='"composite -> false except with probability 4^-20" is proved as a count of accepting base sequences; the passage to a probability assumes the generator draws '
         'the 20 bases independently and uniformly from [1, n) (not a property of the model). '
         'Under scripted adversarial draws (bases 1, n-1, known liars) composites are accepted by code and model alike; only model == implementation is checked there. '
         'BigInt::modpow and num-bigint gen_bigint_range are modelled (binary exponentiation; rejection sampling over little-endian u32 digits) and tied by correspondence.',
    ref='DESIGN.md section 4, C13')

# ------------------------------------------------------------------ deterministic reference

SMALL_PRIMES = [2, 3, 5, 7, 11, 13, 17, 19, 23, 29, 31, 37, 41]
DET_LIMIT = 3317044064679887385961981      # psi_13: below it the first 13 prime bases are a deterministic test (Sorenson-Webster)

def sprp(n, a):
    """n odd > 2: is n a strong probable prime to base a (a mod n not 0)?"""
    d = n - 1; c = 0
    while d % 2 == 0: d //= 2; c += 1
    x = pow(a, d, n)
    if x == 1 or x == n - 1: return True
    for _ in range(c - 1):
        x = x * x % n
        if x == n - 1: return True
    return False

def ref_prime(n):
    """deterministic primality for n < DET_LIMIT"""
    assert n < DET_LIMIT
    if n < 2: return False
    for p in SMALL_PRIMES:
        if n % p == 0: return n == p
    if n < 41 * 41: return True
    return all(sprp(n, a) for a in SMALL_PRIMES)

def provable_prime(bits, rng):
    """A prime of exactly `bits` bits with a Pocklington certificate chain (n = 2kq+1, q prime > sqrt(n), a^(n-1) = 1,
    gcd(a^((n-1)/q) - 1, n) = 1), started from a prime below DET_LIMIT."""
    if bits <= 60:
        while True:
            n = rng.getrandbits(bits) | (1 << (bits - 1)) | 1
            if bits == 2: n = rng.choice([2, 3])
            if ref_prime(n): return n
    q = provable_prime(max(30, bits // 2 + 2), rng)
    while True:
        lo = ((1 << (bits - 1)) + 2 * q - 1) // (2 * q)
        hi = ((1 << bits) - 2) // (2 * q)
        k = rng.randrange(lo, hi + 1)
        n = 2 * k * q + 1
        if n.bit_length() != bits or q * q <= n: continue
        if any(n % p == 0 for p in SMALL_PRIMES): continue
        if not sprp(n, 2): continue
        for a in (2, 3, 5, 7, 11):
            if pow(a, n - 1, n) == 1 and math.gcd(pow(a, (n - 1) // q, n) - 1, n) == 1:
                return n      # Pocklington: n is prime

# ------------------------------------------------------------------ special composites

def spf_sieve(N):
    spf = list(range(N + 1))
    for i in range(2, int(N ** 0.5) + 1):
        if spf[i] == i:
            for j in range(i * i, N + 1, i):
                if spf[j] == j: spf[j] = i
    return spf

def carmichael_below(N):
    """Korselt: n composite, squarefree, (p-1) | (n-1) for every prime p | n."""
    spf = spf_sieve(N)
    out = []
    for n in range(9, N + 1, 2):
        if spf[n] == n: continue
        m = n; ok = True
        while m > 1:
            p = spf[m]; m //= p
            if m % p == 0 or (n - 1) % (p - 1): ok = False; break
        if ok: out.append(n)
    return out

def chernick(limit_k):
    out = []
    for k in range(1, limit_k):
        a, b, c = 6 * k + 1, 12 * k + 1, 18 * k + 1
        if ref_prime(a) and ref_prime(b) and ref_prime(c): out.append(a * b * c)
    return out

# published smallest strong pseudoprimes to the first k prime bases (all composite; the largest with its factorisation)
PSI = [2047, 1373653, 25326001, 3215031751, 2152302898747, 3474749660383, 341550071728321,
       3825123056546413051, 318665857834031151167461]
PSI13 = (3317044064679887385961981, 1287836182261, 2575672364521)

def strong_liars(n):
    return [a for a in range(1, n) if sprp(n, a)]

# ------------------------------------------------------------------ draw scripts

def enc_draw(v, bound):
    """bytes that make num-bigint's gen_biguint(bits(bound)) return v (v < 2^bits): little-endian u32 digits,
    the top digit is shifted right by 32 - bits%32 after being read."""
    bits = bound.bit_length()
    digits, rem = divmod(bits, 32)
    ln = digits + (1 if rem else 0)
    if rem == 0:
        raw = v
    else:
        lowbits = 32 * (ln - 1)
        raw = (v & ((1 << lowbits) - 1)) | (((v >> lowbits) << (32 - rem)) << lowbits)
    return list(raw.to_bytes(4 * ln, 'little'))

def script_bases(n, bases):
    """script that makes the successive draws of gen_bigint_range(1, n) equal to the given bases (each in [1, n))"""
    out = []
    for a in bases:
        assert 1 <= a < n
        out += enc_draw(a - 1, n - 1)
    return out

# ------------------------------------------------------------------ cases

def cmp_replay(ia, ma):
    """verdict equal; the model consumed exactly the logged bytes (none left, never ran dry)"""
    if ia.kind != 'ok' or ma.kind != 'ok':
        return None if ia.key() == ma.key() else 'implementation %r vs model %r' % (ia.raw[:200], ma.raw[:200])
    if ia.val[0] != ma.val[0]: return 'verdict: implementation %s, model %s' % (ia.val[0], ma.val[0])
    if ma.val[1] != 0: return 'model left %d of the %d logged bytes unread' % (ma.val[1], len(ia.val[1]))
    if ma.val[2] is not False: return 'model ran out of logged bytes (implementation consumed %d)' % len(ia.val[1])
    return None

def o_ref(n, expected):
    def orc(ia):
        if ia.kind != 'ok': return 'is_prime(%d) did not return: %s' % (n, ia.raw[:100])
        if ia.val[0] is not expected:
            return 'is_prime(%d) = %s, deterministic reference says %s' % (n, ia.val[0], expected)
        return None
    return orc

def mk(n, seed, script, tag, expected=None, nontrivial=None):
    def model(ia, n=n, seed=seed):
        return line('is_prime', n, seed, ia.val[1])
    nt = (n > 2 and n % 2 == 1) if nontrivial is None else nontrivial
    return Case('is_prime', line('is_prime', n, seed, script), model=model, compare=cmp_replay,
                oracle=None if expected is None else o_ref(n, expected), always_oracle=expected is not None,
                nontrivial=nt, tag=tag)

PROFILES = ('debug', 'release')

def cases(rng, tier):
    th = tier == 'thorough'
    out = []
    seed = lambda: rng.getrandbits(64)
    # 1. every n below the bound, seeded draws, verdict = deterministic reference
    B = 1 << (18 if th else 13)
    for n in range(-3, B):
        out.append(mk(n, seed(), [], 'all-small-prime' if ref_prime(n) else 'all-small-composite', expected=ref_prime(n)))
    # 1b. n - 1 divisible by a high power of two (n = k * 2^e + 1, e >= 64, 128, 192: whole zero machine words in n - 1):
    # the decomposition n - 1 = d * 2^c must count every factor 2. Below the deterministic limit the reference decides;
    # above it only Proth-certified primes are used (k < 2^e and a^((n-1)/2) = -1 mod n for some a proves n prime)
    cnt = 0
    for e in (64, 65, 66, 70, 75):
        for k in range(1, 400, 2):
            n = k * 2 ** e + 1
            if n >= DET_LIMIT: break
            isp = ref_prime(n)
            if isp or k % 37 == 1:
                out.append(mk(n, seed(), [], 'proth-shape-' + ('prime' if isp else 'composite'), expected=isp)); cnt += 1
    for e in (128, 130, 189, 192, 201) if not th else (128, 130, 189, 192, 201, 209, 256, 276):
        found = 0
        for k in range(1, 4000, 2):
            n = k * 2 ** e + 1
            if any(pow(a, (n - 1) // 2, n) == n - 1 for a in (3, 5, 7, 11, 13)):
                out.append(mk(n, seed(), [], 'proth-certified-prime', expected=True)); found += 1
                if found >= (1 if not th else 3): break
    # 2. Carmichael numbers
    cars = carmichael_below(3 * 10 ** 6 if th else 2 * 10 ** 5) + chernick(3000 if th else 300)
    for n in cars:
        out.append(mk(n, seed(), [], 'carmichael', expected=False))
    # 3. strong pseudoprimes: to base 2 by search, published psi_k
    lim = 3 * 10 ** 6 if th else 3 * 10 ** 5
    spf = spf_sieve(lim)
    spsp2 = [n for n in range(9, lim, 2) if spf[n] != n and sprp(n, 2)]
    for n in spsp2 + PSI:
        for _ in range(3):
            out.append(mk(n, seed(), [], 'strong-pseudoprime', expected=False))
    n13, p13, q13 = PSI13
    assert p13 * q13 == n13
    out.append(mk(n13, seed(), [], 'strong-pseudoprime', expected=False))
    # 4. random provable primes, semiprimes, prime squares and neighbours up to 512 bits
    # (the extracted model multiplies unary-binary [positive]s: a 512-bit prime costs ~2 min of model time, a 256-bit one
    #  ~15 s; composites are rejected in the first rounds. Quick tier therefore stops at 256-bit primes, 512-bit composites.)
    # primes just above and well above 256 bits too: a round count (or any shortcut) that depends on the size of n shows
    # only there; the model then wants 20 draws where the implementation logged fewer
    for bits in ([16, 24, 32, 48, 63, 64, 65, 96, 128, 192, 256] * (3 if th else 1) + [257, 320, 384, 512] + ([768] if th else [])):
        p = provable_prime(bits, rng)
        if th or bits <= 384:
            out.append(mk(p, seed(), [], 'random-prime', expected=True))
        hb = max(2, bits // 2)
        a, b = provable_prime(hb, rng), provable_prime(max(2, bits - hb), rng)
        out.append(mk(a * b, seed(), [], 'random-semiprime', expected=False))
        out.append(mk(a * a, seed(), [], 'prime-square', expected=False))
        if p + 2 < DET_LIMIT: out.append(mk(p + 2, seed(), [], 'near-prime', expected=ref_prime(p + 2)))
    for _ in range(1500 if th else 300):
        n = rng.getrandbits(rng.choice([20, 31, 32, 33, 40, 63, 64, 65, 80])) | 1
        out.append(mk(n, seed(), [], 'random-odd', expected=ref_prime(n)))
    for e in [31, 32, 33, 63, 64, 65]:      # digit boundaries of the draw routine
        for dlt in (-1, 1, 3):
            n = (1 << e) + dlt
            out.append(mk(n, seed(), [], 'pow2-neighbour', expected=ref_prime(n)))
    # 5. scripted adversarial draws: only model == implementation (the property's error bound is probabilistic)
    adv = [n for n in range(9, 400 if th else 120, 2) if not ref_prime(n)] + cars[:40 if th else 12] + spsp2[:40 if th else 12]
    for n in adv:
        out.append(mk(n, seed(), script_bases(n, [1] * 20), 'script-base-1'))
        out.append(mk(n, seed(), script_bases(n, [n - 1] * 20), 'script-base-n-1'))
        out.append(mk(n, seed(), script_bases(n, [1, n - 1] * 10), 'script-base-pm1'))
        out.append(mk(n, seed(), [0] * 8, 'script-zero-short'))       # zeros, then the seeded stream takes over
        if n < 10 ** 5:
            liars = strong_liars(n)
            wit = [a for a in range(2, n - 1) if not sprp(n, a)]
            ls = [rng.choice(liars) for _ in range(20)]
            out.append(mk(n, seed(), script_bases(n, ls), 'script-liars'))
            if wit:
                j = rng.randrange(20)
                out.append(mk(n, seed(), script_bases(n, ls[:j] + [rng.choice(wit)]), 'script-liars-then-witness'))
                g = [a for a in wit if math.gcd(a, n) > 1]
                if g: out.append(mk(n, seed(), script_bases(n, [rng.choice(g)]), 'script-gcd-witness'))
        out.append(mk(n, seed(), [255] * (4 * rng.randrange(1, 6)), 'script-rejected-draws'))
    for n in PSI + [n13]:
        k = PSI.index(n) + 1 if n in PSI else 13
        out.append(mk(n, seed(), script_bases(n, (SMALL_PRIMES[:k] * 20)[:20]), 'script-liars'))
        out.append(mk(n, seed(), script_bases(n, (SMALL_PRIMES[:k] * 20)[:19] + [SMALL_PRIMES[k] if k < 13 else 43]), 'script-liars-then-witness'))
        out.append(mk(n, seed(), script_bases(n, [1] * 20), 'script-base-1'))
    for bits in ([64, 128, 256, 512] if th else [64, 128]):
        p = provable_prime(bits, rng); q = provable_prime(bits, rng)
        for n in (p, p * q):
            out.append(mk(n, seed(), script_bases(n, [1] * 20), 'script-base-1'))
            if bits < 512:      # 20 full-size modpows of the model at 512 bits cost ~2 min each run
                out.append(mk(n, seed(), script_bases(n, [n - 1] * 20), 'script-base-n-1'))
            out.append(mk(n, seed(), script_bases(n, [2, n - 2, 3, n - 3]), 'script-small-bases'))
    # 6. primes under scripted draws: still every run must say true (one-sided error), checked by the oracle too
    for p in [3, 5, 7, 13, 17, 97, 257, 65537, 2 ** 31 - 1, 2 ** 61 - 1]:
        out.append(mk(p, seed(), script_bases(p, [1, p - 1, 2 % p or 1, (p - 1) // 2 or 1] * 5), 'script-prime', expected=True))
        out.append(mk(p, seed(), [255] * 12, 'script-prime', expected=True))
    # 6b. machine-word boundaries: the primes and a few composites next to 2^8, 2^16, 2^31, 2^32, 2^33, 2^63, 2^64, 2^65, 2^128
    # (a fast path in u32/u64 arithmetic wraps or panics exactly there), squares of the primes next to 2^16 and 2^32
    def near(k, step):
        x = 2 ** k + (1 if step > 0 else -1)
        while not ref_prime(x): x += step
        return x
    for kb in (8, 16, 31, 32, 33, 63, 64):
        for step in (1, -1):
            q = near(kb, step)
            out.append(mk(q, seed(), [], 'word-boundary-prime', expected=True))
            for d in (2, -2, 4, 6):
                m = q + d
                if m > 3: out.append(mk(m, seed(), [], 'word-boundary', expected=ref_prime(m)))
            if kb in (16, 32): out.append(mk(q * q, seed(), [], 'word-boundary', expected=False))
    for m in (2 ** 32 - 5, 2 ** 32 - 17, 2 ** 32 + 15, 2 ** 31 - 1, 65521 * 65537, 4294967291 * 4294967311, 2 ** 64 - 59, 2 ** 64 + 13):
        out.append(mk(m, seed(), [], 'word-boundary', expected=ref_prime(m)))
    # 6c. sequences of calls answered by one thread: n, -n, n again, neighbours, repeated values (an answer remembered from an
    # earlier call must not leak into a later one); decided by the deterministic reference
    def o_seq(ns):
        def orc(ia):
            if ia.kind != 'ok' or not isinstance(ia.val, list) or len(ia.val) != len(ns): return 'is_prime sequence did not return: %s' % ia.raw[:100]
            for n_, v_ in zip(ns, ia.val):
                if v_ is not ref_prime(n_): return 'is_prime(%d) = %s inside the sequence %s' % (n_, v_, ns)
            return None
        return orc
    import lib as _lib
    for _ in range(40 if not th else 400):
        q = rng.choice([7, 13, 1000003, 2 ** 31 - 1, 998244353, 65537, 561, 1105, 2047, 9, 25, 91])
        ns = [q, -q, q, q + 2, -q, q * q, q, 1, q, 0, -1, q]
        rng.shuffle(ns)
        out.append(Case('is_prime_seq', line('is_prime_seq', ns, seed()), model=_lib.IMPL_ONLY, oracle=o_seq(ns), always_oracle=True, tag='call-sequences'))
    # 7. the consumer named by the property: ecm::factorize stops splitting exactly where is_prime says "prime". Perfect powers of
    # composites, prime powers, Carmichael numbers and their squares: every base reported must be prime and the product n
    # (same operation, model and oracle as C01; the model replays the logged draws)
    from props import c01 as C01
    cons = []
    sp = [3, 5, 7, 11, 13, 101, 103, 65537, 1000003]
    for i, p in enumerate(sp):
        for q in sp[i + 1:i + 3]:
            cons += [(p * q) ** 2, (p * q) ** 3, p * p * q, (p * q) ** 2 * 2]
    cons += [1009 * 1013, 1009 * 1009, 1013 * 1019, 1021 * 1031, 1031 * 1033, 8 * 1009 * 1021, 1209129096, 65537 * 65539,
             6 ** 2, 6 ** 3, 10 ** 4, 12 ** 2, 15 ** 4, 30 ** 3, 2 ** 10, 3 ** 7, 7 ** 5, 101 ** 3, 561, 561 ** 2, 1105, 1729, 1729 ** 2, 2821, 6601 * 6601, 2047, 2047 ** 2,
             3215031751, 4 * 3215031751]
    for n in cons:
        if n < 2 ** 64:
            out.append(C01.c_fact('ecm_factorize', n, seed(), [], 'debug', 'consumer-ecm-factorize'))
    # a slice of the cases again on the release build of the implementation (wrapping arithmetic, debug assertions off)
    out += lib.release_slice(out, rng, 0.05, plain_ops=('is_prime',))
    return out
