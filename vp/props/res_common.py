"""Shared by C04/C05/C10: exact polynomial arithmetic and Sylvester-matrix oracles written from the
definitions (no sympy, nothing taken from the model). Polynomials are lists of ints or Fractions, lowest
degree first, canonical (no trailing zero); [] is the zero polynomial."""
from fractions import Fraction
from math import gcd
from lib import line, Id, Case

def strip(p):
    p = list(p)
    while p and p[-1] == 0: p.pop()
    return p

def deg(p): return len(p) - 1          # -1 for zero

def padd(a, b):
    n = max(len(a), len(b))
    return strip([(a[i] if i < len(a) else 0) + (b[i] if i < len(b) else 0) for i in range(n)])

def pscale(c, a): return strip([c * x for x in a])

def pmul(a, b):
    if not a or not b: return []
    r = [0] * (len(a) + len(b) - 1)
    for i, x in enumerate(a):
        if x == 0: continue
        for j, y in enumerate(b): r[i + j] += x * y
    return strip(r)

def pderiv(a): return strip([i * a[i] for i in range(1, len(a))])

def pcompose_shift(a, c):
    """a(x + c) by Horner."""
    r = []
    for co in reversed(a):
        r = padd(pmul(r, [c, 1]), [co] if co != 0 else [])
    return r

def preflect(a): return [(-1) ** i * x for i, x in enumerate(a)]

def pdivmod_q(a, b):
    """Division with remainder over Q (Fractions); b != 0."""
    a = [Fraction(x) for x in a]; b = [Fraction(x) for x in b]
    q = [Fraction(0)] * max(0, len(a) - len(b) + 1)
    while len(a) >= len(b) and a:
        c = a[-1] / b[-1]; k = len(a) - len(b)
        q[k] = c
        for j, y in enumerate(b): a[k + j] -= c * y
        a = strip(a)
    return strip(q), a

def pgcd_q_deg(a, b):
    """degree of gcd over Q by Euclid (independent of the implementation's subresultants)."""
    a = strip(a); b = strip(b)
    while b:
        _, r = pdivmod_q(a, b)
        a, b = b, r
    return deg(a)

def exact_div_z(a, d):
    """a / d in Z[x] if d | a in Z[x] (integer quotient, zero remainder), else None."""
    if not d: return None
    if not a: return []
    q, r = pdivmod_q(a, d)
    if r: return None
    if any(x.denominator != 1 for x in q): return None
    return [int(x) for x in q]

def content(a):
    g = 0
    for x in a: g = gcd(g, x)
    return g

def sylvester(f, g):
    """Sylvester matrix of non-zero f (degree m), g (degree n): n shifted rows of f, m of g, highest first."""
    m, n = deg(f), deg(g)
    N = m + n
    rows = []
    ff = f[::-1]; gg = g[::-1]
    for i in range(n): rows.append([0] * i + ff + [0] * (N - m - 1 - i))
    for i in range(m): rows.append([0] * i + gg + [0] * (N - n - 1 - i))
    return rows

def bareiss_det(M):
    """Fraction-free (Bareiss) determinant of an integer matrix; the 0x0 determinant is 1."""
    n = len(M)
    if n == 0: return 1
    M = [r[:] for r in M]
    sign = 1; prev = 1
    for k in range(n - 1):
        if M[k][k] == 0:
            for i in range(k + 1, n):
                if M[i][k] != 0:
                    M[k], M[i] = M[i], M[k]; sign = -sign; break
            else:
                return 0
        pk = M[k][k]; rk = M[k]
        for i in range(k + 1, n):
            ri = M[i]; f = ri[k]
            for j in range(k + 1, n):
                num = ri[j] * pk - f * rk[j]
                q, r = divmod(num, prev)
                assert r == 0
                ri[j] = q
            ri[k] = 0
        prev = pk
    return sign * M[n - 1][n - 1]

def int_rank(M):
    """Rank by integer row elimination (cross-multiplication, rows divided by their content)."""
    M = [r[:] for r in M]
    nr = len(M); nc = len(M[0]) if M else 0
    rank = 0
    for c in range(nc):
        piv = None
        for i in range(rank, nr):
            if M[i][c] != 0: piv = i; break
        if piv is None: continue
        M[rank], M[piv] = M[piv], M[rank]
        pr = M[rank]; p = pr[c]
        for i in range(rank + 1, nr):
            ri = M[i]; f = ri[c]
            if f == 0: continue
            new = [ri[j] * p - f * pr[j] for j in range(nc)]
            g = 0
            for x in new: g = gcd(g, x)
            M[i] = [x // g for x in new] if g > 1 else new
        rank += 1
        if rank == nr: break
    return rank

def res_sylvester(f, g):
    """Res(f, g) = det Sylvester(f, g) for integer polynomials; 0 if either is zero."""
    if not f or not g: return 0
    return bareiss_det(sylvester(f, g))

def res_sylvester_q(f, g):
    """The same for rational polynomials: clear denominators, use multilinearity of det."""
    if not f or not g: return Fraction(0)
    from math import lcm
    s = 1
    for x in f: s = lcm(s, Fraction(x).denominator)
    t = 1
    for x in g: t = lcm(t, Fraction(x).denominator)
    F = [int(Fraction(x) * s) for x in f]; G = [int(Fraction(x) * t) for x in g]
    return Fraction(bareiss_det(sylvester(F, G)), s ** deg(g) * t ** deg(f))

def disc_formula(f):
    """(-1)^(n(n-1)/2) Res(f, f') / lc(f) for deg f >= 1 (exact)."""
    n = deg(f)
    r = res_sylvester(f, pderiv(f))
    if n * (n - 1) // 2 % 2: r = -r
    q, rem = divmod(r, f[-1])
    assert rem == 0
    return q

# ------------------------------------------------------------------ generators

def rint(rng, bits):
    if bits <= 0: return 0
    v = rng.getrandbits(bits)
    return -v if rng.random() < 0.5 else v

def rpoly(rng, d, bits, lc=None, sparse=0.0):
    """random polynomial of exact degree d (d = -1: zero)"""
    if d < 0: return []
    p = [0 if rng.random() < sparse else rint(rng, rng.choice([bits, bits, max(1, bits // 2), 3])) for _ in range(d)]
    if lc is None:
        lc = 0
        while lc == 0: lc = rint(rng, bits)
    return p + [lc]

def small_polys(maxdeg, lo, hi):
    """all canonical polynomials of degree <= maxdeg with coefficients in [lo, hi] (including zero)"""
    out = [[]]
    from itertools import product
    for d in range(maxdeg + 1):
        for body in product(range(lo, hi + 1), repeat=d):
            for lc in range(lo, hi + 1):
                if lc: out.append(list(body) + [lc])
    return out

# ------------------------------------------------------------------ flag accounting

class FlagCount:
    """Counts the model's exactness flags seen by the compare functions; the count is published through the
    tag of a sentinel case that the generator appends last (tags feed the evidence distribution)."""
    def __init__(self, label):
        self.t = 0; self.f = 0; self.label = label; self.sentinel = None
    def see(self, flag):
        if flag: self.t += 1
        else: self.f += 1
        if self.sentinel is not None:
            self.sentinel.tag = '%s: model exactness flag true in %d runs, false in %d' % (self.label, self.t, self.f)

def cmp_flagged(fc, what):
    """model answers [value flag]; implementation answers value. An inexact run is reported loudly: the
    [C] theorems would then not apply to that input (and the structure theorem would be refuted)."""
    def cmp(ia, ma):
        if ia.kind != 'ok' or ma.kind != 'ok':
            return None if ia.key() == ma.key() else 'implementation %r vs model %r' % (ia.raw[:200], ma.raw[:200])
        v, flag = ma.val
        fc.see(flag)
        if ia.val != v: return 'implementation %r vs model value %r' % (ia.raw[:200], ma.raw[:200])
        if not flag: return '%s: model exactness flag is FALSE (an inexact truncating division occurred): %r' % (what, ma.raw[:200])
        return None
    return cmp

def cmp_flagged_list(fc, what):
    def cmp(ia, ma):
        if ia.kind != 'ok' or ma.kind != 'ok':
            return None if ia.key() == ma.key() else 'implementation %r vs model %r' % (ia.raw[:200], ma.raw[:200])
        vs = [x[0] for x in ma.val]
        for x in ma.val: fc.see(x[1])
        if ia.val != vs: return 'implementation %r vs model values %r' % (ia.raw[:200], ma.raw[:200])
        if not all(x[1] for x in ma.val): return '%s: model exactness flag is FALSE: %r' % (what, ma.raw[:200])
        return None
    return cmp

MODE = {'debug': Id('checked'), 'release': Id('wrapping')}
