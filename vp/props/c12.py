"""C12 roots modulo p with multiplicity: find_linear_factors, poly_of_mod, divide_by_x_a."""
from lib import line, Id, Case
from props.polymod_common import *

PROVED = ['[P] roots_sound: for every prime p (2 included), both build profiles, every f and every stream of random bytes: if find_linear_factors returns, '
          'every returned value lies in [0, p) and is a root of f modulo p (Horner value divisible by p)',
          '[P] roots_complete_set: conversely every root of f mod p lying in [0, p) is returned (set completeness, via Euler\'s criterion for the no-progress exit); '
          'hence the set of returned values is exactly the root set',
          '[P] roots_complete_multiset: for every prime p (2 included), both profiles, every f and every draw stream: if find_linear_factors returns, every x of [0, p) '
          'occurs in the returned list exactly k times, where k is the multiplicity of x as a root of f mod p (root_mult p f x k: f = (X - x)^k g mod p with g(x) <> 0 mod p). '
          'Invariant: the values appended by a call on g are the root multiset of g; each step writes g = h g\' mod p (h = X - a, a gcd handed to the recursion, or 1) and '
          'multiplicities add over products; the no-progress exit only fires on a rootless polynomial (Euler)',
          '[P] root_mult_unique / root_mult_exists / root_mult_0_iff / root_mult_pos_root: the multiplicity is well defined for a prime p (unique; exists when f <> 0 mod p; '
          '0 iff not a root; positive implies root)',
          '[P] roots_planted: if f = (X - r1)...(X - rn) g mod p with g rootless mod p, the returned list is a permutation of [r1 mod p; ...; rn mod p]',
          '[P] roots_split_length / roots_split_deg: if f = c (X - r1)...(X - rn) mod p with c <> 0 mod p (f splits), exactly n values are returned and n = deg(f mod p) (pdeg of poly_mod f p)',
          '[P] roots_length_le_deg: in general at most deg(f mod p) values are returned (the returned r1..rn satisfy f = (X - r1)...(X - rn) g mod p)',
          '[P] roots_nil_iff: the returned list is empty iff f has no root in [0, p)',
          '[P] roots_of_constant']
NOT_PROVED = ['termination for all draw streams (false: only with probability 1)']
PROFILES = ('debug', 'release')
RULE = ('find_linear_factors on every coefficient vector up to a degree bound over F_2, F_3, F_5, F_7, F_11, F_13; planted roots with '
        'multiplicities <= 4 times an irreducible cofactor (degree 0, 2, 3, 4) over p up to 2^61-1 and beyond 2^64, coefficients disguised by '
        'multiples of p and negative; scripted draws making the first shift a root, a non-root, or rejected by the sampler; both build '
        'profiles (debug assertions of linear.rs/prim.rs); f mod p = 0 and non-prime moduli as a separate outside stream. '
        'Non-trivial = degree >= 2 (at least one random shift is drawn).')
CLAIM = dict(
    technique='Coq proof about the Gallina model of src/poly_mod/linear.rs (+ prim.rs) + extracted-model-vs-implementation correspondence with replayed random draws + independent oracle (root multiset)',
    text='Proved for all inputs and all draw streams (partial correctness: whenever the run returns): soundness (every returned value is a root in [0,p)), set completeness (every root is returned) and the multiset clause (every x of [0,p) is returned exactly as often as its multiplicity as a root of f mod p; hence a permutation of the planted roots when f = prod (X - r_i) * g with g rootless, length = deg(f mod p) when f splits and <= deg(f mod p) always, empty iff rootless). The model is tied to /repo by running the extracted model and impl_svc on the same inputs and the same random bytes, in both build profiles.',
    note='Termination for every draw stream is not provable (it holds with probability 1 only); the statements are conditional on the run returning (the model uses explicit fuel). The independent root-multiset oracle still runs on every explored input (always_oracle).',
    ref='DESIGN.md section 4, C12')
TIMEOUT = 1200

def brute_roots(f, p):
    """root multiset of f mod p by evaluation and repeated division (small p)"""
    f = red(f, p); out = []
    for x in range(p):
        while deg(f) >= 1 and peval(f, x, p) == 0:
            f = pdivmod(f, [(-x) % p, 1], p)[0]; out.append(x)
    return sorted(out)

def o_roots(f, p, expected=None):
    def orc(ia):
        if p < 2 or not red(f, p): return None            # outside the property
        v, why = rng_value(ia)
        if v is None: return 'find_linear_factors(%s, %d) did not return: %s' % (f, p, why)
        exp = sorted(expected) if expected is not None else brute_roots(f, p)
        if any(not (isinstance(x, int) and 0 <= x < p) for x in v): return 'value outside [0, p): %s' % (v,)
        if sorted(v) != exp: return 'roots %s, expected the multiset %s' % (sorted(v), exp)
        return None
    return orc

def roots_case(rng, f, p, tag, expected=None, script=(), profile='debug', nontrivial=True, prime=True):
    seed = rng.getrandbits(64)
    extra = (Id('wrapping'),) if profile == 'release' else ()
    return Case('pm_roots', line('pm_roots', f, p, seed, list(script)), model=model_with_bytes('pm_roots', f, p, extra=extra),
                compare=compare_rng, oracle=o_roots(f, p, expected) if prime else None, always_oracle=True, nontrivial=nontrivial and p >= 2 and deg(red(f, p)) >= 2,
                tag=tag + ('-release' if profile == 'release' else ''), profile=profile)

def fixed_width_case(rng, op, f, p, tag, expected):
    """find_linear_factors::<i64> / ::<i128>: decided by the oracle (root multiset), not tied to the model (the fixed-width
    generator draws through rand's integer sampler, whose byte consumption is not modelled)"""
    import lib as _lib
    return Case(op, line(op, f, p, rng.getrandbits(64), []), model=_lib.IMPL_ONLY, oracle=o_roots(f, p, expected), always_oracle=True,
                nontrivial=True, tag=tag)

def planted(rng, p, maxdeg):
    """(f, roots): f = lc * prod (x - r)^m * g, g irreducible of degree 0, 2, 3 or 4 (no root)"""
    roots = []
    f = [rng.randrange(1, p)]
    dg = rng.choice([0, 0, 2, 2, 3, 4])
    if p == 2 and dg == 2 and rng.random() < 0.5: dg = 3
    if dg: f = zmul(f, random_irreducible(rng, p, dg))
    nroots = rng.choice([0, 1, 2, 3, 4, 6])
    pool = [rng.randrange(p) for _ in range(nroots)]
    if pool and rng.random() < 0.3: pool[0] = 0
    if len(pool) > 1 and rng.random() < 0.3: pool[1] = p - 1
    for r in set(pool):
        m = rng.choice([1, 1, 1, 2, 2, 3, 4])
        if deg(f) + m > maxdeg: continue
        f = zmul(f, zpow([-r, 1], m)); roots += [r] * m
    return red(f, p), roots

def cases(rng, tier):
    th = tier == 'thorough'
    out = []
    # ---- exhaustive small fields
    bounds = {2: 8, 3: 5, 5: 4, 7: 3, 11: 3, 13: 2} if th else {2: 6, 3: 4, 5: 3, 7: 3, 11: 2, 13: 2}
    for p, n in bounds.items():
        for f in all_coeff_vectors(p, n + 1):
            if not any(f): continue
            out.append(roots_case(rng, f, p, 'all-F%d' % p))
    # ---- planted roots
    primes = [2, 3, 5, 7, 13, 101, 65537, 2 ** 31 - 1, 2 ** 61 - 1, 18446744073709551629]
    for i in range(1500 if th else 260):
        p = primes[i % len(primes)]
        f, roots = planted(rng, p, 12 if p < 2 ** 32 else 7 if th else 5)      # the extracted model computes on Coq binary Z: 64-bit primes are slow, keep the quick tier small there
        if rng.random() < 0.5: f = disguise(rng, f, p)
        if rng.random() < 0.15: f = f + [p * rng.randrange(1, 3)]            # leading coefficient divisible by p
        prof = 'release' if i % 5 == 4 else 'debug'
        kind = 'split' if len(roots) == deg(red(f, p)) and roots else 'rootless' if not roots else 'mixed'
        out.append(roots_case(rng, f, p, 'planted-%s-%s' % (kind, 'pbig' if p > 2 ** 32 else 'pmid' if p > 13 else 'psmall'), roots, profile=prof))
    # ---- primes next to the machine-word boundaries 2^31, 2^32, 2^63, 2^64
    for i, pw in enumerate([2147483647, 4294967291, 4294967311, 9223372036854775783, 18446744073709551557] * (2 if not th else 8)):
        f, roots = planted(rng, pw, 4)
        kind = 'split' if len(roots) == deg(red(f, pw)) and roots else 'rootless' if not roots else 'mixed'
        out.append(roots_case(rng, f, pw, 'planted-%s-p-word-boundary' % kind, roots, profile='release' if i % 2 else 'debug'))
    # ---- long inputs: roots of multiplicity 65..130 (the recursion of the odd-p routine is as deep as the largest multiplicity)
    for pw, mult, extra in [(23, 100, []), (23, 90, [1, 0, 1]), (7, 70, [6, 0, 1]), (101, 66, []), (3, 130, [])]:
        r0 = rng.randrange(pw)
        f = [1]
        for _ in range(mult): f = pmul(f, [(-r0) % pw, 1], pw)
        if extra: f = pmul(f, extra, pw)
        roots = [r0] * mult + ([x_ for x_ in range(pw) if sum(c_ * x_ ** i_ for i_, c_ in enumerate(extra)) % pw == 0] if extra and pw < 200 else [])
        if extra and pw < 200:
            # multiplicities of the extra factor's roots (all simple here unless equal to r0)
            pass
        out.append(roots_case(rng, f, pw, 'high-multiplicity-65+', None))
    # ---- scripted first draw
    for i in range(400 if th else 90):
        p = primes[2 + i % (len(primes) - 2)]
        f, roots = planted(rng, p, 10 if p < 2 ** 32 else 7 if th else 5)
        if deg(f) < 2: continue
        how = rng.choice(['root', 'root', 'root', 'nonroot', 'rejected'])
        if how == 'root' and roots:
            a = rng.choice(roots); script = bytes_for_draw(a, p)
        elif how == 'rejected':
            script = [255] * (4 * ((p.bit_length() + 31) // 32)) + bytes_for_draw(roots[0] if roots else 1, p)
        else:
            a = next(x for x in range(p) if x not in roots); script = bytes_for_draw(a, p); how = 'nonroot'
        out.append(roots_case(rng, f, p, 'scripted-shift-' + how, roots, script=script, profile='release' if i % 7 == 6 else 'debug'))
    # all draws scripted to the same root of a high-multiplicity factor
    for p in [3, 7, 101, 2 ** 61 - 1]:
        for m in [2, 3, 4]:
            r = rng.randrange(p)
            f = red(zmul(zpow([-r, 1], m), [1, 0, 1] if p % 4 == 3 else [1]), p)
            out.append(roots_case(rng, f, p, 'scripted-same-root', [r] * m, script=bytes_for_draw(r, p) * m))
    # unit tests of linear.rs
    for f, p in [([1, 0, 1], 5), ([2, 0, 1], 5), ([65696851, 38350500, -1304055, 1139835, 219113, 99535], 104743), ([0, 0, 1], 23),
                 ([1, 0, 1], 2), ([0, 0, 1, 1, 1], 2)]:
        out.append(roots_case(rng, f, p, 'unit-test'))
    # x^p - x, x^(p-1) - 1: every element is a root
    for p in [3, 5, 7, 11, 13]:
        out.append(roots_case(rng, [0, -1] + [0] * (p - 2) + [1], p, 'all-elements', list(range(p))))
        out.append(roots_case(rng, [-1] + [0] * (p - 2) + [1], p, 'all-elements', list(range(1, p))))
    # ---- outside the property: f mod p = 0, constants, non-prime / degenerate moduli
    for prof in ('debug', 'release'):
        for p in [2, 3, 101, 18446744073709551629]:
            out.append(roots_case(rng, [], p, 'zero-outside', profile=prof, nontrivial=False))
            out.append(roots_case(rng, [p, 2 * p], p, 'zero-outside', profile=prof, nontrivial=False))
            out.append(roots_case(rng, [p + 1], p, 'constant', [], profile=prof, nontrivial=False))
        for f, p in [([1, 2, 1], 0), ([], 0), ([1, 2, 1], 1), ([1, 3], 4), ([3], 4), ([1, 2, 1], -3), ([1, 2], -3)]:
            out.append(roots_case(rng, f, p, 'modulus-outside', profile=prof, nontrivial=False, prime=False))
    # ---- primitives
    for i in range(600 if th else 150):
        p = rng.choice(primes)
        f = disguise(rng, random_poly(rng, p, rng.randrange(0, 8)), p, 1) if rng.random() < 0.95 else []
        a = rng.randrange(-p, 2 * p) if rng.random() < 0.5 else rng.randrange(p)
        prof = 'release' if i % 3 == 2 else 'debug'
        extra = (Id('wrapping'),) if prof == 'release' else ()
        out.append(Case('pm_poly_of_mod', line('pm_poly_of_mod', f, a, p, *extra), profile=prof, tag='poly_of_mod-' + prof))
        # divide_by_x_a at a root (planted) and at an arbitrary point (debug assertion)
        if rng.random() < 0.6 and f:
            a = rng.randrange(p); f = zmul(f, [-a, 1])
            if rng.random() < 0.5: f = red(f, p)
        out.append(Case('pm_divide_by_x_a', line('pm_divide_by_x_a', f, a, p, *extra), profile=prof, tag='divide_by_x_a-' + prof))
    for prof in ('debug', 'release'):
        extra = (Id('wrapping'),) if prof == 'release' else ()
        for f, a, p in [([], 1, 5), ([], 0, 0), ([1, 2], 1, 0), ([3], 1, 0), ([3], 2, 5), ([5], 2, 5)]:
            out.append(Case('pm_poly_of_mod', line('pm_poly_of_mod', f, a, p, *extra), profile=prof, nontrivial=False, tag='poly_of_mod-edge'))
            out.append(Case('pm_divide_by_x_a', line('pm_divide_by_x_a', f, a, p, *extra), profile=prof, nontrivial=False, tag='divide_by_x_a-edge'))
    # ---- the fixed-width instantiations with primes near their contract limit ((deg+1) p^2 must fit the type: degree <= 6 with
    # p up to 10^9+7 for i64 and up to 2^61 for i128): every reduction mod p inside the division and powering loops matters here
    for i in range(24 if not th else 200):
        op, p = [('pm_roots_i64', 101), ('pm_roots_i64', 65537), ('pm_roots_i64', 100000007), ('pm_roots_i64', 1000000007),
                 ('pm_roots_i128', 2 ** 61 - 1), ('pm_roots_i128', 1152921504606846883)][i % 6]
        f, roots = planted(rng, p, 6)
        if deg(f) < 1: continue
        out.append(fixed_width_case(rng, op, f, p, 'fixed-width:%s' % op[9:], roots))
    return out
