"""Shared by c08/c11/c12: independent dense arithmetic in F_p[x] and Z[x] (python ints), irreducibility tests,
helpers for the randomised operations (scripted draws). Nothing here looks at the model.

Polynomials are lists of ints, lowest degree first, without trailing zeros ([] = 0)."""
from lib import line, enc, default_compare

PRIMES_BIG = [11, 13, 101, 65537, 2 ** 61 - 1, 18446744073709551629]   # the last one is > 2^64

# ------------------------------------------------------------------ Z[x]

def trim(a):
    a = list(a)
    while a and a[-1] == 0: a.pop()
    return a

def zadd(a, b):
    n = max(len(a), len(b))
    return trim([(a[i] if i < len(a) else 0) + (b[i] if i < len(b) else 0) for i in range(n)])

def zsub(a, b):
    n = max(len(a), len(b))
    return trim([(a[i] if i < len(a) else 0) - (b[i] if i < len(b) else 0) for i in range(n)])

def zmul(a, b):
    if not a or not b: return []
    out = [0] * (len(a) + len(b) - 1)
    for i, x in enumerate(a):
        if x:
            for j, y in enumerate(b): out[i + j] += x * y
    return trim(out)

def zscal(c, a): return trim([c * x for x in a])

def zprod(polys):
    out = [1]
    for f in polys: out = zmul(out, f)
    return out

def zpow(a, e):
    out = [1]
    for _ in range(e): out = zmul(out, a)
    return out

# ------------------------------------------------------------------ F_p[x]

def red(a, p): return trim([c % p for c in a])
def padd(a, b, p): return red(zadd(a, b), p)
def psub(a, b, p): return red(zsub(a, b), p)
def pmul(a, b, p): return red(zmul(a, b), p)
def deg(a): return len(a) - 1            # -1 for the zero polynomial

def pdivmod(a, b, p):
    """a = q b + r, deg r < deg b; b non-zero mod p, p prime."""
    a = red(a, p); b = red(b, p)
    assert b
    inv = pow(b[-1], -1, p)
    q = [0] * max(0, len(a) - len(b) + 1)
    r = list(a)
    for i in range(len(a) - len(b), -1, -1):
        c = r[i + len(b) - 1] * inv % p
        if c:
            for j, y in enumerate(b): r[i + j] = (r[i + j] - c * y) % p
        q[i] = c
    return trim(q), trim(r)

def pmonic(a, p):
    a = red(a, p)
    if not a: return a
    inv = pow(a[-1], -1, p)
    return [c * inv % p for c in a]

def pgcd(a, b, p):
    a = red(a, p); b = red(b, p)
    while b: a, b = b, pdivmod(a, b, p)[1]
    return pmonic(a, p)

def pegcd(a, b, p):
    """(g, u, v): g monic gcd, a u + b v = g mod p."""
    r0, r1 = red(a, p), red(b, p)
    s0, s1, t0, t1 = [1], [], [], [1]
    while r1:
        q, r = pdivmod(r0, r1, p)
        r0, r1 = r1, r
        s0, s1 = s1, psub(s0, pmul(q, s1, p), p)
        t0, t1 = t1, psub(t0, pmul(q, t1, p), p)
    if not r0: return [], s0, t0
    inv = pow(r0[-1], -1, p)
    return red(zscal(inv, r0), p), red(zscal(inv, s0), p), red(zscal(inv, t0), p)

def pmulmod(a, b, f, p): return pdivmod(pmul(a, b, p), f, p)[1]

def ppowmod(a, e, f, p):
    out = pdivmod([1], f, p)[1]
    a = pdivmod(a, f, p)[1]
    while e > 0:
        if e & 1: out = pmulmod(out, a, f, p)
        a = pmulmod(a, a, f, p)
        e >>= 1
    return out

def pderiv(a, p): return red([i * a[i] for i in range(1, len(a))], p)
def peval(a, x, p):
    s = 0
    for c in reversed(a): s = (s * x + c) % p
    return s

def pprod(polys, p):
    out = [1]
    for f in polys: out = pmul(out, f, p)
    return out

def ppow(a, e, p):
    out = [1]
    for _ in range(e): out = pmul(out, a, p)
    return out

def prime_divisors(n):
    out = []; d = 2
    while d * d <= n:
        if n % d == 0:
            out.append(d)
            while n % d == 0: n //= d
        d += 1
    if n > 1: out.append(n)
    return out

def irreducible_rabin(f, p):
    """Rabin: f of degree n >= 1 is irreducible over F_p iff x^(p^n) = x mod f and
    gcd(x^(p^(n/q)) - x, f) = 1 for every prime q | n."""
    f = pmonic(f, p); n = deg(f)
    if n < 1: return False
    if n == 1: return True
    x = [0, 1]
    pows = [pdivmod(x, f, p)[1]]                  # pows[k] = x^(p^k) mod f
    for _ in range(n): pows.append(ppowmod(pows[-1], p, f, p))
    if psub(pows[n], x, p) != []: return False
    for q in prime_divisors(n):
        if deg(pgcd(psub(pows[n // q], x, p), f, p)) != 0: return False
    return True

def monic_polys(p, d):
    """all monic polynomials of degree d over F_p"""
    cur = [0] * d
    while True:
        yield cur + [1]
        i = 0
        while i < d:
            cur[i] += 1
            if cur[i] < p: break
            cur[i] = 0; i += 1
        if i == d: return

def irreducible_exhaustive(f, p):
    """no monic divisor of degree 1 .. n/2 (small p only)"""
    f = pmonic(f, p); n = deg(f)
    if n < 1: return False
    for d in range(1, n // 2 + 1):
        for g in monic_polys(p, d):
            if pdivmod(f, g, p)[1] == []: return False
    return True

def irreducible(f, p):
    n = deg(red(f, p))
    if p <= 7 and n <= 10 and p ** (n // 2) <= 3000: return irreducible_exhaustive(f, p)
    return irreducible_rabin(f, p)

def random_poly(rng, p, d, monic=False):
    """degree exactly d (d >= 0)"""
    a = [rng.randrange(p) for _ in range(d)]
    a.append(1 if monic else rng.randrange(1, p))
    return a

def random_irreducible(rng, p, d):
    while True:
        f = random_poly(rng, p, d, monic=True)
        if irreducible(f, p): return f

def distinct_irreducibles(rng, p, degs):
    """monic, pairwise distinct, of the given degrees; None if impossible"""
    out = []
    for d in degs:
        for _ in range(200):
            f = random_irreducible(rng, p, d)
            if f not in out: out.append(f); break
        else:
            return None
    return out

def disguise(rng, f, p, spread=3):
    """same polynomial mod p, with negative coefficients and multiples of p added"""
    return [c + p * rng.randrange(-spread, spread + 1) for c in f]

def all_coeff_vectors(p, n):
    """every vector of n coefficients in [0,p), lowest index fastest (includes trailing zeros)"""
    cur = [0] * n
    while True:
        yield list(cur)
        i = 0
        while i < n:
            cur[i] += 1
            if cur[i] < p: break
            cur[i] = 0; i += 1
        if i == n: return

# ------------------------------------------------------------------ randomised operations

def bytes_for_draw(v, bound):
    """script bytes making num-bigint's gen_biguint_below(bound) return v (< bound) at its first attempt"""
    assert 0 <= v < bound
    bits = bound.bit_length()
    digits, rem = divmod(bits, 32)
    ln = digits + (1 if rem else 0)
    if rem:
        low_bits = 32 * (ln - 1)
        low = v & ((1 << low_bits) - 1)
        top = (v >> low_bits) << (32 - rem)
        v = low + (top << low_bits)
    return [(v >> (8 * i)) & 255 for i in range(4 * ln)]

def model_with_bytes(op, *args, extra=()):
    """model line of a randomised op: same arguments, the consumed bytes instead of (seed, script)"""
    def mk(ia):
        if ia.kind != 'ok': return line(op, *args, [], *extra)
        return line(op, *args, ia.val[2], *extra)
    return mk

def compare_rng(ia, ma):
    """implementation: ok [ok v bytes] | ok [panic cls bytes]; model: ok [ok v remaining exhausted] | panic cls"""
    if ia.kind != 'ok':
        return default_compare(ia, ma)
    if ia.val[0] == 'panic':
        if ma.kind == 'panic' and ma.cls == str(ia.val[1]): return None
        return 'implementation panicked (%s), model %r' % (ia.val[1], ma.raw[:200])
    if ma.kind != 'ok' or ma.val[0] != 'ok':
        return 'implementation %r vs model %r' % (ia.raw[:200], ma.raw[:200])
    if enc(ma.val[1]) != enc(ia.val[1]):
        return 'implementation %r vs model %r' % (enc(ia.val[1])[:200], enc(ma.val[1])[:200])
    if ma.val[2] != 0 or ma.val[3] is not False:
        return 'model consumed a different number of random bytes (remaining %s, exhausted %s)' % (ma.val[2], ma.val[3])
    return None

def rng_value(ia):
    """value of a randomised op, or None (+ reason) when it did not return"""
    if ia.kind != 'ok': return None, ia.raw[:120]
    if ia.val[0] != 'ok': return None, 'panic %s' % ia.val[1]
    return ia.val[1], None
