"""C05 discriminant (src/discriminant.rs): (-1)^(n(n-1)/2) Res(f, f') / lc(f)."""
from lib import line, Id, Case
from props import res_common as R

RULE = ('exhaustive: every polynomial of degree 1..3 with coefficients in {-2..2} and of degree 4..5 with coefficients in {-1..1}; random degree 1..12 '
        '(every residue of the degree mod 4 in equal shares) with coefficients up to 2^64, negative and non-primitive leading coefficients; '
        'repeated factors (discriminant 0); metamorphic relations on implementation outputs: disc f(x+c) = disc f(-x) = disc f, '
        'disc(fg) = disc f disc g Res(f,g)^2; degrees 1..4 with every coefficient at or next to +-2^31, 2^32, 2^63, 2^64, 2^127 in both profiles; zero (assert) and constants (outside the property: model must still agree). '
        'Non-trivial = degree >= 2. The last tag gives the count of model runs whose exactness flag was true/false.')
PROVED = ['[P] sign_rule: m mod 4 in {2,3} <-> m(m-1)/2 odd',
          '[P] discriminant_zero: the zero polynomial fails the assert (Panic PAssert) in either mode',
          '[P] discriminant_const: a non-zero constant gives 0 (as coded; outside the property)',
          '[P] discriminant_linear: degree 1 gives 1, flag true, no panic, either mode',
          '[P] discriminant_no_outoffuel: supplied fuel suffices for all inputs',
          '[P] discriminant_flag_true: for every canonical input (length fits a usize) every truncating division of the run is exact (sub-resultant structure theorem of C04 + resultant_deriv_lead: lc f divides det Sylvester(f, f\'))',
          '[P] discriminant_total: canonical non-zero input => a value is returned (no panic), either mode',
          '[P] discriminant_spec: deg f >= 1 => the value d satisfies d * lc f = (-1)^(n(n-1)/2) * det Sylvester(f, f\') (MathComp), i.e. d is the discriminant of the property text; no flag hypothesis',
          '[P] discriminant_eq0: d = 0 iff f and f\' have a common factor of positive degree (repeated factor), via MathComp resultant_eq0; no flag hypothesis',
          '[P] resultant_affine: Res(A(ax+b), B(ax+b)) = a^(deg A deg B) Res(A, B) over any integral domain, a <> 0 (Sylvester determinants; through the Euclid recursion over the fraction field)',
          '[P] discriminant_affine_model / discriminant_shift / discriminant_negx: for canonical lists f, g with Poly g = Poly f o (a X + b), a <> 0, deg f >= 1: discriminant g = a^(n(n-1)) discriminant f; in particular unchanged under x -> x + c and x -> -x',
          '[P] resultant_roots (product formula over algebraically closed fields: Res(a prod (X - alpha_i), B) = a^deg B prod B(alpha_i), via the Euclid recurrence), resultant_mull_Z / resultant_mulr_Z: multiplicativity of the resultant over Z[x] (through Z -> algC)',
          '[P] discriminant_mul_model: for canonical lists f, g, fg of degree >= 1 with Poly fg = Poly f * Poly g: discriminant fg = discriminant f * discriminant g * (resultant f g)^2 on the values returned by the model',
          '[P] discriminant_root_differences (fifth wave): the closed form for the model: for every canonical f of degree n >= 1, in either mode, the run returns d, and for every list r_1..r_k of algebraic numbers (MathComp algC) with '
          'f = lc(f) prod (x - r_i) over algC (roots with multiplicity): k = n and d = lc(f)^(2n-2) * prod_{i<j} (r_i - r_j)^2 (1 for degree 1); discriminant_root_differences_ex: such a list exists (algC is algebraically closed)',
          '[C] discriminant_flag_no_panic_partial, discriminant_partial, discriminant_det_partial, discriminant_eq0_partial: the first-wave conditional forms (kept; now subsumed)']
NOT_PROVED = []
PROFILES = ('debug', 'release')

TIMEOUT = 3600          # per service process; the extracted model computes with Coq's binary integers (slow on 64-bit coefficients)

CLAIM = dict(
    technique='Coq proofs about the Gallina model of discriminant (sign rule, degree 0/1 cases, termination, exactness of every division via the sub-resultant structure theorem of C04 and lc f | det Sylvester(f,f\'), d * lc f = (-1)^(n(n-1)/2) det Sylvester(f,f\')) + extracted-model-vs-implementation correspondence + Sylvester/Bareiss oracle and metamorphic relations on every case',
    text='For all canonical inputs of degree >= 1 (length fits a usize), both modes: discriminant returns d with d * lc f = (-1)^(n(n-1)/2) det Sylvester(f, f\') (discriminant_spec), all divisions exact, no panic, d = 0 iff f has a repeated factor, d unchanged under x -> x + c and x -> -x (discriminant_shift, discriminant_negx; the transformed polynomial is given as a second canonical list related by MathComp composition); disc(fg) = disc f disc g Res(f,g)^2 (discriminant_mul_model); d = lc(f)^(2n-2) * prod_{i<j} (r_i - r_j)^2 for the roots r_i of f in the algebraic numbers, with multiplicity (discriminant_root_differences); plus the sign rule and the zero/constant/linear cases. '
         'All identities are additionally checked by independent oracles on every generated case.',
    note='Unconditional since the second wave (exactness flag proved always true).',
    ref='DESIGN.md section 4, C05')

def o_disc(f):
    def orc(ia):
        if len(f) < 2: return None          # outside the property
        if ia.kind != 'ok': return 'discriminant(%s) did not return: %s' % (f, ia.raw[:120])
        exp = R.disc_formula(f)
        if ia.val != exp: return 'discriminant(%s) = %s, formula gives %s' % (f, ia.val, exp)
        return None
    return orc

def o_same(polys, what):
    def orc(ia):
        if ia.kind != 'ok': return 'discriminant list did not return: %s' % ia.raw[:120]
        exp = R.disc_formula(polys[0])
        if ia.val[0] != exp: return 'discriminant(%s) = %s, formula gives %s' % (polys[0], ia.val[0], exp)
        if any(v != ia.val[0] for v in ia.val): return '%s: discriminants %s differ for %s' % (what, ia.val, polys)
        return None
    return orc

def o_prod(f, g):
    def orc(ia):
        if ia.kind != 'ok': return 'disc_prod did not return: %s' % ia.raw[:120]
        df, dg, dfg, r = ia.val
        if df != R.disc_formula(f) or dg != R.disc_formula(g): return 'discriminant wrong for %s or %s: %s' % (f, g, ia.val)
        if dfg != df * dg * r * r: return 'disc(fg) = %s but disc f * disc g * Res^2 = %s (f=%s g=%s)' % (dfg, df * dg * r * r, f, g)
        return None
    return orc

NEEDS_CLI = True

def cases(rng, tier):
    th = tier == 'thorough'
    out = []
    fc = R.FlagCount('discriminant')
    cmpf = R.cmp_flagged(fc, 'discriminant')
    cmpl = R.cmp_flagged_list(fc, 'discriminant')
    def add(f, tag, prof=None):
        prof = prof or ('release' if rng.random() < 0.25 else 'debug')
        out.append(Case('discriminant', line('discriminant', f), model=line('discriminant_x', f, R.MODE[prof]), compare=cmpf,
                        oracle=o_disc(f), always_oracle=True, nontrivial=len(f) > 2, tag=tag, profile=prof))
    # exhaustive
    for f in R.small_polys(3, -2, 2): add(f, 'exhaustive-deg<=3' if len(f) > 1 else 'zero-or-constant')
    for f in R.small_polys(5 if th else 4, -1, 1):
        if len(f) >= 5: add(f, 'exhaustive-deg4-5')
    # machine-word boundaries: every coefficient at or next to +-2^31, +-2^63, +-2^64, +-2^127 (a closed form or a
    # fast path computed in i64/i128 instead of BigInt wraps in release and panics in dev exactly here), degrees 1..4
    edge = [s_ * (2 ** e + d) for e in (31, 32, 63, 64, 127) for d in (-1, 0, 1) for s_ in (1, -1)]
    for n in (1, 2, 2, 2, 3, 4):
        for _ in range(10 if not th else 60):
            f = [rng.choice(edge) if rng.random() < 0.8 else rng.randrange(-3, 4) for _ in range(n + 1)]
            if f[-1] == 0: f[-1] = rng.choice(edge)
            for prof in ('debug', 'release'): add(f, 'word-boundary-coefficients-deg%d' % n, prof)
    for e in (63, 64):
        for prof in ('debug', 'release'):
            add([2 ** e - 1, 1, 2 ** e - 1], 'word-boundary-coefficients-deg2', prof)
            add([-(2 ** e), 2 ** e - 1, 2 ** e - 1], 'word-boundary-coefficients-deg2', prof)
    # random, every residue mod 4
    for k in range(160 if not th else 2400):
        n = 1 + k % 12
        bits = rng.choice([2, 8, 32, 64])
        if not th and n > 8 and bits > 8: bits = 8
        lc = rng.choice([None, None, -1, 1, -6, 12, -(2 ** 40)])
        add(R.rpoly(rng, n, bits, lc=lc), 'random-deg-mod4=%d' % (n % 4))
    # sparse polynomials (degree gaps >= 2 in the remainder sequence of (f, f'), odd/odd degree pairs, trinomials x^n + a x^k + b)
    for k in range(120 if not th else 1200):
        n = rng.randrange(4, 13 if not th else 17)
        f = [0] * (n + 1)
        f[n] = rng.choice([1, 1, -1, 2, -3, 5])
        for _ in range(rng.choice([1, 2, 2, 3])):
            f[rng.randrange(0, n)] = rng.randrange(-9, 10)
        if f[0] == 0: f[0] = rng.choice([1, -1, 2, 7, -5])
        add(f, 'sparse-deg-mod4=%d' % (n % 4))
    # quadrinomials x^n + a x^k + b x^j + c for EVERY pair k > j >= 1 (and their translates x -> x + 1, which are dense but have
    # the same degree sequence): consecutive degree gaps >= 2 in the remainder sequence of (f, f') occur only for such shapes,
    # e.g. x^6 + a x^3 + b x + c has degrees 6, 5, 3, 1, 0
    for n in range(5, 9 if not th else 12):
        for k in range(2, n):
            for j in range(1, k):
                f = [0] * (n + 1)
                f[n] = rng.choice([1, 1, -1, 2]); f[k] = rng.choice([1, 2, -2, 3]); f[j] = rng.choice([1, -1, -2, 5]); f[0] = rng.choice([1, -1, 2, 3])
                add(f, 'quadrinomial-deg%d' % n)
                if (k + j) % 3 == 0 or th: add(R.pcompose_shift(f, rng.choice([1, -1, 2])), 'quadrinomial-translate')
    # every polynomial of degree 6 with at most three non-zero lower coefficients, all coefficients in
    # {-2,-1,1,2}: the final division of the sub-resultant algorithm by b^(deg-1) differs from a division by the last leading
    # coefficient only when the LAST step has a degree gap >= 2 with a remainder of degree >= 2 (e.g. -2x^6 + x^5 + x + 2)
    import itertools
    cnt = 0
    for size in (1, 2, 3):
        for pos in itertools.combinations(range(6), size):
            for cs in itertools.product((-2, -1, 1, 2), repeat=size + 1):
                cnt += 1
                f = [0] * 7
                f[6] = cs[0]
                for q_, c_ in zip(pos, cs[1:]): f[q_] = c_
                add(f, 'sparse-deg6-enumeration')
    # repeated factors
    for k in range(80 if not th else 800):
        h = R.rpoly(rng, rng.randrange(1, 4), rng.choice([2, 6, 20]))
        q = R.rpoly(rng, rng.randrange(0, 5), rng.choice([2, 6, 20]))
        e = rng.choice([2, 2, 3])
        f = q
        for _ in range(e): f = R.pmul(f, h)
        add(f, 'repeated-factor')
    # non-primitive / negative
    for k in range(60 if not th else 600):
        c = rng.choice([-1, -2, 3, -6, 2 ** 33, -30])
        add(R.pscale(c, R.rpoly(rng, rng.randrange(1, 9), rng.choice([3, 16]))), 'nonprimitive-negative')
    # shift / reflection invariance
    for k in range(80 if not th else 800):
        f = R.rpoly(rng, 1 + k % 8, rng.choice([2, 8, 24]))
        c = rng.choice([1, -1, 2, -3, 7, 1000, -(2 ** 20)])
        polys = [f, R.pcompose_shift(f, c), R.preflect(f), R.pcompose_shift(R.preflect(f), -c)]
        prof = 'release' if rng.random() < 0.25 else 'debug'
        out.append(Case('discriminant_list', line('discriminant_list', polys), model=line('discriminant_list', polys, R.MODE[prof]), compare=cmpl,
                        oracle=o_same(polys, 'shift/reflection'), always_oracle=True, nontrivial=len(f) > 2, tag='shift-reflect-deg-mod4=%d' % ((len(f) - 1) % 4), profile=prof))
    # disc(fg) = disc f disc g Res(f,g)^2
    for k in range(80 if not th else 800):
        f = R.rpoly(rng, rng.randrange(1, 6), rng.choice([2, 8, 24])); g = R.rpoly(rng, rng.randrange(1, 6), rng.choice([2, 8, 24]))
        if rng.random() < 0.15:          # common factor: Res(f,g) = 0 and disc(fg) = 0
            h = R.rpoly(rng, 1, 4); f = R.pmul(f, h); g = R.pmul(g, h)
        fg = R.pmul(f, g)
        prof = 'release' if rng.random() < 0.25 else 'debug'
        out.append(Case('disc_prod', line('disc_prod', f, g, fg), model=line('disc_prod', f, g, fg, R.MODE[prof]), compare=cmpl,
                        oracle=o_prod(f, g), always_oracle=True, tag='product', profile=prof))
    s = Case('discriminant', line('discriminant', [1, 1]), model=line('discriminant_x', [1, 1], R.MODE['debug']), compare=cmpf, nontrivial=False, tag='flag-count')
    fc.sentinel = s
    out.append(s)
    # --- CLI glue: `rust-number-theory <config>` with to_find = discriminant (coefficients as written, trailing zeros kept)
    def cmp_cli(ia, ma):
        if ia.kind != 'ok' or ma.kind != 'ok':
            return 'CLI %r vs model %r' % (ia.raw[:200], ma.raw[:200])
        if ia.val == Id('cli_failed'): return 'the CLI exited with an error, model %r' % ma.raw[:200]
        if ia.val != ma.val[0]: return 'CLI printed %r, model value %r' % (ia.raw[:200], ma.raw[:200])
        return None
    cli = [[37, 2, 1], [37, 2, 1, 0], [1, 0, 1, 0, 0], [-3, 2, 1], [4, 3, 2, 1], [5, 6, -7, 6, -7, 6], [1, -1, 0, 0, 1], [2, 3]]
    for _ in range(10 if not th else 60):
        cli.append([rng.randrange(-30, 31) for _ in range(rng.randrange(2, 8))] + [0] * rng.choice([0, 0, 1, 2]))
    for f in cli:
        sf = R.strip(list(f))
        if len(sf) < 2: continue
        out.append(Case('cli_discriminant', line('cli_discriminant', f), model=line('discriminant_x', f, R.MODE['debug']), compare=cmp_cli,
                        oracle=(lambda sf=sf: (lambda ia: None if ia.kind == 'ok' and ia.val == R.disc_formula(sf) else 'CLI discriminant of %s printed %s' % (sf, ia.raw[:100])))(),
                        always_oracle=True, tag='cli'))
    # the consumer Order::discriminant: many orders with the SAME stored basis (the identity: trivial_order_monic) and different
    # defining polynomials, answered one after the other by the same process (a value remembered per basis goes stale here)
    from props import c15 as C15
    from fractions import Fraction as F_
    for n in (2, 3, 4):
        I_ = [[F_(int(i_ == j_)) for j_ in range(n)] for i_ in range(n)]
        for _ in range(34 if not th else 100):
            f = [rng.randrange(-9, 10) for _ in range(n)] + [1]
            if C15.disc_poly([F_(x_) for x_ in f]) == 0: continue
            out.append(C15.disc_case([Id('triv'), f], f, C15.o_disc(I_, f, power_monic=True), True, 'consumer-order-discriminant'))
    return out
