"""Shared by c02.py / c03.py: exact integer linear algebra written from the definitions (no model, no sympy),
matrix generators for the HNF area, and the oracles of the Hermite-normal-form properties."""
import itertools
from fractions import Fraction
from math import gcd
from lib import line, Id, Case

# ------------------------------------------------------------------ exact integer linear algebra

def matmul(a, b):
    """a (p x q) * b (q x r); b non-empty"""
    if not a: return []
    r = len(b[0]) if b else 0
    return [[sum(x * b[t][j] for t, x in enumerate(row)) for j in range(r)] for row in a]

def vecmat(v, a, m):
    return [sum(v[t] * a[t][j] for t in range(len(a))) for j in range(m)]

def bareiss_det(mat):
    """determinant of a square integer matrix, fraction-free elimination (Bareiss)"""
    n = len(mat)
    if n == 0: return 1
    a = [list(r) for r in mat]
    sign = 1; prev = 1
    for c in range(n - 1):
        p = None
        for r in range(c, n):
            if a[r][c] != 0: p = r; break
        if p is None: return 0
        if p != c:
            a[p], a[c] = a[c], a[p]; sign = -sign
        for r in range(c + 1, n):
            for j in range(c + 1, n):
                a[r][j] = (a[r][j] * a[c][c] - a[r][c] * a[c][j]) // prev   # exact
            a[r][c] = 0
        prev = a[c][c]
    return sign * a[n - 1][n - 1]

def rank_q(mat, m):
    """rank over Q of an integer matrix with m columns (Gaussian elimination with Fractions kept integral by cross-multiplying)"""
    a = [list(r) for r in mat]
    n = len(a); rk = 0
    for c in range(m):
        p = None
        for r in range(rk, n):
            if a[r][c] != 0: p = r; break
        if p is None: continue
        a[p], a[rk] = a[rk], a[p]
        pv = a[rk][c]
        for r in range(rk + 1, n):
            f = a[r][c]
            if f != 0:
                g = gcd(pv, f)
                mu, la = pv // g, f // g
                a[r] = [mu * x - la * y for x, y in zip(a[r], a[rk])]
        rk += 1
        if rk == n: break
    return rk

def minors_gcd(mat, m, r):
    """gcd of all r x r minors of mat (rows x m); 0 if all vanish"""
    n = len(mat)
    g = 0
    for rows in itertools.combinations(range(n), r):
        for cols in itertools.combinations(range(m), r):
            d = bareiss_det([[mat[i][j] for j in cols] for i in rows])
            g = gcd(g, d)
            if g == 1: return 1
    return g

def pivot_col(row):
    """index of the last non-zero entry, or None"""
    for j in range(len(row) - 1, -1, -1):
        if row[j] != 0: return j
    return None

def is_hnf(h, m):
    """None if h (rows of width m) is in the row-style lower-triangular Hermite normal form of the property:
    each row's last non-zero entry is a positive pivot, pivot columns strictly increase, entries below a pivot in
    its column lie in [0, pivot).  Otherwise a description of what fails."""
    prev = -1
    piv = []
    for r, row in enumerate(h):
        if len(row) != m: return 'row %d has width %d, expected %d' % (r, len(row), m)
        p = pivot_col(row)
        if p is None: return 'row %d is zero' % r
        if row[p] <= 0: return 'row %d: last non-zero entry %d not positive' % (r, row[p])
        if p <= prev: return 'row %d: pivot column %d does not exceed previous %d' % (r, p, prev)
        prev = p; piv.append(p)
    for r, p in enumerate(piv):
        for r2 in range(r + 1, len(h)):
            if not (0 <= h[r2][p] < h[r][p]): return 'entry (%d,%d)=%d below pivot %d not in [0,pivot)' % (r2, p, h[r2][p], h[r][p])
    return None

def in_echelon_span(v, h):
    """v in the Z-span of the rows of an echelon matrix h (rows with strictly increasing last-non-zero columns,
    as verified by is_hnf): back-substitution from the last row."""
    v = list(v)
    for row in reversed(h):
        p = pivot_col(row)
        if v[p] % row[p] != 0: return False
        c = v[p] // row[p]
        if c: v = [x - c * y for x, y in zip(v, row)]
        # entries right of p in v must already be 0 for membership; checked at the end
    return all(x == 0 for x in v)

def ref_hnf(a, m):
    """Reference Hermite normal form by a different route (extended-gcd 2x2 unimodular steps), returning (H, U)
    with U*A = [0; H]; the caller re-verifies is_hnf, the product and det U = +-1, so nothing here is trusted."""
    n = len(a)
    a = [list(r) for r in a]
    u = [[1 if i == j else 0 for j in range(n)] for i in range(n)]
    k = n - 1   # row receiving the next pivot
    for i in range(m - 1, -1, -1):
        if k < 0: break
        for j in range(k):
            if a[j][i] == 0: continue
            # combine rows k and j so that a[j][i] becomes 0 and a[k][i] the gcd
            x0, x1, y0, y1, r0, r1 = 1, 0, 0, 1, a[k][i], a[j][i]
            while r1:
                q = r0 // r1
                r0, r1 = r1, r0 - q * r1
                x0, x1 = x1, x0 - q * x1
                y0, y1 = y1, y0 - q * y1
            g = r0   # = x0*a[k][i] + y0*a[j][i]
            ck, cj = a[k][i] // g, a[j][i] // g
            for M in (a, u):
                rk, rj = M[k], M[j]
                M[k] = [x0 * p + y0 * q_ for p, q_ in zip(rk, rj)]
                M[j] = [ck * q_ - cj * p for p, q_ in zip(rk, rj)]
        if a[k][i] == 0: continue
        if a[k][i] < 0:
            a[k] = [-x for x in a[k]]; u[k] = [-x for x in u[k]]
        for j in range(k + 1, n):
            q = a[j][i] // a[k][i]
            if q:
                a[j] = [x - q * y for x, y in zip(a[j], a[k])]; u[j] = [x - q * y for x, y in zip(u[j], u[k])]
        k -= 1
    return a[k + 1:], u, k + 1

def certified_hnf(a, m):
    """(H, U, k) for a with H in normal form, U*A = [0;H], |det U| = 1 -- all re-verified here (raises otherwise)."""
    h, u, k = ref_hnf(a, m)
    n = len(a)
    if is_hnf(h, m) is not None: raise AssertionError('reference hnf not in normal form')
    if matmul(u, a) != [[0] * m] * k + h: raise AssertionError('reference U*A != [0;H]')
    if abs(bareiss_det(u)) != 1: raise AssertionError('reference U not unimodular')
    return h, u, k

def same_lattice_hnf(h, a, m):
    """None if the echelon matrix h (already verified is_hnf) spans exactly the row lattice of a."""
    for t, row in enumerate(a):
        if not in_echelon_span(row, h): return 'row %d of the input is not in the span of H' % t
    hr, _, _ = certified_hnf(a, m)   # L(hr) = L(a) by the verified unimodular certificate
    for t, row in enumerate(h):
        if not in_echelon_span(row, hr): return 'row %d of H is not in the lattice of the input' % t
    return None

# ------------------------------------------------------------------ oracles on answers

def rect(a):
    return len(a) > 0 and len(a[0]) > 0 and all(len(r) == len(a[0]) for r in a)

def check_hu(a, val):
    """[H U k] for input a (n x m, n, m >= 1): every clause of C02/C03 that can be read off the triple."""
    n, m = len(a), len(a[0])
    h, u, k = val
    e = is_hnf(h, m)
    if e: return 'H not in normal form: ' + e
    if len(u) != n or any(len(r) != n for r in u): return 'U is not %d x %d' % (n, n)
    if matmul(u, a) != [[0] * m for _ in range(k)] + h: return 'U*A != [0_k ; H]'
    if abs(bareiss_det(u)) != 1: return 'det U = %d' % bareiss_det(u)
    rk = rank_q(a, m)
    if len(h) != rk: return 'H has %d rows, rank is %d' % (len(h), rk)
    if k != n - rk: return 'k = %d, n - rank = %d' % (k, n - rk)
    return None

def o_hu(a):
    def orc(ia):
        if ia.kind != 'ok': return 'hnf_with_u did not return: ' + ia.raw[:120]
        return check_hu(a, ia.val)
    return orc

def o_hu_batch(mats):
    def orc(ia):
        if ia.kind != 'ok': return 'hnf_with_u_batch did not return: ' + ia.raw[:120]
        if len(ia.val) != len(mats): return 'batch length'
        for a, v in zip(mats, ia.val):
            e = check_hu(a, v)
            if e: return '%s on %s' % (e, a)
        return None
    return orc

def check_new(a, h):
    n, m = len(a), len(a[0])
    e = is_hnf(h, m)
    if e: return 'H not in normal form: ' + e
    e = same_lattice_hnf(h, a, m)
    if e: return e
    rk = rank_q(a, m)
    if len(h) != rk: return 'H has %d rows, rank is %d' % (len(h), rk)
    return None

def o_new(a):
    def orc(ia):
        if ia.kind != 'ok': return 'HNF::new did not return: ' + ia.raw[:120]
        return check_new(a, ia.val)
    return orc

def o_pair(a, b, same):
    """a, b generate the same lattice (same=True) or are known to generate different ones (same=False)"""
    def orc(ia):
        if ia.kind != 'ok': return 'hnf_new_pair did not return: ' + ia.raw[:120]
        ha, hb, eq = ia.val
        e = check_new(a, ha) or check_new(b, hb)
        if e: return e
        if eq != (ha == hb): return 'PartialEq says %s, matrices %s' % (eq, 'equal' if ha == hb else 'differ')
        if same and ha != hb: return 'same lattice, different normal forms'
        if not same and ha == hb: return 'different lattices, same normal form'
        return None
    return orc

def o_union(a, b):
    def orc(ia):
        if ia.kind != 'ok': return 'union did not return: ' + ia.raw[:120]
        return check_new(a + b, ia.val)
    return orc

def o_det(a):
    n, m = len(a), len(a[0])
    def orc(ia):
        if ia.kind != 'ok': return 'determinant did not return: ' + ia.raw[:120]
        rk = rank_q(a, m)
        if rk == 0: exp = 1           # HNF is empty: dim = deg = 0, empty product (the property is silent here)
        elif rk < m: exp = 0
        elif n == m: exp = abs(bareiss_det(a))
        else: exp = minors_gcd(a, m, m)   # index of the lattice in Z^m
        if ia.val != exp: return 'determinant = %d, lattice index is %d' % (ia.val, exp)
        return None
    return orc

def o_dim_deg(a):
    n, m = len(a), len(a[0])
    def orc(ia):
        if ia.kind != 'ok': return 'dim/deg did not return: ' + ia.raw[:120]
        rk = rank_q(a, m)
        exp = [rk, m if rk else 0]
        if ia.val != exp: return 'dim/deg = %s, expected %s' % (ia.val, exp)
        return None
    return orc

def check_kernel(a, ker, minors=True):
    n, m = len(a), len(a[0])
    rk = rank_q(a, m)
    if len(ker) != n - rk: return 'kernel has %d rows, n - rank = %d' % (len(ker), n - rk)
    if any(len(r) != n for r in ker): return 'kernel row of wrong width'
    if ker and any(x != 0 for row in matmul(ker, a) for x in row): return 'a kernel row is not annihilated'
    if rank_q(ker, n) != len(ker): return 'kernel rows are linearly dependent'
    if minors and ker and minors_gcd(ker, n, len(ker)) != 1: return 'kernel is not saturated (gcd of maximal minors > 1)'
    return None

def o_kernel(a):
    def orc(ia):
        if ia.kind != 'ok': return 'kernel did not return: ' + ia.raw[:120]
        return check_kernel(a, ia.val)
    return orc

def o_u_ker(a):
    """[[H U k] [H' K] K']: triple clauses, K = K' = first k rows of U, H = H', kernel clauses"""
    def orc(ia):
        if ia.kind != 'ok': return 'hnf_u_ker did not return: ' + ia.raw[:120]
        (h, u, k), (h2, ker), ker2 = ia.val
        e = check_hu(a, [h, u, k])
        if e: return e
        if h2 != h: return 'hnf_with_ker and hnf_with_u give different H'
        if ker != u[:k] or ker2 != ker: return 'kernel is not the first k rows of U'
        return check_kernel(a, ker)
    return orc

def o_u_ker_batch(mats):
    def orc(ia):
        if ia.kind != 'ok': return 'hnf_u_ker_batch did not return: ' + ia.raw[:120]
        if len(ia.val) != len(mats): return 'batch length'
        for a, v in zip(mats, ia.val):
            (h, u, k), (h2, ker), ker2 = v
            e = check_hu(a, [h, u, k])
            if not e and (h2 != h or ker != u[:k] or ker2 != ker): e = 'kernel is not the first k rows of U'
            if not e: e = check_kernel(a, ker)
            if e: return '%s on %s' % (e, a)
        return None
    return orc

# ------------------------------------------------------------------ generators

def all_mats(n, m, lo, hi):
    vals = range(lo, hi + 1)
    for t in itertools.product(vals, repeat=n * m):
        yield [list(t[r * m:(r + 1) * m]) for r in range(n)]

def rand_entry(rng, bits):
    if bits <= 3: return rng.randrange(-(1 << bits), (1 << bits) + 1)
    b = rng.randrange(1, bits + 1)
    return rng.getrandbits(b) * rng.choice([1, -1])

def rand_mat(rng, n, m, bits):
    return [[rand_entry(rng, bits) for _ in range(m)] for _ in range(n)]

def rand_unimodular(rng, n, steps=None, cbits=3):
    """product of random elementary operations applied to the identity"""
    t = [[1 if i == j else 0 for j in range(n)] for i in range(n)]
    for _ in range(steps if steps is not None else 3 * n):
        op = rng.randrange(3)
        i = rng.randrange(n); j = rng.randrange(n)
        if op == 0 and i != j: t[i], t[j] = t[j], t[i]
        elif op == 1: t[i] = [-x for x in t[i]]
        elif i != j:
            c = rand_entry(rng, cbits)
            t[i] = [x + c * y for x, y in zip(t[i], t[j])]
    return t

def planted_rank(rng, n, m, r, bits, cbits=3):
    """n x m of rank <= r: r random rows, the others integer combinations of them, then shuffled"""
    base = rand_mat(rng, r, m, bits)
    rows = [list(x) for x in base]
    for _ in range(n - r):
        c = [rand_entry(rng, cbits) for _ in range(r)]
        rows.append([sum(c[t] * base[t][j] for t in range(r)) for j in range(m)])
    rng.shuffle(rows)
    return rows

def gcd_column(rng, n, bits):
    """single column whose entries share a planted gcd (the hnf_terminates shape)"""
    g = rng.getrandbits(rng.randrange(1, max(2, bits // 2))) + 1
    return [[g * rand_entry(rng, bits // 2 + 1)] for _ in range(n)]

def with_zero_cols(rng, a, m_extra):
    """insert zero columns at random positions"""
    m = len(a[0])
    pos = sorted(rng.sample(range(m + m_extra), m_extra))
    out = []
    for row in a:
        it = iter(row); out.append([0 if j in pos else next(it) for j in range(m + m_extra)])
    return out

def structured_mats(rng, count, maxdim, bits_choices):
    """mixed stream of structured matrices with a tag each"""
    out = []
    for _ in range(count):
        n = rng.randrange(1, maxdim + 1); m = rng.randrange(1, maxdim + 1)
        bits = rng.choice(bits_choices)
        kind = rng.randrange(8)
        if kind == 0:
            out.append(('random', rand_mat(rng, n, m, bits)))
        elif kind == 1:
            r = rng.randrange(0, min(n, m) + 1)
            out.append(('planted-rank', planted_rank(rng, n, m, r, bits)))
        elif kind == 2:
            a = rand_mat(rng, n, m, bits)
            for _ in range(rng.randrange(1, 3)): a.insert(rng.randrange(len(a) + 1), [0] * m)
            out.append(('zero-rows', a))
        elif kind == 3:
            a = with_zero_cols(rng, rand_mat(rng, n, m, bits), rng.randrange(1, 3))
            out.append(('zero-cols', a))
        elif kind == 4:
            out.append(('gcd-column', gcd_column(rng, rng.randrange(1, maxdim + 2), bits)))
        elif kind == 5:
            # sparse, many zeros and +-1
            out.append(('sparse', [[rng.choice([0, 0, 0, 1, -1, rand_entry(rng, bits)]) for _ in range(m)] for _ in range(n)]))
        elif kind == 6:
            # already triangular / diagonal / negative pivots
            a = [[0] * m for _ in range(n)]
            for i in range(n):
                for j in range(m):
                    if j <= i * m // max(1, n): a[i][j] = rand_entry(rng, bits)
            out.append(('triangular', a))
        else:
            # duplicated and negated rows
            a = rand_mat(rng, max(1, n // 2), m, bits)
            a = a + [[-x for x in r] for r in a] + [list(a[0])]
            rng.shuffle(a)
            out.append(('dup-rows', a))
    return out

RAGGED = [
    [[1, 2], [3]], [[1], [2, 3]], [[1, 2], [3, 4, 5]], [[1, 2, 3], [4, 5]], [[0, 0], [0]], [[0], [0, 0]],
    [[1, 2], []], [[], [1, 2]], [[2, 0], [0, 3], [1]], [[1], [0, 3], [2, 0]], [[0, 1], [1, 0], [0, 0, 7]],
    [[4, 6], [6, 9, 1]], [[6, 9, 1], [4, 6]], [[0, 0, 1], [0, 1], [1]], [[1], [0, 1], [0, 0, 1]],
    [[5, 0, 0], [0, 5], [0, 0, 5]], [[3, 1], [1, 1], [2]], [[3, 1], [1, 1, 9], [2, 2]], [[1, 1, 9], [3, 1], [2, 2]],
]
DEGENERATE = [[], [[]], [[], []], [[], [], []], [[0]], [[1]], [[-1]], [[0, 0]], [[0], [0]], [[0, 0], [0, 0]], [[-5]], [[0, -3]],
              [[-3, 0]], [[2], [-2]], [[0, 0, 0], [0, 0, 0], [0, 0, 0]]]
