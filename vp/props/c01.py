"""C01 integer factorisation: ECM (sequential and batched), work-stack drivers, trial division."""
import json, math, os, subprocess
import lib
from lib import line, Id, Case, default_compare

PROFILES = ('debug', 'release')
TIMEOUT = 2400
CF = 4000          # curve fuel handed to the model (curves per call of ecm); the code has no bound

RULE = ('point_add/point_mul/point_simplify/many_*: exhaustive over tiny moduli + random (negative and huge coordinates, '
        'n <= 0, zero z, non-invertible z); ecm_oneshot(_parallel): all (a,x,y) for n <= 12 (quick) / 25 (thorough), random n <= 400 '
        'and up to 2^64, b1 in 0..30 and the u64 edges, both profiles; ecm/ecm_par and the two drivers with seeded scripted draws on '
        'every n <= 1500 (quick) / 5000 (thorough), prime powers, 2^a*m, semiprimes, smooth x rough up to 2^64+, n = 1, n <= 0, '
        'adversarial all-zero draw scripts; non-trivial = composite and not a prime power (drivers), a divisor or infinity reached (oneshot)')
PROVED = [
    '[P] ecm_divisor_sound / ecm_parallel_divisor_sound: for all n > 1, b1, b2, profile, draw stream and curve budget, a returned d satisfies 1 < d < n and d | n',
    '[P] driver_exact / driver_parallel_exact: a returned list has strictly increasing bases, exponents > 0, product exactly x, every base accepted by is_prime on some draws; [] for x = 1 (driver_one); x <= 0 is Panic POther (driver_nonpos)',
    '[C] driver_prime_factorisation_partial: if the accepted bases are prime, the list contains exactly the prime divisors of x (with the exact product: the prime factorisation); driver_unique_factorisation_partial: it equals every other strictly increasing prime-power list with product x (uniqueness proved)',
    '[P] oneshot_no_overflow / oneshot_parallel_no_overflow / no_overflow_panic(_parallel): dev profile, 0 <= b1 <= 2^64-2 and b2 <= 2^64-7 (drivers: 100*b1 <= 2^64-7): no overflow panic from the stage-2 start values, cur_e += 6 or 1..b1+1; sharp in b1 (oneshot_overflow_b1_max)',
    '[P] many_simplify_spec: for n > 0 the batched inversion returns inf for z = 0 and otherwise a z = 1 point whose coordinates are congruent mod n to those of the sequential simplify (which then never reports a divisor)',
    '[P] many_simplify_exact: if all z >= 0 the batched result is literally the sequential one (for negative z only congruent: example many_simplify_negative_z_representative)',
    '[P, refutation] driver_all_draws_refuted / driver_dev_assert_refuted: with all Miller-Rabin bases 1 the drivers return 9^1; in the dev profile the repeated is_prime inside debug_assert! can panic on 15 (witness streams replayed on the real code)',
]
NOT_PROVED = ['termination / success probability of the curve loop (Hasse-interval smoothness); OutOfFuel is excluded in every statement',
              'rfactor / main argument parsing and printing (covered by correspondence only: output of the binary parsed back and compared with the library run on the same draws)',
              'select_b (f64 ln/exp/sqrt): B1 is supplied to the model by the code; parallel_count = (b1 as f64).sqrt() is taken as the integer square root and checked through the draw count',
              'primality of the accepted bases for all draws (false, see driver_all_draws_refuted; probabilistic bound is C13)',
              'fuel sufficiency of extgcd inside many_simplify_spec is not needed (statement is relative to a returning simplify)']

CLAIM = dict(
    technique='Coq proof about the hand-written Gallina model of ecm.rs / ecm_parallel.rs (coq/Model/Ecm.v, EcmParallel.v over Elementary.inv/is_prime/perfect_power) + extracted-model-vs-implementation correspondence in both cargo profiles with the draw stream replayed byte for byte',
    text='For every n, B1, B2, build profile, draw stream and curve budget: what ecm returns is a proper divisor; what the work-stack drivers return is strictly increasing, has positive exponents, multiplies exactly to n and consists of numbers accepted by the Miller-Rabin test; no overflow panic in the dev profile for 100*B1 <= 2^64-7; the batched inversion agrees with the sequential one. The model is tied to /repo by running both on the same inputs (exhaustive tiny moduli, every n <= 1500/5000 through both drivers in both profiles, prime powers, 2^a*m, semiprimes, smooth x rough up to 2^64+, u64 edges of B1).',
    note='Primality of the returned bases holds only with the Miller-Rabin error probability (C13): the all-draws reading is refuted by a witness stream on model and code alike. Termination of the curve loop is not proved. select_b and the f64 square root are not modelled (values taken from the code).',
    ref='DESIGN.md section 4, C01')

# ---------------------------------------------------------------- arithmetic for the oracles

SMALL_PRIMES = [2, 3, 5, 7, 11, 13, 17, 19, 23, 29, 31, 37, 41]

def is_prime_det(n):
    """Deterministic: trial division below 2^20, else Miller-Rabin with the first 13 prime bases (exact below 3.3e24)."""
    if n < 2: return False
    for p in SMALL_PRIMES:
        if n % p == 0: return n == p
    if n < 1 << 20:
        d = 43
        while d * d <= n:
            if n % d == 0: return False
            d += 2
        return True
    assert n < 3 * 10 ** 24
    d, s = n - 1, 0
    while d % 2 == 0: d //= 2; s += 1
    for a in SMALL_PRIMES:
        x = pow(a, d, n)
        if x in (1, n - 1): continue
        for _ in range(s - 1):
            x = x * x % n
            if x == n - 1: break
        else:
            return False
    return True

def o_fact(n):
    """Oracle for a driver answer [ret [[[p e]...] b1 count] log]."""
    def orc(ia):
        if ia.kind != 'ok': return 'factorize(%d) did not return: %s' % (n, ia.raw[:120])
        v = ia.val
        if v[0] == 'panic':
            return None if n <= 0 and v[1] == 'other' else 'factorize(%d) panicked (%s)' % (n, v[1])
        if n <= 0: return 'factorize(%d) returned instead of the documented panic' % n
        l = v[1][0]
        prod = 1; last = 0
        for p, e in l:
            if p <= last: return 'factorize(%d): bases not strictly increasing: %s' % (n, l)
            if e <= 0: return 'factorize(%d): exponent %d' % (n, e)
            if not is_prime_det(p): return 'factorize(%d): base %d is not prime' % (n, p)
            prod *= p ** e; last = p
        if prod != n: return 'factorize(%d): product is %d' % (n, prod)
        return None
    return orc

def o_ecm(n):
    def orc(ia):
        if ia.kind != 'ok': return 'ecm(%d) did not return: %s' % (n, ia.raw[:120])
        v = ia.val
        if v[0] == 'panic': return 'ecm(%d) panicked (%s)' % (n, v[1])
        d = v[1][0]
        if not (1 < d < n and n % d == 0): return 'ecm(%d) returned %d' % (n, d)
        return None
    return orc

def o_trial(n):
    def orc(ia):
        if ia.kind != 'ok': return None if n < 1 else 'trial(%d): %s' % (n, ia.raw[:100])
        prod = 1; last = 0
        for p, e in ia.val:
            if p <= last or e <= 0 or not is_prime_det(p): return 'trial(%d) = %s' % (n, ia.val)
            prod *= p ** e; last = p
        return None if prod == n else 'trial(%d): product %d' % (n, prod)
    return orc

def cmp_rand(ia, ma):
    """impl: [ret value log] | [panic class log]; model: [ret value remaining exhausted] | [panic class]."""
    if ia.kind != 'ok' or ma.kind != 'ok':
        return default_compare(ia, ma)
    iv, mv = ia.val, ma.val
    if iv[0] != mv[0]: return 'implementation %r vs model %r' % (ia.raw[:200], ma.raw[:200])
    if iv[0] == 'panic':
        return None if iv[1] == mv[1] else 'panic class: implementation %s vs model %s' % (iv[1], mv[1])
    if iv[1] != mv[1]: return 'implementation %r vs model %r' % (ia.raw[:200], ma.raw[:200])
    if mv[2] != 0 or mv[3] is not False:
        return 'model did not consume exactly the logged draws (remaining %s, exhausted %s)' % (mv[2], mv[3])
    return None

MODE = {'debug': Id('checked'), 'release': Id('wrapping')}

def c_ecm(op, n, b1, b2, seed, script, prof, tag, nontrivial=True, oracle=True):
    def ml(ia):
        if ia.kind != 'ok': return None
        return line(op, n, b1, b2, MODE[prof], ia.val[-1], CF)
    return Case(op, line(op, n, b1, b2, seed, script), model=ml, compare=cmp_rand, oracle=o_ecm(n) if oracle else None,
                nontrivial=nontrivial, tag=tag, profile=prof)

def c_fact(op, n, seed, script, prof, tag, nontrivial=True, oracle=True):
    def ml(ia):
        if ia.kind != 'ok': return None
        b1 = ia.val[1][1] if ia.val[0] == 'ret' else 4
        return line(op, n, b1, MODE[prof], ia.val[-1], CF)
    return Case(op, line(op, n, seed, script), model=ml, compare=cmp_rand, oracle=o_fact(n) if oracle else None,
                nontrivial=nontrivial, tag=tag, profile=prof)

def c_shot(pt, a, n, b1, b2, prof, tag):
    return Case('ecm_oneshot', line('ecm_oneshot', pt, a, n, b1, b2, MODE[prof]), tag=tag, profile=prof)

def c_pshot(pas, n, b1, b2, prof, tag):
    return Case('ecm_oneshot_parallel', line('ecm_oneshot_parallel', pas, n, b1, b2, MODE[prof]), tag=tag, profile=prof)

def rand_prime(rng, bits):
    while True:
        p = rng.getrandbits(bits) | (1 << (bits - 1)) | 1
        if is_prime_det(p): return p

_pb = {}
def primes_below(k):
    if k not in _pb: _pb[k] = [p for p in range(2, k) if is_prime_det(p)]
    return _pb[k]

def iroot(n, k):
    lo, hi = 0, 1 << (n.bit_length() // k + 1)
    while lo < hi:
        mid = (lo + hi + 1) // 2
        if mid ** k <= n: lo = mid
        else: hi = mid - 1
    return lo

def trivial_n(n):
    """1, prime or prime power: the driver never calls ecm"""
    if n < 4: return True
    for k in range(1, n.bit_length() + 1):
        r = iroot(n, k)
        if r ** k == n and is_prime_det(r): return True
    return False

# ---------------------------------------------------------------- the rfactor command line
# Built from /repo's working tree into OUR target directory (never into /repo), dev profile, with the
# verif-hooks feature: the scripted generator then starts from its fixed default state, so a run of the
# binary draws exactly what `ecmpar_factorize n CLI_SEED []` draws in impl_svc, which the model replays.
CLI_SEED = 0x9E3779B97F4A7C15
CLI_DIR = os.path.join(lib.HARNESS, 'target', 'repo-bins')
CLI_BIN = os.path.join(CLI_DIR, 'debug', 'rfactor')
MAIN_BIN = os.path.join(CLI_DIR, 'debug', 'rust-number-theory')

def build_cli():
    with lib.Lock('cargo'):
        rc, out = lib.sh('cargo build --offline --locked --manifest-path %s/Cargo.toml --bin rfactor --bin rust-number-theory --features verif-hooks '
                         '--target-dir %s 2>&1' % (lib.REPO, CLI_DIR), timeout=1800)
    return None if rc == 0 else out[-1500:]

_HANGS = [0]

def run_cli(n, js):
    """js: True = rfactor --json, False = rfactor, 'main' = rust-number-theory <config with to_find = factorization>.
    -> ('ok', [[p, e]...]) | ('panic', message) | ('bad', text) | ('hang', text)"""
    env = dict(os.environ, RUST_BACKTRACE='0')
    # a binary that does not answer is a result (C01 claims termination), not a crash of the check; after two
    # hangs the remaining command-line cases get a short limit so that the run still ends in minutes
    limit = 120 if _HANGS[0] < 2 else 15
    try:
        if js == 'main':
            import tempfile
            with tempfile.NamedTemporaryFile('w', suffix='.toml', delete=False) as f:
                f.write('to_find = ["factorization"]\n\n[input]\ninteger = "%d"\n' % n)
            try:
                p = subprocess.run([MAIN_BIN, f.name], stdout=subprocess.PIPE, stderr=subprocess.PIPE, text=True, timeout=limit, env=env)
            finally:
                os.unlink(f.name)
        else:
            args = [CLI_BIN] + (['--json'] if js else []) + ['--', str(n)]
            p = subprocess.run(args, stdout=subprocess.PIPE, stderr=subprocess.PIPE, text=True, timeout=limit, env=env)
    except subprocess.TimeoutExpired:
        _HANGS[0] += 1
        return ('hang', 'no answer within %d s' % limit)
    if p.returncode != 0:
        return ('panic', p.stderr.strip().replace('\n', ' ')[:200])
    try:
        if js == 'main':
            obj = json.loads(p.stdout)      # {"p": e, ...}: an object, key order carries no meaning
            return ('ok', sorted([int(k), int(v)] for k, v in obj.items()))
        if js:
            obj = json.loads(p.stdout)
            return ('ok', [[int(e['p']), int(e['e'])] for e in obj['entries']])
        toks = [int(t) for t in p.stdout.split()]
        l = []
        for t in toks:
            if l and l[-1][0] == t: l[-1][1] += 1
            else: l.append([t, 1])
        return ('ok', l)
    except Exception as e:
        return ('bad', p.stdout[:200])

def c_cli(n, js, tag):
    kind, val = run_cli(n, js)
    op = 'ecm_factorize' if js == 'main' else 'ecmpar_factorize'      # main.rs calls ecm::factorize, rfactor the batched driver
    name = 'rust-number-theory' if js == 'main' else 'rfactor --json' if js else 'rfactor'
    def ml(ia):
        if ia.kind != 'ok': return None
        b1 = ia.val[1][1] if ia.val[0] == 'ret' else 4
        return line(op, n, b1, MODE['debug'], ia.val[-1], CF)
    def cmp(ia, ma):
        d = cmp_rand(ia, ma)
        if d: return d
        if ia.val[0] == 'panic':
            return None if kind == 'panic' and 'x <= 0' in val else 'rfactor %d: %s %s, library panicked' % (n, kind, val)
        if kind != 'ok' or val != ia.val[1][0]:
            return '%s %d printed %s %s, library with the same draws returned %s' % (name, n, kind, val, ia.val[1][0])
        return None
    def orc(ia):
        if kind == 'panic': return None if n <= 0 else 'rfactor %d panicked: %s' % (n, val)
        if kind == 'hang': return '%s %d does not terminate: %s' % (name, n, val)
        if kind != 'ok': return 'rfactor %d: unparsable output %r' % (n, val)
        class A: pass
        a = A(); a.kind = 'ok'; a.val = [Id('ret'), [val, 0, 0], []]; a.raw = str(val)
        return o_fact(n)(a)
    return Case(name.split()[0], line(op, n, CLI_SEED, []), model=ml, compare=cmp, oracle=orc,
                nontrivial=not trivial_n(n) if n > 0 else False, tag=tag, profile='debug',
                note='%s %d' % (name, n))

def cases(rng, tier):
    th = tier == 'thorough'
    out = []
    profs = ('debug', 'release')

    # ------------------------------------------------------------ point_add / point_simplify, tiny moduli exhaustively
    NA = 5 if not th else 7
    for n in range(1, NA + 1):
        for a in range(n):
            for x1 in range(n):
                for y1 in range(n):
                    for x2 in range(n):
                        for y2 in range(n):
                            out.append(Case('point_add', line('point_add', [x1, y1, 1], [x2, y2, 1], a, n), tag='add-exhaustive',
                                            nontrivial=n > 1))
    for n in range(1, 13 if not th else 26):
        for z in range(-n, n + 1):
            x = rng.randrange(n); y = rng.randrange(n)
            out.append(Case('point_simplify', line('point_simplify', [x, y, z], 1, n), tag='simplify-small'))
    def rpoint(n, wild):
        if n <= 0: n = 7
        if rng.random() < 0.12: return [0, 1, 0]
        if wild:
            return [rng.randrange(-3 * n, 3 * n), rng.randrange(-3 * n, 3 * n), rng.choice([1, 1, 0, rng.randrange(-n, n + 1), rng.randrange(-n * n, n * n + 1)])]
        return [rng.randrange(n), rng.randrange(n), 1]
    def rmod(big):
        if big: return rng.getrandbits(rng.choice([16, 32, 64, 80, 128])) + 2
        return rng.randrange(2, 400)
    for i in range(700 if not th else 6000):
        n = rmod(i % 4 == 0)
        wild = rng.random() < 0.4
        p = rpoint(n, wild); q = rpoint(n, wild)
        r = rng.random()
        if r < 0.2: q = list(p)                                   # doubling branch
        elif r < 0.3: q = [p[0], (-p[1]) % n, p[2]]               # y1 + y2 = 0 mod n
        elif r < 0.35: q = [p[0], -p[1], p[2]]
        a = rng.randrange(-n, 2 * n)
        out.append(Case('point_add', line('point_add', p, q, a, n), tag='add-random'))
        if i % 3 == 0:
            e = rng.choice([0, 1, 2, 3, 6, -1, -7, rng.randrange(1, 50), rng.getrandbits(20), rng.getrandbits(70)])
            out.append(Case('point_mul', line('point_mul', p, e, a, n), tag='mul-random'))
        if i % 5 == 0:
            out.append(Case('point_simplify', line('point_simplify', rpoint(n, True), a, n), tag='simplify-random'))
    # outside the intended domain (n <= 0): the model must still agree with the code
    for n in (0, -1, -7, -15):
        for _ in range(12):
            p = rpoint(9, True); q = rpoint(9, True)
            if rng.random() < 0.3: q = list(p)
            out.append(Case('point_add', line('point_add', p, q, rng.randrange(-5, 9), n), nontrivial=False, tag='add-outside'))
            out.append(Case('point_simplify', line('point_simplify', p, 1, n), nontrivial=False, tag='simplify-outside'))
            out.append(Case('point_mul', line('point_mul', p, rng.randrange(0, 9), 2, n), nontrivial=False, tag='mul-outside'))

    # ------------------------------------------------------------ batched primitives
    for n in range(1, 7 if not th else 10):
        for z1 in range(-n, n + 1):
            for z2 in range(-n, n + 1):
                pts = [[rng.randrange(n), rng.randrange(n), z1], [rng.randrange(n), rng.randrange(n), z2]]
                out.append(Case('many_simplify', line('many_simplify', pts, n), tag='msimplify-small'))
    for i in range(500 if not th else 5000):
        n = rmod(i % 4 == 0) if i % 25 else rng.choice([0, 1, -3, -10])
        k = rng.choice([0, 1, 1, 2, 3, 4, 6])
        wild = rng.random() < 0.5
        pts = [rpoint(n, True) for _ in range(k)]
        out.append(Case('many_simplify', line('many_simplify', pts, n), tag='msimplify-random', nontrivial=n > 1))
        trip = []
        for _ in range(k):
            p = rpoint(n, wild); q = rpoint(n, wild)
            r = rng.random()
            if r < 0.25: q = list(p)
            elif r < 0.35 and n > 0: q = [p[0], (-p[1]) % n, p[2]]
            trip.append([p, q, rng.randrange(0, abs(n) + 2)])
        out.append(Case('many_adds', line('many_adds', trip, n), tag='madds-random', nontrivial=n > 1))
        if i % 2 == 0:
            e = rng.choice([0, 1, 2, 3, 5, 8, -2, rng.randrange(1, 40), rng.getrandbits(40)])
            out.append(Case('many_muls', line('many_muls', [[t[0], t[2]] for t in trip], e, n), tag='mmuls-random', nontrivial=n > 1))

    # ------------------------------------------------------------ ecm_oneshot: the workhorse
    NX = 12 if not th else 25
    for n in range(1, NX + 1):
        for a in range(n):
            for x in range(n):
                for y in range(n):
                    prof = profs[(a + x + y + n) % 2]
                    b1, b2 = ((4, 400), (3, 30), (5, 60), (6, 13))[(a + 2 * x + 3 * y) % 4]
                    out.append(c_shot([x, y, 1], a, n, b1, b2, prof, 'oneshot-exhaustive'))
    B1S = [0, 1, 2, 3, 4, 4, 5, 6, 7, 11, 12, 13, 30]
    for n in range(2, 401):
        for j in range(2 if not th else 8):
            a, x, y = (rng.randrange(n) for _ in range(3))
            b1 = rng.choice(B1S); b2 = rng.choice([0, b1, 6 * b1 + 1, 100 * b1, 100 * b1])
            prof = profs[(n + j) % 2]
            out.append(c_shot([x, y, 1], a, n, b1, b2, prof, 'oneshot-small'))
            if j % 2 == 0:
                k = rng.choice([1, 2, 3])
                pas = [[[rng.randrange(n), rng.randrange(n), 1], rng.randrange(n)] for _ in range(k)]
                out.append(c_pshot(pas, n, b1, b2, prof, 'poneshot-small'))
    for i in range(200 if not th else 1000):
        p = rng.choice(primes_below(60)); q = rand_prime(rng, rng.choice([12, 20, 32, 50, 64]))
        n = p * q * rng.choice([1, 1, 2, 3])
        a, x, y = (rng.randrange(n) for _ in range(3))
        b1 = rng.choice([4, 7, 12, 20]); b2 = rng.choice([b1, 20 * b1])
        prof = profs[i % 2]
        out.append(c_shot([x, y, 1], a, n, b1, b2, prof, 'oneshot-large'))
        pas = [[[rng.randrange(n), rng.randrange(n), 1], rng.randrange(n)] for _ in range(rng.choice([1, 2, 3]))]
        out.append(c_pshot(pas, n, b1, b2, prof, 'poneshot-large'))
    # u64 edges of b1 / b2: `b1 + 1` overflows for b1 = 2^64 - 1 (dev: panic; release: empty stage 1, start values 2^64-3 and 5)
    M = 2 ** 64
    for prof in profs:
        for n, a, x, y in [(91, 5, 1, 1), (35, 2, 3, 4), (455839, 5, 1, 1), (77, 1, 2, 3)]:
            out.append(c_shot([x, y, 1], a, n, M - 1, 10, prof, 'oneshot-u64-edge'))
            out.append(c_shot([x, y, 1], a, n, M - 1, 0, prof, 'oneshot-u64-edge'))
            out.append(c_pshot([[[x, y, 1], a]], n, M - 1, 10, prof, 'poneshot-u64-edge'))
            out.append(c_pshot([], n, 0, 0, prof, 'poneshot-empty'))
            out.append(c_pshot([], n, 3, 30, prof, 'poneshot-empty'))

    # ------------------------------------------------------------ ecm / ecm_par with replayed draws
    comp = [n for n in range(4, 400 if not th else 1500) if not trivial_n(n)]
    for i, n in enumerate(comp):
        prof = profs[i % 2]
        b1 = rng.choice([1, 2, 3, 4, 4, 4, 5, 9, 16])
        seed = rng.getrandbits(63)
        out.append(c_ecm('ecm', n, b1, 100 * b1, seed, [], prof, 'ecm-small'))
        out.append(c_ecm('ecm_par', n, b1, 100 * b1, seed, [], prof, 'ecmpar-small'))
    # ecm on inputs outside its contract: primes (dev: debug assertion; release would not terminate: not run), n <= 1
    for n in (2, 3, 7, 13, 97):
        out.append(c_ecm('ecm', n, 4, 400, 5, [], 'debug', 'ecm-prime-dev-assert', nontrivial=False, oracle=False))
        out.append(c_ecm('ecm_par', n, 4, 400, 5, [], 'debug', 'ecm-prime-dev-assert', nontrivial=False, oracle=False))
    for n in (1, 0, -6):
        for prof in profs:
            out.append(c_ecm('ecm', n, 4, 400, 5, [], prof, 'ecm-outside', nontrivial=False, oracle=False))
            out.append(c_ecm('ecm_par', n, 4, 400, 5, [], prof, 'ecm-outside', nontrivial=False, oracle=False))
    for prof in profs:   # parallel_count = 0: index panic in many_adds
        out.append(c_ecm('ecm_par', 15, 0, 0, 5, [], prof, 'ecmpar-b1-0', nontrivial=False, oracle=False))

    # ------------------------------------------------------------ the drivers
    NF = 1500 if not th else 5000
    for n in range(1, NF + 1):
        seed = rng.getrandbits(63)
        nt = not trivial_n(n)
        # both drivers x both profiles on every n
        for k, op in enumerate(('ecm_factorize', 'ecmpar_factorize')):
            for prof in profs:
                out.append(c_fact(op, n, seed, [], prof, op + ('-composite' if nt else '-primepower'), nontrivial=nt))
    def both(n, tag, i=0):
        seed = rng.getrandbits(63)
        for k, op in enumerate(('ecm_factorize', 'ecmpar_factorize')):
            out.append(c_fact(op, n, seed, [], profs[(i + k) % 2], op + '-' + tag, nontrivial=not trivial_n(n)))
    i = 0
    for p in primes_below(40) + [rand_prime(rng, b) for b in (10, 16, 24, 33, 48, 64, 70)]:
        for k in ([1, 2, 3, 5, 8] if p < 40 else [1, 2, 3]):
            i += 1
            n = p ** k
            seed = rng.getrandbits(63)
            for kk, op in enumerate(('ecm_factorize', 'ecmpar_factorize')):
                out.append(c_fact(op, n, seed, [], profs[(i + kk) % 2], op + '-primepower-large', nontrivial=False))
    for _ in range(80 if not th else 400):      # 2^a * m
        i += 1
        both(2 ** rng.randrange(1, 40) * rng.choice([3, 5, 9, 15, 21, 49, 77, 1001, rng.randrange(3, 2000, 2)]), 'pow2-times-m', i)
    for _ in range(80 if not th else 800):      # semiprimes with one small factor, cofactor up to 2^64+
        i += 1
        both(rng.choice(primes_below(200)) * rand_prime(rng, rng.choice([12, 20, 31, 40, 53, 64, 66])), 'semiprime-unbalanced', i)
    for _ in range(60 if not th else 600):      # balanced semiprimes (small enough for the extracted model)
        i += 1
        b = rng.choice([6, 8, 10, 11, 13, 16] if not th else [6, 8, 10, 11, 13, 16, 18, 20, 22])
        both(rand_prime(rng, b) * rand_prime(rng, b), 'semiprime-balanced', i)
    for _ in range(80 if not th else 800):      # smooth x rough
        i += 1
        sm = 1
        for _ in range(rng.randrange(1, 6)): sm *= rng.choice(primes_below(30))
        both(sm * rand_prime(rng, rng.choice([16, 30, 44, 60, 65])), 'smooth-x-rough', i)
    # Carmichael numbers (Chernick triples (6k+1)(12k+1)(18k+1) with three prime factors): a primality test weakened to a
    # Fermat test accepts them for almost every base, the drivers would then return [(n,1)]; the factors are small enough
    # (10-22 bits) for ECM with the selected B1 to split n quickly in the extracted model too
    cher = []
    k = 1
    while len(cher) < (6 if not th else 30) and k < 400000:
        a, b, c = 6 * k + 1, 12 * k + 1, 18 * k + 1
        if k > 150 and is_prime_det(a) and is_prime_det(b) and is_prime_det(c): cher.append(a * b * c)
        k += 1 if len(cher) < 3 else 97
    for n in cher:
        i += 1
        both(n, 'carmichael-large-factors', i)
    # very large n (1450-1800 bits): select_b grows with the bit length and B2 = 100 * B1 approaches 2^64 -- the u64 arithmetic
    # of the drivers must not overflow in the dev profile. The extracted model is far too slow on 1500-bit numbers (floor
    # roots for every exponent), so these cases are decided by the independent oracle on the implementation alone.
    for n in (2 * 3 ** 950, 6 * 5 ** 700, 3 * 2 ** 1500, 2 ** 1471 * 7, 10 * 3 ** 1000):
        for prof in profs:
            out.append(Case('ecm_factorize', line('ecm_factorize', n, 12345, []), model=lib.IMPL_ONLY, oracle=o_fact(n), always_oracle=True,
                            tag='ecm_factorize-huge-n', profile=prof, nontrivial=True))
    # KNOWN FINDING D14 (known_findings.json): the batched driver does not return on such n (4*10^8 curves allocated up front);
    # one instance is kept so that the finding stays visible (reported as KNOWN-FINDING, not as a violation)
    out.append(Case('ecmpar_factorize', line('ecmpar_factorize', 2 * 3 ** 950, 12345, []), model=lib.IMPL_ONLY, oracle=o_fact(2 * 3 ** 950),
                    always_oracle=True, tag='ecmpar_factorize-huge-n-known-finding', profile='debug', nontrivial=True))
    for n in (1, 0, -1, -91, -2 ** 70):
        for prof in profs:
            for op in ('ecm_factorize', 'ecmpar_factorize'):
                out.append(c_fact(op, n, 1, [], prof, op + '-n<=1', nontrivial=False))

    # adversarial draw scripts. All-zero bytes make every Miller-Rabin base 1, which every odd n passes:
    # the drivers then return [(n,1)] for odd composite n (theorem driver_all_draws_refuted). This is the
    # property's wording ("whatever ... bases the generator draws") being false of the code, not a model artefact;
    # the oracle is NOT attached to these cases so that the documented limit does not mask real defects elsewhere.
    Z80 = [0] * 400
    for n in (9, 15, 21, 91, 561, 1105):
        for prof in profs:
            for op in ('ecm_factorize', 'ecmpar_factorize'):
                out.append(c_fact(op, n, 3, Z80, prof, 'adversarial-zero-draws', oracle=False))
    # first primality test sees the witness 2 (script byte 0x10 in the top nibble of the first u32), the repeated test inside
    # the dev-profile debug_assert!(!is_prime(n)) sees only base 1: dev build panics, release goes on
    for n in (15,):
        for prof in profs:
            for op in ('ecm_factorize', 'ecmpar_factorize'):
                out.append(c_fact(op, n, 3, [0, 0, 0, 0x10] + [0] * 80, prof, 'adversarial-debug-assert', oracle=False))

    # ------------------------------------------------------------ parallel_count = (b1 as f64).sqrt() as usize vs the integer square root
    # MODEL LIMIT (not a defect of the code): the model takes Z.sqrt b1; the two agree for b1 < 2^52 (f64 holds b1 exactly and
    # the correctly rounded sqrt cannot reach the next integer); above, e.g. b1 = 2^64 - 1, the f64 value is 2^32 and the integer
    # root 2^32 - 1. select_b stays below 2^52 for every n of fewer than ~1000 bits, so only that range is compared.
    pcs = set(range(0, 300))
    for _ in range(300 if not th else 3000):
        k = rng.randrange(1, 2 ** 26)
        pcs.update([k * k - 1, k * k, k * k + 1, rng.randrange(2 ** 52)])
    pcs.update([2 ** 52 - 1, (2 ** 26 - 1) ** 2, (2 ** 26 - 1) ** 2 - 1])
    for b in sorted(pcs):
        if b < 2 ** 52: out.append(Case('par_count', line('par_count', b), tag='par_count', nontrivial=b > 3))

    # ------------------------------------------------------------ rfactor <n> and rfactor --json <n>, output parsed back
    err = build_cli()
    if err is not None:
        out.append(Case('rfactor', line('ping', Id('rfactor-build-failed')), model=line('ping', Id('ok')), tag='cli-build', note=err))
    else:
        ns = list(range(-1, 61 if not th else 400))
        for _ in range(25 if not th else 150):
            ns.append(rng.choice(primes_below(100)) * rand_prime(rng, rng.choice([10, 20, 33, 64])))
            ns.append(2 ** rng.randrange(1, 30) * rng.randrange(3, 3000, 2))
            b = rng.choice([6, 9, 12]); ns.append(rand_prime(rng, b) * rand_prime(rng, b))
        for k, n in enumerate(ns):
            out.append(c_cli(n, k % 2 == 0, 'cli-json' if k % 2 == 0 else 'cli-plain'))
            if n < 40: out.append(c_cli(n, k % 2 == 1, 'cli-json' if k % 2 == 1 else 'cli-plain'))
            if n < 40 or k % 3 == 0: out.append(c_cli(n, 'main', 'cli-main-config'))

    # ------------------------------------------------------------ trial division (model and lemmas in Elementary)
    for n in list(range(-2, 300 if not th else 3000)) + [2 ** 20 + 7, 1001 * 1009, 36355439941184]:
        out.append(Case('trial_factorize', line('trial_factorize', n), oracle=o_trial(n), nontrivial=n > 3, tag='trial'))
    # trial division next to the machine-word boundary of the divisor (p * p passes 2^32 when p passes 65536): primes and
    # semiprimes just above 65535^2, in both profiles
    for n in (4294967291, 4294967311, 600 * 4294967291, 65537 * 65537, 65521 * 65537, 4295098369 + 2, 2 ** 33 - 9, 2 * (2 ** 32 + 15)):
        for prof in ('debug', 'release'):
            out.append(Case('trial_factorize', line('trial_factorize', n), oracle=o_trial(n), nontrivial=True, tag='trial-word-boundary', profile=prof))
    # strong pseudoprimes to the first few prime bases (psi_k), and composites p * q with both factors just above 1000 / 2^10 / 2^16
    # (a primality shortcut for "small" cofactors, or a fixed set of bases, accepts exactly these), through both drivers
    for i, n in enumerate([2047, 1373653, 25326001, 3215031751, 2152302898747, 3474749660383, 341550071728321, 12 * 3215031751,
                           1009 * 1013, 1009 * 1009, 1013 * 1019, 1021 * 1031, 1031 * 1033, 8 * 1009 * 1021, 65537 * 65539, 1000003 * 1000033]):
        both(n, 'pseudoprime-or-small-cofactor', i)
    return out
