"""C15 orders as canonical lattices (src/order.rs): from_basis / hnf_reduce, PartialEq, index, union, discriminant,
singly_gen, trivial_order_monic, non_monic_initial_order."""
from fractions import Fraction
import lib
from lib import line, Id, Case, enc
from props.ao_common import *

RULE = ('random full-rank rational bases of dimension 1..6 (entries of 4 bits over denominators 1..12, a slice with 40-bit numerators), '
        'each with unimodular re-basings U*M (equality must hold), sign flips, proper sub-lattices and scalings (equality must fail); '
        'sub-lattices S*A with prescribed index |det S| (1..360), chains A > B > C (the three indices), unrelated lattices (non-integer '
        'quotient: the explicit panic), index of a lattice in itself; unions of two sub-lattices of a common lattice, of nested '
        'lattices, of a lattice with itself, in both argument orders; discriminants of equation, trivial, starting, Z[lc*theta], maximal '
        '(bases from the implementation\'s find_integral_basis, used only as inputs) orders of random irreducible f of degree 1..6 and of '
        'their sub-lattices S*O (disc = index^2 disc O) and of lattices whose discriminant is not integral (the assertion); the four '
        'constructors on monic / non-monic / reducible / non-primitive f, singly_gen of arbitrary elements incl. elements of subfields '
        '(dependent powers: out-of-bounds panic); re-reduction of stored bases (idempotence); plus a malformed stream (empty, ragged, '
        'singular, zero, over-long rows, width mismatches in union, zero / constant / linear f) compared with the model only. '
        'non-trivial = dimension >= 2')
PROVED = ['lcm_den_multiplier / lcm_den_least / lcm_den_invariant [P]: the lcm of the denominators is the least positive d with d*b integral and only depends on the set of such d',
          'order_canonical [P]: n x n bases b1, b2 with b2 = U b1, b1 = V b2 (U, V integer matrices: same Z-module) have the same from_basis outcome (unconditional: uses the C02 canonicity theorem)',
          'hnf_reduce_idempotent [P]', 'index_self [P]', 'index_chain [P]: (A:C) = (A:B)(B:C)', 'index_spec [P]: B = S A, A non-singular => index A B = det S',
          'disc_index [P]: disc B = (A:B)^2 disc A, incl. the integrality assertion',
          'union_spec [P]: a returned union contains both arguments and is contained in their sum', 'union_comm [P]', 'union_absorbs [P]', 'union_self [P]',
          'index_abs_det / index_abs_det_list [P]: for stored bases a, b (outputs of hnf_reduce/from_basis on n x n bases) with b = S a, S an integer matrix (MathComp matrix or list matrix '
          'through qmmul): index a b returns det S and det S > 0, i.e. the index is |det S| and positive',
          'stored_basis_det_pos [P]: a stored basis is square and l^n * det = p for integers l, p > 0 (it is a square normal form divided by the positive lcm of denominators)',
          'hnf_reduce_det [P]: det(stored basis) = s * det(given basis) with s = +-1',
          'from_basis_returns_iff [P]: on an n x n basis from_basis returns a stored basis iff \\det <> 0 (total on full-rank input, panics on singular input)',
          'singly_gen_disc [P]: monic f of degree n >= 2, theta = Algebraic::new(f): the rows built by singly_gen are the unit vectors, the stored basis has determinant 1, and whenever '
          'discriminant_with_min_poly returns d, d = disc(min_poly) (the input discf); singly_gen_disc_returns [P]: it returns discf when 2n < 2^64 (usize arithmetic)',
          'order_disc_spec / order_disc_iff [P]: Round2.order_disc (the discriminant as the correspondence check runs it: determinant, then the model of discriminant::discriminant '
          'from Resultant.v, then the rest of discriminant_with_min_poly) returns d iff discriminant(min_poly) returns some discf and order_discriminant at discf returns d',
          'disc_index_wired [P]: disc B = (A:B)^2 disc A for order_disc',
          'singly_gen_disc_wired [P]: monic f of degree >= 2: if order_disc of singly_gen(Algebraic::new(f)) returns d then discriminant(f) returned d; singly_gen_disc_wired_returns [P]: '
          'for 2n < 2^64 both return, with the same d, all divisions exact, and d lc f = (-1)^(n(n-1)/2) det Sylvester(f, f\') (C05 discriminant_spec)',
          'from_basis_same_module [P]: the stored basis and the given n x n basis have the same integer row span',
          'trivial_order_rows / trivial_order_module [P]: trivial_order_monic f (n = deg f >= 1) is from_basis of the identity rows and a vector is in the integer span of the stored basis '
          'iff its coordinates are integers (the module Z + Z x + .. + Z x^(n-1))',
          'non_monic_order_module / nm_rows_entry [P]: non_monic_initial_order f, whenever it returns, is from_basis of the rows the code builds (row 0 = 1, row i = a_n x^i + .. + a_(n-i+1) x), '
          'the stored basis has the same span, and 1 lies in it',
          'singly_gen_rows / singly_gen_module [P]: for canonical f of degree n >= 1 and theta a canonical coefficient list of length <= n, singly_gen f theta has the same outcome as from_basis '
          'of the rows "coordinates of theta^k mod f", k < n; when it returns, the stored basis spans Z + Z theta + .. + Z theta^(n-1) and contains 1 and each power',
          'union_total [P]: on n x n bases a, b (n >= 1) with a non-singular, union returns; union_total_stored [P]: in particular on two stored orders of the same dimension',
          'order_disc_trace_form [P]: for canonical f of degree n >= 1 (2n < 2^64) and an n x n basis b with get_mult_table b f = Done t (the module is closed under multiplication with an integral '
          'table), Order::discriminant returns det(Tr(w_i w_j)), the determinant of the integer trace-form matrix of the table: discriminant(min_poly) returns, the division is defined and '
          'assert!(value.is_integer()) holds (disc(f) det(B)^2 / lc^(2n-2) = det Tr, proved without roots: Euler trace formula + resultant of the multiplication matrix); '
          'order_discriminant_trace_form [P]: the same for order_discriminant at any d with d lc f = (-1)^(n(n-1)/2) Res(f\', f)',
          'singly_gen_disc_linear / singly_gen_disc_linear_wired [P] (seventh wave): for every LINEAR f = c1 x + c0 (c1 != 0, monic or not), theta = Algebraic::new(f) (the rational constant -c0/c1): singly_gen returns the order [[1]] = Z, discriminant_with_min_poly on it returns discf unchanged, discriminant(f) returns 1 with the exactness flag true, and the wired Order::discriminant returns 1 (both profiles, no panic)']
NOT_PROVED = ['singly_gen_disc for non-monic f of degree >= 2 (not a claim of the property); proved for monic f of degree >= 2 and for every linear f',
              'nothing else of the property text; proved under other properties and used here: "get_mult_table b f = Done t" (the hypothesis of order_disc_trace_form) holds exactly when the full-rank '
              'basis b is closed under multiplication (C14 get_mult_table_iff), and non_monic_initial_order returns an order for every f of degree >= 1 (C06 non_monic_start_is_order, Dedekind)']
ASSUMPTIONS = ['num::integer::lcm on BigInt taken as Z.lcm (non-negative)',
               'C02 (HNF canonicity, union, termination) and C18 (determinant = \\det) theorems are used as proved in coq/Refine (merged from main and area/linalg)']

CLAIM = dict(
    technique='Coq proof about the Gallina model of Order (hnf_reduce, index, union, discriminant, constructors) + extracted-model-vs-implementation correspondence',
    text='Theorems in coq/Props/C15.v hold for all n x n rational bases, n >= 1, no size bound: bases of the same Z-module are stored identically (same outcome of '
         'from_basis), the stored form is a fixed point, index is multiplicative in chains and equals the determinant of the change of basis, which is positive for stored bases (index = |det S| > 0), disc B = (A:B)^2 disc A, '
         'union returns a basis of the smallest module containing both arguments, is commutative, idempotent, absorbs sub-modules and is total on full-rank input; the constructors store bases of '
         'the intended modules (Z^n, the starting order rows, Z[theta]); the discriminant of an order (a lattice with an integral multiplication table) is the determinant of its trace form, '
         'in particular the integrality assertion of discriminant_with_min_poly holds. The model (coq/Model/Order.v on top '
         'of Hnf.v and LinAlg.v) reproduces the routines statement by statement including assertions, the explicit panic of index, bounds checks on rank-deficient input '
         'and the usize arithmetic of the discriminant; it is tied to /repo by running the extracted model and impl_svc on the same constructor paths.',
    note='disc(min_poly) is computed by the model itself (Round2.order_disc = Order.order_discriminant at the value of Resultant.discriminant, the C05 model): the model side of op ord_disc '
         'receives only the order and f. Statements are partial-correctness statements or equalities of outcomes, with totality proved separately for from_basis (exactly the non-singular bases) and union (full-rank input); the power-basis discriminant is proved for monic f of degree >= 2 (singly_gen_disc) and for every linear f (singly_gen_disc_linear: the order is Z, discriminant 1); '
         'the modules generated by the constructors are proved (trivial_order_module, non_monic_order_module, singly_gen_module) and also checked by independent Fraction oracles on every explored input.',
    ref='DESIGN.md section 4, C15')

PROFILES = ('debug', 'release')

def fr(l): return [F(x) for x in l]
def B_(M): return [Id('basis'), M]

# ---------------------------------------------------------------- oracles

def o_canon(G, what='from_basis'):
    """stored basis is canonical and spans the same module as the rows of G (G square; singular G must panic)"""
    G = fmat(G)
    def orc(ia):
        if det(G) == 0:
            return None if ia.kind == 'panic' and ia.cls == 'index' else '%s of a singular basis: %s' % (what, ia.raw[:100])
        if ia.kind != 'ok': return '%s did not return: %s' % (what, ia.raw[:120])
        R = fmat(ia.val)
        pb = canonical_problem(R)
        if pb: return '%s: stored basis not canonical: %s' % (what, pb)
        if not same_module(R, G): return '%s: stored basis does not span the module of the input' % what
    return orc

def o_same(R0):
    def orc(ia):
        if ia.kind != 'ok': return 're-reduction did not return: %s' % ia.raw[:120]
        if fmat(ia.val) != fmat(R0): return 'hnf_reduce is not idempotent on %s: got %s' % (R0, ia.val)
    return orc

def o_eq(M1, M2):
    exp = same_module(fmat(M1), fmat(M2))
    def orc(ia):
        if ia.kind != 'ok': return 'equality did not return: %s' % ia.raw[:120]
        if ia.val != exp: return 'orders compare %s but the modules are %s' % (ia.val, 'equal' if exp else 'different')
    return orc

def o_index(A, B):
    q = abs(det(fmat(B))) / abs(det(fmat(A)))
    def orc(ia):
        if q.denominator != 1:
            return None if ia.kind == 'panic' and ia.cls == 'other' else 'index with non-integer quotient %s: %s' % (q, ia.raw[:100])
        if ia.kind != 'ok': return 'index did not return: %s' % ia.raw[:120]
        if ia.val != q: return 'index = %s, |det B| / |det A| = %s' % (ia.val, q)
        if ia.val <= 0: return 'index not positive'
    return orc

def o_union(A, B):
    A = fmat(A); B = fmat(B)
    def orc(ia):
        if ia.kind != 'ok': return 'union did not return: %s' % ia.raw[:120]
        R = fmat(ia.val); n = len(A)
        pb = canonical_problem(R)
        if pb: return 'union: stored basis not canonical: %s' % pb
        if len(R) != n: return 'union: wrong dimension'
        if not contains(R, A) or not contains(R, B): return 'union does not contain both arguments'
        # smallest: covolume of A + B = gcd of the maximal minors of the stacked generators
        g = minors_gcd_frac(A + B, n)
        if abs(det(R)) != g: return 'union has covolume %s, the sum A + B has %s' % (abs(det(R)), g)
    return orc

def disc_expected(G, f):
    n = len(f) - 1
    return disc_poly(fr(f)) * det(fmat(G)) ** 2 / F(f[-1]) ** (2 * (n - 1))

def o_disc(G, f, power_monic=False):
    """G: any generating matrix of the lattice (det^2 does not depend on the choice), f of degree >= 1"""
    def orc(ia):
        if ia.kind != 'ok': return 'constructor did not return: %s' % ia.raw[:120]
        d, r = ia.val
        dp = disc_poly(fr(f))
        if d[0] != 'ok' or d[1] != dp: return 'discriminant(f) = %s, Sylvester-determinant discriminant is %s' % (d, dp)
        exp = disc_expected(G, f)
        if exp.denominator != 1:
            return None if r[0] == 'panic' and r[1] == 'assert' else 'non-integral discriminant %s: %s' % (exp, r)
        if r[0] != 'ok' or r[1] != exp: return 'discriminant = %s, disc(f) det^2 / lc^(2n-2) = %s' % (r, exp)
        if power_monic and r[1] != dp: return 'power-basis discriminant %s != disc f %s' % (r[1], dp)
    return orc

def disc_compare(ia, ma):
    if ia.kind != 'ok': return lib.default_compare(ia, ma)      # the constructor panicked: same panic expected
    r = ia.val[1]
    key = ('ok', enc(r[1])) if r[0] == 'ok' else ('panic', str(r[1]))
    if key != ma.key(): return 'implementation %r vs model %r' % (ia.raw[:200], ma.raw[:200])
    return None

def disc_case(O, f, oracle=None, nontrivial=True, tag='disc'):
    # the model receives the same line as the implementation: it computes discriminant(f) itself (Round2.order_disc)
    return Case('ord_disc', line('ord_disc', O, f), compare=disc_compare, oracle=oracle, nontrivial=nontrivial,
                tag=tag, always_oracle=oracle is not None)

# ---------------------------------------------------------------- generators

def mm(S, A): return matmul(S, A)

def lattice_cases(rng, quick):
    out = []
    reps = 14 if quick else 60
    pre = []
    for t in range(reps * 6):
        n = 1 + t % 6
        nt = n >= 2
        big = t % 7 == 3 and n <= 4
        M = rand_basis(rng, n, bits=40 if big else 4)
        tag = 'basis:dim%d%s' % (n, ':big' if big else '')
        out.append(Case('ord_basis', line('ord_basis', B_(M)), oracle=o_canon(M), nontrivial=nt, tag=tag, always_oracle=True))
        out.append(Case('ord_deg', line('ord_deg', B_(M)), nontrivial=False, tag='deg'))
        U = rand_unimodular(rng, n)
        UM = mm(U, M)
        out.append(Case('ord_eq', line('ord_eq', B_(M), B_(UM)), oracle=o_eq(M, UM), nontrivial=nt, tag='eq:rebased'))
        out.append(Case('ord_basis', line('ord_basis', B_(UM)), oracle=o_canon(M), nontrivial=nt, tag=tag, always_oracle=True))
        k = rng.randint(0, 3)
        if k == 0: M2 = [[-x for x in r] if i == 0 else r for i, r in enumerate(M)]
        elif k == 1: M2 = mm(rand_with_det(rng, n, rng.choice([2, 3, 4, 5])), M)
        elif k == 2: M2 = [[x / 2 for x in r] for r in M]
        else: M2 = rand_basis(rng, n)
        out.append(Case('ord_eq', line('ord_eq', B_(M), B_(M2)), oracle=o_eq(M, M2), nontrivial=nt, tag='eq:other', always_oracle=True))
        if t % 3 == 0: pre.append(M)
        # index: sub-lattices with prescribed index, chains
        i1, i2 = rng.choice([1, 2, 3, 4, 6, 12, 30, 49]), rng.choice([1, 2, 5, 8, 9, 360])
        Bm = mm(rand_with_det(rng, n, i1), M)
        Cm = mm(rand_with_det(rng, n, i2), Bm)
        for X, Y, tg in ((M, Bm, 'index:AB'), (Bm, Cm, 'index:BC'), (M, Cm, 'index:AC')):
            out.append(Case('ord_index', line('ord_index', B_(X), B_(Y)), oracle=o_index(X, Y), nontrivial=nt, tag=tg, always_oracle=True))
        out.append(Case('ord_index', line('ord_index', B_(M), B_(UM)), oracle=o_index(M, UM), nontrivial=False, tag='index:self', always_oracle=True))
        out.append(Case('ord_index', line('ord_index', B_(Bm), B_(M)), oracle=o_index(Bm, M), nontrivial=nt, tag='index:reversed', always_oracle=True))
        M3 = rand_basis(rng, n)
        out.append(Case('ord_index', line('ord_index', B_(M), B_(M3)), oracle=o_index(M, M3), nontrivial=nt, tag='index:unrelated', always_oracle=True))
        # unions inside the common lattice M
        if n <= (5 if quick else 6):
            A1 = mm(rand_with_det(rng, n, rng.choice([1, 2, 3, 4, 6])), M)
            A2 = mm(rand_with_det(rng, n, rng.choice([1, 2, 3, 5, 9])), M)
            for X, Y, tg in ((A1, A2, 'union'), (A2, A1, 'union:swapped'), (A1, A1, 'union:self'), (M, A1, 'union:nested'), (A1, M, 'union:nested')):
                out.append(Case('ord_union', line('ord_union', B_(X), B_(Y)), oracle=o_union(X, Y), nontrivial=nt, tag=tg))
            if t % 4 == 0:
                M4 = rand_basis(rng, n, bits=3, dens=(1, 2, 5))
                out.append(Case('ord_union', line('ord_union', B_(M), B_(M4)), oracle=o_union(M, M4), nontrivial=nt, tag='union:unrelated', always_oracle=True))
    # idempotence of the reduction on stored bases
    ans = impl_query([line('ord_basis', B_(M)) for M in pre])
    for M, a in zip(pre, ans):
        if a.kind == 'ok':
            out.append(Case('ord_basis', line('ord_basis', B_(a.val)), oracle=o_same(a.val), nontrivial=len(M) >= 2, tag='basis:idempotent'))
    # machine-word boundaries: pivots next to 2^31, 2^32, 2^63, 2^64 and, after a small unimodular change of basis, entries just
    # below 2^64 in absolute value (a fixed-width fast path in the Euclid step or in the final reductions overflows exactly here);
    # both build profiles; with and without a common denominator
    for e in (31, 32, 63, 64):
        for dd in (-1, 0, 11):
            d = 2 ** e + dd
            for den in (1, 6):
                n = rng.choice([2, 3, 3])
                B1 = [[F(0)] * n for _ in range(n)]
                for i_ in range(n):
                    B1[i_][i_] = F(d if i_ == 0 else rng.choice([1, 2, 3]), den)
                    for j_ in range(i_): B1[i_][j_] = F(rng.randrange(0, 9), den)
                U = [[F(int(i_ == j_)) for j_ in range(n)] for i_ in range(n)]
                for uu in (-2, -1, 1, 2):
                  U[1][0] = F(uu)
                  for i_ in range(2, n): U[i_][0] = F(rng.choice([-2, -1, 1, 2]))
                  B2 = mm(U, B1)
                  for prof in ('debug', 'release'):
                    out.append(Case('ord_eq', line('ord_eq', B_(B1), B_(B2)), oracle=o_eq(B1, B2), nontrivial=True, tag='eq:word-boundary', always_oracle=True, profile=prof))
                    out.append(Case('ord_basis', line('ord_basis', B_(B2)), oracle=o_canon(B1), nontrivial=True, tag='basis:word-boundary', always_oracle=True, profile=prof))
    return out

def order_cases(rng, quick):
    out = []
    degs = [1, 2, 3, 4, 5, 6] * (3 if quick else 12)
    maxq = []
    for k, deg in enumerate(degs):
        nt = deg >= 2
        f = rand_irreducible(rng, deg, 9, monic=True)
        P = power_basis(f)
        I = [[F(int(i == j)) for j in range(deg)] for i in range(deg)]
        g = rand_reducible(rng, deg, 4, monic=True) if deg >= 2 else f
        h = rand_irreducible(rng, deg, 7, monic=False) if deg >= 2 else [rng.randint(-9, 9), rng.choice([2, 3, -5])]
        hp = [rng.choice([2, 3]) * x for x in rand_poly(rng, deg, 5)]
        th = [F(0), F(h[-1])] if deg >= 2 else [F(-h[0])]
        e = rand_elem(rng, deg, 3, 2)
        items = [(f, [Id('sgnew'), f], P, 'equation'), (f, [Id('triv'), f], I, 'trivial'), (g, [Id('sgnew'), g], power_basis(g), 'equation-reducible'),
                 (h, [Id('sgnew'), h], power_basis(h), 'Z[theta]-nonmonic'), (h, [Id('nonmonic'), h], nonmonic_basis(h), 'starting'),
                 (hp, [Id('nonmonic'), hp], nonmonic_basis(hp), 'starting-nonprimitive'), (h, [Id('sg'), h, th], power_basis(h, th), 'Z[lc theta]'),
                 (f, [Id('sg'), f, e], power_basis(f, e), 'Z[alpha]')]
        if deg in (4, 6):
            # alpha in a proper subfield: f(x) = g(x^2), alpha = theta^2 has dependent powers
            g2 = rand_irreducible(rng, deg // 2, 5, monic=True)
            f2 = [0] * (deg + 1)
            for i, c in enumerate(g2): f2[2 * i] = c
            items.append((f2, [Id('sg'), f2, [0, 0, 1]], power_basis(f2, [F(0), F(0), F(1)]), 'Z[alpha]:subfield'))
        if deg >= 3:
            # theta = alpha + (higher terms): NOT the generator alpha itself although its coefficient vector starts with (0, 1)
            for te in ([F(0), F(1), F(2)], [F(0), F(1), F(1, 2)], [F(0), F(1)] + [F(0)] * (deg - 3) + [F(-1)]):
                te = te[:deg]
                if len(te) >= 3 and any(te[2:]): items.append((f, [Id('sg'), f, te], power_basis(f, te), 'Z[alpha]:alpha-plus-higher'))
        if deg in (3, 4, 5):
            # generators whose successive powers DROP in degree (theta = alpha^(deg-1) in Q[x]/(x^deg - c): degrees deg-1, deg-2, ..;
            # theta = alpha^2 + 2t alpha - 2t^2 in Q[x]/(x^3 - c): theta^2 is linear): a row buffer reused across powers shows here
            cc = rng.choice([2, 3, 5, -2, 7])
            fp = [-cc] + [0] * (deg - 1) + [1]
            tp = [F(0)] * (deg - 1) + [F(1)]
            items.append((fp, [Id('sg'), fp, tp], power_basis(fp, tp), 'Z[alpha]:dropping-powers'))
            if deg == 3:
                t_ = rng.choice([1, -1, 2])
                tq = [F(-2 * t_ * t_), F(2 * t_), F(1)]
                items.append((fp, [Id('sg'), fp, tq], power_basis(fp, tq), 'Z[alpha]:dropping-powers'))
        for ff, O, G, kind in items:
            tag = 'ctor:%s:deg%d' % (kind, deg)
            out.append(Case('ord_basis', line('ord_basis', O), oracle=o_canon(G, kind), nontrivial=nt, tag=tag, always_oracle=True))
            if det(fmat(G)) != 0:
                out.append(disc_case(O, ff, o_disc(G, ff, power_monic=(kind == 'equation')), nt, 'disc:%s' % kind))
        # sub-lattices of the equation order: disc = index^2 * disc; over-lattices with non-integral discriminant
        S = rand_with_det(rng, deg, rng.choice([2, 3, 6, 10]))
        out.append(disc_case(B_(mm(S, P)), f, o_disc(mm(S, P), f), nt, 'disc:sublattice'))
        Q = [[x / rng.choice([2, 3, 5]) for x in r] for r in P]
        out.append(disc_case(B_(Q), f, o_disc(Q, f), nt, 'disc:overlattice'))
        out.append(Case('ord_index', line('ord_index', [Id('sgnew'), f], B_(mm(S, P))), oracle=o_index(P, mm(S, P)), nontrivial=nt, tag='index:orders', always_oracle=True))
        if deg >= 2:
            out.append(Case('ord_index', line('ord_index', [Id('nonmonic'), h], [Id('sg'), h, th]), oracle=o_index(nonmonic_basis(h), power_basis(h, th)),
                            nontrivial=True, tag='index:orders', always_oracle=True))
            out.append(Case('ord_union', line('ord_union', [Id('nonmonic'), h], [Id('sg'), h, th]), oracle=o_union(nonmonic_basis(h), power_basis(h, th)),
                            nontrivial=True, tag='union:orders', always_oracle=True))
        if deg <= (4 if quick else 5):
            maxq.append(rand_irreducible(rng, deg, 5, monic=True))
            if deg >= 2 and k % 2 == 1: maxq.append(rand_irreducible(rng, deg, 4, monic=False))
    # sparse monic f (trinomials and quadrinomials of degree 4..8): the remainder sequence of (f, f') has degree drops >= 2, the
    # branch of the sub-resultant recurrence that dense random polynomials never take; disc(power basis) = disc(f), sublattice rule
    for n in range(4, 9 if quick else 11):
        for _ in range(3 if quick else 10):
            f = [0] * (n + 1); f[n] = 1
            f[0] = rng.choice([1, -1, 2, -3, 5, 7]); f[rng.randrange(1, n - 1)] = rng.choice([1, -1, 2, -2, 3, -5])
            if rng.random() < 0.4: f[rng.randrange(1, n - 1)] = rng.choice([1, -1, 3, 4])
            P = power_basis(f)
            out.append(disc_case([Id('sgnew'), f], f, o_disc(P, f, power_monic=True), True, 'disc:equation-sparse'))
            out.append(disc_case([Id('triv'), f], f, o_disc([[F(int(i == j)) for j in range(n)] for i in range(n)], f), True, 'disc:trivial-sparse'))
            if n <= 6:
                S = rand_with_det(rng, n, rng.choice([2, 3]))
                out.append(disc_case(B_(mm(S, P)), f, o_disc(mm(S, P), f), True, 'disc:sublattice-sparse'))
    ans = impl_query([line('max_order_basis', f) for f in maxq])
    for f, a in zip(maxq, ans):
        if a.kind != 'ok': continue
        Bx = a.val; n = len(f) - 1; nt = n >= 2
        out.append(Case('ord_basis', line('ord_basis', B_(Bx)), oracle=o_same(Bx), nontrivial=nt, tag='basis:maximal', always_oracle=True))
        out.append(disc_case(B_(Bx), f, o_disc(Bx, f), nt, 'disc:maximal'))
        start = [Id('sgnew'), f] if f[-1] == 1 else [Id('nonmonic'), f]
        G = power_basis(f) if f[-1] == 1 else nonmonic_basis(f)
        out.append(Case('ord_index', line('ord_index', B_(Bx), start), oracle=o_index(Bx, G), nontrivial=nt, tag='index:maximal', always_oracle=True))
        out.append(Case('ord_union', line('ord_union', B_(Bx), start), oracle=o_union(Bx, G), nontrivial=nt, tag='union:maximal', always_oracle=True))
    return out

def edge_cases(rng):
    out = []
    L = lambda op, *a: Case(op, line(op, *a), nontrivial=False, tag='edge:' + op)
    mats = [[], [[]], [[0]], [[1]], [[F(-3, 2)]], [[1, 0], [2, 0]], [[0, 0], [0, 0]], [[1, 2], [2, 4]], [[1, 0], [0]], [[1], [0, 1]],
            [[1, 0, 7], [0, 1, 7]], [[1, 0, F(1, 5)], [0, 1, F(1, 7)]], [[1, 0], [0, 1], [1, 1]], [[1, 2, 3], [4, 5, 6], [7, 8, 9]],
            [[F(1, 2), 0], [0, F(1, 3)]], [[2, 0], [0, 2]]]
    for M in mats:
        out.append(L('ord_basis', B_(M)))
        out.append(L('ord_deg', B_(M)))
        for N in ([], [[1]], [[1, 0], [0, 1]], [[F(1, 2), 0], [0, F(1, 3)]], [[1, 0, 0], [0, 1, 0], [0, 0, 1]]):
            out.append(L('ord_eq', B_(M), B_(N)))
            out.append(L('ord_index', B_(M), B_(N)))
            out.append(L('ord_index', B_(N), B_(M)))
            out.append(L('ord_union', B_(M), B_(N)))
            out.append(L('ord_union', B_(N), B_(M)))
    for f in ([], [3], [0], [5, 2], [3, 1], [1, 0, 1], [2, 0, 4], [1, 1, 0, 1]):
        for c in ('sgnew', 'triv', 'nonmonic'):
            out.append(L('ord_basis', [Id(c), f]))
            out.append(disc_case([Id(c), f], f, None, False, 'edge:disc'))
        for e in ([], [F(2)], [F(0), F(1)], [F(1, 2), F(1, 3)], [F(0), F(0), F(1)], [F(1), F(1), F(1), F(1)]):
            out.append(L('ord_basis', [Id('sg'), f, e]))
        for M in ([], [[1]], [[1, 0], [0, 1]], [[F(1, 2), 0], [0, F(1, 3)]], [[1, 0, 0], [0, 1, 0], [0, 0, 1]]):
            out.append(disc_case(B_(M), f, None, False, 'edge:disc'))
    return out

def cases(rng, tier):
    quick = tier == 'quick'
    return lattice_cases(rng, quick) + order_cases(rng, quick) + edge_cases(rng)
