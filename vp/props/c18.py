"""C18 exact rational linear algebra: determinant, matrix::inv, solve_linear_system, subspace::{iim,
supplement_basis, image_mod_p}, triangular::mul_inv_from_right_exact."""
import itertools
from fractions import Fraction
import lib
from lib import line, Id, Case

RULE = ('exhaustive matrices over {-1,0,1}: all 1x1, 2x2, 2x3 (+ every right-hand side for solve, a slice of the V for iim) and a '
        'slice (thorough: all) of 3x3; random n x n, n <= 7, entries small integers / fractions / 80-bit, with forced rank deficiency '
        '(a row or a column replaced by a combination of the others); iim/supplement: n x m, m >= n, built as (random invertible) x '
        '(echelon form with chosen early and late pivot columns), V in the span / perturbed out of the span / M dependent; image_mod_p: '
        'p in {2,3,5,7,101}, entries in [0,p), up to 6 x 6, >= 3 columns, planted dependencies; mul_inv_from_right_exact: A = C*B with B '
        'triangular non-singular, random A (mostly not divisible), singular B; plus a malformed stream (ragged rows, empty matrices, '
        'shape mismatches, p not prime / entries outside [0,p)) that is compared with the model only. '
        'non-trivial = n >= 2 and not the all-zero matrix')
PROVED = [
    'determinant_spec [P]: every value returned by determinant is the Leibniz determinant (MathComp \\det); determinant_returns [P]: it returns on every square matrix',
    'inv_spec [P]: Ok b -> b*a = 1 and a*b = 1; inv_err_spec [P]: Err -> det a = 0; inv_nonsingular / inv_singular_spec [P]: on square input Ok iff det != 0, Err iff det = 0, never a panic',
    'solve_spec [P]: Ok x -> x*a = b (the orientation the code uses: column operations); solve_err_spec [P]: Err -> det a = 0; '
    'solve_nonsingular / solve_singular_spec [P]: on square input Ok iff det != 0, Err iff det = 0, never a panic',
    'mul_inv_from_right_exact_spec [P]: Ok c -> c*b = a over Z; _err [P]: Err -> det b = 0; _complete [P]: square input, singular b -> Err, '
    'non-singular b and an integer quotient exists -> Ok',
    'iim_spec [P]: Ok x -> x*M = V and rows of M independent; Err LinearlyDependent -> rows dependent; Err NotInImage -> rows independent and no X with X*M = V; '
    'iim_complete_spec [P]: on rectangular input it returns (no panic) and picks exactly the variant the mathematics dictates',
    'supplement_spec [P]: Ok B -> B has n rows, first k rows = input, det B != 0, input rows independent; Err -> input rows dependent; '
    'supplement_complete_spec [P]: on rectangular input no panic, Ok iff rank k',
    'image_mod_p_spec [P]: p prime, entries in [0,p): output rows are input rows, independent mod p, and span the same space mod p as the input (MathComp row_free / :=: over F_p); '
    'image_mod_p_returns [P]: no panic (index, division, its own assert_eq) on any rectangular matrix with >= 1 row and modulus != 0',
]
NOT_PROVED = [
    'behaviour on ragged / empty / non-reduced / non-prime input is outside the property; the model reproduces it and is compared with the code on a malformed stream',
]

CLAIM = dict(
    technique='Coq proof about the Gallina model of the seven routines (generic over a MathComp fieldType, instantiated at Qc; image_mod_p over F_p) + extracted-model-vs-implementation correspondence',
    text='coq/Props/C18.v, all inputs, no size bound: determinant = Leibniz determinant; inv / solve (x*A = b) return the exact inverse / solution or Err, Err exactly when det = 0, never a panic on '
         'square input; iim returns X with X*M = V or the correct error variant, supplement_basis an invertible completion or Err iff rank < k, both total on rectangular input; '
         'image_mod_p returns input rows forming a basis mod p of the row space; exact right division returns C with C*B = A whenever an integer C exists. '
         'The model (coq/Model/LinAlg.v) reproduces the routines statement by statement including Rust bounds-check panics on ragged input; it is tied to /repo by running the extracted model and impl_svc on the same inputs.',
    note='BigRational arithmetic is taken as Qc, BigInt as Z (num crates trusted); image_mod_p needs the entries reduced to [0,p) (the code tests entries for exact zero); '
         'the independent Fraction / mod-p oracles are kept for failing-input search',
    ref='DESIGN.md section 4, C18')

# ---------------------------------------------------------------- exact reference linear algebra (independent of the model)

PROFILES = ('debug', 'release')

def F(x): return x if isinstance(x, Fraction) else Fraction(x)

def is_rect(A, n=None, m=None):
    if not isinstance(A, list) or any(not isinstance(r, list) for r in A): return False
    if n is not None and len(A) != n: return False
    if m is None: m = len(A[0]) if A else 0
    return all(len(r) == m for r in A)

def matmul(A, B):
    n, k = len(A), len(B)
    m = len(B[0]) if B else 0
    return [[sum((F(A[i][l]) * F(B[l][j]) for l in range(k)), Fraction(0)) for j in range(m)] for i in range(n)]

def ident(n): return [[Fraction(int(i == j)) for j in range(n)] for i in range(n)]

def mateq(A, B):
    return len(A) == len(B) and all(len(r) == len(s) and all(F(x) == F(y) for x, y in zip(r, s)) for r, s in zip(A, B))

def det_bareiss(A):
    """fraction-free (Bareiss) elimination; exact over Fractions"""
    n = len(A)
    M = [[F(x) for x in r] for r in A]
    sign = 1; prev = Fraction(1)
    for k in range(n - 1):
        if M[k][k] == 0:
            sw = next((i for i in range(k + 1, n) if M[i][k] != 0), None)
            if sw is None: return Fraction(0)
            M[k], M[sw] = M[sw], M[k]; sign = -sign
        for i in range(k + 1, n):
            for j in range(k + 1, n):
                M[i][j] = (M[i][j] * M[k][k] - M[i][k] * M[k][j]) / prev
        prev = M[k][k]
    return sign * (M[n - 1][n - 1] if n else Fraction(1))

def det_leibniz(A):
    n = len(A)
    tot = Fraction(0)
    for perm in itertools.permutations(range(n)):
        inv = sum(1 for i in range(n) for j in range(i + 1, n) if perm[i] > perm[j])
        t = Fraction(-1 if inv % 2 else 1)
        for i in range(n):
            t *= F(A[i][perm[i]])
            if t == 0: break
        tot += t
    return tot

def det_ref(A):
    d = det_bareiss(A)
    if len(A) <= 4: assert d == det_leibniz(A)
    return d

def rank_q(A):
    M = [[F(x) for x in r] for r in A]
    n = len(M); m = len(M[0]) if M else 0
    rk = 0
    for c in range(m):
        pr = next((i for i in range(rk, n) if M[i][c] != 0), None)
        if pr is None: continue
        M[rk], M[pr] = M[pr], M[rk]
        for i in range(rk + 1, n):
            f = M[i][c] / M[rk][c]
            if f: M[i] = [x - f * y for x, y in zip(M[i], M[rk])]
        rk += 1
    return rk

def rank_p(A, p):
    M = [[x % p for x in r] for r in A]
    n = len(M); m = len(M[0]) if M else 0
    rk = 0
    for c in range(m):
        pr = next((i for i in range(rk, n) if M[i][c] % p), None)
        if pr is None: continue
        M[rk], M[pr] = M[pr], M[rk]
        iv = pow(M[rk][c], -1, p)
        for i in range(rk + 1, n):
            f = M[i][c] * iv % p
            if f: M[i] = [(x - f * y) % p for x, y in zip(M[i], M[rk])]
        rk += 1
    return rk

def res_ok(ia):
    """(True, value) for [ok v]; (False, variant-or-None) for [err ..]; None when the call did not return"""
    if ia.kind != 'ok' or not isinstance(ia.val, list) or not ia.val: return None
    if ia.val[0] == Id('ok'): return (True, ia.val[1])
    if ia.val[0] == Id('err'): return (False, ia.val[1] if len(ia.val) > 1 else None)
    return None

# ---------------------------------------------------------------- oracles (on the implementation's answer)

def o_det(A):
    def orc(ia):
        if ia.kind != 'ok': return 'determinant did not return: %s' % ia.raw[:120]
        d = det_ref(A)
        if F(ia.val) != d: return 'determinant = %s, Leibniz/Bareiss determinant is %s' % (ia.val, d)
    return orc

def o_inv(A):
    def orc(ia):
        r = res_ok(ia)
        if r is None: return 'inv did not return: %s' % ia.raw[:120]
        n = len(A); d = det_ref(A)
        if d == 0:
            return None if not r[0] else 'inv returned Ok for a singular matrix'
        if not r[0]: return 'inv returned Err but det = %s' % d
        B = r[1]
        if not is_rect(B, n, n): return 'inv: result is not n x n'
        if not mateq(matmul(B, A), ident(n)): return 'inv: B*A != I'
        if not mateq(matmul(A, B), ident(n)): return 'inv: A*B != I'
    return orc

def o_solve(A, b):
    def orc(ia):
        r = res_ok(ia)
        if r is None: return 'solve did not return: %s' % ia.raw[:120]
        n = len(A); d = det_ref(A)
        if d == 0:
            return None if not r[0] else 'solve returned Ok for a singular matrix'
        if not r[0]: return 'solve returned Err but det = %s' % d
        x = r[1]
        if not isinstance(x, list) or len(x) != n: return 'solve: wrong length'
        if not mateq(matmul([x], A), [b] if n else [[]]): return 'solve: x*A != b'
    return orc

def iim_expect(M, V):
    n = len(M)
    rm = rank_q(M)
    if rm < n: return 'dependent'
    for v in V:
        if rank_q(M + [v]) != rm: return 'notinimage'
    return 'ok'

def o_iim(M, V):
    def orc(ia):
        r = res_ok(ia)
        if r is None: return 'iim did not return: %s' % ia.raw[:120]
        exp = iim_expect(M, V)
        if exp == 'ok':
            if not r[0]: return 'iim returned Err(%s) but M is independent and V is in its span' % r[1]
            X = r[1]
            if not is_rect(X, len(V), len(M)): return 'iim: X has the wrong shape'
            if not mateq(matmul(X, M), V): return 'iim: X*M != V'
            return None
        if r[0]: return 'iim returned Ok but expected Err(%s)' % exp
        if r[1] != Id(exp): return 'iim returned Err(%s), the failing condition is %s' % (r[1], exp)
    return orc

def o_supp(M):
    def orc(ia):
        r = res_ok(ia)
        if r is None: return 'supplement_basis did not return: %s' % ia.raw[:120]
        k = len(M); n = len(M[0])
        if rank_q(M) < k:
            return None if not r[0] else 'supplement_basis returned Ok but rank < k'
        if not r[0]: return 'supplement_basis returned Err but the rows are independent'
        B = r[1]
        if not is_rect(B, n, n): return 'supplement_basis: result is not n x n'
        if not mateq(B[:k], M): return 'supplement_basis: first k rows differ from the input'
        if det_ref(B) == 0: return 'supplement_basis: result is singular'
    return orc

def o_image(M, p):
    def orc(ia):
        if ia.kind != 'ok': return 'image_mod_p did not return: %s' % ia.raw[:120]
        out = ia.val
        rows = [list(r) for r in M]
        pool = list(rows)
        for r in out:
            if r not in pool: return 'image_mod_p: output row %s is not an input row (or is repeated more often than in the input)' % (r,)
            pool.remove(r)
        rk = rank_p(rows, p)
        if len(out) != rk: return 'image_mod_p: %d rows returned, rank mod p is %d' % (len(out), rk)
        if out and rank_p(out, p) != len(out): return 'image_mod_p: output rows are dependent mod p'
    return orc

def o_mulinv(A, B):
    def orc(ia):
        n = len(A)
        d = det_ref(B)
        r = res_ok(ia)
        if d == 0:
            if r is None or r[0]: return 'mul_inv_from_right_exact: singular B but answer %s' % ia.raw[:120]
            return None
        # C = A * B^-1 by solving c*B = a row by row with the reference elimination (Cramer via adjugate-free solve)
        Binv = inverse_ref(B)
        C = matmul(A, Binv)
        integral = all(x.denominator == 1 for row in C for x in row)
        if not integral:
            if ia.kind == 'panic' and ia.cls == 'assert': return None
            return 'mul_inv_from_right_exact: A*B^-1 is not integral but answer %s' % ia.raw[:120]
        if r is None or not r[0]: return 'mul_inv_from_right_exact: integral quotient exists but answer %s' % ia.raw[:120]
        if not mateq(r[1], C): return 'mul_inv_from_right_exact: wrong quotient'
        if not mateq(matmul(r[1], B), A): return 'mul_inv_from_right_exact: C*B != A'
    return orc

def inverse_ref(B):
    """Gauss-Jordan on [B | I] with Fractions (reference; B non-singular)"""
    n = len(B)
    M = [[F(x) for x in B[i]] + [Fraction(int(i == j)) for j in range(n)] for i in range(n)]
    for c in range(n):
        pr = next(i for i in range(c, n) if M[i][c] != 0)
        M[c], M[pr] = M[pr], M[c]
        pv = M[c][c]
        M[c] = [x / pv for x in M[c]]
        for i in range(n):
            if i != c and M[i][c] != 0:
                f = M[i][c]
                M[i] = [x - f * y for x, y in zip(M[i], M[c])]
    return [r[n:] for r in M]

# ---------------------------------------------------------------- generators

def rentry(rng, kind):
    if kind == 'tiny': return rng.randint(-1, 1)
    if kind == 'small': return rng.randint(-5, 5)
    if kind == 'frac':
        return Fraction(rng.randint(-9, 9), rng.randint(1, 9)) if rng.random() < 0.6 else rng.randint(-9, 9)
    if kind == 'big':
        if rng.random() < 0.3: return Fraction(rng.getrandbits(80) - (1 << 79), rng.getrandbits(40) + 1)
        return rng.randint(-20, 20)
    raise ValueError(kind)

def rmat(rng, n, m, kind, zero_p=0.0):
    return [[0 if rng.random() < zero_p else rentry(rng, kind) for _ in range(m)] for _ in range(n)]

def rinvertible(rng, n, kind='small'):
    while True:
        A = rmat(rng, n, n, kind)
        if det_bareiss(A) != 0: return A

def deficient(rng, A):
    """replace one row or one column by a combination of the others"""
    n = len(A); m = len(A[0])
    A = [list(r) for r in A]
    if rng.random() < 0.5 and n >= 1:
        i = rng.randrange(n)
        co = [rng.randint(-2, 2) for _ in range(n)]
        A[i] = [sum((co[l] * F(A[l][j]) for l in range(n) if l != i), Fraction(0)) for j in range(m)]
    else:
        j = rng.randrange(m)
        co = [rng.randint(-2, 2) for _ in range(m)]
        for i in range(n):
            A[i][j] = sum((co[l] * F(A[i][l]) for l in range(m) if l != j), Fraction(0))
    return A

def echelon(rng, n, m, pivots, kind):
    """n x m row echelon matrix with the given increasing pivot columns (len(pivots) = rank <= n); remaining rows zero"""
    E = [[Fraction(0)] * m for _ in range(n)]
    for i, pc in enumerate(pivots):
        E[i][pc] = F(rng.choice([1, 1, -1, 2, Fraction(1, 2), 3]))
        for j in range(pc + 1, m):
            if rng.random() < 0.7: E[i][j] = F(rentry(rng, kind))
    return E

def norm(A):
    return [[(int(x) if F(x).denominator == 1 else F(x)) for x in r] for r in A]

def nz(A): return len(A) >= 2 and any(x != 0 for r in A for x in r)

def c_det(A, tag): return Case('la_det', line('la_det', A), oracle=o_det(A), nontrivial=nz(A), tag=tag)
def c_inv(A, tag): return Case('la_inv', line('la_inv', A), oracle=o_inv(A), nontrivial=nz(A), tag=tag)
def c_solve(A, b, tag): return Case('la_solve', line('la_solve', A, b), oracle=o_solve(A, b), nontrivial=nz(A), tag=tag)
def c_iim(M, V, tag):
    return Case('la_iim', line('la_iim', M, V), oracle=o_iim(M, V), nontrivial=len(M[0]) >= 2, tag=tag + ':' + iim_expect(M, V))
def c_supp(M, tag):
    return Case('la_supp', line('la_supp', M), oracle=o_supp(M), nontrivial=len(M[0]) >= 2,
                tag=tag + (':full' if rank_q(M) == len(M) else ':deficient'))
def c_image(M, p, tag):
    rk = rank_p(M, p)
    return Case('la_image', line('la_image', M, p), oracle=o_image(M, p), nontrivial=len(M[0]) >= 2 and rk >= 1,
                tag='%s:p=%d:%s' % (tag, p, 'full' if rk == min(len(M), len(M[0])) else 'deficient'))
def c_mulinv(A, B, tag): return Case('la_mulinv', line('la_mulinv', A, B), oracle=o_mulinv(A, B), nontrivial=len(A) >= 2, tag=tag)

def all_mats(n, m, vals=(-1, 0, 1)):
    for t in itertools.product(vals, repeat=n * m):
        yield [list(t[i * m:(i + 1) * m]) for i in range(n)]

def cases(rng, tier):
    th = tier == 'thorough'
    out = []
    # ---------------- 1. exhaustive tiny matrices over {-1,0,1}
    for n in (1, 2):
        for A in all_mats(n, n):
            out.append(c_det(A, 'det-tiny')); out.append(c_inv(A, 'inv-tiny'))
            for b in itertools.product((-1, 0, 1), repeat=n):
                out.append(c_solve(A, list(b), 'solve-tiny'))
    m33 = list(all_mats(3, 3))
    sl = m33 if th else rng.sample(m33, 700)
    for A in sl:
        out.append(c_det(A, 'det-tiny3')); out.append(c_inv(A, 'inv-tiny3'))
        out.append(c_solve(A, [rng.randint(-1, 1) for _ in range(3)], 'solve-tiny3'))
    for (n, m) in ((1, 1), (1, 2), (1, 3), (2, 2), (2, 3)):
        for M in all_mats(n, m):
            out.append(c_supp(M, 'supp-tiny'))
            vs = list(itertools.product((-1, 0, 1), repeat=m))
            if not th and len(vs) > 9: vs = rng.sample(vs, 5)
            for v in vs:
                out.append(c_iim(M, [list(v)], 'iim-tiny'))
    for M in (m33 if th else rng.sample(m33, 300)):
        out.append(c_supp(M, 'supp-tiny3'))
        out.append(c_iim(M, [[rng.randint(-1, 1) for _ in range(3)] for _ in range(rng.randint(1, 2))], 'iim-tiny3'))
    for p, shapes in ((2, ((1, 1), (2, 2), (2, 3), (3, 2), (3, 3))), (3, ((2, 2), (2, 3)))):
        for (n, m) in shapes:
            for M in all_mats(n, m, tuple(range(p))):
                out.append(c_image(M, p, 'image-tiny'))
    if th:
        for M in all_mats(3, 3, (0, 1, 2)): out.append(c_image(M, 3, 'image-tiny'))
        for M in all_mats(4, 3, (0, 1)): out.append(c_image(M, 2, 'image-tiny'))
    # ---------------- 2. random square matrices, with forced rank deficiency
    N = 900 if not th else 12000
    for _ in range(N):
        n = rng.choice([1, 2, 3, 3, 4, 4, 5, 5, 6, 7])
        kind = rng.choice(['small', 'frac', 'frac', 'big'])
        A = rmat(rng, n, n, kind, zero_p=rng.choice([0, 0, 0.3, 0.6]))
        tag = 'random'
        if rng.random() < 0.3:
            A = deficient(rng, A); tag = 'deficient'
        A = norm(A)
        which = rng.random()
        if which < 0.34: out.append(c_det(A, 'det-' + tag))
        elif which < 0.67: out.append(c_inv(A, 'inv-' + tag))
        else:
            b = [rentry(rng, kind) for _ in range(n)]
            out.append(c_solve(A, norm([b])[0], 'solve-' + tag))
    # pivots far down / permutation-like matrices (row swaps, sign)
    for _ in range(120 if not th else 1500):
        n = rng.randint(2, 7)
        perm = list(range(n)); rng.shuffle(perm)
        A = [[0] * n for _ in range(n)]
        for i in range(n):
            A[i][perm[i]] = rentry(rng, 'frac') or 1
            for j in range(perm[i] + 1, n):
                if rng.random() < 0.4: A[i][j] = rentry(rng, 'small')
        A = norm(A)
        out.append(c_det(A, 'det-perm')); out.append(c_inv(A, 'inv-perm'))
        out.append(c_solve(A, [rng.randint(-3, 3) for _ in range(n)], 'solve-perm'))
    # ---------------- 3. rectangular n x m, m >= n: iim and supplement_basis, early and late pivots
    for _ in range(700 if not th else 9000):
        n = rng.randint(1, 5)
        m = n + rng.choice([0, 1, 1, 2, 3])
        if m > 7: m = 7
        kind = rng.choice(['small', 'frac'])
        style = rng.choice(['early', 'late', 'mixed', 'dense'])
        if style == 'dense':
            M = rmat(rng, n, m, kind)
        else:
            if style == 'early': piv = list(range(n))
            elif style == 'late': piv = list(range(m - n, m))
            else: piv = sorted(rng.sample(range(m), n))
            M = echelon(rng, n, m, piv, kind)
            if rng.random() < 0.6: M = matmul(rinvertible(rng, n), M)
            if rng.random() < 0.3: rng.shuffle(M)
        mode = rng.choice(['in', 'in', 'out', 'dep'])
        if mode == 'dep' and n >= 1:
            M = deficient(rng, M) if n >= 2 else [[0] * m]
        M = norm(M)
        r = rng.randint(1, 3)
        X0 = rmat(rng, r, n, kind)
        V = matmul(X0, M)
        if mode == 'out':
            i = rng.randrange(r); j = rng.randrange(m)
            V[i][j] += rng.choice([1, -1, Fraction(1, 3)])
        V = norm(V)
        out.append(c_iim(M, V, 'iim-' + style))
        out.append(c_supp(M, 'supp-' + style))
    # n > m (always dependent) and square cases for iim
    for _ in range(60 if not th else 600):
        m = rng.randint(1, 4); n = m + rng.randint(1, 2)
        M = norm(rmat(rng, n, m, 'small')); V = norm(rmat(rng, rng.randint(1, 2), m, 'small'))
        out.append(c_iim(M, V, 'iim-tall')); out.append(c_supp(M, 'supp-tall'))
    # ---------------- 4. image_mod_p
    for _ in range(900 if not th else 12000):
        p = rng.choice([2, 3, 5, 7, 101])
        n = rng.randint(1, 6); m = rng.choice([1, 2, 3, 3, 4, 4, 5, 6])
        M = [[rng.randrange(p) if rng.random() < 0.8 else 0 for _ in range(m)] for _ in range(n)]
        k = rng.random()
        if k < 0.45 and n >= 2:
            # plant dependencies: some rows are combinations of earlier rows
            for i in range(1, n):
                if rng.random() < 0.5:
                    co = [rng.randrange(p) for _ in range(i)]
                    M[i] = [sum(co[l] * M[l][j] for l in range(i)) % p for j in range(m)]
        elif k < 0.6:
            j = rng.randrange(m)
            for row in M: row[j] = 0
        out.append(c_image(M, p, 'image-random'))
    # ---------------- 4b. image_mod_p for large primes: BigInt entries with p up to beyond a machine word (model and oracle), and the
    # same generic routine instantiated at i64 with p up to 2^31 - 1 (oracle only; entries in [0, p), so that every product the
    # routine forms fits the type) -- in both build profiles: a missing reduction wraps in release and panics in dev
    for _ in range(120 if not th else 1200):
        p = rng.choice([65537, 16777213, 2147483629, 2147483647, 2 ** 61 - 1, 18446744073709551629])
        n = rng.randint(1, 5); m = rng.choice([1, 2, 3, 3, 4, 5])
        M = [[rng.randrange(p) if rng.random() < 0.85 else 0 for _ in range(m)] for _ in range(n)]
        if rng.random() < 0.6 and n >= 2:
            for i in range(1, n):
                if rng.random() < 0.6:
                    co = [rng.randrange(p) for _ in range(i)]
                    M[i] = [sum(co[l] * M[l][j] for l in range(i)) % p for j in range(m)]
        rk = rank_p(M, p)
        tg = 'image-large-p:%s' % ('full' if rk == min(n, m) else 'deficient')
        for prof in ('debug', 'release'):
            out.append(Case('la_image', line('la_image', M, p), oracle=o_image(M, p), nontrivial=m >= 2 and rk >= 1, tag=tg, profile=prof))
            if p < 2 ** 31:
                out.append(Case('la_image_i64', line('la_image_i64', M, p), model=lib.IMPL_ONLY, oracle=o_image(M, p), always_oracle=True,
                                nontrivial=m >= 2 and rk >= 1, tag=tg + ':i64', profile=prof))
    # ---------------- 5. exact right division
    for _ in range(500 if not th else 6000):
        n = rng.randint(1, 6)
        shape = rng.choice(['lower', 'upper', 'diag', 'dense'])
        B = [[0] * n for _ in range(n)]
        for i in range(n):
            for j in range(n):
                if (shape == 'lower' and j < i) or (shape == 'upper' and j > i) or shape == 'dense':
                    B[i][j] = rng.randint(-6, 6)
            if shape != 'dense': B[i][i] = rng.choice([1, 1, -1, 2, 3, 5, 10, -7])
        mode = rng.choice(['exact', 'exact', 'random', 'singular'])
        if mode == 'singular':
            if shape == 'dense': B = [[int(x) for x in r] for r in deficient(rng, B)]
            else:
                i0 = rng.randrange(n); B[i0][i0] = 0      # triangular with a zero on the diagonal
        if mode == 'exact':
            C = [[rng.randint(-9, 9) if rng.random() < 0.9 else rng.getrandbits(70) for _ in range(n)] for _ in range(n)]
            A = [[int(x) for x in r] for r in matmul(C, B)]
        else:
            A = [[rng.randint(-9, 9) for _ in range(n)] for _ in range(n)]
        d = det_bareiss(B)
        tag = 'mulinv-%s:%s' % (shape, 'singular' if d == 0 else mode)
        out.append(c_mulinv(A, B, tag))
    # ---------------- 6. edge and malformed inputs: compared with the model only (outside the property's shapes)
    def raw(op, *args): out.append(Case(op, line(op, *args), nontrivial=False, tag='malformed-' + op))
    E = []
    for op in ('la_det', 'la_inv'):
        raw(op, []); raw(op, [[]]); raw(op, [[0]]); raw(op, [[1], [0, 0]]); raw(op, [[0], [0, 0]]); raw(op, [[1, 2], [3]])
        raw(op, [[1, 2, 9], [3, 4, 9]]); raw(op, [[1, 2], [3, 4], [5, 6]]); raw(op, [[0, 1], []]); raw(op, [[1, 1], [1]])
        raw(op, [[1, 2, 3], [4, 5, 6], [7, 8]]); raw(op, [[1, 2, 3], [0, 0], [0, 0, 1]]); raw(op, [[2, 0, 0], [0], [0, 0, 1]])
    raw('la_solve', [], []); raw('la_solve', [[1, 2], [3, 4]], [5]); raw('la_solve', [[1, 2], [3, 4]], [5, 6, 7]); raw('la_solve', [[1, 2], [3]], [5, 6])
    raw('la_solve', [[1], [3, 4]], [5, 6]); raw('la_solve', [[0, 0], [3]], [5, 6]); raw('la_solve', [[1, 2, 3], [3, 4, 5]], [5, 6])
    raw('la_solve', [[1, 2], [3, 4], [5, 6]], [1, 2, 3]); raw('la_solve', [[]], [1]); raw('la_solve', [[0, 1], [1]], [1, 1])
    raw('la_iim', [], [[1]]); raw('la_iim', [[1]], []); raw('la_iim', [[1, 2]], [[1]]); raw('la_iim', [[]], [[]]); raw('la_iim', [[], []], [[]])
    raw('la_iim', [[1, 2], [3]], [[1, 2]]); raw('la_iim', [[1, 2], [3, 4]], [[1, 2], [3]]); raw('la_iim', [[1, 2, 3], [3, 4]], [[1, 2, 3]])
    raw('la_iim', [[1, 2, 3]], [[2, 4, 6], [1, 2]]); raw('la_iim', [[1, 2, 3]], [[2, 4, 7], [1, 2]]); raw('la_iim', [[1, 2, 3]], [[2, 4, 6], [1]])
    raw('la_iim', [[0, 0], [1]], [[1, 2]]); raw('la_iim', [[1, 0], [1]], [[1, 2]]); raw('la_iim', [[1, 0, 0], [0, 1]], [[1, 2, 0]])
    raw('la_iim', [[1, 2]], [[1, 2, 3]]); raw('la_iim', [[1, 2], [3, 4], [5, 6]], [[1, 2]]); raw('la_iim', [[0, 1, 0], [1, 0]], [[1, 2, 0]])
    raw('la_supp', []); raw('la_supp', [[]]); raw('la_supp', [[], []]); raw('la_supp', [[1, 2], [3]]); raw('la_supp', [[1], [3, 4]])
    raw('la_supp', [[0, 0, 1], [1, 2]]); raw('la_supp', [[1, 0, 0], [1, 2]]); raw('la_supp', [[1, 2, 3], [0, 1, 0, 5]]); raw('la_supp', [[1, 2], [3, 4], [5, 6]])
    raw('la_supp', [[0, 1, 0], [1, 0]]); raw('la_supp', [[0, 0, 1], [0, 1], [1, 0, 0]])
    raw('la_image', [], 5); raw('la_image', [[]], 5); raw('la_image', [[], [1]], 5); raw('la_image', [[1, 2], [3]], 5); raw('la_image', [[1], [3, 4]], 5)
    raw('la_image', [[0, 1], [3]], 5); raw('la_image', [[1, 2], [3, 4]], 0); raw('la_image', [[0, 0], [0, 0]], 0); raw('la_image', [[1, 2]], 0)
    for p in (1, 2, 4, 6, 9, -3, -5, 7):
        for _ in range(6 if not th else 40):
            n = rng.randint(1, 4); m = rng.randint(1, 4)
            raw('la_image', [[rng.randint(-12, 12) for _ in range(m)] for _ in range(n)], p)
    raw('la_mulinv', [], []); raw('la_mulinv', [], [[1]]); raw('la_mulinv', [[1]], []); raw('la_mulinv', [[1, 2], [3, 4]], [[1, 0]])
    raw('la_mulinv', [[1, 2], [3, 4]], [[1, 0], [0]]); raw('la_mulinv', [[1, 2], [3]], [[1, 0], [0, 1]]); raw('la_mulinv', [[1, 2], [3]], [[2, 0], [0, 1]])
    raw('la_mulinv', [[1, 2], [3]], [[0, 0], [0, 1]]); raw('la_mulinv', [[1, 2, 3], [3, 4, 5]], [[1, 0, 7], [0, 1, 7], [9, 9, 9]]); raw('la_mulinv', [[1], [3, 4]], [[1, 0], [0, 1]])
    # random ragged versions of valid inputs
    for _ in range(150 if not th else 2000):
        n = rng.randint(1, 4); m = n + rng.randint(0, 2)
        M = rmat(rng, n, m, 'small', zero_p=0.3)
        i = rng.randrange(n)
        M[i] = M[i][:rng.randrange(0, m)] if rng.random() < 0.7 else M[i] + [1, 2]
        sq = [r[:n] for r in M]
        op = rng.choice(['la_det', 'la_inv', 'la_solve', 'la_iim', 'la_supp', 'la_image', 'la_mulinv'])
        if op in ('la_det', 'la_inv'): raw(op, rng.choice([M, sq]))
        elif op == 'la_solve': raw(op, rng.choice([M, sq]), [rng.randint(-2, 2) for _ in range(n)])
        elif op == 'la_iim':
            V = rmat(rng, rng.randint(1, 2), m, 'small')
            if rng.random() < 0.5: V[-1] = V[-1][:rng.randrange(0, m)]
            raw(op, M if rng.random() < 0.6 else rmat(rng, n, m, 'small'), V)
        elif op == 'la_supp': raw(op, M)
        elif op == 'la_image': raw(op, [[abs(x) % 5 for x in r] for r in M], 5)
        else:
            Bm = rmat(rng, n, n, 'small')
            if rng.random() < 0.5: Bm[rng.randrange(n)] = Bm[0][:rng.randrange(0, n)]
            raw(op, sq if rng.random() < 0.5 else rmat(rng, n, n, 'small'), Bm)
    return out
