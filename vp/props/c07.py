"""C07 factorisation over Z: poly_z::factorize (content, squarefree part, modular factorisation with replayed
random draws, Hensel lifting, subset recombination, multiplicities) against the extracted model, an independent
python oracle for the property's clauses, and the CLI (`rust-number-theory <config>`, to_find = factorization)."""
import os
from math import gcd
import lib
from lib import line, Id, Case, enc, default_compare
from props.polymod_common import (trim, zmul, zscal, zprod, zpow, red, deg, pmonic, pgcd, pdivmod, ppowmod, psub,
                                  pderiv, irreducible_rabin)

NEEDS_CLI = True
TIMEOUT = 1500
STRICT = bool(os.environ.get('C07_STRICT'))          # development: report order-only differences too

PROVED = [
    '[P] factorize_zero, factorize_const: (0, []) for the zero polynomial and (c, []) for a non-zero constant c, for every draw stream',
    '[P] factors_divide (on factorize_full = factorize + ghost final cofactor; factorize_is_full_run ties the two): for every completed run on a canonical input, '
    'with pp the primitive part: pp = cof * prod f_i^e_i exactly, every e_i >= 0, every f_i was divided out as often as possible (f_i does not divide the cofactor '
    'left at that time: soundness and completeness of div_exact, C09), the cofactor is canonical; factor_power_divides_pp: every f_i^e_i divides pp',
    '[P] content_is_signed_content: c divides every coefficient, every common divisor of the coefficients divides c, c > 0 <-> lc(a) > 0',
    '[P] factors_primitive_positive (third wave; replaces the [C] factors_primitive_positive_partial, which is kept): every returned polynomial, the last one included, is canonical, '
    'primitive and has lc > 0, for every completed run (resultant_gcd returns lc > 0: C10 gcd_spec, now unconditional)',
    '[P] squarefree_part_spec (third wave): for a canonical non-constant input with primitive part pp, resultant_gcd(pp, pp\') returns g, div_exact(pp, g) succeeds with quotient q '
    '(so the expect("This division cannot fail") of mod.rs:24 never fires: the run equals the rest of the pipeline applied to q), pp = q g with g associated over Q to gcd(pp, pp\') '
    '(MathComp gcdp), q is square-free over Q (coprimep q q\'), and every divisor of pp coprime to q is a non-zero constant (every irreducible factor of pp divides q); '
    'squarefree_part_char0: the abstract statement over any integral domain of characteristic 0 (Refine/PolyZFactorW3Sqf.v)',
    '[P] multiplicities_positive (third wave): every returned polynomial is non-constant and every e_i >= 1; multiplicities_exact / multiplicities_exact_input: f_i^k divides pp '
    '(resp. the input) over Q -- equivalently in Z[x], f_i being primitive -- iff k <= e_i',
    '[P] factors_pairwise_distinct (third wave): the returned polynomials are pairwise distinct and any two of them are coprime over Q',
    '[P] product_up_to_cofactor (third wave): for a non-constant input a = c * cof * prod f_i^e_i where the ghost cofactor cof is primitive with lc > 0, '
    'gcd(pp, pp\') as computed by the run = cof * prod f_i^(e_i - 1), and every divisor of cof coprime to prod f_i is a non-zero constant',
    '[P] factorize_product_squarefree (third wave): the product clause for every input without repeated factor (coprimep a a\', a hypothesis on the input): cof = [1], every e_i = 1, a = c * prod f_i',
    '[C] factorize_product_of_irreducible (third wave): the product clause for all inputs under the hypothesis that every returned polynomial is irreducible over Q '
    '(MathComp irreducible_poly): then cof = [1] and a = c * prod f_i^e_i; [C] factorize_product_partial: the same if the final cofactor of the run is [1] '
    '(the correspondence check reports every model run whose final cofactor is not [1])',
    '[P] recombination_expect_unreachable / subset_test_expect_unreachable (third wave): the expect("This division will always succeed") of the recombination (mod.rs:109) never fires '
    '(Gauss: pp(prod) divides a when prod divides lc(a) a); with squarefree_part_spec neither expect of poly_z::factorize can fire',
    '[P] hensel_lift_unique (third wave): uniqueness of Hensel lifts in Z[x] (A B = A\' B\' mod p^e, A = A\', B = B\' mod p, same degrees and leading coefficients prime to p, A and B coprime mod p '
    '=> A = A\', B = B\' mod p^e); true_factors_split_lifted: every factorisation a = u v in Z[x] of a polynomial with a lifted factorisation a = lc(a) prod l_i mod p^e (l_i monic, irreducible and '
    'pairwise coprime mod p) splits the l_i: u = lc(u) prod_{i in S} l_i, v = lc(v) prod_{i not in S} l_i mod p^e',
    '[C] squarefree_factors_irreducible_partial, factors_irreducible_partial, factorize_complete_partial (third wave): every polynomial returned by get_factors_of_squarefree / factorize_full '
    'is irreducible over Q (MathComp irreducible_poly over Z = irreducible in Q[x]), and then the final cofactor is 1 and a = c * prod f_i^e_i, conditional on values of the run: the prime found by the search '
    'equals its machine-word copy (not wrapped by `as i32`) and the modulus p^e chosen by the run exceeds 2 |lc(v) u_i| for every factorisation q = u v in Z[x] of the square-free part and every i '
    '(prec_ok: the conclusion of the Landau-Mignotte bound, which is NOT proved); uses C08 (monic, irreducible, pairwise distinct modular factors multiplying to the input), C11 (lift_factorization_spec), '
    'the mask order of the subset enumeration, completeness and soundness of each subset test',
    '[P] landau_mignotte_bound (third wave): if q = u v in Z[x], q <> 0, then |lc(v) u_i| <= C(deg u, i) * sum_j |q_j| for every i (over MathComp\'s algebraic numbers: Landau\'s inequality by '
    'Mignotte\'s reflection argument + binomial bound on the coefficients of prod (x - a_i)); coefficient_bound_sufficient: every modulus above the bound (|lc| + sum |a_i|) 2^(n-1) 2 |lc| computed by the code '
    'exceeds 2 |lc(v) u_i| for every factorisation q = u v and every i (prec_ok)',
    '[C] squarefree_factors_irreducible_flag, factorize_correct_flag (third wave): for every completed run on a canonical input of at most 2^32 coefficients, if the prime returned by the prime search for the '
    'square-free part equals its machine-word copy (find_prime returns (p, p): the prime was not wrapped by `as i32`, i.e. it is below 2^31 -- a value of the run; primes found on all explored inputs are tiny) then '
    'every returned polynomial is irreducible over Q, the final cofactor is 1 and a = c * prod f_i^e_i: together with the unconditional clauses above, the whole property C07 for such runs',
    '[P] squarefree_factors_product: the polynomials returned by get_factors_of_squarefree multiply back to its argument; all but the last are primitive with lc > 0',
    '[P] multiplicity_any: the multiplicity loop returns the true multiplicity n for every n (a = c f^n, f non-constant, f not dividing c -> (c, n)); '
    'multiplicity_no_panic / multiplicity_loops_no_panic: no panic from the loops; multiplicity_loops_terminate: the fuel supplied by the model suffices for non-constant divisors',
    '[P] subset_enumeration_is_mask_order: the model\'s structural enumeration of the subsets (find_subset) is the first success of the loop body over the bit sets of '
    'k = 0 .. 2^len - 1 with popcount d in increasing k, i.e. the mask loop of the Rust code',
    '[P] fuel: exponent_loop_spec (the exponent loop terminates on the supplied fuel and returns the least p^e > bound, p >= 2), coefficient_bound_no_overflow '
    '(no usize overflow for a non-constant polynomial; closed form of the bound), recombination_terminates (the recombination loop never runs out of the supplied fuel)',
    '[P] factorize_correct_sized (fifth wave; removes the run-computed condition of factorize_correct_flag): for EVERY canonical input of degree <= 25 (size a <= 26, the recombination limit of the property) whose '
    'coefficients satisfy log2 |a_i| < 2^24 = 16777216 (at most 2^24 bits each), every completed run, for every draw stream, returns the irreducible factorisation: final cofactor 1, a = c * prod f_i^e_i, every f_i '
    'irreducible over Q; with the unconditional clauses above this is the whole property C07 for such inputs, with a hypothesis on the INPUT only. prime_not_wrapped_sized: for a square-free non-constant q dividing such an a in Z[x] '
    'the prime search returns (p, p) with p prime below 2^31',
    '[P] find_prime_small (fifth wave): a prime is rejected by the search only if it divides D = lc(q) * Res(q, q\') (Bezout identity u q\' + v q = Res over Z, MathComp resultant_in_ideal, reduced mod p: the gcd computed by poly_gcd divides a '
    'non-zero constant): for every prime p0 < 2^31 not dividing D, a returned pair (p, pu) has p = pu, p prime, p <= p0',
    '[P] primorial_lower_bound (fifth wave): 4^n <= (2n)^(s+2) * prod_{p <= 2n} p whenever 2n < (s+1)^2 (from the Bertrand development: 4^n <= 2n C(2n,n), p^(v_p C(2n,n)) <= 2n, v_p <= 1 for p > sqrt(2n)); '
    'small_prime_exists: a non-zero integer D with log2 |D| < 2^30 has a prime p < 2^31 not dividing it. Size of D: Leibniz bound |det A| <= n! M^n on the Sylvester matrix (Refine/W5DetBound.v) and |q_i| <= 2^deg(q) ||a||_1 for a divisor q of a '
    '(Landau-Mignotte) give log2 |D| <= 50 B + 2039 for coefficients of at most B bits and degree <= 25',
    '[P] find_prime_terminates (seventh wave): for every canonical non-constant q, square-free over Q, with prime_fuel q = 2 len (log2 ||q||_1 + log2 len + 2) + 8 <= 2^30 (a condition on the size of q only; '
    'for degree 25 it allows coefficients of 20 million bits) the prime search find_prime (prime_fuel q) q 2 -- the call made by get_factors_of_squarefree -- returns on the supplied fuel (no OutOfFuel, no panic) a pair (p, p) with p prime below 2^31; '
    'find_prime_terminates_of_small_prime: the same without any size condition for every q such that some prime p0 < 2^31 does not divide D = lc(q) Res(q\', q) (the result is then a prime <= p0). '
    'Proof: a rejected prime divides D (find_prime_small), k distinct rejected primes give 2^k <= |D|, discriminant_below_fuel: |D| <= n^n ||q||_1^(2n) < 2^(prime_fuel q - 8) by the row-sum bound of the Sylvester determinant '
    '(determinant_row_sum_bound: |det A| <= prod_i sum_j |A_ij| over any numeric domain, from the Leibniz formula and MathComp bigA_distr_bigA; resultant_l1_bound: |Res(p, q)| <= ||p||_1^deg(q) ||q||_1^deg(p)); the primes tried are real primes '
    'below 2^31 on which the iterator returns (C19 primes_next_total) and poly_mod / differential / poly_gcd are total (C08)',
    '[P] factorize_no_panic_sized (seventh wave): for EVERY canonical input of degree <= 25 whose coefficients have at most 2^24 bits (the inputs of factorize_correct_sized), every draw stream and both profiles, factorize returns a value or '
    'runs out of fuel, and in the latter case it was factorize_mod_p on the square-free part q = pp / gcd(pp, pp\') and the prime found by the search that exhausted its retry fuel (400 failed random splits in a row / 4096 rejected samples: C08). '
    'No panic: no assert!, expect, index, overflow or division-by-zero panic of poly_z::factorize, factorize_mod_p, lift_factorization and their helpers is reachable from these inputs; in particular the check that all modular multiplicities are 1 '
    'passes (q mod p is square-free because p passed the gcd test of the search), the Hensel lifting returns (distinct monic irreducibles mod p are pairwise coprime with Bezout witnesses in Z[x]: C11 lift_factorization_total), '
    'assert!(lifted.len() <= 25) passes (at most deg q <= 25 lifted factors), every subset test returns (indices in range, modulus non-zero, subset product non-zero mod p^e so prod.deg() + 1 does not overflow) and the recombination and '
    'multiplicity loops terminate on their fuel. squarefree_factors_no_panic_sized: the same for get_factors_of_squarefree on a canonical square-free q of degree 1..25 with prime_fuel q <= 2^30; '
    '[C] squarefree_factors_no_panic_partial: the same for any canonical q of degree 1..25 conditional on the run-computed flag "the prime search returned (p, p)"',
    'non-vacuity: complete runs by vm_compute: (x+1)^7, 3x^2(x+1)^12, 4x^4+1 with the 40 logged random bytes, -6(x^2+x+1)(2x^2+1), x^4-10x^2+1 (split mod every prime); '
    'the gcd and square-free part of (x+1)^7; the separability hypothesis for x^4-10x^2+1 and -6(x^2+x+1)(2x^2+1); the irreducibility hypothesis for the run on (x+1)^7',
]
NOT_PROVED = [
    'irreducibility of the returned factors and the product clause for inputs with repeated factors for inputs BEYOND the size bound of factorize_correct_sized (degree > 25 -- outside the property -- or some coefficient of more than '
    '2^24 bits) without the run-computed condition "the prime found equals its machine-word copy" (factorize_correct_flag covers those runs conditionally): for a polynomial whose lc * discriminant is divisible by every prime below 2^31 '
    '(at least 2^30 bits) the code would wrap the prime to a negative i32 (the faithful model does the same). The bound 2^24 bits is not optimal, but the row-sum bound of the seventh wave (log2 |lc Res| <= 50 B + 1925 instead of 50 B + 2039 for B-bit coefficients) would only raise it to about 21 million bits: '
    'the limit is the 2^30 bits of the product of the primes below 2^31',
    'termination of the prime search and absence of panics BEYOND the size bounds of find_prime_terminates (prime_fuel q <= 2^30, or a prime below 2^31 not dividing lc(q) Res(q\', q)) and factorize_no_panic_sized (degree <= 25, coefficients of at most 2^24 bits): '
    'there the faithful model wraps primes >= 2^31 through `as i32` to negative (or tiny) moduli and the tests made with them are no longer divisibility tests, so neither the fuel bound nor the totality of the modular routines is available; '
    'for more than 25 modular factors (degree > 25, outside the property) the assert!(lifted.len() <= 25) fires',
    'termination of the modular factorisation for ALL draw streams (probability 1 only: the model gives up after 400 failed random splits in a row / 4096 rejected samples, the Rust code keeps drawing); '
    'the prime search (within the size bound), the exponent loop, the recombination loop and the multiplicity loops are proved to terminate on the supplied fuel',
]
RULE = ('poly_z::factorize with logged random draws replayed by the model: every coefficient vector of length 4 over {-2..2} (all polynomials of degree <= 3, '
        'trailing zeros included) and 300 of degree 4 (thorough: all 2500); products c * prod g_i^e_i of 1-4 distinct factors from a table of 33 certified irreducibles '
        'of degree 1-5 (non-monic, Eisenstein, cyclotomic, coefficients up to 10^17) with multiplicities 1-12, contents +-1..+-12, total degree <= 16 (thorough 40); '
        'random irreducibles with 16-90 bit coefficients; high powers of one factor (up to 30); x^n - 1 (n <= 12 / 24), x^n + 1; polynomials irreducible over Z that split '
        'modulo every prime (x^4+1, x^4-10x^2+1, Phi_12, x^4+9, x^4-10x^2+49, degree 8: (sqrt2,sqrt3,sqrt5), Phi_16, Phi_24) and their products; products of up to 11 (25) '
        'distinct linear factors; zero, constants, powers of x, leading coefficients divisible by 2..17, scripted draw streams (all 0 / all 255 bytes: rejection and retries); '
        'thorough: 26 linear factors (assert!(lifted.len() <= 25), outside the property). CLI: `rust-number-theory <config>` with to_find = factorization on the same '
        'kinds of inputs, with trailing zero coefficients in the configuration, against the model run on the CLI\'s own (default-seeded) draw stream and against the library. '
        'Non-trivial = input of degree >= 1.')
CLAIM = dict(
    technique='Coq proof (MathComp {poly Z} as specification, on top of the C09 refinement, the unconditional C10 gcd theorems and Gauss\'s lemma; square-free theory in characteristic 0 '
              'on top of MathComp separable.v) about the Gallina model Model/PolyZFactor.v + extracted-model-vs-implementation '
              'correspondence with replayed random draws + independent python oracle (exact product, content, primitivity, distinctness, multiplicities by repeated exact division, '
              'irreducibility by modular degree patterns / Kronecker search)',
    text='coq/Props/C07.v: for every canonical input and every draw stream, a completed run returns the signed content c and pairs (f_i, e_i) such that every f_i is canonical, primitive, '
         'non-constant with positive leading coefficient, the f_i are pairwise distinct and pairwise coprime over Q, every e_i >= 1 is the exact multiplicity of f_i in the input, and '
         'a = c * cof * prod f_i^e_i for a ghost cofactor cof that is primitive, positive, divides gcd(pp, pp\') and has all its irreducible factors among those of prod f_i. The square-free part '
         'is computed correctly (gcd and exact division never fail; the quotient is square-free and has every irreducible factor of the input). The product clause a = c * prod f_i^e_i is '
         'proved for all square-free inputs, and for all inputs if the returned polynomials are irreducible or the run\'s final cofactor is 1. Irreducibility of every returned polynomial, hence the whole property (cofactor 1, a = c * prod f_i^e_i, f_i irreducible), is proved for every completed run on EVERY input of degree <= 25 whose coefficients have at most 2^24 bits (factorize_correct_sized: a hypothesis on the input only; a rejected prime divides lc * Res(q, q\') of the square-free part, which has fewer than 2^30 bits, and the product of the primes below 2^31 has more), and beyond that size for every completed run on an input of at most 2^32 coefficients whose prime search returned a prime below 2^31 (not wrapped by `as i32`; a value of the run): Landau-Mignotte bound (over the algebraic numbers) => the modulus p^e chosen by the code suffices; uniqueness of Hensel lifts; soundness and completeness of the subset search in mask order (with C08 and C11). Neither expect() of poly_z::factorize can fire. Seventh wave: for every input of degree <= 25 with coefficients of at most 2^24 bits, every draw stream and both profiles, factorize does not panic (factorize_no_panic_sized: it returns a value, or the model\'s OutOfFuel exactly when the randomised modular factorisation exhausted its retry fuel), and the prime search returns on the fuel the model supplies (find_prime_terminates: size condition prime_fuel q <= 2^30, via |lc Res(q\', q)| <= n^n ||q||_1^(2n) from the row-sum bound of the Sylvester determinant). Zero gives (0, []), a constant c gives (c, []). '
         'The model is tied to /repo by running the extracted model on the random bytes logged by the implementation: identical answers including the order of the factors and the number of bytes consumed.',
    note='Irreducibility and the product clause for inputs with repeated factors are [P] for inputs of degree <= 25 with coefficients of at most 2^24 bits, and [C] beyond (conditional on the run-computed flag "prime found = its machine-word copy" (p < 2^31) and on at most 2^32 coefficients); '
         'they are also checked by the oracle (always_oracle) and by the cofactor flag of every model run. Termination of the prime search is [P] within the size bound prime_fuel q <= 2^30 (find_prime_terminates) and absence of panics is [P] for inputs of degree <= 25 with coefficients of at most 2^24 bits (factorize_no_panic_sized); '
         'beyond these bounds both are on fuel / not proved (as i32 wrap of primes >= 2^31). Termination of the modular factorisation holds with probability 1 only and stays on fuel.',
    ref='DESIGN.md section 4, C07')

# ------------------------------------------------------------------ Z[x] helpers (independent of the model)

def zdivexact(a, b):
    """q with a = q b in Z[x], or None; b non-zero"""
    assert b
    if not a: return []
    if len(a) < len(b): return None
    r = list(a); q = [0] * (len(a) - len(b) + 1)
    for i in range(len(a) - len(b), -1, -1):
        c, m = divmod(r[i + len(b) - 1], b[-1])
        if m: return None
        q[i] = c
        if c:
            for j, y in enumerate(b): r[i + j] -= c * y
    if any(r): return None
    return trim(q)

def content(a):
    """signed content: gcd of the coefficients with the sign of the leading coefficient (0 for 0)"""
    g = 0
    for c in a: g = gcd(g, c)
    return -g if a and a[-1] < 0 else g

def zeval(a, x):
    s = 0
    for c in reversed(a): s = s * x + c
    return s

PRIMES = [p for p in range(2, 400) if all(p % q for q in range(2, int(p ** 0.5) + 1))]

def degree_pattern(f, p):
    """degrees of the irreducible factors of f mod p (f squarefree mod p, p not dividing lc f)"""
    g = pmonic(red(f, p), p); x = [0, 1]; xp = x; out = []; d = 0
    while deg(g) >= 2 * (d + 1):
        d += 1
        xp = ppowmod(xp, p, g, p)
        h = pgcd(psub(xp, x, p), g, p)
        if deg(h) > 0:
            out += [d] * (deg(h) // d)
            g = pdivmod(g, h, p)[0]
            if deg(g) > 0: xp = pdivmod(xp, g, p)[1]
    if deg(g) > 0: out.append(deg(g))
    return out

def divisors(n, limit=200000):
    """all positive divisors of n > 0, or None when n is not completely factored by trial division below limit"""
    fs = []; d = 2; m = n
    while d * d <= m and d < limit:
        if m % d == 0:
            e = 0
            while m % d == 0: m //= d; e += 1
            fs.append((d, e))
        d += 1 if d == 2 else 2
    if m > 1:
        if d * d <= m: return None           # cofactor possibly composite
        fs.append((m, 1))
    out = [1]
    for q, e in fs:
        out = [x * q ** k for x in out for k in range(e + 1)]
    return out

def kronecker(f, D, budget=400000):
    """Kronecker's method: a divisor g of f in Z[x] with 1 <= deg g <= D is determined by its values at D + 1 points,
    and g(x) | f(x) there. Returns a proper factor, None (no factor of degree <= D exists), or 'undecided'."""
    pts = []
    for x in sorted(range(-12, 13), key=abs):
        v = zeval(f, x)
        if v == 0: return [-x, 1]
        ds = divisors(abs(v))
        if ds is not None: pts.append((len(ds), x, ds))
    pts.sort()
    pts = pts[:D + 1]
    if len(pts) < D + 1: return 'undecided'
    total = 1
    for k, (n, _, _) in enumerate(pts): total *= n * (1 if k == 0 else 2)
    if total > budget: return 'undecided'
    xs = [x for _, x, _ in pts]
    # Lagrange basis with a common denominator: L_i = N_i / den_i, N_i integer
    num = []; dens = []
    for i, xi in enumerate(xs):
        N = [1]; den = 1
        for j, xj in enumerate(xs):
            if j != i: N = zmul(N, [-xj, 1]); den *= (xi - xj)
        num.append(N); dens.append(den)
    L = 1
    for d in dens: L = L * abs(d) // gcd(L, abs(d))
    num = [zscal(L // d, N) for N, d in zip(num, dens)]            # g = sum v_i num_i / L
    choices = [pts[0][2]] + [[s * d for d in ds for s in (1, -1)] for _, _, ds in pts[1:]]
    n = D + 1
    def rec(k, acc):
        if k == n:
            if any(c % L for c in acc): return None
            g = trim([c // L for c in acc])
            if 1 <= deg(g) < deg(f) and zdivexact(f, g) is not None: return g
            return None
        Nk = num[k]
        for v in choices[k]:
            r = rec(k + 1, [a + v * b for a, b in zip(acc, Nk + [0] * (n - len(Nk)))])
            if r is not None: return r
        return None
    return rec(0, [0] * n)

_IRR = {}
def irreducible_z(f):
    """f primitive of degree >= 1: True / False (with certificate search) / None = undecided"""
    key = tuple(f)
    if key not in _IRR: _IRR[key] = _irreducible_z(f)
    return _IRR[key]

def _irreducible_z(f):
    n = deg(f)
    if n == 1: return True
    half = (1 << (n // 2 + 1)) - 2                       # bits 1 .. n/2
    possible = half
    used = 0
    for p in PRIMES:
        if f[-1] % p == 0: continue
        fp = red(f, p)
        if deg(pgcd(fp, pderiv(fp, p), p)) != 0: continue
        pat = degree_pattern(fp, p)
        if len(pat) == 1: return True                    # irreducible modulo p
        m = 1
        for d in pat: m |= m << d
        possible &= m
        if possible == 0: return True                    # no degree 1..n/2 is a sum of modular degrees for every prime
        used += 1
        if used >= 12: break
    D = possible.bit_length() - 1
    r = kronecker(f, D)
    if r == 'undecided': return None
    return r is None

def show(f): return enc(list(f))

# ------------------------------------------------------------------ oracle

UNDECIDED = [0]

def check_factorization(a, c, fs, irreducibility=True):
    """the clauses of C07 on an answer (c, [(f_i, e_i)]) for the input a (trimmed); None or a description"""
    a = trim(a)
    if not a:
        return None if (c == 0 and fs == []) else 'zero polynomial gave (%s, %s)' % (c, fs)
    if c != content(a): return 'content %s, expected the signed content %s' % (c, content(a))
    if len(a) == 1:
        return None if fs == [] else 'constant gave factors %s' % (fs,)
    prod = [c]
    seen = []
    pp = [x // c for x in a]
    for g, e in fs:
        if not isinstance(e, int) or e < 1: return 'multiplicity %r of %s' % (e, show(g))
        if trim(g) != g or len(g) < 2: return 'factor %s is constant or not normalised' % show(g)
        if g[-1] <= 0: return 'factor %s has a non-positive leading coefficient' % show(g)
        if abs(content(g)) != 1: return 'factor %s is not primitive' % show(g)
        if g in seen: return 'factor %s returned twice' % show(g)
        seen.append(g)
        # true multiplicity by repeated exact division of the primitive part
        q = pp; k = 0
        while True:
            q2 = zdivexact(q, g)
            if q2 is None: break
            q = q2; k += 1
        if k != e: return 'factor %s has multiplicity %d in the input, returned %d' % (show(g), k, e)
        prod = zmul(prod, zpow(g, e))
    if prod != a: return 'c * prod f_i^e_i = %s differs from the input %s' % (show(prod), show(a))
    if irreducibility:
        for g, e in fs:
            r = irreducible_z(g)
            if r is None: UNDECIDED[0] += 1
            elif r is False: return 'factor %s is reducible over Z' % show(g)
    return None

def o_lib(f):
    def orc(ia):
        if ia.kind != 'ok': return 'factorize(%s) did not return: %s' % (show(f), ia.raw[:120])
        if ia.val[0] != 'ok': return 'factorize(%s) panicked: %s' % (show(f), ia.val[1])
        c, fs = ia.val[1]
        return check_factorization(f, c, [(list(g), e) for g, e in fs])
    return orc

def o_cli(f):
    def orc(ia):
        if ia.kind != 'ok' or ia.val == Id('cli_failed'): return 'CLI factorization of %s did not return: %s' % (show(f), ia.raw[:120])
        c, fs = ia.val
        return check_factorization(f, c, [(list(g), e) for g, e in fs])
    return orc

# ------------------------------------------------------------------ comparison with the model

def same_multiset(iv, mv):
    return iv[0] == mv[0] and sorted(enc(x) for x in iv[1]) == sorted(enc(x) for x in mv[1])

def compare_lib(ia, ma):
    """implementation: ok [ok [c fs] bytes] | ok [panic cls bytes]; model: ok [ok [c fs] remaining exhausted cofactor] | panic cls.
    Level (a): identical value (order included) and every logged byte consumed; level (b): the same content and the
    same multiset of (factor, multiplicity) when only the order / the consumption differs."""
    if ia.kind != 'ok': return default_compare(ia, ma)
    if ia.val[0] == 'panic':
        if ma.kind == 'panic' and ma.cls == str(ia.val[1]): return None
        return 'implementation panicked (%s), model %r' % (ia.val[1], ma.raw[:200])
    if ma.kind != 'ok' or ma.val[0] != 'ok':
        return 'implementation %r vs model %r' % (ia.raw[:200], ma.raw[:200])
    iv, mv = ia.val[1], ma.val[1]
    # the model's ghost result: what is left after all exact divisions (hypothesis of factorize_product_partial)
    if ma.val[4] != [1]: return 'the final cofactor of the model run is %s, not 1' % enc(ma.val[4])[:200]
    exact = enc(iv) == enc(mv) and ma.val[2] == 0 and ma.val[3] is False
    if exact: return None
    if STRICT or not same_multiset(iv, mv):
        return 'implementation %r vs model %r (remaining bytes %s, exhausted %s)' % (enc(iv)[:200], enc(mv)[:200], ma.val[2], ma.val[3])
    return None

def compare_cli(ia, ma):
    """CLI: ok [c fs] | ok cli_failed; model (run on the CLI's default draw stream): as above"""
    if ia.kind != 'ok': return default_compare(ia, ma)
    if ia.val == Id('cli_failed'):
        return None if ma.kind == 'panic' else 'CLI failed, model %r' % ma.raw[:200]
    if ma.kind != 'ok' or ma.val[0] != 'ok': return 'CLI %r vs model %r' % (ia.raw[:200], ma.raw[:200])
    if ma.val[3] is not False: return 'model ran out of the prepared draw stream'
    iv, mv = ia.val, ma.val[1]
    if enc(iv) == enc(mv): return None
    if STRICT or not same_multiset(iv, mv): return 'CLI %r vs model %r' % (enc(iv)[:200], enc(mv)[:200])
    return None

def model_lib(f):
    def mk(ia):
        if ia.kind != 'ok': return line('polyz_factorize', f, [])
        return line('polyz_factorize', f, ia.val[2])
    return mk

# the generator state of a fresh thread in a binary built with verif-hooks: no script, splitmix64 from this seed
CLI_SEED = 0x9E3779B97F4A7C15
def splitmix_bytes(seed, n):
    out = []; sm = seed; M = (1 << 64) - 1
    while len(out) < n:
        sm = (sm + 0x9E3779B97F4A7C15) & M
        z = sm
        z = ((z ^ (z >> 30)) * 0xBF58476D1CE4E5B9) & M
        z = ((z ^ (z >> 27)) * 0x94D049BB133111EB) & M
        z ^= z >> 31
        out += [(z >> (8 * i)) & 255 for i in range(8)]
    return out[:n]
CLI_STREAM = splitmix_bytes(CLI_SEED, 3072)

def lib_case(rng, f, tag, nontrivial=True, script=(), seed=None, inside=True):
    """inside=False: the input is outside the property (no oracle; implementation and model must still behave alike)"""
    seed = rng.getrandbits(64) if seed is None else seed
    return Case('polyz_factorize', line('polyz_factorize', f, seed, list(script)), model=model_lib(f), compare=compare_lib,
                oracle=o_lib(f) if inside else None, always_oracle=inside, nontrivial=nontrivial and deg(trim(f)) >= 1, tag=tag)

def cli_cases(f, tag, zeros=0):
    """the CLI on f (with `zeros` trailing zero coefficients appended in the configuration) against the model run on the
    CLI's draw stream, and the library with the same stream (seed, empty script) against the model"""
    fz = list(f) + [0] * zeros
    return [Case('cli_factor_poly', line('cli_factor_poly', fz), model=line('polyz_factorize', fz, CLI_STREAM), compare=compare_cli,
                 oracle=o_cli(f), always_oracle=True, nontrivial=deg(trim(f)) >= 1, tag='cli-' + tag),
            Case('polyz_factorize', line('polyz_factorize', fz, CLI_SEED, []), model=model_lib(fz), compare=compare_lib,
                 oracle=o_lib(f), always_oracle=True, nontrivial=deg(trim(f)) >= 1, tag='cli-lib-' + tag)]

# ------------------------------------------------------------------ generators

# hand-picked irreducibles (degree 1-5; non-monic, Eisenstein, cyclotomic, Swinnerton-Dyer type); each is re-certified by
# irreducible_z when the module builds its cases
TABLE = [
    [0, 1], [1, 1], [-1, 1], [1, 2], [-2, 3], [7, 1], [3, 5], [-1000003, 1], [98765432109876543, 12345678901234567],
    [1, 0, 1], [1, 1, 1], [-2, 0, 1], [1, 2, 2], [1, -2, 2], [5, 1, 3], [-1, -1, 1], [1000000007, 0, 1], [17, 30030, 30030],
    [-2, 0, 0, 1], [1, 1, 0, 1], [3, 3, 0, 2], [1, -3, 0, 1], [5, 0, 10, 7],
    [1, 0, 0, 0, 1], [1, 0, -10, 0, 1], [1, 1, 1, 1, 1], [-2, 0, 0, 0, 1], [5, 5, 0, 0, 3], [1, 0, -1, 0, 1], [9, 0, 0, 0, 1],
    [-1, -1, 0, 0, 0, 1], [-2, 0, 0, 0, 0, 1], [3, 0, 0, 6, 0, 2],
]
SD4 = [[1, 0, -10, 0, 1], [1, 0, 0, 0, 1], [1, 0, -1, 0, 1], [9, 0, 0, 0, 1], [49, 0, -10, 0, 1]]       # split modulo every prime
SD8 = [[576, 0, -960, 0, 352, 0, -40, 0, 1],            # (x +- sqrt2 +- sqrt3 +- sqrt5)
       [1, 0, 0, 0, -1, 0, 0, 0, 1],                    # Phi_24
       [1, 0, 0, 0, 0, 0, 0, 0, 1]]                     # Phi_16

def random_irreducible(rng, d, bits):
    """random polynomial of degree d with coefficients of about `bits` bits that is irreducible modulo some prime"""
    while True:
        f = [rng.randrange(-2 ** bits, 2 ** bits + 1) for _ in range(d)] + [rng.randrange(1, 2 ** bits + 1)]
        c = abs(content(f))
        f = [x // c for x in f]
        if f[0] != 0 and irreducible_z(f) is True: return f

def small_vectors(n):
    """all coefficient vectors of length n over {-2..2}, lowest index fastest"""
    cur = [-2] * n
    while True:
        yield list(cur)
        i = 0
        while i < n:
            cur[i] += 1
            if cur[i] <= 2: break
            cur[i] = -2; i += 1
        if i == n: return

def planted(rng, table, maxdeg, maxfac=4, maxmult=12, bigmult=2):
    """c * prod g_i^e_i with distinct g_i from the table. Factors with coefficients above 10^5 get a multiplicity <= bigmult:
    the extracted model computes on Coq's binary integers and the sub-resultant gcd of a high power of such a factor
    takes minutes there (the implementation does not care)."""
    k = rng.randrange(1, maxfac + 1)
    fs = []; total = 0
    for _ in range(k):
        g = rng.choice(table)
        if g in [h for h, _ in fs]: continue
        room = (maxdeg - total) // deg(g)
        if room < 1: continue
        e = min(room, rng.choice([1, 1, 1, 2, 2, 3, 4, 5, 6, 7, 8, 12]), maxmult)
        if max(abs(x) for x in g) > 10 ** 5: e = min(e, bigmult)
        fs.append((g, e)); total += e * deg(g)
    if not fs: fs = [(rng.choice(table[:9]), 1)]
    c = rng.choice([1, 1, -1, -1] + list(range(-12, 13)))
    if c == 0: c = -7
    f = [c]
    for g, e in fs: f = zmul(f, zpow(g, e))
    return f, fs

PROFILES = ('debug', 'release')

def cases(rng, tier):
    th = tier == 'thorough'
    for g in TABLE + SD4 + SD8:
        assert abs(content(g)) == 1 and g[-1] > 0 and irreducible_z(g) is True, 'table entry %s is not certified irreducible' % (g,)
    out = []
    # ---- zero, constants (with trailing zeros: from_raw)
    for f in [[], [0], [0, 0, 0], [1], [-1], [6], [-12], [5, 0, 0], [2 ** 70], [-(10 ** 30), 0]]:
        out.append(lib_case(rng, f, 'zero-const', nontrivial=False))
    # ---- every polynomial of degree <= 3 over {-2..2} (all vectors of length 4, trailing zeros included), part of degree 4
    for f in small_vectors(4):
        out.append(lib_case(rng, f, 'all-deg<=3'))
    deg4 = [f for f in small_vectors(5) if f[-1] != 0]
    if not th: deg4 = rng.sample(deg4, 300)
    for f in deg4:
        out.append(lib_case(rng, f, 'all-deg4' if th else 'slice-deg4'))
    # ---- planted products
    big_table = [random_irreducible(rng, d, b) for d, b in [(1, 70), (2, 40), (2, 90), (3, 30), (3, 64), (4, 20), (5, 16)]]
    huge = [98765432109876543, 12345678901234567]
    for _ in range(400 if th else 110):
        # (quick: the 17-digit linear factor only appears in the large-coefficient stream below: Hensel lifting to
        # p^e > 10^80 takes the extracted model 20 s)
        f, fs = planted(rng, TABLE if th else [g for g in TABLE if g != huge], 40 if th else 16, bigmult=3 if th else 2)
        out.append(lib_case(rng, f, 'planted-%dfactors%s' % (len(fs), '-mult>=6' if any(e >= 6 for _, e in fs) else '')))
    for _ in range(70 if th else 12):
        f, fs = planted(rng, big_table + TABLE[:9], 14 if th else 7, maxfac=3 if th else 2, maxmult=3, bigmult=3 if th else 1)
        out.append(lib_case(rng, f, 'planted-large-coefficients'))
    # one factor to a high power: multiplicity loop
    for g, e in [([1, 1], 7), ([1, 1], 12), ([-1, 2], 9), ([1, 1, 1], 6), ([0, 1], 11)] + ([([1, 1], 30), ([1, 0, 1], 12), ([-2, 0, 0, 1], 8)] if th else []):
        out.append(lib_case(rng, zscal(rng.choice([1, -1, 3, -12]), zpow(g, e)), 'high-multiplicity'))
    # ---- factors whose p-adic expansions share zero digits for the prime p the routine will pick: roots r_i = d_i + p^k t_i with
    # distinct digits d_i mod p (so p does not divide the discriminant) while every smaller prime does divide it (two roots
    # congruent) -- the Hensel lifting then has steps whose correction term is zero, and later steps where it is not
    def zero_digit_product():
        for _ in range(400):
            pz = rng.choice([3, 3, 5, 7])
            kz = rng.choice([2, 2, 3])
            m = rng.randrange(2, min(pz, 4) + 1)
            ds = rng.sample(range(pz), m)
            rs = [d + pz ** kz * rng.randrange(0, 4) for d in ds]
            if len(set(rs)) < m or all(r_ < pz for r_ in rs): continue
            diff = 1
            for i_ in range(m):
                for j_ in range(i_): diff *= rs[i_] - rs[j_]
            if any(diff % q_ for q_ in (2, 3, 5, 7) if q_ < pz) or diff % pz == 0: continue
            return [[r_, 1] for r_ in rs]
        return [[1, 1], [9, 1], [11, 1]]
    for _ in range(160 if th else 40):
        lin = zero_digit_product()
        f = zprod(lin)
        if rng.random() < 0.3: f = zmul(f, zpow(rng.choice(lin), rng.choice([1, 2])))
        out.append(lib_case(rng, zscal(rng.choice([1, 1, -1, -5, 2]), f), 'zero-p-adic-digits'))
    out.append(lib_case(rng, [99, 119, 21, 1], 'zero-p-adic-digits'))
    # ---- exactly at the size limit of the recombination (25 modular factors; 24 as the control): prod (x - i), i = -12..12
    out.append(lib_case(rng, zprod([[-i_, 1] for i_ in range(-12, 13)]), 'exactly-25-modular-factors'))
    out.append(lib_case(rng, zprod([[-i_, 1] for i_ in range(-12, 12)]), 'exactly-24-modular-factors'))
    # ---- x^n - 1, x^n + 1
    for n in range(1, (24 if th else 12) + 1):
        out.append(lib_case(rng, [-1] + [0] * (n - 1) + [1], 'x^n-1'))
        if n <= (16 if th else 8): out.append(lib_case(rng, [1] + [0] * (n - 1) + [1], 'x^n+1'))
    # ---- irreducible over Z, split modulo every prime
    for f in SD4 + SD8:
        for _ in range(3 if th else 1):
            out.append(lib_case(rng, f, 'swinnerton-dyer-type'))
    for _ in range(40 if th else 10):
        f = zmul(rng.choice(SD4), rng.choice(TABLE[:23]))
        if rng.random() < 0.4: f = zmul(f, rng.choice(SD4))
        out.append(lib_case(rng, zscal(rng.choice([1, -1, 2, -9]), f), 'swinnerton-dyer-product'))
    # ---- two or more irreducible factors that EACH split modulo the chosen prime: a factor is then found as a subset of
    # size >= 2 while other lifted factors are still pending (the bookkeeping of the removal matters only here)
    import itertools
    pairs = list(itertools.combinations(SD4, 2))
    if not th: pairs = pairs[:6]
    for a_, b_ in pairs:
        out.append(lib_case(rng, zmul(a_, b_), 'two-splitting-factors'))
    for f in ([-6, 0, -13, 0, -1, 0, 2],                                   # (x^2+2)(2x^2+1)(x^2-3)
              zprod([[1, 0, 1], [1, 0, 0, 0, 1], [1, 0, -1, 0, 1]]),      # (x^2+1)(x^4+1)(x^4-x^2+1)
              zscal(-3, zprod([[-3, 0, 1], [-3, 0, 1], [-1, 1, 1], [1, 0, -1, 0, 1]])),
              zprod([[1, 0, -10, 0, 1], [1, 1, 1], [1, 0, 0, 0, 1]]),
              zprod([[2, 0, 1], [-2, 0, 1], [3, 0, 1], [-3, 0, 1]])):
        out.append(lib_case(rng, f, 'two-splitting-factors'))
    if th:
        for a_ in SD4[:3]:
            out.append(lib_case(rng, zmul(a_, SD8[1]), 'two-splitting-factors'))
    # ---- the first thing factorize does with a non-square-free input is resultant_gcd(pp, pp'): that call alone (no
    # factorisation, so thousands are cheap) on products g^e * h * k, whose remainder sequences have late degree gaps
    def zderiv(a): return trim([i * a[i] for i in range(1, len(a))])
    def o_sqfree_gcd(a):
        def orc(ia):
            # gcd(a, a') must divide a exactly, and a / gcd must be square-free over Q (gcd with its derivative constant)
            if ia.kind != 'ok': return 'resultant_gcd(a, a\') did not return: %s' % ia.raw[:100]
            d = trim(list(ia.val))
            if not d: return 'gcd is zero'
            from fractions import Fraction as Fr
            def divmod_q(x, y):
                x = [Fr(t) for t in x]; q = [Fr(0)] * max(0, len(x) - len(y) + 1)
                while len(x) >= len(y) and any(x):
                    c = x[-1] / y[-1]; k = len(x) - len(y); q[k] = c
                    for i2, t in enumerate(y): x[k + i2] -= c * t
                    while x and x[-1] == 0: x.pop()
                return q, x
            q, r = divmod_q(a, d)
            if r: return 'returned gcd %s does not divide a = %s' % (d, a)
            while q and q[-1] == 0: q.pop()
            if len(q) <= 1: return None
            # square-free part: gcd(q, q') over Q must be constant
            u, v = q, [i2 * q[i2] for i2 in range(1, len(q))]
            while v and any(v):
                _, rr = divmod_q(u, v); u, v = v, rr
            if len(u) > 1: return 'a / gcd(a, a\') is not square-free: a = %s, returned gcd %s' % (a, d)
            return None
        return orc
    small = [[1, 1], [-1, 1], [2, 1], [1, 2], [1, 0, 1], [1, 1, 1], [-2, 0, 1], [2, 0, 1], [-3, 0, 1], [1, 0, 0, 1], [2, 0, 0, 1], [1, 1, 0, 1],
             [1, 0, 0, 0, 1], [-1, 1, 0, 1], [1, 0, 2], [3, 1, 1]]
    for k in range(3000 if not th else 20000):
        g_ = rng.choice(small); e_ = rng.choice([2, 2, 3, 3, 4])
        a_ = zscal(rng.choice([1, 1, -1, -3, 2]), zpow(g_, e_))
        for h_ in rng.sample(small, rng.choice([1, 2, 2, 3])):
            if h_ != g_: a_ = zmul(a_, h_)
        if len(a_) > 18: continue
        out.append(Case('resultant_gcd', line('resultant_gcd', a_, zderiv(a_)), oracle=o_sqfree_gcd(a_), always_oracle=True,
                        tag='gcd-with-derivative'))
    # ---- many modular factors: products of distinct linear factors (subset search restarts)
    for k in ([3, 5, 8, 12, 16, 20, 25] if th else [3, 5, 8, 11]):
        f = zprod([[-r, 1] for r in range(1, k + 1)])
        out.append(lib_case(rng, f, 'many-linear-factors'))
    for k in ([4, 6, 8, 10] if th else [4, 6]):
        f = zprod([[r * r + 1, 0, 1] for r in range(1, k // 2 + 1)] + [[-r, 2] for r in range(1, 3)])
        out.append(lib_case(rng, f, 'quadratics-and-linears'))
    # ---- edge stream: trailing zero coefficients in the input vector, powers of x, bad small primes, scripted draws
    for f in [[0, 0, 0, 1], [0, 0, -5], [0, 1, 0, 0], [0, 6, 12, 6, 0, 0], [1, 30030], [1, 0, 30030], [-1, 0, 0, 510510],
              [2, 0, 0, 0, 0, 1, 0], [6, -5, 1], [-6, 5, -1], [4, 0, -4], [1, 0, 0, 0, 4], [-3, 2, 1], [2, 7, 6], [2, 4, 2], [1, 2, 1]]:
        out.append(lib_case(rng, f, 'edge'))
    for script in [[0] * 64, [255] * 64, [1] * 16, list(range(256))]:
        for f in [[-1, 0, 0, 0, 0, 1], [2, -3, 1], [1, 0, -10, 0, 1], zprod([[-1, 1], [-2, 1], [-3, 1], [1, 0, 1]])]:
            out.append(lib_case(rng, f, 'scripted-draws', script=script))
    # outside the property: more than 25 modular factors (assert!(lifted.len() <= 25)); both sides must panic alike
    if th:
        out.append(lib_case(rng, zprod([[-r, 1] for r in range(1, 27)]), 'limit-outside', nontrivial=False, inside=False))
    # ---- CLI
    cli_inputs = [([], 0), ([], 2), ([7], 0), ([-4], 3), ([-3, 2, 1], 0), ([-3, 2, 1], 2), ([1, 0, 0, 0, 4], 1), ([2, 4, 2], 0),
                  ([1, 0, -10, 0, 1], 0), ([-1, 0, 0, 0, 0, 0, 1], 1), (zscal(-6, zpow([1, 1], 7)), 0), ([0, 0, 1, 1], 2)]
    for _ in range(30 if th else 8):
        f, fs = planted(rng, TABLE, 12, maxfac=3, maxmult=4)
        cli_inputs.append((f, rng.choice([0, 0, 1, 3])))
    for f, z in cli_inputs:
        out += cli_cases(f, 'trailing-zeros' if z else 'plain', zeros=z)
    # the printed form of every factor (factor_str) must denote the polynomial of factor_vec; several commands in one configuration
    # must each get the answer they get alone (the parsed input is shared between the commands)
    def o_str(ia):
        if ia.kind != 'ok' or not isinstance(ia.val, list): return 'cli factorization failed: %s' % ia.raw[:120]
        for st, vec, e in ia.val:
            txt = bytes(st).decode('utf-8', 'replace')
            try: got = lib.parse_poly_str(txt)
            except ValueError as ex: return 'factor_str %r: %s' % (txt, ex)
            if got != vec: return 'factor_str %r denotes %s, factor_vec is %s' % (txt, got, vec)
        return None
    str_inputs = [[1, 0, 0, 1], [1, 1, 0, 0, 0, 1], [-1, 0, -1, 0, 1], [2, -1, -1, 1], [1, -1, 0, 0, 2], [-6, 0, -13, 0, -1, 0, 2]] + [f for f, z in cli_inputs[4:10] if f]
    for f in str_inputs:
        out.append(Case('cli_factor_poly_str', line('cli_factor_poly_str', f), model=lib.IMPL_ONLY, oracle=o_str, always_oracle=True, tag='cli-factor-str'))
    for f in ([4, 2, -8, -6], [1, 0, 0, 1], [-3, 2, 1], [1, 0, -10, 0, 1]):
        for cmds in (['fz', 'fz'], ['fz', 'disc', 'fz'], ['disc', 'fz']):
            out.append(Case('cli_seq', line('cli_seq', Id('poly'), f, [], [Id(c) for c in cmds]), model=lib.IMPL_ONLY, oracle=lib.o_cli_seq(len(cmds)),
                            always_oracle=True, tag='cli-several-commands'))
    # a slice of the cases again on the release build of the implementation (wrapping arithmetic, debug assertions off)
    out += lib.release_slice(out, rng, 0.08, mode_ops=('polyz_factorize',), plain_ops=())
    return out
