"""C03 HNF transformation matrix is unimodular and yields a basis of the integer kernel (number-theory-linear/src/hnf.rs)."""
import lib
from lib import line, Id, Case
from props import hnf_common as H

RULE = ('ALL matrices 2x1, 3x1, 4x1, 2x2, 3x2, 4x2 (thorough: + 5x1, 5x2 slice, 3x3, 4x3 slice) with entries in -2..2, in batches, through hnf_with_u + '
        'hnf_with_ker + HNF::kernel; structured random matrices with emphasis on n > rank (planted rank deficiency, zero rows, duplicated rows, '
        'single gcd-structured columns, tall matrices), entries up to 2^64 and a few 2^200; edge stream (empty, n x 0, ragged). '
        'non-trivial = the kernel is non-zero')
PROVED = [
    'kernel_terminates / hnf_with_ker_terminates [P]: no panic, fuel sufficient, on every rectangular n x m input (n, m >= 1)',
    'hnf_U_unimodular [P]: U is n x n, exists V with V*U = I and U*V = I (product of elementary row operations), U*A = [0_k ; H], k = n - #rows H',
    'kernel_annihilates [P]: HNF::kernel = first k rows of U, each annihilated by A, count k = n - #rows H',
    'kernel_basis [P]: the kernel rows are Z-linearly independent and every integer x with x*A = 0 is an integer combination of them (saturated basis)',
    'kernel_empty_when_independent [P]',
    'hnf_U_det [P]: \\det U = 1 or -1 (MathComp Leibniz determinant of the matrix view zmx n n U; from the two-sided integer inverse via det_mulmx, bridge in coq/Refine/DetBridge.v)',
    'kernel_rank / kernel_rank_count [P]: #rows H = \\rank of A over Q (matrix mapped into Qc) and k = n - rank; HNF::kernel returns exactly n - rank rows',
]
NOT_PROVED = []

CLAIM = dict(
    technique='Coq proof about the Gallina model of hnf_with_u/hnf_with_ker/HNF::kernel (coq/Model/Hnf.v, coq/Refine/HnfMain.v, HnfKernel.v) + extracted-model-vs-implementation correspondence',
    text='For all integer matrices with n, m >= 1: U has a two-sided integer inverse, det U = +-1, and U*A = [0_k ; H]; HNF::kernel returns the first k rows of U, which are annihilated by A, '
         'linearly independent and generate every integer solution of x*A = 0; k = n - #rows H = n - rank(A) with the rank taken over Q (MathComp \\rank), empty when the rows of A are independent. '
         'Model tied to /repo by the correspondence runs (exhaustive small tall matrices, planted rank deficiency up to 2^200, edge stream).',
    note='det and rank are MathComp\'s \\det / \\rank of the matrix view zmx (entries read from the lists) resp. its image in Qc; the bridge lemmas are in coq/Refine/DetBridge.v.',
    ref='DESIGN.md section 4, C03')

def has_kernel(a):
    return H.rank_q(a, len(a[0])) < len(a)

PROFILES = ('debug', 'release')

def cases(rng, tier):
    th = tier == 'thorough'
    out = []
    from props.c02 import batches
    def batch_cases(mats, tag, size=300):
        for b in batches(mats, size):
            out.append(Case('hnf_u_ker_batch', line('hnf_u_ker_batch', b), oracle=H.o_u_ker_batch(b), always_oracle=True, tag=tag))
    for (n, m) in [(2, 1), (3, 1), (4, 1), (2, 2), (3, 2)]:
        batch_cases(H.all_mats(n, m, -2, 2), 'all-%dx%d' % (n, m))
    if th:
        batch_cases(H.all_mats(4, 2, -2, 2), 'all-4x2', size=1000)
        batch_cases(H.all_mats(5, 1, -2, 2), 'all-5x1', size=1000)
        batch_cases(([[rng.randrange(-2, 3) for _ in range(3)] for _ in range(3)] for _ in range(100000)), 'slice-3x3', size=1000)
        batch_cases(([[rng.randrange(-2, 3) for _ in range(m)] for _ in range(n)] for (n, m) in [(5, 2), (4, 3), (6, 2)] for _ in range(50000)), 'slice-tall', size=1000)
    else:
        batch_cases(([[rng.randrange(-2, 3) for _ in range(m)] for _ in range(n)] for (n, m) in [(4, 2), (5, 1), (3, 3), (4, 3), (5, 2)] for _ in range(1500)), 'slice-tall')
    def add(tag, a):
        out.append(Case('hnf_u_ker', line('hnf_u_ker', a), oracle=H.o_u_ker(a), always_oracle=True, nontrivial=has_kernel(a), tag=tag))
    cnt = 1000 if not th else 5000
    for _ in range(cnt):
        # emphasis on n > rank
        m = rng.randrange(1, 6); r = rng.randrange(0, m + 1); n = r + rng.randrange(1, 5)
        bits = rng.choice([2, 4, 8, 16, 32, 64])
        add('planted-kernel', H.planted_rank(rng, n, m, r, bits))
    for tag, a in H.structured_mats(rng, cnt, 5, [2, 4, 8, 16, 32, 64]):
        add(tag, a)
    for tag, a in H.structured_mats(rng, cnt // 2, 8, [2, 4, 8, 16]):
        add(tag + '-8', a)
    for _ in range(cnt // 4):
        n = rng.randrange(2, 9)
        add('gcd-column', H.gcd_column(rng, n, rng.choice([8, 16, 64])))
    for _ in range(8 if not th else 80):
        m = rng.randrange(1, 5); r = rng.randrange(0, m + 1); n = r + rng.randrange(1, 4)
        add('huge-planted-kernel', H.planted_rank(rng, n, m, r, 200, cbits=8))
    for tag, a in H.structured_mats(rng, 8 if not th else 80, 8, [64]):
        add(tag + '-8x64', a)
    # tall matrices of dimension 8..11 with tiny entries: many reduction passes per column and a large growth of the intermediate
    # entries although the input is small (a pass limit or a size estimate taken from the INPUT entries is wrong exactly here)
    for _ in range(40 if not th else 400):
        m = rng.randrange(6, 11); n = m + rng.randrange(1, 3)
        add('tall-tiny-entries-%s' % ('8-9' if m < 9 else '10+'), [[rng.randrange(-3, 4) for _ in range(m)] for _ in range(n)])
    edge = [s_ * (2 ** e_ + d_) for e_ in (31, 32, 63, 64, 127) for d_ in (-1, 0, 1) for s_ in (1, -1)]
    for _ in range(60 if not th else 600):
        m = rng.randrange(1, 4); n = m + rng.randrange(0, 3)
        add('word-boundary-entries', [[rng.choice(edge) if rng.random() < 0.5 else rng.randrange(-3, 4) for _ in range(m)] for _ in range(n)])
    # long inputs: 16..40 rows, 2..4 columns, entries in {-1,0,1} (k = n - rank is large; any pre-sorting or blocking of the rows
    # must be reflected in U)
    for _ in range(30 if not th else 300):
        m = rng.randrange(2, 5); n = rng.randrange(16, 41)
        add('long-narrow', [[rng.randrange(-1, 2) for _ in range(m)] for _ in range(n)])
    for n in (16, 20, 24):
        pat = [[1, 1, -1], [0, 1, 0], [1, -1, 1], [0, 0, 1], [-1, 1, 1], [1, 0, 0], [1, 1, 0]]
        add('long-narrow', [pat[i % 7] for i in range(n)])
    for _ in range(3 if not th else 20):
        n = rng.choice([16, 18, 20])
        a = [[rng.randrange(-1, 2) for _ in range(n)] for _ in range(n)]
        a[rng.randrange(n)] = list(a[0])
        add('square-16+', a)
    # separate ops on their own
    for tag, a in H.structured_mats(rng, 150 if not th else 1500, 6, [2, 8, 64]):
        out.append(Case('hnf_kernel', line('hnf_kernel', a), oracle=H.o_kernel(a), always_oracle=True, nontrivial=has_kernel(a), tag='kernel-' + tag))
        out.append(Case('hnf_with_ker', line('hnf_with_ker', a), nontrivial=has_kernel(a), tag='with-ker'))
    # the Round 2 consumer shape: kernel of a kernel, HNF of a kernel
    for _ in range(100 if not th else 1000):
        m = rng.randrange(1, 5); r = rng.randrange(0, m + 1); n = r + rng.randrange(1, 4)
        a = H.planted_rank(rng, n, m, r, rng.choice([2, 8, 32]))
        _, u, k = H.certified_hnf(a, m)
        if k: out.append(Case('hnf_new', line('hnf_new', u[:k]), oracle=H.o_new(u[:k]), always_oracle=True, tag='hnf-of-kernel'))
    # edge / malformed stream
    for a in H.DEGENERATE + H.RAGGED:
        for op in ('hnf_u_ker', 'hnf_kernel', 'hnf_with_ker'):
            out.append(Case(op, line(op, a), nontrivial=False, tag='edge-' + ('ragged' if a in H.RAGGED else 'degenerate')))
    for _ in range(100 if not th else 1000):
        a = H.rand_mat(rng, rng.randrange(1, 5), rng.randrange(1, 5), 3)
        j = rng.randrange(len(a))
        if rng.random() < 0.5 and a[j]: a[j] = a[j][:rng.randrange(len(a[j]))]
        else: a[j] = a[j] + [H.rand_entry(rng, 3) for _ in range(rng.randrange(1, 3))]
        out.append(Case('hnf_u_ker', line('hnf_u_ker', a), nontrivial=False, tag='edge-ragged-random'))
    # a slice of the cases again on the release build of the implementation (wrapping arithmetic, debug assertions off)
    out += lib.release_slice(out, rng, 0.1, mode_ops=())
    return out
