"""C10 gcd in Z[x] (src/resultant.rs:34-73, resultant_gcd)."""
from math import gcd
import lib
from lib import line, Id, Case
from props import res_common as R

RULE = ('exhaustive: all ordered pairs of polynomials of degree <= 2 with coefficients in {-2..2} and of degree <= 3 with coefficients in {-1..1}; '
        'random pairs (h f1, h g1) with deg h in 0..6 and arbitrary contents and signs; coprime pairs; divisibility chains f | g; f = +-g; constants; zero; '
        'degree gaps. Non-trivial = both non-constant. The last tag gives the count of model runs whose exactness flag was true/false.')
PROVED = ['[P] gcd_zero_l: gcd(0, g) = g verbatim',
          '[P] gcd_zero_r: gcd(f, 0) = f if lc f > 0, -f otherwise (= |cont f| * pp f), for canonical f <> 0',
          '[P] gcd_no_outoffuel: the supplied fuel suffices for all inputs',
          '[P] gcd_flag_true: for all canonical inputs every truncating division of the run (by a*b^delta and by b^delta) is exact (sub-resultant structure theorem, see C04)',
          '[P] gcd_total: canonical inputs => a polynomial is returned (no division by zero)',
          '[P] gcd_spec: canonical inputs, f <> 0 => the result d is associated over Q to gcdp(f, g) (MathComp, %=), d canonical, lc d > 0; no flag hypothesis',
          '[P] gcd_divides: canonical inputs, f <> 0 => d divides f and g exactly in Z[x] (cofactors in Z[x]), the cofactors are coprime over Q (MathComp coprimep: no common root) and have coprime contents (no integer other than +-1 divides all coefficients of both)',
          '[P] gcd_greatest (+ gcd_greatest_Z): every h in Z[x] dividing both f and g in Z[x] divides the returned d in Z[x] (Bezout over Z[x] with an integer constant + contents/primitive parts)',
          '[P] rank_Sylvester: over any field, rank Sylvester(p, q) = deg p + deg q - deg gcd(p, q) for non-zero p, q (band matrices, bounded Bezout)',
          '[P] gcd_degree: canonical non-zero inputs => deg d = deg f + deg g - rank of the Sylvester matrix of f and g over Q',
          '[P] gauss_dvd: Gauss lemma for {poly Z} (a primitive P dividing F over Q divides F in Z[x]), transported from intdiv.zcontentsM',
          '[C] gcd_flag_no_panic_partial, gcd_partial: the first-wave conditional forms (kept; now subsumed)']
NOT_PROVED = []

TIMEOUT = 3600          # per service process; the extracted model computes with Coq's binary integers (slow on 64-bit coefficients)

CLAIM = dict(
    technique='Coq proofs about the Gallina model of resultant_smart_gcd (edge cases, termination, exactness of every division via the sub-resultant structure theorem, result associated over Q to MathComp gcdp of the inputs, positive leading coefficient, divisibility in Z[x] with coprime cofactors and coprime cofactor contents via Gauss lemma, greatest-ness, Sylvester-rank degree formula) + extracted-model-vs-implementation correspondence + independent divisibility/coprimality/Sylvester-rank oracle on every case',
    text='For all canonical inputs: gcd(0,g), gcd(f,0), fuel sufficiency, all divisions exact, no panic, d %= gcdp(f,g) over Q and lc d > 0 (gcd_spec); d divides f and g exactly in Z[x] with cofactors that are coprime polynomials and have coprime contents (gcd_divides, Gauss lemma), and every common divisor in Z[x] divides d (gcd_greatest). '
         'deg d = deg f + deg g - rank Sylvester(f, g) over Q (gcd_degree). All clauses are additionally checked on every generated case by independent oracles.',
    note='All clauses of the property text are proved for the model for canonical inputs; gcd_degree states the rank over Q through the embedding ZtoQ.',
    ref='DESIGN.md section 4, C10')

def o_gcd(f, g):
    def orc(ia):
        if ia.kind != 'ok': return 'gcd(%s, %s) did not return: %s' % (f, g, ia.raw[:120])
        d = ia.val
        if d != R.strip(d): return 'gcd(%s, %s) = %s is not normalised' % (f, g, d)
        if not f:
            return None if d == g else 'gcd(0, %s) = %s' % (g, d)
        if not g:
            return None if d in (f, R.pscale(-1, f)) else 'gcd(%s, 0) = %s' % (f, d)
        if not d: return 'gcd(%s, %s) = 0' % (f, g)
        if d[-1] <= 0: return 'gcd(%s, %s) = %s has non-positive leading coefficient' % (f, g, d)
        qf = R.exact_div_z(f, d); qg = R.exact_div_z(g, d)
        if qf is None or qg is None: return 'gcd(%s, %s) = %s does not divide both inputs in Z[x]' % (f, g, d)
        if R.pgcd_q_deg(qf, qg) != 0: return 'gcd(%s, %s) = %s: cofactors have a common root' % (f, g, d)
        if gcd(R.content(qf), R.content(qg)) != 1: return 'gcd(%s, %s) = %s: cofactors have a common content' % (f, g, d)
        rk = R.int_rank(R.sylvester(f, g)) if len(f) + len(g) > 2 else 0
        if R.deg(d) != R.deg(f) + R.deg(g) - rk: return 'gcd(%s, %s) = %s: degree %d but deg f + deg g - rank Sylvester = %d' % (f, g, d, R.deg(d), R.deg(f) + R.deg(g) - rk)
        return None
    return orc

PROFILES = ('debug', 'release')

def cases(rng, tier):
    th = tier == 'thorough'
    out = []
    fc = R.FlagCount('resultant_gcd')
    cmpf = R.cmp_flagged(fc, 'resultant_gcd')
    def add(f, g, tag):
        out.append(Case('resultant_gcd', line('resultant_gcd', f, g), model=line('resultant_gcd_x', f, g), compare=cmpf,
                        oracle=o_gcd(f, g), always_oracle=True, nontrivial=(len(f) > 1 and len(g) > 1), tag=tag))
    for P, tg in ((R.small_polys(2, -2, 2), 'exhaustive-deg2'), (R.small_polys(3, -1, 1), 'exhaustive-deg3')):
        for f in P:
            for g in P: add(f, g, tg)
    # planted common factor
    for k in range(250 if not th else 3000):
        dh = k % 7
        bits = rng.choice([2, 6, 20, 64]) if (th or dh <= 3) else rng.choice([2, 6, 12])
        h = R.rpoly(rng, dh, bits)
        f1 = R.rpoly(rng, rng.randrange(0, 6), bits); g1 = R.rpoly(rng, rng.randrange(0, 6), bits)
        c1 = rng.choice([1, -1, 2, -6, 35, 2 ** 30]); c2 = rng.choice([1, -1, 3, -4, 14, 2 ** 31])
        add(R.pscale(c1, R.pmul(h, f1)), R.pscale(c2, R.pmul(h, g1)), 'planted-deg-h=%d' % dh)
    # common factors that vanish or drop in degree modulo a word-size prime (998244353, 10^9+7, 2^31-1, 2^61-1, 65537, and small
    # primes): the leading coefficient -- or every non-constant coefficient -- of h is a multiple of the prime, the cofactors are small
    for k in range(60 if not th else 600):
        P = rng.choice([998244353, 998244353, 10 ** 9 + 7, 2 ** 31 - 1, 2 ** 61 - 1, 65537, 469762049, 2, 3, 5, 7])
        dh = rng.randrange(1, 4)
        h = [rng.randrange(-9, 10) or 1] + [(P * rng.randrange(-3, 4)) if rng.random() < 0.6 else rng.randrange(-9, 10) for _ in range(dh - 1)] \
            + [P * rng.choice([1, 1, -1, 2, -3])]
        if rng.random() < 0.3: h = [h[0]] + [P * (c_ // P if c_ % P == 0 else rng.randrange(-2, 3)) for c_ in h[1:-1]] + [h[-1]]
        f1 = R.rpoly(rng, rng.randrange(1, 4), 4); g1 = R.rpoly(rng, rng.randrange(1, 4), 4)
        add(R.pscale(rng.choice([1, -1, 6]), R.pmul(h, f1)), R.pscale(rng.choice([1, -4, 1]), R.pmul(h, g1)), 'planted-factor-vanishing-mod-prime')
    # coefficients at the machine-word boundaries, with and without a planted common factor
    edge = [s_ * (2 ** e_ + d_) for e_ in (31, 32, 63, 64, 127) for d_ in (-1, 0, 1) for s_ in (1, -1)]
    for _ in range(40 if not th else 400):
        ep = lambda d: [rng.choice(edge) if rng.random() < 0.6 else rng.randrange(-3, 4) for _ in range(d)] + [rng.choice(edge)]
        f = ep(rng.randrange(1, 4)); g = ep(rng.randrange(1, 3))
        add(f, g, 'word-boundary-coefficients')
        h = ep(rng.randrange(1, 3))
        add(R.pmul(h, f), R.pmul(h, g), 'word-boundary-coefficients-planted')
    # coprime random pairs
    for k in range(100 if not th else 1000):
        bits = rng.choice([2, 8, 32, 64])
        dmax = 12 if bits <= 8 or th else 7
        add(R.rpoly(rng, rng.randrange(0, dmax + 1), bits), R.rpoly(rng, rng.randrange(0, dmax + 1), bits), 'random')
    # divisibility chains, equal, opposite
    for k in range(100 if not th else 800):
        f = R.rpoly(rng, rng.randrange(1, 7), rng.choice([3, 24]))
        q = R.rpoly(rng, rng.randrange(0, 5), rng.choice([3, 24]))
        add(f, R.pmul(f, q), 'divides'); add(R.pmul(f, q), f, 'divides'); add(f, f, 'equal'); add(f, R.pscale(-1, f), 'equal')
        add(R.pscale(6, f), R.pscale(-4, f), 'equal-up-to-content')
    # constants and zero
    for k in range(60 if not th else 300):
        c = R.rint(rng, rng.choice([2, 8, 64])); c2 = R.rint(rng, rng.choice([2, 8, 64]))
        p = R.pscale(rng.choice([1, -1, 6, -10]), R.rpoly(rng, rng.randrange(1, 9), rng.choice([4, 64])))
        for f, g in ((R.strip([c]), p), (p, R.strip([c])), (R.strip([c]), R.strip([c2])), ([], p), (p, []), ([], R.strip([c])), (R.strip([c]), [])):
            add(f, g, 'constant-or-zero')
    add([], [], 'constant-or-zero')
    # degree gaps (sparse), with a planted factor half of the time
    for k in range(80 if not th else 800):
        dg = rng.randrange(1, 5); df = dg + rng.randrange(2, 8)
        f = R.rpoly(rng, df, rng.choice([2, 16]), sparse=0.6); g = R.rpoly(rng, dg, rng.choice([2, 16]), sparse=0.4)
        if rng.random() < 0.5:
            h = R.rpoly(rng, rng.randrange(1, 4), 5, sparse=0.3); f = R.pmul(f, h); g = R.pmul(g, h)
        if rng.random() < 0.5: f, g = g, f
        add(f, g, 'degree-gap')
    # degree gaps >= 2 at the SECOND or a later step of the remainder sequence, with non-unit leading coefficients there:
    # (a) sparse pairs of comparable degree, (b) (a, a') for products g^e * h * k (the consumer poly_z::factorize calls the
    # routine on exactly such pairs), (c) quadrinomials and their derivatives, each also multiplied by a common factor
    for k in range(400 if not th else 4000):
        df = rng.randrange(4, 10); dg = rng.randrange(3, df + 1)
        f = R.rpoly(rng, df, rng.choice([2, 3, 8]), lc=rng.choice([None, 2, -3, 6]), sparse=rng.choice([0.5, 0.7]))
        g = R.rpoly(rng, dg, rng.choice([2, 3, 8]), lc=rng.choice([None, 2, -3, 4]), sparse=rng.choice([0.4, 0.6]))
        if k % 3 == 0:
            h = R.rpoly(rng, rng.randrange(1, 3), 3); f = R.pmul(f, h); g = R.pmul(g, h)
        add(f, g, 'late-degree-gap')
    for k in range(300 if not th else 3000):
        gq = R.rpoly(rng, rng.randrange(1, 4), 2, lc=rng.choice([1, 1, 2])); e = rng.choice([2, 2, 3])
        a = R.pscale(rng.choice([1, -1, -3, 2]), R.rpoly(rng, rng.randrange(1, 4), 2))
        for _ in range(e): a = R.pmul(a, gq)
        if k % 2 == 0: a = R.pmul(a, R.rpoly(rng, rng.randrange(1, 5), 2, sparse=0.5))
        add(a, R.pderiv(a), 'a-and-derivative')
    for n in range(5, 9 if not th else 12):
        for kk in range(2, n):
            for j in range(1, kk):
                f = [0] * (n + 1)
                f[n] = rng.choice([1, -1, 2, 3]); f[kk] = rng.choice([1, 2, -2, 3]); f[j] = rng.choice([1, -1, -2, 5]); f[0] = rng.choice([1, -1, 2, 3])
                add(f, R.pderiv(f), 'quadrinomial-derivative')
                if (kk + j) % 2 == 0:
                    h = R.rpoly(rng, 1, 3); add(R.pmul(f, h), R.pmul(R.pderiv(f), h), 'quadrinomial-derivative-planted')
    # contents at the machine-word boundaries (+-2^31, +-2^32, +-2^63, +-2^64 and neighbours): the contents are BigInts, any
    # shortcut through i64 / u64 arithmetic shows only here (e.g. both contents exactly -2^63)
    edges = [2 ** 31, -2 ** 31, 2 ** 32, -2 ** 32, 2 ** 63, -2 ** 63, 2 ** 63 - 1, -2 ** 63 + 1, 2 ** 64, -2 ** 64, 2 ** 62, -2 ** 62]
    shapes = [([1], [1]), ([-1, 0, 1], [1, 1]), ([1, 1], [1]), ([2, 1], [3, 1]), ([-1, 0, 1], []), ([], [1, 1]), ([1], []), ([1, 2, 1], [1, 1])]
    for c1 in edges:
        for c2 in (c1, -c1, edges[(edges.index(c1) + 3) % len(edges)], 6):
            for f0, g0 in shapes:
                add(R.pscale(c1, f0), R.pscale(c2, g0), 'word-boundary-contents')
    s = Case('resultant_gcd', line('resultant_gcd', [1], [1]), model=line('resultant_gcd_x', [1], [1]), compare=cmpf, nontrivial=False, tag='flag-count')
    fc.sentinel = s
    out.append(s)
    # a slice of the cases again on the release build of the implementation (wrapping arithmetic, debug assertions off)
    out += lib.release_slice(out, rng, 0.08, mode_ops=())
    return out
