"""C09 polynomial arithmetic over Z (BigInt) and Q (BigRational): src/polynomial.rs.

Generator and independent oracle. The oracle is a separate dense polynomial arithmetic on python
ints/Fractions written from the mathematics (definition of sum/product/derivative, defining relation of
the divisions, definition of content), not from the Coq model.
"""
import itertools, math, os
from fractions import Fraction
import lib
from lib import line, Id, Case

RULE = ('all operations of polynomial.rs on: every pair of canonical polynomials of degree <= 2 with coefficients in {-2..2} '
        '(unary operations: every raw vector of length <= 3 over {-2..2}, including trailing zeros); random degree <= 20 with '
        'coefficients up to 2^128; dividend/divisor pairs that are multiples, near multiples (one coefficient perturbed), '
        'divisor of higher degree, constants, zero, monic and non-monic divisors (assertion of div_rem_bigint); rationals with '
        'denominators; raw inputs with trailing zeros. Non-trivial = no operand is the zero polynomial.')

PROVED = [
    'all [P] (every input, no bound); generic theorems are over an arbitrary MathComp ringType/comRingType R with the operation record ops_of R; '
    'opsZ = ops_of Z and opsQc = ops_of Qc hold by conversion (opsZ_is_ring_ops, opsQc_is_ring_ops; Qc gets an axiom-free fieldType in Refine/QcRing.v)',
    'from_raw: result canonical (no trailing zero), equal to MathComp\'s normal form polyseq (Poly s), identity on canonical lists; Poly injective on canonical lists (equal polynomials are stored equal)',
    'canonical results: padd/psub/pneg (canonical arguments), pmul and pdiff (any arguments), quotient and remainder of pseudo_div_rem / div_rem_bigint / div_rem_q, quotient of div_exact, primitive part',
    'refinement for arbitrary lists: Poly (padd a b) = Poly a + Poly b, same for psub, pneg, pmul; Poly (pdiff a) = (Poly a)^`(); coef_at = coefficient; deg = size - 1 / usize::MAX for 0',
    'ring laws as equalities of stored vectors: add comm/assoc/zero/opposite, sub = add neg, mul assoc/one/comm (comRing), both distributivities',
    'pof p x = (Poly p).[x] (Horner); of(0) = 0, of(const) = const, of(a+b), of(a-b), of(-a), of(a*b) = of a * of b (comRing)',
    'product rule pdiff (pmul a b) = padd (pmul (pdiff a) b) (pmul a (pdiff b)) as equality of stored vectors; pdiff additive',
    'pseudo_div_rem over Z, canonical a b, len a >= len b > 0: lc(b)^(deg a - deg b + 1) *: A = Q*B + R, size r < size b, q r canonical (includes: every truncated division in the loop is exact); early return ([], a) otherwise',
    'div_rem_bigint: Panic PAssert iff b not monic; for monic b and any canonical a: A = Q*B + R, size r < size b',
    'div_exact a b = Some q <-> b <> 0 /\\ q canonical /\\ A = Q*B (both directions); None -> no Q in Z[x] with A = Q*B',
    'cont_pp a = (c, pp) for a <> 0: c *: PP = A, pp canonical, lc(pp) > 0, every common divisor of the coefficients of pp divides 1, sign c = sign lc(a); cont_pp 0 = (0, [1])',
    'div_rem_q (BigRational): A = Q*B + R, size r < size b for canonical a, b <> 0; early return ([], a)',
]
NOT_PROVED = [
    'nothing of the property text is left unproved; modelling assumptions: inputs are canonical vectors (every constructor of the library goes through from_raw; '
    'a Polynomial{dat} built by hand with trailing zeros is outside the property), differential casts the index with `as i32` which the model takes exact (degree < 2^31), '
    'differential_complex (Complex<f64>) and Display are not modelled',
]

CLAIM = dict(
    technique='Coq proof (MathComp {poly R} as specification) about the Gallina model Model/Poly.v + extracted-model-vs-implementation correspondence',
    text='coq/Props/C09.v: for all coefficient lists over any ring (instantiated at Z = BigInt and Qc = BigRational) the stored results of add/sub/neg/mul/differential/from_raw are the canonical '
         'representatives of the corresponding operations in MathComp\'s polynomial ring, hence the commutative-ring laws hold as equalities of stored vectors, evaluation is Horner evaluation (a ring homomorphism, 0 at the zero polynomial), '
         'the product rule holds; pseudo-, monic, rational division satisfy their defining relations with deg r < deg b; div_exact returns Some q iff a = q*b in Z[x]; content * primitive part = a with primitive part of gcd 1 and positive leading coefficient. '
         'The model is tied to /repo by running the extracted model and impl_svc on the same inputs (exhaustive small polynomials, random degree <= 20 / 128-bit coefficients, structured division pairs, rationals).',
    note='All clauses proved for all inputs ([P]); no axioms. Assumed: BigInt/BigRational arithmetic = Z/Qc arithmetic; inputs canonical (built by from_raw); `i as i32` in differential exact (degree < 2^31).',
    ref='DESIGN.md section 4, C09')

USIZE_MAX = 2 ** 64 - 1

# ------------------------------------------------------------------ independent dense arithmetic

def strip(p):
    p = list(p)
    while p and p[-1] == 0: p.pop()
    return p

def p_add(a, b):
    n = max(len(a), len(b))
    return strip([(a[i] if i < len(a) else 0) + (b[i] if i < len(b) else 0) for i in range(n)])

def p_neg(a): return [-c for c in a]
def p_sub(a, b): return p_add(a, p_neg(b))
def p_scale(c, a): return strip([c * x for x in a])

def p_mul(a, b):
    if not a or not b: return []
    r = [0] * (len(a) + len(b) - 1)
    for k in range(len(r)):                      # coefficient k = sum_{i+j=k} a_i b_j
        r[k] = sum(a[i] * b[k - i] for i in range(max(0, k - len(b) + 1), min(k, len(a) - 1) + 1))
    return strip(r)

def p_eval(a, x):
    return sum(c * x ** i for i, c in enumerate(a))

def p_diff(a):
    return strip([i * a[i] for i in range(1, len(a))])

def q_divmod(a, b):
    """Euclidean division over Q (b != 0), textbook."""
    a = [Fraction(c) for c in strip(a)]; b = [Fraction(c) for c in strip(b)]
    q = [Fraction(0)] * max(0, len(a) - len(b) + 1)
    r = a
    while len(r) >= len(b):
        k = len(r) - len(b)
        c = r[-1] / b[-1]
        q[k] = c
        r = strip([r[i] - (c * b[i - k] if i >= k else 0) for i in range(len(r))])
    return strip(q), r

def content(a):
    g = 0
    for c in a: g = math.gcd(g, c)
    return g

# ------------------------------------------------------------------ oracles

def is_canon(p): return isinstance(p, list) and (not p or p[-1] != 0)

def expect(val, what):
    def orc(ia):
        if ia.kind != 'ok': return '%s: no value: %s' % (what, ia.raw[:200])
        if ia.val != val: return '%s: got %s, expected %r' % (what, ia.raw[:300], val)
        return None
    return orc

def expect_panic(cls, what):
    def orc(ia):
        if ia.kind != 'panic' or ia.cls != cls: return '%s: expected panic %s, got %s' % (what, cls, ia.raw[:200])
        return None
    return orc

def o_divrem(a, b, scale, what):
    """defining relation: scale * a = q*b + r, deg r < deg b, both stored canonically; early return otherwise"""
    a = strip(a); b = strip(b)
    def orc(ia):
        if ia.kind != 'ok': return '%s: no value: %s' % (what, ia.raw[:200])
        if not (isinstance(ia.val, list) and len(ia.val) == 2): return '%s: malformed %s' % (what, ia.raw[:200])
        q, r = ia.val
        if not is_canon(q) or not is_canon(r): return '%s: non-canonical result %s' % (what, ia.raw[:200])
        if not a or not b or len(a) < len(b):
            if q != [] or r != a: return '%s: early return expected ([], a), got %s' % (what, ia.raw[:200])
            return None
        s = scale(a, b)
        if p_add(p_mul(q, b), r) != p_scale(s, a): return '%s: %r * a != q*b + r for a=%r b=%r: %s' % (what, s, a, b, ia.raw[:200])
        if len(r) >= len(b): return '%s: deg r >= deg b: %s' % (what, ia.raw[:200])
        return None
    return orc

def o_div_exact(a, b):
    a = strip(a); b = strip(b)
    if not b: return expect(Id('none'), 'div_exact(%r, 0)' % a)
    q, r = q_divmod(a, b)
    if r == [] and all(c.denominator == 1 for c in q):
        return expect([Id('some'), [int(c) for c in q]], 'div_exact(%r,%r)' % (a, b))
    return expect(Id('none'), 'div_exact(%r,%r), b does not divide a' % (a, b))

def o_cont_pp(a):
    a = strip(a)
    if not a: return expect([0, [1]], 'cont_pp(0)')
    g = content(a)
    if a[-1] < 0: g = -g
    return expect([g, [c // g for c in a]], 'cont_pp(%r)' % a)

def o_content(a):
    # Polynomial::content is the first component of cont_pp: the SIGNED content (sign of the leading coefficient)
    a = strip(a)
    if not a: return expect(0, 'content(0)')
    g = content(a)
    return expect(-g if a[-1] < 0 else g, 'content(%r)' % a)

# ------------------------------------------------------------------ generators

def rand_coef(rng, bits):
    c = rng.getrandbits(rng.choice([1, 3, 8, bits, bits]))
    return -c if rng.random() < 0.5 else c

def rand_poly(rng, maxdeg=20, bits=128, zero_ok=True):
    n = rng.randrange(0 if zero_ok else 1, maxdeg + 2)
    p = [rand_coef(rng, bits) for _ in range(n)]
    if rng.random() < 0.3:                       # sparse
        p = [c if rng.random() < 0.4 else 0 for c in p]
    if p and p[-1] == 0 and rng.random() < 0.8: p[-1] = rng.choice([1, -1, 2, -3, 1 << bits])
    return p

def rand_rat(rng, bits=64):
    n = rand_coef(rng, bits)
    d = rng.choice([1, 1, 2, 3, 6, 7, 1 + rng.getrandbits(rng.choice([4, bits]))])
    return Fraction(n, d)

def rand_qpoly(rng, maxdeg=12, bits=64, zero_ok=True):
    n = rng.randrange(0 if zero_ok else 1, maxdeg + 2)
    p = [rand_rat(rng, bits) for _ in range(n)]
    if rng.random() < 0.3: p = [c if rng.random() < 0.4 else Fraction(0) for c in p]
    if p and p[-1] == 0 and rng.random() < 0.8: p[-1] = Fraction(rng.choice([1, -1, 5]), rng.choice([1, 2, 9]))
    return p

def nz(*ps): return all(strip(p) for p in ps)

def z_binary(out, a, b, tag, ops=('add', 'sub', 'mul', 'eq', 'pseudo', 'divrem', 'exact')):
    sa, sb = strip(a), strip(b)
    nt = nz(a, b)
    if 'add' in ops: out.append(Case('zp_add', line('zp_add', a, b), oracle=expect(p_add(sa, sb), 'add'), nontrivial=nt, tag=tag + ':add'))
    if 'sub' in ops: out.append(Case('zp_sub', line('zp_sub', a, b), oracle=expect(p_sub(sa, sb), 'sub'), nontrivial=nt, tag=tag + ':sub'))
    if 'mul' in ops: out.append(Case('zp_mul', line('zp_mul', a, b), oracle=expect(p_mul(sa, sb), 'mul'), nontrivial=nt, tag=tag + ':mul'))
    if 'add' in ops: out.append(Case('zp_add_owned', line('zp_add_owned', a, b), oracle=expect(p_add(sa, sb), 'add (by value)'), nontrivial=nt, tag=tag + ':add_owned'))
    if 'sub' in ops: out.append(Case('zp_sub_owned', line('zp_sub_owned', a, b), oracle=expect(p_sub(sa, sb), 'sub (by value)'), nontrivial=nt, tag=tag + ':sub_owned'))
    if 'mul' in ops: out.append(Case('zp_mul_owned', line('zp_mul_owned', a, b), oracle=expect(p_mul(sa, sb), 'mul (by value)'), nontrivial=nt, tag=tag + ':mul_owned'))
    if 'eq' in ops: out.append(Case('zp_eq', line('zp_eq', a, b), oracle=expect(sa == sb, 'eq'), nontrivial=nt, tag=tag + ':eq'))
    if 'pseudo' in ops:
        out.append(Case('zp_pseudo_div_rem', line('zp_pseudo_div_rem', a, b),
                        oracle=o_divrem(a, b, lambda x, y: y[-1] ** (len(x) - len(y) + 1), 'pseudo_div_rem'), nontrivial=nt, tag=tag + ':pseudo'))
    if 'divrem' in ops:
        monic = bool(sb) and sb[-1] == 1
        out.append(Case('zp_div_rem', line('zp_div_rem', a, b),
                        oracle=o_divrem(a, b, lambda x, y: 1, 'div_rem_bigint') if monic else expect_panic('assert', 'div_rem_bigint, b not monic'),
                        nontrivial=nt, tag=tag + (':divrem-monic' if monic else ':divrem-nonmonic')))
    if 'exact' in ops:
        out.append(Case('zp_div_exact', line('zp_div_exact', a, b), oracle=o_div_exact(a, b), nontrivial=nt, tag=tag + ':exact'))

def z_unary(out, a, rng, tag):
    sa = strip(a)
    nt = nz(a)
    out.append(Case('zp_from_raw', line('zp_from_raw', a), oracle=expect(sa, 'from_raw'), nontrivial=nt, tag=tag + ':from_raw'))
    out.append(Case('zp_neg', line('zp_neg', a), oracle=expect(p_neg(sa), 'neg'), nontrivial=nt, tag=tag + ':neg'))
    out.append(Case('zp_neg_owned', line('zp_neg_owned', a), oracle=expect(p_neg(sa), 'neg (by value)'), nontrivial=nt, tag=tag + ':neg_owned'))
    out.append(Case('zp_diff', line('zp_diff', a), oracle=expect(p_diff(sa), 'differential'), nontrivial=nt, tag=tag + ':diff'))
    out.append(Case('zp_deg', line('zp_deg', a), oracle=expect(len(sa) - 1 if sa else USIZE_MAX, 'deg'), nontrivial=nt, tag=tag + ':deg'))
    out.append(Case('zp_cont_pp', line('zp_cont_pp', a), oracle=o_cont_pp(a), nontrivial=nt, tag=tag + ':cont_pp'))
    out.append(Case('zp_content', line('zp_content', a), oracle=o_content(a), nontrivial=nt, tag=tag + ':content'))
    for x in (0, 1, -1, 2, -3, rand_coef(rng, 128)):
        out.append(Case('zp_of', line('zp_of', a, x), oracle=expect(p_eval(sa, x), 'of'), nontrivial=nt, tag=tag + ':of'))
    for i in (0, 1, len(sa) - 1 if sa else 0, len(sa), len(a) + 3):
        out.append(Case('zp_coef_at', line('zp_coef_at', a, i), oracle=expect(sa[i] if i < len(sa) else 0, 'coef_at'), nontrivial=nt, tag=tag + ':coef_at'))

def q_binary(out, a, b, tag):
    sa, sb = strip(a), strip(b)
    nt = nz(a, b)
    out.append(Case('qp_add', line('qp_add', a, b), oracle=expect(p_add(sa, sb), 'qadd'), nontrivial=nt, tag=tag + ':add'))
    out.append(Case('qp_sub', line('qp_sub', a, b), oracle=expect(p_sub(sa, sb), 'qsub'), nontrivial=nt, tag=tag + ':sub'))
    out.append(Case('qp_mul', line('qp_mul', a, b), oracle=expect(p_mul(sa, sb), 'qmul'), nontrivial=nt, tag=tag + ':mul'))
    out.append(Case('qp_add_owned', line('qp_add_owned', a, b), oracle=expect(p_add(sa, sb), 'qadd (by value)'), nontrivial=nt, tag=tag + ':add_owned'))
    out.append(Case('qp_sub_owned', line('qp_sub_owned', a, b), oracle=expect(p_sub(sa, sb), 'qsub (by value)'), nontrivial=nt, tag=tag + ':sub_owned'))
    out.append(Case('qp_mul_owned', line('qp_mul_owned', a, b), oracle=expect(p_mul(sa, sb), 'qmul (by value)'), nontrivial=nt, tag=tag + ':mul_owned'))
    out.append(Case('qp_div_rem', line('qp_div_rem', a, b), oracle=o_divrem(a, b, lambda x, y: 1, 'div_rem_bigrational'), nontrivial=nt, tag=tag + ':divrem'))

def q_unary(out, a, rng, tag):
    sa = strip(a)
    nt = nz(a)
    out.append(Case('qp_from_raw', line('qp_from_raw', a), oracle=expect(sa, 'qfrom_raw'), nontrivial=nt, tag=tag + ':from_raw'))
    out.append(Case('qp_neg', line('qp_neg', a), oracle=expect(p_neg(sa), 'qneg'), nontrivial=nt, tag=tag + ':neg'))
    for x in (Fraction(0), Fraction(1), Fraction(-2, 3), rand_rat(rng)):
        out.append(Case('qp_of', line('qp_of', a, x), oracle=expect(p_eval(sa, x), 'qof'), nontrivial=nt, tag=tag + ':of'))

def division_pairs(rng, n, maxdeg, bits):
    """(a, b, kind): multiples, near multiples, remainders, higher-degree divisors, constants, zero."""
    out = []
    for _ in range(n):
        b = strip(rand_poly(rng, maxdeg // 2, bits, zero_ok=False)) or [rng.choice([1, -1, 2, 3, -6])]
        lead = rng.random()
        if lead < 0.35: b[-1] = 1                                   # monic
        elif lead < 0.5: b[-1] = -1
        elif lead < 0.65: b[-1] = rng.choice([2, -2, 3, -3, 6, -12])
        q = strip(rand_poly(rng, maxdeg // 2, bits, zero_ok=False)) or [rng.choice([1, -1, 7])]
        a = p_mul(q, b)
        out.append((a, b, 'multiple'))
        near = list(a); i = rng.randrange(len(near)); near[i] += rng.choice([1, -1, 2, b[-1], -b[-1], rand_coef(rng, bits) or 1])
        out.append((near, b, 'near-multiple'))
        if len(b) > 1:
            r = rand_poly(rng, len(b) - 2, bits)[:len(b) - 1]
            out.append((p_add(a, strip(r)), b, 'multiple+remainder'))
        c = rng.choice([2, -2, 3, -5, rand_coef(rng, 32) or 4])
        out.append((p_scale(c, a), p_scale(c, b), 'scaled-multiple'))      # divisible, lc not a unit
        out.append((a, p_scale(c, b), 'multiple-over-Q-only' ))             # b*c | a over Q, usually not over Z
        out.append((b, a, 'divisor-higher-degree'))
        out.append((a, [c], 'constant-divisor'))
        out.append(([c], b, 'constant-dividend'))
        out.append((a, a, 'equal'))
        out.append((a, p_neg(a), 'negated'))
    for p in ([], [1], [-1], [5], [0, 1], [3, 0, 2]):
        out.append((p, [], 'zero-divisor')); out.append(([], p, 'zero-dividend'))
    return out

PROFILES = ('debug', 'release')

def cases(rng, tier):
    th = tier == 'thorough'
    out = []
    V = [-2, -1, 0, 1, 2]
    raw3 = [list(t) for n in range(0, 4) for t in itertools.product(V, repeat=n)]          # 156 raw vectors
    can3 = [p for p in raw3 if strip(p) == p]                                                   # 125 canonical
    # ---- exhaustive small
    for a in raw3: z_unary(out, a, rng, 'small-raw')
    for a in can3:
        for b in can3: z_binary(out, a, b, 'small')
    if th:
        noncan = [p for p in raw3 if strip(p) != p]
        for a in noncan:
            for b in raw3:
                z_binary(out, a, b, 'small-trailing0'); z_binary(out, b, a, 'small-trailing0')
    else:
        noncan = [p for p in raw3 if strip(p) != p]
        for _ in range(400):
            z_binary(out, rng.choice(noncan), rng.choice(raw3), 'small-trailing0'); z_binary(out, rng.choice(raw3), rng.choice(noncan), 'small-trailing0')
    # ---- random big
    N = 250 if not th else 4000
    for _ in range(N):
        a = rand_poly(rng); b = rand_poly(rng)
        z_binary(out, a, b, 'random', ops=('add', 'sub', 'mul', 'eq', 'pseudo', 'exact'))
    for _ in range(N // 2):
        a = rand_poly(rng); z_unary(out, a, rng, 'random')
        a = rand_poly(rng) + [0] * rng.randrange(1, 4)                                           # trailing zeros
        z_unary(out, a, rng, 'random-trailing0')
        z_binary(out, a, rand_poly(rng) + [0] * rng.randrange(0, 3), 'random-trailing0', ops=('add', 'sub', 'mul', 'eq'))
        a = rand_poly(rng, 6, 16); z_binary(out, a, list(a), 'random-equal', ops=('eq', 'sub', 'exact'))
    # cancellation in add/sub (result must be stripped)
    for _ in range(N // 2):
        a = rand_poly(rng, 10, 64, zero_ok=False); k = rng.randrange(0, len(a) + 1)
        b = rand_poly(rng, 10, 64)[:k] + a[k:]
        z_binary(out, a, b, 'cancel', ops=('sub', 'eq')); z_binary(out, a, p_neg(b), 'cancel', ops=('add',))
    # ---- divisions
    for a, b, kind in division_pairs(rng, 60 if not th else 1500, 12, 64) + division_pairs(rng, 20 if not th else 300, 20, 128) \
            + division_pairs(rng, 60 if not th else 1500, 6, 3):
        z_binary(out, a, b, 'div-' + kind, ops=('pseudo', 'divrem', 'exact'))
    # ---- coefficients at the machine-word boundaries (+-2^31, 2^32, 2^63, 2^64, 2^127 and neighbours), mixed with small ones
    edge = [s_ * (2 ** e_ + d_) for e_ in (31, 32, 63, 64, 127) for d_ in (-1, 0, 1) for s_ in (1, -1)]
    def epoly(d): return [rng.choice(edge) if rng.random() < 0.6 else rng.randrange(-3, 4) for _ in range(d + 1)]
    for _ in range(40 if not th else 400):
        a = epoly(rng.randrange(0, 5)); b = epoly(rng.randrange(0, 4))
        z_binary(out, a, b, 'word-boundary')
        z_unary(out, a, rng, 'word-boundary')
    # ---- content
    for _ in range(N):
        a = strip(rand_poly(rng, 12, 64)); c = rng.choice([1, -1, 2, -6, 30, rand_coef(rng, 64) or 1])
        p = [c * x for x in a]
        out.append(Case('zp_cont_pp', line('zp_cont_pp', p), oracle=o_cont_pp(p), nontrivial=nz(p), tag='content-scaled'))
        out.append(Case('zp_content', line('zp_content', p), oracle=o_content(p), nontrivial=nz(p), tag='content-scaled'))
    # ---- rationals
    QV = [Fraction(-2), Fraction(-1, 2), Fraction(0), Fraction(1, 2), Fraction(2, 3), Fraction(1), Fraction(3)]
    qraw = [list(t) for n in range(0, 3 if not th else 4) for t in itertools.product(QV if not th else QV[1:6], repeat=n)]
    for a in qraw:
        q_unary(out, a, rng, 'q-small')
        for b in qraw: q_binary(out, a, b, 'q-small')
    for _ in range(N):
        a = rand_qpoly(rng); b = rand_qpoly(rng)
        q_binary(out, a, b, 'q-random'); q_unary(out, a, rng, 'q-random')
        a = a + [Fraction(0)] * rng.randrange(1, 3); q_unary(out, a, rng, 'q-trailing0'); q_binary(out, a, b, 'q-trailing0')
    for _ in range(N // 2):
        b = strip(rand_qpoly(rng, 5, 32, zero_ok=False)) or [Fraction(1, 3)]
        q = strip(rand_qpoly(rng, 5, 32, zero_ok=False)) or [Fraction(-2, 5)]
        a = p_mul(q, b)
        q_binary(out, a, b, 'q-multiple'); q_binary(out, b, a, 'q-divisor-higher')
        r = rand_qpoly(rng, 5, 32)[:len(b) - 1]
        q_binary(out, p_add(a, strip(r)), b, 'q-multiple+remainder')
        q_binary(out, a, [Fraction(3, 7)], 'q-constant'); q_binary(out, a, [], 'q-zero'); q_binary(out, [], b, 'q-zero')
    if os.environ.get('C09_ORACLE_ALL'):      # self-test of the oracles: run them on every case, not only on disagreements
        for c in out: c.always_oracle = True
    # a slice of the cases again on the release build of the implementation (wrapping arithmetic, debug assertions off)
    out += lib.release_slice(out, rng, 0.03, mode_ops=())
    return out
