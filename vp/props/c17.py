"""C17 decomposition of a rational prime in the maximal order (src/prime_decomp/simple.rs, mod.rs) and the CLI's
prime-decomposition."""
from fractions import Fraction
import lib
from lib import line, Id, Case, enc, default_compare
from props.ideal_common import *
from props.c16 import check_basis

NEEDS_CLI = True
TIMEOUT = 1500
PROFILES = ('debug', 'release')
RULE = ('fields: random monic irreducible f of degree 1..4 (5 in the thorough tier) with small coefficients, and f planted as '
        'g1^e1 * g2^e2 * .. + p * r for a chosen prime p and chosen degrees/multiplicities (totally ramified, ramified with residue '
        'degree > 1, inert, totally split, mixed, and g^p * h shapes for p = 2, 3), plus fixed fields with (O_K : Z[theta]) > 1 '
        '(x^2-5, x^2+3, x^2-18, x^2-50, x^2-147, x^2-245, x^3-10, x^3+19, x^3-17, x^3-16, Dedekind\'s cubic, x^4-20, x^4+4x^2+36..); '
        'maximal orders are the stored bases of the implementation\'s find_integral_basis (inputs only; f is kept only when its '
        'discriminant is within reach of the library\'s trial-division factoriser). primes: every prime <= 60 (200 thorough) on a '
        'rotating slice of the fields, every prime dividing the discriminant of f (ramified or dividing the index: must panic; p equal '
        'to the index when that is prime), the planted prime, and p = 18446744073709551629 > 2^64; random draws of the factoriser from a seed, '
        'some with a script of zero / 0xff bytes (rejected and degenerate draws first). the shape (degree, multiplicity) of f mod p '
        'is computed independently (square-free + distinct-degree factorisation) and is the bucket tag. CLI: prime-decomposition '
        'through the rust-number-theory binary. edge stream (model only): constant / zero / linear / non-monic / reducible f, '
        'p = 0, p = 1, orders not containing Z[theta], non-maximal orders, tables that do not belong to the order (both build profiles). '
        'non-trivial = degree >= 2 and the routine returned')
PROVED = ['decompose_refuses [P]: p | (O : Z[theta]) => Panic other (the documented panic), before any draw, for every draw stream',
          'above_p [P]: whenever decompose returns, every returned P_i is a lattice in normal form over the given table and contains p e_0 '
          '(the integer p when w_0 = 1), so P_i meet Z contains pZ; with C16 principal_is_ideal + add_is_ideal each P_i = (g_i(theta)) + (p) is an ideal',
          'degree_sum_partial [C]: the multiplicities returned are those of factorize_mod_p on the same draw stream (all draws are consumed there), and under the '
          'model-evaluated flag factor_flag (every g_i non-zero canonical, e_i >= 0, prod g_i^e_i = f coefficientwise mod p): sum e_i deg g_i = deg f '
          '(superseded by degree_sum)',
          'companion_projection [P]: decompose is, outcome by outcome, the projection of decompose_full (a definition of the proof development that keeps the '
          'mod-p factor g_i beside each (P_i, e_i)), for all inputs',
          'degree_sum [P]: p prime, f monic with at most 2^64 coefficients, both profiles, every draw stream: whenever decompose returns, the (g_i, e_i) behind '
          'the returned (P_i, e_i) are what factorize_mod_p returned on the same draws and sum e_i deg g_i = deg f (no flag; from C08 factorize_mod_p_product)',
          'prime_above_proper [P]: p prime, f monic, b the n x n stored basis of an order with w_0 = 1 that contains Z[theta] (power basis = integer matrix * b), '
          't = get_mult_table b f, ANY index prime to p (the test decompose performs), both profiles, every draw stream: every returned P_i is proper '
          '(the coordinate vector of 1 is not in its lattice), cap_z P_i returns p, and Ideal::contains(P_i, 1) returns false in both profiles',
          'primes_distinct [P]: same hypotheses: the returned ideals are pairwise different (NoDup of the stored normal forms); from g_i | g_j mod p whenever P_i = P_j '
          'and C08 factorize_mod_p_irreducible (irreducible, pairwise distinct factors)',
          'primes_prime [P]: same hypotheses: every returned P_i is a prime ideal of the order: proper, and a product (MultTable::mul) of two elements lies in P_i only if '
          'one of them does (membership criterion: v in P_i iff g_i divides index * v modulo p; g_i irreducible by C08)',
          'primes_comaximal [P]: same hypotheses: for two different positions i, j, whenever ideal_add(P_i, P_j) returns K (either profile), K contains every coordinate '
          'vector (P_i + P_j is the whole order)',
          'residue_degrees [P]: same hypotheses and b lower triangular (every stored basis is): Ideal::norm(P_i) returns p^(deg g_i), and sum e_i deg g_i = n: '
          'the residue degrees read off the norms satisfy sum e_i f_i = n (any index prime to p)',
          'decompose_no_panic [P]: p prime, f monic, b the stored basis of an order containing Z[theta] with its table, both profiles, every draw stream: the index '
          'computation returns; p | index => the documented panic; otherwise decompose returns or the model runs out of the fuel of the randomised loop of the '
          'factoriser -- never a panic (assert!(is_integer) of to_z_basis_int, the debug assertions of with_expr / principal / Add, every index and unwrap)',
          'product_below_p [P]: hypotheses of prime_above_proper (no maximality): ideal_product -- the unit ideal multiplied by every P_i, e_i times, with the model\'s '
          'Ideal::principal and Mul (a definition of the proof development) -- returns in both profiles a lattice in normal form all of whose members are p * w: '
          'prod P_i^e_i is inside p O (true also on Z[sqrt 5] at 2)',
          'product_equals_p_unramified [P]: same hypotheses, every e_i = 1: prod P_i IS p O: ideal_product returns the very ideal Ideal::principal returns on p, '
          'its norm is p^n, its members are exactly the p * w (Chinese remainder: the P_i are pairwise comaximal)',
          'product_equals_p_dedekind [C]: same hypotheses: prod P_i^e_i = p O (same conclusion) whenever the boolean dedekind_flag is true: with '
          'h = (f - prod g_i^e_i)/p in Z[x], no g_i with e_i >= 2 divides h modulo p (evaluated with the model\'s poly_mod / poly_divrem); the flag is true when no e_i > 1',
          'product_equals_p_maximal [P]: the product formula of Kummer-Dedekind, ramified primes included: hypotheses of prime_above_proper + is_order f n b '
          '(C06: stored lower triangular basis, contains 1, get_mult_table returns) + p_maximal f n p b (C06: p divides the index of b in no over-order; equivalently the '
          'Round 2 step at p returns howmany = 0): ideal_product returns (no panic, both profiles) the ideal principal returns on p, norm p^n, members exactly p * w. '
          'Proof: p-maximal => Round 2 step returns 0 => every multiplier of the p-radical I_p into p I_p lies in p O; I_p = L(prod g_i); a repeated g_i dividing h mod p '
          'would give the multiplier (f / g_i)(theta) outside p O; so Dedekind\'s criterion holds and p lies in every partial product',
          'dedekind_necessary [P]: under the hypotheses of product_equals_p_maximal the boolean dedekind_flag evaluates to true on the factors of the run '
          '(Dedekind\'s criterion is necessary for p-maximality; poly_mod / poly_divrem do not panic there)',
          'decompose_integral_basis [P]: the pipeline: for every monic f (degree deg >= 1, 2 deg < 2^64, non-zero discriminant of < 2^64 bits; both profiles) '
          'find_integral_basis returns O, get_mult_table its table t, and for EVERY prime p, every draw stream: whenever decompose md f O t p returns, every P_i is a proper '
          'prime ideal with P_i meet Z = pZ, the P_i are pairwise distinct, norm P_i = p^(deg g_i), sum e_i deg g_i = deg, and prod P_i^e_i = p O (principal(p), norm p^deg). '
          'No hypothesis on the order is left: p-maximality from C06 find_integral_basis_p_maximal, first row (1,0..0) (order_first_row), Z[theta] inside O (monic_contains_power_basis)',
          ]
NOT_PROVED = ['prod P_i^e_i = (p) for an order that is NOT known to be p-maximal and a ramified prime whose Dedekind flag is false: there the formula is false in general '
              '(Z[sqrt 5], p = 2: P = (2, 1 + sqrt 5), e = 2, P^2 = (4, 2 + 2 sqrt 5) <> (2): Examples ex_product_needs_maximal, ex_flag_false_Zs5); proved instead: '
              'containment in p O always (product_below_p), equality for unramified p, under the Dedekind flag, and on every p-maximal order (product_equals_p_maximal), '
              'hence for everything find_integral_basis returns on monic f (decompose_integral_basis). The oracle still checks the product on every case',
              'the converse of Dedekind\'s criterion (dedekind_flag true => the order is p-maximal); the necessity is dedekind_necessary',
              'non-monic f (the model panics in trivial_order_monic unless f is monic; C17 is about monic minimal polynomials)',
              'termination of the Cantor-Zassenhaus loop (probability 1 only, C08): decompose_no_panic leaves the alternative OutOfFuel of the model',
              'no Panic for p >= 2^64: refuted on the unchanged tree (D4), fixed in /repo; covered by the p = nextprime(2^64) cases']
ASSUMPTIONS = ['the maximal orders are inputs (stored bases from the implementation\'s find_integral_basis, property C06)',
               'the oracle takes the number of primes above p and their (f_i, e_i) from the Kummer-Dedekind theorem applied to its own '
               'factorisation shape of f mod p; with pairwise comaximality, prod P_i^e_i = (p) and the norms this forces every P_i to be prime']

CLAIM = dict(
    technique='Coq proof about the Gallina model of prime_decomp::decompose (on top of the models of C08, C14, C15, C16) + extracted-model-vs-implementation correspondence with replayed random draws + independent lattice oracle + CLI run',
    text='For all inputs and all draw streams: p | index => the documented panic and nothing returned (decompose_refuses); every returned ideal lies above p '
         '(above_p). For p prime, f monic, the table of an order with w_0 = 1 containing Z[theta], any index prime to p: the (g_i, e_i) behind the returned (P_i, e_i) '
         'are the output of factorize_mod_p on the same draws and sum e_i deg g_i = n (degree_sum, unconditional); every P_i is proper with cap_z P_i = p '
         '(prime_above_proper); every P_i is a prime ideal of the order (primes_prime); the P_i are pairwise distinct and comaximal (primes_distinct, primes_comaximal); for a lower triangular stored basis norm P_i = p^(deg g_i) (residue_degrees); on such inputs decompose never panics when p does not divide the index (decompose_no_panic). The product of the returned ideals, computed with the model\'s principal and Mul (ideal_product), lies in p O (product_below_p); it IS p O -- the ideal principal returns on p, norm p^n -- when p is unramified (product_equals_p_unramified), when the boolean Dedekind flag holds (product_equals_p_dedekind), and whenever the order is p-maximal in the sense of C06 (product_equals_p_maximal). For the order returned by find_integral_basis on a monic f all hypotheses on the order are discharged: for every prime p the returned P_i are prime, distinct, of norm p^(deg g_i), sum e_i f_i = n and prod P_i^e_i = p O (decompose_integral_basis). decompose_full, the run with the factor kept beside each ideal, is a definition of the '
         'proof development proved to project onto decompose outcome by outcome (companion_projection). The model (coq/Model/PrimeDecomp.v) reproduces simple::decompose '
         'statement by statement: the index test with the documented panic, the conversion of p to usize (0 when it does not fit), factorize_mod_p on the logged draw '
         'stream, and per factor the degree branch, to_z_basis_int, the two principal ideals and their sum.',
    note='the product formula is proved under p-maximality (or the Dedekind flag, or e_i = 1); without such a hypothesis it is false (Z[sqrt 5], p = 2) and only the '
         'containment in p O is proved; the oracle checks the product on every explored input; ideal_product and decompose_full are definitions of the proof development '
         'built from the model\'s own principal / Mul / decompose_factor; that the order contains Z[theta] (an integer matrix Sl with Sl * b = identity) is a hypothesis of prime_above_proper / primes_prime / primes_distinct / primes_comaximal',
    ref='DESIGN.md section 4, C17')

# ---------------------------------------------------------------- oracle

def exact_log(q, p):
    k = 0
    while q % p == 0: q //= p; k += 1
    return k if q == 1 else None

def check_decomposition(O, f, p, res):
    n = O.n
    shape = shape_mod_p(f, p)
    got = []
    Hs = []
    for H, e in res:
        pb = hnf_problem(H, n)
        if pb: return 'P = %s not in normal form: %s' % (H, pb)
        if len(H) != n: return 'P = %s is not of full rank' % H
        if not O.is_ideal(H): return 'P = %s is not an ideal' % H
        c = O.cap_z(H)
        if c != p: return 'P = %s meets Z in (%s), expected (%s)' % (H, c, p)
        nm = index_of(echelon(H, n), n)
        fi = exact_log(nm, p)
        if not fi: return 'norm(P) = %s is not a positive power of %s (P = %s)' % (nm, p, H)
        got.append((fi, e)); Hs.append(H)
    if sorted(got) != shape:
        return '(residue degree, ramification index) = %s, but f mod p has the shape %s' % (sorted(got), shape)
    if sum(fi * e for fi, e in got) != n: return 'sum e_i f_i = %s != %s' % (sum(fi * e for fi, e in got), n)
    unit = [[int(i == j) for j in range(n)] for i in range(n)]
    for i in range(len(Hs)):
        for j in range(i + 1, len(Hs)):
            if Hs[i] == Hs[j]: return 'P_%d = P_%d = %s' % (i, j, Hs[i])
            if not lattice_eq(O.l_add(Hs[i], Hs[j]), unit, n): return 'P_%d + P_%d is not the whole order' % (i, j)
    prod = unit
    for H, e in res:
        for _ in range(e): prod = O.l_mul(prod, H)
    if not lattice_eq(prod, [[p * x for x in r] for r in unit], n): return 'prod P_i^e_i = %s is not (%s)' % (prod, p)
    return None

def o_decompose(O, f, p):
    idx = O.index_in_power_basis()
    def orc(ia):
        if ia.kind != 'ok': return 'decompose did not return: %s' % ia.raw[:160]
        refuses = idx.denominator == 1 and idx.numerator % p == 0
        if str(ia.val[0]) == 'panic':
            if refuses and str(ia.val[1]) == 'other': return None
            return 'decompose panicked (%s) although p = %s does not divide the index %s' % (ia.val[1], p, idx)
        if refuses: return 'decompose returned although p = %s divides the index %s' % (p, idx)
        B, res = ia.val[1]
        return check_basis(O, B) or check_decomposition(O, f, p, res)
    return orc

# ---------------------------------------------------------------- comparison with the model

def compare_dec(ia, ma):
    """implementation: ok [ok v bytes] | ok [panic cls bytes] | panic; model: ok [ok v remaining exhausted] | panic cls"""
    return pm.compare_rng(ia, ma)

def model_dec(ctx, p, prof):
    def mk(ia):
        by = ia.val[2] if ia.kind == 'ok' else []
        return line('dec_decompose', ctx, p, by) + (' wrapping' if prof == 'release' else '')
    return mk

def dec_case(rng, ctx, p, O, f, tag, script=(), nontrivial=True, oracle=True, profile='debug'):
    seed = rng.getrandbits(64)
    return Case('dec_decompose', line('dec_decompose', ctx, p, seed, list(script)), model=model_dec(ctx, p, profile), compare=compare_dec,
                oracle=o_decompose(O, f, p) if oracle else None, always_oracle=oracle, nontrivial=nontrivial, tag=tag, profile=profile)

CLI_STREAM = splitmix_bytes(CLI_SEED, 4096)

def compare_norms(ia, ma):
    """CLI / library on its own maximal order: ok [[norm e]..] | ok cli_failed | panic; model: ok [[norm e]..] | panic"""
    if ia.kind == 'panic': return default_compare(ia, ma)
    if ia.kind != 'ok': return 'implementation %r' % ia.raw[:200]
    if ia.val == Id('cli_failed'):
        return None if ma.kind == 'panic' else 'the CLI failed, model %r' % ma.raw[:200]
    if ma.kind != 'ok': return 'CLI %r vs model %r' % (ia.raw[:200], ma.raw[:200])
    if sorted(enc(x) for x in ia.val) != sorted(enc(x) for x in ma.val):
        return 'CLI %r vs model %r (as multisets of (norm, e))' % (enc(ia.val)[:200], enc(ma.val)[:200])
    return None

def o_norms(O, f, p):
    idx = O.index_in_power_basis()
    def orc(ia):
        refuses = idx.numerator % p == 0
        if ia.kind == 'panic' or ia.val == Id('cli_failed'):
            return None if refuses else 'prime-decomposition failed although p does not divide the index: %s' % ia.raw[:120]
        if ia.kind != 'ok': return 'did not return: %s' % ia.raw[:120]
        if refuses: return 'prime-decomposition returned although p divides the index'
        got = []
        for nm, e in ia.val:
            fi = exact_log(nm, p)
            if not fi: return 'norm %s is not a power of %s' % (nm, p)
            got.append((fi, e))
        if sorted(got) != shape_mod_p(f, p): return '(f_i, e_i) = %s but f mod p has the shape %s' % (sorted(got), shape_mod_p(f, p))
    return orc

# ---------------------------------------------------------------- generators

def factoriser_friendly(n, bound=150000):
    """the library's trial division finishes quickly on |n|"""
    n = abs(int(n))
    if n == 0: return False
    d = 2
    while d <= bound and d * d <= n:
        while n % d == 0: n //= d
        d += 1
    return d * d > n

def disc_int(f): return int(disc_poly([F(x) for x in f]))

def sym(c, p):
    c %= p
    return c - p if c > p // 2 else c

def planted(rng, p, shape):
    """monic f, irreducible over Q, with f = prod g_i^e_i mod p for distinct monic irreducible g_i of the given degrees"""
    for _ in range(60):
        gs = pm.distinct_irreducibles(rng, p, [d for d, e in shape])
        if gs is None: return None
        f = [1]
        for g, (d, e) in zip(gs, shape):
            for _ in range(e): f = pm.pmul(f, g, p)
        n = len(f) - 1
        f = [sym(c, p) for c in f]
        f = [c + p * rng.choice([0, 0, 1, -1]) for c in f[:-1]] + [1]
        if f[0] != 0 and irreducible_Q(f) and factoriser_friendly(disc_int(f)): return f
    return None

def shape_tag(shape, n):
    if shape == [(n, 1)]: return 'inert'
    if shape == [(1, n)]: return 'totally-ramified'
    if shape == [(1, 1)] * n: return 'totally-split'
    if all(e == 1 for d, e in shape): return 'unramified-mixed'
    return 'ramified-mixed'

FIXED_INDEX = [[-5, 0, 1], [3, 0, 1], [-18, 0, 1], [-50, 0, 1], [-147, 0, 1], [-245, 0, 1], [-10, 0, 0, 1], [19, 0, 0, 1], [-17, 0, 0, 1],
               [-16, 0, 0, 1], [8, 2, -1, 1], [-20, 0, 0, 0, 1], [36, 0, 4, 0, 1], [-12, 0, 0, 1]]
FIXED_PLAIN = [[1, 0, 1], [5, 0, 1], [-2, 0, 0, 1], [1, 0, 0, 0, 1], [-2, 0, 0, 0, 1], [1, 1, 1, 1, 1], [2, 1], [-7, 1]]

SHAPES = {2: [[(1, 2)], [(2, 1)], [(1, 1), (1, 1)]],
          3: [[(1, 3)], [(3, 1)], [(1, 1)] * 3, [(1, 2), (1, 1)], [(1, 1), (2, 1)]],
          4: [[(1, 4)], [(4, 1)], [(1, 1)] * 4, [(2, 2)], [(1, 2), (2, 1)], [(1, 2), (1, 2)], [(1, 3), (1, 1)], [(2, 1), (2, 1)], [(1, 2), (1, 1), (1, 1)],
              [(1, 1), (3, 1)]],
          5: [[(1, 5)], [(5, 1)], [(1, 1)] * 5, [(1, 2), (3, 1)], [(2, 2), (1, 1)], [(1, 3), (2, 1)], [(1, 2), (1, 3)], [(1, 4), (1, 1)], [(2, 1), (3, 1)]]}

def primes_upto(m): return [q for q in SMALL_PRIMES if q <= m]

def cases(rng, tier):
    quick = tier == 'quick'
    out = []
    pmax = 60 if quick else 200
    maxdeg = 4 if quick else 5
    plist = primes_upto(pmax)
    # ---- fields
    fields = []      # (f, kind, planted prime or None)
    for f in FIXED_INDEX: fields.append((f, 'index>1', None))
    for f in FIXED_PLAIN: fields.append((f, 'fixed', None))
    for d in range(1, maxdeg + 1):
        for _ in range(2 if quick else 6):
            for _ in range(50):
                f = rand_irreducible(rng, d, 4 if d < 5 else 3, monic=True) if d >= 2 else [rng.randint(-9, 9), 1]
                if d == 1 or factoriser_friendly(disc_int(f)): break
            fields.append((f, 'random', None))
    for d in range(2, maxdeg + 1):
        for sh in SHAPES[d]:
            need = len(sh)
            for _ in range(1 if quick else 3):
                # residue fields must have enough irreducibles of each degree: p >= number of degree-1 factors
                cand = [q for q in plist if q <= (31 if d >= 4 else 60) and q >= sum(1 for dd, e in sh if dd == 1)]
                p = rng.choice(cand[:6]) if rng.random() < 0.6 else rng.choice(cand)
                f = planted(rng, p, sh)
                if f is not None: fields.append((f, 'planted', p))
    # g^p * h shapes mod p (the p-th root step of the square-free stage)
    for p, sh in ((2, [(1, 2), (1, 1)]), (2, [(1, 2), (2, 1)]), (2, [(2, 2)]), (3, [(1, 3), (1, 1)]), (2, [(1, 4)]), (3, [(1, 3)]), (2, [(1, 2), (1, 2)])):
        if sum(d * e for d, e in sh) <= maxdeg:
            f = planted(rng, p, sh)
            if f is not None: fields.append((f, 'planted-g^p', p))
    fB = max_orders([f for f, _, _ in fields])
    kind_of = {enc(f): (k, pp) for f, k, pp in fields}
    # ---- cases
    rot = 0
    for f, B in fB:
        kind, pp = kind_of[enc(f)]
        O = Ord(B, f)
        n = O.n
        ctx = ctx_ord(B, f)
        idx = O.index_in_power_basis()
        assert idx.denominator == 1
        idx = idx.numerator
        D = disc_int(f) if n >= 2 else 1
        ps = set()
        # primes dividing the discriminant: ramified ones and the ones dividing the index
        for q in SMALL_PRIMES:
            if D % q == 0: ps.add(q)
        if pp: ps.add(pp)
        k = 5 if quick else 10
        for i in range(k): ps.add(plist[(rot + i * 7) % len(plist)])
        rot += 3
        for p in sorted(ps):
            refuses = idx % p == 0
            sh = shape_mod_p(f, p)
            tag = 'refuse:p|index' + (':p=index' if p == idx else '') if refuses else '%s:deg%d' % (shape_tag(sh, n), n)
            script = ()
            r = rng.random()
            if r < 0.15: script = [0] * rng.choice([8, 64])
            elif r < 0.3: script = [255] * rng.choice([8, 64])
            out.append(dec_case(rng, ctx, p, O, f, tag, script=script, nontrivial=n >= 2))
            # the refusal (and a slice of the ordinary cases) also in the release profile: a check demoted to a debug assertion
            # disappears there
            if refuses or rng.random() < 0.15:
                out.append(dec_case(rng, ctx, p, O, f, tag + ':release', script=script, nontrivial=n >= 2, profile='release'))
        if n in (2, 3) and kind != 'random':
            pw = rng.choice([2147483647, 4294967291, 4294967311, 9223372036854775783, 18446744073709551557])
            if idx % pw and D % pw:
                out.append(dec_case(rng, ctx, pw, O, f, 'p-word-boundary:%s:deg%d' % (shape_tag(shape_mod_p(f, pw), n), n)))
        if n >= 2 and (kind != 'random' or rng.random() < 0.5):
            out.append(dec_case(rng, ctx, P_BIG, O, f, 'p>2^64:%s:deg%d' % (shape_tag(shape_mod_p(f, P_BIG), n), n)))
    # ---- CLI: the binary computes the maximal order itself; the model gets the same order as an input
    cli = [(f, B) for f, B in fB if len(f) >= 3]
    rng.shuffle(cli)
    for f, B in cli[:10 if quick else 40]:
        O = Ord(B, f)
        idx = O.index_in_power_basis().numerator
        D = disc_int(f)
        cand = [q for q in plist[:12] if idx % q != 0]
        chosen = [rng.choice(cand)] + [q for q in SMALL_PRIMES[:10] if D % q == 0][:2]
        for p in chosen:
            ctx = ctx_ord(B, f)
            out.append(Case('cli_prime_decomp', line('cli_prime_decomp', f, p), model=line('dec_norms', ctx, p, CLI_STREAM), compare=compare_norms,
                            oracle=o_norms(O, f, p), always_oracle=True, tag='cli' + (':refuse' if idx % p == 0 else '')))
            out.append(Case('dec_lib_norms', line('dec_lib_norms', f, p), model=line('dec_norms', ctx, p, CLI_STREAM), compare=compare_norms,
                            oracle=o_norms(O, f, p), always_oracle=True, tag='cli-lib' + (':refuse' if idx % p == 0 else '')))
    # the binary with SEVERAL primes in one configuration, one of them beyond 2^64 (and one beyond 2^31): every prime that
    # does not divide the index must get its entry; decided by the oracle on the printed (norm, e) lists, prime by prime
    import lib as _lib
    def o_multi(O, f, ps):
        def orc(ia):
            if ia.kind != 'ok' or ia.val == Id('cli_failed'): return 'prime-decomposition of %s at %s failed: %s' % (f, ps, ia.raw[:120])
            if [e[0] for e in ia.val] != list(ps): return 'the CLI printed entries for the primes %s, asked for %s' % ([e[0] for e in ia.val], list(ps))
            for q, fl in ia.val:
                class A: pass
                a_ = A(); a_.kind = 'ok'; a_.val = fl; a_.raw = str(fl)
                r = o_norms(O, f, q)(a_)
                if r is not None: return 'prime %s of %s: %s' % (q, ps, r)
            return None
        return orc
    for f, B in cli[:4 if quick else 12]:
        O = Ord(B, f)
        idx = O.index_in_power_basis().numerator
        ps = [q for q in (5, 4294967311, P_BIG, 13) if idx % q != 0]
        out.append(Case('cli_prime_decomp_multi', line('cli_prime_decomp_multi', f, ps), model=_lib.IMPL_ONLY, oracle=o_multi(O, f, ps),
                        always_oracle=True, tag='cli-multi'))
        # several commands in one configuration share the parsed (polynomial, primes) input
        small = [q for q in (5, 7, 13, 31) if idx % q != 0][:3]
        for cmds in (['fmp', 'pd'], ['pd', 'pd'], ['pd', 'fmp', 'pd']):
            out.append(Case('cli_seq', line('cli_seq', Id('pp'), f, small, [Id(c) for c in cmds]), model=_lib.IMPL_ONLY, oracle=_lib.o_cli_seq(len(cmds)),
                            always_oracle=True, tag='cli-several-commands'))
    out += edge_cases(rng)
    return out

ZI = [[[1, 0], [0, 1]], [[0, 1], [-1, 0]]]

def edge_cases(rng):
    out = []
    def E(ctx, p, tag, profile='debug', script=()):
        out.append(dec_case(rng, ctx, p, None, None, 'edge:' + tag, script=script, nontrivial=False, oracle=False, profile=profile))
    sg = lambda f: [Id('ord'), [Id('sgnew'), f], f]
    for prof in ('debug', 'release'):
        # p = 0: remainder by zero; p = 1: divides every index
        for p in (0, 1):
            E(sg([1, 0, 1]), p, 'p=%d' % p, prof)
        # constant / zero / non-monic / reducible minimal polynomials
        for f in ([], [3], [1, 0, 2], [2, 0, 3], [-1, 0, 1], [0, 0, 1], [0, 1], [6, 5, 1]):
            for p in (2, 3, 5, 7):
                E([Id('ord'), [Id('triv'), f], f] if len(f) < 2 or f[-1] != 1 else sg(f), p, 'f-shape', prof)
        # orders that do not contain Z[theta] (index not an integer), non-maximal orders
        E([Id('ord'), [Id('basis'), [[2, 0], [0, 2]]], [1, 0, 1]], 3, 'index-not-integer', prof)
        E([Id('ordtab'), [Id('basis'), [[1, 0], [0, F(1, 3)]]], [1, 0, 1], ZI], 5, 'index-not-integer', prof)
        for p in (2, 3, 5, 7, 11): E(sg([-5, 0, 1]), p, 'non-maximal', prof)
        for p in (2, 3, 5): E(sg([-10, 0, 0, 1]), p, 'non-maximal', prof)
        # a table that does not belong to the order: wrong ring, wrong dimension, ragged
        for T in (ZI, [[[1]]], [], [[[1, 0, 0], [0, 1, 0], [0, 0, 1]], [[0, 1, 0], [0, 0, 1], [2, 0, 0]], [[0, 0, 1], [2, 0, 0], [0, 2, 0]]],
                  [[[1, 0], [0, 1]], [[0, 1]]]):
            for p in (3, 5, 7):
                E([Id('ordtab'), [Id('sgnew'), [5, 0, 1]], [5, 0, 1], T], p, 'foreign-table', prof)
        # the order is not the order of f: basis of another dimension
        E([Id('ordtab'), [Id('sgnew'), [-2, 0, 0, 1]], [5, 0, 1], ZI], 3, 'foreign-order', prof)
        E([Id('ordtab'), [Id('sgnew'), [2, 1]], [5, 0, 1], ZI], 3, 'foreign-order', prof)
    # degenerate draw streams on a split prime
    for sc in ([0] * 200, [255] * 200, [1] * 100):
        E(sg([1, 0, 1]), 5, 'script', script=sc); E(sg([-2, 0, 0, 1]), 31, 'script', script=sc)
    return out
