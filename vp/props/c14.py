"""C14 number-field element arithmetic (src/algebraic.rs) and multiplication tables (src/mult_table.rs,
Order::get_mult_table / to_z_basis(_int))."""
from fractions import Fraction
from lib import line, Id, Case
from props.ao_common import *

RULE = ('quotient ring: f random of degree 1..6 (monic / non-monic / reducible / non-primitive), coefficients to 12 (a slice to 2^20); '
        'elements = canonical representatives of every degree < n with rational coefficients of 3, 20 and 40 bits (numerator and '
        'denominator), zero, constants; products, sums, differences, powers (both exponent types, e <= 40 for small and <= 12 for 40-bit '
        'coefficients, e = 0, e < 0), the four laws (assoc, distrib, comm, a^(s+t) = a^s a^t) evaluated by the code on both sides; '
        'tables: equation orders Z[theta] (monic irreducible and monic reducible f), trivial_order_monic, starting orders '
        'non_monic_initial_order(f) and Z[lc*theta] for non-monic f, maximal orders (bases taken from the implementation\'s '
        'find_integral_basis, used only as inputs), degree 1..6; coordinate vectors with entries of 3 and 40 bits, unit vectors, zero, '
        'zero divisors for reducible f; explicit tables (Z[i], random well-shaped n <= 4) and a malformed stream (ragged/empty tables, '
        'vectors of the wrong length, lattices that are not rings, singular bases, degree-0 and zero f, representatives of degree >= n) '
        'compared with the model only; the debug_assert of mul in both build profiles. '
        'non-trivial = degree >= 2 and a non-zero, non-constant operand')
PROFILES = ('debug', 'release')
PROVED = ['mul_with_mod_spec [P]: for f canonical of degree n, a, b canonical of degree < n: alg_mul returns r canonical of degree < n with Poly r = (Poly a * Poly b) %% Poly f over Qc (monic or not, reducible or not)',
          'mul_with_mod_congruence [P]: pmul a b = padd (pmul q (map qz f)) r with the model\'s own list operations',
          'alg_add_spec / alg_sub_spec [P]', 'alg_mul_comm / alg_mul_assoc / alg_mul_distr / alg_mul_one [P] as equalities of stored representatives',
          'alg_pow_spec [P]: the supplied fuel suffices, result = representative of a^e (e >= 0, n >= 1)', 'alg_pow_add [P]: a^(s+t) = a^s * a^t',
          'mult_table_mul_linear_l / _r [P] (bilinearity of MultTable::mul on n x n x n tables, both profiles), mult_table_mul_sum, mult_table_trace_sum (closed forms), trace_additive [P]',
          'get_mult_table_shape [P]: a returned table is n x n x n',
          'table_mul_agrees [P]: if get_mult_table returned, mul on integer coordinate vectors returns the coordinates of the product in Q[x]/(f)',
          'to_z_basis_int_spec [P]: returned integer coordinates reproduce the element',
          'norm_det [P]: on an n x n x n table norm a = det of the integer matrix sum_i a_i T_i (the multiplication matrix); to_integer does not truncate',
          'table_of_order_comm / table_of_order_assoc [P]: if get_mult_table b f = Done t (any n, b any n x n rational matrix) then MultTable::mul of t is commutative and associative on all integer vectors of length n (both profiles)',
          'table_of_order_comm_assoc [P]: for such t the boolean flags Ideal.table_shape, Ideal.table_comm, IdealLaws.table_assoc (the table hypotheses of the C16 laws) are true',
          'norm_multiplicative [P] (hypothesis: n x n x n table with table_assoc = true) and norm_multiplicative_order [P] (table of an order, no flag): norm (mul a b) = norm a * norm b; rep_matrix_mul [P]: M_(a*b) = M_b *m M_a',
          'trace_is_matrix_trace [P]: trace a = \\tr of the matrix of x |-> x * a on every n x n x n table; trace_is_rep_trace [P] (table_comm = true) / trace_is_rep_trace_order [P]: trace a = \\tr M_a for the matrix M_a whose determinant norm returns',
          'inv_spec [P]: on every n x n x n table, with nm = norm a: nm = 0 -> inv a panics (unwrap of Err(MatrixNotInvertible)); nm <> 0 -> inv a = Done (b, |nm|), size b = n, mul a b = |nm| * e_0 (the rational row |nm| * row 0 of M_a^-1 is integral: to_integer does not truncate)',
          'inv_cancel [P] (table_assoc = true, e_0 a right identity): for (b, d) returned by inv a, mul (mul c a) b = d * c for every c',
          'norm_resultant [P]: for every f of degree n >= 1 (any leading coefficient), every basis b with get_mult_table b f = Done t and every integer vector a: with g = sum_k a_k * (row k of b) the polynomial such that the element is g(theta), qz (norm a) = resultant g f / lc(f)^(deg g) over Qc (MathComp Sylvester determinant; resultant g f is the classical Res(f, g))',
          'norm_resultant_monic [P]: for monic f and the power basis (identity_power_basis: the basis trivial_order_monic starts from), norm a = resultant (Poly a) (Poly f) over Z',
          'inv_diff_dual [P]: on every n x n x n table (n >= 1, nothing else assumed), if get_inv_diff returns (l, N) then an integer vector v lies in the row lattice of N iff for every integer '
          'vector w the value trace(mul v w) returned by MultTable::trace on MultTable::mul is divisible by l, i.e. N / l is the dual lattice of the order for the trace form; '
          'inv_diff_dual_mx [P]: the same as v * Tr = l * c with Tr_ij = trace(w_i w_j); inv_diff_scaled_inverse [P]: N is the normal form of an integer matrix Int with Int Tr = Tr Int = l > 0; '
          'trace_mul_form [P]: trace(mul v w) = sum_ij v_i w_j Tr_ij',
          'get_mult_table_total / get_mult_table_iff [P]: for canonical f of degree n and a full-rank n x n rational basis b (det != 0), Order::get_mult_table returns a table IF AND ONLY IF '
          'every product b_i b_j mod f has integer coordinates on b (the Z-span of b is closed under multiplication); the function has no unbounded loop, so otherwise it panics (integrality assertion)',
          'get_inv_diff_total / get_inv_diff_returns_iff [P]: on every n x n x n table (n >= 1, nothing else assumed) get_inv_diff returns some (l, N) if det Tr != 0 '
          '(Tr_ij = trace(w_i w_j)) and panics (unwrap of Err(MatrixNotInvertible)) if det Tr = 0; no other outcome',
          'to_z_basis_spec [P]: for an n x n rational basis b with det != 0 and every coefficient list a of length <= n, to_z_basis returns a vector x of length n with '
          'sum_k x_k b_k = a, and x is the only such vector of length n; to_z_basis_ok [P] (partial correctness, no determinant hypothesis); '
          'to_z_basis_singular [P]: on a singular n x n basis it panics (expect on Err(MatrixNotInvertible))']
NOT_PROVED = []
ASSUMPTIONS = ['solve_linear_system / determinant / inv are used through the C18 theorems of area/linalg (solve_ok) merged into this branch',
               'Algebraic.as_coefs with the zero polynomial is not run (the frozen model would build a list of usize::MAX entries; the code aborts with capacity overflow)']

CLAIM = dict(
    technique='Coq proof about the Gallina model of Algebraic / MultTable / Order::get_mult_table + extracted-model-vs-implementation correspondence',
    text='Theorems in coq/Props/C14.v hold for all f of degree n >= 1 (any leading coefficient, reducible or not), all canonical representatives and all '
         'n x n x n tables (no size bound): mul_with_mod is the polynomial remainder of the product; ring laws and a^(s+t) = a^s a^t as equalities of stored '
         'representatives; binary exponentiation terminates within the supplied fuel; MultTable::mul is bilinear, trace additive; a table returned by '
         'get_mult_table makes mul agree with the product in Q[x]/(f) on coordinate vectors, and its mul is commutative and associative on all integer vectors '
         '(so the boolean table flags assumed by the C16 laws hold for every table of an order); norm a = det M_a and trace a = tr M_a for the integer matrix '
         'M_a = sum_i a_i T_i; norm is multiplicative on every associative table; inv a returns (b, |norm a|) with a * b = |norm a| * e_0 whenever norm a <> 0 '
         '(the adjugate argument: nothing is truncated) and panics when norm a = 0; get_inv_diff returns the dual lattice of the trace form on every well-shaped table (inv_diff_dual: v in N iff l | trace(v w) for all integer w); norm(g(theta)) = Res(f, g) / lc(f)^(deg g) for every table of an order, any basis '
         '(Res = MathComp\'s Sylvester determinant; the link from the model\'s resultant routines to that determinant is C10\'s). The model (coq/Model/Algebraic.v, MultTable.v, Order.v) reproduces '
         'the routines statement by statement including assertions, unwraps and bounds checks; it is tied to /repo by running the extracted model and impl_svc on '
         'the same inputs.',
    note='get_inv_diff: the returned (l, N) is proved to be the dual lattice of the trace form (inv_diff_dual), for every well-shaped table, and it returns iff the trace form is non-degenerate (get_inv_diff_total). to_z_basis (rational coordinates) returns the unique coordinate vector on every full-rank basis (to_z_basis_spec; the Fraction oracle on every explored input is kept). '
         'inv_spec is stated for every well-shaped table: that b / |norm a| is the inverse of a needs w_0 = 1 and associativity (inv_cancel), which the theorem takes as hypotheses. '
         'Statements about tables are partial-correctness statements (they assume get_mult_table returned).',
    ref='DESIGN.md section 4, C14')

def fr(l): return [F(x) for x in l]

# ---------------------------------------------------------------- oracles: quotient ring

def o_val(exp, what):
    def orc(ia):
        if ia.kind != 'ok': return '%s did not return: %s' % (what, ia.raw[:120])
        if not isinstance(ia.val, list) or fr(ia.val) != exp:
            return '%s = %s, expected %s (canonical representative of degree < n)' % (what, ia.val, exp)
    return orc

def o_law(f, a, b, c, s, t):
    def orc(ia):
        if ia.kind != 'ok': return 'ring-law evaluation did not return: %s' % ia.raw[:120]
        names = ['(ab)c = a(bc)', 'a(b+c) = ab+ac', 'ab = ba', 'a^(s+t) = a^s a^t']
        exp = [mulmod(mulmod(a, b, f), c, f), mulmod(a, padd(b, c), f), mulmod(a, b, f), powmod_naive(a, s + t, f)]
        for nm, pr, e in zip(names, ia.val, exp):
            if fr(pr[0]) != fr(pr[1]): return 'law %s fails: %s vs %s' % (nm, pr[0], pr[1])
            if fr(pr[0]) != e: return 'law %s: both sides %s but the quotient-ring value is %s' % (nm, pr[0], e)
    return orc

# ---------------------------------------------------------------- oracles: tables (answers are [basis result])

def split(ia, what):
    if ia.kind != 'ok': return None, None, '%s did not return: %s' % (what, ia.raw[:160])
    B, r = ia.val
    return fmat(B), r, None

def closed_under_mult(B, f):
    n = len(B)
    for i in range(n):
        for j in range(i, n):
            c = coords(B, mulmod(ptrim(B[i]), ptrim(B[j]), f))
            if any(not is_int(x) for x in c): return False
    return True

def o_table(f):
    def orc(ia):
        B, T, e = split(ia, 'get_mult_table')
        if e: return e
        n = len(B)
        if not is_square(B) or len(T) != n: return 'table has the wrong shape'
        for i in range(n):
            for j in range(n):
                c = coords(B, mulmod(ptrim(B[i]), ptrim(B[j]), f))
                if [F(x) for x in T[i][j]] != c: return 'table[%d][%d] = %s but w_i w_j has coordinates %s' % (i, j, T[i][j], c)
    return orc

def o_tmul(f, a, b):
    def orc(ia):
        B, r, e = split(ia, 'table mul')
        if e: return e
        c = coords(B, mulmod(elem_of(B, a), elem_of(B, b), f))
        if fr(r) != c: return 'mul = %s but the field product has coordinates %s' % (r, c)
    return orc

def o_trace(f, a):
    def orc(ia):
        B, r, e = split(ia, 'trace')
        if e: return e
        M = mult_matrix(B, f, elem_of(B, a))
        t = sum((M[k][k] for k in range(len(B))), F(0))
        if F(r) != t: return 'trace = %s, trace of the multiplication matrix is %s' % (r, t)
    return orc

def norm_ref(B, f, a):
    return det(mult_matrix(B, f, elem_of(B, a)))

def o_norm(f, a):
    def orc(ia):
        B, r, e = split(ia, 'norm')
        if e: return e
        d = norm_ref(B, f, a)
        if F(r) != d: return 'norm = %s, determinant of the multiplication matrix is %s' % (r, d)
        g = elem_of(B, a)
        if g:   # [N] norm(g(theta)) = Res(f, g) / lc(f)^deg g
            res = resultant(fr(f), g) / F(f[-1]) ** (len(g) - 1)
            if res != d: return 'norm = %s but Res(f, g)/lc^deg g = %s' % (r, res)
    return orc

def o_inv(f, a):
    def orc(ia):
        if ia.kind == 'panic':
            # the basis is not in the answer: nothing to check beyond the model unless the element is visibly zero
            return None if all(x == 0 for x in a) or ia.cls == 'unwrap' else 'inv panicked: %s' % ia.raw[:120]
        B, r, e = split(ia, 'inv')
        if e: return e
        b, d = r
        nm = norm_ref(B, f, a)
        if nm == 0: return 'inv returned for an element of norm 0'
        if F(d) != abs(nm): return 'inv: d = %s, |norm a| = %s' % (d, abs(nm))
        prod = mulmod(elem_of(B, a), elem_of(B, b), f)
        if prod != [F(d)]: return 'inv: a * b = %s, expected the constant %s' % (prod, d)
    return orc

def o_inv_diff(f):
    def orc(ia):
        B, r, e = split(ia, 'get_inv_diff')
        if e: return e
        l, H = r
        n = len(B)
        T = trace_form(B, f)
        D = inverse(T)
        if D is None: return 'get_inv_diff returned but the trace form is singular'
        if l != lcm_den(D): return 'denominator %s, lcm of the denominators of the dual basis is %s' % (l, lcm_den(D))
        pb = is_lower_hnf(H)
        if pb: return 'numerator is not in HNF: ' + pb
        if not same_module(fmat(H), [[x * l for x in row] for row in D]): return 'numerator does not span l * (dual lattice)'
        # den^n / norm(numer) = |disc(order)| (the relation used by the library's own tests)
        if len(f) - 1 == n and n >= 1:
            dsc = disc_poly(fr(f)) * det(B) ** 2 / F(f[-1]) ** (2 * (n - 1))
            if F(l) ** n / det(fmat(H)) != abs(dsc): return 'l^n / det(H) = %s but |disc| = %s' % (F(l) ** n / det(fmat(H)), abs(dsc))
            if det(T) != dsc: return 'det of the trace form %s != disc %s' % (det(T), dsc)
    return orc

def o_zbasis(a, want_int):
    def orc(ia):
        if ia.kind == 'panic' and want_int and ia.cls == 'assert': return None   # checked below when it returns
        B, r, e = split(ia, 'to_z_basis')
        if e: return e
        n = len(B)
        v = [a[k] if k < len(a) else F(0) for k in range(n)]
        if matmul([fr(r)], B)[0] != v: return 'to_z_basis: x * basis != coefficients of a'
        if len(a) > n: return None
    return orc

# explicit tables: the defining sums
def o_raw_mul(T, a, b):
    def orc(ia):
        if ia.kind != 'ok': return 'mul did not return: %s' % ia.raw[:120]
        n = len(a)
        exp = [sum(a[i] * b[j] * T[i][j][k] for i in range(n) for j in range(n)) for k in range(n)]
        if ia.val != exp: return 'mul = %s, bilinear sum is %s' % (ia.val, exp)
    return orc

def raw_rep(T, a):
    n = len(T)
    return [[sum(a[i] * T[i][j][k] for i in range(n)) for k in range(n)] for j in range(n)]

def o_raw_trace(T, a):
    def orc(ia):
        if ia.kind != 'ok': return 'trace did not return: %s' % ia.raw[:120]
        n = len(T)
        # the code's sum: trace of x -> x * a (for a commutative table the same as the trace of sum_i a_i T_i)
        t = sum(a[i] * T[j][i][j] for i in range(n) for j in range(n))
        if ia.val != t: return 'trace = %s, sum_ij a_i T[j][i][j] is %s' % (ia.val, t)
    return orc

def o_raw_norm(T, a):
    def orc(ia):
        if ia.kind != 'ok': return 'norm did not return: %s' % ia.raw[:120]
        d = det(raw_rep(T, a))
        if F(ia.val) != d: return 'norm = %s, det of sum_i a_i T_i is %s' % (ia.val, d)
    return orc

def o_raw_inv(T, a):
    def orc(ia):
        M = raw_rep(T, a); d = det(M)
        if d == 0: return None if ia.kind == 'panic' and ia.cls == 'unwrap' else 'inv of a singular element: %s' % ia.raw[:100]
        if ia.kind != 'ok': return 'inv did not return: %s' % ia.raw[:120]
        b, dd = ia.val
        if F(dd) != abs(d): return 'inv: d = %s, |det| = %s' % (dd, abs(d))
        Mi = inverse(M)
        if fr(b) != [x * abs(d) for x in Mi[0]]: return 'inv: b != |det| * first row of the inverse'
    return orc

# ---------------------------------------------------------------- generators

def gen_f(rng, kind, deg, bound):
    if kind == 'monic': return rand_poly(rng, deg, bound, monic=True)
    if kind == 'nonmonic': return rand_poly(rng, deg, bound, nonmonic=True)
    if kind == 'reducible' and deg >= 2: return rand_reducible(rng, deg, max(2, bound // 3), monic=rng.random() < 0.5)
    if kind == 'nonprimitive':
        c = rng.choice([2, 3, -2, 6])
        return [c * x for x in rand_poly(rng, deg, bound)]
    return rand_poly(rng, deg, bound)

def quotient_cases(rng, quick):
    out = []
    nf = 60 if quick else 500
    kinds = ['monic', 'nonmonic', 'reducible', 'nonprimitive', 'any']
    for t in range(nf):
        deg = 1 + t % 6
        kind = kinds[(t // 6) % len(kinds)]
        fbig = rng.random() >= 0.8
        f = gen_f(rng, kind, deg, (1 << 20) if fbig else 12)
        if kind == 'monic' and t % 2 == 1: f = [-c_ for c_ in f]; kind = 'lc-minus-one'      # leading coefficient exactly -1: a unit, but not 1
        n = len(f) - 1
        bits = rng.choice([3, 3, 20, 40])
        dbits = rng.choice([0, bits])
        nt = n >= 2
        tag = 'alg:%s:deg%d' % (kind, n)
        def el(): return rand_elem(rng, n, bits, dbits)
        a, b, c = el(), el(), el()
        if rng.random() < 0.5: a = rand_elem(rng, n, bits, dbits, deg=n - 1)   # full degree: every reduction step runs
        out.append(Case('alg_mul', line('alg_mul', f, a, b), oracle=o_val(mulmod(a, b, f), 'a*b'), nontrivial=nt and len(a) > 1 and len(b) > 1,
                        tag=tag))
        out.append(Case('alg_mul', line('alg_mul', f, a, a), oracle=o_val(mulmod(a, a, f), 'a*a'), nontrivial=nt and len(a) > 1, tag=tag))
        out.append(Case('alg_add', line('alg_add', f, a, b), oracle=o_val(padd(a, b), 'a+b'), nontrivial=nt, tag='alg:addsub'))
        out.append(Case('alg_sub', line('alg_sub', f, a, b), oracle=o_val(psub(a, b), 'a-b'), nontrivial=nt, tag='alg:addsub'))
        # the by-value operator impls (separate code in algebraic.rs), operands of different length in both orders, and equality
        for x_, y_ in ((a, b), (b, a), (a[:1], b), (b, a[:1]), ([], b), (a, [])):
            x_, y_ = ptrim(x_), ptrim(y_)
            out.append(Case('alg_add_owned', line('alg_add_owned', f, x_, y_), oracle=o_val(padd(x_, y_), 'a+b (by value)'), nontrivial=nt, tag='alg:addsub-owned'))
            out.append(Case('alg_sub_owned', line('alg_sub_owned', f, x_, y_), oracle=o_val(psub(x_, y_), 'a-b (by value)'), nontrivial=nt, tag='alg:addsub-owned'))
        out.append(Case('alg_mul_owned', line('alg_mul_owned', f, a, b), oracle=o_val(mulmod(a, b, f), 'a*b (by value)'), nontrivial=nt, tag='alg:mul-owned'))
        for x_, y_ in ((a, a), (a, b), (a, a[:-1]), (a[:-1], a), (a, []), ([], a), (a, a[:1]), (a[:1], a)):
            x_, y_ = ptrim(x_), ptrim(y_)
            out.append(Case('alg_eq', line('alg_eq', f, x_, y_), oracle=o_eqb(x_ == y_), nontrivial=nt, tag='alg:eq'))
        if rng.random() < 0.3:
            a2 = a[:-1] + [-a[-1]] if a else a       # cancelling leading terms
            out.append(Case('alg_add', line('alg_add', f, a, a2), oracle=o_val(padd(a, a2), 'a+b'), nontrivial=nt, tag='alg:addsub'))
            out.append(Case('alg_sub', line('alg_sub', f, a, a), oracle=o_val([], 'a-a'), nontrivial=False, tag='alg:addsub'))
        # the extracted model computes with Coq's binary positives (quadratic gcd): keep the numbers below a few thousand bits
        emax = {3: 12, 20: 5, 40: 3}[bits] if quick else {3: 24, 20: 9, 40: 6}[bits]
        if fbig: emax = min(emax, 5)
        e = rng.randint(0, emax)
        op = rng.choice(['alg_pow', 'alg_pow_u64'])
        out.append(Case(op, line(op, f, a, e), oracle=o_val(powmod_naive(a, e, f), 'a^%d' % e), nontrivial=nt and len(a) > 1 and e > 1,
                        tag='alg:pow'))
        s, u = rng.randint(0, emax // 2), rng.randint(0, emax // 2)
        out.append(Case('alg_law', line('alg_law', f, a, b, c, s, u), oracle=o_law(f, a, b, c, s, u), nontrivial=nt and len(a) > 1,
                        tag='alg:laws'))
        out.append(Case('alg_new', line('alg_new', f), oracle=o_val(pmod([F(0), F(1)], f), 'theta'), nontrivial=False, tag='alg:new'))
        e = rng.randint(0, n + 4 if fbig else 24)
        out.append(Case('alg_theta_pow', line('alg_theta_pow', f, e), oracle=o_val(powmod_naive([F(0), F(1)], e, f), 'theta^%d' % e),
                        nontrivial=nt and e >= n, tag='alg:pow'))
        out.append(Case('alg_as_coefs', line('alg_as_coefs', f, a), oracle=o_val(a + [F(0)] * (n - len(a)), 'as_coefs'), nontrivial=False,
                        tag='alg:coefs'))
    # exponent shapes
    f = [1, 1, 0, 1]
    for e in [0, 1, 2, 3, 7, 8, 63, 64, 65, 255, 256]:
        a = [F(1, 2), F(-1), F(1)]
        big = e > 70
        aa = [F(0), F(1)] if big else a
        out.append(Case('alg_pow', line('alg_pow', f, aa, e), oracle=o_val(powmod_naive(aa, e, f), 'a^%d' % e), tag='alg:pow'))
        out.append(Case('alg_pow_u64', line('alg_pow_u64', f, aa, e), oracle=o_val(powmod_naive(aa, e, f), 'a^%d' % e), tag='alg:pow'))
    for e in [-1, -5, -(1 << 70)]:
        out.append(Case('alg_pow', line('alg_pow', f, [F(0), F(1)], e), nontrivial=False, tag='alg:pow:neg'))
    e = (1 << 66) + 5
    out.append(Case('alg_pow', line('alg_pow', [-1, 0, 1], [F(0), F(1)], e), oracle=o_val([F(0), F(1)], 'x^odd mod x^2-1'), tag='alg:pow:big'))
    # exponents of more than one machine word (Pow<BigInt>): only elements of finite multiplicative order keep the numbers small.
    # a = +-theta or +-theta^2 in a cyclotomic (or non-monic multiple of a cyclotomic) modulus has order m <= 24, so a^e = a^(e mod m);
    # exponents with zero words, zero high bits in a word, all-ones words
    one = [F(1)]
    for f in ([1, 0, 1], [1, 1, 1], [1, 0, 0, 0, 1], [1, 1, 1, 1, 1], [1, 0, -1, 0, 1], [2, 2, 2], [-3, 0, -3], [1, -1, 1]):
        th_ = [F(0), F(1)]
        for a in (th_, [F(0), F(-1)], mulmod(th_, th_, f), [F(-1)]):
            a = ptrim(a)
            m, x = 1, a
            while x != one and m < 30: x = mulmod(x, a, f); m += 1
            if x != one: continue
            for e in [1 << 64, (1 << 64) + 1, (1 << 64) + (1 << 63), (1 << 65) + 3, (1 << 128) + (1 << 64) + 1, 3 << 64, (1 << 127) - 1,
                      (1 << 64) - 1, rng.getrandbits(70) | (1 << 69), rng.getrandbits(130) | (1 << 129), (rng.getrandbits(40) << 64) + rng.getrandbits(20)]:
                out.append(Case('alg_pow', line('alg_pow', f, a, e), oracle=o_val(powmod_naive(a, e % m, f), 'a^e, a of order %d' % m),
                                nontrivial=True, tag='alg:pow:multiword-exponent'))
            for e in [1 << 63, (1 << 63) + 1, (1 << 64) - 1, (1 << 63) + 12345, (1 << 62) + 3, rng.getrandbits(63) | (1 << 63), (1 << 32) + 1, (1 << 31) - 1]:
                for prof in ('debug', 'release'):
                    out.append(Case('alg_pow_u64', line('alg_pow_u64', f, a, e), oracle=o_val(powmod_naive(a, e % m, f), 'a^e (u64 exponent), a of order %d' % m),
                                    nontrivial=True, tag='alg:pow:u64-top-bit', profile=prof))
    return out

def quotient_edges(rng):
    out = []
    L = lambda op, *a: Case(op, line(op, *a), nontrivial=False, tag='alg:edge')
    for f in ([], [3], [0, 0], [5, 2], [1, 1, 1]):
        for a in ([], [F(2)], [F(1), F(1)], [F(0), F(0), F(1)], [F(1), F(2), F(3), F(4)]):
            for b in ([], [F(3)], [F(0), F(1)], [F(1), F(0), F(2)]):
                out.append(L('alg_mul', f, a, b))
            out.append(L('alg_pow', f, a, 3)); out.append(L('alg_pow_u64', f, a, 0))
            # as_coefs with the zero polynomial: the code aborts with 'capacity overflow' (vec of usize::MAX entries); the frozen model
            # Algebraic.as_coefs would build that list literally, so this input is not run (model limitation, not a defect of /repo)
            if ptrim(f): out.append(L('alg_as_coefs', f, a))
        out.append(L('alg_new', f)); out.append(L('alg_theta_pow', f, 5))
    # non-canonical inputs are normalised by from_raw on both sides
    out.append(L('alg_mul', [1, 0, 1, 0], [F(1), F(1), F(0)], [F(0), F(1)]))
    return out

def order_terms(rng, quick):
    """(f, order term, kind) for lattices closed under multiplication"""
    res = []
    degs = [1, 2, 2, 3, 3, 4, 4, 5, 6] if quick else [1, 2, 2, 3, 3, 3, 4, 4, 4, 5, 5, 5, 6, 6, 6] * 3
    maxq = []
    for k, deg in enumerate(degs):
        f = rand_irreducible(rng, deg, 9, monic=True)
        res.append((f, [Id('sgnew'), f], 'equation'))
        res.append((f, [Id('triv'), f], 'trivial'))
        if deg >= 2:
            g = rand_reducible(rng, deg, 4, monic=True)
            res.append((g, [Id('sgnew'), g], 'equation-reducible'))
        h = rand_irreducible(rng, deg, 7, monic=False) if deg >= 2 else [rng.randint(-9, 9), rng.choice([2, 3, -5])]
        res.append((h, [Id('nonmonic'), h], 'starting'))
        res.append((h, [Id('sg'), h, [0, h[-1]] if deg >= 2 else [F(-h[0] * h[-1], h[-1])]], 'Z[lc theta]'))
        if deg >= 2 and k % 2 == 0:
            c = rng.choice([2, 3])
            hp = [c * x for x in rand_poly(rng, deg, 5)]
            res.append((hp, [Id('nonmonic'), hp], 'starting-nonprimitive'))
        # maximal orders: small coefficients keep the discriminant easy to factor
        if deg <= (4 if quick else 5):
            fm = rand_irreducible(rng, deg, 5, monic=True)
            maxq.append(fm)
            if deg >= 2 and k % 2 == 1: maxq.append(rand_irreducible(rng, deg, 4, monic=False))
    ans = impl_query([line('max_order_basis', f) for f in maxq])
    for f, a in zip(maxq, ans):
        if a.kind == 'ok': res.append((f, [Id('basis'), a.val], 'maximal'))
    return res

def coord_vec(rng, n, bits):
    t = rng.random()
    if t < 0.1: return [int(i == rng.randrange(n)) for i in range(n)]
    v = [rng.randint(-(1 << bits), 1 << bits) for _ in range(n)]
    if t < 0.3: v = [x if rng.random() < 0.5 else 0 for x in v]
    return v

def table_cases(rng, quick):
    out = []
    for f, O, kind in order_terms(rng, quick):
        n = len(f) - 1
        nt = n >= 2
        tag = 'tab:%s:deg%d' % (kind, n)
        out.append(Case('ord_mult_table', line('ord_mult_table', O, f), oracle=o_table(f), nontrivial=nt, tag=tag))
        reps = 2 if quick else 4
        for r in range(reps):
            bits = 3 if r % 2 == 0 else 40
            a, b = coord_vec(rng, n, bits), coord_vec(rng, n, bits)
            out.append(Case('omt_mul', line('omt_mul', O, f, a, b), oracle=o_tmul(f, a, b), nontrivial=nt, tag=tag))
            out.append(Case('omt_trace', line('omt_trace', O, f, a), oracle=o_trace(f, a), nontrivial=nt, tag=tag, always_oracle=True))
            out.append(Case('omt_norm', line('omt_norm', O, f, a), oracle=o_norm(f, a), nontrivial=nt, tag=tag, always_oracle=True))
            out.append(Case('omt_inv', line('omt_inv', O, f, a), oracle=o_inv(f, a), nontrivial=nt, tag=tag, always_oracle=True))
        out.append(Case('omt_inv', line('omt_inv', O, f, [0] * n), oracle=o_inv(f, [0] * n), nontrivial=False, tag='tab:inv0', always_oracle=True))
        # a repeated factor of f (disc f = 0) makes the trace form singular: get_inv_diff is undefined there (unwrap panic),
        # whatever family the polynomial came from (random non-monic polynomials can have a repeated root too)
        if disc_poly(fr(f)) != 0:
            out.append(Case('omt_inv_diff', line('omt_inv_diff', O, f), oracle=o_inv_diff(f), nontrivial=nt, tag=tag, always_oracle=True))
        else:
            out.append(Case('omt_inv_diff', line('omt_inv_diff', O, f), nontrivial=False, tag='tab:inv_diff:singular'))
        e = rand_elem(rng, n, 6, 3)
        out.append(Case('ord_to_z_basis', line('ord_to_z_basis', O, f, e), oracle=o_zbasis(e, False), nontrivial=nt, tag='tab:zbasis', always_oracle=True))
        out.append(Case('ord_to_z_basis_int', line('ord_to_z_basis_int', O, f, rand_elem(rng, n, 6, 0)), nontrivial=nt, tag='tab:zbasis'))
        if kind == 'equation':
            ei = [F(x) for x in coord_vec(rng, n, 20)]
            out.append(Case('ord_to_z_basis_int', line('ord_to_z_basis_int', O, f, ptrim(ei)), oracle=o_val_pair(ei), nontrivial=nt, tag='tab:zbasis'))
    return out

def o_val_pair(ei):
    def orc(ia):
        B, r, e = split(ia, 'to_z_basis_int')
        if e: return e
        if matmul([fr(r)], B)[0] != ei: return 'to_z_basis_int: x * basis != coefficients'
    return orc

def zero_divisor_cases(rng, quick):
    out = []
    for _ in range(4 if quick else 20):
        d1, d2 = rng.randint(1, 2), rng.randint(1, 3)
        g = rand_poly(rng, d1, 4, monic=True); h = rand_poly(rng, d2, 4, monic=True)
        f = [int(x) for x in pmul(g, h)]
        n = len(f) - 1
        a = g + [0] * (n - len(g))
        O = [Id('sgnew'), f]
        out.append(Case('omt_norm', line('omt_norm', O, f, a), oracle=o_norm(f, a), tag='tab:zerodiv', always_oracle=True))
        out.append(Case('omt_inv', line('omt_inv', O, f, a), oracle=o_inv(f, a), tag='tab:zerodiv', always_oracle=True))
    return out

ZI = [[[1, 0], [0, 1]], [[0, 1], [-1, 0]]]

def raw_cases(rng, quick):
    out = []
    tabs = [ZI]
    for _ in range(12 if quick else 80):
        n = rng.randint(1, 4)
        tabs.append([[[rng.randint(-4, 4) for _ in range(n)] for _ in range(n)] for _ in range(n)])
    for T in tabs:
        n = len(T)
        for _ in range(3):
            a = [rng.randint(-9, 9) for _ in range(n)]; b = [rng.randint(-9, 9) for _ in range(n)]
            out.append(Case('mt_mul', line('mt_mul', T, a, b, Id('checked')), oracle=o_raw_mul(T, a, b), nontrivial=n >= 2, tag='raw:mul'))
            out.append(Case('mt_mul', line('mt_mul', T, a, b, Id('wrapping')), oracle=o_raw_mul(T, a, b), nontrivial=n >= 2, tag='raw:mul:release',
                            profile='release'))
            out.append(Case('mt_trace', line('mt_trace', T, a), oracle=o_raw_trace(T, a), nontrivial=n >= 2, tag='raw:trace'))
            out.append(Case('mt_norm', line('mt_norm', T, a), oracle=o_raw_norm(T, a), nontrivial=n >= 2, tag='raw:norm', always_oracle=True))
            out.append(Case('mt_inv', line('mt_inv', T, a), oracle=o_raw_inv(T, a), nontrivial=n >= 2, tag='raw:inv', always_oracle=True))
        out.append(Case('mt_inv_diff', line('mt_inv_diff', T), nontrivial=False, tag='raw:inv_diff'))
        out.append(Case('mt_deg', line('mt_deg', T), nontrivial=False, tag='raw:deg'))
    # malformed: compared with the model only
    bad_tabs = [[], [[]], [[[]]], [[[1]]], [[[1, 0], [0, 1]], [[0, 1]]], [[[1, 0], [0]], [[0, 1], [-1, 0]]],
                [[[1, 0, 5], [0, 1, 5]], [[0, 1, 5], [-1, 0, 5]]], [[[1, 0], [0, 1], [7, 7]], [[0, 1], [-1, 0], [7, 7]]], ZI]
    vecs = [[], [1], [2, 3], [1, 2, 3]]
    for T in bad_tabs:
        for a in vecs:
            for b in vecs:
                out.append(Case('mt_mul', line('mt_mul', T, a, b, Id('checked')), nontrivial=False, tag='raw:malformed'))
                out.append(Case('mt_mul', line('mt_mul', T, a, b, Id('wrapping')), nontrivial=False, tag='raw:malformed:release', profile='release'))
            for op in ('mt_trace', 'mt_norm', 'mt_inv'):
                out.append(Case(op, line(op, T, a), nontrivial=False, tag='raw:malformed'))
        out.append(Case('mt_inv_diff', line('mt_inv_diff', T), nontrivial=False, tag='raw:malformed'))
    return out

def nonring_cases(rng, quick):
    """lattices that are not closed under multiplication, singular bases, wrong degrees: model only, with the expected verdict as oracle"""
    out = []
    for _ in range(10 if quick else 60):
        n = rng.randint(1, 4)
        f = rand_poly(rng, n, 6, monic=rng.random() < 0.6)
        M = rand_basis(rng, n, bits=3, dens=(1, 1, 2, 3))
        O = [Id('basis'), M]
        closed = closed_under_mult(M, f)
        def orc(ia, closed=closed):
            if closed and ia.kind != 'ok': return 'lattice closed under multiplication but get_mult_table did not return: %s' % ia.raw[:100]
            if not closed and not (ia.kind == 'panic' and ia.cls == 'assert'): return 'lattice not closed under multiplication but: %s' % ia.raw[:100]
        out.append(Case('ord_mult_table', line('ord_mult_table', O, f), oracle=orc, nontrivial=n >= 2, tag='tab:nonring', always_oracle=True))
        out.append(Case('omt_mul', line('omt_mul', O, f, [1] * n, [1] * n), nontrivial=False, tag='tab:nonring'))
    L = lambda op, *a: Case(op, line(op, *a), nontrivial=False, tag='tab:edge')
    I2 = [[1, 0], [0, 1]]
    for f in ([], [3], [5, 2], [1, 0, 1], [1, 1, 0, 1]):
        for M in ([], [[1]], I2, [[1, 0], [2, 0]], [[1, 0, 0], [0, 1, 0], [0, 0, 1]], [[1, 0, 0], [0, 1, 0]], [[1], [0, 1]]):
            out.append(L('ord_mult_table', [Id('basis'), M], f))
            out.append(L('ord_to_z_basis', [Id('basis'), M], f, [F(1), F(2)]))
            out.append(L('ord_to_z_basis_int', [Id('basis'), M], f, [F(1, 2)]))
        for c in ('sgnew', 'triv', 'nonmonic'):
            out.append(L('ord_mult_table', [Id(c), f], f))
            out.append(L('omt_inv', [Id(c), f], f, [1] * max(0, len(f) - 1)))
            out.append(L('omt_inv_diff', [Id(c), f], f))
    # order of one polynomial with the table of another
    out.append(L('ord_mult_table', [Id('sgnew'), [5, 0, 1]], [1, 1, 0, 1]))
    out.append(L('ord_mult_table', [Id('sgnew'), [1, 1, 0, 1]], [5, 0, 1]))
    return out

def o_eqb(expected):
    def orc(ia):
        if ia.kind != 'ok' or ia.val is not expected: return 'equality says %s, the elements are %s' % (ia.raw[:40], 'equal' if expected else 'different')
        return None
    return orc

def cases(rng, tier):
    quick = tier == 'quick'
    out = []
    out += quotient_cases(rng, quick)
    out += quotient_edges(rng)
    out += table_cases(rng, quick)
    out += zero_divisor_cases(rng, quick)
    out += raw_cases(rng, quick)
    out += nonring_cases(rng, quick)
    return out
