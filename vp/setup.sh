#!/bin/sh
# Builds the whole framework from files on disk, offline: Coq development (full .vo), extraction,
# OCaml model service, Rust implementation service (debug and release) against /repo's working tree.
set -e
cd "$(dirname "$0")/.."
export CARGO_NET_OFFLINE=true
python3 - <<'PY'
import sys, os
sys.path.insert(0, os.path.join(os.getcwd(), 'vp'))
import lib
try:
    print(lib.build_coq()[-400:])
    lib.build_ocaml()
    lib.build_harness(('debug', 'release'))
    bad = lib.grep_audit()
    if bad:
        print('\n'.join(bad)); sys.exit(1)
except lib.BuildError as e:
    print(e); sys.exit(1)
print('setup ok')
PY
