#!/usr/bin/env python3
"""Development tool (never part of a registered command): runs the quick check of the owning property
against every seeded change under seeded/<id>/ on a scratch worktree of /repo with the patch applied,
and reports which are detected. Usage: vp/mutants.py [id ...]"""
import json, os, shutil, subprocess, sys, time
ROOT = os.path.dirname(os.path.dirname(os.path.abspath(__file__)))
SCR = '/root/scratch/mut'

def sh(cmd, **kw):
    return subprocess.run(cmd, shell=True, stdout=subprocess.PIPE, stderr=subprocess.STDOUT, text=True, **kw)

def run_one(mid, tier='quick'):
    d = os.path.join(ROOT, 'seeded', mid)
    meta = json.load(open(os.path.join(d, 'meta.json')))
    pid = meta['property']
    wt = os.path.join(SCR, 'repo_' + mid); hd = os.path.join(SCR, 'harness_' + mid); ev = os.path.join(SCR, 'evid_' + mid)
    for p in (hd, ev): shutil.rmtree(p, ignore_errors=True)
    sh('git -C /repo worktree remove --force %s' % wt)
    os.makedirs(SCR, exist_ok=True)
    r = sh('git -C /repo worktree add --detach %s HEAD && git -C %s apply %s' % (wt, wt, os.path.join(d, 'patch.diff')))
    if r.returncode:
        return dict(id=mid, property=pid, detected=None, note='patch does not apply: ' + r.stdout[-300:])
    shutil.copytree(os.path.join(ROOT, 'harness'), hd, ignore=shutil.ignore_patterns('target'))
    ct = os.path.join(hd, 'Cargo.toml')
    txt = open(ct).read().replace('"/repo', '"' + wt)
    open(ct, 'w').write(txt)
    env = dict(os.environ, VERIF_REPO_DIR=wt, VERIF_HARNESS_DIR=hd, VERIF_EVIDENCE_DIR=ev)
    t0 = time.time()
    r = sh('./vp/check %s --tier %s' % (pid, tier), cwd=ROOT, env=env, timeout=3600)
    vio = [l for l in r.stdout.split('\n') if l.startswith('VIOLATION')]
    res = dict(id=mid, property=pid, detected=(r.returncode == 1 and bool(vio)), exit=r.returncode, violation=vio[:1],
               with_failing_input=bool(vio) and 'no-failing-input-found' not in vio[0], wall_s=round(time.time() - t0, 1),
               tail=r.stdout.strip().split('\n')[-2:][0][:300] if r.stdout.strip() else '')
    sh('git -C /repo worktree remove --force %s' % wt)
    for p in (hd, ev): shutil.rmtree(p, ignore_errors=True)
    return res

if __name__ == '__main__':
    ids = sys.argv[1:] or sorted(os.listdir(os.path.join(ROOT, 'seeded')))
    out = []
    for mid in ids:
        if not os.path.exists(os.path.join(ROOT, 'seeded', mid, 'patch.diff')): continue
        res = run_one(mid)
        print(json.dumps(res)); sys.stdout.flush()
        out.append(res)
    print('detected %d / %d' % (sum(1 for r in out if r['detected']), len(out)))
    # keep a record of the latest result per seeded change (development record, not evidence)
    rp = os.path.join(ROOT, 'seeded', 'results.json')
    allr = json.load(open(rp)) if os.path.exists(rp) else {}
    for r in out: allr[r['id']] = r
    json.dump(allr, open(rp, 'w'), indent=1, sort_keys=True)
