#![allow(dead_code)]
//! Terms of the line protocol shared with the model service.
//!   term ::= INT | INT/INT | IDENT | '[' term* ']'
use num::{BigInt, BigRational, One, Signed, ToPrimitive, Zero};

#[derive(Clone, Debug, PartialEq)]
pub enum Term {
    Int(BigInt),
    Rat(BigRational),
    Id(String),
    List(Vec<Term>),
}

pub fn parse_line(s: &str) -> Result<Vec<Term>, String> {
    let b = s.as_bytes();
    let mut pos = 0;
    let mut out = vec![];
    loop {
        skip_ws(b, &mut pos);
        if pos >= b.len() {
            return Ok(out);
        }
        out.push(parse_term(b, &mut pos)?);
    }
}

fn skip_ws(b: &[u8], pos: &mut usize) {
    while *pos < b.len() && (b[*pos] == b' ' || b[*pos] == b'\t' || b[*pos] == b'\r' || b[*pos] == b'\n') {
        *pos += 1;
    }
}

fn parse_term(b: &[u8], pos: &mut usize) -> Result<Term, String> {
    skip_ws(b, pos);
    if *pos >= b.len() {
        return Err("eof".into());
    }
    let c = b[*pos];
    if c == b'[' {
        *pos += 1;
        let mut v = vec![];
        loop {
            skip_ws(b, pos);
            if *pos >= b.len() {
                return Err("unclosed [".into());
            }
            if b[*pos] == b']' {
                *pos += 1;
                return Ok(Term::List(v));
            }
            v.push(parse_term(b, pos)?);
        }
    }
    let start = *pos;
    while *pos < b.len() && !matches!(b[*pos], b' ' | b'\t' | b'[' | b']' | b'\r' | b'\n') {
        *pos += 1;
    }
    let tok = std::str::from_utf8(&b[start..*pos]).unwrap();
    if c == b'-' || c.is_ascii_digit() {
        if let Some((n, d)) = tok.split_once('/') {
            let n: BigInt = n.parse().map_err(|_| format!("bad int {tok}"))?;
            let d: BigInt = d.parse().map_err(|_| format!("bad int {tok}"))?;
            if d.is_zero() {
                return Err("zero denominator".into());
            }
            Ok(Term::Rat(BigRational::new(n, d)))
        } else {
            Ok(Term::Int(tok.parse().map_err(|_| format!("bad int {tok}"))?))
        }
    } else {
        Ok(Term::Id(tok.to_string()))
    }
}

impl std::fmt::Display for Term {
    fn fmt(&self, f: &mut std::fmt::Formatter<'_>) -> std::fmt::Result {
        match self {
            Term::Int(x) => write!(f, "{x}"),
            Term::Rat(x) => {
                if x.denom().is_one() {
                    write!(f, "{}", x.numer())
                } else {
                    write!(f, "{}/{}", x.numer(), x.denom())
                }
            }
            Term::Id(s) => write!(f, "{s}"),
            Term::List(v) => {
                write!(f, "[")?;
                for (i, t) in v.iter().enumerate() {
                    if i > 0 {
                        write!(f, " ")?;
                    }
                    write!(f, "{t}")?;
                }
                write!(f, "]")
            }
        }
    }
}

// ---- decoding helpers (panic with "harness:" prefix on malformed input) ----
impl Term {
    pub fn int(&self) -> BigInt {
        match self {
            Term::Int(x) => x.clone(),
            Term::Rat(x) if x.denom().is_one() => x.numer().clone(),
            _ => panic!("harness: expected int, got {self}"),
        }
    }
    pub fn rat(&self) -> BigRational {
        match self {
            Term::Int(x) => BigRational::from_integer(x.clone()),
            Term::Rat(x) => x.clone(),
            _ => panic!("harness: expected rational, got {self}"),
        }
    }
    pub fn id(&self) -> &str {
        match self {
            Term::Id(s) => s,
            _ => panic!("harness: expected identifier, got {self}"),
        }
    }
    pub fn list(&self) -> &[Term] {
        match self {
            Term::List(v) => v,
            _ => panic!("harness: expected list, got {self}"),
        }
    }
    pub fn u64(&self) -> u64 {
        self.int().to_u64().unwrap_or_else(|| panic!("harness: expected u64, got {self}"))
    }
    pub fn usize(&self) -> usize {
        self.int().to_usize().unwrap_or_else(|| panic!("harness: expected usize, got {self}"))
    }
    pub fn u32(&self) -> u32 {
        self.int().to_u32().unwrap_or_else(|| panic!("harness: expected u32, got {self}"))
    }
    pub fn i64(&self) -> i64 {
        self.int().to_i64().unwrap_or_else(|| panic!("harness: expected i64, got {self}"))
    }
    pub fn ints(&self) -> Vec<BigInt> {
        self.list().iter().map(|t| t.int()).collect()
    }
    pub fn rats(&self) -> Vec<BigRational> {
        self.list().iter().map(|t| t.rat()).collect()
    }
    pub fn imat(&self) -> Vec<Vec<BigInt>> {
        self.list().iter().map(|t| t.ints()).collect()
    }
    pub fn rmat(&self) -> Vec<Vec<BigRational>> {
        self.list().iter().map(|t| t.rats()).collect()
    }
    pub fn bytes(&self) -> Vec<u8> {
        self.list().iter().map(|t| t.u64() as u8).collect()
    }
}

// ---- encoding helpers ----
pub fn ti<T: Into<BigInt>>(x: T) -> Term {
    Term::Int(x.into())
}
pub fn tb(x: &BigInt) -> Term {
    Term::Int(x.clone())
}
pub fn tr(x: &BigRational) -> Term {
    if x.denom().is_one() {
        Term::Int(x.numer().clone())
    } else {
        Term::Rat(x.clone())
    }
}
pub fn tid(s: &str) -> Term {
    Term::Id(s.to_string())
}
pub fn tbool(b: bool) -> Term {
    tid(if b { "true" } else { "false" })
}
pub fn tl(v: Vec<Term>) -> Term {
    Term::List(v)
}
pub fn tints(v: &[BigInt]) -> Term {
    tl(v.iter().map(tb).collect())
}
pub fn trats(v: &[BigRational]) -> Term {
    tl(v.iter().map(tr).collect())
}
pub fn timat(v: &[Vec<BigInt>]) -> Term {
    tl(v.iter().map(|r| tints(r)).collect())
}
pub fn trmat(v: &[Vec<BigRational>]) -> Term {
    tl(v.iter().map(|r| trats(r)).collect())
}
pub fn tbytes(v: &[u8]) -> Term {
    tl(v.iter().map(|&b| ti(b)).collect())
}
#[allow(dead_code)]
pub fn is_neg(x: &BigInt) -> bool {
    x.is_negative()
}
