//! C16/C17: ideals of an order (src/ideal.rs), the inverse different (MultTable::get_inv_diff),
//! decomposition of a rational prime (src/prime_decomp).  Same operations as ocaml/ops_ideal.ml.
//!
//! Context argument (first argument of every operation):
//!   [ord O f]       order O (constructor term as in ops/algorder.rs), table = O.get_mult_table(theta_f)
//!   [ordtab O f T]  order O, minimal polynomial f, explicit table T (not checked against O)
//!   [tab T]         explicit table T only (no order; operations that need one reject it)
//! Ideal argument (the fields of `Ideal` are private; these are the public ways to build one):
//!   [gens g1 .. gk] Ideal::principal(g1) + .. + Ideal::principal(gk), k >= 1, added from the left
//!   [rows M]        Ideal::new(HNF::new(M), table)
//!   [add I J] [mul I J] [pow I k] (k >= 1: ((I*I)*I)..)
//! Answers are [basis result] with the stored basis of the order ([] for [tab T]); an ideal is
//! answered as its HNF matrix, read from the derived Debug output (the library has no accessor).
use crate::ops::poly::{qp, zp};
use crate::term::*;
use num::{BigInt, Zero};
use rust_number_theory::algebraic::Algebraic;
use rust_number_theory::ideal::Ideal;
use rust_number_theory::mult_table::MultTable;
use rust_number_theory::order::{self, Order};
use rust_number_theory::polynomial::Polynomial;
use rust_number_theory::prime_decomp;
use rust_number_theory::verif_hooks;
use number_theory_linear::hnf::HNF;
use std::panic::{catch_unwind, AssertUnwindSafe};

// ---- small helpers copied from ops/algorder.rs (private there)

fn alg(f: &Term, e: &Term) -> Algebraic {
    Algebraic { min_poly: zp(f), expr: qp(e) }
}

fn ord(t: &Term) -> Order {
    let l = t.list();
    match (l[0].id(), l.len()) {
        ("basis", 2) => Order::from_basis(&l[1].rmat()),
        ("sg", 3) => Order::singly_gen(&alg(&l[1], &l[2])),
        ("sgnew", 2) => Order::singly_gen(&Algebraic::new(zp(&l[1]))),
        ("triv", 2) => order::trivial_order_monic(&Algebraic::new(zp(&l[1]))),
        ("nonmonic", 2) => order::non_monic_initial_order(&Algebraic::new(zp(&l[1]))),
        _ => panic!("harness: expected order constructor, got {t}"),
    }
}

fn table(t: &Term) -> MultTable {
    MultTable::new(t.list().iter().map(|m| m.imat()).collect())
}

/// theta only supplies the minimal polynomial to get_mult_table
fn theta(f: &Term) -> Algebraic {
    Algebraic { min_poly: zp(f), expr: qp(&tl(vec![])) }
}

/// The first bracketed nest after `key` in a derived `Debug` output (BigInt prints in decimal), as a term.
fn nested_after(s: &str, key: &str) -> Term {
    let start = s.find(key).unwrap_or_else(|| panic!("harness: no {key} in {s}")) + key.len();
    let mut depth = 0i32;
    let mut end = start;
    for (k, c) in s[start..].char_indices() {
        match c {
            '[' => depth += 1,
            ']' => {
                depth -= 1;
                if depth == 0 {
                    end = start + k + 1;
                    break;
                }
            }
            _ => {}
        }
    }
    let txt: String = s[start..end].chars().map(|c| if c == ',' { ' ' } else { c }).collect();
    let toks = parse_line(&txt).unwrap_or_else(|e| panic!("harness: cannot parse {txt}: {e}"));
    toks[0].clone()
}

/// [ok v] | [panic class] for a sub-computation whose panic must not hide what was computed before it
fn caught(f: impl FnOnce() -> Term) -> Term {
    match catch_unwind(AssertUnwindSafe(f)) {
        Ok(t) => tl(vec![tid("ok"), t]),
        Err(_) => {
            let msg = crate::LAST_PANIC.with(|p| p.borrow().clone());
            tl(vec![tid("panic"), tid(crate::classify(&msg))])
        }
    }
}

// ---- contexts and ideals

struct Ctx {
    order: Option<Order>,
    f: Option<Polynomial<BigInt>>,
    table: MultTable,
}

fn ctx(t: &Term) -> Ctx {
    let l = t.list();
    match (l[0].id(), l.len()) {
        ("ord", 3) => {
            let o = ord(&l[1]);
            let mt = o.get_mult_table(&theta(&l[2]));
            Ctx { order: Some(o), f: Some(zp(&l[2])), table: mt }
        }
        ("ordtab", 4) => {
            let o = ord(&l[1]);
            Ctx { order: Some(o), f: Some(zp(&l[2])), table: table(&l[3]) }
        }
        ("tab", 2) => Ctx { order: None, f: None, table: table(&l[1]) },
        _ => panic!("harness: expected context, got {t}"),
    }
}

fn basis_term(c: &Ctx) -> Term {
    match &c.order {
        Some(o) => trmat(&o.basis()),
        None => tl(vec![]),
    }
}

fn with_basis(c: &Ctx, r: Term) -> Term {
    tl(vec![basis_term(c), r])
}

fn ideal<'a>(t: &Term, mt: &'a MultTable) -> Ideal<'a> {
    let l = t.list();
    match (l[0].id(), l.len()) {
        ("gens", n) if n >= 2 => {
            let mut acc = Ideal::principal(&l[1].ints(), mt);
            for g in &l[2..] {
                let pg = Ideal::principal(&g.ints(), mt);
                acc = &acc + &pg;
            }
            acc
        }
        ("rows", 2) => Ideal::new(HNF::new(&l[1].imat()), mt),
        ("add", 3) => {
            let (x, y) = (ideal(&l[1], mt), ideal(&l[2], mt));
            &x + &y
        }
        ("mul", 3) => {
            let (x, y) = (ideal(&l[1], mt), ideal(&l[2], mt));
            &x * &y
        }
        ("pow", 3) => {
            let x = ideal(&l[1], mt);
            let k = l[2].usize();
            if k == 0 {
                panic!("harness: pow needs k >= 1");
            }
            let mut acc = x.clone();
            for _ in 1..k {
                acc = &acc * &x;
            }
            acc
        }
        _ => panic!("harness: expected ideal, got {t}"),
    }
}

fn thnf(i: &Ideal) -> Term {
    nested_after(&format!("{:?}", i), "HNF(")
}

/// e_0 scaled by d: the coordinate vector of the rational integer d when w_0 = 1
fn scalar_vec(n: usize, d: &BigInt) -> Vec<BigInt> {
    let mut v = vec![BigInt::zero(); n];
    if n > 0 {
        v[0] = d.clone();
    }
    v
}

pub fn dispatch(op: &str, a: &[Term]) -> Option<Term> {
    Some(match op {
        "id_hnf" => {
            let c = ctx(&a[0]);
            let i = ideal(&a[1], &c.table);
            with_basis(&c, thnf(&i))
        }
        // id_info ctx I x -> [hnf norm cap_z contains(x)] (the last three each [ok v] | [panic class])
        "id_info" => {
            let c = ctx(&a[0]);
            let i = ideal(&a[1], &c.table);
            let x = a[2].ints();
            let r = tl(vec![
                thnf(&i),
                caught(|| tb(&i.norm())),
                caught(|| tb(&i.cap_z())),
                caught(|| tbool(i.contains(&x))),
            ]);
            with_basis(&c, r)
        }
        "id_norm" => {
            let c = ctx(&a[0]);
            let i = ideal(&a[1], &c.table);
            with_basis(&c, tb(&i.norm()))
        }
        "id_cap_z" => {
            let c = ctx(&a[0]);
            let i = ideal(&a[1], &c.table);
            with_basis(&c, tb(&i.cap_z()))
        }
        "id_contains" => {
            let c = ctx(&a[0]);
            let i = ideal(&a[1], &c.table);
            with_basis(&c, tbool(i.contains(&a[2].ints())))
        }
        "id_eq" => {
            let c = ctx(&a[0]);
            let (i, j) = (ideal(&a[1], &c.table), ideal(&a[2], &c.table));
            with_basis(&c, tbool(i == j))
        }
        // id_pair ctx I J -> [hI hJ I+J I*J J*I norm(I) norm(J) norm(I*J)]
        "id_pair" => {
            let c = ctx(&a[0]);
            let (i, j) = (ideal(&a[1], &c.table), ideal(&a[2], &c.table));
            let s = &i + &j;
            let p = &i * &j;
            let q = &j * &i;
            let r = tl(vec![thnf(&i), thnf(&j), thnf(&s), thnf(&p), thnf(&q), tb(&i.norm()), tb(&j.norm()), tb(&p.norm())]);
            with_basis(&c, r)
        }
        // id_laws ctx I J K -> [hI hJ hK IJ JI (IJ)K I(JK) J+K I(J+K) IJ+IK I+J J+I]
        "id_laws" => {
            let c = ctx(&a[0]);
            let (i, j, k) = (ideal(&a[1], &c.table), ideal(&a[2], &c.table), ideal(&a[3], &c.table));
            let ij = &i * &j;
            let ji = &j * &i;
            let ij_k = &ij * &k;
            let jk = &j * &k;
            let i_jk = &i * &jk;
            let jpk = &j + &k;
            let i_jpk = &i * &jpk;
            let ik = &i * &k;
            let ijpik = &ij + &ik;
            let ipj = &i + &j;
            let jpi = &j + &i;
            let r = tl(vec![
                thnf(&i), thnf(&j), thnf(&k), thnf(&ij), thnf(&ji), thnf(&ij_k), thnf(&i_jk), thnf(&jpk), thnf(&i_jpk),
                thnf(&ijpik), thnf(&ipj), thnf(&jpi),
            ]);
            with_basis(&c, r)
        }
        // id_inv_diff ctx -> [denom hnf(numer) norm(numer)]
        "id_inv_diff" => {
            let c = ctx(&a[0]);
            let d = c.table.get_inv_diff();
            let r = tl(vec![tb(d.denom()), thnf(d.numer()), tb(&d.numer().norm())]);
            with_basis(&c, r)
        }
        // id_inv ctx I -> [hI denom(D^-1) hnf(numer D^-1) a hnf(N) flag], (a, N) = I.inv(D^-1), flag = (I * N == principal(a e_0))
        "id_inv" => {
            let c = ctx(&a[0]);
            let i = ideal(&a[1], &c.table);
            let d = c.table.get_inv_diff();
            let r = i.inv(&d);
            let prod = &i * r.numer();
            let pd = Ideal::principal(&scalar_vec(c.table.deg(), r.denom()), &c.table);
            let res = tl(vec![thnf(&i), tb(d.denom()), thnf(d.numer()), tb(r.denom()), thnf(r.numer()), tbool(prod == pd)]);
            with_basis(&c, res)
        }
        // dec_decompose ctx p seed script -> [ok [basis [[hnf e] ..]] bytes] | [panic class bytes]
        "dec_decompose" => {
            let c = ctx(&a[0]);
            let (o, f) = match (&c.order, &c.f) {
                (Some(o), Some(f)) => (o, f),
                _ => panic!("harness: dec_decompose needs an order"),
            };
            let p = a[1].int();
            let th = Algebraic::new(f.clone());
            verif_hooks::install(a[2].u64(), a[3].bytes());
            let res = catch_unwind(AssertUnwindSafe(|| {
                let r = prime_decomp::decompose(&th, o, &c.table, &p);
                tl(r.iter().map(|(i, e)| tl(vec![thnf(i), ti(*e as u64)])).collect())
            }));
            match res {
                Ok(t) => tl(vec![tid("ok"), with_basis(&c, t), tbytes(&verif_hooks::take_log())]),
                Err(_) => {
                    let msg = crate::LAST_PANIC.with(|p| p.borrow().clone());
                    tl(vec![tid("panic"), tid(crate::classify(&msg)), tbytes(&verif_hooks::take_log())])
                }
            }
        }
        // dec_lib_norms f p : the library on the maximal order it computes itself, as the CLI does: [[norm e] ..]
        "dec_lib_norms" => {
            let th = Algebraic::new(zp(&a[0]));
            let o = rust_number_theory::integral_basis::find_integral_basis(&th);
            let mt = o.get_mult_table(&th);
            let r = prime_decomp::decompose(&th, &o, &mt, &a[1].int());
            tl(r.iter().map(|(i, e)| tl(vec![tb(&i.norm()), ti(*e as u64)])).collect())
        }
        _ => return None,
    })
}
