//! C08 / C11 / C12: polynomials modulo p (src/poly_mod/*), BigInt instantiation.
//! Randomised operations install the scripted generator and answer
//! `[ok value consumed-bytes]` or `[panic class consumed-bytes]`.
use crate::ops::poly::{tzp, zp};
use crate::term::*;
use num::integer::ExtendedGcd;
use num::{BigInt, Integer};
use rust_number_theory::poly_mod::{self, factorize_mod_p_verif as stages};
use rust_number_theory::polynomial::Polynomial;
use rust_number_theory::verif_hooks;
use std::panic::{catch_unwind, AssertUnwindSafe};

fn tpairs(v: &[(Polynomial<BigInt>, usize)]) -> Term {
    tl(v.iter().map(|(g, e)| tl(vec![tzp(g), ti(*e as u64)])).collect())
}
fn tpolys(v: &[Polynomial<BigInt>]) -> Term {
    tl(v.iter().map(tzp).collect())
}

/// Runs `f` with the scripted generator installed; the bytes it consumed are part of the answer.
fn with_rng(seed: &Term, script: &Term, f: impl FnOnce() -> Term) -> Term {
    verif_hooks::install(seed.u64(), script.bytes());
    match catch_unwind(AssertUnwindSafe(f)) {
        Ok(t) => tl(vec![tid("ok"), t, tbytes(&verif_hooks::take_log())]),
        Err(_) => {
            let msg = crate::LAST_PANIC.with(|p| p.borrow().clone());
            tl(vec![tid("panic"), tid(crate::classify(&msg)), tbytes(&verif_hooks::take_log())])
        }
    }
}

pub fn dispatch(op: &str, a: &[Term]) -> Option<Term> {
    Some(match op {
        "pm_modpow" => tb(&poly_mod::modpow::<BigInt>(&a[0].int(), &a[1].int(), &a[2].int())),
        "pm_modinv" => tb(&poly_mod::modinv::<BigInt>(&a[0].int(), &a[1].int())),
        "pm_egcd" => {
            let ExtendedGcd { gcd, x, y } = a[0].int().extended_gcd(&a[1].int());
            tl(vec![tb(&gcd), tb(&x), tb(&y)])
        }
        "pm_poly_mod" => tzp(&poly_mod::poly_mod::<BigInt>(&zp(&a[0]), &a[1].int())),
        "pm_poly_div" => tzp(&poly_mod::poly_div::<BigInt>(&zp(&a[0]), &a[1].int())),
        "pm_poly_mul" => tzp(&poly_mod::poly_mul::<BigInt>(&zp(&a[0]), &a[1].int())),
        "pm_poly_mod_sub" => tzp(&poly_mod::poly_mod_sub::<BigInt>(&zp(&a[0]), &zp(&a[1]), &a[2].int())),
        "pm_differential" => tzp(&poly_mod::differential::<BigInt>(&zp(&a[0]), &a[1].int())),
        // an optional 4th argument (profile) is only read by the model
        "pm_poly_of_mod" => tb(&poly_mod::poly_of_mod::<BigInt>(&zp(&a[0]), &a[1].int(), &a[2].int())),
        "pm_poly_divrem" => {
            let (q, r) = poly_mod::poly_divrem::<BigInt>(&zp(&a[0]), &zp(&a[1]), &a[2].int());
            tl(vec![tzp(&q), tzp(&r)])
        }
        "pm_poly_gcd" => tzp(&poly_mod::poly_gcd::<BigInt>(&zp(&a[0]), &zp(&a[1]), &a[2].int())),
        "pm_poly_ext_gcd" => {
            let (g, u, v) = poly_mod::poly_ext_gcd::<BigInt>(&zp(&a[0]), &zp(&a[1]), &a[2].int());
            tl(vec![tzp(&g), tzp(&u), tzp(&v)])
        }
        "pm_coprime_witness" => {
            let (u, v) = poly_mod::poly_coprime_witness::<BigInt>(&zp(&a[0]), &zp(&a[1]), &a[2].int());
            tl(vec![tzp(&u), tzp(&v)])
        }
        "pm_poly_modpow" => tzp(&poly_mod::poly_modpow::<BigInt>(&zp(&a[0]), &a[1].int(), &zp(&a[2]), &a[3].int())),
        "pm_divide_by_x_a" => tzp(&poly_mod::divide_by_x_a::<BigInt>(&zp(&a[0]), &a[1].int(), &a[2].int())),
        // ---- C08
        "pm_squarefree" => tpairs(&stages::squarefree(&zp(&a[0]), &a[1].int(), a[2].usize())),
        "pm_degree" => tpairs(&stages::degree(&zp(&a[0]), &a[1].int())),
        // pm_final_split f p d seed script
        "pm_final_split" => with_rng(&a[3], &a[4], || tpolys(&stages::final_split(&zp(&a[0]), &a[1].int(), a[2].usize()))),
        // pm_factorize f p pusize seed script
        "pm_factorize" => with_rng(&a[3], &a[4], || {
            tpairs(&poly_mod::factorize_mod_p::<BigInt>(&zp(&a[0]), &a[1].int(), a[2].usize()))
        }),
        // ---- C11
        "pm_hensel_lift" => {
            let (a1, b1, qr) = poly_mod::hensel_lift::<BigInt>(
                &a[0].int(), &a[1].int(), &zp(&a[2]), &zp(&a[3]), &zp(&a[4]), &zp(&a[5]), &zp(&a[6]));
            tl(vec![tzp(&a1), tzp(&b1), tb(&qr)])
        }
        "pm_lift_factorization" => {
            let fs: Vec<Polynomial<BigInt>> = a[3].list().iter().map(zp).collect();
            tpolys(&poly_mod::lift_factorization::<BigInt>(&a[0].int(), a[1].u32(), &zp(&a[2]), &fs))
        }
        // ---- C12: pm_roots f p seed script
        // the fixed-width instantiations (the library is generic over the integer type): the caller keeps (deg+1) p^2 inside
        // the type, i.e. p < 2^31 for i64 and p < 2^63 for i128
        "pm_roots_i64" => with_rng(&a[2], &a[3], || {
            use num::ToPrimitive;
            let f = rust_number_theory::polynomial::Polynomial::from_raw(a[0].ints().iter().map(|c| c.to_i64().expect("harness: coefficient does not fit i64")).collect::<Vec<i64>>());
            tl(poly_mod::find_linear_factors::<i64>(&f, a[1].i64()).into_iter().map(ti).collect())
        }),
        "pm_roots_i128" => with_rng(&a[2], &a[3], || {
            use num::ToPrimitive;
            let f = rust_number_theory::polynomial::Polynomial::from_raw(a[0].ints().iter().map(|c| c.to_i128().expect("harness: coefficient does not fit i128")).collect::<Vec<i128>>());
            tl(poly_mod::find_linear_factors::<i128>(&f, a[1].int().to_i128().expect("harness: p does not fit i128")).into_iter().map(ti).collect())
        }),
        "pm_roots" => with_rng(&a[2], &a[3], || tints(&poly_mod::find_linear_factors::<BigInt>(&zp(&a[0]), a[1].int()))),
        _ => return None,
    })
}
