//! C06: Round 2 (src/integral_basis/{mod,round2}.rs).  Same operations as ocaml/ops_round2.ml.
//!
//!   ib_find f [profile]   -> [basis disc index]  find_integral_basis(&Algebraic::new(f)): stored basis, its
//!                                                discriminant, its index over non_monic_initial_order
//!   ib_find_many [f ...]  -> [[basis disc index] ...]  the same on several polynomials
//!   ib_one_step f O p     -> [basis howmany]     round2::one_step(&Algebraic::new(f), &O, &p)
//! An order argument O names its constructor path as in ops/algorder.rs:
//!   [basis M] Order::from_basis(M) | [nonmonic f] non_monic_initial_order | [triv f] trivial_order_monic
use crate::ops::poly::zp;
use crate::term::*;
use rust_number_theory::algebraic::Algebraic;
use rust_number_theory::integral_basis::find_integral_basis;
use rust_number_theory::order::{self, Order};

fn ord(t: &Term) -> Order {
    let l = t.list();
    match (l[0].id(), l.len()) {
        ("basis", 2) => Order::from_basis(&l[1].rmat()),
        ("triv", 2) => order::trivial_order_monic(&Algebraic::new(zp(&l[1]))),
        ("nonmonic", 2) => order::non_monic_initial_order(&Algebraic::new(zp(&l[1]))),
        _ => panic!("harness: expected order constructor, got {t}"),
    }
}

fn ib_find(f: &Term) -> Term {
    let theta = Algebraic::new(zp(f));
    let o = find_integral_basis(&theta);
    let d = o.discriminant(&theta);
    let o0 = order::non_monic_initial_order(&theta);
    let i = order::index(&o, &o0);
    tl(vec![trmat(&o.basis()), tb(&d), tb(&i)])
}

pub fn dispatch(op: &str, a: &[Term]) -> Option<Term> {
    Some(match op {
        "ib_find" => ib_find(&a[0]),
        "ib_find_many" => tl(a[0].list().iter().map(ib_find).collect()),
        // through the feature-gated access wrapper `integral_basis::verif::one_step` of /repo (module round2 is private)
        "ib_one_step" => {
            let theta = Algebraic::new(zp(&a[0]));
            let o = ord(&a[1]);
            let (no, howmany) = rust_number_theory::integral_basis::verif::one_step(&theta, &o, &a[2].int());
            tl(vec![trmat(&no.basis()), ti(howmany)])
        }
        _ => return None,
    })
}
