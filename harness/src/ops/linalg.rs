//! C18: exact rational linear algebra (number-theory-linear: determinant, matrix::inv,
//! solve_linear_system, subspace::{iim, supplement_basis, image_mod_p},
//! triangular::mul_inv_from_right_exact).
//! Results: Result<_, _> is encoded as [ok v] | [err] | [err <variant>].
use crate::term::*;
use num::ToPrimitive;
use number_theory_linear::subspace::{self, IIMError};
use number_theory_linear::{determinant, matrix, solve_linear_system, triangular};

fn ok(t: Term) -> Term {
    tl(vec![tid("ok"), t])
}
fn err() -> Term {
    tl(vec![tid("err")])
}

pub fn dispatch(op: &str, a: &[Term]) -> Option<Term> {
    Some(match op {
        "la_det" => tr(&determinant(&a[0].rmat())),
        "la_inv" => match matrix::inv(&a[0].rmat()) {
            Ok(b) => ok(trmat(&b)),
            Err(_) => err(),
        },
        "la_solve" => match solve_linear_system(&a[0].rmat(), &a[1].rats()) {
            Ok(x) => ok(trats(&x)),
            Err(_) => err(),
        },
        "la_iim" => match subspace::iim(&a[0].rmat(), &a[1].rmat()) {
            Ok(x) => ok(trmat(&x)),
            Err(IIMError::LinearlyDependent) => tl(vec![tid("err"), tid("dependent")]),
            Err(IIMError::NotInImage) => tl(vec![tid("err"), tid("notinimage")]),
        },
        "la_supp" => match subspace::supplement_basis(&a[0].rmat()) {
            Ok(b) => ok(trmat(&b)),
            Err(_) => err(),
        },
        "la_image" => timat(&subspace::image_mod_p(&a[0].imat(), &a[1].int())),
        // the same generic routine instantiated at a fixed-width integer (entries in [0, p), p < 2^31: every product fits an i64)
        "la_image_i64" => {
            let m: Vec<Vec<i64>> = a[0].imat().iter().map(|r| r.iter().map(|x| x.to_i64().expect("harness: entry does not fit i64")).collect()).collect();
            let r = subspace::image_mod_p::<i64>(&m, &a[1].i64());
            tl(r.into_iter().map(|row| tl(row.into_iter().map(|x| ti(x)).collect())).collect())
        }
        "la_mulinv" => match triangular::mul_inv_from_right_exact(&a[0].imat(), &a[1].imat()) {
            Ok(c) => ok(timat(&c)),
            Err(_) => err(),
        },
        _ => return None,
    })
}
