//! C14/C15: number-field elements (src/algebraic.rs), multiplication tables (src/mult_table.rs),
//! orders (src/order.rs).  Same operations as ocaml/ops_algorder.ml.
//!
//! An order argument is a term naming the constructor path (the field of `Order` is private):
//!   [basis M]      Order::from_basis(M)
//!   [sg f e]       Order::singly_gen(&Algebraic { min_poly: f, expr: e })
//!   [sgnew f]      Order::singly_gen(&Algebraic::new(f))
//!   [triv f]       order::trivial_order_monic(&Algebraic::new(f))
//!   [nonmonic f]   order::non_monic_initial_order(&Algebraic::new(f))
//! Operations on an order built this way answer [basis result] (the stored basis first).
use crate::ops::poly::{qp, tqp, zp};
use crate::term::*;
use num::traits::Pow;
use num::BigInt;
use rust_number_theory::algebraic::Algebraic;
use rust_number_theory::discriminant::discriminant;
use rust_number_theory::integral_basis::find_integral_basis;
use rust_number_theory::mult_table::MultTable;
use rust_number_theory::order::{self, Order};
use std::panic::{catch_unwind, AssertUnwindSafe};

fn alg(f: &Term, e: &Term) -> Algebraic {
    // with_expr has a debug_assert on the degree; build the struct directly as the library's own constructors do
    Algebraic {
        min_poly: zp(f),
        expr: qp(e),
    }
}

fn ord(t: &Term) -> Order {
    let l = t.list();
    match (l[0].id(), l.len()) {
        ("basis", 2) => Order::from_basis(&l[1].rmat()),
        ("sg", 3) => Order::singly_gen(&alg(&l[1], &l[2])),
        ("sgnew", 2) => Order::singly_gen(&Algebraic::new(zp(&l[1]))),
        ("triv", 2) => order::trivial_order_monic(&Algebraic::new(zp(&l[1]))),
        ("nonmonic", 2) => order::non_monic_initial_order(&Algebraic::new(zp(&l[1]))),
        _ => panic!("harness: expected order constructor, got {t}"),
    }
}

fn table(t: &Term) -> MultTable {
    MultTable::new(t.list().iter().map(|m| m.imat()).collect())
}

/// theta only supplies the minimal polynomial to get_mult_table / discriminant
fn theta(f: &Term) -> Algebraic {
    Algebraic {
        min_poly: zp(f),
        expr: qp(&tl(vec![])),
    }
}

fn with_basis(o: &Order, r: Term) -> Term {
    tl(vec![trmat(&o.basis()), r])
}

fn tpair_inv(p: (Vec<BigInt>, BigInt)) -> Term {
    tl(vec![tints(&p.0), tb(&p.1)])
}

/// The first bracketed nest after `key` in a derived `Debug` output (BigInt prints in decimal), as a term.
/// Used where the library offers no accessor: `MultTable { table: [[[..]]] }`,
/// `Ideal { hnf: HNF([[..], ..]), mult_table: .. }`.
fn nested_after(s: &str, key: &str) -> Term {
    let start = s.find(key).unwrap_or_else(|| panic!("harness: no {key} in {s}")) + key.len();
    let mut depth = 0i32;
    let mut end = start;
    for (k, c) in s[start..].char_indices() {
        match c {
            '[' => depth += 1,
            ']' => {
                depth -= 1;
                if depth == 0 {
                    end = start + k + 1;
                    break;
                }
            }
            _ => {}
        }
    }
    let txt: String = s[start..end].chars().map(|c| if c == ',' { ' ' } else { c }).collect();
    let toks = parse_line(&txt).unwrap_or_else(|e| panic!("harness: cannot parse {txt}: {e}"));
    toks[0].clone()
}

fn ttable(mt: &MultTable) -> Term {
    nested_after(&format!("{:?}", mt), "table: ")
}

fn tinvdiff(mt: &MultTable) -> Term {
    let fi = mt.get_inv_diff();
    tl(vec![tb(fi.denom()), nested_after(&format!("{:?}", fi.numer()), "HNF(")])
}

/// [ok v] | [panic class] for a sub-computation whose panic must not hide what was computed before it
fn caught(f: impl FnOnce() -> Term) -> Term {
    match catch_unwind(AssertUnwindSafe(f)) {
        Ok(t) => tl(vec![tid("ok"), t]),
        Err(_) => {
            let msg = crate::LAST_PANIC.with(|p| p.borrow().clone());
            tl(vec![tid("panic"), tid(crate::classify(&msg))])
        }
    }
}

pub fn dispatch(op: &str, a: &[Term]) -> Option<Term> {
    Some(match op {
        "alg_new" => tqp(&Algebraic::new(zp(&a[0])).expr),
        "alg_add" => tqp(&(&alg(&a[0], &a[1]) + &alg(&a[0], &a[2])).expr),
        "alg_sub" => tqp(&(&alg(&a[0], &a[1]) - &alg(&a[0], &a[2])).expr),
        "alg_mul" => tqp(&(&alg(&a[0], &a[1]) * &alg(&a[0], &a[2])).expr),
        // the by-value operator impls and the derived equality (separate impls in algebraic.rs)
        "alg_add_owned" => tqp(&(alg(&a[0], &a[1]) + alg(&a[0], &a[2])).expr),
        "alg_sub_owned" => tqp(&(alg(&a[0], &a[1]) - alg(&a[0], &a[2])).expr),
        "alg_mul_owned" => tqp(&(alg(&a[0], &a[1]) * alg(&a[0], &a[2])).expr),
        "alg_eq" => tbool(alg(&a[0], &a[1]) == alg(&a[0], &a[2])),
        "alg_pow" => tqp(&Pow::pow(&alg(&a[0], &a[1]), a[2].int()).expr),
        "alg_pow_u64" => tqp(&Pow::pow(&alg(&a[0], &a[1]), a[2].u64()).expr),
        "alg_theta_pow" => tqp(&Pow::pow(&Algebraic::new(zp(&a[0])), a[1].int()).expr),
        "alg_as_coefs" => trats(&alg(&a[0], &a[1]).as_coefs()),
        "alg_law" => {
            let (x, y, z) = (alg(&a[0], &a[1]), alg(&a[0], &a[2]), alg(&a[0], &a[3]));
            let (s, t) = (a[4].int(), a[5].int());
            let pair = |u: &Algebraic, v: &Algebraic| tl(vec![tqp(&u.expr), tqp(&v.expr)]);
            let xy = &x * &y;
            let xy_z = &xy * &z;
            let yz = &y * &z;
            let x_yz = &x * &yz;
            let x_ypz = &x * &(&y + &z);
            let xz = &x * &z;
            let yx = &y * &x;
            let pst = Pow::pow(&x, &s + &t);
            let ps = Pow::pow(&x, s);
            let pt = Pow::pow(&x, t);
            let pspt = &ps * &pt;
            tl(vec![pair(&xy_z, &x_yz), pair(&x_ypz, &(&xy + &xz)), pair(&xy, &yx), pair(&pst, &pspt)])
        }
        // explicit tables (fourth argument of mt_mul, the profile, is only read by the model)
        "mt_deg" => ti(table(&a[0]).deg() as u64),
        "mt_mul" => tints(&table(&a[0]).mul(&a[1].ints(), &a[2].ints())),
        "mt_trace" => tb(&table(&a[0]).trace(&a[1].ints())),
        "mt_norm" => tb(&table(&a[0]).norm(&a[1].ints())),
        "mt_inv" => tpair_inv(table(&a[0]).inv(&a[1].ints())),
        "mt_inv_diff" => tinvdiff(&table(&a[0])),
        // orders
        "ord_basis" => trmat(&ord(&a[0]).basis()),
        "ord_deg" => ti(ord(&a[0]).deg() as u64),
        "ord_eq" => {
            let (x, y) = (ord(&a[0]), ord(&a[1]));
            tbool(x == y)
        }
        "ord_index" => {
            let (x, y) = (ord(&a[0]), ord(&a[1]));
            tb(&order::index(&x, &y))
        }
        "ord_union" => {
            let (x, y) = (ord(&a[0]), ord(&a[1]));
            trmat(&order::union(&x, &y).basis())
        }
        // ord_disc O f -> [d r]: d = discriminant(f), r = O.discriminant(theta), each [ok v] | [panic class];
        // the model answers r only (it computes the polynomial discriminant itself); d is for the oracle
        "ord_disc" => {
            let o = ord(&a[0]);
            let f = zp(&a[1]);
            let d = caught(|| tb(&discriminant(&f)));
            let r = caught(|| tb(&o.discriminant(&theta(&a[1]))));
            tl(vec![d, r])
        }
        "ord_mult_table" => {
            let o = ord(&a[0]);
            let t = o.get_mult_table(&theta(&a[1]));
            with_basis(&o, ttable(&t))
        }
        "ord_to_z_basis" => {
            let o = ord(&a[0]);
            let r = trats(&o.to_z_basis(&alg(&a[1], &a[2])));
            with_basis(&o, r)
        }
        "ord_to_z_basis_int" => {
            let o = ord(&a[0]);
            let r = tints(&o.to_z_basis_int(&alg(&a[1], &a[2])));
            with_basis(&o, r)
        }
        "omt_mul" => {
            let o = ord(&a[0]);
            let t = o.get_mult_table(&theta(&a[1]));
            with_basis(&o, tints(&t.mul(&a[2].ints(), &a[3].ints())))
        }
        "omt_trace" => {
            let o = ord(&a[0]);
            let t = o.get_mult_table(&theta(&a[1]));
            with_basis(&o, tb(&t.trace(&a[2].ints())))
        }
        "omt_norm" => {
            let o = ord(&a[0]);
            let t = o.get_mult_table(&theta(&a[1]));
            with_basis(&o, tb(&t.norm(&a[2].ints())))
        }
        "omt_inv" => {
            let o = ord(&a[0]);
            let t = o.get_mult_table(&theta(&a[1]));
            with_basis(&o, tpair_inv(t.inv(&a[2].ints())))
        }
        "omt_inv_diff" => {
            let o = ord(&a[0]);
            let t = o.get_mult_table(&theta(&a[1]));
            with_basis(&o, tinvdiff(&t))
        }
        // implementation only: a source of maximal-order bases for the generators
        "max_order_basis" => trmat(&find_integral_basis(&Algebraic::new(zp(&a[0]))).basis()),
        _ => return None,
    })
}
