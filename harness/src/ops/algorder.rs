//! C14/C15: number-field elements (src/algebraic.rs), orders, multiplication tables.
use crate::ops::poly::{qp, tqp, zp};
use crate::term::*;
use num::traits::Pow;
use rust_number_theory::algebraic::Algebraic;

fn alg(f: &Term, e: &Term) -> Algebraic {
    // with_expr has a debug_assert on the degree; build the struct directly as the library's own constructors do
    Algebraic {
        min_poly: zp(f),
        expr: qp(e),
    }
}

pub fn dispatch(op: &str, a: &[Term]) -> Option<Term> {
    Some(match op {
        "alg_add" => tqp(&(&alg(&a[0], &a[1]) + &alg(&a[0], &a[2])).expr),
        "alg_sub" => tqp(&(&alg(&a[0], &a[1]) - &alg(&a[0], &a[2])).expr),
        "alg_mul" => tqp(&(&alg(&a[0], &a[1]) * &alg(&a[0], &a[2])).expr),
        "alg_pow" => tqp(&Pow::pow(&alg(&a[0], &a[1]), a[2].int()).expr),
        "alg_pow_u64" => tqp(&Pow::pow(&alg(&a[0], &a[1]), a[2].u64()).expr),
        "alg_theta_pow" => tqp(&Pow::pow(&Algebraic::new(zp(&a[0])), a[1].int()).expr),
        "alg_as_coefs" => trats(&alg(&a[0], &a[1]).as_coefs()),
        _ => return None,
    })
}
