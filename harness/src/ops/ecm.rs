//! C01: ECM (sequential and batched), the two work-stack drivers.
use crate::term::*;
use num::BigInt;
use rust_number_theory::ecm::verif as seq;
use rust_number_theory::ecm::ECMConfig;
use rust_number_theory::ecm_parallel::verif as par;
use rust_number_theory::{ecm, ecm_parallel, verif_hooks};
use std::panic::{catch_unwind, AssertUnwindSafe};

type P3 = (BigInt, BigInt, BigInt);

fn p3(t: &Term) -> P3 {
    let l = t.list();
    (l[0].int(), l[1].int(), l[2].int())
}
fn tp3(p: &P3) -> Term {
    tl(vec![tb(&p.0), tb(&p.1), tb(&p.2)])
}
fn tres_pt(r: Result<P3, BigInt>) -> Term {
    match r {
        Ok(p) => tl(vec![tid("ok"), tp3(&p)]),
        Err(g) => tl(vec![tid("err"), tb(&g)]),
    }
}
fn tres_pts(r: Result<Vec<P3>, BigInt>) -> Term {
    match r {
        Ok(v) => tl(vec![tid("ok"), tl(v.iter().map(tp3).collect())]),
        Err(g) => tl(vec![tid("err"), tb(&g)]),
    }
}
fn tres_unit(r: Result<(), BigInt>) -> Term {
    match r {
        Ok(()) => tl(vec![tid("ok")]),
        Err(g) => tl(vec![tid("err"), tb(&g)]),
    }
}
fn tfac(v: &[(BigInt, u64)]) -> Term {
    tl(v.iter().map(|(p, e)| tl(vec![tb(p), ti(*e)])).collect())
}

/// Runs a randomised operation under the scripted generator; the answer carries the bytes drawn,
/// also when the library panics: [ret value log] | [panic class log].
fn with_log<F: FnOnce() -> Term>(seed: u64, script: Vec<u8>, f: F) -> Term {
    verif_hooks::install(seed, script);
    match catch_unwind(AssertUnwindSafe(f)) {
        Ok(t) => tl(vec![tid("ret"), t, tbytes(&verif_hooks::take_log())]),
        Err(_) => {
            let msg = crate::LAST_PANIC.with(|p| p.borrow().clone());
            tl(vec![tid("panic"), tid(crate::classify(&msg)), tbytes(&verif_hooks::take_log())])
        }
    }
}

pub fn dispatch(op: &str, a: &[Term]) -> Option<Term> {
    Some(match op {
        // point_add p q a n -> [ok [x y z]] | [err g]
        "point_add" => tres_pt(seq::point_add(&p3(&a[0]), &p3(&a[1]), &a[2].int(), &a[3].int())),
        // point_mul p e a n
        "point_mul" => tres_pt(seq::point_mul(&p3(&a[0]), a[1].int(), &a[2].int(), &a[3].int())),
        // point_simplify p a n
        "point_simplify" => tres_pt(seq::point_simplify(&p3(&a[0]), &a[1].int(), &a[2].int())),
        // ecm_oneshot p a n b1 b2 [mode] -> [ok] | [err g]
        "ecm_oneshot" => tres_unit(seq::ecm_oneshot(&p3(&a[0]), &a[1].int(), &a[2].int(), a[3].u64(), a[4].u64())),
        // many_adds [[p q a]...] n
        "many_adds" => {
            let v: Vec<(P3, P3, BigInt)> = a[0].list().iter().map(|t| { let l = t.list(); (p3(&l[0]), p3(&l[1]), l[2].int()) }).collect();
            tres_pts(par::many_adds(&v, &a[1].int()))
        }
        // many_muls [[p a]...] e n
        "many_muls" => {
            let v: Vec<(P3, BigInt)> = a[0].list().iter().map(|t| { let l = t.list(); (p3(&l[0]), l[1].int()) }).collect();
            tres_pts(par::many_muls(&v, a[1].int(), &a[2].int()))
        }
        // many_simplify [p...] n
        "many_simplify" => {
            let v: Vec<P3> = a[0].list().iter().map(p3).collect();
            tres_pts(par::many_simplify(&v, &a[1].int()))
        }
        // ecm_oneshot_parallel [[p a]...] n b1 b2 [mode]
        "ecm_oneshot_parallel" => {
            let v: Vec<(P3, BigInt)> = a[0].list().iter().map(|t| { let l = t.list(); (p3(&l[0]), l[1].int()) }).collect();
            tres_unit(par::ecm_oneshot_parallel(&v, &a[1].int(), a[2].u64(), a[3].u64()))
        }
        // the expression of ecm_parallel.rs:73 on the value b1
        "par_count" => ti((a[0].u64() as f64).sqrt() as usize as u64),
        "select_b" => ti(seq::select_b(&a[0].int())),
        // ecm n b1 b2 seed script -> [ret [fac count] log] | [panic class log]
        "ecm" | "ecm_par" => {
            let n = a[0].int();
            let (b1, b2) = (a[1].u64(), a[2].u64());
            let par = op == "ecm_par";
            with_log(a[3].u64(), a[4].bytes(), move || {
                let conf = ECMConfig { b1, b2, verbose: false };
                let (fac, count) = if par { ecm_parallel::ecm(&n, conf) } else { ecm::ecm(&n, conf) };
                tl(vec![tb(&fac), ti(count)])
            })
        }
        // ecm_factorize n seed script -> [ret [[[p e]...] b1 count] log] | [panic class log]
        "ecm_factorize" | "ecmpar_factorize" => {
            let n = a[0].int();
            let par = op == "ecmpar_factorize";
            with_log(a[1].u64(), a[2].bytes(), move || {
                // B1 as the driver computes it; x <= 0 panics in the driver before select_b is reached
                let b1 = if n > BigInt::from(0) { seq::select_b(&n) } else { 0 };
                let (l, st) = if par { ecm_parallel::factorize_verbose(&n, false) } else { ecm::factorize_verbose(&n, false) };
                tl(vec![tfac(&l), ti(b1), ti(st.curve_count)])
            })
        }
        _ => return None,
    })
}
