//! C02 / C03: Hermite normal form (number-theory-linear/src/hnf.rs).
use crate::term::*;
use number_theory_linear::hnf::{self, HNF};

fn enc_hu(a: &[Vec<num::BigInt>]) -> Term {
    let (h, u, k) = hnf::hnf_with_u(a);
    tl(vec![timat(&h.as_vecs()), timat(&u), ti(k as u64)])
}

fn u_ker(a: &[Vec<num::BigInt>]) -> Term {
    let x = enc_hu(a);
    let (h2, ker) = hnf::hnf_with_ker(a);
    let ker2 = HNF::kernel(a);
    tl(vec![x, tl(vec![timat(&h2.as_vecs()), timat(&ker)]), timat(&ker2)])
}

pub fn dispatch(op: &str, a: &[Term]) -> Option<Term> {
    Some(match op {
        // hnf_with_u A -> [H U k]
        "hnf_with_u" => {
            let (h, u, k) = hnf::hnf_with_u(&a[0].imat());
            tl(vec![timat(&h.as_vecs()), timat(&u), ti(k as u64)])
        }
        // hnf_with_ker A -> [H K]
        "hnf_with_ker" => {
            let (h, ker) = hnf::hnf_with_ker(&a[0].imat());
            tl(vec![timat(&h.as_vecs()), timat(&ker)])
        }
        "hnf_new" => timat(&HNF::new(&a[0].imat()).as_vecs()),
        "hnf_kernel" => timat(&HNF::kernel(&a[0].imat())),
        // hnf_new_pair A B -> [HNF::new(A) HNF::new(B) (HNF::new(A) == HNF::new(B))]
        "hnf_new_pair" => {
            let x = HNF::new(&a[0].imat());
            let y = HNF::new(&a[1].imat());
            let e = x == y;
            tl(vec![timat(&x.as_vecs()), timat(&y.into_vecs()), tbool(e)])
        }
        // hnf_union A B -> HNF::union(HNF::new(A), HNF::new(B))
        "hnf_union" => {
            let x = HNF::new(&a[0].imat());
            let y = HNF::new(&a[1].imat());
            timat(&HNF::union(&x, &y).as_vecs())
        }
        "hnf_determinant" => tb(&HNF::new(&a[0].imat()).determinant()),
        // hnf_dim_deg A -> [dim deg] of HNF::new(A)
        "hnf_dim_deg" => {
            let x = HNF::new(&a[0].imat());
            tl(vec![ti(x.dim() as u64), ti(x.deg() as u64)])
        }
        // hnf_u_ker A -> [[H U k] [H' K] K'] from hnf_with_u, hnf_with_ker, HNF::kernel
        "hnf_u_ker" => u_ker(&a[0].imat()),
        "hnf_with_u_batch" => tl(a[0].list().iter().map(|m| enc_hu(&m.imat())).collect()),
        "hnf_u_ker_batch" => tl(a[0].list().iter().map(|m| u_ker(&m.imat())).collect()),
        _ => return None,
    })
}
