//! C19 / C13 / C01(trial division): elementary helpers.
use crate::term::*;
use rust_number_theory::{factorize, inverse, perfect_power, prime, verif_hooks};

pub fn dispatch(op: &str, a: &[Term]) -> Option<Term> {
    Some(match op {
        // inv a m -> [ok x] | [err g]
        "inv" => match inverse::inv(&a[0].int(), &a[1].int()) {
            Ok(x) => tl(vec![tid("ok"), tb(&x)]),
            Err(g) => tl(vec![tid("err"), tb(&g)]),
        },
        "zmod" => tb(&inverse::zmod::<num::BigInt>(&a[0].int(), &a[1].int())),
        // perfect_power n -> [b k]
        "perfect_power" => {
            let (b, k) = perfect_power::perfect_power(&a[0].int());
            tl(vec![tb(&b), ti(k)])
        }
        // is_perfect_power n k -> [some b] | none
        "is_perfect_power" => match perfect_power::is_perfect_power(&a[0].int(), a[1].u32()) {
            Some(b) => tl(vec![tid("some"), tb(&b)]),
            None => tid("none"),
        },
        "kronecker" => ti(number_theory_elementary::kronecker_symbol_i64(a[0].i64(), a[1].i64())),
        "primes" => tl(number_theory_elementary::primes(a[0].usize()).into_iter().map(ti).collect()),
        "primes_iter" => tl(number_theory_elementary::Primes::new().take(a[0].usize()).map(ti).collect()),
        "primes_iter_default" => tl(number_theory_elementary::Primes::default().take(a[0].usize()).map(ti).collect()),
        // is_prime n seed script-bytes -> [verdict consumed-bytes]
        "is_prime" => {
            verif_hooks::install(a[1].u64(), a[2].bytes());
            let r = prime::is_prime(&a[0].int());
            tl(vec![tbool(r), tbytes(&verif_hooks::take_log())])
        }
        // several calls one after the other on the same thread (state kept between calls must not change an answer)
        "is_prime_seq" => {
            verif_hooks::install(a[1].u64(), vec![]);
            let r: Vec<Term> = a[0].ints().iter().map(|n| tbool(prime::is_prime(n))).collect();
            let _ = verif_hooks::take_log();
            tl(r)
        }
        "trial_factorize" => tl(factorize::factorize(&a[0].int()).iter().map(|(p, e)| tl(vec![tb(p), ti(*e)])).collect()),
        _ => return None,
    })
}
