//! C09: polynomial arithmetic (src/polynomial.rs).
use crate::term::*;
use num::{BigInt, BigRational};
use rust_number_theory::polynomial::{self, Polynomial};

pub fn zp(t: &Term) -> Polynomial<BigInt> {
    Polynomial::from_raw(t.ints())
}
pub fn qp(t: &Term) -> Polynomial<BigRational> {
    Polynomial::from_raw(t.rats())
}
pub fn tzp(p: &Polynomial<BigInt>) -> Term {
    tints(&p.dat)
}
pub fn tqp(p: &Polynomial<BigRational>) -> Term {
    trats(&p.dat)
}

pub fn dispatch(op: &str, a: &[Term]) -> Option<Term> {
    Some(match op {
        "zp_from_raw" => tzp(&zp(&a[0])),
        "zp_add" => tzp(&(&zp(&a[0]) + &zp(&a[1]))),
        "zp_sub" => tzp(&(&zp(&a[0]) - &zp(&a[1]))),
        "zp_neg" => tzp(&(-&zp(&a[0]))),
        "zp_mul" => tzp(&(&zp(&a[0]) * &zp(&a[1]))),
        // the by-value operator impls are separate code paths
        "zp_add_owned" => tzp(&(zp(&a[0]) + zp(&a[1]))),
        "zp_sub_owned" => tzp(&(zp(&a[0]) - zp(&a[1]))),
        "zp_neg_owned" => tzp(&(-zp(&a[0]))),
        "zp_mul_owned" => tzp(&(zp(&a[0]) * zp(&a[1]))),
        "qp_add_owned" => tqp(&(qp(&a[0]) + qp(&a[1]))),
        "qp_sub_owned" => tqp(&(qp(&a[0]) - qp(&a[1]))),
        "qp_mul_owned" => tqp(&(qp(&a[0]) * qp(&a[1]))),
        // third argument (profile) is only read by the model
        "zp_of" => tb(&zp(&a[0]).of(&a[1].int())),
        "zp_diff" => tzp(&zp(&a[0]).differential()),
        "zp_deg" => ti(zp(&a[0]).deg() as u64),
        "zp_coef_at" => tb(&zp(&a[0]).coef_at(a[1].usize())),
        "zp_eq" => tbool(zp(&a[0]) == zp(&a[1])),
        "zp_pseudo_div_rem" => {
            let (q, r) = polynomial::pseudo_div_rem_bigint(&zp(&a[0]), &zp(&a[1]));
            tl(vec![tzp(&q), tzp(&r)])
        }
        "zp_div_rem" => {
            let (q, r) = polynomial::div_rem_bigint(&zp(&a[0]), &zp(&a[1]));
            tl(vec![tzp(&q), tzp(&r)])
        }
        "zp_div_exact" => match polynomial::div_exact(&zp(&a[0]), &zp(&a[1])) {
            Some(q) => tl(vec![tid("some"), tzp(&q)]),
            None => tid("none"),
        },
        "zp_cont_pp" => {
            let (c, pp) = zp(&a[0]).cont_pp();
            tl(vec![tb(&c), tzp(&pp)])
        }
        "zp_content" => tb(&zp(&a[0]).content()),
        "qp_from_raw" => tqp(&qp(&a[0])),
        "qp_add" => tqp(&(&qp(&a[0]) + &qp(&a[1]))),
        "qp_sub" => tqp(&(&qp(&a[0]) - &qp(&a[1]))),
        "qp_neg" => tqp(&(-&qp(&a[0]))),
        "qp_mul" => tqp(&(&qp(&a[0]) * &qp(&a[1]))),
        "qp_of" => tr(&qp(&a[0]).of(&a[1].rat())),
        "qp_div_rem" => {
            let (q, r) = polynomial::div_rem_bigrational(&qp(&a[0]), &qp(&a[1]));
            tl(vec![tqp(&q), tqp(&r)])
        }
        _ => return None,
    })
}
