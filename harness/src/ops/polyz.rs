//! C07: factorisation over Z (src/poly_z/mod.rs).
//! `polyz_factorize f seed script` installs the scripted generator and answers
//! `[ok [content [[factor e]...]] consumed-bytes]` or `[panic class consumed-bytes]`.
use crate::ops::poly::{tzp, zp};
use crate::term::*;
use rust_number_theory::poly_z;
use rust_number_theory::verif_hooks;
use std::panic::{catch_unwind, AssertUnwindSafe};

/// Runs `f` with the scripted generator installed; the bytes it consumed are part of the answer.
fn with_rng(seed: &Term, script: &Term, f: impl FnOnce() -> Term) -> Term {
    verif_hooks::install(seed.u64(), script.bytes());
    match catch_unwind(AssertUnwindSafe(f)) {
        Ok(t) => tl(vec![tid("ok"), t, tbytes(&verif_hooks::take_log())]),
        Err(_) => {
            let msg = crate::LAST_PANIC.with(|p| p.borrow().clone());
            tl(vec![tid("panic"), tid(crate::classify(&msg)), tbytes(&verif_hooks::take_log())])
        }
    }
}

pub fn dispatch(op: &str, a: &[Term]) -> Option<Term> {
    Some(match op {
        // polyz_factorize f seed script
        "polyz_factorize" => with_rng(&a[1], &a[2], || {
            let (c, fs) = poly_z::factorize(&zp(&a[0]));
            tl(vec![tb(&c), tl(fs.iter().map(|(g, e)| tl(vec![tzp(g), ti(*e as u64)])).collect())])
        }),
        _ => return None,
    })
}
