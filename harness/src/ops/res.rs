//! C04 / C05 / C10: resultant, discriminant, gcd in Z[x] (src/resultant.rs, src/discriminant.rs).
//! Polynomials are coefficient lists, lowest degree first, built with Polynomial::from_raw.
//! A trailing profile argument (checked | wrapping) is only read by the model.
use crate::ops::poly::{qp, tzp, zp};
use crate::term::*;
use rust_number_theory::{discriminant, resultant};

pub fn dispatch(op: &str, a: &[Term]) -> Option<Term> {
    Some(match op {
        "resultant" => tb(&resultant::resultant(&zp(&a[0]), &zp(&a[1]))),
        "resultant_rational" => tr(&resultant::resultant_rational(&qp(&a[0]), &qp(&a[1]))),
        "resultant_gcd" => tzp(&resultant::resultant_gcd(&zp(&a[0]), &zp(&a[1]))),
        "discriminant" => tb(&discriminant::discriminant(&zp(&a[0]))),
        // list variants: the same call on several inputs (metamorphic relations)
        "resultant_list" => tl(a[0]
            .list()
            .iter()
            .map(|p| tb(&resultant::resultant(&zp(&p.list()[0]), &zp(&p.list()[1]))))
            .collect()),
        "resultant_rational_list" => tl(a[0]
            .list()
            .iter()
            .map(|p| tr(&resultant::resultant_rational(&qp(&p.list()[0]), &qp(&p.list()[1]))))
            .collect()),
        "discriminant_list" => tl(a[0]
            .list()
            .iter()
            .map(|f| tb(&discriminant::discriminant(&zp(f))))
            .collect()),
        "disc_prod" => tl(vec![
            tb(&discriminant::discriminant(&zp(&a[0]))),
            tb(&discriminant::discriminant(&zp(&a[1]))),
            tb(&discriminant::discriminant(&zp(&a[2]))),
            tb(&resultant::resultant(&zp(&a[0]), &zp(&a[1]))),
        ]),
        _ => return None,
    })
}
