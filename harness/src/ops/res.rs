//! res operations (stub; filled in by the area owner).
use crate::term::*;

pub fn dispatch(_op: &str, _a: &[Term]) -> Option<Term> {
    None
}
