//! C20: LLL (number-theory-linear/src/lll.rs), Cholesky / short vectors (cholesky.rs),
//! roots-of-unity count (src/class/roots_of_unity.rs).
//! Every f64 is printed as the exact rational it denotes (from its bits), so that the comparison
//! with the binary64 model is bit-exact up to the sign of zero.
use crate::term::*;
use num::{BigInt, BigRational, One, ToPrimitive};
use number_theory_linear::cholesky::Cholesky;
use rust_number_theory::algebraic::Algebraic;
use rust_number_theory::class::roots_of_unity::find_muk;
use rust_number_theory::embeddings::CEmbeddings;
use rust_number_theory::integral_basis::find_integral_basis;
use rust_number_theory::numerical_roots::find_roots_reim;
use rust_number_theory::polynomial::Polynomial;
use rust_number_theory::verif_hooks;

/// exact value of a double: nan | inf | ninf | INT | INT/INT
pub fn tf(x: f64) -> Term {
    if x.is_nan() {
        return tid("nan");
    }
    if x.is_infinite() {
        return tid(if x > 0.0 { "inf" } else { "ninf" });
    }
    let bits = x.to_bits();
    let neg = (bits >> 63) != 0;
    let e = ((bits >> 52) & 0x7ff) as i64;
    let frac = bits & ((1u64 << 52) - 1);
    let (m, ex) = if e == 0 { (frac, -1074i64) } else { (frac | (1u64 << 52), e - 1075) };
    let mut num = BigInt::from(m);
    if neg {
        num = -num;
    }
    let r = if ex >= 0 {
        BigRational::from_integer(num << (ex as usize))
    } else {
        BigRational::new(num, BigInt::one() << ((-ex) as usize))
    };
    tr(&r)
}
fn tfs(v: &[f64]) -> Term {
    tl(v.iter().map(|&x| tf(x)).collect())
}
fn tfmat(m: &[Vec<f64>]) -> Term {
    tl(m.iter().map(|r| tfs(r)).collect())
}
/// integer-valued input entries as f64, the way a caller would write `x as f64`; a dyadic rational
/// num/2^e with |num| < 2^53 is the exact quotient of two exactly representable doubles
fn fentry(x: &Term) -> f64 {
    let r = x.rat();
    if r.denom().is_one() {
        r.numer().to_f64().unwrap()
    } else {
        r.numer().to_f64().unwrap() / r.denom().to_f64().unwrap()
    }
}
fn fmat(t: &Term) -> Vec<Vec<f64>> {
    t.list().iter().map(|r| r.list().iter().map(fentry).collect()).collect()
}

pub fn dispatch(op: &str, a: &[Term]) -> Option<Term> {
    Some(match op {
        // lll B -> [B' H]
        "lll" => {
            let b = fmat(&a[0]);
            let (l, h) = number_theory_linear::lll(&b);
            tl(vec![tfmat(&l), timat(&h)])
        }
        // cholesky_find Q -> q   (the private field is only visible through Debug)
        "cholesky_find" => {
            let q = fmat(&a[0]);
            let cho = Cholesky::find(&q);
            let n = q.len();
            // recover q from find_value on unit vectors is not possible bit-exactly; parse the Debug form
            let s = format!("{cho:?}");
            let inner = s.trim_start_matches("Cholesky { q: ").trim_end_matches(" }");
            let mut rows: Vec<Vec<f64>> = vec![];
            for r in inner.trim_start_matches('[').trim_end_matches(']').split("], [") {
                let r = r.trim_start_matches('[').trim_end_matches(']');
                if r.is_empty() {
                    continue;
                }
                rows.push(r.split(", ").map(|x| x.parse::<f64>().unwrap_or_else(|_| panic!("harness: float {x}"))).collect());
            }
            if rows.len() != n {
                panic!("harness: cannot parse {s}");
            }
            tfmat(&rows)
        }
        // find_value Q x -> value
        "find_value" => {
            let q = fmat(&a[0]);
            let x: Vec<f64> = a[1].list().iter().map(|t| t.rat().to_f64().unwrap()).collect();
            tf(Cholesky::find(&q).find_value(&x))
        }
        // short_vectors Q cnum cexp -> [[value x]*]   with c = cnum / 2^cexp
        "short_vectors" => {
            let q = fmat(&a[0]);
            let c = a[1].int().to_f64().unwrap() / (BigInt::one() << a[2].usize()).to_f64().unwrap();
            let v = Cholesky::find(&q).find_short_vectors(c);
            tl(v.into_iter().map(|(val, x)| tl(vec![tf(val), tl(x.into_iter().map(ti).collect())])).collect())
        }
        // find_muk f seed -> count   (f = defining polynomial, lowest degree first)
        "find_muk" => {
            let poly_vec = a[0].ints();
            verif_hooks::install(a[1].u64(), vec![]);
            let poly = Polynomial::from_raw(poly_vec.clone());
            let poly_complex = Polynomial::from_raw(poly_vec.iter().map(|b| b.to_f64().unwrap()).collect());
            let theta = Algebraic::new(poly);
            let o = find_integral_basis(&theta);
            let (roots_re, roots_im) = find_roots_reim(poly_complex);
            let emb = CEmbeddings::new(&roots_re, &roots_im, &o);
            let r = roots_re.len();
            let s = roots_im.len();
            let _ = verif_hooks::take_log();
            tl(vec![ti(find_muk(&emb) as u64), ti(r as u64), ti(s as u64)])
        }
        _ => return None,
    })
}
