//! Operation table. Each area module exposes `dispatch(op, args) -> Option<Term>`
//! (None = not mine). Panics of the library propagate to main's catch_unwind.
use crate::term::Term;

pub mod elem;

pub fn dispatch(op: &str, args: &[Term]) -> Option<Term> {
    if op == "ping" {
        return Some(crate::term::tl(args.to_vec()));
    }
    None.or_else(|| elem::dispatch(op, args))
}
