//! Operation table. Each area module exposes `dispatch(op, args) -> Option<Term>`
//! (None = not mine). Panics of the library propagate to main's catch_unwind.
use crate::term::Term;

pub mod cli;
pub mod elem;
pub mod poly;
pub mod round2;
pub mod ideal;
pub mod algorder;
pub mod polyz;
pub mod polymod;
pub mod res;
pub mod lll;
pub mod ecm;
pub mod linalg;
pub mod hnf;

pub fn dispatch(op: &str, args: &[Term]) -> Option<Term> {
    if op == "ping" {
        return Some(crate::term::tl(args.to_vec()));
    }
    None.or_else(|| elem::dispatch(op, args))
        .or_else(|| cli::dispatch(op, args))
        .or_else(|| poly::dispatch(op, args))
        .or_else(|| round2::dispatch(op, args))
        .or_else(|| ideal::dispatch(op, args))
        .or_else(|| algorder::dispatch(op, args))
        .or_else(|| polyz::dispatch(op, args))
        .or_else(|| polymod::dispatch(op, args))
        .or_else(|| res::dispatch(op, args))
        .or_else(|| lll::dispatch(op, args))
        .or_else(|| ecm::dispatch(op, args))
        .or_else(|| linalg::dispatch(op, args))
        .or_else(|| hnf::dispatch(op, args))
}
