//! CLI glue: runs /repo's two binaries (built by the check into $RNT_BIN_DIR) on a generated
//! configuration and parses their stdout back. Covers argument/config parsing, the
//! BigInt <-> string bridges and the printers around the modelled core.
use crate::term::*;
use num::BigInt;
use serde_json::Value;
use std::io::Write;
use std::process::{Command, Stdio};
use std::sync::atomic::{AtomicU64, Ordering};

static COUNTER: AtomicU64 = AtomicU64::new(0);

fn bin(name: &str) -> String {
    let dir = std::env::var("RNT_BIN_DIR").unwrap_or_else(|_| panic!("harness: RNT_BIN_DIR not set"));
    format!("{dir}/{name}")
}

fn poly_json(t: &Term) -> String {
    // coefficients as strings, exactly as written (trailing zeros are kept: the CLI must strip them)
    let v: Vec<String> = t.ints().iter().map(|c| format!("\"{c}\"")).collect();
    format!("[{}]", v.join(", "))
}

/// Runs `rust-number-theory <config>`; returns (exit ok, stdout).
fn run_main(config_yaml: &str) -> (bool, String) {
    let dir = std::env::temp_dir();
    let path = dir.join(format!("rnt-cli-{}-{}.yml", std::process::id(), COUNTER.fetch_add(1, Ordering::SeqCst)));
    std::fs::write(&path, config_yaml).unwrap();
    let out = Command::new(bin("rust-number-theory")).arg(&path).stderr(Stdio::null()).output().expect("harness: cannot run rust-number-theory");
    let _ = std::fs::remove_file(&path);
    (out.status.success(), String::from_utf8_lossy(&out.stdout).to_string())
}

fn json(s: &str) -> Value {
    serde_json::from_str(s).unwrap_or_else(|e| panic!("harness: CLI printed unparsable JSON: {e}: {s}"))
}
fn jint(v: &Value) -> Term {
    match v {
        Value::String(s) => tb(&s.parse::<BigInt>().unwrap_or_else(|_| panic!("harness: bad integer {s}"))),
        Value::Number(n) => ti(n.as_u64().unwrap()),
        _ => panic!("harness: expected integer, got {v}"),
    }
}
fn jpoly(v: &Value) -> Term {
    tl(v.as_array().unwrap().iter().map(jint).collect())
}
fn crashed() -> Term {
    tid("cli_failed")
}

pub fn dispatch(op: &str, a: &[Term]) -> Option<Term> {
    Some(match op {
        "cli_resultant" => {
            let (ok, out) = run_main(&format!("input:\n  polynomials: [{}, {}]\nto_find: [resultant]\n", poly_json(&a[0]), poly_json(&a[1])));
            if !ok { return Some(crashed()); }
            jint(&json(&out)["resultant"])
        }
        "cli_discriminant" => {
            let (ok, out) = run_main(&format!("input:\n  polynomials: [{}]\nto_find: [discriminant]\n", poly_json(&a[0])));
            if !ok { return Some(crashed()); }
            jint(&json(&out)["discriminant"])
        }
        "cli_integral_basis" => {
            let (ok, out) = run_main(&format!("input:\n  polynomials: [{}]\nto_find: [integral_basis]\n", poly_json(&a[0])));
            if !ok { return Some(crashed()); }
            let v = json(&out);
            tl(vec![jint(&v["reduced_index"]), jint(&v["discriminant"])])
        }
        "cli_factor_int" => {
            let (ok, out) = run_main(&format!("input:\n  integer: \"{}\"\nto_find: [factorization]\n", a[0].int()));
            if !ok { return Some(crashed()); }
            let v = json(&out);
            let mut fs: Vec<(BigInt, Term)> = v.as_object().unwrap().iter().map(|(p, e)| (p.parse::<BigInt>().unwrap(), jint(e))).collect();
            fs.sort_by(|x, y| x.0.cmp(&y.0));
            tl(fs.into_iter().map(|(p, e)| tl(vec![tb(&p), e])).collect())
        }
        "cli_factor_poly" => {
            let (ok, out) = run_main(&format!("input:\n  polynomials: [{}]\nto_find: [factorization]\n", poly_json(&a[0])));
            if !ok { return Some(crashed()); }
            let v = json(&out);
            tl(vec![jint(&v["content"]), tl(v["factors"].as_array().unwrap().iter().map(|f| tl(vec![jpoly(&f["factor_vec"]), jint(&f["e"])])).collect())])
        }
        // the printed form of each factor next to its coefficient vector: [[factor_str factor_vec e] ...] (factor_str as a list of
        // character codes, so that the term syntax carries it unchanged)
        "cli_factor_poly_str" => {
            let (ok, out) = run_main(&format!("input:\n  polynomials: [{}]\nto_find: [factorization]\n", poly_json(&a[0])));
            if !ok { return Some(crashed()); }
            let v = json(&out);
            tl(v["factors"].as_array().unwrap().iter().map(|f| tl(vec![
                tl(f["factor_str"].as_str().unwrap_or("?").bytes().map(|b| ti(b as u64)).collect()), jpoly(&f["factor_vec"]), jint(&f["e"])])).collect())
        }
        // several commands in one configuration: for each command, does the document printed in the combined run equal (as JSON,
        // arrays compared as multisets) the document printed when the command runs alone?  cli_seq kind poly primes [cmd ...]
        // with kind = poly | pp and cmd in fz (factorization), disc, ib (integral_basis), fmp (factorization-mod-p), pd
        "cli_seq" => {
            fn canon(v: &Value) -> Value {
                match v {
                    Value::Array(xs) => { let mut ys: Vec<Value> = xs.iter().map(canon).collect(); ys.sort_by_key(|y| y.to_string()); Value::Array(ys) }
                    Value::Object(m) => Value::Object(m.iter().map(|(k, x)| (k.clone(), canon(x))).collect()),
                    _ => v.clone(),
                }
            }
            let name = |c: &str| match c { "fz" => "factorization", "disc" => "discriminant", "ib" => "integral_basis", "fmp" => "factorization-mod-p",
                                           "pd" => "prime-decomposition", _ => panic!("harness: unknown command {c}") };
            let input = if a[0].id() == "poly" { format!("input:\n  polynomials: [{}]\n", poly_json(&a[1])) } else {
                let ps: Vec<String> = a[2].ints().iter().map(|p| format!("\"{p}\"")).collect();
                format!("input:\n  polynomial_and_primes:\n    polynomial: {}\n    primes: [{}]\n", poly_json(&a[1]), ps.join(", ")) };
            let cmds: Vec<String> = a[3].list().iter().map(|t| name(&t.id()).to_string()).collect();
            let docs = |out: &str| -> Vec<Value> { serde_json::Deserializer::from_str(out).into_iter::<Value>().filter_map(|r| r.ok()).map(|v| canon(&v)).collect() };
            let (ok, all) = run_main(&format!("{}to_find: [{}]\n", input, cmds.join(", ")));
            if !ok { return Some(crashed()); }
            let all = docs(&all);
            let mut res = vec![ti(all.len() as u64)];
            for (i, c) in cmds.iter().enumerate() {
                let (ok1, one) = run_main(&format!("{}to_find: [{}]\n", input, c));
                let one = docs(&one);
                res.push(tbool(ok1 && one.len() == 1 && all.get(i) == one.first()));
            }
            tl(res)
        }
        "cli_factor_mod_p" => {
            let (ok, out) = run_main(&format!("input:\n  polynomial_and_primes:\n    polynomial: {}\n    primes: [\"{}\"]\nto_find: [factorization-mod-p]\n", poly_json(&a[0]), a[1].int()));
            if !ok { return Some(crashed()); }
            let v = json(&out);
            tl(v[0]["factors"].as_array().unwrap().iter().map(|f| tl(vec![jpoly(&f["factor_vec"]), jint(&f["e"])])).collect())
        }
        // several primes in one configuration: [[factors for p1] [factors for p2] ...]
        "cli_factor_mod_p_multi" => {
            let ps: Vec<String> = a[1].ints().iter().map(|p| format!("\"{p}\"")).collect();
            let (ok, out) = run_main(&format!("input:\n  polynomial_and_primes:\n    polynomial: {}\n    primes: [{}]\nto_find: [factorization-mod-p]\n", poly_json(&a[0]), ps.join(", ")));
            if !ok { return Some(crashed()); }
            let v = json(&out);
            tl(v.as_array().unwrap().iter().map(|e| tl(vec![jint(&e["modulus"]), tl(e["factors"].as_array().unwrap().iter().map(|f| tl(vec![jpoly(&f["factor_vec"]), jint(&f["e"])])).collect())])).collect())
        }
        "cli_prime_decomp_multi" => {
            let ps: Vec<String> = a[1].ints().iter().map(|p| format!("\"{p}\"")).collect();
            let (ok, out) = run_main(&format!("input:\n  polynomial_and_primes:\n    polynomial: {}\n    primes: [{}]\nto_find: [prime-decomposition]\n", poly_json(&a[0]), ps.join(", ")));
            if !ok { return Some(crashed()); }
            let v = json(&out);
            tl(v.as_array().unwrap().iter().map(|e| tl(vec![jint(&e["modulus"]), tl(e["factors"].as_array().unwrap().iter().map(|f| tl(vec![jint(&f["norm"]), jint(&f["e"])])).collect())])).collect())
        }
        "cli_prime_decomp" => {
            let (ok, out) = run_main(&format!("input:\n  polynomial_and_primes:\n    polynomial: {}\n    primes: [\"{}\"]\nto_find: [prime-decomposition]\n", poly_json(&a[0]), a[1].int()));
            if !ok { return Some(crashed()); }
            let v = json(&out);
            tl(v[0]["factors"].as_array().unwrap().iter().map(|f| tl(vec![jint(&f["norm"]), jint(&f["e"])])).collect())
        }
        // rfactor <n> : "p p q" ; rfactor --json <n>
        "cli_rfactor" => {
            let out = Command::new(bin("rfactor")).arg(a[0].int().to_string()).stderr(Stdio::null()).output().expect("harness: cannot run rfactor");
            if !out.status.success() { return Some(crashed()); }
            let s = String::from_utf8_lossy(&out.stdout).to_string();
            tl(s.split_whitespace().map(|w| tb(&w.parse::<BigInt>().unwrap_or_else(|_| panic!("harness: rfactor printed {w}")))).collect())
        }
        "cli_rfactor_json" => {
            let out = Command::new(bin("rfactor")).arg("--json").arg(a[0].int().to_string()).stderr(Stdio::null()).output().expect("harness: cannot run rfactor");
            if !out.status.success() { return Some(crashed()); }
            let v = json(&String::from_utf8_lossy(&out.stdout));
            tl(v["entries"].as_array().unwrap().iter().map(|e| tl(vec![jint(&e["p"]), jint(&e["e"])])).collect())
        }
        // rfactor reading the number from stdin (prompt mode)
        "cli_rfactor_stdin" => {
            let mut ch = Command::new(bin("rfactor")).stdin(Stdio::piped()).stdout(Stdio::piped()).stderr(Stdio::null()).spawn().expect("harness: cannot run rfactor");
            ch.stdin.take().unwrap().write_all(format!("{}\n", a[0].int()).as_bytes()).unwrap();
            let out = ch.wait_with_output().unwrap();
            if !out.status.success() { return Some(crashed()); }
            let s = String::from_utf8_lossy(&out.stdout).to_string();
            let s = s.trim_start_matches("> ");
            tl(s.split_whitespace().map(|w| tb(&w.parse::<BigInt>().unwrap_or_else(|_| panic!("harness: rfactor printed {w}")))).collect())
        }
        _ => return None,
    })
}
