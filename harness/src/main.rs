//! impl_svc: runs operations of /repo's current working tree, one per input line.
//!   in : <op> <term>*
//!   out: ok <term> | panic <class> <message> | unsupported <op> | badinput <message>
mod ops;
mod term;

use std::cell::RefCell;
use std::io::{BufRead, Write};
use std::panic::{catch_unwind, AssertUnwindSafe};

thread_local! { static LAST_PANIC: RefCell<String> = const { RefCell::new(String::new()) }; }

fn classify(msg: &str) -> &'static str {
    let m = msg;
    if m.starts_with("harness:") {
        "harness"
    } else if m.contains("with overflow") || m.contains("to negate with overflow") {
        "overflow"
    } else if m.contains("divide by zero") || m.contains("division by zero") || m.contains("divisor of zero") || m.contains("denominator == 0") {
        "div0"
    } else if m.contains("index out of bounds") || m.contains("out of range") || m.contains("out of bounds") {
        "index"
    } else if m.contains("assertion") {
        "assert"
    } else if m.contains("unwrap()") || m.contains("expect") {
        "unwrap"
    } else {
        "other"
    }
}

fn main() {
    std::panic::set_hook(Box::new(|info| {
        let msg = if let Some(s) = info.payload().downcast_ref::<String>() {
            s.clone()
        } else if let Some(s) = info.payload().downcast_ref::<&str>() {
            s.to_string()
        } else {
            "?".to_string()
        };
        let loc = info.location().map(|l| format!(" @{}:{}", l.file(), l.line())).unwrap_or_default();
        LAST_PANIC.with(|p| *p.borrow_mut() = format!("{msg}{loc}"));
    }));
    let stdin = std::io::stdin();
    let out = std::io::stdout();
    let mut out = out.lock();
    for line in stdin.lock().lines() {
        let line = line.unwrap();
        if line.trim().is_empty() {
            continue;
        }
        let answer = match term::parse_line(&line) {
            Err(e) => format!("badinput {e}"),
            Ok(toks) if toks.is_empty() => "badinput empty".to_string(),
            Ok(toks) => {
                let op = match &toks[0] {
                    term::Term::Id(s) => s.clone(),
                    t => format!("{t}"),
                };
                let args = &toks[1..];
                match catch_unwind(AssertUnwindSafe(|| ops::dispatch(&op, args))) {
                    Ok(Some(t)) => format!("ok {t}"),
                    Ok(None) => format!("unsupported {op}"),
                    Err(_) => {
                        let msg = LAST_PANIC.with(|p| p.borrow().clone());
                        let msg1 = msg.replace('\n', " ");
                        format!("panic {} {}", classify(&msg), msg1)
                    }
                }
            }
        };
        writeln!(out, "{answer}").unwrap();
        out.flush().unwrap();
    }
}
