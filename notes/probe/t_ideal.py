from drv import *
from sympy import Poly, symbols, ZZ, primerange, nextprime
x=symbols('x')
s=Svc(); random.seed(10)
st={}
def rec(k,ok,info):
    a=st.setdefault(k,[0,0,[]]); a[0]+=1
    if not ok:
        a[1]+=1
        if len(a[2])<5: a[2].append(info)
import time
t0=time.time()
fields=[]
while len(fields)<40:
    d=random.randint(2,4); rng=random.choice([1,2,4])
    c=[random.randint(-rng,rng) for _ in range(d)]+[1]
    if Poly(list(reversed(c)),x,domain=ZZ).is_irreducible: fields.append(c)
for c in fields:
    d=len(c)-1
    for _ in range(4):
        def gens(): return [[random.randint(-4,4) for _ in range(d)] for _ in range(random.randint(1,3))]
        def nz(g):
            if all(v==0 for v in g[0]): g[0][0]=random.randint(1,5)
            return g
        a,b,cc=nz(gens()),nz(gens()),nz(gens())
        r=s.q(op='ideal',f=c,a=a,b=b,c=cc)
        if 'panic' in r: rec('ideal_panic',False,(c,a,b,cc,r['panic'][:100])); continue
        o=r['ok']
        for key in ('comm','assoc','dist','normmul','inv_ok','contains_gen'):
            rec(key,o[key],(c,a,b,cc,{k:o[k] for k in ('na','capz','disc','invdiff')}))
        rec('pnorm',abs(int(o['elnorm']))==int(o['pnorm']),(c,a,o['elnorm'],o['pnorm']))
        den,nn=int(o['invdiff'][0]),int(o['invdiff'][1])
        rec('invdiff', den**o['deg']==nn*abs(int(o['disc'])), (c,o['invdiff'],o['disc']))
    # decomposition
    for p in [2,3,5,7,11,13,nextprime(2**64)]:
        r=s.q(op='decomp',f=c,p=p)
        if 'panic' in r:
            rec('decomp_panic', 'not (p |' in r['panic'], (c,p,r['panic'][:100])); continue
        o=r['ok']
        lc,fl=Poly(list(reversed(c)),x,modulus=p).factor_list()
        exp=sorted((p**g.degree(),e) for g,e in fl)
        got=sorted((int(n),e) for n,e,cz in o['fs'])
        rec('decomp', got==exp and o['prod_ok'] and all(int(cz)==p for _,_,cz in o['fs']), (c,p,o,exp))
    if time.time()-t0>900: break
for k,v in st.items(): print(k,v[0],v[1]); [print('   ',e) for e in v[2]]
