from drv import *
from sympy import Poly, symbols, resultant, discriminant, gcd, ZZ, QQ, LC, degree
x=symbols('x')
s=Svc(); random.seed(3)
def rp(maxdeg, rng, allow_zero=True):
    d=random.randint(-1 if allow_zero else 0,maxdeg)
    if d<0: return []
    c=[random.randint(-rng,rng) for _ in range(d+1)]
    if random.random()<0.3:
        for i in range(len(c)):
            if random.random()<0.5: c[i]=0
    while c and c[-1]==0: c.pop()
    return c
def P(c): return Poly(list(reversed(c)) if c else [0], x, domain=ZZ)
stats={}
def rec(k,okk,info):
    a=stats.setdefault(k,[0,0,None]); a[0]+=1
    if not okk:
        a[1]+=1
        if a[2] is None: a[2]=info
for it in range(3000):
    rng=random.choice([1,3,10,10**19])
    f=rp(6,rng); g=rp(6,rng)
    mode=random.random()
    if mode<0.25 and f and g:
        h=rp(3,rng,False); f=[int(c) for c in reversed((P(f)*P(h)).all_coeffs())]; g=[int(c) for c in reversed((P(g)*P(h)).all_coeffs())]
        if f==[0]: f=[]
        if g==[0]: g=[]
    elif mode<0.3: g=f[:]
    r=s.q(op='res', f=f, g=g)
    if not f or not g: exp=0
    else: exp=int(resultant(P(f),P(g)))
    # sympy convention for constants: res(c, g)=c^deg g
    rec('res', 'ok' in r and int(r['ok'])==exp, (f,g,r,exp))
    if len(f)>=1 and len(g)>=1:
        rq=s.q(op='resq', f=f, g=g)
        rec('resq', 'ok' in rq and F(rq['ok'])==exp, (f,g,rq,exp))
    if len(f)>=2:
        r=s.q(op='disc', f=f); exp=int(discriminant(P(f)))
        rec('disc', 'ok' in r and int(r['ok'])==exp, (f,r,exp))
    if f or g:
        r=s.q(op='gcd', f=f, g=g)
        e=gcd(P(f),P(g))  # sympy gcd over ZZ includes content gcd, positive lc
        ec=[int(c) for c in reversed(e.all_coeffs())]
        ok = 'ok' in r and (I(r['ok'])==ec or ((not f or not g) and I(r['ok'])==[-c for c in ec]))
        rec('gcd', ok, (f,g,r,ec))
for k,v in stats.items(): print(k,v)
