from drv import *
from sympy import Matrix
import itertools, math
s=Svc(); random.seed(12)
st={}
def rec(k,ok,info):
    a=st.setdefault(k,[0,0,[]]); a[0]+=1
    if not ok:
        a[1]+=1
        if len(a[2])<4: a[2].append(info)
def gs(B):
    n=len(B); Bs=[]; mu=[[Fraction(0)]*n for _ in range(n)]
    for i in range(n):
        v=[Fraction(x) for x in B[i]]
        for j in range(i):
            mu[i][j]=sum(Fraction(a)*b for a,b in zip(B[i],Bs[j]))/sum(b*b for b in Bs[j])
            v=[a-mu[i][j]*b for a,b in zip(v,Bs[j])]
        Bs.append(v)
    return Bs,mu

for it in range(1500):
    n=random.randint(1,4)
    while True:
        B=[[random.randint(-4,4) for _ in range(n)] for _ in range(n)]
        if Matrix(B).det()!=0: break
    Q=[[sum(B[i][k]*B[j][k] for k in range(n)) for j in range(n)] for i in range(n)]
    c=random.choice([1,2,3,5,8,13,20])+0.5
    r=s.q(op='short',q=[[float(x) for x in row] for row in Q],c=float(c))
    if 'panic' in r: rec('short_panic',False,(Q,c,r['panic'][:80])); continue
    got=r['ok']
    # brute force in box: |x_i| <= sqrt(c * (Q^-1)_ii)
    Qi=Matrix(Q).inv(); bnd=[int(math.isqrt(int(c*Qi[i,i])+1))+1 for i in range(n)]
    exp=set()
    for xs in itertools.product(*[range(-b,b+1) for b in bnd]):
        if any(xs):
            v=sum(Q[i][j]*xs[i]*xs[j] for i in range(n) for j in range(n))
            if v<=c: exp.add(xs)
    gotset=[tuple(v) for _,v in got]
    ok=len(set(gotset))==len(gotset) and all(tuple(-a for a in v) not in gotset or v==tuple(-a for a in v) for v in gotset)
    full=set(gotset)|{tuple(-a for a in v) for v in gotset}
    ok=ok and full==exp and all(abs(val-sum(Q[i][j]*v[i]*v[j] for i in range(n) for j in range(n)))<1e-6 for val,v in got)
    rec('short',ok,(Q,c,len(exp),len(gotset),sorted(exp-full)[:3],sorted(full-exp)[:3]))
for k,v in st.items(): print(k,v[0],v[1]); [print('   ',str(e)[:600]) for e in v[2]]
