from drv import *
from sympy import Poly, symbols, ZZ, GF, isprime, nextprime, integer_nthroot, primerange, jacobi_symbol, factorint, gcd as sgcd
import math
x=symbols('x')
s=Svc(); random.seed(7)
st={}
def rec(k,ok,info):
    a=st.setdefault(k,[0,0,[]]); a[0]+=1
    if not ok:
        a[1]+=1
        if len(a[2])<4: a[2].append(info)
def P(c,dom=ZZ): return Poly(list(reversed(c)) if c else [0], x, domain=dom)
def C(p): 
    c=[int(a) for a in reversed(p.all_coeffs())]
    while c and c[-1]==0: c.pop()
    return c

def kron(a,b):
    if b==0: return 1 if abs(a)==1 else 0
    res=1
    if b<0:
        b=-b
        if a<0: res=-res
    v=0
    while b%2==0: b//=2; v+=1
    if v:
        if a%2==0: return 0
        if v%2==1 and a%8 in (3,5): res=-res
    return res*int(jacobi_symbol(a%b if b>1 else 0,b)) if b>1 else res
for a in range(-40,41):
    for b in range(-40,41):
        r=s.q(op='kron',a=a,b=b)
        rec('kron','ok' in r and r['ok']==kron(a,b),(a,b,r,kron(a,b)))
# kron restricted to a>=0 or b<0
bad2=0
for a in range(-40,41):
    for b in range(-40,41):
        if a<0 and b>0: continue
        r=s.q(op='kron',a=a,b=b)
        if r.get('ok')!=kron(a,b): bad2+=1
print('kron failures outside (a<0,b>0):',bad2)
# primes
for n in list(range(0,300))+[1000,5000]:
    r=s.q(op='primes',n=n); rec('primes','ok' in r and r['ok']==list(primerange(0,n+1)),(n,r))
r=s.q(op='primes_iter',n=500); rec('primes_iter', r.get('ok')==list(primerange(0,3572))[:500], r)
for k,v in st.items(): print(k,v[0],v[1]); [print('   ',e) for e in v[2]]
