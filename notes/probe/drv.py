import json, subprocess, random, sys
from fractions import Fraction
class Svc:
    def __init__(self, path='/root/scratch/probe/target/debug/svc'):
        self.p = subprocess.Popen([path], stdin=subprocess.PIPE, stdout=subprocess.PIPE, text=True, bufsize=1)
    def q(self, **kw):
        def enc(x):
            if isinstance(x, bool): return x
            if isinstance(x, int): return str(x)
            if isinstance(x, Fraction): return [str(x.numerator), str(x.denominator)]
            if isinstance(x, (list, tuple)): return [enc(y) for y in x]
            return x
        raw = kw.get('op') in ('kron','primes','primes_iter')
        d = {k: (v if (raw or k in ('op','pu','e','n_small')) else enc(v)) for k, v in kw.items()}
        self.p.stdin.write(json.dumps(d) + '\n'); self.p.stdin.flush()
        r = json.loads(self.p.stdout.readline())
        return r
def I(x):
    if isinstance(x, str): return int(x)
    if isinstance(x, list): return [I(y) for y in x]
    return x
def F(x):  # rational matrices: [num,den]
    if isinstance(x, list) and len(x)==2 and isinstance(x[0], str): return Fraction(int(x[0]), int(x[1]))
    if isinstance(x, list): return [F(y) for y in x]
    return x
