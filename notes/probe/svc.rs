// JSON-lines probe service: {"op":..., args...} -> {"ok":...} | {"panic":msg}
use num::{BigInt, BigRational, Zero, One};
use rust_number_theory::polynomial::{self, Polynomial};
use rust_number_theory::{resultant, discriminant, poly_z, poly_mod, prime, inverse, perfect_power, ecm, ecm_parallel, factorize};
use rust_number_theory::algebraic::Algebraic;
use rust_number_theory::order::{self, Order};
use rust_number_theory::ideal::Ideal;
use number_theory_linear::hnf::{self, HNF};
use number_theory_linear::{subspace, matrix, triangular};
use serde_json::{json, Value};
use std::io::{BufRead, Write};
use std::panic::{catch_unwind, AssertUnwindSafe};

fn bi(v: &Value) -> BigInt { match v { Value::String(s) => s.parse().unwrap(), Value::Number(n) => BigInt::from(n.as_i64().unwrap()), _ => panic!("bad int {v}") } }
fn bis(v: &Value) -> Vec<BigInt> { v.as_array().unwrap().iter().map(bi).collect() }
fn mat(v: &Value) -> Vec<Vec<BigInt>> { v.as_array().unwrap().iter().map(bis).collect() }
fn rat(v: &Value) -> BigRational { match v { Value::Array(a) => BigRational::new(bi(&a[0]), bi(&a[1])), _ => BigRational::from_integer(bi(v)) } }
fn rats(v: &Value) -> Vec<BigRational> { v.as_array().unwrap().iter().map(rat).collect() }
fn rmat(v: &Value) -> Vec<Vec<BigRational>> { v.as_array().unwrap().iter().map(rats).collect() }
fn poly(v: &Value) -> Polynomial<BigInt> { Polynomial::from_raw(bis(v)) }
fn ji(x: &BigInt) -> Value { Value::String(x.to_string()) }
fn jis(x: &[BigInt]) -> Value { Value::Array(x.iter().map(ji).collect()) }
fn jmat(x: &[Vec<BigInt>]) -> Value { Value::Array(x.iter().map(|r| jis(r)).collect()) }
fn jr(x: &BigRational) -> Value { json!([x.numer().to_string(), x.denom().to_string()]) }
fn jrs(x: &[BigRational]) -> Value { Value::Array(x.iter().map(jr).collect()) }
fn jrmat(x: &[Vec<BigRational>]) -> Value { Value::Array(x.iter().map(|r| jrs(r)).collect()) }
fn jp(x: &Polynomial<BigInt>) -> Value { jis(&x.dat) }
fn rpoly(v:&Value)->Polynomial<BigRational>{ Polynomial::from_raw(rats(v)) }

fn handle(q: &Value) -> Value {
    let op = q["op"].as_str().unwrap();
    match op {
        "hnf" => { let (h,u,k) = hnf::hnf_with_u(&mat(&q["a"])); json!({"h": jmat(h.as_ref()), "u": jmat(&u), "k": k}) }
        "hnf_union" => { let a=HNF::new(&mat(&q["a"])); let b=HNF::new(&mat(&q["b"])); jmat(HNF::union(&a,&b).as_ref()) }
        "res" => ji(&resultant::resultant(&poly(&q["f"]), &poly(&q["g"]))),
        "resq" => jr(&resultant::resultant_rational(&rpoly(&q["f"]), &rpoly(&q["g"]))),
        "gcd" => jp(&resultant::resultant_gcd(&poly(&q["f"]), &poly(&q["g"]))),
        "disc" => ji(&discriminant::discriminant(&poly(&q["f"]))),
        "pmul" => jp(&(&poly(&q["f"]) * &poly(&q["g"]))),
        "padd" => jp(&(&poly(&q["f"]) + &poly(&q["g"]))),
        "psub" => jp(&(&poly(&q["f"]) - &poly(&q["g"]))),
        "pdiv" => { let (a,b)=polynomial::pseudo_div_rem_bigint(&poly(&q["f"]), &poly(&q["g"])); json!([jp(&a),jp(&b)]) }
        "pdivx" => match polynomial::div_exact(&poly(&q["f"]), &poly(&q["g"])) { Some(x)=>jp(&x), None=>Value::Null },
        "contpp" => { let (c,p)=poly(&q["f"]).cont_pp(); json!([ji(&c),jp(&p)]) }
        "facz" => { let (c,fs)=poly_z::factorize(&poly(&q["f"])); json!({"c":ji(&c),"fs":fs.iter().map(|(f,e)| json!([jp(f),e])).collect::<Vec<_>>()}) }
        "fmp" => { let fs=poly_mod::factorize_mod_p::<BigInt>(&poly(&q["f"]), &bi(&q["p"]), q["pu"].as_u64().unwrap() as usize); Value::Array(fs.iter().map(|(f,e)| json!([jp(f),e])).collect()) }
        "lift" => { let fs: Vec<Polynomial<BigInt>> = q["fs"].as_array().unwrap().iter().map(poly).collect();
            let r=poly_mod::lift_factorization::<BigInt>(&bi(&q["p"]), q["e"].as_u64().unwrap() as u32, &poly(&q["c"]), &fs); Value::Array(r.iter().map(jp).collect()) }
        "witness" => { let (u,v)=poly_mod::poly_coprime_witness::<BigInt>(&poly(&q["a"]), &poly(&q["b"]), &bi(&q["p"])); json!([jp(&u),jp(&v)]) }
        "roots" => jis(&poly_mod::find_linear_factors::<BigInt>(&poly(&q["f"]), bi(&q["p"]))),
        "isprime" => json!(prime::is_prime(&bi(&q["n"]))),
        "inv" => match inverse::inv(&bi(&q["a"]), &bi(&q["m"])) { Ok(x)=>json!({"ok":ji(&x)}), Err(g)=>json!({"err":ji(&g)}) },
        "pp" => { let (b,k)=perfect_power::perfect_power(&bi(&q["n"])); json!([ji(&b),k]) }
        "kron" => json!(number_theory_elementary::kronecker_symbol_i64(q["a"].as_i64().unwrap(), q["b"].as_i64().unwrap())),
        "primes" => json!(number_theory_elementary::primes(q["n"].as_u64().unwrap() as usize)),
        "primes_iter" => json!(number_theory_elementary::Primes::new().take(q["n"].as_u64().unwrap() as usize).collect::<Vec<_>>()),
        "ecm" => Value::Array(ecm::factorize(&bi(&q["n"])).iter().map(|(p,e)| json!([ji(p),e])).collect()),
        "ecmp" => Value::Array(ecm_parallel::factorize(&bi(&q["n"])).iter().map(|(p,e)| json!([ji(p),e])).collect()),
        "naive" => Value::Array(factorize::factorize(&bi(&q["n"])).iter().map(|(p,e)| json!([ji(p),e])).collect()),
        "det" => jr(&number_theory_linear::determinant(&rmat(&q["a"]))),
        "matinv" => match matrix::inv(&rmat(&q["a"])) { Ok(x)=>jrmat(&x), Err(_)=>Value::Null },
        "solve" => match number_theory_linear::solve_linear_system(&rmat(&q["a"]), &rats(&q["b"])) { Ok(x)=>jrs(&x), Err(_)=>Value::Null },
        "iim" => match subspace::iim(&rmat(&q["m"]), &rmat(&q["v"])) { Ok(x)=>json!({"ok":jrmat(&x)}), Err(e)=>json!({"err":format!("{:?}",e)}) },
        "supp" => match subspace::supplement_basis(&rmat(&q["m"])) { Ok(x)=>json!({"ok":jrmat(&x)}), Err(e)=>json!({"err":format!("{:?}",e)}) },
        "image" => jmat(&subspace::image_mod_p::<BigInt>(&mat(&q["m"]), &bi(&q["p"]))),
        "mulinv" => match triangular::mul_inv_from_right_exact(&mat(&q["a"]), &mat(&q["b"])) { Ok(x)=>jmat(&x), Err(_)=>Value::Null },
        "intbasis" => { let th=Algebraic::new(poly(&q["f"])); let o=rust_number_theory::integral_basis::find_integral_basis(&th);
            let idx=order::index(&o,&order::non_monic_initial_order(&th)); json!({"basis":jrmat(&o.basis()),"disc":ji(&o.discriminant(&th)),"index":ji(&idx)}) }
        "order" => { let o=Order::from_basis(&rmat(&q["b"])); jrmat(&o.basis()) }
        "order_union" => { let a=Order::from_basis(&rmat(&q["a"])); let b=Order::from_basis(&rmat(&q["b"])); jrmat(&order::union(&a,&b).basis()) }
        "order_index" => { let a=Order::from_basis(&rmat(&q["a"])); let b=Order::from_basis(&rmat(&q["b"])); ji(&order::index(&a,&b)) }
        "lll" => { let b: Vec<Vec<f64>> = q["b"].as_array().unwrap().iter().map(|r| r.as_array().unwrap().iter().map(|x| x.as_f64().unwrap()).collect()).collect();
            let (l,h)=number_theory_linear::lll(&b); json!({"l":l,"h":jmat(&h)}) }
        "short" => { let b: Vec<Vec<f64>> = q["q"].as_array().unwrap().iter().map(|r| r.as_array().unwrap().iter().map(|x| x.as_f64().unwrap()).collect()).collect();
            let c=number_theory_linear::cholesky::Cholesky::find(&b); let v=c.find_short_vectors(q["c"].as_f64().unwrap()); json!(v) }
        // ideal tests: field f, then generators lists; ops on ideals in maximal order
        "ideal" => {
            let th=Algebraic::new(poly(&q["f"])); let o=rust_number_theory::integral_basis::find_integral_basis(&th); let mt=o.get_mult_table(&th);
            let mk = |gens:&Value| -> Ideal { let gs=mat(gens); let mut it=Ideal::principal(&gs[0], &mt); for g in &gs[1..] { it = &it + &Ideal::principal(g,&mt); } it };
            let a=mk(&q["a"]); let b=mk(&q["b"]); let c=mk(&q["c"]);
            let ab=&a*&b; let ba=&b*&a; let abc1=&(&a*&b)*&c; let abc2=&a*&(&b*&c); let dist1=&a*&(&b+&c); let dist2=&(&a*&b)+&(&a*&c);
            let invd=mt.get_inv_diff(); let ai=a.inv(&invd); let prod=&a*ai.numer();
            let n=mt.deg(); let mut de=vec![BigInt::zero();n]; de[0]=ai.denom().clone(); let princ=Ideal::principal(&de,&mt);
            let g0=mat(&q["a"])[0].clone();
            json!({"comm":ab==ba,"assoc":abc1==abc2,"dist":dist1==dist2,"normmul":ab.norm()==a.norm()*b.norm(),
                   "inv_ok":prod==princ, "na":ji(&a.norm()), "capz":ji(&a.cap_z()), "contains_gen":a.contains(&g0),
                   "pnorm": ji(&Ideal::principal(&g0,&mt).norm()), "elnorm": ji(&mt.norm(&g0)),
                   "disc":ji(&o.discriminant(&th)), "invdiff": json!([ji(invd.denom()), ji(&invd.numer().norm())]), "deg":n,
                   "a_hnf": format!("{:?}", a), })
        }
        "decomp" => {
            let th=Algebraic::new(poly(&q["f"])); let o=rust_number_theory::integral_basis::find_integral_basis(&th); let mt=o.get_mult_table(&th);
            let p=bi(&q["p"]); let r=rust_number_theory::prime_decomp::decompose(&th,&o,&mt,&p);
            let n=mt.deg(); let mut pe=vec![BigInt::zero();n]; pe[0]=p.clone(); let pp=Ideal::principal(&pe,&mt);
            let mut one=vec![BigInt::zero();n]; one[0]=BigInt::one(); let mut prod=Ideal::principal(&one,&mt);
            for (id,e) in &r { for _ in 0..*e { prod=&prod*id; } }
            json!({"fs": r.iter().map(|(id,e)| json!([ji(&id.norm()),e,ji(&id.cap_z())])).collect::<Vec<_>>(), "prod_ok": prod==pp})
        }
        _ => json!({"unknown":op}),
    }
}
fn main() {
    std::panic::set_hook(Box::new(|_| {}));
    let stdin=std::io::stdin(); let out=std::io::stdout(); let mut out=out.lock();
    for line in stdin.lock().lines() { let line=line.unwrap(); if line.trim().is_empty(){continue;}
        let q: Value = serde_json::from_str(&line).unwrap();
        let r = catch_unwind(AssertUnwindSafe(|| handle(&q)));
        let v = match r { Ok(v)=>json!({"ok":v}), Err(e)=>{ let m = if let Some(s)=e.downcast_ref::<String>(){s.clone()} else if let Some(s)=e.downcast_ref::<&str>(){s.to_string()} else {"?".into()}; json!({"panic":m}) } };
        writeln!(out,"{}",v).unwrap(); out.flush().unwrap();
    }
}
