from drv import *
from sympy import Poly, symbols, ZZ, GF, isprime, nextprime, integer_nthroot, primerange, jacobi_symbol, factorint, gcd as sgcd
import math
x=symbols('x')
s=Svc(); random.seed(7)
st={}
def rec(k,ok,info):
    a=st.setdefault(k,[0,0,[]]); a[0]+=1
    if not ok:
        a[1]+=1
        if len(a[2])<4: a[2].append(info)
def P(c,dom=ZZ): return Poly(list(reversed(c)) if c else [0], x, domain=dom)
def C(p): 
    c=[int(a) for a in reversed(p.all_coeffs())]
    while c and c[-1]==0: c.pop()
    return c
# inverse
for it in range(3000):
    big=random.random()<0.2
    a=random.randint(-2000,2000) if not big else random.randint(-2**200,2**200); m=random.randint(1,2000) if not big else random.randint(1,2**200)
    r=s.q(op='inv',a=a,m=m); g=math.gcd(a,m)
    if 'panic' in r: rec('inv',False,(a,m,r)); continue
    o=r['ok']
    if g==1: rec('inv','ok' in o and 0<=int(o['ok'])<m and (a*int(o['ok'])-1)%m==0,(a,m,o))
    else: rec('inv','err' in o and int(o['err'])==g,(a,m,o,g))
# perfect power
def ppref(n):
    if n<=1: return (n,1)
    for k in range(n.bit_length(),1,-1):
        b,ex=integer_nthroot(n,k)
        if ex: return (int(b),k)
    return (n,1)
for n in list(range(0,3000))+[random.randint(2,50)**random.randint(2,40) for _ in range(300)]+[random.randint(2,50)**random.randint(2,40)+1 for _ in range(100)]:
    r=s.q(op='pp',n=n)
    rec('pp','ok' in r and (int(r['ok'][0]),r['ok'][1])==ppref(n),(n,r,ppref(n)))
# kronecker
def kron(a,b):
    if b==0: return 1 if abs(a)==1 else 0
    res=1
    if b<0:
        b=-b
        if a<0: res=-res
    v=0
    while b%2==0: b//=2; v+=1
    if v:
        if a%2==0: return 0
        if v%2==1 and a%8 in (3,5): res=-res
    return res*int(jacobi_symbol(a%b if b>1 else 0,b)) if b>1 else res
for a in range(-40,41):
    for b in range(-40,41):
        r=s.q(op='kron',a=a,b=b)
        rec('kron','ok' in r and r['ok']==kron(a,b),(a,b,r,kron(a,b)))
# kron restricted to a>=0 or b<0
bad2=0
for a in range(-40,41):
    for b in range(-40,41):
        if a<0 and b>0: continue
        r=s.q(op='kron',a=a,b=b)
        if r.get('ok')!=kron(a,b): bad2+=1
print('kron failures outside (a<0,b>0):',bad2)
# primes
for n in list(range(0,300))+[1000,5000]:
    r=s.q(op='primes',n=n); rec('primes','ok' in r and r['ok']==list(primerange(0,n+1)),(n,r))
r=s.q(op='primes_iter',n=500); rec('primes_iter', r.get('ok')==list(primerange(0,3572))[:500], r)
# is_prime
for n in list(range(-5,5000))+[561,1105,1729,2465,2821,6601,8911,2047,3215031751,341550071728321,3825123056546413051]+[nextprime(random.randint(2,2**200)) for _ in range(30)]:
    r=s.q(op='isprime',n=n); rec('isprime','ok' in r and r['ok']==bool(isprime(n)) if n>1 else r.get('ok')==False,(n,r))
# naive factorize
for n in list(range(1,2000)):
    r=s.q(op='naive',n=n); exp=sorted(factorint(n).items())
    rec('naive','ok' in r and [(int(p),e) for p,e in r['ok']]==exp,(n,r,exp))
# hensel lift
for it in range(400):
    p=random.choice([2,3,5,7,13,101,2**61-1]); e=random.randint(1,8)
    # build c squarefree mod p with lc not div by p
    for _ in range(50):
        c=[random.randint(-20,20) for _ in range(random.randint(2,7))]
        if c[-1]%p==0: continue
        pc=Poly(list(reversed(c)),x,modulus=p)
        if pc.degree()<1: continue
        lc,fl=pc.factor_list()
        if all(ee==1 for _,ee in fl): break
    else: continue
    fs=[[a%p for a in C(g)] for g,_ in fl]
    random.shuffle(fs)
    r=s.q(op='lift',p=p,e=e,c=c,fs=fs)
    if 'panic' in r: rec('lift',False,(p,e,c,fs,r)); continue
    gs=I(r['ok']); pe=p**e
    ok=len(gs)==len(fs)
    prod=Poly(1,x,domain=ZZ)
    for g,f in zip(gs,fs):
        ok=ok and len(g)==len(f) and g[-1]==1 and all(0<=a<pe for a in g) and [a%p for a in g]==f
        prod=prod*P(g)
    inv=pow(c[-1],-1,pe)
    ok=ok and [a%pe for a in C(prod)]==[(a*inv)%pe for a in c]
    if e==1: ok=ok and gs==fs
    rec('lift',ok,(p,e,c,fs,gs))
for k,v in st.items(): print(k,v[0],v[1]); [print('   ',e) for e in v[2]]
