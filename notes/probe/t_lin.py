from drv import *
import itertools
from sympy import Matrix, Rational, GF
s = Svc()
random.seed(1)
# image_mod_p
bad=0; tot=0; first=None
for _ in range(2000):
    p = random.choice([2,3,5,7,101]); n=random.randint(1,4); m=random.randint(1,4)
    M=[[random.randrange(p) for _ in range(m)] for _ in range(n)]
    if random.random()<0.5 and n>=2:
        M[-1]=[(sum(random.randrange(p)*0+M[0][j] for _ in [0])*2)%p for j in range(m)]
    r=s.q(op='image', m=M, p=p); tot+=1
    rk = Matrix(M).rank(iszerofunc=lambda x: x % p == 0) if False else None
    # compute rank mod p by own elimination
    def rank_mod(A,p):
        A=[row[:] for row in A]; r=0; rows=len(A); cols=len(A[0]) if A else 0
        for c in range(cols):
            piv=None
            for i in range(r,rows):
                if A[i][c]%p: piv=i;break
            if piv is None: continue
            A[r],A[piv]=A[piv],A[r]; inv=pow(A[r][c],-1,p)
            A[r]=[x*inv%p for x in A[r]]
            for i in range(rows):
                if i!=r and A[i][c]%p:
                    f=A[i][c]; A[i]=[(x-f*y)%p for x,y in zip(A[i],A[r])]
            r+=1
        return r
    if 'panic' in r: bad+=1; first=first or (M,p,r); continue
    out=I(r['ok']); rk=rank_mod(M,p)
    ok = len(out)==rk and (rank_mod(out,p)==rk if out else rk==0) and all(o in M for o in out)
    if not ok:
        bad+=1; first=first or (M,p,out)
print('image_mod_p bad',bad,'of',tot,'first',first)
# iim
bad=0; tot=0; first=None; kinds={}
for _ in range(3000):
    n=random.randint(1,3); m=random.randint(n,4); r_=random.randint(1,2)
    M=[[Fraction(random.randint(-3,3)) for _ in range(m)] for _ in range(n)]
    X=[[Fraction(random.randint(-3,3), random.randint(1,2)) for _ in range(n)] for _ in range(r_)]
    V=[[sum(X[i][k]*M[k][j] for k in range(n)) for j in range(m)] for i in range(r_)]
    inimg = True
    if random.random()<0.3:
        V[0][random.randrange(m)] += 1; inimg=None
    rk = Matrix([[Rational(x.numerator,x.denominator) for x in row] for row in M]).rank()
    res=s.q(op='iim', m=M, v=V); tot+=1
    if 'panic' in res: bad+=1; first=first or (M,V,res); continue
    o=res['ok']
    indep = rk==n
    if inimg is None:
        aug=Matrix([[Rational(x.numerator,x.denominator) for x in row] for row in M+V]); inimg = aug.rank()==rk
    if not indep: exp='LinearlyDependent'
    elif not inimg: exp='NotInImage'
    else: exp='ok'
    got = 'ok' if 'ok' in o else o['err']
    kinds[(exp,got)]=kinds.get((exp,got),0)+1
    if exp!=got: bad+=1; first=first or (M,V,o,exp)
    elif exp=='ok':
        Xg=F(o['ok'])
        if [[sum(Xg[i][k]*M[k][j] for k in range(n)) for j in range(m)] for i in range(r_)]!=V: bad+=1; first=first or (M,V,o,'wrongX')
print('iim bad',bad,'of',tot,kinds,'first',first)
# supplement
bad=0; tot=0; first=None
for _ in range(3000):
    n=random.randint(1,5); k=random.randint(1,n)
    M=[[Fraction(random.randint(-2,2)) for _ in range(n)] for _ in range(k)]
    if random.random()<0.3 and k>=2: M[-1]=[2*x for x in M[0]]
    rk = Matrix([[Rational(x.numerator,x.denominator) for x in row] for row in M]).rank()
    res=s.q(op='supp', m=M); tot+=1
    if 'panic' in res: bad+=1; first=first or (M,res); continue
    o=res['ok']
    if rk<k:
        if 'err' not in o: bad+=1; first=first or (M,o,'should err')
    else:
        if 'ok' not in o: bad+=1; first=first or (M,o,'should ok'); continue
        B=F(o['ok'])
        if B[:k]!=M or Matrix([[Rational(x.numerator,x.denominator) for x in row] for row in B]).det()==0: bad+=1; first=first or (M,B)
print('supp bad',bad,'of',tot,'first',first)
# det / inv / solve
bad=0; tot=0; first=None
for _ in range(1500):
    n=random.randint(1,5)
    A=[[Fraction(random.randint(-4,4), random.randint(1,3)) for _ in range(n)] for _ in range(n)]
    if random.random()<0.3 and n>=2: A[-1]=[x*3 for x in A[0]]
    SA=Matrix([[Rational(x.numerator,x.denominator) for x in row] for row in A]); d=SA.det()
    r=s.q(op='det', a=A); tot+=1
    if 'panic' in r or F(r['ok'])!=Fraction(int(d.p),int(d.q)): bad+=1; first=first or ('det',A,r)
    r=s.q(op='matinv', a=A)
    if 'panic' in r: bad+=1; first=first or ('inv',A,r)
    elif d==0:
        if r['ok'] is not None: bad+=1; first=first or ('inv sing',A,r)
    else:
        B=F(r['ok']); 
        if [[sum(B[i][k]*A[k][j] for k in range(n)) for j in range(n)] for i in range(n)]!=[[Fraction(int(i==j)) for j in range(n)] for i in range(n)]: bad+=1; first=first or ('inv wrong',A,B)
    b=[Fraction(random.randint(-4,4)) for _ in range(n)]
    r=s.q(op='solve', a=A, b=b)
    if 'panic' in r: bad+=1; first=first or ('solve',A,r)
    elif d==0:
        if r['ok'] is not None: bad+=1; first=first or ('solve sing',A,b,r)
    else:
        x=F(r['ok'])
        if [sum(x[k]*A[k][j] for k in range(n)) for j in range(n)]!=b: bad+=1; first=first or ('solve wrong',A,b,x)
print('det/inv/solve bad',bad,'of',tot,'first',first)
