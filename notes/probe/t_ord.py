from drv import *
from sympy import Matrix, Rational, ilcm
s=Svc(); random.seed(11)
st={}
def rec(k,ok,info):
    a=st.setdefault(k,[0,0,[]]); a[0]+=1
    if not ok:
        a[1]+=1
        if len(a[2])<4: a[2].append(info)
def SM(A): return Matrix([[Rational(x.numerator,x.denominator) for x in r] for r in A])
def mm(A,B): return [[sum(A[i][k]*B[k][j] for k in range(len(B))) for j in range(len(B[0]))] for i in range(len(A))]
def unimod(n):
    T=[[Fraction(int(i==j)) for j in range(n)] for i in range(n)]
    for _ in range(8):
        i,j=random.randrange(n),random.randrange(n)
        if i!=j: c=random.randint(-3,3); T[i]=[a+c*b for a,b in zip(T[i],T[j])]
        else: T[i]=[-a for a in T[i]]
    random.shuffle(T); return T
for it in range(600):
    n=random.randint(1,5)
    while True:
        A=[[Fraction(random.randint(-4,4), random.choice([1,1,2,3,6])) for _ in range(n)] for _ in range(n)]
        if SM(A).det()!=0: break
    rA=s.q(op='order',b=A)
    if 'panic' in rA: rec('order',False,(A,rA)); continue
    HA=F(rA['ok'])
    # canonical under unimodular change
    A2=mm(unimod(n),A); r2=s.q(op='order',b=A2)
    rec('order_canon', 'ok' in r2 and F(r2['ok'])==HA, (A,A2,r2))
    # sublattice B = S*A, S integer nonsingular; C = S2*B
    while True:
        S=[[Fraction(random.randint(-3,3)) for _ in range(n)] for _ in range(n)]
        if SM(S).det()!=0: break
    while True:
        S2=[[Fraction(random.randint(-2,2)) for _ in range(n)] for _ in range(n)]
        if SM(S2).det()!=0: break
    B=mm(S,A); Cc=mm(S2,B)
    iab=s.q(op='order_index',a=A,b=B); ibc=s.q(op='order_index',a=B,b=Cc); iac=s.q(op='order_index',a=A,b=Cc)
    dS=abs(int(SM(S).det())); dS2=abs(int(SM(S2).det()))
    rec('index', all('ok' in r for r in (iab,ibc,iac)) and int(iab['ok'])==dS and int(ibc['ok'])==dS2 and int(iac['ok'])==dS*dS2, (A,S,S2,iab,ibc,iac))
    # union
    while True:
        D=[[Fraction(random.randint(-4,4), random.choice([1,2,3])) for _ in range(n)] for _ in range(n)]
        if SM(D).det()!=0: break
    u1=s.q(op='order_union',a=A,b=D); u2=s.q(op='order_union',a=D,b=A); u3=s.q(op='order_union',a=A,b=B); u4=s.q(op='order_union',a=A,b=A)
    ok = all('ok' in r for r in (u1,u2,u3,u4)) and u1['ok']==u2['ok'] and F(u3['ok'])==HA and F(u4['ok'])==HA
    if ok:
        U=F(u1['ok'])
        # U contains A and D with integer index, and minimal: U == order(A stacked D)?  check index integrality
        ia=s.q(op='order_index',a=U,b=A); idd=s.q(op='order_index',a=U,b=D)
        ok = 'ok' in ia and 'ok' in idd
        # containment check: A * U^{-1} integer
        Ui=SM(U).inv()
        ok = ok and all(x.q==1 for x in (SM(A)*Ui)) and all(x.q==1 for x in (SM(D)*Ui))
        # minimality: det U = gcd-lattice: compare with HNF of stacked via common denominators
        L=1
        for r in A+D:
            for x in r: L=ilcm(L,x.denominator)
        st_=[[int(x*L) for x in r] for r in A+D]
        h=s.q(op='hnf',a=st_)['ok']['h']
        ok = ok and [[Fraction(int(x),int(L)) for x in r] for r in h]==U
    rec('union', ok, (A,D,u1,u2))
for k,v in st.items(): print(k,v[0],v[1]); [print('   ',e) for e in v[2]]
