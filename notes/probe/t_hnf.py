from drv import *
from sympy import Matrix, ZZ
from sympy.matrices.normalforms import hermite_normal_form
s=Svc(); random.seed(2)
def matmul(A,B): return [[sum(A[i][k]*B[k][j] for k in range(len(B))) for j in range(len(B[0]))] for i in range(len(A))]
def check_shape(H):
    # each row's last nonzero entry positive pivot; pivot cols strictly increase; below pivot in [0,pivot)
    piv=[]
    for r in H:
        nz=[j for j,x in enumerate(r) if x!=0]
        if not nz: return 'zero row'
        piv.append(nz[-1])
        if r[nz[-1]]<=0: return 'neg pivot'
    if any(piv[i]>=piv[i+1] for i in range(len(piv)-1)): return 'pivots not increasing'
    for i,c in enumerate(piv):
        for i2 in range(i+1,len(H)):
            if not (0<=H[i2][c]<H[i][c]): return 'not reduced'
    return None
bad=0; tot=0; first=None
for it in range(4000):
    n=random.randint(1,5); m=random.randint(1,5)
    big = random.random()<0.2
    rng = 10**18 if big else random.choice([1,2,5,30])
    A=[[random.randint(-rng,rng) for _ in range(m)] for _ in range(n)]
    mode=random.random()
    if mode<0.3 and n>=2:
        cs0=[random.randint(-2,2) for _ in range(n)]
        A[-1]=[sum(cs0[i]*A[i][j] for i in range(n-1)) for j in range(m)]
    if mode>0.8:
        j=random.randrange(m)
        for i in range(n): A[i][j]=0
    r=s.q(op='hnf', a=A); tot+=1
    if 'panic' in r: bad+=1; first=first or (A,r); continue
    o=r['ok']; H=I(o['h']); U=I(o['u']); k=o['k']
    rk=Matrix(A).rank()
    err=check_shape(H)
    if err is None and len(H)!=rk: err='rank %d vs %d'%(len(H),rk)
    if err is None and k!=n-rk: err='k'
    if err is None:
        UA=matmul(U,A)
        if UA!=[[0]*m]*k+H: err='UA != [0;H]'
    if err is None and abs(Matrix(U).det())!=1: err='det U'
    # canonicity: random unimodular transform + appended dependent row
    if err is None:
        T=[[int(i==j) for j in range(n)] for i in range(n)]
        for _ in range(6):
            i,j=random.randrange(n),random.randrange(n)
            if i!=j:
                c=random.randint(-3,3); T[i]=[a+c*b for a,b in zip(T[i],T[j])]
            else: T[i]=[-a for a in T[i]]
        random.shuffle(T)
        cs=[random.randint(-2,2) for _ in range(n)]
        A2=matmul(T,A)+[[sum(cs[i]*A[i][j] for i in range(n)) for j in range(m)]]+[[0]*m]
        r2=s.q(op='hnf', a=A2)
        if 'panic' in r2 or I(r2['ok']['h'])!=H: err='not canonical '+str(r2)
    if err: bad+=1; first=first or (A,err,o)
print('hnf bad',bad,'of',tot,'first',first)
# union with empty
print(s.q(op='hnf_union', a=[[0,0]], b=[[1,2]]))
print(s.q(op='hnf', a=[[0,0],[0,0]]))
