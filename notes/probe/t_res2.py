from drv import *
from sympy import Matrix
s=Svc(); random.seed(4)
def syl(f,g):
    n=len(f)-1; m=len(g)-1
    if n+m==0: return 1
    rows=[]
    fr=list(reversed(f)); gr=list(reversed(g))
    for i in range(m): rows.append([0]*i+fr+[0]*(m-1-i))
    for i in range(n): rows.append([0]*i+gr+[0]*(n-1-i))
    return int(Matrix(rows).det())
def rp(maxdeg, rng):
    d=random.randint(0,maxdeg)
    c=[random.randint(-rng,rng) for _ in range(d+1)]
    if random.random()<0.3:
        for i in range(len(c)):
            if random.random()<0.5: c[i]=0
    while c and c[-1]==0: c.pop()
    return c
st={'res':[0,0,[]],'resq':[0,0,[]]}
for it in range(4000):
    rng=random.choice([1,2,5,10**6])
    f=rp(6,rng); g=rp(6,rng)
    if not f or not g: continue
    exp=syl(f,g)
    for op in ('res','resq'):
        r=s.q(op=op,f=f,g=g); st[op][0]+=1
        got = None if 'panic' in r else (int(r['ok']) if op=='res' else F(r['ok']))
        if got!=exp:
            st[op][1]+=1
            if len(st[op][2])<6: st[op][2].append((f,g,r,exp))
for k,v in st.items(): print(k,v[0],v[1]); [print('   ',e) for e in v[2]]
