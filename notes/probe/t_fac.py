from drv import *
from sympy import Poly, symbols, ZZ, GF, factor_list, isprime, nextprime
x=symbols('x')
s=Svc(); random.seed(6)
def P(c,dom=ZZ): return Poly(list(reversed(c)) if c else [0], x, domain=dom)
def C(p): 
    c=[int(a) for a in reversed(p.all_coeffs())]
    while c and c[-1]==0: c.pop()
    return c
st={}
def rec(k,ok,info):
    a=st.setdefault(k,[0,0,[]]); a[0]+=1
    if not ok:
        a[1]+=1
        if len(a[2])<4: a[2].append(info)
def rpoly(d,rng):
    c=[random.randint(-rng,rng) for _ in range(d+1)]
    if c[-1]==0: c[-1]=1
    return c
# C07 factor over Z
for it in range(400):
    k=random.randint(1,4); f=Poly(random.choice([1,-1,2,-3,6]),x,domain=ZZ)
    for _ in range(k):
        g=P(rpoly(random.randint(1,3), random.choice([1,2,5])))
        f=f*g**random.randint(1,3)
    if f.degree()>14: continue
    c=C(f)
    r=s.q(op='facz', f=c)
    cont,fl=f.factor_list()
    exp=sorted((tuple(C(g)),e) for g,e in fl)
    if 'panic' in r: rec('facz',False,(c,r['panic'][:60],exp)); continue
    got=sorted((tuple(I(g)),e) for g,e in r['ok']['fs'])
    rec('facz', got==exp and int(r['ok']['c'])==int(cont), (c,r['ok'],cont,exp))
# C08 factor mod p
for it in range(1500):
    p=random.choice([2,3,5,7,11,13,101,65537,2**61-1, nextprime(2**64)])
    d=random.randint(0,8 if p<100 else 6)
    mode=random.random()
    if mode<0.5:
        f=P([1],GF(p))
        for _ in range(random.randint(1,4)):
            g=P([random.randrange(p) for _ in range(random.randint(1,3))]+[1],GF(p)); f=f*g**random.choice([1,1,2,3,p if p<6 else 1])
        f=f*random.randrange(1,p)
        if f.degree()>20: continue
    else:
        f=P([random.randrange(p) for _ in range(d+1)],GF(p))
    c=[a%p for a in C(f)]
    while c and c[-1]==0: c.pop()
    if not c: continue
    # add multiples of p, negative
    cc=[a+p*random.randint(-2,2) for a in c]
    if random.random()<0.3: cc=cc+[p*random.randint(1,3)]
    pu = p if p<2**63 else random.choice([0,0,7])
    r=s.q(op='fmp', f=cc, p=p, pu=pu)
    lc,fl=Poly(list(reversed(c)),x,modulus=p).factor_list()
    exp=sorted((tuple(a%p for a in C(g)),e) for g,e in fl)
    if 'panic' in r: rec('fmp',False,(cc,p,pu,r['panic'][:60])); continue
    got=sorted((tuple(I(g)),e) for g,e in r['ok'])
    rec('fmp', got==exp, (cc,p,got,exp))
# C12 roots
for it in range(1500):
    p=random.choice([2,3,5,7,11,13,101,65537,2**61-1])
    f=P([random.randrange(1,p)],GF(p)); roots=[]
    for _ in range(random.randint(0,5)):
        a=random.randrange(p); m=random.choice([1,1,2,3]); roots+= [a]*m; f=f*P([(-a)%p,1],GF(p))**m
    if random.random()<0.6:
        for _ in range(20):
            g=P([random.randrange(p) for _ in range(random.randint(2,3))]+[1],GF(p))
            if Poly(list(reversed([a%p for a in C(g)])),x,modulus=p).is_irreducible: f=f*g; break
    c=[a%p for a in C(f)]
    cc=[a+p*random.randint(-2,2) for a in c]
    r=s.q(op='roots', f=cc, p=p)
    if 'panic' in r: rec('roots',False,(cc,p,r['panic'][:80])); continue
    rec('roots', sorted(I(r['ok']))==sorted(roots), (cc,p,sorted(I(r['ok'])),sorted(roots)))
for k,v in st.items(): print(k,v[0],v[1]); [print('   ',e) for e in v[2]]
