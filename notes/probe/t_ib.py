from drv import *
from sympy import Poly, symbols, ZZ, QQ
from sympy.polys.numberfields.basis import round_two
x=symbols('x')
s=Svc(); random.seed(8)
st={}
def rec(k,ok,info):
    a=st.setdefault(k,[0,0,[]]); a[0]+=1
    if not ok:
        a[1]+=1
        if len(a[2])<5: a[2].append(info)
import time
t0=time.time()
for it in range(400):
    d=random.randint(1,5); rng=random.choice([1,2,4,9])
    c=[random.randint(-rng,rng) for _ in range(d)]+[random.choice([1,1,1,-1,2,3,-2,4,6])]
    f=Poly(list(reversed(c)),x,domain=ZZ)
    if not f.is_irreducible: continue
    an=c[-1]
    # monic model: an^(d-1) f(x/an)
    g=Poly([ (c[d-i]*an**(i-1) if i>0 else 1) for i in range(d+1)],x,domain=ZZ) if d>=1 else f
    try:
        ZK,dK=round_two(g)
    except Exception as e:
        print('sympy fail',c,e); continue
    r=s.q(op='intbasis',f=c)
    if 'panic' in r: rec('intbasis',False,(c,r['panic'][:100],int(dK))); continue
    rec('intbasis', int(r['ok']['disc'])==int(dK), (c,r['ok']['disc'],r['ok']['index'],int(dK)))
    if time.time()-t0>600: break
for k,v in st.items(): print(k,v[0],v[1]); [print('   ',e) for e in v[2]]
