(** * HnfUnique: a lattice has at most one Hermite normal form
      ([is_hnf H -> is_hnf H' -> same row span -> H = H']), by induction on the number of rows
      from the last row (largest pivot), the classical argument. *)
From Coq Require Import ZArith List Lia Bool.
From RNT.Refine Require Import MatZ HnfSpec.
Import ListNotations.
Open Scope Z_scope.

(** ** more on linear combinations *)
Lemma nth_lincomb_app m c1 c2 A1 A2 col :
  wf m A1 -> wf m A2 -> length c1 = length A1 ->
  nth col (lincomb m (c1 ++ c2) (A1 ++ A2)) 0 =
  nth col (lincomb m c1 A1) 0 + nth col (lincomb m c2 A2) 0.
Proof.
  intros H1 H2. revert A1 H1. induction c1 as [|x c1 IH]; intros [|r A1] H1 Hl; simpl in Hl; try discriminate.
  - simpl app. simpl (lincomb m [] []). rewrite nth_vzero. lia.
  - apply wf_cons in H1. destruct H1 as [Hr H1].
    change ((x :: c1) ++ c2) with (x :: (c1 ++ c2)). change ((r :: A1) ++ A2) with (r :: (A1 ++ A2)).
    rewrite !nth_lincomb_cons; auto; [|apply wf_app; auto].
    rewrite IH; auto. lia.
Qed.

Lemma nth_lincomb_single m x h col :
  length h = m -> nth col (lincomb m [x] [h]) 0 = x * nth col h 0.
Proof.
  intros Hh. rewrite nth_lincomb_cons; auto; [|constructor]. simpl. rewrite nth_vzero. lia.
Qed.

Lemma row_in_span m H t : wf m H -> (t < length H)%nat -> In_rowspanZ m (row H t) H.
Proof.
  intros Hw Ht. exists (unit_from 0 (length H) t). split; [apply unit_from_length|].
  rewrite lincomb_unit; auto; try lia. rewrite Nat.sub_0_r. reflexivity.
Qed.

Lemma snoc_split (c : list Z) k : length c = S k -> exists c0 x, c = c0 ++ [x] /\ length c0 = k.
Proof.
  intros Hl. destruct (exists_last (l := c)) as [c0 [x ->]].
  - intro; subst; discriminate.
  - exists c0, x. split; auto. rewrite app_length in Hl. simpl in Hl. lia.
Qed.

(** ** the echelon lemma: the last non-zero coefficient decides the last non-zero entry *)
Lemma echelon m lo H :
  hnf_rows m lo H -> forall c, length c = length H ->
  match last_nz c with
  | None => lincomb m c H = vzero m
  | Some t => exists p, last_nz (row H t) = Some p /\ (lo <= p)%nat /\
              nth p (lincomb m c H) 0 = nth t c 0 * nth p (row H t) 0 /\
              0 < nth p (row H t) 0 /\
              forall col, (p < col)%nat -> nth col (lincomb m c H) 0 = 0
  end.
Proof.
  induction 1 as [|lo p r H Hp Hl Hpos Hz Hbelow HH IH]; intros c Hc.
  - destruct c; [reflexivity|discriminate].
  - destruct c as [|c0 c]; [discriminate|]. simpl in Hc.
    assert (Hw : wf m H) by (apply hnf_rows_wf with (S p); auto).
    specialize (IH c ltac:(lia)). simpl last_nz.
    destruct (last_nz c) as [t'|] eqn:E.
    + destruct IH as (p' & Hp' & Hlo' & Hent & Hpos' & Hz').
      exists p'. change (row (r :: H) (S t')) with (row H t').
      split; auto. split; [lia|]. split; [|split; auto].
      * rewrite nth_lincomb_cons; auto. rewrite Hz by lia. rewrite Hent. simpl. lia.
      * intros col Hcol. rewrite nth_lincomb_cons; auto. rewrite Hz by lia. rewrite Hz' by lia. lia.
    + destruct (Z.eqb_spec c0 0) as [->|Hc0].
      * apply vzero_all. { apply lincomb_length. apply wf_cons; auto. }
        intros i _. rewrite nth_lincomb_cons; auto. rewrite IH, nth_vzero. lia.
      * exists p. change (row (r :: H) 0) with r.
        split; [apply last_nz_intro; auto; lia|]. split; [lia|]. split; [|split; auto].
        -- rewrite nth_lincomb_cons; auto. rewrite IH, nth_vzero. simpl. lia.
        -- intros col Hcol. rewrite nth_lincomb_cons; auto. rewrite IH, nth_vzero, Hz by lia. lia.
Qed.

Lemma last_nz_lt (c : list Z) t : last_nz c = Some t -> (t < length c)%nat.
Proof. intros H. apply last_nz_Some in H. tauto. Qed.

(** rows of a normal form are linearly independent *)
Lemma echelon_indep m lo H c :
  hnf_rows m lo H -> length c = length H -> lincomb m c H = vzero m -> last_nz c = None.
Proof.
  intros HH Hc Hz. pose proof (echelon m lo H HH c Hc) as E.
  destruct (last_nz c) as [t|] eqn:Et; auto.
  destruct E as (p & _ & _ & Hent & Hpos & _).
  rewrite Hz, nth_vzero in Hent.
  destruct (last_nz_Some c t Et) as (_ & Hnz & _). nia.
Qed.

Lemma lincomb_zero_above m lo H c P :
  hnf_rows m lo H -> length c = length H ->
  (forall t q, (t < length H)%nat -> last_nz (row H t) = Some q -> (q < P)%nat) ->
  forall col, (P <= col)%nat -> nth col (lincomb m c H) 0 = 0.
Proof.
  intros HH Hc HP col Hcol. pose proof (echelon m lo H HH c Hc) as E.
  destruct (last_nz c) as [t|] eqn:Et.
  - destruct E as (p & Hp & _ & _ & _ & Hz). apply Hz.
    assert (p < P)%nat. { apply (HP t p); auto. rewrite <- Hc. apply last_nz_lt; auto. }
    lia.
  - rewrite E. apply nth_vzero.
Qed.

(** ** the last row of a normal form *)
Lemma hnf_rows_snoc_inv m H0 h : forall lo,
  hnf_rows m lo (H0 ++ [h]) ->
  hnf_rows m lo H0 /\ length h = m /\
  exists p, last_nz h = Some p /\ (lo <= p)%nat /\ 0 < nth p h 0 /\
    forall t, (t < length H0)%nat ->
      exists q, last_nz (row H0 t) = Some q /\ (q < p)%nat /\ 0 <= nth q h 0 < nth q (row H0 t) 0.
Proof.
  induction H0 as [|g H0 IH]; intros lo HH.
  - simpl in HH. inversion HH as [|lo' p r H' Hp Hl Hpos Hz Hbelow HH']; subst.
    split; [constructor|]. split; auto. exists p.
    split; [apply last_nz_intro; auto; lia|]. split; [lia|]. split; auto.
    intros t Ht. simpl in Ht. lia.
  - simpl in HH. inversion HH as [|lo' q g' H' Hq Hlg Hposg Hzg Hbelow HH']; subst.
    destruct (IH (S q) HH') as (HH0 & Hlh & p & Hp & Hlop & Hposh & Hrel). split.
    + apply hr_cons with q; auto. intros r' Hr'. apply Hbelow. apply in_or_app; auto.
    + split; auto. exists p. split; auto. split; [lia|]. split; auto.
      intros [|t] Ht.
      * exists q. change (row (g :: H0) 0) with g.
        split; [apply last_nz_intro; auto; lia|]. split; [lia|].
        apply Hbelow. apply in_or_app; right; left; auto.
      * simpl in Ht. destruct (Hrel t ltac:(lia)) as (q' & Hq' & Hlt & Hb).
        exists q'. change (row (g :: H0) (S t)) with (row H0 t). auto.
Qed.

Lemma row_app_l (H0 : mat) h t : (t < length H0)%nat -> row (H0 ++ [h]) t = row H0 t.
Proof. intros. unfold row. apply app_nth1; auto. Qed.
Lemma row_app_last (H0 : mat) h : row (H0 ++ [h]) (length H0) = h.
Proof. unfold row. rewrite app_nth2, Nat.sub_diag; auto. Qed.

(** comparing the last rows of two normal forms when one lies in the span of the other *)
Lemma last_row_cmp m H0 h h' p p' :
  hnf_rows m 0 (H0 ++ [h]) -> In_rowspanZ m h' (H0 ++ [h]) ->
  last_nz h = Some p -> last_nz h' = Some p' -> 0 < nth p' h' 0 ->
  (p' <= p)%nat /\
  (p' = p -> exists c0 x, length c0 = length H0 /\ 0 < x /\ nth p h' 0 = x * nth p h 0 /\
       forall col, nth col h' 0 = nth col (lincomb m c0 H0) 0 + x * nth col h 0).
Proof.
  intros HH [c [Hc Eh]] Hp Hp' Hpos'.
  destruct (hnf_rows_snoc_inv m H0 h 0 HH) as (HH0 & Hlh & p0 & Hp0 & _ & Hposh & Hrel).
  rewrite Hp in Hp0. inversion Hp0; subst p0; clear Hp0.
  pose proof (echelon m 0 _ HH c Hc) as E.
  destruct (last_nz_Some h' p' Hp') as (_ & Hnz' & _).
  destruct (last_nz c) as [t|] eqn:Et.
  - destruct E as (pt & Hpt & _ & Hent & Hpivpos & Hzb).
    destruct (last_nz_Some c t Et) as (Htl & Hct & _).
    rewrite <- Eh in Hent, Hzb.
    assert (Hl' : last_nz h' = Some pt). { apply last_nz_intro; auto. nia. }
    rewrite Hp' in Hl'. inversion Hl'; subst pt; clear Hl'.
    rewrite Hc, app_length in Htl. simpl in Htl.
    destruct (Nat.eq_dec t (length H0)) as [->|Hne].
    + rewrite row_app_last in Hpt, Hent, Hpivpos. rewrite Hp in Hpt. inversion Hpt; subst p'.
      split; [lia|]. intros _.
      rewrite app_length in Hc. simpl in Hc.
      destruct (snoc_split c (length H0) ltac:(lia)) as (c0 & x & -> & Hc0).
      assert (Hx : nth (length H0) (c0 ++ [x]) 0 = x).
      { rewrite app_nth2 by lia. rewrite Hc0, Nat.sub_diag. reflexivity. }
      rewrite Hx in Hent.
      exists c0, x. split; auto. split; [nia|]. split; auto.
      intros col. rewrite Eh. rewrite nth_lincomb_app; auto.
      * rewrite nth_lincomb_single; auto.
      * apply hnf_rows_wf with 0%nat; auto.
      * constructor; auto.
    + rewrite row_app_l in Hpt by lia.
      destruct (Hrel t ltac:(lia)) as (q & Hq & Hqp & _). rewrite Hq in Hpt. inversion Hpt; subst q.
      split; [lia|]. intros; lia.
  - exfalso. apply Hnz'. rewrite Eh, E. apply nth_vzero.
Qed.

(** the span of all rows but the last is the part of the lattice vanishing at the last pivot column *)
Lemma span_init_sub m H0 h H0' h' p :
  hnf_rows m 0 (H0 ++ [h]) -> hnf_rows m 0 (H0' ++ [h']) ->
  last_nz h = Some p -> last_nz h' = Some p ->
  (forall v, In_rowspanZ m v (H0 ++ [h]) -> In_rowspanZ m v (H0' ++ [h'])) ->
  forall v, In_rowspanZ m v H0 -> In_rowspanZ m v H0'.
Proof.
  intros HH HH' Hp Hp' Hsub v [c0 [Hc0 Ev]].
  destruct (hnf_rows_snoc_inv m H0 h 0 HH) as (HH0 & Hlh & p0 & Hp0 & _ & Hposh & Hrel).
  rewrite Hp in Hp0. inversion Hp0; subst p0; clear Hp0.
  destruct (hnf_rows_snoc_inv m H0' h' 0 HH') as (HH0' & Hlh' & p0 & Hp0 & _ & Hposh' & Hrel').
  rewrite Hp' in Hp0. inversion Hp0; subst p0; clear Hp0.
  assert (Hw0 : wf m H0) by (apply hnf_rows_wf with 0%nat; auto).
  assert (Hw0' : wf m H0') by (apply hnf_rows_wf with 0%nat; auto).
  assert (Hlv : length v = m) by (rewrite Ev; apply lincomb_length; auto).
  assert (Hin : In_rowspanZ m v (H0 ++ [h])).
  { exists (c0 ++ [0]). split; [rewrite !app_length; simpl; lia|].
    apply vec_ext with m; auto.
    - apply lincomb_length. apply wf_app. split; auto. constructor; auto.
    - intros col _. rewrite nth_lincomb_app; auto; [|constructor; auto].
      rewrite nth_lincomb_single; auto. rewrite Ev. lia. }
  destruct (Hsub v Hin) as [c' [Hc' Ev']].
  rewrite app_length in Hc'. simpl in Hc'.
  destruct (snoc_split c' (length H0') ltac:(lia)) as (c0' & x & -> & Hc0').
  assert (Hent : forall col, nth col v 0 = nth col (lincomb m c0' H0') 0 + x * nth col h' 0).
  { intros col. rewrite Ev' at 1. rewrite nth_lincomb_app; auto; [|constructor; auto].
    rewrite nth_lincomb_single; auto. }
  assert (Hzv : nth p v 0 = 0).
  { rewrite Ev. apply (lincomb_zero_above m 0 H0 c0 p); auto.
    intros t q Ht Hq. destruct (Hrel t Ht) as (q' & Hq' & Hlt & _). congruence. }
  assert (Hz' : nth p (lincomb m c0' H0') 0 = 0).
  { apply (lincomb_zero_above m 0 H0' c0' p); auto.
    intros t q Ht Hq. destruct (Hrel' t Ht) as (q' & Hq' & Hlt & _). congruence. }
  assert (Hx : x = 0). { specialize (Hent p). rewrite Hzv, Hz' in Hent. nia. }
  subst x. exists c0'. split; auto.
  apply vec_ext with m; auto. { apply lincomb_length; auto. }
  intros col _. rewrite Hent. lia.
Qed.

(** ** uniqueness *)
Lemma hnf_nonempty_not_in_nil m H0 h :
  hnf_rows m 0 (H0 ++ [h]) -> ~ (forall v, In_rowspanZ m v (H0 ++ [h]) -> In_rowspanZ m v []).
Proof.
  intros HH Hsub.
  destruct (hnf_rows_snoc_inv m H0 h 0 HH) as (_ & _ & p & Hp & _ & Hpos & _).
  assert (Hin : In_rowspanZ m h (H0 ++ [h])).
  { rewrite <- (row_app_last H0 h) at 1. apply row_in_span.
    - apply hnf_rows_wf with 0%nat; auto.
    - rewrite app_length; simpl; lia. }
  destruct (Hsub h Hin) as [c [_ Eh]]. rewrite lincomb_nil_r in Eh.
  rewrite Eh, nth_vzero in Hpos. lia.
Qed.

Theorem hnf_rows_unique m : forall r H H',
  length H = r -> hnf_rows m 0 H -> hnf_rows m 0 H' -> same_rowspanZ m H H' -> H = H'.
Proof.
  induction r as [|r IH]; intros H H' Hlen HH HH' Hspan.
  - destruct H; [|discriminate]. destruct H' as [|g H'] using rev_ind; auto.
    exfalso. apply (hnf_nonempty_not_in_nil m H' g HH'). intros v Hv. apply Hspan; auto.
  - destruct H as [|g0 H0] using rev_ind; [discriminate|]. clear IHH0.
    rename g0 into h.
    destruct H' as [|h' H0'] using rev_ind.
    { exfalso. apply (hnf_nonempty_not_in_nil m H0 h HH). intros v Hv. apply Hspan; auto. }
    clear IHH0'.
    rewrite app_length in Hlen. simpl in Hlen.
    destruct (hnf_rows_snoc_inv m H0 h 0 HH) as (HH0 & Hlh & p & Hp & _ & Hposh & Hrel).
    destruct (hnf_rows_snoc_inv m H0' h' 0 HH') as (HH0' & Hlh' & p' & Hp' & _ & Hposh' & Hrel').
    assert (Hw : wf m (H0 ++ [h])) by (apply hnf_rows_wf with 0%nat; auto).
    assert (Hw' : wf m (H0' ++ [h'])) by (apply hnf_rows_wf with 0%nat; auto).
    assert (Hin' : In_rowspanZ m h' (H0 ++ [h])).
    { apply Hspan. rewrite <- (row_app_last H0' h') at 1. apply row_in_span; auto.
      rewrite app_length; simpl; lia. }
    assert (Hin : In_rowspanZ m h (H0' ++ [h'])).
    { apply Hspan. rewrite <- (row_app_last H0 h) at 1. apply row_in_span; auto.
      rewrite app_length; simpl; lia. }
    destruct (last_row_cmp m H0 h h' p p' HH Hin' Hp Hp' Hposh') as [Hle1 Hc1].
    destruct (last_row_cmp m H0' h' h p' p HH' Hin Hp' Hp Hposh) as [Hle2 Hc2].
    assert (p' = p) by lia. subst p'.
    destruct (Hc1 eq_refl) as (c0 & x & Hc0 & Hx & Hpx & Hcols).
    destruct (Hc2 eq_refl) as (c0' & x' & _ & Hx' & Hpx' & _).
    assert (x = 1) by nia. subst x.
    assert (E0 : H0 = H0').
    { apply (IH H0 H0'); auto; [lia|]. intros v. split.
      - apply (span_init_sub m H0 h H0' h' p); auto. intros w Hw0. apply Hspan; auto.
      - apply (span_init_sub m H0' h' H0 h p); auto. intros w Hw0. apply Hspan; auto. }
    subst H0'. f_equal. f_equal.
    pose proof (echelon m 0 H0 HH0 c0 Hc0) as E.
    destruct (last_nz c0) as [t|] eqn:Et.
    + exfalso. destruct E as (q & Hq & _ & Hent & Hgpos & _).
      destruct (last_nz_Some c0 t Et) as (Ht & Hct & _). rewrite Hc0 in Ht.
      destruct (Hrel t Ht) as (q1 & Hq1 & _ & Hb1). rewrite Hq in Hq1. inversion Hq1; subst q1.
      destruct (Hrel' t Ht) as (q2 & Hq2 & _ & Hb2). rewrite Hq in Hq2. inversion Hq2; subst q2.
      specialize (Hcols q). nia.
    + apply vec_ext with m; auto. intros col _. rewrite (Hcols col), E, nth_vzero. lia.
Qed.

(** [hnf_unique] with the boolean predicate *)
Theorem hnf_unique m H H' :
  wf m H -> wf m H' -> is_hnf H = true -> is_hnf H' = true -> same_rowspanZ m H H' -> H = H'.
Proof.
  intros Hw Hw' Hh Hh' Hs.
  apply (hnf_rows_unique m (length H) H H'); auto; apply is_hnf_hnf_rows; auto.
Qed.
