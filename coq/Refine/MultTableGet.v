(** * MultTableGet: what a normal return of [Order::get_mult_table] / [to_z_basis_int]
    says about the computed entries (monadic plumbing only).  Style: stdlib + lia. *)
From RNT.Model Require Import Base Poly Algebraic LinAlg MultTable Order.
From RNT.Refine Require Import LinAlgList.
From Coq Require Import Lia List Arith QArith Qcanon.
Import ListNotations.
Open Scope Z_scope.

Lemma unwrap_ok_inv {E A} (r : result E A) x : unwrap_ok r = Done x -> r = Ok x.
Proof. destruct r; cbn; congruence. Qed.

Lemma assert_inv b : assert_ b = Done tt -> b = true.
Proof. destruct b; cbn; congruence. Qed.

Lemma to_int_vec_inv deg v r : to_int_vec deg v = Done r ->
  length r = deg /\
  forall k, (k < deg)%nat ->
    q_is_integer (nth k v q0) = true /\ nth k r 0 = q_to_integer (nth k v q0).
Proof.
  unfold to_int_vec. intros H. apply mapM_inv in H. destruct H as [L N].
  rewrite seq_length in L, N. split; [exact L|].
  intros k Hk. specialize (N k O 0 Hk). rewrite seq_nth in N by lia. cbn in N.
  bind_inv N. apply nth_chk_inv in E. destruct E as [_ E]. rewrite (E q0).
  bind_inv N. destruct x0. apply assert_inv in E0. injection N as N. auto.
Qed.

Theorem get_mult_table_inv b f t : get_mult_table b f = Done t ->
  length t = length b /\
  forall i j, (i < length b)%nat -> (j < length b)%nat ->
    length (nth i t []) = length b /\
    exists prod inv,
      alg_mul f (from_raw opsQc (nth i b [])) (from_raw opsQc (nth j b [])) = Done prod /\
      solve_linear_system fopsQc b (coefs_upto (length b) prod) = Done (Ok inv) /\
      length (nth j (nth i t []) []) = length b /\
      forall k, (k < length b)%nat ->
        q_is_integer (nth k inv q0) = true /\
        nth k (nth j (nth i t []) []) 0 = q_to_integer (nth k inv q0).
Proof.
  unfold get_mult_table. intros H. apply mapM_inv in H. destruct H as [L N].
  rewrite seq_length in L, N. split; [exact L|].
  intros i j Hi Hj. specialize (N i O [] Hi). rewrite seq_nth in N by lia. cbn [plus] in N.
  bind_inv N. apply nth_chk_inv in E. destruct E as [_ E]. rewrite <- (E []) in N.
  apply mapM_inv in N. destruct N as [L2 N2]. rewrite seq_length in L2, N2.
  split; [exact L2|].
  specialize (N2 j O [] Hj). rewrite seq_nth in N2 by lia. cbn [plus] in N2.
  bind_inv N2. apply nth_chk_inv in E0. destruct E0 as [_ E0]. rewrite <- (E0 []) in N2.
  bind_inv N2 as prod Ep. bind_inv N2 as r Er. bind_inv N2 as inv Ei.
  apply unwrap_ok_inv in Ei. subst r.
  apply to_int_vec_inv in N2. destruct N2 as [L3 N3].
  exists prod, inv. auto.
Qed.

Theorem to_z_basis_int_inv b a r : to_z_basis_int b a = Done r ->
  exists inv, solve_linear_system fopsQc b (coefs_upto (length b) a) = Done (Ok inv) /\
    length r = length b /\
    forall k, (k < length b)%nat ->
      q_is_integer (nth k inv q0) = true /\ nth k r 0 = q_to_integer (nth k inv q0).
Proof.
  unfold to_z_basis_int, to_z_basis. intros H.
  bind_inv H as inv Ei. bind_inv Ei as x Er. apply unwrap_ok_inv in Ei. subst x.
  apply to_int_vec_inv in H. destruct H as [L N]. exists inv. auto.
Qed.
