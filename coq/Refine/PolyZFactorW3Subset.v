(** * PolyZFactorW3Subset: C07, every factorisation [a = u v] in Z[x] of a polynomial with a lifted
    factorisation [a = lc(a) l_1 ... l_k (mod p^e)] splits the lifted factors (MathComp).

    [ls] are monic integer polynomials, irreducible and pairwise coprime modulo the prime [p], [p] does
    not divide [lc(a)]. Then for [a = u v] there is a bit mask [m] with
    [u = lc(u) prod (mask m ls)] and [v = lc(v) prod (mask (~m) ls)] modulo [p^e]
    (unique factorisation in F_p[x] and uniqueness of Hensel lifts). *)
From Coq Require Import ZArith Lia Znumtheory.
From mathcomp Require Import all_ssreflect ssralg poly polydiv ssrint zmodp.
From RNT.Refine Require Import PolyZmod FmpField PolyZFactorW3Hensel.
From mathcomp Require Import ssrZ zify ring.
Set Implicit Arguments.
Unset Strict Implicit.
Unset Printing Implicit Defensive.
Import GRing.Theory.
Local Open Scope ring_scope.

Definition lsprod (ls : seq {poly Z}) : {poly Z} := \prod_(l <- ls) l.

Lemma lsprod_nil : lsprod [::] = 1. Proof. by rewrite /lsprod big_nil. Qed.
Lemma lsprod_cons l ls : lsprod (l :: ls) = l * lsprod ls. Proof. by rewrite /lsprod big_cons. Qed.
Lemma lsprod_cat ls1 ls2 : lsprod (ls1 ++ ls2) = lsprod ls1 * lsprod ls2.
Proof. by rewrite /lsprod big_cat. Qed.

Lemma lsprod_monic ls : all (fun l : {poly Z} => l \is monic) ls -> lsprod ls \is monic.
Proof. by move/allP => h; rewrite /lsprod big_seq; apply: monic_prod => l /h. Qed.

(** the two halves of a mask multiply back *)
Lemma lsprod_mask (m : bitseq) ls : size m = size ls ->
  lsprod (mask m ls) * lsprod (mask (map negb m) ls) = lsprod ls.
Proof.
elim: m ls => [|b m IH] [|l ls] //=; first by rewrite lsprod_nil mulr1.
case=> /IH e; case: b => /=; rewrite !lsprod_cons -e; ring.
Qed.

Section Subset.
Variable n : nat.
Hypothesis n_prime : prime n.
Notation p := (Z.of_nat n).
Notation red := (redp n).

Let n_gt1 : (1 < n)%nat. Proof. exact: prime_gt1. Qed.

(** the conditions on the lifted factors *)
Definition lifted_ok (ls : seq {poly Z}) : Prop :=
  [/\ all (fun l : {poly Z} => l \is monic) ls,
      forall l, l \in ls -> irreducible_poly (red l)
    & pairwise (fun l l' : {poly Z} => coprimep (red l) (red l')) ls].

Lemma lifted_ok_mask (m : bitseq) ls : lifted_ok ls -> lifted_ok (mask m ls).
Proof.
case=> hm hi hc; split.
- by apply/allP => l /mem_mask /(allP hm).
- by move=> l /mem_mask /hi.
- exact: pairwise_mask.
Qed.

Lemma not_dvd_1 : ~ (p | 1)%ZZ.
Proof. by move=> /Z.divide_1_r; lia. Qed.

Lemma red_monic (l : {poly Z}) : l \is monic -> red l \is monic.
Proof.
move=> ml; rewrite monicE lead_coef_red // (monicP ml) ?rmorph1 //; exact: not_dvd_1.
Qed.

Lemma size_red_monic (l : {poly Z}) : l \is monic -> size (red l) = size l.
Proof. by move=> ml; apply: size_red => //; rewrite (monicP ml); exact: not_dvd_1. Qed.

Lemma red_lsprod ls : red (lsprod ls) = \prod_(l <- ls) red l.
Proof. by rewrite /lsprod /redp rmorph_prod. Qed.

(** a polynomial coprime to each element of a list is coprime to the product *)
Lemma coprimep_rprod (x : {poly 'F_n}) ls :
  all (fun l : {poly Z} => coprimep x (red l)) ls -> coprimep x (red (lsprod ls)).
Proof.
elim: ls => [|l ls IH] /=; first by rewrite lsprod_nil redp1 coprimep1.
by case/andP => h /IH h'; rewrite lsprod_cons redpM coprimepMr h h'.
Qed.

(** pairwise coprime divisors: the product divides *)
Lemma dvdp_rprod (x : {poly 'F_n}) ls :
  pairwise (fun l l' : {poly Z} => coprimep (red l) (red l')) ls ->
  all (fun l : {poly Z} => red l %| x) ls -> red (lsprod ls) %| x.
Proof.
elim: ls => [|l ls IH] /=; first by rewrite lsprod_nil redp1 dvd1p.
case/andP => hl hp /andP [dl dls].
rewrite lsprod_cons redpM Gauss_dvdp ?dl ?IH //.
exact: coprimep_rprod.
Qed.

(** complementary sub-products of a pairwise coprime list are coprime *)
Lemma coprimep_mask_compl (m : bitseq) ls :
  pairwise (fun l l' : {poly Z} => coprimep (red l) (red l')) ls ->
  coprimep (red (lsprod (mask m ls))) (red (lsprod (mask (map negb m) ls))).
Proof.
elim: m ls => [|b m IH] [|l ls] //=; try by rewrite lsprod_nil redp1 coprime1p.
case/andP => hl /IH h; case: b => /=; rewrite lsprod_cons redpM.
- rewrite coprimepMl h andbT; apply: coprimep_rprod.
  by apply/allP => l' /mem_mask /(allP hl).
- rewrite coprimepMr h andbT coprimep_sym; apply: coprimep_rprod.
  by apply/allP => l' /mem_mask /(allP hl).
Qed.

Lemma dvdp_red_lsprod (l : {poly Z}) ls : l \in ls -> red l %| red (lsprod ls).
Proof.
elim: ls => [|l' ls IH] //; rewrite inE lsprod_cons redpM => /orP [/eqP ->|/IH h].
  exact: dvdp_mulIl.
exact: dvdp_mull.
Qed.

(** an irreducible polynomial that does not divide is coprime *)
Lemma irred_coprime (x y : {poly 'F_n}) : irreducible_poly x -> ~~ (x %| y) -> coprimep x y.
Proof.
move=> irr nd; rewrite /coprimep; apply/negPn/negP => ns.
have /(irr _ ns) : gcdp x y %| x by exact: dvdp_gcdl.
rewrite /eqp => /andP [_ xg]; case/negP: nd.
exact: dvdp_trans xg (dvdp_gcdr _ _).
Qed.

(** ** modulo p: the reductions of [u] and [v] are the two sub-products *)
Lemma split_mod_p (a u v : {poly Z}) ls : lifted_ok ls -> ~ (p | lead_coef a)%ZZ ->
  eqpm p a (lead_coef a *: lsprod ls) -> a = u * v ->
  let m := [seq red l %| red u | l <- ls] in
  eqpm p u (lead_coef u *: lsprod (mask m ls)) /\
  eqpm p v (lead_coef v *: lsprod (mask (map negb m) ls)).
Proof.
move=> [hm hi hc] nda ea euv m.
set U := lsprod (mask m ls); set V := lsprod (mask (map negb m) ls).
have sm : size m = size ls by rewrite size_map.
have eUV : U * V = lsprod ls by exact: lsprod_mask.
have hmU : U \is monic by apply: lsprod_monic; apply/allP => l /mem_mask /(allP hm).
have hmV : V \is monic by apply: lsprod_monic; apply/allP => l /mem_mask /(allP hm).
have lcuv : lead_coef a = lead_coef u * lead_coef v by rewrite euv lead_coefM.
have ndu : ~ (p | lead_coef u)%ZZ.
  by move=> h; apply: nda; rewrite lcuv; exact: Z.divide_mul_l.
have ndv : ~ (p | lead_coef v)%ZZ.
  by move=> h; apply: nda; rewrite lcuv; exact: Z.divide_mul_r.
(* the equation modulo p *)
have era : red u * red v = toF n (lead_coef a) *: (red U * red V).
  move/(eqpm_redp n_prime): ea; rewrite euv redpM => ->.
  by rewrite -redpM eUV -mul_polyC redpM redpC mul_polyC.
have c0 : toF n (lead_coef a) != 0 by exact: toF_neq0.
have ru0 : red u != 0 by rewrite -size_poly_eq0 size_red // size_poly_eq0 -lead_coef_eq0; apply/eqP => h; apply: ndu; rewrite h; exact: Z.divide_0_r.
have rv0 : red v != 0 by rewrite -size_poly_eq0 size_red // size_poly_eq0 -lead_coef_eq0; apply/eqP => h; apply: ndv; rewrite h; exact: Z.divide_0_r.
have rU0 : red U != 0 by rewrite monic_neq0 // red_monic.
have rV0 : red V != 0 by rewrite monic_neq0 // red_monic.
(* U divides u, V divides v modulo p *)
have dU : red U %| red u.
  apply: dvdp_rprod; first exact: pairwise_mask.
  apply/allP => l; rewrite /m -filter_mask mem_filter => /andP [].
  by [].
have dV : red V %| red v.
  apply: dvdp_rprod; first exact: pairwise_mask.
  apply/allP => l; rewrite /m -map_comp -filter_mask mem_filter => /andP [/= nd hl].
  have : red l %| red u * red v.
    by rewrite era dvdpZr // -redpM eUV; exact: dvdp_red_lsprod.
  by rewrite Gauss_dvdpr //; apply: irred_coprime => //; exact: hi.
(* the quotients are constants *)
move: dU dV; rewrite !dvdp_eq; set s := red u %/ red U; set t := red v %/ red V => /eqP es /eqP et.
have est : s * t = (toF n (lead_coef a))%:P.
  apply: (mulIf (mulf_neq0 rU0 rV0)).
  rewrite mul_polyC -era es et; ring.
have /andP [/size_poly1P [s0 s00 es0] /size_poly1P [t0 t00 et0]] : (size s == 1%N) && (size t == 1%N).
  by rewrite -size_mul_eq1 est size_polyC c0.
(* leading coefficients *)
have lu : s0 = toF n (lead_coef u).
  have := congr1 lead_coef es; rewrite es0 mul_polyC lead_coefZ (monicP (red_monic hmU)) mulr1.
  by rewrite lead_coef_red.
have lv : t0 = toF n (lead_coef v).
  have := congr1 lead_coef et; rewrite et0 mul_polyC lead_coefZ (monicP (red_monic hmV)) mulr1.
  by rewrite lead_coef_red.
split; apply/(eqpm_redp n_prime).
- by rewrite es es0 lu -mul_polyC redpM redpC.
- by rewrite et et0 lv -mul_polyC redpM redpC.
Qed.

(** ** modulo p^e *)

(** a mask that is right for [u] modulo p is right for [u] and [v] modulo p^e *)
Theorem split_known_mask e (a u v : {poly Z}) ls (m : bitseq) : (0 < e)%N -> lifted_ok ls ->
  ~ (p | lead_coef a)%ZZ -> eqpm (p ^+ e) a (lead_coef a *: lsprod ls) -> a = u * v ->
  size m = size ls -> eqpm p u (lead_coef u *: lsprod (mask m ls)) ->
  eqpm (p ^+ e) u (lead_coef u *: lsprod (mask m ls)) /\
  eqpm (p ^+ e) v (lead_coef v *: lsprod (mask (map negb m) ls)).
Proof.
move=> e0 ok nda ea euv sm eu1.
have [hm hi hc] := ok.
have ea1 : eqpm p a (lead_coef a *: lsprod ls).
  have ep : p ^+ e = (p * p ^+ e.-1)%ZZ by rewrite -{1}(prednK e0) exprS.
  by rewrite ep in ea; exact: eqpm_weaken ea.
set U := lsprod (mask m ls) in eu1 *; set V := lsprod (mask (map negb m) ls).
have eUV : U * V = lsprod ls by exact: lsprod_mask.
have hmU : U \is monic by apply: lsprod_monic; apply/allP => l /mem_mask /(allP hm).
have hmV : V \is monic by apply: lsprod_monic; apply/allP => l /mem_mask /(allP hm).
have lcuv : lead_coef a = lead_coef u * lead_coef v by rewrite euv lead_coefM.
have ndu : ~ (p | lead_coef u)%ZZ.
  by move=> h; apply: nda; rewrite lcuv; exact: Z.divide_mul_l.
have ndv : ~ (p | lead_coef v)%ZZ.
  by move=> h; apply: nda; rewrite lcuv; exact: Z.divide_mul_r.
have lu0 : lead_coef u != 0 by apply/eqP => h; apply: ndu; rewrite h; exact: Z.divide_0_r.
have lv0 : lead_coef v != 0 by apply/eqP => h; apply: ndv; rewrite h; exact: Z.divide_0_r.
(* the other half modulo p *)
have ev1 : eqpm p v (lead_coef v *: V).
  apply/(eqpm_redp n_prime).
  have era : red u * red v = toF n (lead_coef a) *: (red U * red V).
    move/(eqpm_redp n_prime): ea1; rewrite euv redpM => ->.
    by rewrite -redpM eUV -mul_polyC redpM redpC mul_polyC.
  have eru : red u = toF n (lead_coef u) *: red U.
    by move/(eqpm_redp n_prime): eu1 => ->; rewrite -mul_polyC redpM redpC mul_polyC.
  have rU0 : red U != 0 by rewrite monic_neq0 // red_monic.
  have cu0 : toF n (lead_coef u) != 0 by exact: toF_neq0.
  have cuP : (toF n (lead_coef u))%:P * red U != 0 by rewrite mulf_neq0 // polyC_eq0.
  apply: (mulfI cuP); rewrite -mul_polyC redpM redpC.
  move: era; rewrite eru lcuv rmorphM /= -!mul_polyC polyCM => ->; ring.
have su : size u = size (lead_coef u *: U).
  rewrite -(size_red n_prime ndu) ((eqpm_redp n_prime _ _).1 eu1) size_red //.
  by rewrite lead_coefZ (monicP hmU) mulr1.
have sv : size v = size (lead_coef v *: V).
  rewrite -(size_red n_prime ndv) ((eqpm_redp n_prime _ _).1 ev1) size_red //.
  by rewrite lead_coefZ (monicP hmV) mulr1.
apply: (hensel_unique n_prime e0) => //.
- rewrite -euv; apply: eqpm_trans ea _.
  rewrite lcuv -eUV -!mul_polyC polyCM; exists 0; ring.
- by rewrite lead_coefZ (monicP hmU) mulr1.
- by rewrite lead_coefZ (monicP hmV) mulr1.
- have /(eqpm_redp n_prime) -> := eu1; have /(eqpm_redp n_prime) -> := ev1.
  rewrite -!mul_polyC !redpM !redpC !mul_polyC.
  rewrite coprimepZl ?coprimepZr; try exact: toF_neq0.
  exact: coprimep_mask_compl.
Qed.

Theorem subset_structure e (a u v : {poly Z}) ls : (0 < e)%N -> lifted_ok ls ->
  ~ (p | lead_coef a)%ZZ -> eqpm (p ^+ e) a (lead_coef a *: lsprod ls) -> a = u * v ->
  exists m : bitseq,
    [/\ size m = size ls, eqpm (p ^+ e) u (lead_coef u *: lsprod (mask m ls))
      & eqpm (p ^+ e) v (lead_coef v *: lsprod (mask (map negb m) ls))].
Proof.
move=> e0 ok nda ea euv.
have ea1 : eqpm p a (lead_coef a *: lsprod ls).
  have ep : p ^+ e = (p * p ^+ e.-1)%ZZ by rewrite -{1}(prednK e0) exprS.
  by rewrite ep in ea; exact: eqpm_weaken ea.
have [eu1 _] := split_mod_p ok nda ea1 euv.
set m := [seq red l %| red u | l <- ls] in eu1.
have sm : size m = size ls by rewrite size_map.
have [hu hv] := split_known_mask e0 ok nda ea euv sm eu1.
by exists m; split.
Qed.

(** the degree of a factor is the degree of its sub-product *)
Lemma size_of_subprod e (u : {poly Z}) ls : (0 < e)%N ->
  all (fun l : {poly Z} => l \is monic) ls -> ~ (p | lead_coef u)%ZZ ->
  eqpm (p ^+ e) u (lead_coef u *: lsprod ls) -> size u = size (lsprod ls).
Proof.
move=> e0 hm ndu eu.
have eu1 : eqpm p u (lead_coef u *: lsprod ls).
  have ep : p ^+ e = (p * p ^+ e.-1)%ZZ by rewrite -{1}(prednK e0) exprS.
  by rewrite ep in eu; exact: eqpm_weaken eu.
have hmU := lsprod_monic hm.
have lu0 : lead_coef u != 0 by apply/eqP => h; apply: ndu; rewrite h; exact: Z.divide_0_r.
rewrite -(size_red n_prime ndu) ((eqpm_redp n_prime _ _).1 eu1) size_red ?size_scale //.
by rewrite lead_coefZ (monicP hmU) mulr1.
Qed.

End Subset.
