(** * Trial division ([factorize], src/factorize.rs:5-24), used by C01. stdlib + lia. *)
From Coq Require Import ZArith List Bool Lia Znumtheory Sorted.
From RNT.Model Require Import Base Elementary.
From RNT.Refine Require Import ElemProofs.
Open Scope Z_scope.

(** The number a factor list stands for. *)
Definition fprod (l : list (Z * Z)) : Z := fold_right (fun pe acc => fst pe ^ snd pe * acc) 1 l.

Lemma zbits_pos : forall n, 1 <= n -> zbits n = Z.log2 n + 1.
Proof. intros n H. unfold zbits. destruct (Z.leb_spec n 0); lia. Qed.

Lemma divide_out_spec : forall fuel n p e, 1 <= n -> 2 <= p -> zbits n + 1 <= Z.of_nat fuel ->
  exists n1 e1, divide_out fuel n p e = Done (n1, e1) /\
    1 <= n1 <= n /\ e <= e1 /\ n = n1 * p ^ (e1 - e) /\ ~ (p | n1) /\ (e < e1 <-> (p | n)).
Proof.
  induction fuel as [|f IH]; intros n p e Hn Hp Hf.
  - rewrite zbits_pos in Hf by lia. pose proof (Z.log2_nonneg n). lia.
  - cbn [divide_out]. destruct (Z.eqb_spec (Z.rem n p) 0) as [E|NE].
    + apply rem_zero_divide in E; [|lia|lia]. destruct E as [q Hq].
      assert (Hquot : Z.quot n p = q) by (subst n; apply Z.quot_mul; lia).
      rewrite Hquot. assert (1 <= q) by nia.
      destruct (IH q p (e + 1)) as (n1 & e1 & R & B & He & Hprod & Hnd & _); [lia|lia| |].
      { rewrite zbits_pos in * by lia.
        assert (Z.log2 q + 1 <= Z.log2 n); [|lia].
        replace (Z.log2 q + 1) with (Z.log2 (2 * q)) by (rewrite Z.log2_double; lia). apply Z.log2_le_mono. nia. }
      exists n1, e1. split; [exact R|]. split; [nia|]. split; [lia|]. split; [|split; [exact Hnd|]].
      * subst n. rewrite Hprod at 1. replace (e1 - e) with (Z.succ (e1 - (e + 1))) by lia.
        rewrite Z.pow_succ_r by lia. ring.
      * split; [intros _; exists q; exact Hq|intros _; lia].
    + exists n, e. split; [reflexivity|]. split; [lia|]. split; [lia|]. split; [rewrite Z.sub_diag; change (p ^ 0) with 1; ring|].
      assert (Hnd : ~ (p | n)) by (intros D; apply NE; apply rem_zero_divide; [lia|lia|exact D]).
      split; [exact Hnd|]. split; [lia|intros D; contradiction].
Qed.

Definition good_factors (lo : Z) (l : list (Z * Z)) : Prop :=
  StronglySorted Z.lt (map fst l) /\
  (forall p e, In (p, e) l -> lo <= p /\ prime p /\ 0 < e).

Lemma trial_loop_spec : forall fuel n p acc, 1 <= n -> 2 <= p ->
  (forall d, 1 < d < p -> ~ (d | n)) ->
  (1 <= fuel)%nat -> Z.sqrt n + 3 <= Z.of_nat fuel + p ->
  exists l, trial_loop fuel n p acc = Done (acc ++ l) /\ good_factors p l /\ fprod l = n.
Proof.
  induction fuel as [|f IH]; intros n p acc Hn Hp Hno Hf1 Hf; [lia|]. cbn [trial_loop].
  destruct (Z.leb_spec (p * p) n) as [L|G].
  - destruct (divide_out_spec (Z.to_nat (zbits n) + 1) n p 0 Hn Hp) as (n1 & e & R & B & He & Hprod & Hnd & Hdiv).
    { rewrite zbits_pos by lia. pose proof (Z.log2_nonneg n). lia. }
    rewrite R. cbn [bind]. rewrite Z.sub_0_r in Hprod.
    assert (Hp' : p <= Z.sqrt n) by (apply Z.sqrt_le_square; lia).
    assert (Hs : Z.sqrt n1 <= Z.sqrt n) by (apply Z.sqrt_le_mono; lia).
    assert (Hno' : forall d, 1 < d < p + 1 -> ~ (d | n1)).
    { intros d Hd D. destruct (Z.eq_dec d p) as [->|]; [contradiction|].
      apply (Hno d); [lia|]. rewrite Hprod. apply Z.divide_mul_l. exact D. }
    destruct (Z.ltb_spec 0 e) as [Epos|Ezero].
    + destruct (IH n1 (p + 1) (acc ++ [(p, e)])) as (l & RL & [GS GP] & FP); [lia|lia|exact Hno'|lia|lia|].
      exists ((p, e) :: l). split; [rewrite RL, <- app_assoc; reflexivity|]. split; [split|].
      * cbn [map fst]. constructor; [exact GS|]. apply Forall_forall. intros x Hx.
        apply in_map_iff in Hx. destruct Hx as ([x' e'] & <- & Hx). apply GP in Hx. cbn [fst]. lia.
      * intros q e' [HH|HH].
        -- inversion HH; subst. split; [lia|]. split; [|exact Epos].
           apply prime_iff_no_divisor. split; [lia|]. intros d Hd D. apply (Hno d); [lia|].
           eapply Z.divide_trans; [exact D|]. apply Hdiv. exact Epos.
        -- apply GP in HH. split; [lia|apply HH].
      * cbn [fprod fold_right fst snd]. fold (fprod l). rewrite FP. rewrite Hprod at 1. ring.
    + assert (e = 0) by lia. subst e. change (p ^ 0) with 1 in Hprod. assert (n1 = n) by lia. subst n1.
      destruct (IH n (p + 1) acc) as (l & RL & [GS GP] & FP); [lia|lia|exact Hno'|lia|lia|].
      exists l. split; [exact RL|]. split; [split; [exact GS|]|exact FP].
      intros q e' HH. apply GP in HH. split; [lia|apply HH].
  - destruct (Z.ltb_spec 1 n) as [H1|H1].
    + exists [(n, 1)]. split; [reflexivity|]. split; [split|].
      * cbn. constructor; constructor.
      * intros q e' [HH|[]]. inversion HH; subst. split; [|split; [|lia]].
        -- destruct (Z.le_gt_cases p q); [assumption|]. exfalso. apply (Hno q); [lia|apply Z.divide_refl].
        -- apply no_small_divisor_prime; [lia|]. intros d Hd1 Hd2 D. apply (Hno d); [nia|exact D].
      * cbn [fprod fold_right fst snd]. rewrite Z.pow_1_r. ring.
    + exists []. split; [rewrite app_nil_r; reflexivity|]. split; [split; [constructor|intros q e' []]|]. cbn. lia.
Qed.

(** [P] trial division: for n >= 1 the fuel the model supplies suffices, and the result lists primes in strictly
    increasing order with positive exponents and product n. *)
Lemma trial_factorize_spec : forall n, 1 <= n ->
  exists l, trial_factorize n = Done l /\
    StronglySorted Z.lt (map fst l) /\
    (forall p e, In (p, e) l -> prime p /\ 0 < e) /\
    fprod l = n.
Proof.
  intros n Hn. unfold trial_factorize. destruct (Z.leb_spec 1 n); [|lia]. cbn [assert_ bind].
  pose proof (Z.sqrt_nonneg n).
  destruct (trial_loop_spec (Z.to_nat (Z.sqrt n) + 2) n 2 [] Hn ltac:(lia)) as (l & R & [GS GP] & FP);
    [intros; lia|lia|lia|].
  exists l. split; [exact R|]. split; [exact GS|]. split; [|exact FP].
  intros p e HH. apply GP in HH. split; apply HH.
Qed.

(** [P] n < 1 is the documented assertion failure. *)
Lemma trial_factorize_panic : forall n, n < 1 -> trial_factorize n = Panic PAssert.
Proof. intros n Hn. unfold trial_factorize. destruct (Z.leb_spec 1 n); [lia|reflexivity]. Qed.

Example trial_factorize_ex : trial_factorize 360 = Done [(2, 3); (3, 2); (5, 1)] /\ trial_factorize 1 = Done [] /\ trial_factorize 97 = Done [(97, 1)].
Proof. vm_compute. auto. Qed.
