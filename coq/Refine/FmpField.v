(** * C08 (second wave): reduction of [{poly Z}] modulo a prime to MathComp's [{poly 'F_p}].

    [redp] is the coefficientwise ring morphism [{poly Z} -> {poly 'F_n}] (n a prime natural
    number); congruence modulo n ([eqpm]) is equality of the images; every polynomial over
    ['F_n] is an image. Frobenius: [q ^+ n = q \Po 'X^n] over ['F_n], and a polynomial with
    zero derivative is of the form [s \Po 'X^n]. (ssreflect) *)
From Coq Require Import ZArith List Lia Znumtheory.
From mathcomp Require Import all_ssreflect ssralg poly polydiv ssrint zmodp.
From RNT.Model Require Import Base Poly PolyModP.
From RNT.Refine Require Import PolyModPArith FermatZ PolyZmod.
From mathcomp Require Import ssrZ zify ring.
Set Implicit Arguments. Unset Strict Implicit. Unset Printing Implicit Defensive.
Import GRing.Theory.
Local Open Scope ring_scope.

Section Bridge.
Variable n : nat.
Hypothesis n_prime : prime n.

Let n_gt0 : (0 < n)%nat. Proof. exact: prime_gt0. Qed.
Let n_gt1 : (1 < n)%nat. Proof. exact: prime_gt1. Qed.

Definition toF : {rmorphism Z -> 'F_n} := [rmorphism of ( *~%R (1 : 'F_n)) \o int_of_Z].

Lemma toF_nat (m : nat) : toF (Z.of_nat m) = m%:R.
Proof.
  rewrite /toF /=. have -> : int_of_Z (Z.of_nat m) = Posz m by case: m => [|m] //=; lia.
  by rewrite -pmulrn.
Qed.

Lemma toF_n : toF (Z.of_nat n) = 0.
Proof. rewrite toF_nat. apply/eqP. by rewrite -(dvdn_charf (char_Fp n_prime)). Qed.

Lemma toF_small (m : nat) : (m < n)%nat -> toF (Z.of_nat m) = 0 -> m = 0%nat.
Proof.
  move=> Hm. rewrite toF_nat => /eqP. rewrite -(dvdn_charf (char_Fp n_prime)) => D.
  case: m Hm D => [|m] // Hm D. have := dvdn_leq (ltn0Sn m) D. lia.
Qed.

Lemma toF_mod z : toF (Z.modulo z (Z.of_nat n)) = toF z.
Proof.
  have Hn : Z.of_nat n <> Z0 by lia.
  have E := Z.div_mod z (Z.of_nat n) Hn.
  rewrite {2}E. have -> : (Z.of_nat n * Z.div z (Z.of_nat n) + Z.modulo z (Z.of_nat n))%ZZ
                        = (Z.of_nat n * Z.div z (Z.of_nat n) + Z.modulo z (Z.of_nat n))%R by [].
  by rewrite rmorphD rmorphM toF_n mul0r add0r.
Qed.

Lemma toF_eq0 z : toF z = 0 <-> Z.modulo z (Z.of_nat n) = Z0.
Proof.
  have B := Z.mod_pos_bound z (Z.of_nat n) ltac:(lia).
  split.
  - rewrite -toF_mod. have -> : Z.modulo z (Z.of_nat n) = Z.of_nat (Z.to_nat (Z.modulo z (Z.of_nat n))) by lia.
    move=> H. have := toF_small _ H. lia.
  - move=> H. by rewrite -toF_mod H rmorph0.
Qed.

Lemma toF_eq a b : toF a = toF b <-> Z.modulo a (Z.of_nat n) = Z.modulo b (Z.of_nat n).
Proof.
  have Hn : Z.of_nat n <> Z0 by lia.
  split.
  - move=> H. apply: mod_sub_0 => //. apply/toF_eq0.
    have -> : (a - b)%ZZ = (a - b)%R by []. by rewrite rmorphB H subrr.
  - move=> H. by rewrite -toF_mod H toF_mod.
Qed.

(** A section of [toF]. *)
Definition ofF (x : 'F_n) : Z := Z.of_nat x.

Lemma ofFK x : toF (ofF x) = x.
Proof. by rewrite /ofF toF_nat natr_Zp. Qed.

Lemma ofF_range x : (0 <= ofF x < Z.of_nat n)%ZZ.
Proof.
  rewrite /ofF. have := ltn_ord x. rewrite [X in (_ < X)%nat]Fp_cast //. lia.
Qed.

Lemma ofF0 : ofF 0 = Z0.
Proof. by []. Qed.

(** ** Polynomials *)

Definition redp (a : {poly Z}) : {poly 'F_n} := map_poly toF a.

Lemma redpD a b : redp (a + b) = redp a + redp b. Proof. exact: rmorphD. Qed.
Lemma redpM a b : redp (a * b) = redp a * redp b. Proof. exact: rmorphM. Qed.
Lemma redpB a b : redp (a - b) = redp a - redp b. Proof. exact: rmorphB. Qed.
Lemma redpN a : redp (- a) = - redp a. Proof. exact: rmorphN. Qed.
Lemma redp0 : redp 0 = 0. Proof. exact: rmorph0. Qed.
Lemma redp1 : redp 1 = 1. Proof. exact: rmorph1. Qed.
Lemma redpX a k : redp (a ^+ k) = redp a ^+ k. Proof. exact: rmorphX. Qed.
Lemma redpC c : redp c%:P = (toF c)%:P. Proof. exact: map_polyC. Qed.
Lemma redp_coef a i : (redp a)`_i = toF a`_i. Proof. exact: coef_map. Qed.
Lemma redp_deriv a : redp a^`() = (redp a)^`(). Proof. by rewrite /redp deriv_map. Qed.

Lemma eqpm_redp a b : eqpm (Z.of_nat n) a b <-> redp a = redp b.
Proof.
  split.
  - case=> k ->. by rewrite redpD redpM redpC toF_n polyC0 mul0r addr0.
  - move=> H. apply: eqpm_of_coef => i. apply/toF_eq. by rewrite -!redp_coef H.
Qed.

Definition liftp (q : {poly 'F_n}) : {poly Z} := map_poly ofF q.

Lemma liftpK q : redp (liftp q) = q.
Proof.
  apply/polyP => i. rewrite redp_coef /liftp coef_map_id0 //. exact: ofFK.
Qed.

(** ** Frobenius *)

Lemma charFX : n \in [char {poly 'F_n}].
Proof. exact: (rmorph_char (polyC_rmorphism _) (char_Fp n_prime)). Qed.

Lemma Fp_exp_n (x : 'F_n) : x ^+ n = x.
Proof.
  have E := ofFK x. rewrite -{2}E -[in LHS]E.
  have -> : toF (ofF x) ^+ n = toF ((ofF x) ^+ n) by rewrite rmorphX.
  apply/toF_eq.
  have -> : (ofF x ^+ n) = Z.pow (ofF x) (Z.of_nat n).
  { elim: (n) => [|m IH]; first by rewrite expr0. rewrite exprS IH Nat2Z.inj_succ Z.pow_succ_r //; lia. }
  have := fermat_nat (ofF x) n_prime.
  have B := ofF_range x. by rewrite (Z.mod_small (ofF x)) //.
Qed.

(** [q(X)^n = q(X^n)] over ['F_n]. *)
Lemma frobenius_comp (q : {poly 'F_n}) : q ^+ n = q \Po 'X^n.
Proof.
  elim/poly_ind: q => [|q c IH]; first by rewrite comp_poly0 expr0n; case: (n) n_gt0.
  rewrite comp_poly_MXaddC -IH.
  have Hc : [char {poly 'F_n}].-nat n by rewrite pnatE // charFX.
  rewrite (exprDn_char _ _ Hc) exprMn -polyC_exp Fp_exp_n. by [].
Qed.

(** Coefficients of [s \Po 'X^n]. *)
Lemma coef_comp_Xn (s : {poly 'F_n}) j :
  (s \Po 'X^n)`_j = if (n %| j)%nat then s`_(j %/ n) else 0.
Proof.
  rewrite comp_polyE coef_sum.
  under eq_bigr => i _ do rewrite coefZ -exprM coefXn.
  case: (boolP (n %| j)%nat) => D.
  - case: (ltnP (j %/ n) (size s)) => Hs.
    + rewrite (bigD1 (Ordinal Hs)) //= mulnC (divnK D) eqxx mulr1 big1 ?addr0 // => i Hi.
      case: eqP => [E|_]; last by rewrite mulr0.
      exfalso. move/negP: Hi; apply. apply/eqP/val_inj => /=. by rewrite E mulKn.
    + rewrite (seq.nth_default _ Hs) big1 // => i _.
      case: eqP => [E|_]; last by rewrite mulr0.
      exfalso. move: Hs. rewrite E mulKn //. have := ltn_ord i. lia.
  - rewrite big1 // => i _. case: eqP => [E|_]; last by rewrite mulr0.
    exfalso. move/negP: D; apply. by rewrite E dvdn_mulr.
Qed.

(** A polynomial with zero derivative is [s \Po 'X^n], [s] = the coefficients of index [n i]. *)
Definition proot (t : {poly 'F_n}) : {poly 'F_n} := \poly_(i < (size t)) t`_(n * i).

Lemma deriv0_coef (t : {poly 'F_n}) j : t^`() = 0 -> ~~ (n %| j)%nat -> t`_j = 0.
Proof.
  move=> D Hj. case: j Hj => [|j] Hj; first by rewrite dvdn0 in Hj.
  have := congr1 (fun q : {poly 'F_n} => q`_j) D. rewrite coef_deriv coef0 -mulr_natr => /eqP.
  rewrite mulf_eq0 => /orP [/eqP //|]. by rewrite -(dvdn_charf (char_Fp n_prime)) (negbTE Hj).
Qed.

Lemma deriv0_proot (t : {poly 'F_n}) : t^`() = 0 -> t = proot t \Po 'X^n.
Proof.
  move=> D. apply/polyP => j. rewrite coef_comp_Xn.
  case: (boolP (n %| j)%nat) => Hj; last exact: deriv0_coef.
  rewrite /proot coef_poly. case: ltnP => Hs.
  - by rewrite mulnC (divnK Hj).
  - rewrite seq.nth_default //. apply: leq_trans Hs _. exact: leq_div.
Qed.

Lemma deriv0_pow (t : {poly 'F_n}) : t^`() = 0 -> t = proot t ^+ n.
Proof. move=> D. by rewrite frobenius_comp -deriv0_proot. Qed.

(** A non-constant polynomial with zero derivative has degree >= n. *)
Lemma deriv0_size (t : {poly 'F_n}) : t^`() = 0 -> (1 < size t)%nat -> (n < size t)%nat.
Proof.
  move=> D Ht. rewrite ltnNge. apply/negP => Hs.
  have Hl : lead_coef t != 0 by rewrite lead_coef_eq0 -size_poly_gt0; lia.
  move/negP: Hl; apply. apply/eqP. rewrite /lead_coef. apply: deriv0_coef => //.
  apply/negP => Dv. have := dvdn_leq _ Dv. lia.
Qed.

End Bridge.
