(** C20: the decrease that drives termination of LLL (exact arithmetic), one step of the potential
    argument: when the Lovasz test fails at k, SWAP(k-1) multiplies the leading Gram determinant
    d_{k-1} = |b*_0|^2 ... |b*_{k-1}|^2 by a factor < 3/4 and leaves the other d_i unchanged; RED leaves all
    |b*_i|^2 unchanged.  (What is NOT proved: a lower bound for the d_i -- for integer bases they are
    positive integers, the Gram determinants -- and the arithmetic that [lll_fuel] exceeds the resulting
    bound on the number of swaps.)   (stdlib; lia, ring/field on Qc, nra on Q.) *)
From RNT.Model Require Import Base Lll.
From RNT.Refine Require Import LllMat LllGS LllSqrt LllShort LllExitStep2 LllExitIndep LllExitLoop.
From Coq Require Import Lia QArith Qcanon Lqa.
Open Scope Z_scope.

Local Notation F := arithQ.
Local Notation "x +q y" := (Qcplus x y) (at level 50, left associativity).
Local Notation "x *q y" := (Qcmult x y) (at level 40, left associativity).
Local Notation "x -q y" := (Qcminus x y) (at level 50, left associativity).
Local Notation q0 := (Q2Qc 0).
Local Notation q1 := (Q2Qc 1).

Fixpoint qprod (m : nat) (f : nat -> Qc) : Qc :=
  match m with O => q1 | S m' => qprod m' f *q f m' end.

Lemma qprod_ext m f g : (forall j, (j < m)%nat -> f j = g j) -> qprod m f = qprod m g.
Proof. induction m as [|m IH]; intros H; cbn; [reflexivity|]. rewrite IH, H by (intros; try apply H; lia). reflexivity. Qed.

Lemma qprod_pos m f : (forall j, (j < m)%nat -> Qclt q0 (f j)) -> Qclt q0 (qprod m f).
Proof.
  induction m as [|m IH]; intros H; cbn [qprod].
  - unfold Qclt. cbn. reflexivity.
  - apply qc_mul_pos; [apply IH; intros; apply H; lia|apply H; lia].
Qed.

(** d_i = |b*_0|^2 ... |b*_i|^2 as maintained in [l_b] (the i-th leading Gram determinant when [gs_rel] holds) *)
Definition gramdet (s : lstate (T:=Qc)) (i : nat) : Qc := qprod (S i) (Nb s).

Lemma qc_lt_scale d B N : Qclt q0 d -> Qclt B (Qc_34 *q N) -> Qclt (d *q B) (Qc_34 *q (d *q N)).
Proof. intros Hd H. to_Q. nra. Qed.

Lemma qc_lovasz_fail N1 N0 mu : Qclt N1 ((Qc_34 -q mu *q mu) *q N0) -> Qclt (N1 +q mu *q mu *q N0) (Qc_34 *q N0).
Proof. intros H. to_Q. to_Q. nra. Qed.

Section Potential.
Variable n : nat.

(** [P] SWAP after a failed Lovasz test *)
Theorem swap_potential s s' : linv n s -> (1 <= l_k s <= l_kmax s)%nat ->
  lovasz_fails F s = true -> swap F n s (l_k s - 1) = Done s' ->
  Qclt (gramdet s' (l_k s - 1)) (Qc_34 *q gramdet s (l_k s - 1)) /\
  (forall i, i <> (l_k s - 1)%nat -> (i <= l_kmax s)%nat -> gramdet s' i = gramdet s i) /\
  (forall i, (i <= l_kmax s)%nat -> Qclt q0 (gramdet s' i)).
Proof.
  intros L Hk LF SW. set (k0 := (l_k s - 1)%nat) in *.
  assert (Ek : l_k s = (k0 + 1)%nat) by (unfold k0; lia).
  pose proof (li_wf n s L) as W. pose proof (li_pos n s L) as P.
  destruct (swap_linv n s k0 s' L ltac:(lia) SW) as (L' & Emax' & _).
  destruct (swap_entries n s k0 s' W ltac:(lia) SW) as (_ & _ & _ & _ & _ & EN & _).
  set (mu := Mu s (k0 + 1) k0) in *. set (N1 := Nb s (k0 + 1)) in *. set (N0 := Nb s k0) in *.
  set (B := N1 +q mu *q mu *q N0) in *.
  assert (PB : Qclt q0 B) by (apply qc_swapB_pos; apply P; lia).
  assert (LT : Qclt B (Qc_34 *q N0)).
  { apply qc_lovasz_fail. unfold lovasz_fails in LF. cbn [fltb fmul fsub f34 F arithQ] in LF.
    apply Qc_ltb_true in LF. rewrite Ek in LF. replace (k0 + 1 - 1)%nat with k0 in LF by lia. exact LF. }
  assert (Prod : B *q Qcdiv (N1 *q N0) B = N0 *q N1) by (field; apply qc_pos_nz; exact PB).
  assert (Low : qprod k0 (Nb s') = qprod k0 (Nb s)).
  { apply qprod_ext. intros j Hj. rewrite EN.
    destruct (Nat.eqb_spec j k0); [lia|]. destruct (Nat.eqb_spec j (k0 + 1)); [lia|]. reflexivity. }
  assert (High : forall d, gramdet s' (k0 + 1 + d) = gramdet s (k0 + 1 + d)).
  { induction d as [|d IH].
    - unfold gramdet. replace (S (k0 + 1 + 0)) with (S (S k0)) by lia. cbn [qprod]. rewrite Low.
      replace (S k0) with (k0 + 1)%nat by lia.
      rewrite !EN, !Nat.eqb_refl. destruct (Nat.eqb_spec (k0 + 1) k0); [lia|].
      fold N0 N1. transitivity (qprod k0 (Nb s) *q (B *q Qcdiv (N1 *q N0) B)); [ring|]. rewrite Prod. ring.
    - unfold gramdet in *. replace (S (k0 + 1 + S d)) with (S (S (k0 + 1 + d))) by lia.
      cbn [qprod] in *. rewrite IH. f_equal. rewrite EN.
      destruct (Nat.eqb_spec (S (k0 + 1 + d)) k0); [lia|]. destruct (Nat.eqb_spec (S (k0 + 1 + d)) (k0 + 1)); [lia|].
      reflexivity. }
  split; [|split].
  - unfold gramdet. cbn [qprod]. rewrite Low, EN, Nat.eqb_refl. fold N0.
    apply qc_lt_scale; [|exact LT]. apply qprod_pos. intros j Hj. apply P. lia.
  - intros i Hne Hi. destruct (Nat.lt_ge_cases i k0) as [Hlt|Hge].
    + unfold gramdet. apply qprod_ext. intros j Hj. rewrite EN.
      destruct (Nat.eqb_spec j k0); [lia|]. destruct (Nat.eqb_spec j (k0 + 1)); [lia|]. reflexivity.
    + replace i with (k0 + 1 + (i - k0 - 1))%nat by lia. apply High.
  - intros i Hi. unfold gramdet. apply qprod_pos. intros j Hj. apply (li_pos n s' L'). lia.
Qed.

(** [P] RED changes no |b*_i|^2 *)
Theorem red_potential s k l s' : wfstate n s -> (l < k)%nat -> (k < n)%nat ->
  red F n s k l = Done s' -> forall i, gramdet s' i = gramdet s i.
Proof.
  intros W Hl Hk R i. destruct (red_facts n s k l s' W Hl Hk R) as (_ & _ & EN & _).
  unfold gramdet. apply qprod_ext. intros j _. apply EN.
Qed.

End Potential.
