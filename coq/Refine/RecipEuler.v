(** * Euler's criterion, converse half: if a^((p-1)/2) = 1 in F_p then a is a non-zero square mod p
      (the (p-1)/2 squares of 1..(p-1)/2 are distinct roots of X^((p-1)/2) - 1, which has no further root). MathComp. *)
From mathcomp Require Import all_ssreflect ssralg ssrnum ssrint zmodp poly.
From mathcomp Require Import zify.
From RNT.Refine Require Import RecipLegendre.
Set Implicit Arguments.
Unset Strict Implicit.
Unset Printing Implicit Defensive.
Import GRing.Theory.
Local Open Scope ring_scope.

Section Euler.
Variable p : nat.
Hypothesis pr_p : prime p.
Hypothesis p_gt2 : (2 < p)%N.

Let h := p./2.
Let s := index_iota 1 h.+1.
Let sq : seq 'F_p := [seq (x%:R : 'F_p) ^+ 2 | x <- s].
Let P : {poly 'F_p} := 'X^h - 1.

Lemma ndvd1 : ~~ (p %| 1)%N.
Proof. rewrite dvdn1. apply/eqP. move: p_gt2. lia. Qed.

Lemma sq_uniq : uniq sq.
Proof.
  rewrite map_inj_in_uniq ?iota_uniq // => x y xs ys /eqP.
  rewrite -subr_eq0 subr_sqr mulf_eq0 subr_eq0 addr_eq0 => /orP [] /eqP E.
  - exact: (small_eq pr_p p_gt2 ndvd1 xs ys E).
  - by case: (small_neq_opp pr_p p_gt2 ndvd1 xs ys E).
Qed.

Lemma sq_roots : all (root P) sq.
Proof.
  apply/allP => y /mapP [x xs ->]. rewrite /root /P !hornerE hornerXn subr_eq0 -exprM mul2n.
  have -> : h.*2 = p.-1 by have := p_eq pr_p p_gt2; rewrite -/h; lia.
  by rewrite (fermatFp pr_p (s_ndvd pr_p p_gt2 ndvd1 xs)).
Qed.

Lemma P_neq0 : P != 0.
Proof. by rewrite -size_poly_eq0 /P size_Xn_sub_1 // (h_gt0 pr_p p_gt2). Qed.

(** Euler's criterion, converse half. *)
Lemma leg1_sqr a : leg p a = 1 -> exists2 x, (0 < x <= h)%N & (x * x = a %[mod p])%N.
Proof.
  move=> L. have E : eul p a = 1 by rewrite -(legE pr_p p_gt2) L.
  have Ra : root P (a%:R) by rewrite /root /P !hornerE hornerXn -/(eul p a) E subrr.
  case: (boolP ((a%:R : 'F_p) \in sq)) => [/mapP [x xs Ex]|Nin].
  - exists x; first by rewrite -in_s. apply/eqP. rewrite -(natFp_eq pr_p) natrM Ex expr2. exact/eqP.
  - have U : uniq ((a%:R : 'F_p) :: sq) by rewrite /= Nin sq_uniq.
    have R : all (root P) ((a%:R : 'F_p) :: sq) by rewrite /= Ra sq_roots.
    have := max_poly_roots P_neq0 R U.
    by rewrite /= size_map size_iota /P size_Xn_sub_1 ?(h_gt0 pr_p p_gt2) // subn1 /= ltnn.
Qed.

End Euler.
