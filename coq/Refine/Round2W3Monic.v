(** Round 2 step, third wave (C06): for monic f the power basis 1, theta, .., theta^(n-1) is closed under
    multiplication: [Order::get_mult_table] returns on the identity basis.  Style: ssreflect. *)
From RNT.Model Require Import Base Poly Algebraic LinAlg MultTable Order.
From Coq Require Import QArith Qcanon.
From mathcomp Require Import all_ssreflect ssralg poly polydiv.
From mathcomp Require Import ssrZ zify ring.
From RNT.Refine Require Import QcRing PolyRefine PolyDiv PolyZ PolyQ AlgMul AlgQuot MultTableOps MultTableGet TableAgrees.
From RNT.Refine Require AlgNormRes Round2W3Step Round2W3Det Round2W3Lift.
Set Implicit Arguments.
Unset Strict Implicit.
Unset Printing Implicit Defensive.
Import GRing.Theory Pdiv.Ring Pdiv.ComRing.
Local Open Scope ring_scope.

Fact qz_is_rmorphism : rmorphism (qz : Z -> Qc).
Proof.
have qzN y : qz (Z.opp y) = - qz y.
  have h : qz (Z.opp y) + qz y = 0 by rewrite -qzD Z.add_opp_diag_l.
  by apply: (addIr (qz y)); rewrite h addNr.
split=> [x y|]; first by rewrite -[x - y]/(Z.add x (Z.opp y)) qzD qzN.
by split=> [x y|] //; exact: qzM.
Qed.
Canonical qz_additive := Additive qz_is_rmorphism.
Canonical qz_rmorphism := RMorphism qz_is_rmorphism.

Section Monic.
Variables (f : seq Z) (n : nat).
Hypothesis cf : canonZ f.
Hypothesis szf : size f = n.+1.
Hypothesis monf : nth 0%Z f n = 1%Z.

Let FZ : {poly Z} := Poly f.

Lemma size_FZ : size FZ = n.+1.
Proof. by rewrite /FZ canon_size_Poly. Qed.

Lemma monic_FZ : FZ \is monic.
Proof. by apply/monicP; rewrite /lead_coef size_FZ /= /FZ coef_Poly. Qed.

Lemma map_FZ : map_poly qz FZ = Fq f.
Proof. by rewrite /FZ /Fq map_Poly. Qed.

(** the remainder of X^k by a monic integer polynomial is an integer polynomial *)
Lemma Xn_mod_int k : exists c : seq Z, size c = n /\
  ('X^k : {poly Qc}) %% Fq f = \sum_(t <- iota 0 n) qz (nth 0%Z c t) *: 'X^t.
Proof.
pose rZ := rmodp ('X^k) FZ.
have F0 : FZ != 0 by rewrite -size_poly_eq0 size_FZ.
have srZ : (size rZ < n.+1)%N by rewrite -size_FZ ltn_rmodpN0.
exists (mkseq (fun t => rZ`_t) n); split; first by rewrite size_mkseq.
have e := rdivp_eq FZ ('X^k).
rewrite (eqP monic_FZ) expr1n scale1r in e.
have -> : ('X^k : {poly Qc}) = map_poly qz (rdivp 'X^k FZ) * Fq f + map_poly qz rZ.
  by rewrite -map_FZ -rmorphM -rmorphD -e /= map_polyXn.
rewrite modp_addl_mul_small; last first.
  by rewrite (size_Fq cf szf) (leq_ltn_trans (size_poly _ _)) // ltnS -ltnS.
apply/polyP => j; rewrite coef_map coef_sum.
case: (ltnP j n) => hj.
  rewrite (bigD1_seq j) ?mem_iota ?iota_uniq //= coefZ coefXn eqxx mulr1 nth_mkseq //.
  rewrite big1 ?addr0 // => t /negbTE ht.
  by rewrite coefZ coefXn eq_sym ht mulr0.
rewrite nth_default ?(rmorph0 qz_rmorphism); last by rewrite (leq_trans _ hj) // -ltnS.
rewrite big_seq big1 // => t; rewrite mem_iota add0n => /andP[_ ht].
by rewrite coefZ coefXn; case: eqP => [e'|]; rewrite ?mulr0 //; move: hj; rewrite e' leqNgt ht.
Qed.

(** [P] for monic f the table of the power basis is returned *)
Theorem monic_identity_table : exists T, get_mult_table (identity fopsQc n) f = Done T.
Proof.
have [sb rb pb] := AlgNormRes.identity_power_basis n.
apply: (Round2W3Lift.table_returns cf szf sb rb).
  move=> v sv; apply: (Round2W3Det.lower_solvable (Round2W3Step.identity_lower n)).
  by rewrite -sv.
move=> i j hi hj; rewrite !pb // -exprD.
have [c [sc ->]] := Xn_mod_int (i + j).
exists c; split=> //; rewrite /of_coords.
apply: eq_big_seq => t; rewrite mem_iota add0n => /andP[_ ht].
by rewrite pb // Round2W3Lift.nth_map_qz.
Qed.
End Monic.
