(** C20: step 2 of [lll] (the incremental Gram-Schmidt of a row reached for the first time) in exact
    arithmetic: entry-by-entry description and [step2_preserves_gs]: if the maintained data are the
    Gram-Schmidt data of rows 0..kmax, k = kmax + 1 and the |b*_j|^2, j <= kmax, are not zero, then after
    step 2 they are the Gram-Schmidt data of rows 0..k.   (stdlib; lia, ring/field on Qc.) *)
From RNT.Model Require Import Base Lll.
From RNT.Refine Require Import LllMat LllGS.
From Coq Require Import Lia QArith Qcanon.
Open Scope Z_scope.

Local Notation F := arithQ.
Local Notation "x +q y" := (Qcplus x y) (at level 50, left associativity).
Local Notation "x *q y" := (Qcmult x y) (at level 40, left associativity).
Local Notation "x -q y" := (Qcminus x y) (at level 50, left associativity).
Local Notation q0 := (Q2Qc 0).
Local Notation q1 := (Q2Qc 1).

(** ** loops and sums *)
Lemma for_range_S {St} lo hi (f : nat -> St -> St) s : (lo <= hi)%nat ->
  for_range lo (S hi) f s = f hi (for_range lo hi f s).
Proof.
  intros H. unfold for_range. replace (S hi - lo)%nat with (S (hi - lo)) by lia.
  rewrite seq_S, fold_left_app. cbn [fold_left]. replace (lo + (hi - lo))%nat with hi by lia. reflexivity.
Qed.

Lemma for_range_nil {St} lo (f : nat -> St -> St) s : for_range lo lo f s = s.
Proof. unfold for_range. rewrite Nat.sub_diag. reflexivity. Qed.

Lemma qsum_shift k f : qsum (S k) f = f 0%nat +q qsum k (fun j => f (S j)).
Proof.
  induction k as [|k IH]; [cbn [qsum]; ring|].
  change (qsum (S (S k)) f) with (qsum (S k) f +q f (S k)). rewrite IH. cbn [qsum]. ring.
Qed.

Lemma inner_acc : forall (a b : list Qc) m s, length a = m -> length b = m ->
  fold_left (fun s xy => fadd F s (fmul F (fst xy) (snd xy))) (combine a b) s
  = s +q qsum m (fun p => nth p a q0 *q nth p b q0).
Proof.
  induction a as [|x a IH]; intros [|y b] m s La Lb; cbn [length] in *; subst m; try discriminate.
  - cbn. ring.
  - cbn [combine fold_left fst snd]. rewrite (IH b (length a)) by (try reflexivity; lia).
    rewrite qsum_shift. cbn [nth fadd fmul F arithQ]. ring.
Qed.

Lemma inner_qsum (a b : list Qc) m : length a = m -> length b = m ->
  inner F a b = qsum m (fun p => nth p a q0 *q nth p b q0).
Proof. intros La Lb. unfold inner. rewrite (inner_acc a b m) by assumption. cbn [f0 F arithQ]. ring. Qed.

(** ** the loop of step 2 *)
Definition step2_body (s : lstate (T:=Qc)) (j : nat) (st : list (list Qc) * list (list Qc)) :=
  let '(mu, bstar) := st in
  let basisk := row (l_basis s) (l_k s) in
  let mukj := fdiv F (inner F basisk (row bstar j)) (get1 F (l_b s) j) in
  let rk := pre_upd (fun x y => fsub F x (fmul F y mukj)) (length (row bstar (l_k s)))
                    (row bstar (l_k s)) (row bstar j) in
  (set2 mu (l_k s) j mukj, set_nth bstar (l_k s) rk).

Lemma step2_unfold (s : lstate (T:=Qc)) :
  step2 F s =
  if Nat.ltb (l_kmax s) (l_k s) then
    let '(mu, bstar) := for_range 0 (l_k s) (step2_body s)
                          (l_mu s, set_nth (l_bstar s) (l_k s) (row (l_basis s) (l_k s))) in
    mkL (l_k s) (l_k s) (l_basis s) bstar (set_nth (l_b s) (l_k s) (norm_sqr F (row bstar (l_k s)))) mu (l_h s)
  else s.
Proof. reflexivity. Qed.

Section Step2.
Variable n : nat.
Variable s : lstate (T:=Qc).
Hypothesis W : wfstate n s.
Hypothesis Hk : (l_k s < n)%nat.
Let k := l_k s.

(** mu_kb = <b_k, b*_b> / B_b *)
Definition M2 (b : nat) : Qc := Qcdiv (qsum n (fun p => Bv s k p *q Sv s b p)) (Nb s b).
(** b*_k = b_k - sum_{b<k} mu_kb b*_b, after j terms *)
Definition S2 (j p : nat) : Qc := Bv s k p -q qsum j (fun b => M2 b *q Sv s b p).

Definition inv2 (j : nat) (st : list (list Qc) * list (list Qc)) : Prop :=
  square n (fst st) /\ square n (snd st) /\
  (forall a b, get2 F (fst st) a b = if (Nat.eqb a k && Nat.ltb b j)%bool then M2 b else Mu s a b) /\
  (forall a p, nth p (nth a (snd st) []) q0 = if Nat.eqb a k then S2 j p else Sv s a p).

Lemma inv2_loop : forall j, (j <= k)%nat ->
  inv2 j (for_range 0 j (step2_body s) (l_mu s, set_nth (l_bstar s) k (row (l_basis s) k))).
Proof.
  destruct W as (WB & WS & WM & Wb & Wk & WH).
  induction j as [|j IH]; intros Hj.
  - rewrite for_range_nil. unfold inv2; cbn [fst snd].
    split; [exact WM|]. split; [apply (square_set n); [exact WS|apply (square_row n); assumption]|].
    split.
    + intros a b. rewrite Bool.andb_false_r. reflexivity.
    + intros a p. rewrite nth_set_nth. rewrite (proj1 WS).
      destruct (Nat.eqb_spec k a) as [<-|Hne].
      * rewrite Nat.eqb_refl. destruct (Nat.ltb_spec k n); [|lia]. unfold S2, row, Bv. cbn [qsum]. fold k. ring.
      * destruct (Nat.eqb_spec a k); [congruence|]. reflexivity.
  - rewrite for_range_S by lia. specialize (IH ltac:(lia)).
    destruct (for_range 0 j (step2_body s) (l_mu s, set_nth (l_bstar s) k (row (l_basis s) k))) as [mu bstar].
    destruct IH as (Wmu & Wbs & Emu & Ebs). cbn [fst snd] in *.
    unfold step2_body. fold k.
    assert (Hjn : (j < n)%nat) by lia.
    assert (Lk : length (row bstar k) = n) by (apply (square_row n); assumption).
    assert (Lj : length (row bstar j) = n) by (apply (square_row n); assumption).
    assert (LB : length (row (l_basis s) k) = n) by (apply (square_row n); assumption).
    assert (Einner : fdiv F (inner F (row (l_basis s) k) (row bstar j)) (get1 F (l_b s) j) = M2 j).
    { rewrite (inner_qsum _ _ n LB Lj). unfold M2. cbn [fdiv F arithQ]. fold (Nb s j). f_equal.
      apply qsum_ext. intros p Hp. unfold row. rewrite Ebs.
      destruct (Nat.eqb_spec j k); [lia|]. reflexivity. }
    rewrite Einner. unfold inv2; cbn [fst snd].
    split; [apply (square_set2 n); assumption|].
    split; [apply (square_set n); [exact Wbs|rewrite length_pre_upd; exact Lk]|].
    split.
    + intros a b. rewrite (get2_set2 n) by assumption. rewrite Emu.
      destruct (Nat.eqb_spec a k) as [->|Hne]; cbn [andb]; [|reflexivity].
      destruct (Nat.eqb_spec b j) as [->|Hne].
      * destruct (Nat.ltb_spec j (S j)); [reflexivity|lia].
      * destruct (Nat.ltb_spec b j); destruct (Nat.ltb_spec b (S j)); try reflexivity; lia.
    + intros a p. rewrite nth_set_nth. rewrite (proj1 Wbs).
      destruct (Nat.eqb_spec k a) as [<-|Hne].
      * rewrite Nat.eqb_refl. destruct (Nat.ltb_spec k n); [|lia].
        destruct (Nat.lt_ge_cases p n) as [Hp|Hp].
        -- rewrite nth_pre_upd_in by lia. unfold row. rewrite !Ebs. rewrite Nat.eqb_refl.
           destruct (Nat.eqb_spec j k); [lia|]. unfold S2. cbn [qsum fsub fmul F arithQ]. ring.
        -- rewrite nth_pre_upd_out by lia. unfold row. rewrite Ebs, Nat.eqb_refl.
           unfold S2. cbn [qsum]. replace (Sv s j p) with q0; [ring|].
           unfold Sv. symmetry. apply nth_overflow. rewrite (square_row n _ j WS) by lia. exact Hp.
      * rewrite Ebs. destruct (Nat.eqb_spec a k); [congruence|]. destruct (Nat.eqb_spec a k); [congruence|]. reflexivity.
Qed.

(** step 2, entry by entry *)
Lemma step2_entries : (l_kmax s < k)%nat ->
  let s' := step2 F s in
  l_k s' = k /\ l_kmax s' = k /\ l_basis s' = l_basis s /\ l_h s' = l_h s /\ wfstate n s' /\
  (forall a p, Sv s' a p = if Nat.eqb a k then S2 k p else Sv s a p) /\
  (forall a b, Mu s' a b = if (Nat.eqb a k && Nat.ltb b k)%bool then M2 b else Mu s a b) /\
  (forall a, Nb s' a = if Nat.eqb a k then qsum n (fun p => S2 k p *q S2 k p) else Nb s a).
Proof.
  intros Hmax s'. unfold s'. rewrite step2_unfold. fold k.
  destruct (Nat.ltb_spec (l_kmax s) k) as [_|]; [|lia].
  pose proof (inv2_loop k (le_n k)) as I.
  destruct (for_range 0 k (step2_body s) (l_mu s, set_nth (l_bstar s) k (row (l_basis s) k))) as [mu bstar].
  destruct I as (Wmu & Wbs & Emu & Ebs). cbn [fst snd] in *.
  destruct W as (WB & WS & WM & Wb & Wk & WH).
  cbn [l_k l_kmax l_basis l_h].
  split; [reflexivity|]. split; [reflexivity|]. split; [reflexivity|]. split; [reflexivity|].
  split; [|split; [|split]].
  - unfold wfstate; cbn [l_basis l_bstar l_mu l_b l_kmax l_h].
    split; [exact WB|]. split; [exact Wbs|]. split; [exact Wmu|].
    split; [rewrite length_set_nth; exact Wb|]. split; [exact Hk|exact WH].
  - intros a p. unfold Sv; cbn [l_bstar]. apply Ebs.
  - intros a b. unfold Mu; cbn [l_mu]. apply Emu.
  - intros a. unfold Nb, get1; cbn [l_b f0 F arithQ]. rewrite nth_set_nth_b by lia.
    destruct (Nat.eqb_spec a k) as [->|]; [|reflexivity].
    unfold norm_sqr. rewrite (inner_qsum _ _ n) by (apply (square_row n); assumption).
    apply qsum_ext. intros p Hp. unfold row. rewrite Ebs, Nat.eqb_refl. reflexivity.
Qed.

(** [P] step 2 establishes the Gram-Schmidt relation for the new row *)
Theorem step2_preserves_gs : gs_rel n s -> k = S (l_kmax s) ->
  (forall j, (j <= l_kmax s)%nat -> Nb s j <> q0) ->
  wfstate n (step2 F s) /\ gs_rel n (step2 F s).
Proof.
  intros G Ek NZ.
  destruct (step2_entries ltac:(lia)) as (_ & Emax & EB & _ & W' & ES & EM & EN).
  split; [exact W'|].
  assert (BvE : forall i p, Bv (step2 F s) i p = Bv s i p) by (intros; unfold Bv; rewrite EB; reflexivity).
  (* <S2 k, b*_j> = 0 for j < k *)
  assert (Orth : forall j, (j < k)%nat -> qsum n (fun p => S2 k p *q Sv s j p) = q0).
  { intros j Hj. unfold S2.
    rewrite (qsum_ext n _ (fun p => Bv s k p *q Sv s j p +q
               Qcopp q1 *q qsum k (fun b => M2 b *q (Sv s b p *q Sv s j p)))).
    2:{ intros p Hp.
        rewrite (qsum_ext k (fun b => M2 b *q (Sv s b p *q Sv s j p)) (fun b => Sv s j p *q (M2 b *q Sv s b p)))
          by (intros; ring).
        rewrite qsum_scale. ring. }
    rewrite qsum_add, qsum_scale.
    assert (Ex : qsum n (fun p => qsum k (fun b => M2 b *q (Sv s b p *q Sv s j p))) = M2 j *q Nb s j).
    { clear - G Ek Hj.
      assert (Gen : forall m, (m <= k)%nat ->
                qsum n (fun p => qsum m (fun b => M2 b *q (Sv s b p *q Sv s j p)))
                = if Nat.ltb j m then M2 j *q Nb s j else q0).
      { induction m as [|m IH]; intros Hm.
        - cbn [qsum]. rewrite qsum_zero by reflexivity. reflexivity.
        - cbn [qsum]. rewrite qsum_add, IH by lia. rewrite qsum_scale.
          destruct (Nat.eq_dec m j) as [->|Hne].
          + destruct (Nat.ltb_spec j j); [lia|]. destruct (Nat.ltb_spec j (S j)); [|lia].
            rewrite <- (gs3 n s G j) by lia. ring.
          + rewrite (gs2 n s G m j) by lia.
            destruct (Nat.ltb_spec j m); destruct (Nat.ltb_spec j (S m)); try lia; ring. }
      rewrite Gen by lia. destruct (Nat.ltb_spec j k); [reflexivity|lia]. }
    rewrite Ex. unfold M2. field. apply NZ. lia. }
  constructor; rewrite Emax.
  - intros i p Hi. rewrite BvE, ES.
    destruct (Nat.eqb_spec i k) as [->|Hne].
    + rewrite (qsum_ext k _ (fun j => M2 j *q Sv s j p)).
      * unfold S2. ring.
      * intros j Hj. rewrite EM, ES, Nat.eqb_refl. destruct (Nat.ltb_spec j k); [|lia].
        destruct (Nat.eqb_spec j k); [lia|]. reflexivity.
    + rewrite (qsum_ext i _ (fun j => Mu s i j *q Sv s j p)).
      * apply (gs1 n s G). lia.
      * intros j Hj. rewrite EM, ES. destruct (Nat.eqb_spec i k); [congruence|]. cbn [andb].
        destruct (Nat.eqb_spec j k); [lia|]. reflexivity.
  - intros i j Hi Hj Hne.
    rewrite (qsum_ext n _ (fun p => (if Nat.eqb i k then S2 k p else Sv s i p) *q (if Nat.eqb j k then S2 k p else Sv s j p)))
      by (intros; rewrite !ES; reflexivity).
    destruct (Nat.eqb_spec i k) as [->|Hik]; destruct (Nat.eqb_spec j k) as [->|Hjk]; try congruence.
    + apply Orth. lia.
    + rewrite qsum_comm. apply Orth. lia.
    + apply (gs2 n s G); lia.
  - intros i Hi. rewrite EN.
    destruct (Nat.eqb_spec i k) as [->|Hik].
    + apply qsum_ext. intros p Hp. rewrite ES, Nat.eqb_refl. reflexivity.
    + rewrite (qsum_ext n _ (fun p => Sv s i p *q Sv s i p)).
      * apply (gs3 n s G). lia.
      * intros p Hp. rewrite ES. destruct (Nat.eqb_spec i k); [congruence|]. reflexivity.
Qed.

End Step2.

Lemma step2_id (s : lstate (T:=Qc)) : (l_k s <= l_kmax s)%nat -> step2 F s = s.
Proof. intros H. rewrite step2_unfold. destruct (Nat.ltb_spec (l_kmax s) (l_k s)); [lia|reflexivity]. Qed.
