(** Round 2 step, third wave (C06): the Round 2 step maps orders to orders ([Order::get_mult_table] returns on
    the result), hence along the run of the driver every step at a prime returns as soon as the starting order
    is closed under multiplication; the only panic left in the loops of [find_integral_basis] is the u64
    overflow of the exponent bookkeeping.  stdlib + lia. *)
From RNT.Model Require Import Base Poly Algebraic LinAlg MultTable Order Round2.
From RNT.Model Require Hnf Elementary.
From RNT.Refine Require Import MatZ HnfOps HnfSpec HnfMain HnfKernel HnfTotal HnfUnique.
From RNT.Refine Require Import Round2Basic Round2Index Round2Lattice Round2Det Round2Fuel.
From RNT.Refine Require Import Round2W3Ip Round2W3Up Round2W3Step Round2W3Total Round2W3Ring Round2W3Order Round2W3Radical.
From RNT.Refine Require MultTableOps AlgNormMx Round2W3Mul Round2W3Table Round2W3Det Round2W3Lift PolyZ OrderCanon TrialDivProofs.
From Coq Require Import Lia Znumtheory QArith Qcanon.
Open Scope Z_scope.

(** ** [qlincomb] entry by entry *)
Lemma qlincomb_combQ m : forall c (A : qmat) j, OrderCanon.qwf m A -> (j < m)%nat ->
  nth j (OrderCanon.qlincomb m c A) q0 = combQ c A j.
Proof.
  induction c as [|c0 c IH]; intros A j W Hj.
  - destruct A; cbn; apply nth_repeat.
  - destruct A as [|r A]; [cbn; apply nth_repeat|].
    cbn [OrderCanon.qlincomb combQ].
    assert (Lr : length r = m) by (inversion W; assumption).
    assert (W' : OrderCanon.qwf m A) by (inversion W; assumption).
    unfold OrderCanon.qvadd. rewrite (DetOrder.nth_map2_gen (d1 := q0) (d2 := q0)).
    + rewrite IH by assumption. f_equal. unfold OrderCanon.qvscale.
      replace q0 with (Qcmult (qz c0) q0) at 1 by (unfold q0; ring).
      apply map_nth.
    + unfold OrderCanon.qvscale. rewrite map_length, OrderCanon.qlincomb_length; assumption.
    + unfold q0. ring.
Qed.

(** the stored basis returned by [hnf_reduce] is inside the lattice of the given basis *)
Lemma hnf_reduce_span n b r : (1 <= n)%nat -> OrderCanon.qshape n n b -> hnf_reduce b = Done r ->
  forall i, (i < n)%nat -> in_spanQ n (nth i r []) b.
Proof.
  intros Hn SB E i Hi.
  destruct (OrderCanon.hnf_reduce_equiv n b r Hn SB E) as [U [V [[LU WU] [_ [-> _]]]]].
  destruct SB as [Lb Wb].
  unfold OrderCanon.qmmul.
  rewrite nth_indep with (d' := (fun u => OrderCanon.qlincomb n u b) []) by (rewrite map_length; lia).
  rewrite (map_nth (fun u => OrderCanon.qlincomb n u b)).
  exists (nth i U []). split.
  - rewrite Lb. apply (wf_row n U i WU). lia.
  - intros j Hj. apply qlincomb_combQ; assumption.
Qed.

(** the two reduced tables are built when the exact table is *)
Lemma mapM_ok {A B C} (f : A -> outcome B) (g : A -> outcome C) : forall l zs,
  (forall x z, In x l -> g x = Done z -> exists y, f x = Done y) ->
  mapM g l = Done zs -> exists ys, mapM f l = Done ys.
Proof.
  induction l as [|x l IH]; intros zs H E; cbn [mapM] in *; [eauto|].
  destruct (g x) as [z| |] eqn:Gx; cbn [bind] in E; try discriminate.
  destruct (mapM g l) as [t| |] eqn:Gt; cbn [bind] in E; try discriminate.
  destruct (H x z (or_introl eq_refl) Gx) as [y ->].
  destruct (IH t) as [ys ->]; [intros x' z' Hx'; apply H; right; assumption|reflexivity|].
  cbn [bind]. eauto.
Qed.

Lemma mult_tables_of_table f o deg p p2 T :
  length o = deg -> p <> 0 -> p2 <> 0 -> get_mult_table o f = Done T ->
  exists tbl tbl2, mult_tables f o deg p p2 = Done (tbl, tbl2).
Proof.
  intros Lo P0 P2 H. unfold get_mult_table in H. rewrite Lo in H. unfold mult_tables.
  eapply mapM_ok in H.
  - destruct H as [cells ->]. cbn [bind]. eauto.
  - intros i z _ E. cbv beta in *.
    destruct (nth_chk o i) as [bi| |]; cbn [bind] in *; try discriminate.
    eapply mapM_ok in E; [exact E|].
    intros j z' _ E'. cbv beta in *.
    destruct (nth_chk o j) as [bj| |]; cbn [bind] in *; try discriminate.
    destruct (alg_mul f (from_raw opsQc bi) (from_raw opsQc bj)) as [prod| |]; cbn [bind] in *; try discriminate.
    destruct (solve_linear_system fopsQc o (coefs_upto deg prod)) as [r| |]; cbn [bind] in *; try discriminate.
    destruct (unwrap_ok r) as [inv| |]; cbn [bind] in *; try discriminate.
    unfold to_int_vec in E'. unfold table_entries.
    eapply mapM_ok in E'; [exact E'|].
    intros k z'' _ E''. cbv beta in *.
    destruct (nth_chk inv k) as [x| |]; cbn [bind] in *; try discriminate.
    destruct (assert_ (q_is_integer x)) as [[]| |]; cbn [bind] in *; try discriminate.
    unfold zrem. destruct (p2 =? 0) eqn:E2; [apply Z.eqb_eq in E2; contradiction|].
    destruct (p =? 0) eqn:E1; [apply Z.eqb_eq in E1; contradiction|]. cbn [bind]. eauto.
Qed.

(** ** [P] the Round 2 step maps orders to orders *)
Theorem one_step_is_order f o p o' hh deg :
  PolyZ.canonZ f = true -> length f = S deg -> (1 <= deg)%nat -> prime p ->
  lower_from deg 0 o -> in_spanQ deg (one_vec deg) o ->
  one_step f o p = Done (o', hh) ->
  lower_from deg 0 o' /\ in_spanQ deg (one_vec deg) o' /\ exists T', get_mult_table o' f = Done T'.
Proof.
  intros Cf Lf D1 Pp LO One H.
  assert (P0 : p <> 0) by (destruct Pp; lia).
  destruct (lower_from_shape deg o LO) as [Lo Wo].
  pose proof (one_step_lower f o p o' hh deg Lf D1 H) as LO'.
  destruct (lower_from_shape deg o' LO') as [Lo' Wo'].
  destruct (one_step_contains f o p o' hh deg Lf D1 Lo Wo H) as [_ [_ Cont]].
  split; [assumption|]. split.
  { apply in_spanQ_trans with o; assumption. }
  destruct (one_step_order_one f o p o' hh deg Cf Lf D1 Pp Lo Wo One H)
    as [T [pow [tbl [tbl2 [i_p [u_p [h [Phi [GT [S1 [S3 [S4 [S5 [S8 [Wh [_ [_ [_ [_ [_ [_ CL]]]]]]]]]]]]]]]]]]]]].
  destruct (one_step_stages f o p o' hh H) as [pow' [deg' [tbl' [tbl2' [i_p' [u_p' [h' [nb [index ST]]]]]]]]].
  destruct ST as [T1 T2 T3 T4 T5 T6 T7 T8 T9 T10 T11 T12 T13].
  rewrite (deg_alloc_len f deg Lf) in T2. injection T2 as <-.
  rewrite S1 in T1. injection T1 as <-. rewrite S3 in T3. injection T3 as <- <-.
  rewrite S4 in T4. injection T4 as <-. rewrite S5 in T5. injection T5 as <-.
  rewrite S8 in T8. injection T8 as <-.
  destruct (new_basis_spec deg p h o nb D1 T10) as [_ [Lnb [Wnb Enb]]].
  unfold from_basis in T11.
  destruct (hnf_reduce_contains deg nb o' D1 Lnb Wnb T11) as [_ [_ Sub2]].
  pose proof (hnf_reduce_span deg nb o' D1 (conj Lnb Wnb) T11) as Sub1.
  apply (Round2W3Lift.lift_table_list (f := f) (n := deg) (o := o) (T := T) (p := p) (h := h) (nb := nb) (o' := o'));
    try assumption.
  - split; assumption.
  - intros t j Ht Hj. rewrite Enb by assumption. rewrite firstn_all2; [reflexivity|].
    pose proof (wf_row deg h t Wh ltac:(lia)) as Lr. unfold row in Lr. lia.
  - intros v Lv. apply (Round2W3Det.lower_solvable LO'). assumption.
Qed.

(** ** along the driver *)

(** [is_order f deg o]: a stored basis (lower triangular, positive diagonal) of a lattice that contains 1 and is
    closed under multiplication ([Order::get_mult_table] returns: all products have integer coordinates) *)
Definition is_order (f : list Z) (deg : nat) (o : qmat) : Prop :=
  lower_from deg 0 o /\ in_spanQ deg (one_vec deg) o /\ exists T, get_mult_table o f = Done T.

Theorem order_step_returns f deg o p :
  length f = S deg -> (1 <= deg)%nat -> prime p -> is_order f deg o ->
  exists o' hh, one_step f o p = Done (o', hh).
Proof.
  intros Lf D1 Pp [LO [_ [T GT]]].
  assert (P0 : p <> 0) by (destruct Pp; lia). assert (P2 : p * p <> 0) by nia.
  destruct (lower_from_shape deg o LO) as [Lo _].
  destruct (mult_tables_of_table f o deg p (p * p) T Lo P0 P2 GT) as [tbl [tbl2 MT]].
  apply (one_step_returns f o p deg tbl tbl2); assumption.
Qed.

Theorem order_step_order f deg o p o' hh :
  PolyZ.canonZ f = true -> length f = S deg -> (1 <= deg)%nat -> prime p -> is_order f deg o ->
  one_step f o p = Done (o', hh) -> is_order f deg o'.
Proof.
  intros Cf Lf D1 Pp [LO [One _]] H. apply (one_step_is_order f o p o' hh deg); assumption.
Qed.

Lemma start_is_order f deg o0 T0 :
  length f = S deg -> (1 <= deg)%nat -> non_monic_initial_order f = Done o0 ->
  get_mult_table o0 f = Done T0 -> is_order f deg o0.
Proof.
  intros Lf D1 N0 GT. split; [apply (non_monic_lower f deg o0); assumption|].
  split; [apply (start_one f deg o0); assumption|eauto].
Qed.

Lemma u64_norm_panic m x t : u64_norm m x = Panic t -> t = POverflow.
Proof.
  unfold u64_norm. destruct ((0 <=? x) && (x <? two64)); [discriminate|]. destruct m; [|discriminate].
  intros H. injection H as <-. reflexivity.
Qed.

Lemma u64_norm_fuel m x : u64_norm m x <> OutOfFuel.
Proof. unfold u64_norm. destruct ((0 <=? x) && (x <? two64)); [discriminate|]. destruct m; discriminate. Qed.

(** the [while] loop at a prime, started on an order: it returns an order, or panics with the u64 overflow of
    the exponent bookkeeping (dev profile), or runs out of the fuel it was given *)
Theorem prime_loop_order f deg p m :
  PolyZ.canonZ f = true -> length f = S deg -> (1 <= deg)%nat -> prime p ->
  forall fuel o e, is_order f deg o ->
  match prime_loop fuel m f o p e with
  | Done o' => is_order f deg o'
  | Panic t => t = POverflow
  | OutOfFuel => True
  end.
Proof.
  intros Cf Lf D1 Pp. induction fuel as [|fu IH]; intros o e IO; [exact I|].
  cbn [prime_loop]. destruct (2 <=? e); [|assumption].
  destruct (order_step_returns f deg o p Lf D1 Pp IO) as [o1 [h E]]. rewrite E. cbn [bind].
  pose proof (order_step_order f deg o p o1 h Cf Lf D1 Pp IO E) as IO1.
  destruct (u64_norm m (2 * h)) as [t| |] eqn:E1; cbn [bind];
    [|apply (u64_norm_panic m _ _ E1)|exact I].
  destruct (u64_norm m (e - t)) as [e1| |] eqn:E2; cbn [bind];
    [|apply (u64_norm_panic m _ _ E2)|exact I].
  destruct (h =? 0); [assumption|]. apply IH. assumption.
Qed.

Theorem primes_loop_order f deg m :
  PolyZ.canonZ f = true -> length f = S deg -> (1 <= deg)%nat ->
  forall fac o, Forall (fun pe => prime (fst pe)) fac -> is_order f deg o ->
  match primes_loop m f fac o with
  | Done o' => is_order f deg o'
  | Panic t => t = POverflow
  | OutOfFuel => True
  end.
Proof.
  intros Cf Lf D1. induction fac as [|[p e] rest IH]; intros o Pf IO; cbn [primes_loop]; [assumption|].
  inversion Pf as [|x l Pp Prest]; subst. cbn [fst] in Pp.
  pose proof (prime_loop_order f deg p m Cf Lf D1 Pp (prime_fuel e) o e IO) as PL.
  destruct (prime_loop (prime_fuel e) m f o p e) as [o1| |]; cbn [bind]; [|assumption|exact I].
  apply IH; assumption.
Qed.

(** [C] find_integral_basis_order_partial: PROVIDED the starting order Z[theta] cap Z[1/theta] is closed under
    multiplication (flag: [Order::get_mult_table] returns on it; always the case for monic f), the result of the
    driver is an order (stored basis, contains 1, closed under multiplication), and every panic of the driver is
    one of: a panic of [non_monic_initial_order], of [o.discriminant(theta)], of the trial factorisation
    (discriminant 0), or the u64 overflow [POverflow] of the exponent bookkeeping [e -= 2 * howmany]: no assertion
    or index panic of [one_step] is reachable. *)
Theorem find_integral_basis_order m f deg :
  PolyZ.canonZ f = true -> length f = S deg -> (1 <= deg)%nat ->
  (forall o0, non_monic_initial_order f = Done o0 -> exists T0, get_mult_table o0 f = Done T0) ->
  match find_integral_basis m f with
  | Done om => is_order f deg om
  | Panic t =>
      non_monic_initial_order f = Panic t \/
      (exists o0, non_monic_initial_order f = Done o0 /\
         (order_disc m o0 f = Panic t \/
          exists disc, order_disc m o0 f = Done disc /\
            (Elementary.trial_factorize (Z.abs disc) = Panic t \/ t = POverflow)))
  | OutOfFuel => True
  end.
Proof.
  intros Cf Lf D1 Flag. unfold find_integral_basis.
  destruct (non_monic_initial_order f) as [o0| |] eqn:N0; cbn [bind]; [|left; reflexivity|exact I].
  destruct (Flag o0 eq_refl) as [T0 GT0].
  pose proof (start_is_order f deg o0 T0 Lf D1 N0 GT0) as IO0.
  destruct (order_disc m o0 f) as [disc| |] eqn:OD; cbn [bind];
    [|right; exists o0; split; [reflexivity|left; assumption]|exact I].
  destruct (Elementary.trial_factorize (Z.abs disc)) as [fac| |] eqn:TF; cbn [bind];
    [|right; exists o0; split; [reflexivity|right; exists disc; split; [assumption|left; assumption]]|exact I].
  assert (Pf : Forall (fun pe => prime (fst pe)) fac).
  { destruct (Z_lt_le_dec (Z.abs disc) 1) as [Hlt|Hge].
    - rewrite (TrialDivProofs.trial_factorize_panic _ Hlt) in TF. discriminate.
    - destruct (TrialDivProofs.trial_factorize_spec _ Hge) as [l [El [_ [Pl _]]]].
      rewrite TF in El. injection El as <-. apply Forall_forall. intros [p e] Hin. apply (Pl p e Hin). }
  pose proof (primes_loop_order f deg m Cf Lf D1 fac o0 Pf IO0) as PL.
  destruct (primes_loop m f fac o0) as [om|t|]; [assumption| |exact I].
  right. exists o0. split; [reflexivity|]. right. exists disc. split; [assumption|]. right. assumption.
Qed.

(** ** [P] on a stored basis and at a prime, the only reachable panic of [one_step] is [assert!(inv[k].is_integer())] *)
From RNT.Refine Require Round2W3Tables.

Theorem one_step_only_assert f o p deg :
  PolyZ.canonZ f = true -> length f = S deg -> (1 <= deg)%nat -> prime p -> lower_from deg 0 o ->
  match one_step f o p with
  | Done _ => True
  | Panic t => t = PAssert /\ mult_tables f o deg p (p * p) = Panic PAssert
  | OutOfFuel => False
  end.
Proof.
  intros Cf Lf D1 Pp LO. assert (P0 : p <> 0) by (destruct Pp; lia).
  pose proof (one_step_no_panic f o p deg Lf D1 Pp LO (one_step f o p) eq_refl) as NP.
  pose proof (Round2W3Tables.mult_tables_ok_or_assert (f := f) (n := deg) (o := o) (p := p) Cf Lf LO P0) as OA.
  destruct (one_step f o p) as [r|t|]; [exact I| |].
  - rewrite NP in OA. cbn in OA. destruct t; try contradiction. rewrite NP. split; reflexivity.
  - rewrite NP in OA. exact OA.
Qed.
