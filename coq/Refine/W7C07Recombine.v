(** * W7C07Recombine: C07, the subset recombination does not panic.

    Setting of PolyZFactorW3Zass.v: [p] prime, [e > 0], the current polynomial [a] with its lifted factors [L]
    ([rinv a L]: monic, irreducible and pairwise coprime modulo p, a = lc(a) prod L mod p^e, p not dividing lc(a)).
    With at most 25 lifted factors (the [assert!(lifted.len() <= 25)]) and fewer than 2^64 coefficients in play,
    every subset test returns ([try_subset_total]: the indices are in range, the modulus is non-zero, the product
    of the subset is not zero so that [prod.deg() + 1] does not overflow, and the [expect] cannot fire), hence
    the loop never panics ([recombine_no_panic]). *)
From Coq Require Import ZArith List Lia Znumtheory.
From RNT.Model Require Import Base Poly PolyModP FactorModP Hensel PolyZFactor.
From mathcomp Require Import all_ssreflect ssralg poly polydiv ssrint zmodp.
From RNT.Refine Require Import PolyRefine PolyDiv PolyZ PolyModPArith PolyZmod MonicZ FmpField FmpTotal HenselTotal.
From RNT.Refine Require Import PolyZFactorMult PolyZFactorMain PolyZFactorTop PolyZFactorPos PolyZFactorEnum.
From RNT.Refine Require Import PolyZFactorW3Run PolyZFactorW3Unwrap PolyZFactorW3Hensel PolyZFactorW3Subset PolyZFactorW3Masks PolyZFactorW3Zass.
From mathcomp Require Import ssrZ zify ring.
Set Implicit Arguments.
Unset Strict Implicit.
Unset Printing Implicit Defensive.
Import GRing.Theory.
Local Open Scope ring_scope.

(** ** sizes *)
Lemma poly_mod_size (x r : seq Z) (m : Z) : poly_mod x m = Done r -> (size r <= size x)%N.
Proof.
rewrite /poly_mod; case: x => [|c x]; first by case=> <-.
case: ifP => // _ [<-]; rewrite /from_raw.
have := strip_length (List.map (fun c0 : Z => Z.modulo c0 m) (c :: x)).
by rewrite List.map_length -!Llength_eq => /leP.
Qed.

Lemma pmul_size (a b : seq Z) : (size (pmul opsZ a b) <= size a + size b)%N.
Proof.
rewrite opsZ_eq pmul_polyseq.
apply: leq_trans (size_mul_leq _ _) _.
have := size_Poly a; have := size_Poly b.
move: (size (Poly a)) (size (Poly b)) => x y h1 h2. apply: leq_trans (leq_pred _) _. exact: leq_add.
Qed.

(** ** the product of a subset *)
Lemma subset_prod_total (L : seq (seq Z)) idx prod pe : pe <> Z0 ->
  (forall i, i \in idx -> (i < size L)%N) ->
  exists2 prod0, subset_prod L idx prod pe = Done prod0
    & (size prod0 <= size prod + \sum_(i <- idx) size (nth [::] L i))%N.
Proof.
move=> hpe; elim: idx prod => [|i idx IH] prod hin /=.
  by exists prod => //; rewrite big_nil addn0.
have hi : (i < size L)%N by apply: hin; rewrite inE eqxx.
have -> : nth_chk L i = Done (nth [::] L i).
  by rewrite (@nth_chk_in _ L i [::]) ?Lnth_eq //; apply/ltP; rewrite Llength_eq.
have [prod' em] := poly_mod_total (pmul opsZ prod (nth [::] L i)) pe hpe.
rewrite /= em /=.
have [|prod0 es le] := IH prod'; first by move=> j hj; apply: hin; rewrite inE hj orbT.
exists prod0 => //; rewrite big_cons.
have := poly_mod_size em; have := pmul_size prod (nth [::] L i).
by move: le; move: (size prod0) (size prod') (size (pmul _ _ _)) (size prod) (size (nth _ _ _)) (\sum_(_ <- _) _)%N; lia.
Qed.

Lemma sum_size_le (L : seq (seq Z)) (idx : seq nat) K :
  (forall l, l \in L -> (size l <= K)%N) -> (forall i, i \in idx -> (i < size L)%N) ->
  (\sum_(i <- idx) size (nth [::] L i) <= size idx * K)%N.
Proof.
move=> hK; elim: idx => [|i idx IH] hin; first by rewrite big_nil.
rewrite big_cons /= mulSn; apply: leq_add.
- by apply: hK; apply: mem_nth; apply: hin; rewrite inE eqxx.
- by apply: IH => j hj; apply: hin; rewrite inE hj orbT.
Qed.

(** the product of monic polynomials with a constant not divisible by the modulus is not zero modulo it *)
Lemma eqpm_monic_neq0 (pe lca : Z) (M : {poly Z}) (x : {poly Z}) : pe <> Z0 -> M \is monic -> ~ (pe | lca)%ZZ ->
  eqpm pe x (lca%:P * M) -> x != 0.
Proof.
move=> pe0 hM nd ex; apply/eqP => x0; apply: nd.
have := eqpm_coef ex (size M).-1; rewrite x0 coef0 mul_polyC coefZ -lead_coefE (monicP hM) mulr1.
by rewrite Z.mod_0_l // => /esym /(Z.mod_divide _ _ pe0).
Qed.

Lemma symmetric_total md (prod0 : seq Z) pe pe2 : pe <> Z0 -> prod0 <> [::] ->
  (Z.of_nat (size prod0) < two64)%ZZ ->
  exists prod, PolyZFactor.symmetric md prod0 pe pe2 = Done prod.
Proof.
move=> hpe pn lt; rewrite /PolyZFactor.symmetric.
have -> : u64_norm md (pdeg prod0 + 1) = Done (pdeg prod0 + 1)%ZZ.
  apply: u64_norm_done; rewrite /pdeg; case: (prod0) pn lt => [|c x] // _; rewrite -Llength_eq; lia.
rewrite /=.
have [t ->] := poly_mod_total (padd opsZ prod0 (from_raw opsZ (repeat pe2 (length prod0)))) pe hpe.
by eexists.
Qed.

Lemma first_success_total R (test : list nat -> outcome (option R)) l :
  (forall idx, idx \in l -> exists r, test idx = Done r) -> exists r, first_success test l = Done r.
Proof.
elim: l => [|i l IH] hin /=; first by eexists.
have [[y|] ->] /= := hin i (mem_head _ _); first by eexists.
by apply: IH => j hj; apply: hin; rewrite inE hj orbT.
Qed.

Section Zassenhaus.
Variable n : nat.
Hypothesis n_prime : prime n.
Variable e : nat.
Hypothesis e_gt0 : (0 < e)%N.
Notation p := (Z.of_nat n).
Notation pe := (p ^+ e).

Let n_gt1 : (1 < n)%nat. Proof. exact: prime_gt1. Qed.
Let pe_gt1 : (1 < pe)%ZZ.
Proof.
have h : (2 <= p)%ZZ by lia.
rewrite -(prednK e_gt0) exprS.
have : (1 <= p ^+ e.-1)%ZZ.
  by elim: (e.-1) => [|k IH] //; rewrite exprS; move: IH h; rewrite /GRing.mul /=; nia.
by move: h; rewrite /GRing.mul /=; nia.
Qed.
Let pe_neq0 : pe <> Z0. Proof. by lia. Qed.
Let p_dvd_pe : (p | pe)%ZZ.
Proof. by rewrite -(prednK e_gt0) exprS; exact: Z.divide_factor_l. Qed.

(** ** one subset test returns *)
Lemma try_subset_total md (a : seq Z) L k K : rinv n e a L ->
  (forall l, l \in L -> (size l <= K)%N) -> (Z.of_nat (1 + size L * K) < two64)%ZZ ->
  exists r, try_subset md a (lead opsZ a) pe (Z.quot pe 2) L (bits_of (size L) k) = Done r.
Proof.
move=> inv hK hsz; have [ca a0 nda ok ea] := inv.
set idx := bits_of (size L) k.
have hin i : i \in idx -> (i < size L)%N by rewrite mem_bits_of => /andP [].
have lca0 : lead opsZ a != 0.
  by rewrite opsZ_eq lead_last; move: ca; rewrite /canonZ canon_last.
have hun := @try_subset_no_unwrap md a (lead opsZ a) pe (Z.quot pe 2) L idx ca lca0.
move: hun; rewrite /try_subset.
have [prod0 es le] := @subset_prod_total L idx (from_mono opsZ (lead opsZ a)) pe pe_neq0 hin.
rewrite es /=.
have hs := subset_prod_spec pe_neq0 es.
(* prod0 is not zero *)
have pn : prod0 <> [::].
  move=> p0; have [hm _ _] := ok.
  have hM : \prod_(i <- idx) PZ (nth [::] L i) \is monic.
    rewrite prod_bits; apply: lsprod_monic; apply/allP => l /mem_mask; exact: (allP hm).
  have nd : ~ (pe | lead opsZ a)%ZZ.
    by rewrite lead_opsZ // => d; apply: nda; exact: Z.divide_trans d.
  move: hs; rewrite PZ_from_mono => hs.
  by have := eqpm_monic_neq0 pe_neq0 hM nd hs; rewrite p0 PZ_nil eqxx.
have lt : (Z.of_nat (size prod0) < two64)%ZZ.
  have s1 : (size (from_mono opsZ (lead opsZ a)) <= 1)%N.
    by rewrite /from_mono /from_raw /=; case: ifP.
  have s2 := sum_size_le hK hin.
  have s3 : (size idx <= size L)%N.
    by rewrite /idx /bits_of size_filter; apply: leq_trans (count_size _ _) _; rewrite size_iota.
  have s4 : (size idx * K <= size L * K)%N by rewrite leq_mul2r s3 orbT.
  by move: hsz le s1 s2 s4; move: (size prod0) (size (from_mono _ _)) (\sum_(_ <- _) _)%N (size idx * K)%N (size L * K)%N; lia.
have [prod ey] := @symmetric_total md prod0 pe (Z.quot pe 2) pe_neq0 pn lt.
rewrite ey /=.
case ed: div_exact => [q|]; last by eexists.
by case ed2: div_exact => [a'|] //; eexists.
Qed.

(** ** the recombination loop never panics *)
Theorem recombine_no_panic fuel md d (a : seq Z) L res K t : rinv n e a L ->
  (size L <= 25)%N -> (forall l, l \in L -> (size l <= K)%N) -> (Z.of_nat (1 + 25 * K) < two64)%ZZ ->
  recombine fuel md pe (Z.quot pe 2) d a L res <> Panic t.
Proof.
elim: fuel d a L res => [|fuel IH] d a L res inv s25 hK hsz //=.
have [ca a0 nda ok ea] := inv.
have eln : length L = size L by [].
rewrite !eln.
case: Nat.leb_spec0 => [/leP le|/leP nle] //.
have -> : Nat.leb (size L) 25 = true by apply/Nat.leb_le/leP.
rewrite /=.
have hsz' : (Z.of_nat (1 + size L * K) < two64)%ZZ.
  have : (size L * K <= 25 * K)%N by rewrite leq_mul2r s25 orbT.
  by move: hsz; move: (size L * K)%N (25 * K)%N; lia.
case ef: find_subset => [[[idx [pp a']]|]|t'|] //=.
- have [/masksP [k [lt eidx ck]] et] := find_subset_some ef.
  rewrite eidx in et *.
  have [ppp ca' eaa epp ea'] := try_subset_sound n_prime e_gt0 inv et.
  have inv' := @rinv_split n e a L k pp a' inv ca' eaa ea'.
  apply: (IH _ _ _ _ inv').
  + rewrite remove_bits_mask size_mask ?size_map ?size_bmask ?size_iota //.
    by apply: leq_trans (count_size _ _) _; rewrite size_map size_bmask.
  + by move=> l; rewrite remove_bits_mask => /mem_mask; exact: hK.
  + exact: hsz.
- exact: IH.
- move: ef; rewrite find_subset_masks => ef.
  have [|r er] := @first_success_total _ (try_subset md a (lead opsZ a) pe (Z.quot pe 2) L) (masks (size L) d).
    move=> idx /masksP [k [_ -> _]]; exact: (try_subset_total md k inv hK hsz').
  by rewrite er in ef.
Qed.

End Zassenhaus.
