(** * C08 (second wave): statements on coefficient lists for Props/C08.v (ssreflect). *)
From Coq Require Import ZArith List Lia Znumtheory.
From mathcomp Require Import all_ssreflect ssralg poly polydiv ssrint zmodp.
From RNT.Model Require Import Base Poly PolyModP FactorModP.
From RNT.Refine Require Import PolyModPArith PolyModPDivList FermatZ PolyZmod PolyModPDiv MonicZ PolyModPGcd FpPoly HenselProofs FactorNorm FactorProd FpTotal C08Lists FmpField FmpSqf FmpProduct FmpIrred FmpDegree FmpSplit FmpFull FmpTotal FmpSafe.
From mathcomp Require Import ssrZ zify ring.
Set Implicit Arguments. Unset Strict Implicit. Unset Printing Implicit Defensive.
Import GRing.Theory.
Local Open Scope ring_scope.

(** prod g^e over a list of (g, e), as a coefficient list. *)
Definition lfprod (l : list (list Z * Z)) : list Z :=
  lprod (List.map (fun ge => lpow (fst ge) (Z.to_nat (snd ge))) l).

Lemma PZ_single c : PZ [:: c] = c%:P.
Proof. by rewrite PZ_cons PZ_nil mul0r add0r. Qed.

Section Prime.
Variable p : Z.
Hypothesis Hp : Znumtheory.prime p.
Let Hp2 := prime_ge_2 _ Hp.
Let Hpp : (0 < p)%ZZ. Proof. lia. Qed.
Let Hp0 : p <> Z0. Proof. lia. Qed.

Notation n := (pnat p).

Lemma redp_lfprod l : redp n (PZ (lfprod l)) = FProd p l.
Proof.
  rewrite /lfprod PZ_lprod. elim: l => [|[g e] l IH] /=; first by rewrite redp1.
  by rewrite redpM PZ_lpow redpX IH.
Qed.

(** [P] pusize is irrelevant when p > deg f. *)
Theorem squarefree_pusize_irrelevant md f pu pu' :
  (Z.of_nat (length f) <= p)%ZZ -> squarefree md f p pu = squarefree md f p pu'.
Proof. exact: squarefree_pu. Qed.

Theorem factorize_pusize_irrelevant md f pu pu' r :
  (Z.of_nat (length f) <= p)%ZZ -> factorize_mod_p md f p pu r = factorize_mod_p md f p pu' r.
Proof.
  move=> Hl. rewrite /factorize_mod_p. case Em: (poly_mod f p) => [f1| |] //=.
  rewrite (@squarefree_pu p Hp md f1 pu pu') //. have := poly_mod_length Hp Em. lia.
Qed.

(** [P] square-free stage: the parts multiply back to the input up to a unit. *)
Theorem squarefree_product_list md f f1 pusize out :
  md = Checked \/ (Z.of_nat (length f) <= two64)%ZZ ->
  pusize = p \/ (Z.of_nat (length f) <= p)%ZZ ->
  poly_mod f p = Done f1 -> f1 <> [::] ->
  squarefree md f p pusize = Done out ->
  exists c, (0 < c < p)%ZZ /\ peqmod p f (pmul opsZ [:: c] (lfprod out)).
Proof.
  move=> Hmd Hpu Em N1 H.
  have H' : squarefree md f p p = Done out.
  { case: Hpu H => [->|Hl] H //. by rewrite -(@squarefree_pu p Hp md f pusize p). }
  have E := squarefree_prod Hp Hmd Em N1 H'.
  have R1 := poly_mod_is_reduced Hpp Em.
  have F0 := rnz_RP Hp (conj R1 N1).
  rewrite eqp_sym in E. have /eqpf_eq [c Nc Ec] := E.
  exists (ofF c). have B := ofF_range (n_prime Hp) c. rewrite (En Hp) in B.
  split.
  - have : ofF c <> Z0.
    { move=> E0. move/eqP: Nc; apply. by rewrite -(ofFK (n_prime Hp) c) E0 rmorph0. }
    lia.
  - apply/(peqmodP _ _ Hp0)/(eqpm_RP Hp).
    rewrite PZ_pmul redpM PZ_single redpC (ofFK (n_prime Hp)) redp_lfprod mul_polyC -Ec.
    have := PZ_poly_mod Hp0 Em. by move/(eqpm_RP Hp) => <-.
Qed.

(** [P] the product clause of the property: f = lc(f mod p) * prod g_i^e_i modulo p. *)
Theorem factorize_product_list md f f1 pusize r out r' :
  md = Checked \/ (Z.of_nat (length f) <= two64)%ZZ ->
  pusize = p \/ (Z.of_nat (length f) <= p)%ZZ ->
  poly_mod f p = Done f1 -> f1 <> [::] ->
  factorize_mod_p md f p pusize r = Done (out, r') ->
  peqmod p f (pmul opsZ [:: List.last f1 Z0] (lfprod out)).
Proof.
  move=> Hmd Hpu Em N1 H.
  have H' : factorize_mod_p md f p p r = Done (out, r').
  { case: Hpu H => [->|Hl] H //. by rewrite -(@factorize_pusize_irrelevant md f pusize p). }
  apply/(peqmodP _ _ Hp0)/(eqpm_RP Hp).
  by rewrite PZ_pmul redpM PZ_single redpC redp_lfprod (factorize_prod Hp Hmd Em N1 H').
Qed.

(** Irreducibility modulo p, on coefficient lists: degree >= 1 and in every factorisation modulo p
    one factor is congruent to a constant. *)
Definition irreducible_mod (q : Z) (g : list Z) : Prop :=
  (2 <= length g)%coq_nat /\
  forall a b : list Z, peqmod q g (pmul opsZ a b) ->
    (exists c, peqmod q a [:: c]) \/ (exists c, peqmod q b [:: c]).

Lemma const_peqmod (a : list Z) : size (redp n (PZ a)) = 1%nat -> exists c, peqmod p a [:: c].
Proof.
  move=> /eqP /size_poly1P [c _ Ec]. exists (ofF c).
  apply/(peqmodP _ _ Hp0)/(eqpm_RP Hp). by rewrite PZ_single redpC (ofFK (n_prime Hp)).
Qed.

Lemma lirred_irreducible_mod g : (2 <= length g)%coq_nat -> lirred p g -> irreducible_mod p g.
Proof.
  move=> L [S I]. split=> // a b /(peqmodP _ _ Hp0) /(eqpm_RP Hp). rewrite PZ_pmul redpM => E.
  have Ng : redp n (PZ g) != 0 by rewrite -size_poly_gt0; apply: leq_trans S.
  have Na : redp n (PZ a) != 0 by apply: contraNneq Ng => Ea; rewrite E Ea mul0r.
  have Nb : redp n (PZ b) != 0 by apply: contraNneq Ng => Eb; rewrite E Eb mulr0.
  case Sa: (size (redp n (PZ a)) == 1%nat); first by left; apply: const_peqmod; exact/eqP.
  right. apply: const_peqmod.
  have Da : redp n (PZ a) %| redp n (PZ g) by rewrite E; exact: dvdp_mulr.
  have := eqp_size (I _ (negbT Sa) Da). rewrite E size_mul //.
  rewrite -size_poly_gt0 in Na. rewrite -size_poly_gt0 in Nb.
  move: (size (redp n (PZ a))) (size (redp n (PZ b))) Na Nb => x y. lia.
Qed.

(** [P] irreducibility and distinctness of the returned factors. *)
Theorem factorize_irreducible_list md f f1 pusize r out r' :
  pusize = p \/ (Z.of_nat (length f) <= p)%ZZ ->
  poly_mod f p = Done f1 -> f1 <> [::] ->
  factorize_mod_p md f p pusize r = Done (out, r') ->
  List.Forall (fun ge => irreducible_mod p (fst ge)) out /\ List.NoDup (List.map fst out).
Proof.
  move=> Hpu Em N1 H.
  have H' : factorize_mod_p md f p p r = Done (out, r').
  { case: Hpu H => [->|Hl] H //. by rewrite -(@factorize_pusize_irrelevant md f pusize p). }
  have [I D] := factorize_irred Hp Em N1 H'. split=> //.
  have G := factorize_normalised Hp (Z.lt_le_incl _ _ Hpp) H'.
  elim: (out) I G => [|ge l IH] I G; first by constructor.
  have [I1 I2] : lirred p ge.1 /\ List.Forall (fun ge => lirred p ge.1) l by move: I => /List.Forall_cons_iff.
  have [[_ [_ [L1 _]]] G2] : ngood p md ge /\ List.Forall (ngood p md) l by move: G => /List.Forall_cons_iff.
  constructor; last exact: IH. exact: lirred_irreducible_mod.
Qed.

(** ** The distinct-degree stage on lists *)

(** square-free modulo p: a square factor is congruent to a constant *)
Definition squarefree_mod (q : Z) (f : list Z) : Prop :=
  forall a b : list Z, peqmod q f (pmul opsZ (pmul opsZ a a) b) -> exists c, peqmod q a [:: c].

(** every irreducible (reduced) factor of a modulo p has degree d *)
Definition factors_degree (q : Z) (a : list Z) (d : Z) : Prop :=
  forall g k : list Z, canonical g -> in_range q g -> irreducible_mod q g ->
    peqmod q a (pmul opsZ g k) -> Z.of_nat (length g) = (d + 1)%ZZ.

Lemma PZ_polyseq (x : {poly Z}) : PZ (polyseq x) = x.
Proof. by rewrite /PZ polyseqK. Qed.

Lemma peqmod_const_size (a : list Z) c : peqmod p a [:: c] -> (size (redp n (PZ a)) <= 1)%nat.
Proof.
  move/(peqmodP _ _ Hp0)/(eqpm_RP Hp) => ->. rewrite PZ_single redpC. exact: size_polyC_leq1.
Qed.

Lemma irreducible_mod_lirred g : reduced p g -> irreducible_mod p g -> lirred p g.
Proof.
  move=> R [L I]. have Sg := reduced_size Hp R.
  have Ng : redp n (PZ g) != 0 by rewrite -size_poly_gt0 Sg; lia.
  split; first by rewrite Sg; lia.
  move=> q Sq /dvdpP [q' E].
  have Nq : q != 0 by apply: contraNneq Ng => Eq; rewrite E Eq mulr0.
  have Nq' : q' != 0 by apply: contraNneq Ng => Eq; rewrite E Eq mul0r.
  have Eg : peqmod p g (pmul opsZ (polyseq (liftp q)) (polyseq (liftp q'))).
  { apply/(peqmodP _ _ Hp0)/(eqpm_RP Hp). by rewrite PZ_pmul !PZ_polyseq redpM !(liftpK (n_prime Hp)) mulrC. }
  case: (I _ _ Eg) => [[c Hc]|[c Hc]].
  - exfalso. have := peqmod_const_size Hc. rewrite PZ_polyseq (liftpK (n_prime Hp)).
    rewrite -size_poly_gt0 in Nq. move: (size q) Sq Nq => x. case: x => [|[|x]] //.
  - have := peqmod_const_size Hc. rewrite PZ_polyseq (liftpK (n_prime Hp)) => S1.
    have /size_poly1P [c' Nc' Ec'] : size q' == 1%nat.
    { rewrite -size_poly_gt0 in Nq'. move: (size q') S1 Nq' => x. by case: x => [|[|x]]. }
    rewrite E Ec' mul_polyC eqp_sym. exact: eqp_scale.
Qed.

Lemma squarefree_mod_sqfreep f : rnz p f -> squarefree_mod p f -> sqfreep (redp n (PZ f)).
Proof.
  move=> Rf S g /dvdpP [k E].
  have Nf := rnz_RP Hp Rf.
  have Ng : g != 0 by apply: contraNneq Nf => Eg; rewrite E Eg expr0n /= mulr0.
  have Ef : peqmod p f (pmul opsZ (pmul opsZ (polyseq (liftp g)) (polyseq (liftp g))) (polyseq (liftp k))).
  { apply/(peqmodP _ _ Hp0)/(eqpm_RP Hp). rewrite !PZ_pmul !PZ_polyseq !redpM !(liftpK (n_prime Hp)) E expr2. ring. }
  have [c Hc] := S _ _ Ef. have := peqmod_const_size Hc. rewrite PZ_polyseq (liftpK (n_prime Hp)).
  rewrite -size_poly_gt0 in Ng. move: (size g) Ng => x. by case: x => [|[|x]].
Qed.

Lemma degs_all_factors_degree a d :
  (1 <= d)%ZZ -> degs_all (redp n (PZ a)) (Z.to_nat d) -> factors_degree p a d.
Proof.
  move=> Hd A g k Cg Rg Ig /(peqmodP _ _ Hp0) /(eqpm_RP Hp). rewrite PZ_pmul redpM => E.
  have Il := irreducible_mod_lirred (conj Cg Rg) Ig.
  have D : redp n (PZ g) %| redp n (PZ a) by rewrite E; exact: dvdp_mulr.
  have := A _ Il D. rewrite (reduced_size Hp (conj Cg Rg)). have [L _] := Ig. lia.
Qed.

(** [P] distinct-degree stage: on a square-free input every returned (a, d) has all its irreducible
    factors of degree exactly d. *)
Theorem degree_separates_list poly out :
  canonical poly -> in_range p poly -> poly <> [::] -> squarefree_mod p poly ->
  degree poly p = Done out ->
  List.Forall (fun ad => (1 <= snd ad)%ZZ /\ factors_degree p (fst ad) (snd ad)) out.
Proof.
  move=> C R N S H. have Rp : rnz p poly by [].
  have := degree_ok Hp Rp (squarefree_mod_sqfreep Rp S) H.
  apply: List.Forall_impl => ad [_ [Hd A]]. split=> //. exact: degs_all_factors_degree.
Qed.

(** A sufficient condition for square-freeness that can be checked by computation:
    u f + v f' = 1 modulo p. *)
Lemma squarefree_mod_bezout f u v :
  peqmod p (padd opsZ (pmul opsZ u f) (pmul opsZ v (pdiff opsZ f))) [:: 1%ZZ] -> squarefree_mod p f.
Proof.
  move/(peqmodP _ _ Hp0)/(eqpm_RP Hp). rewrite PZ_padd !PZ_pmul PZ_pdiff PZ_single redpD !redpM redp_deriv redpC.
  have -> : (toF n 1%ZZ)%:P = 1 :> {poly 'F_n} by rewrite (rmorph1 (toF n)) polyC1.
  move=> B.
  move=> a b /(peqmodP _ _ Hp0)/(eqpm_RP Hp). rewrite !PZ_pmul !redpM => E.
  apply: const_peqmod. apply/eqP. rewrite -dvdp1 -B E.
  apply: dvdp_add; apply: dvdp_mull.
  - rewrite -mulrA. exact: dvdp_mulr.
  - rewrite !derivM. apply: dvdp_add; last by rewrite -mulrA; exact: dvdp_mulr.
    apply: dvdp_mulr. apply: dvdp_add; [exact: dvdp_mull|exact: dvdp_mulr].
Qed.

Lemma expn_Zpow k : Z.of_nat (expn n k) = Z.pow p (Z.of_nat k).
Proof.
  elim: k => [|k IH]; first by rewrite expn0.
  rewrite expnS Nat2Z.inj_succ Z.pow_succ_r; last lia. by rewrite -IH Nat2Z.inj_mul (En Hp).
Qed.

(** [P] without hypothesis on the input: every a_d found by the loop divides X^(p^d) - X modulo p. *)
Theorem degree_dvd_list poly out :
  canonical poly -> in_range p poly -> poly <> [::] ->
  degree poly p = Done out ->
  exists loop last, out = loop ++ last /\ (length last <= 1)%coq_nat /\
    List.Forall (fun ad => (1 <= snd ad)%ZZ /\
      exists k, peqmod p (psub opsZ (lpow [:: Z0; 1%ZZ] (Z.to_nat (Z.pow p (snd ad)))) [:: Z0; 1%ZZ])
                         (pmul opsZ (fst ad) k)) loop.
Proof.
  move=> C R N H. have Rp : rnz p poly by [].
  have [loop [last [E [F L]]]] := degree_dvd Hp Rp H.
  exists loop, last. split=> //. split=> //.
  move: F. apply: List.Forall_impl => ad [Hd /dvdpP [k Ek]]. split=> //.
  exists (polyseq (liftp k)). apply/(peqmodP _ _ Hp0)/(eqpm_RP Hp).
  rewrite PZ_psub PZ_lpow PZ_pmul PZ_polyseq redpB redpX redpM (liftpK (n_prime Hp)) mulrC -Ek.
  have -> : redp n (PZ [:: Z0; 1%ZZ]) = 'X by exact: (RP_poly_x p).
  congr ('X^_ - _).
  have := expn_Zpow (Z.to_nat (snd ad)). rewrite Z2Nat.id; last lia. move=> <-. lia.
Qed.

End Prime.

(** ** The statements in the form used by Props/C08.v *)

Theorem squarefree_product_all md p f f1 pusize out :
  Znumtheory.prime p ->
  md = Checked \/ (Z.of_nat (length f) <= two64)%ZZ ->
  pusize = p \/ (Z.of_nat (length f) <= p)%ZZ ->
  poly_mod f p = Done f1 -> f1 <> [::] ->
  squarefree md f p pusize = Done out ->
  exists c, (0 < c < p)%ZZ /\ peqmod p f (pmul opsZ [:: c] (lfprod out)).
Proof. move=> Hp. exact: squarefree_product_list. Qed.

Theorem factorize_product_all md p f f1 pusize r out r' :
  Znumtheory.prime p ->
  md = Checked \/ (Z.of_nat (length f) <= two64)%ZZ ->
  pusize = p \/ (Z.of_nat (length f) <= p)%ZZ ->
  poly_mod f p = Done f1 -> f1 <> [::] ->
  factorize_mod_p md f p pusize r = Done (out, r') ->
  peqmod p f (pmul opsZ [:: List.last f1 Z0] (lfprod out)).
Proof. move=> Hp. exact: factorize_product_list. Qed.

Theorem pusize_irrelevant_all md p f pu pu' r :
  Znumtheory.prime p -> (Z.of_nat (length f) <= p)%ZZ ->
  squarefree md f p pu = squarefree md f p pu' /\
  factorize_mod_p md f p pu r = factorize_mod_p md f p pu' r.
Proof.
  move=> Hp Hl. split; first exact: squarefree_pusize_irrelevant.
  exact: factorize_pusize_irrelevant.
Qed.

Theorem factorize_irreducible_all md p f f1 pusize r out r' :
  Znumtheory.prime p ->
  pusize = p \/ (Z.of_nat (length f) <= p)%ZZ ->
  poly_mod f p = Done f1 -> f1 <> [::] ->
  factorize_mod_p md f p pusize r = Done (out, r') ->
  List.Forall (fun ge => irreducible_mod p (fst ge)) out /\ List.NoDup (List.map fst out).
Proof. move=> Hp. exact: factorize_irreducible_list. Qed.

Theorem degree_separates_all p poly out :
  Znumtheory.prime p ->
  canonical poly -> in_range p poly -> poly <> [::] -> squarefree_mod p poly ->
  degree poly p = Done out ->
  List.Forall (fun ad => (1 <= snd ad)%ZZ /\ factors_degree p (fst ad) (snd ad)) out.
Proof. move=> Hp. exact: degree_separates_list. Qed.

Theorem degree_dvd_all p poly out :
  Znumtheory.prime p ->
  canonical poly -> in_range p poly -> poly <> [::] ->
  degree poly p = Done out ->
  exists loop last, out = loop ++ last /\ (length last <= 1)%coq_nat /\
    List.Forall (fun ad => (1 <= snd ad)%ZZ /\
      exists k, peqmod p (psub opsZ (lpow [:: Z0; 1%ZZ] (Z.to_nat (Z.pow p (snd ad)))) [:: Z0; 1%ZZ])
                         (pmul opsZ (fst ad) k)) loop.
Proof. move=> Hp. exact: degree_dvd_list. Qed.

Lemma squarefree_mod_bezout_all p f u v :
  Znumtheory.prime p ->
  peqmod p (padd opsZ (pmul opsZ u f) (pmul opsZ v (pdiff opsZ f))) [:: 1%ZZ] -> squarefree_mod p f.
Proof. move=> Hp. exact: squarefree_mod_bezout. Qed.

(** [P] a non-zero constant modulo p: the empty list, no draw. *)
Theorem factorize_constant_all md p f c pusize r :
  Znumtheory.prime p -> poly_mod f p = Done [:: c] ->
  factorize_mod_p md f p pusize r = Done ([::], r).
Proof.
  move=> Hp Em. have Hp2 := prime_ge_2 _ Hp. have Hpp : (0 < p)%ZZ by lia.
  have [C R] := poly_mod_is_reduced Hpp Em.
  have E1 : poly_mod [:: c] p = Done [:: c] by apply: poly_mod_id.
  have Sq : squarefree md [:: c] p pusize = Done [::].
  { rewrite /squarefree E1. cbn [bind]. reflexivity. }
  rewrite /factorize_mod_p Em. cbn [bind]. rewrite Sq. by cbn [bind].
Qed.

(** [P] a prime beyond the machine word exceeds the length of every real coefficient vector. *)
Theorem pusize_irrelevant_bigp md p f pu pu' r :
  Znumtheory.prime p -> (two64 <= p)%ZZ -> (Z.of_nat (length f) <= two64)%ZZ ->
  squarefree md f p pu = squarefree md f p pu' /\
  factorize_mod_p md f p pu r = factorize_mod_p md f p pu' r.
Proof. move=> Hp H1 H2. apply: pusize_irrelevant_all => //. lia. Qed.

(** [P] the deterministic stages return. *)
Theorem squarefree_total_all md p f f1 pusize :
  Znumtheory.prime p ->
  (Z.of_nat (length f) <= two64)%ZZ ->
  pusize = p \/ (Z.of_nat (length f) <= p)%ZZ ->
  poly_mod f p = Done f1 -> f1 <> [::] ->
  exists out, squarefree md f p pusize = Done out.
Proof. move=> Hp. exact: squarefree_total. Qed.

Theorem degree_total_all p poly :
  Znumtheory.prime p -> canonical poly -> in_range p poly -> poly <> [::] ->
  exists out, degree poly p = Done out.
Proof. move=> Hp C R N. exact: (degree_total Hp (conj (conj C R) N)). Qed.

(** [P] no panic: the outcome is a value or (model only) exhausted retry fuel. *)
Theorem factorize_no_panic_all md p f f1 pusize r :
  Znumtheory.prime p ->
  (Z.of_nat (length f) <= two64)%ZZ ->
  pusize = p \/ (Z.of_nat (length f) <= p)%ZZ ->
  poly_mod f p = Done f1 -> f1 <> [::] ->
  (exists out r', factorize_mod_p md f p pusize r = Done (out, r')) \/
  factorize_mod_p md f p pusize r = OutOfFuel.
Proof.
  move=> Hp Hl Hpu Em N1.
  case: (factorize_safe Hp md r Hl Hpu Em N1) => [[[out r'] E]|E]; [left|right] => //.
  by exists out, r'.
Qed.

(** [P] both profiles compute the same; multiplicities are >= 1 in both. *)
Theorem profile_irrelevant_all md p f f1 pusize r :
  Znumtheory.prime p ->
  (Z.of_nat (length f) <= two64)%ZZ ->
  pusize = p \/ (Z.of_nat (length f) <= p)%ZZ ->
  poly_mod f p = Done f1 -> f1 <> [::] ->
  factorize_mod_p md f p pusize r = factorize_mod_p Checked f p pusize r.
Proof. move=> Hp. exact: factorize_profile_irrelevant. Qed.

Theorem multiplicities_pos_all md p f f1 pusize r out r' :
  Znumtheory.prime p ->
  (Z.of_nat (length f) <= two64)%ZZ ->
  pusize = p \/ (Z.of_nat (length f) <= p)%ZZ ->
  poly_mod f p = Done f1 -> f1 <> [::] ->
  factorize_mod_p md f p pusize r = Done (out, r') ->
  List.Forall (fun ge => (1 <= snd ge)%ZZ) out.
Proof.
  move=> Hp Hl Hpu Em N1. rewrite (factorize_profile_irrelevant md r Hp Hl Hpu Em N1) => H.
  have Hp2 := prime_ge_2 _ Hp. have Hp0 : (0 <= p)%ZZ by lia.
  have H' : factorize_mod_p Checked f p p r = Done (out, r').
  { case: Hpu H => [->|Hlp] H //. by rewrite -(@factorize_pusize_irrelevant p Hp Checked f pusize p). }
  have := factorize_normalised Hp Hp0 H'.
  apply: List.Forall_impl => ge [_ [_ [_ M]]]. exact: M.
Qed.

Lemma prime_5 : Znumtheory.prime 5%ZZ.
Proof.
  apply: prime_intro; first by []. move=> k Hk.
  have C : k = 1%ZZ \/ k = 2%ZZ \/ k = 3%ZZ \/ k = 4%ZZ by lia.
  case: C => [->|[->|[->|->]]]; apply Zgcd_1_rel_prime; reflexivity.
Qed.

(** The predicate [irreducible_mod] is not trivially true: x^4 + 1 = (x^2 + 2)(x^2 + 3) modulo 5. *)
Lemma irreducible_mod_neg_example : ~ irreducible_mod 5%ZZ [:: 1; 0; 0; 0; 1]%ZZ.
Proof.
  have P5 := prime_5. have H5 : 5%ZZ <> Z0 by [].
  move=> [_ H].
  have E : peqmod 5%ZZ [:: 1; 0; 0; 0; 1]%ZZ (pmul opsZ [:: 2; 0; 1]%ZZ [:: 3; 0; 1]%ZZ) by vm_compute.
  have Nc (a0 : Z) c : ~ peqmod 5%ZZ [:: a0; Z0; 1%ZZ] [:: c].
  { move/(peqmodP _ _ H5) => /eqpm_coef /(_ 2%nat). rewrite !coefPZ /=. by []. }
  case: (H _ _ E) => [[c Hc]|[c Hc]]; exact: (Nc _ _ Hc).
Qed.
