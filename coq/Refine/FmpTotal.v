(** * C08 (second wave): the deterministic stages [squarefree] and [degree] return: no panic and
    the supplied fuel suffices (ssreflect).

    [squarefree]: the inner loop strictly decreases deg t + deg v, the outer loop the degree of t0
    (a p-th root); no multiplicity overflows when the coefficient vector has at most 2^64 entries
    (the multiplicities are bounded by deg f through the product invariant).
    [degree]: d increases up to deg v / 2. *)
From Coq Require Import ZArith List Lia Znumtheory.
From mathcomp Require Import all_ssreflect ssralg poly polydiv ssrint zmodp.
From RNT.Model Require Import Base Poly PolyModP FactorModP.
From RNT.Refine Require Import PolyModPArith PolyModPDivList FermatZ PolyZmod PolyModPDiv MonicZ PolyModPGcd FpPoly FactorNorm FpTotal FmpField FmpSqf.
From mathcomp Require Import ssrZ zify ring.
Set Implicit Arguments. Unset Strict Implicit. Unset Printing Implicit Defensive.
Import GRing.Theory.
Local Open Scope ring_scope.

Lemma u64_norm_done md x : (0 <= x < two64)%ZZ -> u64_norm md x = Done x.
Proof.
  move=> [H0 H1]. rewrite /u64_norm.
  have -> : (0 <=? x)%ZZ = true by apply/Z.leb_le.
  have -> : (x <? two64)%ZZ = true by apply/Z.ltb_lt. by [].
Qed.

Lemma size_sum_step (st st' sw sv sa fuel : nat) :
  st = (st' + sw).-1 -> sv = (sa + sw).-1 -> (0 < st')%nat -> (0 < sw)%nat -> (0 < sa)%nat ->
  (1 < sv)%nat -> (st + sv <= fuel.+1)%nat -> (st' + sw <= fuel)%nat.
Proof. lia. Qed.

Lemma root_size_lt (ss st m N : nat) :
  st.-1 = (ss.-1 * m)%nat -> (1 < m)%nat -> (1 < st)%nat -> (st <= N)%nat -> (ss < N)%nat.
Proof. nia. Qed.

Section Prime.
Variable p : Z.
Hypothesis Hp : Znumtheory.prime p.
Let Hp2 := prime_ge_2 _ Hp.
Let Hpp : (0 < p)%ZZ. Proof. lia. Qed.
Let Hp0 : p <> Z0. Proof. lia. Qed.

Notation n := (pnat p).
Notation RP l := (redp n (PZ l)).
Let n_prime := n_prime Hp.
Let n_gt1 : (1 < n)%nat. Proof. exact: prime_gt1 n_prime. Qed.

(** ** Primitives *)

Lemma mulmod_total x y g : reduced p g -> exists r, mulmod x y g p = Done r.
Proof.
  move=> Rg. rewrite /mulmod.
  have [xy Exy] := poly_mod_total (pmul opsZ x y) p Hp0. rewrite Exy /=.
  have Rxy := poly_mod_is_reduced Hpp Exy.
  have [q [r [E _]]] := divrem_reduced_total Hp Rxy Rg. rewrite E /=. by exists r.
Qed.

Lemma poly_modpow_loop_total e : forall product current g,
  reduced p g -> exists r, poly_modpow_loop e product current g p = Done r.
Proof.
  elim: e => [e IH|e IH|] product current g Rg /=.
  - have [pr ->] := mulmod_total product current Rg. rewrite /=.
    have [cu ->] := mulmod_total current current Rg. rewrite /=. exact: IH.
  - have [cu ->] := mulmod_total current current Rg. rewrite /=. exact: IH.
  - have [pr ->] := mulmod_total product current Rg. rewrite /=.
    have [cu ->] := mulmod_total current current Rg. rewrite /=. by exists pr.
Qed.

Lemma poly_modpow_total x e g : reduced p g -> exists r, poly_modpow x e g p = Done r.
Proof.
  move=> Rg. rewrite /poly_modpow. case: e => [|e|e]; [by eexists| |by eexists].
  exact: poly_modpow_loop_total.
Qed.

Lemma poly_mod_sub_total a b : exists r, poly_mod_sub a b p = Done r.
Proof. exact: poly_mod_total. Qed.

Lemma differential_total f : exists d, differential f p = Done d.
Proof. rewrite /differential. case: f => [|c f]; first by eexists. exact: poly_mod_total. Qed.

(** ** squarefree *)

Section Inv.
Variable F0 : {poly 'F_n}.
Hypothesis F0nz : F0 != 0.
Variable md : mode.
Hypothesis Hsz : (Z.of_nat (size F0) <= two64)%ZZ.

Let Hmd : md = Checked \/ (Z.of_nat (size F0) <= two64)%ZZ. Proof. by right. Qed.

Lemma mult_lt (A B : {poly 'F_n}) e m x :
  A * B ^+ (Z.to_nat e) %= F0 -> (m <= (size B).-1)%nat -> (0 <= e)%ZZ -> (0 <= x <= Z.of_nat m)%ZZ ->
  (e * x < two64)%ZZ.
Proof.
  move=> E Hm He Hx.
  have := exp_bound Hp F0nz E Hm. have : (0 < size F0)%nat by rewrite size_poly_gt0.
  move: Hsz. move: (size F0) => sf. nia.
Qed.

Lemma sqf_inner_total : forall fuel e t v k result,
  sqJ p t v -> (1 <= e)%ZZ -> (0 <= k)%ZZ ->
  FProd p result * (RP t * RP v ^+ (Z.to_nat k).+1) ^+ Z.to_nat e %= F0 ->
  (size (RP t) + size (RP v) <= fuel)%nat ->
  exists ex, sqf_inner fuel md p p e t v k result = Done ex.
Proof.
  elim=> [|f IH] e t v k result J He Hk Inv Hf.
  { have [Rt [Rv _]] := J. have := rnz_RP Hp Rt. rewrite -size_poly_gt0.
    move: Hf. move: (size (RP t)) (size (RP v)) => a b. lia. }
  rewrite /=. have [Rt [Rv _]] := J.
  case Ev: (pdeg v =? 0)%ZZ.
  - have Uv := unit_eqp1 Hp Rv Ev.
    have Inv' : FProd p result * RP t ^+ Z.to_nat e %= F0.
    { apply: eqp_trans Inv. rewrite eqp_sym. apply: eqp_mull. apply: eqp_exp.
      rewrite -{2}[RP t]mulr1. apply: eqp_mull. rewrite -(expr1n _ (Z.to_nat k).+1). exact: eqp_exp. }
    case Et: (pdeg t =? 0)%ZZ; first by eexists.
    have -> : (p =? 0)%ZZ = false by apply/Z.eqb_neq.
    case: t Rt Et J Inv Inv' Hf => [|c0 t1] Rt Et J Inv Inv' Hf; first by case: Rt.
    have St : (n < size (RP (c0 :: t1)))%nat.
    { apply: (deriv0_size n_prime); first exact: (sqJ_deriv0 Hp J Ev). exact: (nonunit_size Hp). }
    have Lt : (e * p < two64)%ZZ.
    { apply: (mult_lt Inv' (m := n)) => //; [lia|lia|]. have := En Hp. lia. }
    rewrite u64_norm_done; last nia. rewrite /=. by eexists.
  - have [w Ew] := poly_gcd_total Hp (proj1 Rt) (proj1 Rv). rewrite Ew /=.
    have [Rw [[s Hs] [tt Htt]]] := gcd_rnz Hp (proj1 Rt) Rv Ew.
    have [aek [rem1 [Ea _]]] := divrem_reduced_total Hp (proj1 Rv) (proj1 Rw). rewrite Ea /=.
    have [t' [rem2 [Etq _]]] := divrem_reduced_total Hp (proj1 Rt) (proj1 Rw). rewrite Etq /=.
    have [J' [Raek [ET EV]]] := sqJ_step Hp J Ew Ea Etq.
    have [Rt' _] := J'.
    have K1 : Z.to_nat (k + 1) = (Z.to_nat k).+1 by lia.
    set k1 := (Z.to_nat k).+1 in Inv K1.
    have Split : RP t * RP v ^+ k1 = RP aek ^+ k1 * (RP t' * RP w ^+ k1.+1).
    { rewrite ET EV exprMn exprS. move: (RP aek ^+ k1) (RP w ^+ k1) => x y. ring. }
    have Hf' : (size (RP t') + size (RP w) <= f)%nat.
    { have S1 := size_mul (rnz_RP Hp Rt') (rnz_RP Hp Rw). rewrite -ET in S1.
      have S2 := size_mul (rnz_RP Hp Raek) (rnz_RP Hp Rw). rewrite -EV in S2.
      have P1 := rnz_RP Hp Rt'. have P2 := rnz_RP Hp Rw. have P3 := rnz_RP Hp Raek.
      rewrite -size_poly_gt0 in P1. rewrite -size_poly_gt0 in P2. rewrite -size_poly_gt0 in P3.
      have P4 := nonunit_size Hp Rv Ev.
      exact: (size_sum_step S1 S2 P1 P2 P3 P4 Hf). }
    case Eae: (pdeg aek =? 0)%ZZ => /=.
    + apply: (IH _ _ _ _ _ J') => //; first lia.
      rewrite K1 -/k1. apply: eqp_trans Inv. rewrite eqp_sym. apply: eqp_mull. apply: eqp_exp.
      rewrite Split -{2}[RP t' * _]mul1r. apply: eqp_mulr.
      rewrite -(expr1n _ k1). apply: eqp_exp. exact: (unit_eqp1 Hp).
    + have Sa := nonunit_size Hp Raek Eae.
      have Lt : (e * (k + 1) < two64)%ZZ.
      { apply: (mult_lt Inv (m := k1)); [|lia|lia].
        have N : RP t * RP v ^+ k1 != 0.
        { rewrite mulf_neq0 ?expf_neq0 //; exact: (rnz_RP Hp). }
        have D : RP aek ^+ k1 %| RP t * RP v ^+ k1 by rewrite Split; exact: dvdp_mulr.
        have L := dvdp_leq N D. have SE := size_exp (RP aek) k1.
        move: L SE Sa. move: (size (RP aek ^+ k1)) (size (RP aek)) (size (RP t * RP v ^+ k1)) => a b c. nia. }
      rewrite u64_norm_done; last nia. rewrite /=.
      apply: (IH _ _ _ _ _ J') => //; first lia.
      rewrite K1 -/k1 FProd_rcons. move: Inv. rewrite Split.
      have -> : Z.to_nat (e * (k + 1)) = (k1 * Z.to_nat e)%nat by lia.
      by rewrite exprMn -exprM mulrA.
Qed.

(** a p-th root is shorter *)
Lemma sqf_inner_cont_size : forall fuel e t v k result t0' e' res' N,
  sqJ p t v -> (size (RP t) <= N)%nat ->
  sqf_inner fuel md p p e t v k result = Done (SqContinue t0' e' res') ->
  (size (RP t0') < N)%nat.
Proof.
  elim=> [|f IH] e t v k result t0' e' res' N J St //=.
  have [Rt [Rv _]] := J.
  case Ev: (pdeg v =? 0)%ZZ.
  - case Et: (pdeg t =? 0)%ZZ => //.
    have -> : (p =? 0)%ZZ = false by apply/Z.eqb_neq.
    case: t Rt Et J St => [|c0 t1] Rt Et J St; first by case: Rt.
    have Erp := pth_root_RP Hp J Ev (erefl _).
    case Ee: (u64_norm md _) => [e1| |] //=. case=> <- _ _.
    have S1 := nonunit_size Hp Rt Et.
    have SE := size_exp (RP (from_raw opsZ (pth_root_raw (Z.to_nat (pdeg (c0 :: t1) / p + 1)) Z0 p (c0 :: t1)))) n.
    rewrite -Erp in SE. exact: (root_size_lt SE n_gt1 S1 St).
  - case Ew: (poly_gcd t v p) => [w| |] //=.
    case Ea: (poly_divrem v w p) => [[aek rem1]| |] //=.
    case Etq: (poly_divrem t w p) => [[t' rem2]| |] //=.
    have [J' [Raek [ET EV]]] := sqJ_step Hp J Ew Ea Etq.
    have St' : (size (RP t') <= N)%nat.
    { apply: leq_trans St. apply: dvdp_leq; first exact: (rnz_RP Hp). rewrite ET. exact: dvdp_mulr. }
    case: (pdeg aek =? 0)%ZZ => /=; first exact: IH.
    case: (u64_norm md _) => [ek| |] //=. exact: IH.
Qed.

Lemma sqf_outer_total : forall fuel e t0 result,
  rnz p t0 -> (1 <= e)%ZZ ->
  FProd p result * RP t0 ^+ Z.to_nat e %= F0 ->
  (length t0 < fuel)%coq_nat ->
  exists out, sqf_outer fuel md p p e t0 result = Done out.
Proof.
  elim=> [|f IH] e t0 result R0 He Inv Hf; first lia.
  rewrite [sqf_outer _ _ _ _ _ _ _]/=.
  case E0: (pdeg t0 =? 0)%ZZ; first by eexists.
  have [der Ed] := differential_total t0. rewrite Ed /=.
  have Rder := differential_reduced Hp Ed.
  have [t Et] := poly_gcd_total Hp (proj1 R0) Rder. rewrite Et /=.
  have [Rt _] := gcd_rnz_l Hp R0 Rder Et.
  have [v [rem [Ev _]]] := divrem_reduced_total Hp (proj1 R0) (proj1 Rt). rewrite Ev /=.
  have [J [ET St]] := sqJ_start Hp R0 Ed Et Ev.
  have [_ [Rv _]] := J.
  have Inv0 : FProd p result * (RP t * RP v ^+ (Z.to_nat 0).+1) ^+ Z.to_nat e %= F0 by rewrite expr1 -ET.
  have Hfi : (size (RP t) + size (RP v) <= 2 * length t0 + 4)%nat.
  { have S1 := size_mul (rnz_RP Hp Rt) (rnz_RP Hp Rv). rewrite -ET (reduced_size Hp (proj1 R0)) in S1.
    have P1 := rnz_RP Hp Rt. have P2 := rnz_RP Hp Rv.
    rewrite -size_poly_gt0 in P1. rewrite -size_poly_gt0 in P2.
    move: S1 P1 P2. move: (size (RP t)) (size (RP v)) => a b. lia. }
  have [ex Ei] := sqf_inner_total J He (Z.le_refl 0) Inv0 Hfi. rewrite Ei /=.
  have := sqf_inner_prod Hp F0nz Hmd J He (Z.le_refl 0) Inv0 Ei.
  case: ex Ei => [res'|t0' e' res'] Ei; first by eexists.
  move=> [R' [He' P']].
  have Sz := sqf_inner_cont_size J St Ei.
  rewrite (reduced_size Hp (proj1 R0)) (reduced_size Hp R') in Sz.
  have N' : t0' <> [::].
  { move=> E. move: P'. rewrite E RP_nil expr0n. have -> : (Z.to_nat e' == 0%nat) = false by apply/eqP; lia.
    rewrite mulr0 eqp_sym eqp0. by rewrite (negbTE F0nz). }
  apply: IH => //. lia.
Qed.

End Inv.

(** [P] [squarefree] returns (fuel suffices, no panic) for f mod p <> 0, at most 2^64 coefficients,
    and pusize = p or p > deg f. *)
Theorem squarefree_total md poly t0 pusize :
  (Z.of_nat (length poly) <= two64)%ZZ ->
  pusize = p \/ (Z.of_nat (length poly) <= p)%ZZ ->
  poly_mod poly p = Done t0 -> t0 <> [::] ->
  exists out, squarefree md poly p pusize = Done out.
Proof.
  move=> Hl Hpu Em N0.
  suff [out H] : exists out, squarefree md poly p p = Done out.
  { exists out. case: Hpu => [->|Hlp] //. by rewrite (@squarefree_pu p Hp md poly pusize p). }
  rewrite /squarefree. case: poly Hl Hpu Em => [|c l] Hl Hpu Em; first by move: Em N0 => [<-].
  have R0 := poly_mod_is_reduced Hpp Em.
  have F0nz := rnz_RP Hp (conj R0 N0).
  have L0 : (length t0 <= length (c :: l))%coq_nat.
  { move: Em. rewrite poly_mod_eq' // => -[<-]. rewrite /from_raw.
    have := strip_length (List.map (fun c0 : Z => Z.modulo c0 p) (c :: l)). by rewrite List.map_length. }
  have Hsz : (Z.of_nat (size (RP t0)) <= two64)%ZZ by rewrite (reduced_size Hp R0); lia.
  have [fuel [Ef Lf]] : exists fuel, fuel = (length (c :: l) + 2)%coq_nat /\ (length t0 < fuel)%coq_nat.
  { eexists; split; [reflexivity|lia]. }
  rewrite -Ef Em. cbn [bind].
  apply: (sqf_outer_total F0nz md Hsz (conj R0 N0) (Z.le_refl 1) _ Lf).
  have -> : Z.to_nat 1 = 1%nat by []. rewrite [FProd _ _]/= mul1r expr1. exact: eqpxx.
Qed.

(** ** degree *)

Lemma degree_loop_total : forall fuel v w d result,
  rnz p v -> (0 <= d)%ZZ -> (Z.to_nat (pdeg v - 2 * d) + 1 <= fuel)%coq_nat ->
  exists v' out, degree_loop fuel p poly_x v w d result = Done (v', out).
Proof.
  elim=> [|f IH] v w d result Rv Hd Hf; first lia.
  rewrite /=. case: (Z.leb_spec (2 * d + 2) (pdeg v)) => Hlt; last by do 2 eexists.
  have Hd1 : (0 <= d + 1)%ZZ by lia.
  have Hf1 : (Z.to_nat (pdeg v - 2 * (d + 1)) + 1 <= f)%coq_nat by lia.
  have [w1 Ew] := poly_modpow_total w p (proj1 Rv). rewrite Ew /=.
  have Rw1 := poly_modpow_reduced Hp (proj1 Rv) Ew.
  have [wx Ex] := poly_mod_sub_total w1 poly_x. rewrite Ex /=.
  have Rwx := poly_mod_sub_reduced Hp Ex.
  have [ad Ea] := poly_gcd_total Hp Rwx (proj1 Rv). rewrite Ea /=.
  have [Rad [_ [t Ht]]] := gcd_rnz Hp Rwx Rv Ea.
  case: (Z.ltb_spec 0 (pdeg ad)) => _.
  - have [vq [rem [Ev _]]] := divrem_reduced_total Hp (proj1 Rv) (proj1 Rad). rewrite Ev /=.
    have [Rvq Evq] := quot_RP Hp Rv Rad Ht Ev.
    have [q2 [w2 [Ew2 _]]] := divrem_reduced_total Hp Rw1 (proj1 Rvq). rewrite Ew2 /=.
    apply: (IH _ _ _ _ Rvq Hd1).
    have L : (length vq <= length v)%coq_nat.
    { have D : RP vq %| RP v by rewrite Evq; exact: dvdp_mulr.
      have := dvdp_leq (rnz_RP Hp Rv) D.
      rewrite (reduced_size Hp (proj1 Rv)) (reduced_size Hp (proj1 Rvq)). lia. }
    move: L Hlt Hf1 (proj2 Rv) (proj2 Rvq). rewrite /pdeg. case: (v) => [|c0 l0] //. case: (vq) => [|c1 l1] // L Hlt Hf1 _ _.
    move: L Hlt Hf1. rewrite [length (c0 :: l0)]/= [length (c1 :: l1)]/=.
    move: (length l0) (length l1) => a0 a1 A B C. clear -A B C. lia.
  - exact: (IH _ _ _ _ Rv Hd1 Hf1).
Qed.

(** [P] [degree] returns on every reduced non-zero input. *)
Theorem degree_total poly : rnz p poly -> exists out, degree poly p = Done out.
Proof.
  move=> Rp. rewrite /degree.
  have [v [res ->]] : exists v res, degree_loop (length poly + 1) p poly_x poly poly_x 0 [::] = Done (v, res).
  { apply: degree_loop_total => //. move: (proj2 Rp). rewrite /pdeg. case: (poly) => [|c l] // _.
    move: (length (c :: l)) => a. lia. }
  rewrite /=. case: (0 <? pdeg v)%ZZ; by eexists.
Qed.

End Prime.

(** ** The release profile agrees with the dev profile whenever the latter returns *)

Lemma u64_norm_mono x y : u64_norm Checked x = Done y -> u64_norm Wrapping x = Done y.
Proof. rewrite /u64_norm. by case: ((0 <=? x)%ZZ && (x <? two64)%ZZ). Qed.

Lemma sqf_inner_mono p pu : forall fuel e t v k result ex,
  sqf_inner fuel Checked p pu e t v k result = Done ex ->
  sqf_inner fuel Wrapping p pu e t v k result = Done ex.
Proof.
  elim=> [|f IH] e t v k result ex //=.
  case: (pdeg v =? 0)%ZZ.
  - case: (pdeg t =? 0)%ZZ => //. case: (pu =? 0)%ZZ => //. case: t => [|c0 t1] //.
    case E: (u64_norm Checked _) => [e'| |] //=. by rewrite (u64_norm_mono E).
  - case: (poly_gcd t v p) => [w| |] //=.
    case: (poly_divrem v w p) => [[aek rem1]| |] //=.
    case: (poly_divrem t w p) => [[t' rem2]| |] //=.
    case: (pdeg aek =? 0)%ZZ => /=; first exact: IH.
    case E: (u64_norm Checked _) => [ek| |] //=. rewrite (u64_norm_mono E) /=. exact: IH.
Qed.

Lemma sqf_outer_mono p pu : forall fuel e t0 result out,
  sqf_outer fuel Checked p pu e t0 result = Done out ->
  sqf_outer fuel Wrapping p pu e t0 result = Done out.
Proof.
  elim=> [|f IH] e t0 result out //=.
  case: (pdeg t0 =? 0)%ZZ => //.
  case: (differential t0 p) => [der| |] //=.
  case: (poly_gcd t0 der p) => [t| |] //=.
  case: (poly_divrem t0 t p) => [[v rem]| |] //=.
  match goal with |- context [sqf_inner ?a Checked ?c ?d ?e0 ?f0 ?g ?h ?i] =>
    destruct (sqf_inner a Checked c d e0 f0 g h i) as [ex| |] eqn:Ei end => //=.
  rewrite (sqf_inner_mono Ei) /=. case: ex {Ei} => [res'|t0' e' res'] //. exact: IH.
Qed.

Lemma squarefree_mono p pu poly out :
  squarefree Checked poly p pu = Done out -> squarefree Wrapping poly p pu = Done out.
Proof.
  rewrite /squarefree. case: poly => [|c l] //.
  move: (length (c :: l) + 2)%coq_nat => fuel.
  case: (poly_mod _ p) => [t0| |] //=. exact: sqf_outer_mono.
Qed.

(** [P] under the hypotheses of [squarefree_total] the two profiles compute the same. *)
Theorem factorize_profile_irrelevant p md poly poly1 pusize r :
  Znumtheory.prime p ->
  (Z.of_nat (length poly) <= two64)%ZZ ->
  pusize = p \/ (Z.of_nat (length poly) <= p)%ZZ ->
  poly_mod poly p = Done poly1 -> poly1 <> [::] ->
  factorize_mod_p md poly p pusize r = factorize_mod_p Checked poly p pusize r.
Proof.
  move=> Hp Hl Hpu Em N1. case: md => //.
  have Hp2 := prime_ge_2 _ Hp. have Hpp : (0 < p)%ZZ by lia.
  rewrite /factorize_mod_p Em. cbn [bind].
  have [C1 R1] := poly_mod_is_reduced Hpp Em.
  have Em1 : poly_mod poly1 p = Done poly1 by apply: poly_mod_id.
  have L1 : (length poly1 <= length poly)%coq_nat.
  { move: Em. rewrite poly_mod_eq' //; last lia. move=> -[<-]. rewrite /from_raw.
    have := strip_length (List.map (fun c0 : Z => Z.modulo c0 p) poly). by rewrite List.map_length. }
  have Hl1 : (Z.of_nat (length poly1) <= two64)%ZZ by lia.
  have Hpu1 : pusize = p \/ (Z.of_nat (length poly1) <= p)%ZZ by case: Hpu => [->|H]; [left|right; lia].
  have [sq Es] := squarefree_total Hp Checked Hl1 Hpu1 Em1 N1.
  by rewrite Es (squarefree_mono Es).
Qed.
