(** C20: a small theory of matrices as lists of rows over a commutative ring: product, elementary
    row operations, the identity, inverses of sequences of row operations.
    (stdlib + lia + ring; instantiated at Z and at Qc.) *)
From RNT.Model Require Import Base Lll.
From Coq Require Import Lia Ring.

(** ** Lists *)
Section ListFacts.
Context {A : Type}.

Lemma length_set_nth (l : list A) i x : length (set_nth l i x) = length l.
Proof. revert i; induction l as [|y l IH]; intros [|i]; cbn; auto. Qed.

Lemma nth_set_nth (l : list A) i j x d :
  nth j (set_nth l i x) d = if Nat.eqb i j then (if Nat.ltb i (length l) then x else d) else nth j l d.
Proof.
  revert i j; induction l as [|y l IH]; intros i j; cbn.
  - destruct i, j; cbn; try reflexivity; destruct (Nat.eqb i j); reflexivity.
  - destruct i, j; cbn; try reflexivity. rewrite IH. destruct (Nat.eqb i j); reflexivity.
Qed.

Lemma nth_set_nth_eq (l : list A) i x d : (i < length l)%nat -> nth i (set_nth l i x) d = x.
Proof.
  intros H. rewrite nth_set_nth, Nat.eqb_refl.
  destruct (Nat.ltb_spec i (length l)); [reflexivity|lia].
Qed.

Lemma nth_set_nth_neq (l : list A) i j x d : i <> j -> nth j (set_nth l i x) d = nth j l d.
Proof. intros H. rewrite nth_set_nth. destruct (Nat.eqb_spec i j); [contradiction|reflexivity]. Qed.

Lemma set_nth_out (l : list A) i x : (length l <= i)%nat -> set_nth l i x = l.
Proof. revert i; induction l as [|y l IH]; intros [|i] H; cbn in *; try reflexivity; try lia. f_equal. apply IH. lia. Qed.

Lemma map_set_nth {B} (f : A -> B) (l : list A) i x : map f (set_nth l i x) = set_nth (map f l) i (f x).
Proof. revert i; induction l as [|y l IH]; intros [|i]; cbn; try reflexivity. f_equal. apply IH. Qed.

Lemma nth_map_in {B} (f : A -> B) (l : list A) i d d' : (i < length l)%nat -> nth i (map f l) d' = f (nth i l d).
Proof. intros H. rewrite (nth_indep _ d' (f d)); [apply map_nth|rewrite map_length; exact H]. Qed.

Lemma length_swap_nth d (l : list A) i j : length (swap_nth d l i j) = length l.
Proof. unfold swap_nth. rewrite !length_set_nth. reflexivity. Qed.

Lemma nth_swap_nth d (l : list A) i j x : (i < length l)%nat -> (j < length l)%nat ->
  nth x (swap_nth d l i j) d = if Nat.eqb j x then nth i l d else if Nat.eqb i x then nth j l d else nth x l d.
Proof.
  intros Hi Hj. unfold swap_nth. rewrite !nth_set_nth, !length_set_nth.
  destruct (Nat.eqb_spec j x); destruct (Nat.eqb_spec i x);
    destruct (Nat.ltb_spec j (length l)); destruct (Nat.ltb_spec i (length l)); try reflexivity; lia.
Qed.

Lemma swap_nth_invol d (l : list A) i j : (i < length l)%nat -> (j < length l)%nat ->
  swap_nth d (swap_nth d l i j) i j = l.
Proof.
  intros Hi Hj. apply (nth_ext _ _ d d); [rewrite !length_swap_nth; reflexivity|].
  intros x _. rewrite !nth_swap_nth; rewrite ?length_swap_nth; try assumption.
  rewrite !Nat.eqb_refl.
  destruct (Nat.eqb_spec j x); destruct (Nat.eqb_spec i x); destruct (Nat.eqb_spec j i);
    destruct (Nat.eqb_spec i j); subst; try reflexivity; try lia.
Qed.

Lemma map_swap_nth {B} (f : A -> B) d d' (l : list A) i j : (i < length l)%nat -> (j < length l)%nat ->
  map f (swap_nth d l i j) = swap_nth d' (map f l) i j.
Proof.
  intros Hi Hj. unfold swap_nth. rewrite !map_set_nth.
  rewrite (nth_map_in f l i d d' Hi), (nth_map_in f l j d d' Hj). reflexivity.
Qed.

Lemma Forall_set_nth (P : A -> Prop) (l : list A) i x : Forall P l -> P x -> Forall P (set_nth l i x).
Proof.
  intros H Hx. revert i; induction H as [|y l Hy Hl IH]; intros [|i]; cbn; constructor; auto.
Qed.

Lemma Forall_nth_d (P : A -> Prop) (l : list A) i d : Forall P l -> P d -> P (nth i l d).
Proof. intros H Hd. revert i; induction H; intros [|i]; cbn; auto. Qed.

Lemma Forall_nth_in (P : A -> Prop) (l : list A) i d : Forall P l -> (i < length l)%nat -> P (nth i l d).
Proof. intros H Hi. exact (proj1 (Forall_forall _ _) H _ (nth_In l d Hi)). Qed.

Lemma Forall_swap_nth (P : A -> Prop) d (l : list A) i j :
  Forall P l -> (i < length l)%nat -> (j < length l)%nat -> Forall P (swap_nth d l i j).
Proof. intros H Hi Hj. unfold swap_nth. repeat apply Forall_set_nth; try assumption; apply Forall_nth_in; assumption. Qed.

(** pointwise combination, truncating *)
Fixpoint zipw (f : A -> A -> A) (a b : list A) : list A :=
  match a, b with
  | x :: a', y :: b' => f x y :: zipw f a' b'
  | _, _ => []
  end.

Lemma length_zipw f a b : length a = length b -> length (zipw f a b) = length a.
Proof. revert b; induction a as [|x a IH]; intros [|y b] H; cbn in *; try lia. f_equal. apply IH. lia. Qed.

Lemma pre_upd_full f n a b : length a = n -> length b = n -> pre_upd f n a b = zipw f a b.
Proof.
  revert a b; induction n as [|n IH]; intros [|x a] [|y b] Ha Hb; cbn in *; try lia; try reflexivity.
  f_equal. apply IH; lia.
Qed.

Lemma length_pre_upd f n (a b : list A) : length (pre_upd f n a b) = length a.
Proof. revert a b; induction n as [|n IH]; intros [|x a] [|y b]; cbn; auto. Qed.

Lemma zipw_ext f g a b : (forall x y, f x y = g x y) -> zipw f a b = zipw g a b.
Proof. intros H. revert b; induction a as [|x a IH]; intros [|y b]; cbn; try reflexivity. rewrite H, IH. reflexivity. Qed.

End ListFacts.

Lemma list_as_map {A} (d : A) (l : list A) : l = map (fun i => nth i l d) (seq 0 (length l)).
Proof.
  apply (nth_ext _ _ d d); [rewrite map_length, seq_length; reflexivity|].
  intros i Hi. rewrite (nth_map_in _ _ i 0%nat d); [|rewrite seq_length; exact Hi].
  rewrite seq_nth; [reflexivity|exact Hi].
Qed.


Lemma map_zipw {A B} (h : A -> B) (f : A -> A -> A) (g : B -> B -> B) a b :
  (forall x y, h (f x y) = g (h x) (h y)) -> map h (zipw f a b) = zipw g (map h a) (map h b).
Proof. intros H. revert b; induction a as [|x a IH]; intros [|y b]; cbn; try reflexivity. rewrite H, IH. reflexivity. Qed.

(** ** Matrices over a commutative ring *)
Section Mat.
Variable R : Type.
Variables (rO rI : R) (radd rmul rsub : R -> R -> R) (ropp : R -> R).
Hypothesis Rth : ring_theory rO rI radd rmul rsub ropp (@eq R).
Add Ring Rring : Rth.

Local Infix "+!" := radd (at level 50, left associativity).
Local Infix "*!" := rmul (at level 40, left associativity).

Definition vzero (m : nat) : list R := repeat rO m.
(** a + q b *)
Definition axpy (q : R) (a b : list R) : list R := zipw (fun x y => x +! q *! y) a b.
(** r . B = sum_i r_i B_i, a vector of length m (the number of columns of B) *)
Fixpoint vecmat (m : nat) (r : list R) (B : list (list R)) : list R :=
  match r, B with
  | x :: r', b :: B' => zipw radd (map (rmul x) b) (vecmat m r' B')
  | _, _ => vzero m
  end.
Definition mmul (m : nat) (A B : list (list R)) : list (list R) := map (fun r => vecmat m r B) A.

Definition rows_len (m : nat) (A : list (list R)) : Prop := Forall (fun r => length r = m) A.
Definition wf (n m : nat) (A : list (list R)) : Prop := length A = n /\ rows_len m A.

Definition erow (n i : nat) : list R := map (fun j => if Nat.eqb i j then rI else rO) (seq 0 n).
Definition identR (n : nat) : list (list R) := map (erow n) (seq 0 n).

Lemma length_vzero m : length (vzero m) = m.
Proof. apply repeat_length. Qed.

Lemma length_vecmat m r B : rows_len m B -> length (vecmat m r B) = m.
Proof.
  intros H. revert r; induction H as [|b B Hb HB IH]; intros [|x r]; cbn [vecmat]; try apply length_vzero.
  rewrite length_zipw; rewrite map_length; [exact Hb|]. rewrite IH. exact Hb.
Qed.

Lemma wf_mmul n m k A B : wf n k A -> rows_len m B -> wf n m (mmul m A B).
Proof.
  intros [HA _] HB. split; [unfold mmul; rewrite map_length; exact HA|].
  unfold rows_len, mmul. apply Forall_map. apply Forall_forall. intros r _. apply length_vecmat; exact HB.
Qed.

Lemma axpy_vzero q m : axpy q (vzero m) (vzero m) = vzero m.
Proof. unfold axpy, vzero. induction m as [|m IH]; cbn; [reflexivity|]. rewrite IH. f_equal. ring. Qed.

Lemma zip3 q x y (b U V : list R) :
  length U = length b -> length V = length b ->
  zipw radd (map (rmul (x +! q *! y)) b) (axpy q U V)
  = axpy q (zipw radd (map (rmul x) b) U) (zipw radd (map (rmul y) b) V).
Proof.
  revert U V; induction b as [|c b IH]; intros [|u U] [|v V] HU HV; cbn in *; try lia; try reflexivity.
  unfold axpy in *. rewrite IH by lia. f_equal. ring.
Qed.

Lemma vecmat_axpy m q a b B : length a = length b -> rows_len m B ->
  vecmat m (axpy q a b) B = axpy q (vecmat m a B) (vecmat m b B).
Proof.
  intros Hab HB. revert a b Hab; induction HB as [|r B Hr HB IH]; intros [|x a] [|y b] Hab;
    try (cbn in Hab; lia); try (cbn [axpy zipw vecmat]; symmetry; apply axpy_vzero).
  change (axpy q (x :: a) (y :: b)) with ((x +! q *! y) :: axpy q a b).
  cbn [vecmat]. cbn in Hab. rewrite IH by lia. apply zip3; rewrite length_vecmat; auto.
Qed.

Lemma zipw_add_zero_r (b : list R) m : length b = m -> zipw radd (map (rmul rI) b) (vzero m) = b.
Proof. revert m; induction b as [|c b IH]; intros [|m] H; cbn in *; try lia; try reflexivity. rewrite IH by lia. f_equal. ring. Qed.

Lemma zipw_zero_l (b v : list R) : length v = length b -> zipw radd (map (rmul rO) b) v = v.
Proof. revert v; induction b as [|c b IH]; intros [|x v] H; cbn in *; try lia; try reflexivity. rewrite IH by lia. f_equal. ring. Qed.

(** the row of the identity picks a row *)
Lemma vecmat_erow m i : forall (B : list (list R)) s, rows_len m B ->
  vecmat m (map (fun j => if Nat.eqb i j then rI else rO) (seq s (length B))) B
  = if (Nat.leb s i && Nat.ltb i (s + length B))%bool then nth (i - s) B [] else vzero m.
Proof.
  induction B as [|b B IH]; intros s HB; cbn [length seq map vecmat].
  - destruct (Nat.leb s i && Nat.ltb i (s + 0))%bool eqn:E; [|reflexivity].
    apply andb_prop in E. destruct E as [E1 E2]. apply Nat.leb_le in E1. apply Nat.ltb_lt in E2. lia.
  - inversion HB as [|? ? Hb HB']; subst. rewrite IH by assumption.
    destruct (Nat.eqb_spec i s) as [->|Hne].
    + replace (Nat.leb (S s) s && Nat.ltb s (S s + length B))%bool with false
        by (destruct (Nat.leb_spec (S s) s); [lia|reflexivity]).
      replace (Nat.leb s s && Nat.ltb s (s + S (length B)))%bool with true
        by (destruct (Nat.leb_spec s s); destruct (Nat.ltb_spec s (s + S (length B))); try reflexivity; lia).
      rewrite Nat.sub_diag. cbn [nth]. apply zipw_add_zero_r. reflexivity.
    + rewrite zipw_zero_l.
      2:{ destruct (Nat.leb (S s) i && Nat.ltb i (S s + length B))%bool eqn:E.
          - apply andb_prop in E. destruct E as [E1 E2]. apply Nat.leb_le in E1. apply Nat.ltb_lt in E2.
            assert (Hin : (i - S s < length B)%nat) by lia.
            pose proof (proj1 (Forall_forall _ _) HB' _ (nth_In B [] Hin)) as L. cbn in L. lia.
          - rewrite length_vzero. auto. }
      destruct (Nat.leb_spec (S s) i); destruct (Nat.ltb_spec i (S s + length B));
        destruct (Nat.leb_spec s i); destruct (Nat.ltb_spec i (s + S (length B))); cbn [andb]; try reflexivity; try lia.
      replace (i - s)%nat with (S (i - S s)) by lia. reflexivity.
Qed.

Lemma mmul_ident n m B : wf n m B -> mmul m (identR n) B = B.
Proof.
  intros [Hn HB]. unfold mmul, identR. rewrite map_map.
  symmetry. etransitivity; [apply (list_as_map [] B)|]. rewrite Hn.
  apply map_ext_in. intros i Hi. apply in_seq in Hi. unfold erow. rewrite <- Hn. symmetry.
  rewrite vecmat_erow by assumption.
  destruct (Nat.leb_spec 0 i); destruct (Nat.ltb_spec i (0 + length B)); cbn [andb]; try lia.
  rewrite Nat.sub_0_r. reflexivity.
Qed.

(** ** Elementary row operations *)
Inductive rop : Type := RSwap (k : nat) | RAdd (k l : nat) (q : R).

Definition row_add (A : list (list R)) (k l : nat) (q : R) : list (list R) :=
  set_nth A k (axpy q (nth k A []) (nth l A [])).
Definition apply_rop (o : rop) (A : list (list R)) : list (list R) :=
  match o with
  | RSwap k => swap_nth [] A k (k + 1)
  | RAdd k l q => row_add A k l q
  end.
Definition rop_ok (n : nat) (o : rop) : Prop :=
  match o with
  | RSwap k => (k + 1 < n)%nat
  | RAdd k l q => (k < n)%nat /\ (l < n)%nat /\ k <> l
  end.
Definition rop_inv (o : rop) : rop :=
  match o with
  | RSwap k => RSwap k
  | RAdd k l q => RAdd k l (ropp q)
  end.
Definition apply_rops (ops : list rop) (A : list (list R)) : list (list R) :=
  fold_left (fun A o => apply_rop o A) ops A.

Lemma wf_nth n m A i : wf n m A -> (i < n)%nat -> length (nth i A []) = m.
Proof.
  intros [Hn HA] Hi. rewrite <- Hn in Hi.
  exact (proj1 (Forall_forall _ _) HA _ (nth_In A [] Hi)).
Qed.

Lemma wf_apply_rop n m o A : rop_ok n o -> wf n m A -> wf n m (apply_rop o A).
Proof.
  intros Hok [Hn HA]. destruct o as [k|k l q]; cbn in *.
  - split; [rewrite length_swap_nth; exact Hn|].
    unfold rows_len. rewrite <- Hn in Hok. apply Forall_swap_nth; [exact HA|lia|lia].
  - destruct Hok as (Hk & Hl & _). split; [unfold row_add; rewrite length_set_nth; exact Hn|].
    unfold rows_len, row_add. apply Forall_set_nth; [exact HA|].
    unfold axpy. rewrite length_zipw; rewrite !(wf_nth n m A) by (try split; assumption); reflexivity.
Qed.

Lemma apply_rops_cons o ops A : apply_rops (o :: ops) A = apply_rops ops (apply_rop o A).
Proof. reflexivity. Qed.

Lemma wf_apply_rops n m ops : forall A, Forall (rop_ok n) ops -> wf n m A -> wf n m (apply_rops ops A).
Proof.
  induction ops as [|o ops IH]; intros A Hok HA; [exact HA|]. rewrite apply_rops_cons.
  inversion Hok; subst. apply IH; [assumption|]. apply wf_apply_rop; assumption.
Qed.

(** row operations act on the left factor of a product *)
Lemma mmul_apply_rop n m o A B : rop_ok n o -> wf n n A -> rows_len m B ->
  mmul m (apply_rop o A) B = apply_rop o (mmul m A B).
Proof.
  intros Hok HA HB. destruct HA as [Hn HA]. destruct o as [k|k l q]; cbn in *.
  - unfold mmul. apply map_swap_nth; lia.
  - destruct Hok as (Hk & Hl & _). unfold row_add, mmul. rewrite map_set_nth. f_equal.
    rewrite (nth_map_in _ A k [] []), (nth_map_in _ A l [] []) by lia.
    apply vecmat_axpy; [|exact HB].
    rewrite !(wf_nth n n A) by (try split; assumption). reflexivity.
Qed.

Lemma mmul_apply_rops n m ops : forall A B, Forall (rop_ok n) ops -> wf n n A -> rows_len m B ->
  mmul m (apply_rops ops A) B = apply_rops ops (mmul m A B).
Proof.
  induction ops as [|o ops IH]; intros A B Hok HA HB; [reflexivity|]. rewrite !apply_rops_cons.
  inversion Hok; subst. rewrite IH; try assumption.
  - f_equal. apply (mmul_apply_rop n); assumption.
  - apply wf_apply_rop; assumption.
Qed.

Lemma axpy_cancel q a b : length a = length b -> axpy (ropp q) (axpy q a b) b = a.
Proof.
  unfold axpy. revert b; induction a as [|x a IH]; intros [|y b] H; cbn in *; try lia; try reflexivity.
  rewrite IH by lia. f_equal. ring.
Qed.

Lemma set_nth_set_nth {A} (l : list A) i x y : set_nth (set_nth l i x) i y = set_nth l i y.
Proof. revert i; induction l as [|z l IH]; intros [|i]; cbn; try reflexivity. f_equal. apply IH. Qed.

Lemma set_nth_same {A} (l : list A) i d : set_nth l i (nth i l d) = l.
Proof.
  revert i; induction l as [|z l IH]; intros [|i]; cbn; try reflexivity. f_equal. apply IH.
Qed.

Lemma rop_inv_cancel n m o A : rop_ok n o -> wf n m A -> apply_rop (rop_inv o) (apply_rop o A) = A.
Proof.
  intros Hok HA. destruct o as [k|k l q]; cbn [apply_rop rop_inv rop_ok] in *.
  - destruct HA as [Hn _]. apply swap_nth_invol; lia.
  - destruct Hok as (Hk & Hl & Hkl). unfold row_add.
    pose proof HA as [Hn _].
    rewrite nth_set_nth_eq by lia. rewrite nth_set_nth_neq by exact Hkl.
    rewrite set_nth_set_nth. rewrite axpy_cancel.
    + apply set_nth_same.
    + rewrite !(wf_nth n m A) by assumption. reflexivity.
Qed.

Lemma rop_inv_ok n o : rop_ok n o -> rop_ok n (rop_inv o).
Proof. destruct o; cbn; auto. Qed.

Lemma rop_inv_invol o : rop_inv (rop_inv o) = o.
Proof. destruct o as [k|k l q]; cbn; [reflexivity|]. f_equal. ring. Qed.

Definition rops_inv (ops : list rop) : list rop := rev (map rop_inv ops).

Lemma apply_rops_app l1 l2 A : apply_rops (l1 ++ l2) A = apply_rops l2 (apply_rops l1 A).
Proof. apply fold_left_app. Qed.

Lemma rops_inv_ok n ops : Forall (rop_ok n) ops -> Forall (rop_ok n) (rops_inv ops).
Proof.
  intros H. unfold rops_inv. apply Forall_rev. apply Forall_map.
  eapply Forall_impl; [|exact H]. intros o. apply rop_inv_ok.
Qed.

Lemma rops_inv_invol ops : rops_inv (rops_inv ops) = ops.
Proof.
  unfold rops_inv. rewrite map_rev, rev_involutive, map_map.
  rewrite <- (map_id ops) at 2. apply map_ext. apply rop_inv_invol.
Qed.

Lemma rops_inv_cancel n m ops : forall A, Forall (rop_ok n) ops -> wf n m A ->
  apply_rops (rops_inv ops) (apply_rops ops A) = A.
Proof.
  induction ops as [|o ops IH]; intros A Hok HA; [reflexivity|].
  inversion Hok; subst. unfold rops_inv. cbn [map rev]. rewrite apply_rops_app.
  fold (rops_inv ops). rewrite apply_rops_cons. rewrite apply_rops_cons. change (apply_rops [] ?x) with x.
  rewrite IH; [|assumption|apply wf_apply_rop; assumption].
  apply (rop_inv_cancel n m); assumption.
Qed.

Lemma wf_identR n : wf n n (identR n).
Proof.
  split; [unfold identR; rewrite map_length, seq_length; reflexivity|].
  unfold rows_len, identR. apply Forall_map. apply Forall_forall. intros i _.
  unfold erow. rewrite map_length, seq_length. reflexivity.
Qed.

(** a matrix reached from the identity by row operations has a two-sided inverse *)
Theorem rops_inverse n ops :
  Forall (rop_ok n) ops ->
  let H := apply_rops ops (identR n) in
  let H' := apply_rops (rops_inv ops) (identR n) in
  wf n n H /\ wf n n H' /\ mmul n H' H = identR n /\ mmul n H H' = identR n.
Proof.
  intros Hok H H'.
  assert (WH : wf n n H) by (apply wf_apply_rops; [exact Hok|apply wf_identR]).
  assert (WH' : wf n n H') by (apply wf_apply_rops; [apply rops_inv_ok; exact Hok|apply wf_identR]).
  repeat split; try apply WH; try apply WH'.
  - unfold H'. rewrite (mmul_apply_rops n); [|apply rops_inv_ok; exact Hok|apply wf_identR|apply WH].
    rewrite mmul_ident by exact WH. unfold H. apply (rops_inv_cancel n n); [exact Hok|apply wf_identR].
  - unfold H at 1. rewrite (mmul_apply_rops n); [|exact Hok|apply wf_identR|apply WH'].
    rewrite mmul_ident by exact WH'. unfold H'.
    rewrite <- (rops_inv_invol ops) at 1.
    apply (rops_inv_cancel n n); [apply rops_inv_ok; exact Hok|apply wf_identR].
Qed.

End Mat.
