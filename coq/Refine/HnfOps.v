(** * HnfOps: the elementary row operations performed by [hnf_with_u] (swap, negate,
      subtract an integer multiple of another row), as total functions on list matrices, with
      their algebra: they commute with right multiplication, are invertible, hence preserve
      [U * A0 = A] and the unimodularity of [U]. *)
From Coq Require Import ZArith List Lia.
From RNT.Model Require Import Base Hnf.
From RNT.Refine Require Import MatZ.
Import ListNotations.
Open Scope Z_scope.

(** ** set_row *)
Lemma set_row_length {A} (l : list A) j x : length (set_row l j x) = length l.
Proof. revert j; induction l as [|h t IH]; intros [|j]; simpl; auto. Qed.

Lemma nth_set_row {A} (l : list A) j x i d :
  (j < length l)%nat -> nth i (set_row l j x) d = if (i =? j)%nat then x else nth i l d.
Proof.
  revert j i; induction l as [|h t IH]; intros j i Hj; simpl in Hj; [lia|].
  destruct j as [|j]; destruct i as [|i]; simpl; auto.
  apply IH. lia.
Qed.

Lemma nth_set_row_out {A} (l : list A) j x : (length l <= j)%nat -> set_row l j x = l.
Proof.
  revert j; induction l as [|h t IH]; intros j Hj; simpl in *; [destruct j; auto|].
  destruct j; [lia|]. f_equal. apply IH. lia.
Qed.

Lemma map_set_row {A B} (f : A -> B) l j x : map f (set_row l j x) = set_row (map f l) j (f x).
Proof. revert j; induction l as [|h t IH]; intros [|j]; simpl; auto. f_equal; auto. Qed.

Lemma row_set_row (A : mat) j x i :
  (j < length A)%nat -> row (set_row A j x) i = if (i =? j)%nat then x else row A i.
Proof. intros. unfold row. apply nth_set_row; auto. Qed.

Lemma wf_set_row m (A : mat) j x : wf m A -> length x = m -> wf m (set_row A j x).
Proof.
  unfold wf. revert j; induction A as [|h t IH]; intros j HA Hx; simpl.
  - destruct j; constructor.
  - inversion HA; subst. destruct j; constructor; auto.
Qed.

Lemma mat_ext (A B : mat) :
  length A = length B -> (forall i, (i < length A)%nat -> row A i = row B i) -> A = B.
Proof. intros Hl H. apply nth_ext with (d := []) (d' := []); auto. Qed.

Lemma row_map (f : list Z -> list Z) (A : mat) i :
  (i < length A)%nat -> row (map f A) i = f (row A i).
Proof.
  intros Hi. unfold row. rewrite nth_indep with (d' := f []) by (rewrite map_length; auto).
  apply map_nth.
Qed.

Lemma row_mmul m U A i : (i < length U)%nat -> row (mmul m U A) i = lincomb m (row U i) A.
Proof. intros. unfold mmul. rewrite row_map; auto. Qed.

(** ** Elementary operations *)
Inductive eop := ESwap (j k : nat) | ENeg (k : nat) | ESubmul (j k : nat) (q : Z).

Definition vsubmul (q : Z) (rj rk : list Z) : list Z := map2 (fun x y => x - y * q) rj rk.
Definition vneg (r : list Z) : list Z := map (fun x => x * -1) r.

Definition apply_eop (op : eop) (A : mat) : mat :=
  match op with
  | ESwap j k => set_row (set_row A j (row A k)) k (row A j)
  | ENeg k => set_row A k (vneg (row A k))
  | ESubmul j k q => set_row A j (vsubmul q (row A j) (row A k))
  end.

Definition eop_valid (n : nat) (op : eop) : Prop :=
  match op with
  | ESwap j k => (j < n /\ k < n)%nat
  | ENeg k => (k < n)%nat
  | ESubmul j k q => (j < n /\ k < n /\ j <> k)%nat
  end.

Definition eop_inv (op : eop) : eop :=
  match op with
  | ESwap j k => ESwap j k
  | ENeg k => ENeg k
  | ESubmul j k q => ESubmul j k (- q)
  end.

Lemma eop_inv_valid n op : eop_valid n op -> eop_valid n (eop_inv op).
Proof. destruct op; simpl; auto. Qed.
Lemma eop_inv_inv op : eop_inv (eop_inv op) = op.
Proof. destruct op; simpl; auto. rewrite Z.opp_involutive; auto. Qed.

Lemma vsubmul_length q a b : length a = length b -> length (vsubmul q a b) = length a.
Proof. apply map2_length. Qed.
Lemma vneg_length a : length (vneg a) = length a.
Proof. apply map_length. Qed.
Lemma nth_vsubmul q a b i :
  length a = length b -> nth i (vsubmul q a b) 0 = nth i a 0 - nth i b 0 * q.
Proof. intros. unfold vsubmul. rewrite nth_map2; auto. Qed.
Lemma nth_vneg a i : nth i (vneg a) 0 = - nth i a 0.
Proof. unfold vneg. rewrite nth_map_Z; lia. Qed.

Lemma apply_eop_length op A : length (apply_eop op A) = length A.
Proof. destruct op; simpl; rewrite ?set_row_length; auto. Qed.

Lemma apply_eop_shape n m op A : shape n m A -> eop_valid n op -> shape n m (apply_eop op A).
Proof.
  intros [Hn HA] Hv. split; [rewrite apply_eop_length; auto|].
  destruct op; simpl in *.
  - apply wf_set_row; [apply wf_set_row|]; auto; apply wf_row; auto; lia.
  - apply wf_set_row; auto. rewrite vneg_length. apply wf_row; auto; lia.
  - apply wf_set_row; auto. rewrite vsubmul_length; rewrite !(wf_row m A); auto; lia.
Qed.

(** rows after an operation *)
Lemma row_apply_eop n op A i :
  length A = n -> eop_valid n op -> (i < n)%nat ->
  row (apply_eop op A) i =
  match op with
  | ESwap j k => if (i =? k)%nat then row A j else if (i =? j)%nat then row A k else row A i
  | ENeg k => if (i =? k)%nat then vneg (row A k) else row A i
  | ESubmul j k q => if (i =? j)%nat then vsubmul q (row A j) (row A k) else row A i
  end.
Proof.
  intros Hn Hv Hi. destruct op; simpl in *.
  - rewrite row_set_row by (rewrite set_row_length; lia).
    destruct (Nat.eqb_spec i k); auto. rewrite row_set_row by lia. auto.
  - rewrite row_set_row by lia. auto.
  - rewrite row_set_row by lia. auto.
Qed.

(** entries after an operation *)
Lemma ent_apply_eop n m op A i c :
  shape n m A -> eop_valid n op -> (i < n)%nat ->
  ent (apply_eop op A) i c =
  match op with
  | ESwap j k => if (i =? k)%nat then ent A j c else if (i =? j)%nat then ent A k c else ent A i c
  | ENeg k => if (i =? k)%nat then - ent A k c else ent A i c
  | ESubmul j k q => if (i =? j)%nat then ent A j c - ent A k c * q else ent A i c
  end.
Proof.
  intros [Hn HA] Hv Hi. unfold ent. rewrite (row_apply_eop n); auto.
  destruct op; simpl in Hv.
  - destruct (i =? k)%nat; auto. destruct (i =? j)%nat; auto.
  - destruct (i =? k)%nat; auto. apply nth_vneg.
  - destruct (i =? j)%nat; auto. apply nth_vsubmul. rewrite !(wf_row m A); auto; lia.
Qed.

(** ** Operations commute with right multiplication *)
Lemma lincomb_vneg m c A : wf m A -> lincomb m (vneg c) A = vneg (lincomb m c A).
Proof.
  intros HA. assert (E : forall v, vneg v = vscale (-1) v).
  { intros v. unfold vneg, vscale. apply map_ext. intros; lia. }
  rewrite !E. apply lincomb_scale; auto.
Qed.

Lemma vsubmul_alt q a b : length a = length b -> vsubmul q a b = vadd a (vscale (- q) b).
Proof.
  intros Hl. apply vec_ext with (length a).
  - apply vsubmul_length; auto.
  - rewrite vadd_length; auto. rewrite vscale_length; auto.
  - intros i Hi. rewrite nth_vsubmul, nth_vadd, nth_vscale; auto; [lia|].
    rewrite vscale_length; auto.
Qed.

Lemma lincomb_vsubmul m q c d A :
  length c = length d -> wf m A ->
  lincomb m (vsubmul q c d) A = vsubmul q (lincomb m c A) (lincomb m d A).
Proof.
  intros Hl HA. rewrite !vsubmul_alt; auto.
  - rewrite lincomb_add; auto. + rewrite lincomb_scale; auto. + rewrite vscale_length; auto.
  - rewrite !lincomb_length; auto.
Qed.

Lemma apply_eop_mmul n w m op U A :
  shape n w U -> wf m A -> eop_valid n op ->
  mmul m (apply_eop op U) A = apply_eop op (mmul m U A).
Proof.
  intros [Hn HU] HA Hv.
  apply mat_ext.
  - rewrite mmul_length, !apply_eop_length, mmul_length; auto.
  - intros i Hi. rewrite mmul_length, apply_eop_length in Hi.
    rewrite row_mmul by (rewrite apply_eop_length; auto).
    rewrite (row_apply_eop n op U); auto; try lia.
    rewrite (row_apply_eop n op (mmul m U A)); auto; try lia; [|rewrite mmul_length; auto].
    destruct op; simpl in Hv.
    + destruct (i =? k)%nat; [rewrite row_mmul; auto; lia|].
      destruct (i =? j)%nat; rewrite row_mmul; auto; lia.
    + destruct (i =? k)%nat; [|rewrite row_mmul; auto; lia].
      rewrite lincomb_vneg; auto. rewrite row_mmul; auto; lia.
    + destruct (i =? j)%nat; [|rewrite row_mmul; auto; lia].
      rewrite lincomb_vsubmul; auto.
      * rewrite !row_mmul; auto; lia.
      * rewrite !(wf_row w U); auto; lia.
Qed.

(** ** Operations are invertible *)
Lemma vneg_vneg a : vneg (vneg a) = a.
Proof.
  unfold vneg. rewrite map_map. rewrite <- (map_id a) at 2. apply map_ext. intros; lia.
Qed.
Lemma vsubmul_inv q a b : length a = length b -> vsubmul (- q) (vsubmul q a b) b = a.
Proof.
  intros Hl. apply vec_ext with (length a); auto.
  - rewrite vsubmul_length; rewrite vsubmul_length; auto.
  - intros i Hi. rewrite nth_vsubmul by (rewrite vsubmul_length; auto).
    rewrite nth_vsubmul; auto. lia.
Qed.

Lemma apply_eop_inv n m op A :
  shape n m A -> eop_valid n op -> apply_eop (eop_inv op) (apply_eop op A) = A.
Proof.
  intros HS Hv. pose proof HS as [Hn HA].
  assert (Hv' := eop_inv_valid n op Hv).
  assert (HS' := apply_eop_shape n m op A HS Hv). destruct HS' as [Hn' HA'].
  apply mat_ext. { rewrite !apply_eop_length; auto. }
  intros i Hi. rewrite !apply_eop_length in Hi.
  rewrite (row_apply_eop n (eop_inv op)); auto; try lia.
  destruct op; simpl in *.
  - rewrite !(row_apply_eop n (ESwap j k) A); simpl; auto; try lia.
    rewrite !Nat.eqb_refl.
    destruct (Nat.eqb_spec i k); subst.
    + destruct (Nat.eqb_spec j k); subst; auto.
    + destruct (Nat.eqb_spec i j); subst; auto.
  - rewrite !(row_apply_eop n (ENeg k) A); simpl; auto; try lia.
    rewrite Nat.eqb_refl. destruct (Nat.eqb_spec i k); subst; auto. apply vneg_vneg.
  - rewrite !(row_apply_eop n (ESubmul j k q) A); simpl; auto; try lia.
    rewrite Nat.eqb_refl. destruct (Nat.eqb_spec k j); [lia|].
    destruct (Nat.eqb_spec i j); subst; auto. apply vsubmul_inv.
    rewrite !(wf_row m A); auto; lia.
Qed.

Lemma apply_eop_inv' n m op A :
  shape n m A -> eop_valid n op -> apply_eop op (apply_eop (eop_inv op) A) = A.
Proof.
  intros HS Hv. rewrite <- (eop_inv_inv op) at 1. apply apply_eop_inv with n m; auto.
  apply eop_inv_valid; auto.
Qed.

(** ** Unimodular matrices: integer matrices with a two-sided integer inverse *)
Definition unimodular (n : nat) (U : mat) : Prop :=
  exists V, shape n n V /\ mmul n V U = idmat n /\ mmul n U V = idmat n.

Lemma unimodular_id n : unimodular n (idmat n).
Proof.
  exists (idmat n). pose proof (idmat_shape n). split; auto.
  split; apply mmul_identity_l; auto.
Qed.

Lemma unimodular_op n op U :
  shape n n U -> eop_valid n op -> unimodular n U -> unimodular n (apply_eop op U).
Proof.
  intros HU Hv [V [HV [HVU HUV]]].
  pose proof (idmat_shape n) as HI.
  assert (Hv' := eop_inv_valid n op Hv).
  set (E' := apply_eop (eop_inv op) (idmat n)).
  assert (HE' : shape n n E') by (apply apply_eop_shape; auto).
  exists (mmul n V E').
  destruct HU as [HUn HUw]. destruct HV as [HVn HVw]. destruct HE' as [HEn HEw].
  assert (HopU : shape n n (apply_eop op U)) by (apply apply_eop_shape; auto; split; auto).
  split; [apply mmul_shape; auto|]. split.
  - rewrite mmul_assoc; auto; [|apply HopU].
    unfold E'. rewrite (apply_eop_mmul n n n); auto; [|apply HopU].
    rewrite mmul_identity_l; auto.
    rewrite (apply_eop_inv n n); auto. split; auto.
  - rewrite (apply_eop_mmul n n n); auto; [|split; auto|apply mmul_wf; auto].
    rewrite <- (mmul_assoc n n); auto. rewrite HUV.
    rewrite mmul_identity_l; [|split; auto].
    unfold E'. apply (apply_eop_inv' n n); auto.
Qed.

(** ** The invariant carried through [hnf_with_u] *)
Definition Inv (A0 : mat) (n m : nat) (a u : mat) : Prop :=
  shape n m a /\ shape n n u /\ mmul m u A0 = a /\ unimodular n u.

Lemma Inv_init A0 n m : shape n m A0 -> Inv A0 n m A0 (idmat n).
Proof.
  intros HS. split; auto. split; [apply idmat_shape|]. split.
  - apply mmul_identity_l; auto.
  - apply unimodular_id.
Qed.

Lemma Inv_op A0 n m op a u :
  shape n m A0 -> eop_valid n op -> Inv A0 n m a u -> Inv A0 n m (apply_eop op a) (apply_eop op u).
Proof.
  intros HS0 Hv (Ha & Hu & He & Hm).
  split; [apply apply_eop_shape; auto|]. split; [apply apply_eop_shape; auto|]. split.
  - rewrite (apply_eop_mmul n n m); auto; [congruence|apply HS0].
  - apply unimodular_op; auto.
Qed.
