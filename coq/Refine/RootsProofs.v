(** * C12: every value returned by [find_linear_factors] is a root modulo p (ssreflect). *)
From Coq Require Import ZArith List Lia Znumtheory.
From mathcomp Require Import all_ssreflect ssralg poly.
From RNT.Model Require Import Base Poly PolyModP FactorModP LinearRoots.
From RNT.Refine Require Import PolyModPArith PolyModPDivList FermatZ PolyZmod PolyModPDiv MonicZ PolyModPGcd FpPoly DrawBounds.
From mathcomp Require Import ssrZ zify ring.
Set Implicit Arguments. Unset Strict Implicit. Unset Printing Implicit Defensive.
Import GRing.Theory.
Local Open Scope ring_scope.

(** ** [poly_of_mod] *)

Lemma fold_horner_mod (l : list Z) a p :
  p <> Z0 ->
  Z.modulo (List.fold_right (fun c sum => Z.rem (sum * a + c) p) Z0 l) p = Z.modulo (PZ l).[a] p.
Proof.
  move=> Hp. elim: l => [|c l IH]; first by rewrite /PZ /= horner0.
  rewrite [List.fold_right _ _ _]/= rem_mod_eq // PZ_cons hornerD hornerM hornerX hornerC.
  set s := List.fold_right _ _ _ in IH *.
  have -> : ((PZ l).[a] * a + c)%R = ((PZ l).[a] * a + c)%ZZ by [].
  by rewrite Z.add_mod // Z.mul_mod // IH -Z.mul_mod // -Z.add_mod.
Qed.

Lemma poly_of_mod_spec md f a p v :
  p <> Z0 -> poly_of_mod md f a p = Done v -> Z.modulo v p = Z.modulo (PZ f).[a] p.
Proof.
  move=> Hp. rewrite /poly_of_mod. case: (u64_norm md _) => [_| |] //=.
  case: f => [|c f]; first by case=> <-; rewrite /PZ /= horner0.
  have -> : (p =? 0)%ZZ = false by apply/Z.eqb_neq.
  case=> <-. exact: (fold_horner_mod (c :: f)).
Qed.

(** ** [divide_by_x_a] *)

Lemma dxa_loop_spec a p : p <> Z0 -> forall l cs carry,
  dxa_loop l a p = (cs, carry) ->
  eqpm p (PZ l * 'X) (('X - a%:P) * PZ cs + carry%:P) /\ List.Forall (fun c => c = Z.modulo c p) cs.
Proof.
  move=> Hp. elim=> [|c t IH] cs carry /=.
  - case=> <- <-. split; last by constructor. rewrite /PZ /= mul0r mulr0 add0r. exact: eqpm_refl.
  - case E: (dxa_loop t a p) => [cs' carry']. case=> <- <-.
    have [[k Hk] F] := IH _ _ E.
    split; last by constructor=> //; rewrite Z.mod_mod.
    have [z Hz] : exists z, Z.modulo (carry' + c) p = (carry' + c - p * z)%ZZ.
    { exists (Z.div (carry' + c) p). have := Z.div_mod (carry' + c)%ZZ p Hp. lia. }
    rewrite !PZ_cons Hz.
    exists (k * 'X + z%:P * 'X). rewrite ?cons_poly_def.
    have -> : (PZ t * 'X + c%:P) * 'X = (PZ t * 'X) * 'X + c%:P * 'X by ring.
    rewrite Hk.
    have -> : ((carry' + c - p * z)%ZZ * a)%ZZ%:P = (carry'%:P + c%:P - p%:P * z%:P) * a%:P :> {poly Z}.
    { by rewrite -!polyCM -polyCD -polyCB -polyCM. }
    have -> : (carry' + c - p * z)%ZZ%:P = carry'%:P + c%:P - p%:P * z%:P :> {poly Z}.
    { by rewrite -!polyCM -polyCD -polyCB. }
    ring.
Qed.

Lemma divide_by_x_a_spec md f a p q :
  (0 < p)%ZZ -> divide_by_x_a md f a p = Done q ->
  reduced p q /\ exists c, (0 <= c < p)%ZZ /\ eqpm p (PZ f) (('X - a%:P) * PZ q + c%:P).
Proof.
  move=> Hpp. have Hp : p <> Z0 by lia.
  rewrite /divide_by_x_a. case: f => [|c0 rest] //.
  have -> : (p =? 0)%ZZ = false by apply/Z.eqb_neq.
  case E: (dxa_loop rest a p) => [coefs carry].
  case: (debug_assert md _) => [_| |] //=. case=> <-.
  have [[k Hk] F] := dxa_loop_spec Hp E.
  split.
  - split; first exact: from_raw_canonical. apply: strip_Forall.
    apply/List.Forall_forall => x Hx. have := proj1 (List.Forall_forall _ _) F x Hx => ->.
    apply: Z.mod_pos_bound. lia.
  - exists (Z.modulo (carry + c0) p). split; first by apply: Z.mod_pos_bound; lia.
    have [z Hz] : exists z, Z.modulo (carry + c0) p = (carry + c0 - p * z)%ZZ.
    { exists (Z.div (carry + c0) p). have := Z.div_mod (carry + c0)%ZZ p Hp. lia. }
    rewrite ?PZ_cons ?cons_poly_def PZ_from_raw Hk Hz. exists (k + z%:P).
    have -> : (carry + c0 - p * z)%ZZ%:P = carry%:P + c0%:P - p%:P * z%:P :> {poly Z}.
    { by rewrite -!polyCM -polyCD -polyCB. }
    ring.
Qed.

(** If a is a root, the constant vanishes: f = (x - a) q modulo p. *)
Lemma divide_by_x_a_root md f a p q :
  (0 < p)%ZZ -> rootm p (PZ f) a -> divide_by_x_a md f a p = Done q ->
  reduced p q /\ eqpm p (PZ f) (('X - a%:P) * PZ q).
Proof.
  move=> Hpp Hr H. have [Rq [c [Bc E]]] := divide_by_x_a_spec Hpp H. split=> //.
  have := eqpm_horner a E. rewrite Hr hornerD hornerM hornerD hornerN hornerX !hornerC.
  have -> : ((a - a) * (PZ q).[a] + c)%R = c by lia.
  rewrite Z.mod_small // => Ec. rewrite -Ec addr0 in E. exact: E.
Qed.

(** ** [add_const_wrap] keeps polynomials reduced *)

Lemma padd_canonical a b : canonical a -> canonical b -> canonical (padd opsZ a b).
Proof.
  rewrite /padd. case: a => [|x a] // Ca. case: b => [|y b] // Cb. exact: from_raw_canonical.
Qed.

Lemma last_map_nonnil (f : Z -> Z) (l : list Z) d :
  l <> [::] -> List.last (List.map f l) d = f (List.last l d).
Proof.
  elim: l => [|x l IH] // _. case: l IH => [|y l] IH //.
  have -> : List.last (List.map f [:: x, y & l]) d = List.last (List.map f (y :: l)) d by [].
  have -> : List.last [:: x, y & l] d = List.last (y :: l) d by [].
  exact: IH.
Qed.

Lemma psub_canonical a b : canonical a -> canonical b -> canonical (psub opsZ a b).
Proof.
  rewrite /psub. case: a => [|x a] Ca; last first.
  - case: b => [|y b] // Cb. exact: from_raw_canonical.
  - move=> Cb. rewrite /pneg /canonical /from_raw.
    apply: canonical_of_last => Hn.
    have Hb : b <> [::] by move=> E; apply: Hn; rewrite E.
    have := canonical_last _ Cb Hb.
    rewrite -[List.map _ _]/(List.map Z.opp b) last_map_nonnil //; lia.
Qed.

Lemma nth_padd a b i : List.nth i (padd opsZ a b) Z0 = (List.nth i a Z0 + List.nth i b Z0)%ZZ.
Proof. by rewrite -!coefPZ PZ_padd coefD. Qed.

Lemma nth_psub a b i : List.nth i (psub opsZ a b) Z0 = (List.nth i a Z0 - List.nth i b Z0)%ZZ.
Proof. by rewrite -!coefPZ PZ_psub coefB. Qed.

Lemma from_mono_canonical c : canonical (from_mono opsZ c).
Proof. exact: from_raw_canonical. Qed.

Lemma nth_from_mono c i : List.nth i (from_mono opsZ c) Z0 = if i is O then c else Z0.
Proof. by rewrite /from_mono /from_raw strip_nth; case: i => [|[|i]]. Qed.

Lemma in_range_nth p (l : list Z) i : (0 < p)%ZZ -> in_range p l -> (0 <= List.nth i l Z0 < p)%ZZ.
Proof.
  move=> Hp Hr. case: (Nat.lt_ge_cases i (length l)) => Hi.
  - exact: (proj1 (List.Forall_nth _ _) Hr i Z0 Hi).
  - rewrite List.nth_overflow //; lia.
Qed.

Lemma add_const_wrap_reduced p x c :
  (0 < p)%ZZ -> (0 <= c < p)%ZZ -> reduced p x -> reduced p (add_const_wrap x c p).
Proof.
  move=> Hp Hc [Cx Rx]. rewrite /add_const_wrap.
  set s := padd opsZ x (from_mono opsZ c).
  have Cs : canonical s by apply: padd_canonical => //; exact: from_mono_canonical.
  have Ns : forall i, List.nth i s Z0 = (List.nth i x Z0 + (if i is O then c else Z0))%ZZ.
  { move=> i. by rewrite /s nth_padd nth_from_mono. }
  case: (Z.leb_spec p (coef_at opsZ s 0)) => Hw.
  - split; first by apply: psub_canonical => //; exact: from_mono_canonical.
    apply: Forall_nth_range => k _. rewrite nth_psub Ns nth_from_mono.
    have B := in_range_nth k Hp Rx. move: Hw. rewrite /coef_at Ns.
    have B0 := in_range_nth 0 Hp Rx. case: k B => [|k] B; lia.
  - split=> //. apply: Forall_nth_range => k _. rewrite Ns.
    have B := in_range_nth k Hp Rx. move: Hw. rewrite /coef_at Ns. case: k B => [|k] B; lia.
Qed.

(** ** Soundness of [find_linear_factors_impl] *)

Definition okroot (p : Z) (f : list Z) (x : Z) : Prop := (0 <= x < p)%ZZ /\ rootm p (PZ f) x.

Lemma okroot_dvd p f g (h : {poly Z}) x :
  p <> Z0 -> eqpm p (PZ f) (PZ g * h) -> okroot p g x -> okroot p f x.
Proof.
  move=> Hp E [B R]. split=> //. apply: (rootm_eqpm E). exact: rootm_mull.
Qed.

Lemma Forall_okroot_dvd p f g (h : {poly Z}) l :
  p <> Z0 -> eqpm p (PZ f) (PZ g * h) -> List.Forall (okroot p g) l -> List.Forall (okroot p f) l.
Proof.
  move=> Hp E. apply: List.Forall_impl => x. exact: okroot_dvd E.
Qed.

Lemma draw_below_bound p r a r1 : draw_below p r = Done (a, r1) -> (0 <= a < p)%ZZ.
Proof.
  rewrite /draw_below. case: (Z.ltb_spec 0 p) => // _. exact: gen_range_bound.
Qed.

(** The recursion never returns on the zero polynomial. *)
Lemma impl_nil_not_done fuel md p res r out :
  find_linear_factors_impl fuel md [::] p res r = Done out -> False.
Proof.
  case: fuel => [|f] //=.
  case: (draw_below p r) => [[a r1]| |] //=.
  case: (modpow a p p) => [ap| |] //=.
  case: (debug_assert md _) => [_| |] //=.
  rewrite /poly_of_mod /=. case: md => //=.
Qed.

Lemma pdeg_reduced_cases (l : list Z) :
  ((pdeg l =? 0)%ZZ = true /\ exists c, l = [:: c]) \/
  ((pdeg l =? 0)%ZZ = false /\ (pdeg l =? 1)%ZZ = true /\ exists c0 c1, l = [:: c0; c1]) \/
  ((pdeg l =? 0)%ZZ = false /\ (pdeg l =? 1)%ZZ = false).
Proof.
  case: l => [|c0 [|c1 [|c2 l]]].
  - right; right. by [].
  - left. split=> //. by exists c0.
  - right; left. split=> //. split=> //. by exists c0, c1.
  - right; right. rewrite /pdeg [length _]/=. split; apply/Z.eqb_neq; lia.
Qed.

Section Sound.
Variable p : Z.
Hypothesis Hp : Znumtheory.prime p.

Let Hp2 := prime_ge_2 _ Hp.

(** Facts about one gcd split: the gcd and the cofactor are reduced and divide. *)
Lemma split_facts x poly1 g1 quo rem :
  reduced p x -> reduced p poly1 -> poly_gcd x poly1 p = Done g1 -> g1 <> [::] ->
  poly_divrem poly1 g1 p = Done (quo, rem) ->
  reduced p g1 /\ reduced p quo /\ eqpm p (PZ poly1) (PZ quo * PZ g1) /\
  (exists t, eqpm p (PZ poly1) (PZ g1 * t)).
Proof.
  move=> Rx R1 Eg Gn Ed.
  have [Rg [_ [t Ht]]] := poly_gcd_dvd Hp Rx R1 Eg.
  have Hl : (length g1 <= length poly1)%coq_nat \/ poly1 = [::].
  { case: (Nat.lt_ge_cases (length poly1) (length g1)) => Hlt; last by left.
    right. (* a shorter multiple of g1 is zero *)
    have Hpp : (0 < p)%ZZ by lia.
    have S1 : (size (PZ poly1) < length g1)%nat by rewrite (canonical_size (proj1 R1)); lia.
    have Z1 := small_multiple_zero Hp Gn (proj1 Rg) (reduced_good Hpp Rg Gn) (eqpm_sym Ht) S1.
    have E0 : eqpm p (PZ poly1) 0.
    { apply: eqpm_trans Ht _. have -> : (0 : {poly Z}) = PZ g1 * 0 by rewrite mulr0. exact: eqpm_mull. }
    case: (poly1) R1 E0 => [|c l] // [C1 I1] E0. exfalso.
    have Hn : (c :: l) <> [::] by [].
    have := canonical_last _ C1 Hn. have B := last_in_range_aux p _ Hn I1.
    have := eqpm_coef E0 (length (c :: l) - 1)%coq_nat.
    rewrite coefPZ -last_nth_len coef0 Z.mod_0_l; last lia.
    rewrite Z.mod_small //. }
  have [_ [Eq Rq]] := divrem_exact Hp Rg Gn Ht Hl Ed.
  split=> //. split=> //. split=> //. by exists t.
Qed.

Lemma impl_sound : forall fuel md poly result r out r',
  reduced p poly ->
  find_linear_factors_impl fuel md poly p result r = Done (out, r') ->
  exists new, out = result ++ new /\ List.Forall (okroot p poly) new.
Proof.
  have Hpp : (0 < p)%ZZ by lia. have Hp0 : p <> Z0 by lia.
  elim=> [|f IH] md poly result r out r' Rpoly //.
  rewrite [find_linear_factors_impl _ _ _ _ _ _]/=.
  case: (pdeg_reduced_cases poly) => [[-> _]|[[-> [-> [c0 [c1 El]]]]|[-> ->]]].
  - case=> <- _. exists [::]. by rewrite List.app_nil_r.
  - (* degree 1 *)
    case Ei: (modinv _ p) => [inv| |] //=.
    have -> : (p =? 0)%ZZ = false by apply/Z.eqb_neq.
    case=> <- _. eexists; split; first by []. constructor; last by constructor.
    rewrite El /coef_at /= in Ei *.
    have Glc : ~ (p | c1)%ZZ.
    { have := reduced_good Hpp Rpoly. rewrite El /goodlc /=. by apply. }
    have Hinv := modinv_spec Hp Glc Ei.
    split; first by apply: Z.mod_pos_bound.
    rewrite /rootm /PZ /= !horner_cons horner0.
    have -> : ((0 * Z.modulo (- c0 * inv) p + c1) * Z.modulo (- c0 * inv) p + c0)%R
              = (c1 * Z.modulo (- c0 * inv) p + c0)%ZZ by lia.
    rewrite Z.add_mod // Z.mul_mod_idemp_r //.
    have -> : (c1 * (- c0 * inv))%ZZ = (- c0 * (inv * c1))%ZZ by lia.
    rewrite -Z.mul_mod_idemp_r // Hinv Z.mul_1_r -Z.add_mod //.
    have -> : (- c0 + c0)%ZZ = Z0 by lia. by [].
  - (* degree >= 2 *)
    case Ea: (draw_below p r) => [[a r1]| |] //=.
    have Ba := draw_below_bound Ea.
    case: (modpow a p p) => [ap| |] //=.
    case: (debug_assert md _) => [_| |] //=.
    case Ev: (poly_of_mod md poly a p) => [v| |] //=.
    have Hv := poly_of_mod_spec Hp0 Ev.
    (* first stage: possibly remove the factor x - a *)
    have Stage1 : forall (K : list Z -> list Z -> outcome (list Z * rng)),
      bind (if (v =? 0)%ZZ then bind (divide_by_x_a md poly a p) (fun q => Done (q, result ++ [:: a]))
            else Done (poly, result)) (fun t => let '(poly1, result1) := t in K poly1 result1) = Done (out, r') ->
      exists poly1 new1, K poly1 (result ++ new1) = Done (out, r') /\ reduced p poly1 /\
        List.Forall (okroot p poly) new1 /\ exists h, eqpm p (PZ poly) (PZ poly1 * h).
    { move=> K. case: (Z.eqb_spec v Z0) => [Ev0|_] /=.
      - case Eq: (divide_by_x_a md poly a p) => [q| |] //= HK.
        have Ra : rootm p (PZ poly) a by rewrite /rootm -Hv Ev0.
        have [Rq Eqq] := divide_by_x_a_root Hpp Ra Eq.
        exists q, [:: a]. split=> //. split=> //. split; first by constructor.
        exists ('X - a%:P). by rewrite mulrC.
      - move=> HK. exists poly, [::]. rewrite List.app_nil_r. split=> //. split=> //. split=> //.
        exists 1. rewrite mulr1. exact: eqpm_refl. }
    move/Stage1 => [poly1 [new1 [HK [R1 [F1 [h1 Hh1]]]]]].
    move: HK. have -> : (p =? 0)%ZZ = false by apply/Z.eqb_neq.
    case Exp: (poly_modpow _ _ poly1 p) => [xapow| |] //=.
    have Rxp := poly_modpow_reduced Hp R1 Exp.
    (* generic split stage *)
    have Stage : forall x polyA resA rA (K : list Z -> list Z -> rng -> outcome (list Z * rng)),
      reduced p x -> reduced p polyA ->
      bind (poly_gcd x polyA p) (fun g =>
        bind (if (0 <? pdeg g)%ZZ
              then bind (poly_divrem polyA g p) (fun t => let '(quo, _) := t in
                   bind (find_linear_factors_impl f md g p resA rA) (fun t2 => let '(res, r'') := t2 in
                   Done (quo, res, r'')))
              else Done (polyA, resA, rA))
             (fun t => let '(polyB, resB, rB) := t in K polyB resB rB)) = Done (out, r') ->
      exists polyB newB rB, K polyB (resA ++ newB) rB = Done (out, r') /\ reduced p polyB /\
        List.Forall (okroot p polyA) newB /\ exists h, eqpm p (PZ polyA) (PZ polyB * h).
    { move=> x polyA resA rA K Rx RA.
      case Eg: (poly_gcd x polyA p) => [g| |] //=.
      case: (Z.ltb_spec 0 (pdeg g)) => _ /=; last first.
      - move=> HK. exists polyA, [::], rA. rewrite List.app_nil_r. split=> //. split=> //. split=> //.
        exists 1. rewrite mulr1. exact: eqpm_refl.
      - case Ed: (poly_divrem polyA g p) => [[quo rem]| |] //=.
        case Er: (find_linear_factors_impl f md g p resA rA) => [[res r'']| |] //= HK.
        have Gn : g <> [::] by move=> E; move: Er; rewrite E => /impl_nil_not_done.
        have [Rg [Rq [Eq [t Ht]]]] := split_facts Rx RA Eg Gn Ed.
        have [newg [Eres Fg]] := IH _ _ _ _ _ _ Rg Er.
        exists quo, newg, r''. rewrite -Eres. split=> //. split=> //. split.
        + exact: Forall_okroot_dvd Ht Fg.
        + by exists (PZ g). }
    have Rp1 : reduced p (add_const_wrap xapow 1 p) by apply: add_const_wrap_reduced => //; lia.
    move/(Stage _ _ _ _ _ Rp1 R1) => [poly2 [new2 [r2 [HK [R2 [F2 [h2 Hh2]]]]]]].
    have Rm1 : reduced p (add_const_wrap xapow (p - 1) p) by apply: add_const_wrap_reduced => //; lia.
    move: HK. move/(Stage _ _ _ _ _ Rm1 R2) => [poly3 [new3 [r3 [HK [R3 [F3 [h3 Hh3]]]]]]].
    (* divisibility chain *)
    have D2 : eqpm p (PZ poly) (PZ poly2 * (h2 * h1)).
    { apply: eqpm_trans Hh1 _. rewrite mulrA. exact: eqpm_mulr. }
    have D3 : eqpm p (PZ poly) (PZ poly3 * (h3 * (h2 * h1))).
    { apply: eqpm_trans D2 _. rewrite [PZ poly3 * _]mulrA. exact: eqpm_mulr. }
    have F2' : List.Forall (okroot p poly) new2 := Forall_okroot_dvd Hp0 Hh1 F2.
    have F3' : List.Forall (okroot p poly) new3 := Forall_okroot_dvd Hp0 D2 F3.
    move: HK. case: (negb (zlist_eqb poly poly3)).
    + move=> Er. have [new4 [E4 F4]] := IH _ _ _ _ _ _ R3 Er.
      exists (new1 ++ new2 ++ new3 ++ new4). split; first by rewrite E4 -!List.app_assoc.
      apply/List.Forall_app; split=> //. apply/List.Forall_app; split=> //. apply/List.Forall_app; split=> //.
      exact: Forall_okroot_dvd D3 F4.
    + case=> <- _. exists (new1 ++ new2 ++ new3). split; first by rewrite -!List.app_assoc.
      apply/List.Forall_app; split=> //. apply/List.Forall_app; split=> //.
Qed.

End Sound.

(** ** p = 2 *)

Lemma deflate_mod2_sound : forall fuel md poly val result poly' result',
  (0 <= val < 2)%ZZ ->
  deflate_mod2 fuel md poly val result = Done (poly', result') ->
  exists new, result' = result ++ new /\ List.Forall (okroot 2 poly) new /\
              (reduced 2 poly -> reduced 2 poly') /\ exists h, eqpm 2 (PZ poly) (PZ poly' * h).
Proof.
  have H20 : 2%ZZ <> Z0 by []. have H2p : (0 < 2)%ZZ by [].
  elim=> [|f IH] md poly val result poly' result' Bv //=.
  case Ev: (poly_of_mod md poly val 2) => [v| |] //=.
  have Hv := poly_of_mod_spec H20 Ev.
  case: (Z.eqb_spec v Z0) => [Ev0|_].
  - case Eq: (divide_by_x_a md poly val 2) => [q| |] //= Er.
    have Ra : rootm 2 (PZ poly) val by rewrite /rootm -Hv Ev0.
    have [Rq Eqq] := divide_by_x_a_root H2p Ra Eq.
    have [new [E1 [F1 [R1 [h Hh]]]]] := IH _ _ _ _ _ _ Bv Er.
    have D : eqpm 2 (PZ poly) (PZ poly' * (h * ('X - val%:P))).
    { apply: eqpm_trans Eqq _. rewrite mulrC mulrA. exact: eqpm_mulr. }
    exists (val :: new). split; first by rewrite E1 -List.app_assoc.
    split.
    + constructor; first by []. apply: Forall_okroot_dvd F1 => //. rewrite mulrC. exact: Eqq.
    + split; first by move=> _; apply: R1. by exists (h * ('X - val%:P)).
  - case=> <- <-. exists [::]. rewrite List.app_nil_r. split=> //. split=> //. split=> //.
    exists 1. rewrite mulr1. exact: eqpm_refl.
Qed.

Lemma impl_mod2_sound md poly result out :
  find_linear_factors_impl_mod2 md poly result = Done out ->
  exists new, out = result ++ new /\ List.Forall (okroot 2 poly) new.
Proof.
  rewrite /find_linear_factors_impl_mod2.
  case E0: (deflate_mod2 _ md poly 0%ZZ result) => [[poly1 result1]| |] //=.
  case E1: (deflate_mod2 _ md poly1 1%ZZ result1) => [[poly2 result2]| |] //=. case=> <-.
  have B0 : (0 <= 0 < 2)%ZZ by []. have B1 : (0 <= 1 < 2)%ZZ by [].
  have [n0 [A0 [F0 [_ [h0 H0]]]]] := deflate_mod2_sound B0 E0.
  have [n1 [A1 [F1 _]]] := deflate_mod2_sound B1 E1.
  exists (n0 ++ n1). split; first by rewrite A1 A0 -List.app_assoc.
  apply/List.Forall_app; split=> //. exact: Forall_okroot_dvd H0 F1.
Qed.

(** ** [find_linear_factors] *)

(** [P] [roots_sound]: every returned value lies in [0, p) and is a root of f modulo p. *)
Theorem roots_sound md f p r roots r' :
  Znumtheory.prime p ->
  find_linear_factors md f p r = Done (roots, r') ->
  List.Forall (fun x => (0 <= x < p)%ZZ /\ Z.modulo (pof opsZ f x) p = Z0) roots.
Proof.
  move=> Hp. have Hp2 := prime_ge_2 _ Hp. have Hpp : (0 < p)%ZZ by lia. have Hp0 : p <> Z0 by lia.
  rewrite /find_linear_factors.
  case Em: (poly_mod f p) => [poly1| |] //=.
  have R1 := poly_mod_is_reduced Hpp Em.
  have E1 := PZ_poly_mod Hp0 Em.
  have Conv : forall l, List.Forall (okroot p poly1) l ->
     List.Forall (fun x => (0 <= x < p)%ZZ /\ Z.modulo (pof opsZ f x) p = Z0) l.
  { apply: List.Forall_impl => x [B R]. split=> //. rewrite pof_horner.
    exact: (rootm_eqpm (eqpm_sym E1) R). }
  case: (Z.eqb_spec p 2) => [E2|_].
  - case Ei: (find_linear_factors_impl_mod2 md poly1 [::]) => [res| |] //=. case=> <- _.
    have [new [-> F]] := impl_mod2_sound Ei. rewrite /=. apply: Conv. by rewrite E2.
  - move=> Ei. have [new [-> F]] := impl_sound Hp R1 Ei. exact: Conv.
Qed.
