(** * Lists of coefficients as MathComp polynomials over Z; congruence modulo an integer.

    [Poly l : {poly Z}] interprets a coefficient list (canonical or not). The operations of
    [Model/Poly.v] at [opsZ] are the ring operations of [{poly Z}]; congruence of
    polynomials modulo an integer m is [eqpm m]. (ssreflect + mczify + algebra-tactics) *)
From Coq Require Import ZArith List Lia.
From mathcomp Require Import all_ssreflect ssralg poly.
From RNT.Model Require Import Base Poly PolyModP.
From RNT.Refine Require Import PolyModPArith.
From mathcomp Require Import ssrZ zify ring.   (* last: [ring] must be the algebra-tactics one *)
Set Implicit Arguments. Unset Strict Implicit. Unset Printing Implicit Defensive.
Import GRing.Theory.
Local Open Scope ring_scope.
Delimit Scope Z_scope with ZZ.

Definition PZ (l : list Z) : {poly Z} := Poly l.
Lemma PZE l : PZ l = Poly l. Proof. by []. Qed.

Ltac pring := ring.

(** ** Coq lists vs ssreflect sequences *)

Lemma lengthE (T : Type) (l : list T) : length l = size l.
Proof. by elim: l => //= x l ->. Qed.

Lemma lnthE (l : list Z) i : List.nth i l Z0 = l`_i.
Proof. by elim: l i => [|x l IH] [|i] //=. Qed.

Lemma lmapE (A B : Type) (f : A -> B) l : List.map f l = [seq f x | x <- l].
Proof. by elim: l => //= x l ->. Qed.

Lemma coefPZ (l : list Z) i : (PZ l)`_i = List.nth i l Z0.
Proof. by rewrite /PZ coef_Poly lnthE. Qed.

Lemma PZ_ext (a b : list Z) : (forall i, List.nth i a Z0 = List.nth i b Z0) -> PZ a = PZ b.
Proof. by move=> H; apply/polyP => i; rewrite !coefPZ. Qed.

Lemma PZ_cons x (l : list Z) : PZ (x :: l) = PZ l * 'X + x%:P.
Proof. by rewrite /PZ /= cons_poly_def. Qed.

Lemma lnth_map0 (f : Z -> Z) l i : f Z0 = Z0 -> List.nth i (List.map f l) Z0 = f (List.nth i l Z0).
Proof. move=> f0. by elim: l i => [|x l IH] [|i] //=. Qed.

(** ** The operations of Model/Poly.v *)

Lemma PZ_strip l : PZ (strip opsZ l) = PZ l.
Proof. apply: PZ_ext => i. exact: strip_nth. Qed.

Lemma PZ_from_raw l : PZ (from_raw opsZ l) = PZ l.
Proof. exact: PZ_strip. Qed.

Lemma nth_zip_pad (f : Z -> Z -> Z) a b i :
  f Z0 Z0 = Z0 ->
  List.nth i (zip_pad opsZ f a b) Z0 = f (List.nth i a Z0) (List.nth i b Z0).
Proof.
  move=> f0. elim: a b i => [|x a IH] b i.
  - change (zip_pad opsZ f [::] b) with (List.map (f Z0) b).
    have -> : List.nth i [::] Z0 = Z0 by case: i.
    have -> : List.nth i (List.map (f Z0) b) Z0 = List.nth i (List.map (f Z0) b) (f Z0 Z0) by rewrite f0.
    exact: List.map_nth.
  - case: b => [|y b].
    + change (zip_pad opsZ f (x :: a) [::]) with (List.map (fun x => f x Z0) (x :: a)).
      have -> : List.nth i [::] Z0 = Z0 by case: i.
      have -> : List.nth i (List.map (fun x => f x Z0) (x :: a)) Z0
                = List.nth i (List.map (fun x => f x Z0) (x :: a)) ((fun x => f x Z0) Z0) by rewrite /= f0.
      exact: (List.map_nth (fun x => f x Z0)).
    + case: i => [|i] //=.
Qed.

Lemma PZ_padd a b : PZ (padd opsZ a b) = PZ a + PZ b.
Proof.
  rewrite /padd. case: a => [|x a]; first by rewrite add0r.
  case: b => [|y b]; first by rewrite addr0.
  rewrite PZ_from_raw. apply/polyP => i. rewrite coefD !coefPZ nth_zip_pad //.
Qed.

Lemma PZ_pneg a : PZ (pneg opsZ a) = - PZ a.
Proof.
  apply/polyP => i. by rewrite coefN !coefPZ /pneg lnth_map0.
Qed.

Lemma PZ_psub a b : PZ (psub opsZ a b) = PZ a - PZ b.
Proof.
  rewrite /psub. case: a => [|x a]; first by rewrite PZ_pneg sub0r.
  case: b => [|y b]; first by rewrite subr0.
  rewrite PZ_from_raw. apply/polyP => i. rewrite coefB !coefPZ nth_zip_pad //.
Qed.

Lemma PZ_map_scale c a : PZ (List.map (fun x => Z.mul c x) a) = c%:P * PZ a.
Proof.
  apply/polyP => i. rewrite coefCM !coefPZ lnth_map0 //. lia.
Qed.

Lemma PZ_map_scale_r c a : PZ (List.map (fun x => Z.mul x c) a) = PZ a * c%:P.
Proof.
  apply/polyP => i. rewrite coefMC !coefPZ lnth_map0 //.
Qed.

Lemma PZ_pmul_raw a b : PZ (pmul_raw opsZ a b) = PZ a * PZ b.
Proof.
  elim: a => [|x a IH]; first by rewrite /= mul0r.
  rewrite [pmul_raw _ _ _]/=. rewrite PZ_cons mulrDl.
  have -> : PZ (zip_pad opsZ (radd opsZ) (pscale opsZ x b) (r0 opsZ :: pmul_raw opsZ a b))
            = PZ (pscale opsZ x b) + PZ (Z0 :: pmul_raw opsZ a b).
  { apply/polyP => i. by rewrite coefD !coefPZ nth_zip_pad. }
  rewrite PZ_cons IH /pscale PZ_map_scale.
  rewrite polyC0. pring.
Qed.

Lemma PZ_pmul a b : PZ (pmul opsZ a b) = PZ a * PZ b.
Proof.
  rewrite /pmul. case: a => [|x a]; first by rewrite mul0r.
  case: b => [|y b]; first by rewrite mulr0.
  by rewrite PZ_from_raw PZ_pmul_raw.
Qed.

Lemma PZ_poly_mul a c : PZ (poly_mul a c) = PZ a * c%:P.
Proof.
  rewrite /poly_mul. case: a => [|x a]; first by rewrite mul0r.
  by rewrite PZ_from_raw PZ_map_scale_r.
Qed.

Lemma PZ_from_mono c : PZ (from_mono opsZ c) = c%:P.
Proof. by rewrite /from_mono PZ_from_raw /= cons_poly_def mul0r add0r. Qed.

Lemma PZ_nil : PZ [::] = 0.
Proof. by []. Qed.

(** Canonical lists are exactly the coefficient sequences of polynomials. *)
Lemma llastE x (l : list Z) d : List.last (x :: l) d = seq.last x l.
Proof. elim: l x => [|y l IH] x //. exact: IH. Qed.

Lemma canonical_polyseq (l : list Z) : canonical l -> polyseq (PZ l) = l.
Proof.
  case: l => [|x l] Hc; first by rewrite /PZ /= polyseq0.
  have H : List.last (x :: l) Z0 <> Z0 by apply: canonical_last.
  rewrite llastE in H. rewrite /PZ. apply: (@PolyK _ x). rewrite /=. exact/eqP.
Qed.

Lemma canonical_PZ_inj (a b : list Z) : canonical a -> canonical b -> PZ a = PZ b -> a = b.
Proof. by move=> Ha Hb E; rewrite -(canonical_polyseq Ha) -(canonical_polyseq Hb) E. Qed.

Lemma canonical_size (l : list Z) : canonical l -> size (PZ l) = length l.
Proof. by move=> Hc; rewrite (canonical_polyseq Hc) lengthE. Qed.

Lemma polyseq_canonical (q : {poly Z}) : canonical (polyseq q).
Proof.
  apply: canonical_of_last. case: q => s /= Hs.
  case: s Hs => [|x s] // Hs _. rewrite llastE. exact/eqP.
Qed.

(** ** Congruence modulo an integer *)

Definition eqpm (m : Z) (a b : {poly Z}) : Prop := exists k : {poly Z}, a = b + m%:P * k.

Lemma eqpm_refl m a : eqpm m a a.
Proof. exists 0. ring. Qed.

Lemma eqpm_sym m a b : eqpm m a b -> eqpm m b a.
Proof. case=> k ->. exists (- k). ring. Qed.

Lemma eqpm_trans m b a c : eqpm m a b -> eqpm m b c -> eqpm m a c.
Proof. case=> k -> [k' ->]. exists (k + k'). ring. Qed.

Lemma eqpm_add m a a' b b' : eqpm m a a' -> eqpm m b b' -> eqpm m (a + b) (a' + b').
Proof. case=> k -> [k' ->]. exists (k + k'). ring. Qed.

Lemma eqpm_opp m a a' : eqpm m a a' -> eqpm m (- a) (- a').
Proof. case=> k ->. exists (- k). ring. Qed.

Lemma eqpm_sub m a a' b b' : eqpm m a a' -> eqpm m b b' -> eqpm m (a - b) (a' - b').
Proof. case=> k -> [k' ->]. exists (k - k'). ring. Qed.

Lemma eqpm_mul m a a' b b' : eqpm m a a' -> eqpm m b b' -> eqpm m (a * b) (a' * b').
Proof. case=> k -> [k' ->]. exists (k * b' + a' * k' + m%:P * k * k'). ring. Qed.

Lemma eqpm_mull m c a a' : eqpm m a a' -> eqpm m (c * a) (c * a').
Proof. move=> H. apply: eqpm_mul => //. exact: eqpm_refl. Qed.

Lemma eqpm_mulr m c a a' : eqpm m a a' -> eqpm m (a * c) (a' * c).
Proof. move=> H. apply: eqpm_mul => //. exact: eqpm_refl. Qed.

(** Weakening to a divisor of the modulus, scaling. *)
Lemma eqpm_weaken m n a b : eqpm (Z.mul m n) a b -> eqpm m a b.
Proof.
  case=> k ->. exists (n%:P * k).
  have -> : (Z.mul m n)%:P = m%:P * n%:P :> {poly Z} by rewrite -polyCM.
  ring.
Qed.

Lemma eqpm_scale q m a b : eqpm m a b -> eqpm (Z.mul q m) (q%:P * a) (q%:P * b).
Proof.
  case=> k ->. exists k.
  have -> : (Z.mul q m)%:P = q%:P * m%:P :> {poly Z} by rewrite -polyCM.
  ring.
Qed.

Lemma eqpm_mod0 m k : eqpm m (m%:P * k) 0.
Proof. exists k. ring. Qed.

(** Coefficientwise form. *)
Lemma eqpm_coef m (a b : {poly Z}) : eqpm m a b -> forall i, Z.modulo a`_i m = Z.modulo b`_i m.
Proof.
  case=> k -> i. rewrite coefD coefCM.
  have -> : (b`_i + m * k`_i)%R = (b`_i + k`_i * m)%ZZ by lia.
  case: (Z.eqb_spec m Z0) => [->|Hm].
  - by rewrite Z.mul_0_r Z.add_0_r.
  - by rewrite Z.mod_add.
Qed.

Lemma eqpm_of_coef m (a b : {poly Z}) : (forall i, Z.modulo a`_i m = Z.modulo b`_i m) -> eqpm m a b.
Proof.
  move=> H.
  exists (\poly_(i < maxn (size a) (size b)) (Z.div (a`_i - b`_i)%ZZ m)).
  apply/polyP => i. rewrite coefD coefCM coef_poly.
  case: ltnP => Hi.
  - have Hi' := H i.
    case: (Z.eqb_spec m Z0) => [Hm|Hm].
    + move: Hi'. rewrite Hm !Zmod_0_r => ->. lia.
    + have E := Z.div_mod (a`_i - b`_i)%ZZ m Hm.
      have E0 : Z.modulo (a`_i - b`_i)%ZZ m = Z0.
      { rewrite Zminus_mod Hi' Z.sub_diag. exact: Z.mod_0_l. }
      rewrite E0 in E. lia.
  - move: Hi; rewrite geq_max => /andP [Ha Hb].
    by rewrite (seq.nth_default _ Ha) (seq.nth_default _ Hb) mulr0 addr0.
Qed.

(** The list-level congruence used in the statements of Props. *)
Definition peqmod (p : Z) (a b : list Z) : Prop := poly_mod (psub opsZ a b) p = Done [::].

Lemma peqmodP p a b : p <> Z0 -> peqmod p a b <-> eqpm p (PZ a) (PZ b).
Proof.
  move=> Hp. rewrite /peqmod poly_mod_eq' //. split.
  - case=> H. apply: eqpm_of_coef => i.
    have Hs : PZ (strip opsZ (List.map (fun c : Z => Z.modulo c p) (psub opsZ a b))) = 0 by rewrite /from_raw in H; rewrite H.
    have := congr1 (fun q : {poly Z} => q`_i) Hs.
    rewrite PZ_strip coefPZ coef0.
    have -> : Z0 = (fun c : Z => Z.modulo c p) Z0 by [].
    rewrite List.map_nth /= -coefPZ PZ_psub coefB => E.
    have E' : Z.modulo ((PZ a)`_i - (PZ b)`_i)%ZZ p = Z0 by exact: E.
    exact: mod_sub_0.
  - move=> H. congr Done. apply/strip_nil_iff. apply/List.Forall_forall => c.
    case/(List.In_nth _ _ Z0) => i [Hi <-].
    have -> : Z0 = (fun c : Z => Z.modulo c p) Z0 by [].
    rewrite List.map_nth /= -coefPZ PZ_psub coefB.
    have := eqpm_coef H i. move=> E.
    change (Z.modulo ((PZ a)`_i - (PZ b)`_i)%ZZ p = Z0).
    rewrite Zminus_mod E Z.sub_diag. exact: Z.mod_0_l.
Qed.

(** [poly_mod] as a congruence. *)
Lemma PZ_poly_mod l m r : m <> Z0 -> poly_mod l m = Done r -> eqpm m (PZ r) (PZ l).
Proof.
  move=> Hm H. apply: eqpm_of_coef => i.
  by rewrite !coefPZ (poly_mod_nth _ _ _ i Hm H) Z.mod_mod.
Qed.

