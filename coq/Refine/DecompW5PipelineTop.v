(** * DecompW5PipelineTop (C17, fifth wave): [decompose] on the order returned by [find_integral_basis].

    For monic f (degree deg >= 1, 2 deg < 2^64, non-zero discriminant of fewer than 2^64 bits) the driver returns an order
    O that is p-maximal at every prime (C06 find_integral_basis_p_maximal), has first row (1, 0, .., 0)
    ([order_first_row]) and contains Z[theta] ([monic_contains_power_basis]); so every C17 theorem applies to
    [decompose md f O t p] with t = get_mult_table O f, for every prime p, with no hypothesis left on the order.
    Style: ssreflect/MathComp. *)
From Coq Require Import ZArith List Lia Znumtheory.
From Coq Require Import QArith Qcanon.
From mathcomp Require Import all_ssreflect ssralg.
From RNT.Model Require Import Base Poly PolyModP LinAlg MultTable Order FactorModP Ideal PrimeDecomp.
From RNT.Model Require Hnf Round2.
From RNT.Refine Require Import MatZ HnfSpec IdealBasic IdealMul IdealSpec MonicZ PolyZ PolyRefine DecompDegree DecompW3Factors.
From RNT.Refine Require Import DecompW3Top DecompW5Lattice DecompW5Top.
From RNT.Refine Require PolyModPDivList OrderCanon DecompW5Max DecompW5Contain DecompW5Pipeline Round2Det Round2W3Driver Round2W4PZ Round2W4Max.
From mathcomp Require Import ssrZ zify.
Set Implicit Arguments. Unset Strict Implicit. Unset Printing Implicit Defensive.

(** the hypotheses of the C17 theorems on the result of the driver *)
Theorem pipeline_hyps m f deg :
  canonZ f = true -> length f = S deg -> (1 <= deg)%coq_nat -> (2 * Z.of_nat deg < two64)%Z ->
  List.nth deg f 0%Z = 1%Z ->
  (forall o0 d0, non_monic_initial_order f = Done o0 -> Round2.order_disc m o0 f = Done d0 ->
     d0 <> 0%Z /\ (Z.log2 (Z.abs d0) < two64)%Z) ->
  exists O t Sl,
    [/\ Round2.find_integral_basis m f = Done O, get_mult_table O f = Done t, length O = deg,
        OrderCanon.qshape deg deg O
      & [/\ List.nth 0 O [::] = Q2Qc 1 :: List.repeat (Q2Qc 0) (deg - 1),
            (forall i j, (i < j)%coq_nat -> (j < deg)%coq_nat -> List.nth j (List.nth i O [::]) (Q2Qc 0) = Q2Qc 0),
            shape deg deg Sl /\ OrderCanon.qmmul deg Sl O = identity fopsQc deg,
            Round2W3Driver.is_order f deg O
          & forall p, Znumtheory.prime p -> Round2W4PZ.p_maximal f deg p O]].
Proof.
move=> cf Lf D1 D2 Mon Hd.
have [O [FIB [IO PM]]] := Round2W4Max.find_integral_basis_p_maximal m f deg cf Lf D1 D2 Mon Hd.
have [LO [One [t gt]]] := IO.
have [Sl [SS ES]] := DecompW5Contain.monic_contains_power_basis m f deg O Lf D1 Mon FIB.
have [lO wO] := Round2Det.lower_from_shape deg O LO.
exists O, t, Sl; split=> //; split=> //.
- exact: (DecompW5Pipeline.order_first_row cf Lf D1 IO).
- move=> i j hij hj; apply: (Round2Det.lf_zero _ _ _ LO); lia.
Qed.

Lemma lmonic_of_nth (f : list Z) deg : length f = S deg -> List.nth deg f 0%Z = 1%Z -> lmonic f.
Proof.
rewrite /lmonic => Lf <-; rewrite PolyModPDivList.last_nth_len Lf.
by congr (List.nth _ _ _); lia.
Qed.

(** [P] the decomposition theorem for the integral-basis pipeline *)
Theorem pipeline_decomposition m f deg :
  canonZ f = true -> length f = S deg -> (1 <= deg)%coq_nat -> (2 * Z.of_nat deg < two64)%Z ->
  List.nth deg f 0%Z = 1%Z ->
  (forall o0 d0, non_monic_initial_order f = Done o0 -> Round2.order_disc m o0 f = Done d0 ->
     d0 <> 0%Z /\ (Z.log2 (Z.abs d0) < two64)%Z) ->
  exists O t,
    Round2.find_integral_basis m f = Done O /\ get_mult_table O f = Done t /\ length O = deg /\
    forall p md r res r', Znumtheory.prime p -> decompose md f O t p r = Done (res, r') ->
      (* every P_i is a prime ideal above p, they are pairwise distinct *)
      List.Forall (fun Pe : ideal * Z =>
         ~ In_rowspanZ deg (unit_vec deg 0) (i_hnf (fst Pe)) /\ cap_z (fst Pe) = Done p /\
         forall u v, length u = deg -> length v = deg ->
           In_rowspanZ deg (bil t u v) (i_hnf (fst Pe)) ->
           In_rowspanZ deg u (i_hnf (fst Pe)) \/ In_rowspanZ deg v (i_hnf (fst Pe))) res /\
      List.NoDup (List.map (fun Pe : ideal * Z => i_hnf (fst Pe)) res) /\
      (* norm P_i = p^(f_i) with f_i = deg g_i, sum e_i f_i = deg *)
      (exists gs, decompose_full md f O t p r = Done (gs, r') /\ res = List.map proj_full gs /\
         List.Forall (fun x : list Z * ideal * Z => norm (snd (fst x)) = Done (p ^ pdeg (fst (fst x)))%Z) gs /\
         degree_sum (List.map factor_of gs) = pdeg f) /\
      (* prod P_i^e_i = p O *)
      forall md', exists I,
        ideal_product md' t res = Done I /\ principal md' t (p :: List.repeat 0%Z (deg - 1)) = Done I /\
        norm I = Done (p ^ Z.of_nat deg)%Z /\
        forall v, In_rowspanZ deg v (i_hnf I) <-> exists w, length w = deg /\ v = vscale p w.
Proof.
move=> cf Lf D1 D2 Mon Hd.
have [O [t [Sl [FIB gt lO Sb [B0 Tri [SS ES] IO PM]]]]] := pipeline_hyps cf Lf D1 D2 Mon Hd.
exists O, t; split=> //; split=> //; split=> // p md r res r' Hp D.
have Hf : lmonic f := lmonic_of_nth Lf Mon.
have Hl : (Z.of_nat (length f) <= two64)%Z by rewrite Lf; lia.
have Lf' : length f = S (length O) by rewrite lO.
have D1' : (1 <= length O)%coq_nat by rewrite lO.
rewrite -lO in Sb B0 Tri SS ES IO PM.
split; [|split; [|split]].
- have := prime_above_proper_std Hp Hf Hl Lf' D1' Sb B0 gt SS ES D.
  have := primes_prime_std Hp Hf Hl Lf' D1' Sb B0 gt SS ES D.
  rewrite /= lO => A1 A2.
  move/List.Forall_forall: A1 => A1; move/List.Forall_forall: A2 => A2.
  apply/List.Forall_forall => Pe iPe; have [a1 [a2 _]] := A2 _ iPe.
  by split=> //; split=> //; apply: A1.
- exact: (primes_distinct_std Hp Hf Hl Lf' D1' Sb B0 gt SS ES D).
- exact: (residue_degrees_std Hp Hf Hl Lf' D1' Sb B0 Tri gt SS ES D).
- move=> md'.
  have := DecompW5Max.product_pmax_std md' Hp Hf Hl Lf' D1' Sb B0 gt SS ES IO (PM p Hp) D.
  by rewrite /= lO.
Qed.
