(** * Bertrand's postulate, layer 1: bounds on binomial coefficients and the primorial bound. MathComp style.

    - [central_bin_lower] : 4^n <= 2n * C(2n, n)                     (n >= 1)
    - [bin_odd_upper]     : C(2k+1, k) <= 4^k
    - [primorial_le]      : the product of the primes <= m is at most 4^m

    Everything is over [nat], no reals. *)
From mathcomp Require Import all_ssreflect.
From mathcomp Require Import zify.
Set Implicit Arguments.
Unset Strict Implicit.
Unset Printing Implicit Defensive.

(** ** The central binomial coefficient *)

Lemma bin_odd_sym k : 'C(k.*2.+1, k.+1) = 'C(k.*2.+1, k).
Proof.
rewrite -(@bin_sub k.*2.+1 k); last by rewrite -addnn; lia.
by congr 'C(_, _); rewrite -addnn; lia.
Qed.

(** (n+1) C(2n+2, n+1) = 2 (2n+1) C(2n, n) *)
Lemma central_bin_rec n : n.+1 * 'C(n.+1.*2, n.+1) = 2 * (n.*2.+1 * 'C(n.*2, n)).
Proof.
have H1 : n.+1.*2 * 'C(n.*2.+1, n) = n.+1 * 'C(n.+1.*2, n.+1).
  by have := mul_bin_diag n.+1.*2 n; rewrite doubleS.
have H2 : n.*2.+1 * 'C(n.*2, n) = n.+1 * 'C(n.*2.+1, n.+1).
  by have := mul_bin_diag n.*2.+1 n.
have H3 := bin_odd_sym n.
rewrite -H1 H2 H3 -!muln2; lia.
Qed.

(** 4^n <= 2n * C(2n, n) for n >= 1 *)
Lemma central_bin_lower n : 0 < n -> 4 ^ n <= n.*2 * 'C(n.*2, n).
Proof.
case: n => // n _; elim: n => [|n IH] //.
have R := central_bin_rec n.+1.
rewrite expnS; move: R IH.
move: ('C(n.+1.*2, n.+1)) ('C(n.+2.*2, n.+2)) (4 ^ n.+1) => A B E R IH.
nia.
Qed.

(** ** Row sums and the odd "central" coefficient *)

Lemma bin_row_sum n : \sum_(i < n.+1) 'C(n, i) = 2 ^ n.
Proof.
have := expnDn 1 1 n; rewrite addn1 => ->.
by apply: eq_bigr => i _; rewrite !exp1n !muln1.
Qed.

(** C(2k+1, k) <= 4^k *)
Lemma bin_odd_upper k : 'C(k.*2.+1, k) <= 4 ^ k.
Proof.
have Hk : k < k.*2.+2 by rewrite -addnn; lia.
have Hk1 : k.+1 < k.*2.+2 by rewrite -addnn; lia.
have S := bin_row_sum k.*2.+1.
rewrite (bigD1 (Ordinal Hk)) //= (bigD1 (Ordinal Hk1)) //= in S; last first.
  by rewrite -val_eqE /= ; lia.
have E := bin_odd_sym k.
rewrite E in S.
have : 2 * 'C(k.*2.+1, k) <= 2 * 4 ^ k.
  have -> : 2 * 4 ^ k = 2 ^ k.*2.+1 by rewrite expnS -mul2n expnM.
  by rewrite -S mul2n -addnn addnA leq_addr.
by rewrite leq_mul2l.
Qed.

(** ** Primes dividing a binomial coefficient *)

Lemma prime_dvd_fact p n : prime p -> (p %| n`!) = (p <= n).
Proof.
move=> pP; elim: n => [|n IH]; first by rewrite fact0 Euclid_dvd1 // leqn0 eqn0Ngt prime_gt0.
rewrite factS Euclid_dvdM // IH.
apply/orP/idP => [[/dvdn_leq->//|/leqW//]|].
rewrite leq_eqVlt => /orP[/eqP->|]; first by left.
by rewrite ltnS; right.
Qed.

(** a prime p with m < p, n - m < p, p <= n divides C(n, m) *)
Lemma prime_dvd_bin_gen p n m : prime p -> m <= n -> m < p -> n - m < p -> p <= n -> p %| 'C(n, m).
Proof.
move=> pP lemn ltmp ltnmp lepn.
have := bin_fact lemn.
have : p %| n`! by rewrite prime_dvd_fact.
move=> Hd E; rewrite -E in Hd.
rewrite Gauss_dvdl // in Hd.
rewrite coprimeMr !prime_coprime // !prime_dvd_fact // -!ltnNge; lia.
Qed.

(** ** A product of distinct primes each dividing M divides M *)

Lemma dvdn_prod_primes a b M :
  (forall p, a <= p < b -> prime p -> p %| M) -> \prod_(a <= p < b | prime p) p %| M.
Proof.
elim: b => [|b IH] H; first by rewrite big_geq // dvd1n.
have [leab|ltba] := leqP a b; last by rewrite big_geq // dvd1n.
rewrite big_mkcond /= big_nat_recr //= -big_mkcond /=.
have IH' : \prod_(a <= p < b | prime p) p %| M.
  by apply: IH => p /andP[H1 H2]; apply: H; rewrite H1 /= ltnS ltnW.
case: ifP => [bP|_]; last by rewrite muln1.
rewrite Gauss_dvd ?IH' /=; first by apply: H => //; rewrite leab /=.
rewrite coprime_sym prime_coprime // Euclid_dvd_prod //.
rewrite big_has_cond; apply/hasPn => p; rewrite mem_index_iota => /andP[_ Hp] /=.
apply/negP => /andP[pP /dvdn_leq]; rewrite prime_gt0 // => /(_ isT).
by rewrite leqNgt Hp.
Qed.

(** ** The primorial bound *)

Definition primorial m := \prod_(0 <= p < m.+1 | prime p) p.

Lemma primorial_gt0 m : 0 < primorial m.
Proof. by rewrite /primorial prodn_cond_gt0 // => p; exact: prime_gt0. Qed.

Lemma primorialS m : primorial m.+1 = primorial m * (if prime m.+1 then m.+1 else 1).
Proof. by rewrite /primorial big_mkcond /= big_nat_recr //= -big_mkcond. Qed.

Lemma primorial_le m : primorial m <= 4 ^ m.
Proof.
elim/ltn_ind: m => m IH.
case: m IH => [|[|[|m]]] IH; try by rewrite /primorial unlock.
(* m + 3 *)
have [ev|od] := boolP (odd m).
- (* m + 3 is even and > 2: not prime *)
  rewrite primorialS.
  have -> : prime m.+3 = false.
    apply/negP => /primeP[_ /(_ 2)]; rewrite dvdn2 /= ev => /(_ isT); lia.
  by rewrite muln1 (leq_trans (IH m.+2 _)) // leq_exp2l.
- (* m + 3 = 2k + 1 with k = m/2 + 1 *)
  pose k := (m./2).+1.
  have Em : m.+3 = k.*2.+1.
    by rewrite /k doubleS -[in LHS](odd_double_half m) (negbTE od).
  rewrite Em.
  have -> : primorial k.*2.+1 = primorial k.+1 * \prod_(k.+2 <= p < k.*2.+2 | prime p) p.
    by rewrite /primorial (@big_cat_nat _ _ _ k.+2) //= -addnn; lia.
  have H1 : primorial k.+1 <= 4 ^ k.+1 by apply: IH; rewrite Em -addnn; lia.
  have H2 : \prod_(k.+2 <= p < k.*2.+2 | prime p) p <= 4 ^ k.
    apply: leq_trans (bin_odd_upper k).
    apply: dvdn_leq; first by rewrite bin_gt0 -addnn; lia.
    apply: dvdn_prod_primes => p /andP[H3 H4] pP.
    rewrite -bin_odd_sym.
    apply: prime_dvd_bin_gen => //; rewrite -?addnn; lia.
  have -> : 4 ^ k.*2.+1 = 4 ^ k.+1 * 4 ^ k by rewrite -expnD addSn addnn.
  exact: leq_mul.
Qed.
