(** * HnfKernel (C03): the first k rows of U form a Z-basis of the left kernel of A:
      linearly independent, annihilated by A, and generating every integer solution of x * A = 0. *)
From Coq Require Import ZArith List Lia Bool.
From RNT.Model Require Import Base Hnf.
From RNT.Refine Require Import MatZ HnfOps HnfSteps HnfSpec HnfLoop HnfMain HnfUnique.
Import ListNotations.
Open Scope Z_scope.

(** ** right identity *)
Lemma nth_unit_from s n i col :
  (col < n)%nat -> nth col (unit_from s n i) 0 = if (i =? s + col)%nat then 1 else 0.
Proof.
  intros Hc. unfold unit_from.
  set (f := fun j : nat => if (i =? j)%nat then 1 else 0).
  rewrite nth_indep with (d' := f 0%nat) by (rewrite map_length, seq_length; auto).
  rewrite (map_nth f), seq_nth by auto. reflexivity.
Qed.

Lemma nth_lincomb_units n : forall len s y col,
  length y = len -> (s + len <= n)%nat -> (col < n)%nat ->
  ((s <= col < s + len)%nat ->
     nth col (lincomb n y (map (fun t => unit_from 0 n t) (seq s len))) 0 = nth (col - s) y 0) /\
  (~ (s <= col < s + len)%nat ->
     nth col (lincomb n y (map (fun t => unit_from 0 n t) (seq s len))) 0 = 0).
Proof.
  induction len as [|len IH]; intros s y col Hy Hs Hc.
  - destruct y; [|discriminate]. simpl. rewrite nth_vzero. split; intros; [lia|auto].
  - destruct y as [|y0 y]; [discriminate|]. simpl in Hy. simpl seq. simpl map.
    assert (Hw : wf n (map (fun t => unit_from 0 n t) (seq (S s) len))).
    { unfold wf. apply Forall_forall. intros r Hr. apply in_map_iff in Hr.
      destruct Hr as [t [<- _]]. apply unit_from_length. }
    rewrite nth_lincomb_cons; [|apply unit_from_length|exact Hw].
    rewrite nth_unit_from by auto. simpl (0 + col)%nat.
    destruct (IH (S s) y col ltac:(lia) ltac:(lia) Hc) as [IH1 IH2].
    destruct (Nat.eqb_spec s col) as [->|Hne].
    + rewrite IH2 by lia. split; intros; [|lia]. rewrite Nat.sub_diag. simpl. lia.
    + split; intros Hr.
      * rewrite IH1 by lia. replace (col - s)%nat with (S (col - S s)) by lia. simpl. lia.
      * rewrite IH2 by lia. lia.
Qed.

Lemma lincomb_idmat_r n y : length y = n -> lincomb n y (idmat n) = y.
Proof.
  intros Hy. apply vec_ext with n; auto.
  - apply lincomb_length. apply idmat_shape.
  - intros col Hc. unfold idmat.
    destruct (nth_lincomb_units n n 0%nat y col Hy ltac:(lia) Hc) as [H1 _].
    rewrite H1 by lia. rewrite Nat.sub_0_r. reflexivity.
Qed.

(** ** splitting a combination *)
Lemma lincomb_app m c1 c2 A1 A2 :
  wf m A1 -> wf m A2 -> length c1 = length A1 ->
  lincomb m (c1 ++ c2) (A1 ++ A2) = vadd (lincomb m c1 A1) (lincomb m c2 A2).
Proof.
  intros H1 H2 Hl. apply vec_ext with m.
  - apply lincomb_length. apply wf_app; auto.
  - rewrite vadd_length; rewrite !lincomb_length; auto.
  - intros col _. rewrite nth_lincomb_app; auto. rewrite nth_vadd; auto.
    rewrite !lincomb_length; auto.
Qed.

Lemma last_nz_None_vzero c : last_nz c = None -> c = vzero (length c).
Proof. intros H. apply vzero_all; auto. intros i _. apply last_nz_None; auto. Qed.

(** ** kernel basis *)
Theorem kernel_basis A n m H U k :
  shape n m A -> (1 <= n)%nat -> (1 <= m)%nat -> hnf_with_u A = Done (H, U, k) ->
  let K := firstn k U in
  (* independent *)
  (forall c, length c = k -> lincomb n c K = vzero n -> c = vzero k) /\
  (* generates every integer solution of x * A = 0 *)
  (forall x, length x = n -> lincomb m x A = vzero m -> In_rowspanZ n x K).
Proof.
  intros HS Hn Hm E K.
  destruct (hnf_with_u_correct A n m H U k HS Hn Hm E) as (Hrows & [HUn HUw] & (V & [HVn HVw] & HVU & HUV) & Hmul & Hcnt).
  destruct HS as [HAn HAw].
  assert (HUs : U = K ++ skipn k U) by (symmetry; apply firstn_skipn).
  assert (HK : wf n K /\ wf n (skipn k U)).
  { rewrite HUs in HUw. apply wf_app in HUw. auto. }
  destruct HK as [HKw HSw].
  assert (HKl : length K = k) by (unfold K; rewrite firstn_length; lia).
  split.
  - intros c Hc Hz.
    set (y := c ++ vzero (n - k)).
    assert (Hy : length y = n) by (unfold y; rewrite app_length, vzero_length; lia).
    assert (HyU : lincomb n y U = vzero n).
    { rewrite HUs. unfold y. rewrite lincomb_app; auto; [|lia].
      rewrite Hz, lincomb_vzero; auto.
      apply vec_ext with n; auto using vzero_length.
      - rewrite vadd_length; [apply vzero_length|reflexivity].
      - intros. rewrite nth_vadd, !nth_vzero; auto. }
    assert (Hy0 : y = vzero n).
    { rewrite <- (lincomb_idmat_r n y Hy). rewrite <- HUV.
      rewrite <- (lincomb_assoc n n); auto. rewrite HyU. apply lincomb_vzero; auto. }
    apply vec_ext with k; auto using vzero_length.
    intros i Hi. rewrite nth_vzero.
    assert (Hn0 : nth i y 0 = 0) by (rewrite Hy0; apply nth_vzero).
    unfold y in Hn0. rewrite app_nth1 in Hn0 by lia. exact Hn0.
  - intros x Hx Hz.
    set (y := lincomb n x V).
    assert (Hy : length y = n) by (apply lincomb_length; auto).
    assert (Hxy : x = lincomb n y U).
    { unfold y. rewrite (lincomb_assoc n n); auto. rewrite HVU. symmetry. apply lincomb_idmat_r; auto. }
    assert (Hw : wf m H) by (apply hnf_rows_wf with 0%nat; auto).
    assert (Hs : lincomb m (skipn k y) H = vzero m).
    { rewrite <- lincomb_zero_rows by (auto; lia). rewrite <- Hmul.
      rewrite <- (lincomb_assoc m n); auto. rewrite <- Hxy. exact Hz. }
    assert (Hsz : skipn k y = vzero (n - k)).
    { replace (n - k)%nat with (length (skipn k y)) by (rewrite skipn_length; lia).
      apply last_nz_None_vzero. apply (echelon_indep m 0 H); auto. rewrite skipn_length. lia. }
    exists (firstn k y). split; [rewrite firstn_length; lia|].
    rewrite Hxy at 1. rewrite HUs at 1. rewrite <- (firstn_skipn k y) at 1.
    rewrite lincomb_app; auto; [|rewrite firstn_length; lia].
    rewrite Hsz, lincomb_vzero; auto.
    apply vec_ext with n.
    + rewrite vadd_length; rewrite lincomb_length; auto. rewrite vzero_length; auto.
    + apply lincomb_length; auto.
    + intros i _. rewrite nth_vadd, nth_vzero; [lia|]. rewrite lincomb_length, vzero_length; auto.
Qed.

(** rows of H are Z-linearly independent (so #rows H is the rank of the lattice) *)
Theorem hnf_rows_independent A n m H U k :
  shape n m A -> (1 <= n)%nat -> (1 <= m)%nat -> hnf_with_u A = Done (H, U, k) ->
  forall c, length c = length H -> lincomb m c H = vzero m -> c = vzero (length H).
Proof.
  intros HS Hn Hm E c Hc Hz.
  destruct (hnf_with_u_correct A n m H U k HS Hn Hm E) as (Hrows & _).
  rewrite <- Hc. apply last_nz_None_vzero. apply (echelon_indep m 0 H); auto.
Qed.
