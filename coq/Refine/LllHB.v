(** C20: in exact arithmetic the returned basis is H times the input (stdlib + ring on Qc). *)
From RNT.Model Require Import Base Lll.
From RNT.Refine Require Import LllTrace LllMat LllH.
From Coq Require Import Lia Relations QArith Qcanon.
Open Scope Z_scope.

Definition qmmul (m : nat) (A B : list (list Qc)) : list (list Qc) := mmul Qc (Q2Qc 0) Qcplus Qcmult m A B.
Definition qwf (n m : nat) (A : list (list Qc)) : Prop := wf Qc n m A.
(** an integer matrix read as a rational one *)
Definition injM (h : list (list Z)) : list (list Qc) := map (map Qc_of_Z) h.

Lemma Qc_of_Z_add a b : Qc_of_Z (a + b) = Qcplus (Qc_of_Z a) (Qc_of_Z b).
Proof.
  unfold Qc_of_Z. apply Qc_is_canon. unfold Qcplus, Q2Qc; cbn [this].
  rewrite !Qred_correct. rewrite inject_Z_plus. reflexivity.
Qed.
Lemma Qc_of_Z_mul a b : Qc_of_Z (a * b) = Qcmult (Qc_of_Z a) (Qc_of_Z b).
Proof.
  unfold Qc_of_Z. apply Qc_is_canon. unfold Qcmult, Q2Qc; cbn [this].
  rewrite !Qred_correct. rewrite inject_Z_mult. reflexivity.
Qed.
Lemma Qc_of_Z_opp a : Qc_of_Z (- a) = Qcopp (Qc_of_Z a).
Proof.
  unfold Qc_of_Z. apply Qc_is_canon. unfold Qcopp, Q2Qc; cbn [this].
  rewrite !Qred_correct. rewrite inject_Z_opp. reflexivity.
Qed.

Lemma injM_identity n : injM (identity n) = identR Qc (Q2Qc 0) (Q2Qc 1) n.
Proof.
  unfold injM, identity, identR. rewrite map_map. apply map_ext. intros i.
  unfold identity_row, erow. rewrite map_map. apply map_ext. intros j.
  destruct (Nat.eqb i j); reflexivity.
Qed.

Lemma wf_injM n h : zwf n h -> qwf n n (injM h).
Proof.
  intros [Hn Hr]. split; [unfold injM; rewrite map_length; exact Hn|].
  unfold rows_len, injM. apply Forall_map. eapply Forall_impl; [|exact Hr].
  intros r Hl. cbn. rewrite map_length. exact Hl.
Qed.

Lemma injM_row_add n h k l q : zwf n h -> (k < n)%nat -> (l < n)%nat ->
  injM (row_add Z Z.add Z.mul h k l q) = row_add Qc Qcplus Qcmult (injM h) k l (Qc_of_Z q).
Proof.
  intros [Hn _] Hk Hl. unfold injM, row_add. rewrite map_set_nth. f_equal.
  rewrite (nth_map_in _ h k [] []), (nth_map_in _ h l [] []) by lia.
  unfold axpy. apply map_zipw. intros x y. rewrite Qc_of_Z_add, Qc_of_Z_mul. reflexivity.
Qed.

Lemma injM_swap n h k : zwf n h -> (k + 1 < n)%nat ->
  injM (swap_nth [] h k (k + 1)) = swap_nth [] (injM h) k (k + 1).
Proof. intros [Hn _] Hk. unfold injM. apply map_swap_nth; lia. Qed.

Lemma red_basis_row_add n basis k l q : qwf n n basis -> (k < n)%nat -> (l < n)%nat ->
  red_basis arithQ n basis k l q = row_add Qc Qcplus Qcmult basis k l (Qc_of_Z (- q)).
Proof.
  intros W Hk Hl. unfold red_basis, row_add. f_equal.
  rewrite pre_upd_full by (apply (wf_nth Qc n n basis); assumption).
  unfold axpy. apply zipw_ext. intros x y. cbn [fsub fmul fofZ arithQ]. rewrite Qc_of_Z_opp. ring.
Qed.

Lemma lsteps_HB n B st : qwf n n B ->
  lsteps arithQ n (B, identity n) st ->
  qwf n n (fst st) /\ zwf n (snd st) /\ fst st = qmmul n (injM (snd st)) B.
Proof.
  intros WB S. unfold lsteps in S.
  refine (clos_refl_trans_ind_left _ (lstep arithQ n) (B, identity n)
            (fun st => qwf n n (fst st) /\ zwf n (snd st) /\ fst st = qmmul n (injM (snd st)) B) _ _ st S).
  - cbn [fst snd]. split; [exact WB|]. split; [rewrite identity_identR; apply wf_identR|].
    rewrite injM_identity. symmetry. apply (mmul_ident Qc _ _ _ _ _ _ Qcrt). exact WB.
  - intros y z _ (Wb & Wh & E) St.
    inversion St as [basis h k l q Hl Hk _ _ E1 E2|basis h k Hk E1 E2]; subst; cbn [fst snd] in *.
    + assert (Hl' : (l < n)%nat) by lia.
      assert (HokZ : rop_ok Z n (RAdd Z k l (- q))) by (cbn; lia).
      assert (HokQ : rop_ok Qc n (RAdd Qc k l (Qc_of_Z (- q)))) by (cbn; lia).
      rewrite red_basis_row_add by assumption. rewrite red_h_row_add by assumption.
      split; [exact (wf_apply_rop Qc Qcplus Qcmult n n _ _ HokQ Wb)|].
      split; [exact (wf_apply_rop Z Z.add Z.mul n n _ _ HokZ Wh)|].
      rewrite (injM_row_add n) by assumption. rewrite E at 1.
      symmetry. unfold qmmul.
      exact (mmul_apply_rop Qc _ _ Qcplus Qcmult _ _ Qcrt n n (RAdd Qc k l (Qc_of_Z (- q))) (injM h) B
               HokQ (wf_injM n h Wh) (proj2 WB)).
    + assert (HokZ : rop_ok Z n (RSwap Z k)) by (cbn; lia).
      assert (HokQ : rop_ok Qc n (RSwap Qc k)) by (cbn; lia).
      split; [exact (wf_apply_rop Qc Qcplus Qcmult n n _ _ HokQ Wb)|].
      split; [exact (wf_apply_rop Z Z.add Z.mul n n _ _ HokZ Wh)|].
      rewrite (injM_swap n) by assumption. rewrite E at 1.
      symmetry. unfold qmmul.
      exact (mmul_apply_rop Qc _ _ Qcplus Qcmult _ _ Qcrt n n (RSwap Qc k) (injM h) B
               HokQ (wf_injM n h Wh) (proj2 WB)).
Qed.

Theorem lll_HB : forall (fuel : nat) (B B' : list (list Qc)) (H : list (list Z)),
  lll arithQ fuel B = Done (B', H) ->
  Forall (fun r => length r = length B) B ->
  B' = qmmul (length B) (injM H) B.
Proof.
  intros fuel B B' H R Sq.
  apply lll_trace in R. destruct R as (_ & _ & S).
  apply lsteps_HB in S; [|split; [reflexivity|exact Sq]].
  cbn [fst snd] in S. apply S.
Qed.
