(** * AlgNormInv: [MultTable::inv] (C14).

    On an n x n x n table, with [M = Mrep a] the integer matrix of multiplication by [a] and
    [D = det M] (the value of [norm a]): if [D <> 0], [inv a] returns [(b, |D|)] where
    [b = sgn D * (row 0 of adj M)] is an integer vector (the rational row
    [|D| * (row 0 of M^-1)] has integer entries, so the truncating [to_integer] is exact), and
    [a * b = |D| * e_0]; if [D = 0], [inv a] panics on [unwrap] of [Err(MatrixNotInvertible)].
    Style: ssreflect/MathComp; [M^-1] over [QcField] through LinAlgQc.v. *)
From Coq Require Import QArith Qcanon.
From RNT.Model Require Import Base Poly Algebraic LinAlg MultTable.
From RNT.Model Require Hnf Ideal.
From mathcomp Require Import all_ssreflect ssralg zmodp matrix mxalgebra.
From mathcomp Require Import ssrZ zify.
From RNT.Refine Require Import QcField LinAlgList LinAlgQc MultTableOps MultTableNorm AlgNormMx.
From RNT.Refine Require OrderIndex LinAlgTotal.
Set Implicit Arguments.
Unset Strict Implicit.
Unset Printing Implicit Defensive.
Import GRing.Theory.
Local Close Scope Z_scope.
Local Close Scope Q_scope.
Local Open Scope ring_scope.

(** the list of rows built by [mt_rep] is the matrix [Mrep a] with rational entries *)
Definition rep_rows (t : table) (a : seq Z) (n : nat) : seq (seq Qc) :=
  mkseq (fun j => mkseq (fun k => q_of_Z (rep_coef t a n j k)) n) n.

Lemma rep_rows_mx t a n :
  [/\ length (rep_rows t a n) = n, square (rep_rows t a n)
    & qmx n n (rep_rows t a n) = map_mx q_of_Z (Mrep t n a)].
Proof.
have ls : length (rep_rows t a n) = n by rewrite Llength_eq' size_mkseq.
split=> //.
  apply/List.Forall_forall => r /(@List.In_nth _ _ _ [::]) [j []]; rewrite ls => /ltP hj <-.
  by rewrite Lnth_eq'' nth_mkseq // !Llength_eq' !size_mkseq.
apply/matrixP => j k; rewrite !mxE !Lnth_eq''.
by rewrite nth_mkseq // nth_mkseq.
Qed.

Lemma q_of_Z_eq0 z : (q_of_Z z == 0) = (z == 0).
Proof. by rewrite -(rmorph0 q_of_Z_rmorphism) (inj_eq q_of_Z_inj). Qed.

Lemma seq_nth0' n k : (k < n)%N -> List.nth k (List.seq 0 n) 0%N = k.
Proof. by move=> /ltP h; rewrite List.seq_nth. Qed.

Theorem mt_inv_singular n t a : cube n t -> size a = n -> \det (Mrep t n a) = 0 ->
  mt_inv t a = Panic PUnwrap.
Proof.
move=> ct sa d0; rewrite /mt_inv (mt_norm_Mrep ct sa) /bind (mt_rep_closed ct sa) -/(rep_rows t a n).
have [ls sqs es] := rep_rows_mx t a n.
rewrite (inv_singular sqs) //= ls es det_map_mx d0.
exact: (rmorph0 q_of_Z_rmorphism).
Qed.

Theorem mt_inv_ok m n t a : cube n t -> size a = n -> \det (Mrep t n a) != 0 ->
  exists b, [/\ mt_inv t a = Done (b, Z.abs (\det (Mrep t n a))), size b = n
              & mt_mul m t a b = Done (Ideal.scalar_vec n (Z.abs (\det (Mrep t n a))))].
Proof.
case: n => [|n] ct sa dn0.
  have t0 : t = [::] by case/andP: ct => /eqP /size0nil.
  have a0 : a = [::] by exact: size0nil.
  subst t a; rewrite det_mx00; exists [::]; split=> //; by case: m.
rewrite /mt_inv (mt_norm_Mrep ct sa) /bind (mt_rep_closed ct sa) -/(rep_rows t a n.+1).
set M := Mrep t n.+1 a in dn0 *; set D := \det M in dn0 *.
have [ls sqs es] := rep_rows_mx t a n.+1; set s := rep_rows t a n.+1 in ls sqs es *.
have dq : \det (qmx n.+1 n.+1 s) = q_of_Z D by rewrite es det_map_mx.
case: (LinAlgTotal.inv_total_rows fopsQc s sqs) => [[iv|e] [Einv Hinv]]; last first.
  by have := inv_err Einv; rewrite ls /= dq => /eqP; rewrite q_of_Z_eq0 (negbTE dn0).
case: Hinv; rewrite ls => Li Hiv; rewrite Einv /=.
have := inv_ok Einv; rewrite ls /= => -[I1 I2].
set B := qmx n.+1 n.+1 iv in I1 I2.
have adjE : map_mx q_of_Z (\adj M) = q_of_Z D *: B.
  by rewrite map_mx_adj -es -[LHS]mulmx1 -I2 mulmxA mul_adj_mx mul_scalar_mx dq.
pose sg : Z := Z.sgn D.
have -> : mt_deg t = n.+1 by case/andP: ct => /eqP.
set g := (X in mapM X _).
have gval (i : 'I_n.+1) : g i = Done (sg * (\adj M) ord0 i).
  rewrite /g (nth_chk_lt iv 0 [::]) ?Li /=; last by lia.
  have lr : length (List.nth 0 iv [::]) = n.+1.
    by move/List.Forall_forall: Hiv; apply; apply: List.nth_In; rewrite Li; lia.
  have /ltP hi := ltn_ord i.
  rewrite (nth_chk_lt _ i (Q2Qc 0)) ?lr //=; congr Done.
  have hB : q_of_Z ((\adj M) ord0 i) = q_of_Z D * B ord0 i.
    by move/matrixP/(_ ord0 i): adjE; rewrite [LHS]mxE [RHS]mxE.
  have -> : List.nth i (List.nth 0 iv [::]) (Q2Qc 0) = B ord0 i by rewrite [RHS]mxE.
  have -> : Qcmult (B ord0 i) (Algebraic.qz (Z.abs D)) = q_of_Z (sg * (\adj M) ord0 i).
    rewrite rmorphM /= hB mulrA -rmorphM /= [RHS]mulrC; congr (_ * q_of_Z _).
    by rewrite /sg; lia.
  exact: OrderIndex.q_to_integer_qz.
have [ans Ea] : exists ans, mapM g (List.seq 0 n.+1) = Done ans.
  apply: mapM_total => x /List.in_seq [_ /= /ltP hx].
  by rewrite (gval (Ordinal hx)); eexists.
rewrite Ea /=.
have [La Na] := mapM_inv _ _ _ Ea; rewrite List.seq_length in La Na.
have ansE (i : 'I_n.+1) : nth 0 ans i = sg * (\adj M) ord0 i.
  have /ltP hi := ltn_ord i.
  have := Na i 0%N 0 hi; rewrite seq_nth0' // gval Lnth_eq''.
  by case.
have sza : size ans = n.+1 by rewrite -Llength_eq'.
exists ans; split=> //.
rewrite (mt_mul_tmul m ct sa sza); congr Done.
apply: (@zrow_inj n.+1); rewrite ?size_tmul ?size_scalar_vec //.
rewrite zrow_tmul.
have -> : zrow n.+1 ans = sg *: row ord0 (\adj M).
  by apply/rowP => k; rewrite [LHS]mxE ansE [RHS]mxE; congr (_ * _); rewrite [RHS]mxE.
rewrite -scalemxAl -row_mul mul_adj_mx.
apply/rowP => k; rewrite !mxE nth_scalar_vec // -/D.
rewrite -val_eqE /= eq_sym; case: (k : nat) => [|k'] /=.
  by rewrite mulr1n /sg; lia.
by rewrite mulr0n mulr0.
Qed.

(** [P] the two cases together, in terms of the value of [norm] *)
Theorem mt_inv_spec m n t a : cube n t -> size a = n ->
  exists nm, mt_norm t a = Done nm /\
    if nm == 0 then mt_inv t a = Panic PUnwrap
    else exists b, [/\ mt_inv t a = Done (b, Z.abs nm), size b = n
                     & mt_mul m t a b = Done (Ideal.scalar_vec n (Z.abs nm))].
Proof.
move=> ct sa; exists (\det (Mrep t n a)); split; first exact: mt_norm_Mrep.
case: eqP => [d0|/eqP dn0]; first exact: (mt_inv_singular ct sa d0).
exact: (mt_inv_ok m ct sa dn0).
Qed.

(** ** what the answer means when [e_0] is a right identity of an associative table:
    [(c * a) * b = d * c] for every [c], i.e. [b / d] inverts [a] *)
Lemma zrow_vscale n d c : zrow n (vscale d c) = d *: zrow n c.
Proof. by apply/rowP => k; rewrite !mxE nth_vscale. Qed.

Lemma zrow_scalar_vec n d : zrow n (Ideal.scalar_vec n d) = d *: zrow n (Ideal.unit_vec n 0).
Proof.
apply/rowP => k; rewrite !mxE nth_scalar_vec // nth_unit_vec // eq_sym.
by case: eqP => _; rewrite ?mulr1 ?mulr0.
Qed.

Theorem mt_inv_cancel m n t a b d : cube n t -> tassoc t n ->
  (forall v, size v = n -> mt_mul m t v (Ideal.unit_vec n 0) = Done v) ->
  size a = n -> mt_inv t a = Done (b, d) ->
  forall c, size c = n ->
  exists2 ca, mt_mul m t c a = Done ca & mt_mul m t ca b = Done (vscale d c).
Proof.
move=> ct ha h1 sa Eb c sc.
have [nm [_]] := mt_inv_spec m ct sa; case: eqP => _; first by rewrite Eb.
case=> b' []; rewrite Eb => -[<- <-] sb ab.
exists (tmul t n c a); first exact: mt_mul_tmul.
rewrite (mt_mul_tmul m ct) ?size_tmul // ha //.
move: ab; rewrite (mt_mul_tmul m ct sa sb) => -[->]; congr Done.
apply: (@zrow_inj n); rewrite ?size_tmul ?size_vscale //.
rewrite zrow_tmul zrow_scalar_vec zrow_vscale -scalemxAl -zrow_tmul; congr (_ *: zrow n _).
by have := h1 c sc; rewrite (mt_mul_tmul m ct sc) ?size_unit_vec // => -[].
Qed.

(** the same with the two cases as implications *)
Theorem mt_inv_spec2 m n t a : cube n t -> size a = n ->
  exists nm, [/\ mt_norm t a = Done nm, nm = 0 -> mt_inv t a = Panic PUnwrap
    & nm <> 0 -> exists b, [/\ mt_inv t a = Done (b, Z.abs nm), size b = n
                     & mt_mul m t a b = Done (Ideal.scalar_vec n (Z.abs nm))]].
Proof.
move=> ct sa; have [nm [e h]] := mt_inv_spec m ct sa; exists nm; split=> //.
  by move=> e0; move: h; rewrite e0 eqxx.
by move=> /eqP /negbTE e0; move: h; rewrite e0.
Qed.
