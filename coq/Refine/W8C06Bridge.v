(** * W8C06Bridge (C06, eighth wave): from the stored bases of the model to lattices in Q[x]/(f), and back.

      [lat_order f n o]: o is an n x n rational matrix whose rows span a lattice that contains 1 and on which
      [Order::get_mult_table] returns (closed under multiplication; then the matrix is invertible).  No normal form is
      required (weaker than [Round2W3Driver.is_order]).
      [lat_maximal f n o]: every over-order (Round2W4PZ.over_order) lies in the lattice of o -- the conclusion of
      [find_integral_basis_maximal_all].
      - [P] maximal_contains: a maximal order contains every order of the same algebra; maximal orders are unique as lattices.
      - [P] disc_invariant_gen: if g(h) = 0 mod f and the matrix of x |-> h from Q[x]/(g) to Q[x]/(f) is invertible, the model's
        [order_disc] of a maximal order of f and of a maximal order of g are the same integer.
      Style: ssreflect/MathComp on the polynomial world ([QcRing]). *)
From RNT.Model Require Import Base Poly Algebraic LinAlg MultTable Order.
From RNT.Model Require Round2.
From Coq Require Import QArith Qcanon.
From mathcomp Require Import all_ssreflect ssralg zmodp poly polydiv matrix mxalgebra mxpoly.
From mathcomp Require Import ssrZ zify.
From RNT.Refine Require Import QcRing PolyRefine PolyDiv PolyZ PolyQ AlgMul AlgQuot MultTableOps MultTableGet TableAgrees
     ResAgree AlgNormRes OrderW3Trace OrderW3TraceTable.
From RNT.Refine Require Import W8C06Alg W8C06Lat W8C06Trans.
From RNT.Refine Require MultTableTotal OrderW3DiscInt DetInvDiff Round2Lattice Round2Det Round2W3Driver Round2W4PZ.
Set Implicit Arguments.
Unset Strict Implicit.
Unset Printing Implicit Defensive.
Import GRing.Theory.
Local Close Scope Z_scope.
Local Close Scope Q_scope.
Local Close Scope Qc_scope.
Local Open Scope ring_scope.

(** ** Qc is the fraction field of Z *)
Lemma Qc_frac (x : Qc) : exists2 d : Z, d != 0 & exists z : Z, Qc_ofZ d * x = Qc_ofZ z.
Proof.
exists (Zpos (Qden x)); first by [].
exists (Qnum x); apply: Qc_is_canon.
rewrite QcmulE /Qcmult /Qc_ofZ; cbn [this Q2Qc]; rewrite !Qred_correct.
by case: x => [[a b] c]; rewrite /Qeq /Qmult /inject_Z; cbn [Qnum Qden this]; lia.
Qed.

Notation iotaQ := Qc_ofZ_rmorphism.

(** ** the two list-level notions *)
Definition lat_order (f : list Z) (n : nat) (o : qmat) : Prop :=
  [/\ List.length o = n, List.Forall (fun r => List.length r = n) o,
      Round2Lattice.in_spanQ n (Round2Det.one_vec n) o & exists T, get_mult_table o f = Done T].

Definition lat_maximal (f : list Z) (n : nat) (o : qmat) : Prop :=
  forall o2, Round2W4PZ.over_order f n o o2 ->
  forall t, (t < n)%coq_nat -> Round2Lattice.in_spanQ n (List.nth t o2 [::]) o.

Definition lat_sub (n : nat) (o1 o2 : qmat) : Prop :=
  forall t, (t < n)%coq_nat -> Round2Lattice.in_spanQ n (List.nth t o1 [::]) o2.

(** ** matrices as lists *)
Definition lmx (n : nat) (M : 'M[Qc]_n) : seq (seq Qc) := [seq [seq M i j | j <- enum 'I_n] | i <- enum 'I_n].

Lemma size_lmx n (M : 'M[Qc]_n) : size (lmx M) = n.
Proof. by rewrite size_map size_enum_ord. Qed.

Lemma row_lmx n (M : 'M[Qc]_n) i : (i < n)%N -> size (nth [::] (lmx M) i) = n.
Proof.
move=> hi; rewrite /lmx (nth_map (Ordinal hi)) ?size_enum_ord //.
by rewrite size_map size_enum_ord.
Qed.

Lemma bmx_lmx n (M : 'M[Qc]_n) : bmx n (lmx M) = M.
Proof.
apply/matrixP => i j; rewrite mxE /lmx.
rewrite (nth_map i) ?size_enum_ord // nth_ord_enum.
by rewrite (nth_map j) ?size_enum_ord // nth_ord_enum.
Qed.

Lemma Forall_rows n (o : seq (seq Qc)) : size o = n ->
  List.Forall (fun r => List.length r = n) o <-> (forall i, (i < n)%N -> size (nth [::] o i) = n).
Proof.
move=> so; split.
  move/List.Forall_forall => h i hi; rewrite -Lnth_eq; apply: h; apply: List.nth_In.
  by rewrite Llength_eq so; apply/ltP.
move=> h; apply/List.Forall_forall => r /(List.In_nth _ _ [::]) [i [hi <-]].
by rewrite Lnth_eq Llength_eq h //; apply/ltP; rewrite -so.
Qed.

(** ** integer vectors *)
Definition zrowv (n : nat) (c : seq Z) : 'rV[Z]_n := \row_k nth 0%Z c k.

Lemma qrow_map_qz n (c : seq Z) : size c = n -> qrow n (map qz c) = map_mx Qc_ofZ (zrowv n c).
Proof. by move=> sc; apply/rowP => k; rewrite !mxE (nth_map 0%Z) ?sc. Qed.

Lemma zrowv_list n (c : 'rV[Z]_n) : exists l : seq Z, size l = n /\ zrowv n l = c.
Proof.
exists [seq c 0 k | k <- enum 'I_n]; split; first by rewrite size_map size_enum_ord.
by apply/rowP => k; rewrite mxE (nth_map k) ?size_enum_ord // nth_ord_enum.
Qed.

Lemma combQ_sum (c : list Z) (B : qmat) j :
  Round2Lattice.combQ c B j = \sum_(i < size B) Qc_ofZ (nth 0%Z c i) * nth 0 (nth [::] B i) j.
Proof.
elim: B c => [|r B IH] c.
  by rewrite big_ord0; case: c.
case: c => [|c0 c].
  rewrite [Round2Lattice.combQ _ _ _]/= big1 // => i _.
  by rewrite nth_nil (rmorph0 iotaQ) mul0r.
by rewrite [Round2Lattice.combQ _ _ _]/= big_ord_recl /= (IH c) Lnth_eq.
Qed.

Section Bridge.
Variables (f : seq Z) (n : nat).
Hypothesis cf : canonZ f.
Hypothesis szf : size f = n.+1.
Hypothesis n0 : (0 < n)%N.
Let F := Fq f.
Let szF : size F = n.+1 := size_Fq cf szf.

Notation inLQ := (inL iotaQ).
Notation sub_latQ := (sub_lat iotaQ).

(** ** rows *)
Lemma row_bmx (o : seq (seq Qc)) (i : 'I_n) : row i (bmx n o) = qrow n (nth [::] o i).
Proof. by apply/rowP => k; rewrite !mxE. Qed.

Lemma rVpoly_qrow (v : seq Qc) : (size v <= n)%N -> rVpoly (qrow n v) = Poly v.
Proof.
move=> sv; apply/polyP => k; rewrite coef_rVpoly coef_Poly.
case: insubP => [j _ <-|]; first by rewrite mxE.
by rewrite -leqNgt => hk; rewrite nth_default // (leq_trans sv).
Qed.

Lemma qrow_poly_rV (v : seq Qc) : (size v <= n)%N -> qrow n v = poly_rV (Poly v).
Proof. by move=> sv; rewrite -(rVpoly_qrow sv) rVpolyK. Qed.

(** ** [in_spanQ] is membership in the lattice *)
Lemma in_spanQ_inL (o : seq (seq Qc)) (v : seq Qc) : size o = n ->
  Round2Lattice.in_spanQ n v o <-> inLQ (bmx n o) (qrow n v).
Proof.
move=> so; split.
  case=> c [lc hc]; exists (zrowv n c); apply/rowP => j; rewrite mxE -Lnth_eq.
  rewrite (hc j); last by apply/ltP.
  rewrite combQ_sum so mxE; apply: eq_bigr => i _.
  by rewrite !mxE.
case=> c ec; have [l [sl el]] := zrowv_list c.
exists l; split; first by rewrite !Llength_eq sl so.
move=> j /ltP hj; rewrite Lnth_eq combQ_sum so.
have := congr1 (fun r : 'rV[Qc]_n => r 0 (Ordinal hj)) ec; rewrite mxE /= => ->.
by rewrite mxE; apply: eq_bigr => i _; rewrite -el !mxE.
Qed.

Lemma lat_sub_sub_lat (o1 o2 : seq (seq Qc)) : size o1 = n -> size o2 = n ->
  lat_sub n o1 o2 <-> sub_latQ (bmx n o1) (bmx n o2).
Proof.
move=> s1 s2; split.
  move=> h; apply: sub_lat_rows => i; rewrite row_bmx; apply/(in_spanQ_inL _ s2).
  by rewrite -Lnth_eq; apply: h; apply/ltP.
move=> h t /ltP ht; apply/(in_spanQ_inL _ s2); rewrite Lnth_eq.
by have := sub_lat_row (Ordinal ht) h; rewrite row_bmx.
Qed.

Lemma qrow_one_vec : qrow n (Round2Det.one_vec n) = oneF [fieldType of Qc] n.
Proof.
apply/rowP => j; rewrite !mxE coef1 /Round2Det.one_vec -Lnth_eq.
set g := fun j0 : nat => _.
rewrite (List.nth_indep _ 0 (g 0%N)); last by rewrite List.map_length List.seq_length; apply/ltP.
rewrite (List.map_nth g) List.seq_nth; last by apply/ltP.
by rewrite /g /=; case: (nat_of_ord j).
Qed.

(** ** [closed_under_mul] is [closedF] *)
Lemma closed_closedF (o : seq (seq Qc)) : size o = n -> (forall i, (i < n)%N -> size (nth [::] o i) = n) ->
  MultTableTotal.closed_under_mul f n o <-> closedF iotaQ F (bmx n o).
Proof.
move=> so ro.
have rP (i : 'I_n) : rVpoly (row i (bmx n o)) = Poly (nth [::] o i).
  by rewrite row_bmx rVpoly_qrow // ro.
split.
  move=> h i j; have [c [sc ec]] := h i j (ltn_ord i) (ltn_ord j).
  exists (zrowv n c); rewrite /mulF !rP ec (of_coords_bmx ro) rVpolyK.
  by rewrite qrow_map_qz.
move=> h i j hi hj; have [c ec] := h (Ordinal hi) (Ordinal hj).
have [l [sl el]] := zrowv_list c.
exists l; split=> //.
rewrite (of_coords_bmx ro) (qrow_map_qz sl) el -ec (rVpoly_mulF szF) !rP.
by [].
Qed.

(** ** an order gives an invertible closed lattice containing 1 *)
Lemma lat_order_facts (o : qmat) : lat_order f n o ->
  [/\ size o = n, (forall i, (i < n)%N -> size (nth [::] o i) = n), bmx n o \in unitmx,
      closedF iotaQ F (bmx n o) & has_one iotaQ (bmx n o)].
Proof.
case=> lo wo o1 [T GT].
have so : size o = n by rewrite -Llength_eq.
have ro := (Forall_rows so).1 wo.
split=> //.
- exact: (bmx_unit n0 so ro GT).
- apply/(closed_closedF so ro); exact: (MultTableTotal.get_mult_table_closed cf szf so ro GT).
- by rewrite /has_one -qrow_one_vec; apply/(in_spanQ_inL _ so).
Qed.

(** a closed invertible lattice is (the matrix of) a list on which [get_mult_table] returns *)
Lemma closedF_table (B : 'M[Qc]_n) : B \in unitmx -> closedF iotaQ F B ->
  exists T, get_mult_table (lmx B) f = Done T.
Proof.
move=> uB cB.
have sB := size_lmx B; have rB := @row_lmx n B.
have db : \det (LinAlgQc.qmx n n (lmx B)) != 0.
  rewrite (OrderW3DiscInt.qmx_bmx n (lmx B)) bmx_lmx.
  by move: uB; rewrite unitmxE unitfE.
apply: (MultTableTotal.get_mult_table_total cf szf sB rB db).
by apply/(closed_closedF sB rB); rewrite bmx_lmx.
Qed.

Lemma lat_maximal_maximalF (o : qmat) : lat_order f n o -> lat_maximal f n o -> maximalF iotaQ F (bmx n o).
Proof.
move=> lo mo B' uB' cB' s.
have [so ro uo co oo] := lat_order_facts lo.
have sB := size_lmx B'; have rB := @row_lmx n B'.
have OO : Round2W4PZ.over_order f n o (lmx B').
  split; first by rewrite Llength_eq.
  split; first by apply/(Forall_rows sB).
  split; first exact: closedF_table.
  by apply/(lat_sub_sub_lat so sB); rewrite bmx_lmx.
have := (lat_sub_sub_lat sB so).1 (mo _ OO).
by rewrite bmx_lmx.
Qed.

(** ** [P] a maximal order contains every order; maximal orders have the same lattice *)
Theorem maximal_contains (O1 O2 : qmat) :
  lat_order f n O1 -> lat_maximal f n O1 -> lat_order f n O2 -> lat_sub n O2 O1.
Proof.
move=> l1 m1 l2.
have [s1 r1 u1 c1 o1] := lat_order_facts l1.
have [s2 r2 u2 c2 o2] := lat_order_facts l2.
apply/(lat_sub_sub_lat s2 s1).
exact: (max_contains Qc_ofZ_inj Qc_frac szF n0 u1 c1 c2 o1 o2 (lat_maximal_maximalF l1 m1)).
Qed.

Theorem maximal_unique_l (O1 O2 : qmat) :
  lat_order f n O1 -> lat_maximal f n O1 -> lat_order f n O2 -> lat_maximal f n O2 ->
  lat_sub n O1 O2 /\ lat_sub n O2 O1.
Proof. by move=> l1 m1 l2 m2; split; exact: maximal_contains. Qed.

End Bridge.

(** ** [P] change of generator: the discriminants reported by the model agree *)
Section Disc.
Variables (m : mode) (f g : seq Z) (n : nat).
Hypothesis cf : canonZ f.
Hypothesis cg : canonZ g.
Hypothesis szf : size f = n.+1.
Hypothesis szg : size g = n.+1.
Hypothesis n0 : (0 < n)%N.
Hypothesis small : (2 * Z.of_nat n < two64)%Z.
Variable h : {poly Qc}.
Hypothesis Gh : (Fq g \Po h) %% Fq f = 0.
Hypothesis uP : Phi (Fq f) n h \in unitmx.

Theorem disc_invariant_gen (Of Og : qmat) :
  lat_order f n Of -> lat_maximal f n Of -> lat_order g n Og -> lat_maximal g n Og ->
  exists d : Z, Round2.order_disc m Of f = Done d /\ Round2.order_disc m Og g = Done d.
Proof.
move=> lf mf lg mg.
have szF := size_Fq cf szf; have szG := size_Fq cg szg.
have [sf rf uf cF oF] := lat_order_facts cf szf n0 lf.
have [sg rg ug cG oG] := lat_order_facts cg szg n0 lg.
have [Tf GTf] : exists T, get_mult_table Of f = Done T by case: lf.
have [Tg GTg] : exists T, get_mult_table Og g = Done T by case: lg.
have [_ _ e] := disc_transport Qc_ofZ_inj Qc_frac szF szG n0 Gh uP uf ug cF cG oF oG
                  (lat_maximal_maximalF cf szf n0 lf mf) (lat_maximal_maximalF cg szg n0 lg mg).
have Df := OrderW3DiscInt.order_disc_trace_form m cf szf n0 small sf rf GTf.
have Dg := OrderW3DiscInt.order_disc_trace_form m cg szg n0 small sg rg GTg.
exists (\det (DetInvDiff.trace_form Tf n)); split=> //.
rewrite Dg; congr Done; apply: Qc_ofZ_inj.
rewrite !OrderW3DiscInt.trace_form_trZ (det_trZ cf szf n0 sf rf GTf) (det_trZ cg szg n0 sg rg GTg).
exact: esym e.
Qed.

End Disc.
