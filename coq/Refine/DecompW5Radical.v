(** * DecompW5Radical (C17, fifth wave): p-maximality forces Dedekind's criterion.

    Setting of DecompW5Lattice with n = m + 1.  The p-radical I_p of the Round 2 step is described by the model's
    [pow_mod_p] (x in I_p iff x^q = 0 modulo p, q = p^k >= n); through the regular representation modulo p
    (Round2W3Frob.M) this is: f mod p divides (d x)(X)^q, i.e. the product Rb of the distinct irreducible factors
    divides (d x)(X): I_p = L(Rb)  ([ip_inLD]).
    If f = g^(e+2) Cz + p h with g | h modulo p, the element u = (g^(e+1) Cz)(theta) is not in p O but u I_p is inside
    p I_p; on a p-maximal order that is impossible ([DecompW5Step.pmax_multiplier]).  Hence g does not divide h
    modulo p for every repeated factor g: Dedekind's criterion ([multiplier_not_dvd]).
    Style: ssreflect/MathComp. *)
From Coq Require Import ZArith List Lia Znumtheory.
From Coq Require Import QArith Qcanon.
From mathcomp Require Import all_ssreflect ssralg poly polydiv ssrint zmodp matrix.
From RNT.Model Require Import Base Poly PolyModP LinAlg MultTable Order FactorModP Ideal PrimeDecomp Round2.
From RNT.Model Require Hnf.
From RNT.Refine Require Import PolyModPArith PolyModPDivList FermatZ PolyZmod PolyModPDiv MonicZ PolyModPGcd FpPoly
  HenselProofs FactorNorm FactorProd FpTotal FmpField FmpSqf FmpProduct FmpIrred FmpDegree FmpSplit FmpFull FmpTotal FmpSafe FmpLists
  DecompDegree DecompW3Factors.
From RNT.Refine Require Import MatZ HnfSpec HnfKernel HnfCanon HnfUnique IdealBasic IdealMul IdealSpec IdealLaws IdealCapZ IdealInv.
From RNT.Refine Require Import PolyRefine PolyZ DecompW3Order DecompW3Lead DecompW3Proper DecompW5Lattice.
From RNT.Refine Require DecompW3Index AlgNormMx AlgNormOrder DetIdeal OrderCanon MultTableOps Round2W3Frob Round2W3Step FermatBridge Round2W4Table.
From RNT.Refine Require Import QcRing ResAgree.
From mathcomp Require Import ssrZ zify ring.
Set Implicit Arguments. Unset Strict Implicit. Unset Printing Implicit Defensive.
Import GRing.Theory Pdiv.CommonRing Pdiv.RingMonic.
Local Open Scope ring_scope.

(** ** polynomial facts over a field: the radical of a product of powers of pairwise coprime irreducibles *)
Section PolyFacts.
Variable nn : nat.
Notation F := 'F_nn.
Implicit Types (G X : {poly F}).

Lemma irred_dvd_exp G X k : irreducible_poly G -> G %| X ^+ k -> G %| X.
Proof.
move=> IG; elim: k => [|k IH].
  by rewrite expr0 dvdp1 => /eqP sG; have := IG.1; rewrite sG.
by rewrite exprS => /(irred_dvd_mul IG) /orP[|/IH].
Qed.

(** a list of (irreducible, multiplicity) *)
Variable gl : list ({poly F} * nat)%type.
Definition Fprod := \prod_(x <- gl) x.1 ^+ x.2.
Definition Rprod := \prod_(x <- gl) x.1.

Lemma Fprod_dvd_Rpow q : (forall x, List.In x gl -> (x.2 <= q)%nat) -> Fprod %| Rprod ^+ q.
Proof.
rewrite /Fprod /Rprod; elim: gl => [|x l IH] H; first by rewrite !big_nil expr1n dvdpp.
rewrite !big_cons exprMn; apply: dvdp_mul.
  by apply: dvdp_exp2l; apply: H; left.
by apply: IH => y iy; apply: H; right.
Qed.

Lemma coprime_prod G (l : list ({poly F} * nat)%type) :
  List.Forall (fun y : ({poly F} * nat)%type => coprimep G y.1) l -> coprimep G (\prod_(j <- l) j.1).
Proof.
elim=> [|y l' cy _ IH]; first by rewrite big_nil coprimep1.
by rewrite big_cons coprimepMr cy IH.
Qed.

Lemma Rprod_dvd X q :
  (forall x, List.In x gl -> irreducible_poly x.1 /\ (0 < x.2)%nat) ->
  List.ForallOrdPairs (fun x y : ({poly F} * nat)%type => coprimep x.1 y.1) gl ->
  Fprod %| X ^+ q -> Rprod %| X.
Proof.
rewrite /Fprod /Rprod => H HP; elim: HP H => [|x l Cx _ IH] H; first by move=> _; rewrite !big_nil dvd1p.
rewrite !big_cons => D.
have [Ix ex] := H x (or_introl erefl).
have Dx : x.1 %| X.
  apply: (@irred_dvd_exp _ _ q Ix); apply: dvdp_trans D; apply: dvdp_mulr.
  by rewrite -(prednK ex) exprS dvdp_mulr.
have Dl : \prod_(j <- l) j.1 %| X.
  apply: IH; first by move=> y iy; apply: H; right.
  by apply: dvdp_trans D; apply: dvdp_mull.
by rewrite Gauss_dvdp ?Dx ?Dl //; apply: coprime_prod.
Qed.

End PolyFacts.

Section Radical.
Variable p : Z.
Hypothesis Hp : Znumtheory.prime p.
Let Hp2 := prime_ge_2 _ Hp.
Let Hpp : (0 < p)%ZZ. Proof. lia. Qed.
Let Hp0 : p <> Z0. Proof. lia. Qed.

Notation pn := (pnat p).
Notation RP l := (redp pn (PZ l)).

Variables (f : list Z) (m : nat).
Notation n := m.+1.
Hypothesis cf : canonZ f.
Hypothesis szf : size f = n.+1.
Hypothesis monf : seq.nth 0%Z f n = 1%Z.
Variable b : list (list Qc).
Hypothesis sb : size b = n.
Hypothesis rb : forall i, (i < n)%nat -> size (seq.nth [::] b i) = n.
Hypothesis w0 : first_is_one b.
Variable t : table.
Hypothesis gt : get_mult_table b f = Done t.
Variables (d : Z) (A : nat -> nat -> Z).
Hypothesis Hscale : forall i j, (i < n)%nat -> (j < n)%nat ->
  Qcmult (Algebraic.qz d) (List.nth j (List.nth i b [::]) (Q2Qc 0)) = Algebraic.qz (A i j).
Hypothesis Hd : ~ (p | d)%ZZ.
Variable Sl : list (list Z).
Hypothesis sS : forall k, (k < n)%nat -> size (seq.nth [::] Sl k) = n.
Hypothesis HS : forall k, (k < n)%nat ->
  OrderCanon.qlincomb n (seq.nth [::] Sl k) b = seq.nth [::] (identity fopsQc n) k.

Let n0 : (0 < n)%nat := ltn0Sn m.

Notation Fz := (PZ f).
Notation tm := (AlgNormMx.tmul t n).
Notation pe0 := (p :: List.repeat 0%Z (n - 1)).
Notation ze := (zelem n b).
Notation rp := (repr n b d).
Notation elx := (el f n b).
Notation inL := (@inLD p n b d).

Let Fmon : Fz \is monic := Fz_monic cf szf monf.
Let sFz : size Fz = n.+1 := size_Fz cf szf.

(** the radical of the Round 2 step *)
Variables (k : nat) (i_p : list (list Z)).
Notation pp := (Z.to_nat p).
Notation q := (expn pp k).
Notation tbl := (List.map (List.map (List.map (fun x => Z.rem (Z.rem x (p * p)) p))) t).
Hypothesis Hpow : (Z.of_nat n <= p ^ Z.of_nat k)%ZZ.
Hypothesis wip : wf n i_p.
Hypothesis RAD : forall x, In_rowspanZ n x i_p <->
  length x = n /\ exists r, pow_mod_p x (p ^ Z.of_nat k) tbl p = Done r /\
                            forall j, (j < n)%coq_nat -> (p | List.nth j r 0%Z)%ZZ.

Notation MM := (Round2W3Frob.M m pp t).

Let pr : prime pp := FermatBridge.prime_Z_nat Hp.
Let ep : Z.of_nat pp = p. Proof. lia. Qed.
Let ctT : MultTableOps.cube n t := AlgNormOrder.ct cf szf sb rb gt.
Let hcT : AlgNormMx.tcomm t n := AlgNormOrder.order_tcomm cf szf sb rb gt.
Let haT : AlgNormMx.tassoc t n := AlgNormOrder.order_tassoc cf szf sb rb gt.
Let one := Ideal.unit_vec n 0.
Let sone : size one = n := AlgNormMx.size_unit_vec n 0.
Let hone : forall x, size x = n -> tm one x = x := fun x sx => tmul_unit_l cf szf sb rb w0 gt n0 sx.
Let eq' : (p ^ Z.of_nat k)%ZZ = Z.of_nat q.
Proof. by rewrite FermatBridge.expn_pow Nat2Z.inj_pow ep. Qed.
Let nq : (n <= q)%nat. Proof. by apply/leP; move: Hpow; rewrite eq'; lia. Qed.
Let q1 : (1 <= Z.of_nat q)%ZZ. Proof. by move/leP: nq; lia. Qed.

(** x is in I_p iff its representation modulo p is nilpotent of index <= q (as in Round2W4Table.pz_table) *)
Lemma ip_nilpotent x : size x = n -> (In_rowspanZ n x i_p <-> MM x ^+ q = 0).
Proof.
move=> sx.
have ctb : MultTableOps.cube n tbl by exact: Round2W4Table.cube_red.
have htb : forall i j k0, (i < n)%nat -> (j < n)%nat -> (k0 < n)%nat ->
    (Z.of_nat pp | MultTableOps.T3 t i j k0 - MultTableOps.T3 tbl i j k0)%ZZ.
  by move=> i j k0 hi hj hk; rewrite ep; apply: (Round2W3Frob.red_table_congr _ ctT).
split.
  move=> /RAD [_ [r [er dr]]].
  have er' : pow_mod_p x (Z.of_nat q) tbl (Z.of_nat pp) = Done r by rewrite ep -eq'.
  have [sr] := Round2W3Frob.M_pow_mod_p pr haT hcT ctb htb sx q1 er'; rewrite Nat2Z.id.
  move=> <-; rewrite -(Round2W3Frob.M_vzero m pp t); apply: (Round2W3Frob.M_congr m t pr) => j.
  rewrite nth_vzero Z.sub_0_r ep.
  case: (ltnP j n) => /ltP hj; first exact: dr.
  by rewrite List.nth_overflow; [exists 0%Z | rewrite -[length r]/(size r) sr; lia].
move=> e0; apply/RAD; split=> //.
have p0 : p <> 0%Z by lia.
have [r [er lr]] := Round2W3Step.pow_mod_p_total n tbl p x (p ^ Z.of_nat k)%ZZ ctb p0 sx.
exists r; split=> // j hj.
have er' : pow_mod_p x (Z.of_nat q) tbl (Z.of_nat pp) = Done r by rewrite ep -eq'.
have [sr Mr] := Round2W3Frob.M_pow_mod_p pr haT hcT ctb htb sx q1 er'.
have := @Round2W3Frob.M_inj m pp t pr hcT one sone hone r (vzero n) sr (vzero_length n).
rewrite Mr Nat2Z.id e0 Round2W3Frob.M_vzero => /(_ (erefl _) j).
by rewrite nth_vzero Z.sub_0_r ep.
Qed.

(** the representation vanishes exactly on p O *)
Lemma M_eq0 z : size z = n -> (MM z = 0 <-> forall j, (p | List.nth j z 0%Z)%ZZ).
Proof.
move=> sz; split.
  move=> e0 j.
  have := @Round2W3Frob.M_inj m pp t pr hcT one sone hone z (vzero n) sz (vzero_length n).
  by rewrite e0 Round2W3Frob.M_vzero => /(_ (erefl _) j); rewrite nth_vzero Z.sub_0_r ep.
move=> dv; rewrite -(Round2W3Frob.M_vzero m pp t); apply: (Round2W3Frob.M_congr m t pr) => j.
by rewrite nth_vzero Z.sub_0_r ep.
Qed.

Lemma pO_divides z : size z = n ->
  (forall j, (p | List.nth j z 0%Z)%ZZ) <-> exists2 w, size w = n & z = [seq Z.mul p x | x <- w].
Proof.
move=> sz; split; last first.
  move=> [w sw ->] j; rewrite Lnth_eq.
  case: (ltnP j (size w)) => hj; first by rewrite (nth_map 0%Z) //; apply: Z.divide_factor_l.
  by rewrite seq.nth_default ?size_map //; apply: Z.divide_0_r.
move=> dv; exists [seq Z.div x p | x <- z]; first by rewrite size_map.
rewrite -map_comp; rewrite -{1}[z]map_id; apply/eq_in_map => x /(nthP 0%Z) [j hj <-] /=.
have [c ec] := dv j; rewrite Lnth_eq in ec.
by rewrite ec Z.div_mul // Z.mul_comm.
Qed.

(** powers: M (Y^(j+1))(theta) = M (Y(theta))^(j+1) *)
Lemma M_el_pow y Y j : elx y Y -> forall z, elx z (Y ^+ j.+1) -> MM z = MM y ^+ j.+1.
Proof.
move=> ey; elim: j => [|j IH] z ez.
  by rewrite expr1 in ez *; rewrite (el_inj sb gt ez ey).
have [z' ez'] := el_ex cf szf monf sb rb sS HS (Y ^+ j.+1).
have em := el_mul cf szf monf sb rb gt ey ez'.
rewrite -exprS in em.
rewrite (el_inj sb gt ez em (erefl _)) (Round2W3Frob.M_tmul pp haT hcT) ?(el_size ey) ?(el_size ez') //.
by rewrite (IH _ ez') -exprS.
Qed.

Lemma phi_d : Round2W3Frob.phi pp d != 0.
Proof.
apply/eqP => e0; apply: Hd; rewrite -ep.
have := (Round2W3Frob.phi_eqP m t pr d 0%Z).1; rewrite Z.sub_0_r; apply.
by rewrite e0 /Round2W3Frob.phi /= mulr0z.
Qed.

(** nilpotency in terms of the polynomial of d y *)
Lemma nilpotent_dvd y Y : rp y Y -> (MM y ^+ q = 0 <-> RP f %| redp pn Y ^+ q).
Proof.
move=> ry; have sy := repr_size ry.
have ey : elx [seq Z.mul d x | x <- y] Y := el_ze cf szf (repr_zelem ry) (repr_small rb Hscale ry).
have -> : (MM y ^+ q = 0) <-> (MM [seq Z.mul d x | x <- y] ^+ q = 0).
  rewrite -[[seq _ | _ <- _]]/(vscale d y) Round2W3Frob.M_vscale exprZn; split=> [->|/eqP]; first by rewrite scaler0.
  by rewrite scaler_eq0 expf_eq0 (negbTE phi_d) andbF /= => /eqP.
have [z ez] := el_ex cf szf monf sb rb sS HS (Y ^+ q).
have hq : q = q.-1.+1 by rewrite prednK // (leq_trans _ nq).
rewrite hq in ez; rewrite hq -(M_el_pow ey ez) -hq; rewrite -hq in ez.
have sz := el_size ez.
rewrite (M_eq0 sz) (pO_divides sz) -redpX.
have rz : rp z (d%:P * rmodp (Y ^+ q) Fz) := zelem_repr d ez.
have D1 : (RP f %| redp pn (d%:P * rmodp (Y ^+ q) Fz)) = (RP f %| redp pn (Y ^+ q)).
  rewrite redpM redpC mul_polyC dvdpZr ?(toF_d Hp Hd) //.
  have -> : rmodp (Y ^+ q) Fz = Y ^+ q - rdivp (Y ^+ q) Fz * Fz.
    by rewrite {2}(rdivp_eq Fmon (Y ^+ q)); ring.
  by rewrite redpB redpM dvdp_addl // dvdpNr dvdp_mull.
split.
  move=> [w sw ew]; rewrite -D1.
  have [V rV dV] := inLD_p Hp rb Hscale (RP f) sw; rewrite -ew in rV.
  by rewrite -(repr_fun rV rz).
move=> dv; apply: (inLD_f Hp cf szf monf sb rb gt Hscale Hd sS HS).
by exists (d%:P * rmodp (Y ^+ q) Fz) => //; rewrite D1.
Qed.

(** ** I_p = L(Rb) for the product Rb of the distinct irreducible factors *)
Variable Rb : {poly 'F_pn}.
Hypothesis HR1 : RP f %| Rb ^+ q.
Hypothesis HR2 : forall X : {poly 'F_pn}, RP f %| X ^+ q -> Rb %| X.

Lemma ip_inLD x : In_rowspanZ n x i_p <-> inL Rb x.
Proof.
split.
  move=> xi; have sx : size x = n := span_length n x _ wip xi.
  have [X rX _] := repr_exists rb Hscale sx; exists X => //.
  by apply: HR2; apply/(nilpotent_dvd rX)/(ip_nilpotent sx).
move=> [X rX dX]; have sx := repr_size rX.
apply/(ip_nilpotent sx)/(nilpotent_dvd rX).
by apply: dvdp_trans HR1 _; apply: dvdp_exp2r.
Qed.

(** ** Dedekind: a repeated factor g with g | h modulo p gives a multiplier of I_p outside p O *)
Variables (g : list Z) (e : nat) (Cz h R' : {poly Z}).
Hypothesis eF : Fz = PZ g ^+ e.+2 * Cz + p%:P * h.
Hypothesis eR : Rb = RP g * redp pn R'.
Hypothesis RC : redp pn R' %| redp pn Cz.
Hypothesis sg : (1 < size (RP g))%nat.
Hypothesis MP : forall u, length u = n ->
  (forall y, In_rowspanZ n y i_p ->
     exists z, In_rowspanZ n z i_p /\ tm u y = vscale p z) ->
  forall j, (p | List.nth j u 0%Z)%ZZ.

Let RPf_eq : RP f = RP g ^+ e.+2 * redp pn Cz.
Proof.
by rewrite eF redpD [redp pn (_ * Cz)]redpM [redp pn (_ * h)]redpM redpX redp_p // mul0r addr0.
Qed.

Let RbF : Rb %| RP f.
Proof. by rewrite RPf_eq eR; apply: dvdp_mul => //; rewrite exprS dvdp_mulr. Qed.

Theorem multiplier_not_dvd : ~~ (RP g %| redp pn h).
Proof.
apply/negP => gh.
pose U := PZ g ^+ e.+1 * Cz.
have eRF : RP f = RP g * redp pn U.
  by rewrite RPf_eq /U [redp pn (_ * Cz)]redpM redpX exprS mulrA.
have RbU : Rb %| redp pn U.
  by rewrite eR /U [redp pn (_ * Cz)]redpM redpX exprS -mulrA; apply: dvdp_mul => //; apply: dvdp_mull.
have [u eu] := el_ex cf szf monf sb rb sS HS U.
have su := el_size eu.
(* u is a multiplier of I_p into p I_p *)
have mult y : In_rowspanZ n y i_p -> exists z, In_rowspanZ n z i_p /\ tm u y = vscale p z.
  move=> /ip_inLD [Y rY dY]; have sy := repr_size rY.
  have [K [W eY]] : exists K W, Y = (PZ g * R') * K + p%:P * W.
    by apply: (lift_dvd Hp); rewrite redpM -eR.
  pose Z0 := - h * R' * K + U * W.
  have eUY : rmodp (rmodp U Fz * Y) Fz = rmodp (p%:P * Z0) Fz.
    rewrite mulrC (rmodp_mulmr Fmon) mulrC.
    have -> : U * Y = p%:P * Z0 + (R' * K) * Fz.
      rewrite eY /Z0 /U eF.
      have -> : PZ g ^+ e.+2 = PZ g ^+ e.+1 * PZ g by rewrite exprSr.
      ring.
    by rewrite (rmodp_addQ cf szf monf).
  have rt : rp (tm u y) (rmodp (p%:P * Z0) Fz).
    by rewrite -eUY; apply: (repr_tmul cf szf monf sb rb gt eu rY).
  have [w sw ew] : exists2 w, size w = n & tm u y = [seq Z.mul p x | x <- w].
    apply: (inLD_f Hp cf szf monf sb rb gt Hscale Hd sS HS); exists (rmodp (p%:P * Z0) Fz) => //.
    by apply: (dvd_rmodp cf szf monf (dvdpp _)); rewrite redpM redp_p // mul0r dvdp0.
  exists w; split=> //; apply/ip_inLD.
  have [Wr rw _] := repr_exists rb Hscale sw; exists Wr => //.
  have ep' : p%:P * Wr = p%:P * rmodp Z0 Fz.
    have r1 : rp (tm u y) (p *: Wr) by rewrite ew; exact: repr_scale.
    rewrite mul_polyC (repr_fun r1 rt).
    have eZ : Z0 = rdivp Z0 Fz * Fz + rmodp Z0 Fz := rdivp_eq Fmon Z0.
    have -> : p%:P * Z0 = (p%:P * rdivp Z0 Fz) * Fz + p%:P * rmodp Z0 Fz by rewrite {1}eZ; ring.
    rewrite (rmodp_addl_mul_small Fmon) //.
    rewrite mul_polyC (leq_ltn_trans (size_scale_leq _ _)) // ltn_rmodpN0 //.
    exact: monic_neq0.
  have -> : Wr = rmodp Z0 Fz.
    by apply: (mulfI _ ep'); rewrite polyC_eq0; apply/eqP.
  apply: (dvd_rmodp cf szf monf RbF).
  rewrite /Z0 redpD [redp pn (U * W)]redpM [redp pn (_ * K)]redpM [redp pn (_ * R')]redpM redpN.
  apply: dvdp_add; last exact: (dvdp_mulr _ RbU).
  by apply: dvdp_mulr; rewrite mulNr dvdpNr eR; apply: dvdp_mul.
(* hence u is in p O, but U is not divisible by f modulo p *)
have all_p := MP su mult.
have [w sw ew] := (pO_divides su).1 all_p.
have [V rV dV] := inLD_p Hp rb Hscale (RP f) sw; rewrite -ew in rV.
have ru : rp u (d%:P * rmodp U Fz) := zelem_repr d eu.
rewrite (repr_fun rV ru) redpM redpC mul_polyC dvdpZr ?(toF_d Hp Hd) // in dV.
have dU : RP f %| redp pn U.
  have -> : U = rdivp U Fz * Fz + rmodp U Fz := rdivp_eq Fmon U.
  by rewrite redpD redpM dvdp_add // dvdp_mull.
have f0 : RP f != 0 by apply: monic_neq0; apply: monic_map.
have U0 : redp pn U != 0 by move: f0; rewrite eRF mulf_eq0 negb_or => /andP[].
have g0 : RP g != 0 by move: f0; rewrite eRF mulf_eq0 negb_or => /andP[].
have := dvdp_leq U0 dU; rewrite eRF size_mul //.
have : (0 < size (redp pn U))%nat by rewrite size_poly_gt0.
by move: sg; move: (size (RP g)) (size (redp pn U)) => a c; clear; lia.
Qed.

End Radical.
