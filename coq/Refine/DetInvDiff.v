(** * DetInvDiff (C16): the inverse different.  [get_inv_diff] returns (l, N) with N the normal form
      of l * Tr^-1, Tr the matrix of the trace form Tr(w_i w_j); hence
      norm(N) * |det Tr| = l^n, i.e. l^n / norm(numerator) = |disc|.
      Style: ssreflect/MathComp. *)
From Coq Require Import ZArith List.
From mathcomp Require Import all_ssreflect ssralg zmodp matrix mxalgebra.
From mathcomp Require Import ssrZ zify.
From Coq Require Import QArith Qcanon.
From RNT.Model Require Import Base Poly Algebraic LinAlg MultTable Ideal.
From RNT.Model Require Hnf.
From RNT.Refine Require Import QcField LinAlgQc LinAlgList MatZ HnfSpec HnfMain IdealMul DetBridge DetHnf DetOrder DetIdeal DetInvDiffA.
From RNT.Refine Require MultTableOps.
Set Implicit Arguments.
Unset Strict Implicit.
Unset Printing Implicit Defensive.
Import GRing.Theory.
Local Close Scope Z_scope.
Local Close Scope Q_scope.
Local Close Scope Qc_scope.
Local Open Scope ring_scope.

(** the matrix of the trace form: entry (i, j) is the trace of multiplication by w_i * w_j = t[i][j] *)
Definition trace_form (t : table) (n : nat) : 'M[Z]_n :=
  \matrix_(i < n, j < n) MultTableOps.trace_val t (seq.nth [::] (seq.nth [::] t i) j) n.

Lemma trace_matrix_mx n t (tr : list (list Qc)) : MultTableOps.cube n t ->
  mapM (fun i => mapM (fun j => bind (nth_chk t i) (fun ti => bind (nth_chk ti j) (fun v =>
          bind (mt_trace t v) (fun x => Done (qz x))))) (List.seq 0 n)) (List.seq 0 n) = Done tr ->
  length tr = n /\ qmx n n tr = map_mx q_of_Z (trace_form t n).
Proof.
move=> ct Etr; have [L N] := mapM_inv _ _ _ Etr; rewrite List.seq_length in L N.
split=> //; apply/matrixP => i j; rewrite !mxE.
have /ltP hi := ltn_ord i; have /ltP hj := ltn_ord j.
have := N i 0%nat [::] hi; rewrite List.seq_nth // -[(0 + i)%coq_nat]/(i : nat) => Ni.
have [_ N2] := mapM_inv _ _ _ Ni; rewrite List.seq_length in N2.
have := N2 j 0%nat (Q2Qc 0) hj; rewrite List.seq_nth // -[(0 + j)%coq_nat]/(j : nat).
have st : size t = n by case/andP: ct => /eqP.
rewrite (MultTableOps.nth_chk_ok [::]) ?st // /bind.
rewrite (MultTableOps.nth_chk_ok [::]) ?(MultTableOps.cube_row ct) //.
rewrite (MultTableOps.mt_trace_closed ct) ?(MultTableOps.cube_cell ct) //.
by case=> <-.
Qed.

(** [P] the norm relation of the inverse different *)
Theorem inv_diff_norm t l h :
  tshape t -> (1 <= length t)%coq_nat -> mt_inv_diff t = Done (l, h) ->
  let n := length t in
  [/\ (0 < l)%Z, \det (trace_form t n) <> 0%Z
    & exists nm : Z, [/\ Hnf.hnf_determinant h = Done nm, (0 < nm)%Z
                       & (nm * Z.abs (\det (trace_form t n)))%Z = l ^+ n]].
Proof.
move=> ht hn E n.
have ct : MultTableOps.cube n t by apply: tshape_cube.
have [tr [d [int [Etr [Er [lpos [Li [lint' [wint [eint Eh]]]]]]]]]] := mt_inv_diff_inv t l h E.
rewrite -/n in Etr lint' wint eint Li.
have [ltr etr] := trace_matrix_mx ct Etr.
have [dtr _] := inv_ok Er; move: dtr; rewrite /= ltr etr => dtr.
have eint' : mxQ n n int = q_of_Z l *: qmx n n d.
  apply/matrixP => i j; rewrite !mxE.
  have /ltP hi := ltn_ord i; have /ltP hj := ltn_ord j.
  by rewrite mulrC; exact: (eint i j hi hj).
have edet : (\det (zmx n n int) * \det (trace_form t n))%R = l ^+ n :> Z.
  apply: q_of_Z_inj; rewrite rmorphM rmorphX /= -det_mxQ eint' detZ -mulrA.
  have := congr1 (@matrix.determinant _ n) dtr.
  by rewrite det_mulmx det_map_mx det1 => ->; rewrite mulr1.
have X := zexp_pos n lpos.
have i0 : \det (zmx n n int) <> 0%Z by move=> e0; move: edet X; rewrite e0 mul0r => <-.
have t0 : \det (trace_form t n) <> 0%Z by move=> e0; move: edet X; rewrite e0 mulr0 => <-.
split=> //.
have sI : shape n n int by split.
have [I1 _] := determinant_index sI hn Eh; have [_ dh] := I1 i0.
exists (Z.abs (\det (zmx n n int))); split=> //; first by lia.
by rewrite -Z.abs_mul -[(_ * _)%Z]/(\det (zmx n n int) * \det (trace_form t n))%R edet; lia.
Qed.

(** the same for the entry point [get_inv_diff] and [Ideal::norm] *)
Theorem get_inv_diff_norm t D :
  tshape t -> (1 <= length t)%coq_nat -> get_inv_diff t = Done D ->
  let n := length t in
  [/\ (0 < frac_denom D)%Z, \det (trace_form t n) <> 0%Z
    & exists nm : Z, [/\ norm (frac_numer D) = Done nm, (0 < nm)%Z
                       & (nm * Z.abs (\det (trace_form t n)))%Z = frac_denom D ^+ n]].
Proof.
move=> ht hn; rewrite /get_inv_diff.
case E: (mt_inv_diff t) => [[l h]| |] //= [<-] /=.
exact: (inv_diff_norm ht hn E).
Qed.
