(** * OrderW3Trace (C15): the trace form of K[x]/(F) in the power basis, without roots.

      F over a field K, of degree n >= 1 with leading coefficient a; [redmx F G n] (AlgNormRes.v) is
      the matrix of multiplication by G on K[x]/(F) in the basis 1, x, .., x^(n-1).
      - tau g = coefficient of x^(n-1) of g mod F;  h_j = a_(j+1) + a_(j+2) x + .. + a_n x^(n-1-j)
        (the Horner polynomials): tau(x^i h_j) = a [i = j]  (the dual basis of the power basis);
      - sum_i x^i h_i = F', hence Euler's formula  a * tr(mult. by G) = tau(G F');
      - with P_ij = tr(mult. by x^(i+j)) (the trace form of the power basis) and C_jk = coefficient k
        of h_j:  P * C^T = redmx F F' n, and det C = (-1)^rev * a^n (C is anti-triangular), so
        det P * (-1)^rev * a^n * a^(n-1) = Res(F', F) (MathComp's Sylvester determinant, through
        [AlgNormRes.resultant_redmx]).
      No roots, no splitting field.  Style: ssreflect/MathComp. *)
From mathcomp Require Import all_ssreflect ssralg zmodp poly polydiv perm matrix mxalgebra mxpoly.
From mathcomp Require Import zify.
From RNT.Refine Require Import AlgQuot AlgNormRes.
Set Implicit Arguments.
Unset Strict Implicit.
Unset Printing Implicit Defensive.
Import GRing.Theory.
Local Open Scope ring_scope.

Section TraceForm.
Variable K : fieldType.
Variables (F : {poly K}) (n : nat).
Hypothesis szF : size F = n.+1.
Hypothesis n0 : (0 < n)%N.
Let a : K := lead_coef F.

Let F0 : F != 0. Proof. by rewrite -size_poly_eq0 szF. Qed.
Let a0 : a != 0. Proof. by rewrite lead_coef_eq0. Qed.
Let aE : a = F`_n. Proof. by rewrite /a lead_coefE szF. Qed.

(** ** the functional tau *)
Definition tau (g : {poly K}) : K := (g %% F)`_n.-1.

Lemma tauD u v : tau (u + v) = tau u + tau v.
Proof. by rewrite /tau modpD coefD. Qed.

Lemma tauZ c u : tau (c *: u) = c * tau u.
Proof. by rewrite /tau modpZl coefZ. Qed.

Lemma tau0 : tau 0 = 0.
Proof. by rewrite /tau mod0p coef0. Qed.

Lemma tau_sum I (r : seq I) (P : pred I) (E : I -> {poly K}) :
  tau (\sum_(i <- r | P i) E i) = \sum_(i <- r | P i) tau (E i).
Proof. by elim/big_rec2: _ => [|i x y _ <-]; rewrite ?tau0 ?tauD. Qed.

Lemma tau_small (u : {poly K}) : (size u <= n)%N -> tau u = u`_n.-1.
Proof. by move=> su; rewrite /tau modp_small // szF ltnS. Qed.

Lemma tau_modl u v : tau ((u %% F) * v) = tau (u * v).
Proof. by rewrite /tau modp_mul2. Qed.

(** ** the Horner polynomials *)
Definition hor (j : nat) : {poly K} := \poly_(k < n - j) F`_(j.+1 + k).

Lemma size_hor j : (size (hor j) <= n - j)%N.
Proof. exact: size_poly. Qed.

Lemma coef_hor j k : (hor j)`_k = if (k < n - j)%N then F`_(j.+1 + k) else 0.
Proof. by rewrite coef_poly. Qed.

Lemma horX j : (j < n)%N -> hor j * 'X^j.+1 = F - \poly_(k < j.+1) F`_k.
Proof.
move=> hj; apply/polyP => c; rewrite coefMXn coefB coef_poly.
case: ltnP => hc; first by rewrite subrr.
rewrite subr0 coef_hor; case: ltnP => hc2; first by congr (F`__); lia.
by rewrite nth_default // szF; lia.
Qed.

(** the dual basis of the power basis for (u, v) |-> tau (u v) *)
Lemma tau_Xhor i j : (i < n)%N -> (j < n)%N -> tau ('X^i * hor j) = a *+ (i == j).
Proof.
move=> hi hj; case: (leqP i j) => hij.
  have sz : (size ('X^i * hor j)%R <= n)%N.
    apply: leq_trans (size_mul_leq _ _) _; rewrite size_polyXn /=.
    by have := size_hor j; move: (size (hor j)) => s; lia.
  rewrite (tau_small sz) coefXnM ifF; last by apply/negbTE; rewrite -leqNgt; lia.
  rewrite coef_hor; case: (eqVneq i j) => [->|ne].
    rewrite mulr1n ifT; last by lia.
    by rewrite aE; congr (F`__); lia.
  by rewrite mulr0n ifF //; apply/negbTE; rewrite -leqNgt; move/eqP: ne; lia.
have -> : (i == j) = false by apply/negbTE/eqP; lia.
rewrite mulr0n.
have -> : 'X^i * hor j = 'X^(i - j.+1) * F - 'X^(i - j.+1) * \poly_(k < j.+1) F`_k.
  by rewrite -mulrBr -horX // mulrCA -exprD mulrC; congr ('X^_ * _); lia.
rewrite /tau modpD modp_mull add0r modNp coefN.
set r := _ * \poly_(k < _) _.
have sr : (size r <= i)%N.
  apply: leq_trans (size_mul_leq _ _) _; rewrite size_polyXn /=.
  by have := size_poly j.+1 (fun k => F`_k); move: (size (\poly_(k < j.+1) F`_k)) => s; lia.
rewrite modp_small ?szF; last by move: (size r) sr => s sr; lia.
by rewrite nth_default ?oppr0 //; move: (size r) sr => s sr; lia.
Qed.

Lemma poly_small (u : {poly K}) : (size u <= n)%N -> u = \sum_(k < n) u`_k *: 'X^k.
Proof.
move=> su; rewrite -poly_def; apply/polyP => c; rewrite coef_poly.
by case: ltnP => // hc; rewrite nth_default //; exact: leq_trans su hc.
Qed.

(** coefficients through tau: a * u_i = tau (u h_i) *)
Lemma coef_tau (u : {poly K}) i : (size u <= n)%N -> (i < n)%N -> a * u`_i = tau (u * hor i).
Proof.
move=> su hi; rewrite {2}(poly_small su) mulr_suml tau_sum.
rewrite (bigD1 (Ordinal hi)) //= -scalerAl tauZ tau_Xhor // eqxx mulr1n big1 => [|k ne].
  by rewrite addr0 mulrC.
rewrite -scalerAl tauZ tau_Xhor //.
have -> : (nat_of_ord k == i) = false by apply/negbTE; move: ne; rewrite -val_eqE.
by rewrite mulr0n mulr0.
Qed.

(** ** sum_i x^i h_i = F' *)
Lemma sum_Xhor : \sum_(i < n) 'X^i * hor i = F^`().
Proof.
apply/polyP => c; rewrite coef_sum coef_deriv.
rewrite (eq_bigr (fun i : 'I_n => if (i <= c)%N && (c < n)%N then F`_c.+1 else 0)); last first.
  move=> i _; rewrite coefXnM coef_hor; case: (ltnP c i) => hci //=.
  have -> : (c - i < n - i)%N = (c < n)%N by have := ltn_ord i; lia.
  by case: ifP => // _; congr (F`__); lia.
case: (ltnP c n) => hc; last first.
  rewrite big1 => [|i _]; last by rewrite andbF.
  by rewrite nth_default ?mul0rn // szF.
rewrite (eq_bigr (fun i : 'I_n => if (i < c.+1)%N then F`_c.+1 else 0)); last first.
  by move=> i _; rewrite andbT ltnS.
rewrite -big_mkcond /= -(big_ord_widen _ (fun=> F`_c.+1)) //.
by rewrite sumr_const card_ord.
Qed.

(** ** Euler's formula: a * tr (mult. by G) = tau (G F') *)
Theorem tr_redmx G : a * \tr (redmx F G n) = tau (G * F^`()).
Proof.
rewrite /mxtrace mulr_sumr -sum_Xhor mulr_sumr tau_sum; apply: eq_bigr => i _.
rewrite mxE coef_tau //; last by rewrite -ltnS -szF ltn_modp.
by rewrite tau_modl mulrA.
Qed.

(** ** the trace form of the power basis and the matrix of the Horner polynomials *)
Definition pform : 'M[K]_n := \matrix_(i < n, j < n) \tr (redmx F ('X^(i + j)) n).
Definition hormx : 'M[K]_n := \matrix_(j < n, k < n) (hor j)`_k.

Lemma pformE (i j : 'I_n) : a * pform i j = tau ('X^i * 'X^j * F^`()).
Proof. by rewrite mxE tr_redmx exprD. Qed.

(** P * C^T = matrix of multiplication by F' *)
Theorem pform_hormx : pform *m hormx^T = redmx F F^`() n.
Proof.
apply/matrixP => i j; apply: (can_inj (mulKf a0)); rewrite mxE mulr_sumr.
rewrite [in RHS]mxE coef_tau //; last by rewrite -ltnS -szF ltn_modp.
rewrite tau_modl [X in tau (_ * X)](poly_small (leq_trans (size_hor j) (leq_subr _ _))).
have E (k : 'I_n) : a * (pform i k * hormx^T k j) = tau (F^`() * 'X^i * ((hor j)`_k *: 'X^k)).
  rewrite mulrA pformE !mxE -scalerAr tauZ mulrC; congr (_ * tau _).
  by rewrite [LHS]mulrC [LHS]mulrA.
by rewrite mulr_sumr tau_sum; apply: eq_bigr => k _; exact: E.
Qed.

(** the reversal of 'I_n *)
Definition revp : 'S_n := perm (@rev_ord_inj n).

Lemma det_hormx : \det hormx = (-1) ^+ revp * a ^+ n.
Proof.
pose T : 'M[K]_n := row_perm revp hormx.
have eT (j k : 'I_n) : T j k = if (k <= j)%N then F`_(n - j + k) else 0.
  rewrite !mxE permE /= coef_hor.
  have -> : (k < n - (n - j.+1))%N = (k <= j)%N by have := ltn_ord j; lia.
  by case: ifP => // _; congr (F`__); have := ltn_ord j; lia.
have trT : is_trig_mx T.
  by apply/is_trig_mxP => j k hjk; rewrite eT ifF //; apply/negbTE; rewrite -ltnNge.
have dT : \det T = a ^+ n.
  rewrite (det_trig trT) (eq_bigr (fun=> a)) ?prodr_const ?card_ord // => j _.
  by rewrite eT leqnn aE; congr (F`__); have := ltn_ord j; lia.
have : \det T = (-1) ^+ revp * \det hormx by rewrite /T row_permE det_mulmx det_perm.
rewrite dT => ->; rewrite mulrA -expr2 sqrr_sign mul1r //.
Qed.

(** det P * (-1)^rev * a^n * a^(n-1) = Res(F', F) *)
Theorem det_pform_resultant :
  \det pform * ((-1) ^+ revp * a ^+ n) * a ^+ (size F^`()).-1 = resultant F^`() F.
Proof.
rewrite (resultant_redmx F^`() szF) -pform_hormx det_mulmx det_tr det_hormx.
by [].
Qed.

End TraceForm.

(** ** the sign of the reversal of 'I_n is (-1)^(n(n-1)/2) *)
Lemma revp_lift n : revp n.+1 = lift_perm ord0 ord_max (revp n).
Proof.
apply/permP => i; case: (unliftP ord0 i) => [k ->|->].
  rewrite lift_perm_lift !permE; apply: val_inj => /=.
  rewrite /bump leq0n /=.
  have hk : (k < n)%N := ltn_ord k.
  have -> : (n <= n - k.+1)%N = false by apply/negbTE; rewrite -ltnNge; lia.
  by rewrite add0n add1n subSS.
rewrite lift_perm_id permE; apply: val_inj => /=; lia.
Qed.

Lemma odd_revp n : odd_perm (revp n) = odd ((n * n.-1) %/ 2).
Proof.
elim: n => [|n IH].
  have -> : revp 0 = perm_one _ by apply/permP => -[].
  exact: odd_perm1.
rewrite revp_lift odd_lift_perm IH /=.
have -> : (n.+1 * n = n * n.-1 + n.*2)%N by case: (n) => // m /=; lia.
by rewrite divnDr ?dvdn2 ?odd_double // -muln2 mulnK // oddD addbC.
Qed.

Lemma sign_revp (R : ringType) n : (-1) ^+ ((n * n.-1) %/ 2 + odd_perm (revp n)) = 1 :> R.
Proof. by rewrite odd_revp exprD signr_odd -expr2 sqrr_sign. Qed.
