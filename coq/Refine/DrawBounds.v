(** * Range of the modelled random draws ([Base.gen_range]) (stdlib + lia). *)
From Coq Require Import ZArith List Lia.
From RNT.Model Require Import Base.
Import ListNotations.
Open Scope Z_scope.

Lemma next_byte_nonneg r : 0 <= fst (next_byte r).
Proof.
  unfold next_byte. destruct (rng_bytes r); cbn [fst]; [lia|].
  apply Z.mod_pos_bound. lia.
Qed.

Lemma take_le_nonneg k : forall r, 0 <= fst (take_le k r).
Proof.
  induction k as [|k IH]; intros r; cbn [take_le]; [cbn; lia|].
  pose proof (next_byte_nonneg r) as B. destruct (next_byte r) as [b r1]. cbn [fst] in B.
  pose proof (IH r1) as V. destruct (take_le k r1) as [v r2]. cbn [fst] in *. lia.
Qed.

Lemma div_nonneg a b : 0 <= a -> 0 <= b -> 0 <= a / b.
Proof.
  intros Ha Hb. destruct (Z.eq_dec b 0) as [->|Hn]; [rewrite Zdiv_0_r; lia|].
  apply Z.div_pos; lia.
Qed.

Lemma mod_nonneg a b : 0 <= a -> 0 <= b -> 0 <= a mod b.
Proof.
  intros Ha Hb. destruct (Z.eq_dec b 0) as [->|Hn]; [rewrite Zmod_0_r; lia|].
  apply Z.mod_pos_bound; lia.
Qed.

Lemma gen_biguint_nonneg bits r : 0 <= fst (gen_biguint bits r).
Proof.
  unfold gen_biguint.
  set (len := if bits mod 32 =? 0 then bits / 32 else bits / 32 + 1).
  pose proof (take_le_nonneg (Z.to_nat (4 * len)) r) as V.
  destruct (take_le (Z.to_nat (4 * len)) r) as [v r1]. cbn [fst] in V.
  destruct (bits mod 32 =? 0); cbn [fst]; [exact V|].
  assert (P1 : 0 <= 2 ^ (32 * (len - 1))) by (apply Z.pow_nonneg; lia).
  assert (P2 : 0 <= 2 ^ (32 - bits mod 32)) by (apply Z.pow_nonneg; lia).
  pose proof (mod_nonneg v _ V P1). pose proof (div_nonneg v _ V P1) as D1.
  pose proof (div_nonneg _ _ D1 P2). nia.
Qed.

Lemma gen_below_bound fuel : forall bound r v r',
  gen_below fuel bound r = Done (v, r') -> 0 <= v < bound.
Proof.
  induction fuel as [|f IH]; intros bound r v r'; cbn [gen_below]; [discriminate|].
  pose proof (gen_biguint_nonneg (zbits bound) r) as N.
  destruct (gen_biguint (zbits bound) r) as [w r1]. cbn [fst] in N.
  destruct (Z.ltb_spec w bound).
  - intros HD; inversion HD; subst. lia.
  - apply IH.
Qed.

Lemma gen_range_bound fuel lo hi r v r' :
  gen_range fuel lo hi r = Done (v, r') -> lo <= v < hi.
Proof.
  unfold gen_range. destruct (Z.ltb_spec lo hi); [|discriminate].
  destruct (gen_below fuel (hi - lo) r) as [[w r1]| |] eqn:E; cbn [bind]; try discriminate.
  intros H0; inversion H0; subst. apply gen_below_bound in E. lia.
Qed.
