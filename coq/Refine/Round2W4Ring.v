(** Round 2 step, fourth wave (C06): the order as a commutative ring.  The integer row vectors of length n with the
    product of a commutative associative n x n x n table T with a unit form a MathComp [comRingType]; its reduction
    modulo a prime p is faithfully represented by the matrices [Round2W3Frob.M] over F_p, hence an element that is
    nilpotent modulo p has n-th power 0 modulo p (a nilpotent n x n matrix over a field has n-th power 0).
    Style: ssreflect/MathComp. *)
From Coq Require Import ZArith List Znumtheory.
From mathcomp Require Import all_ssreflect ssralg ssrint intdiv zmodp matrix mxalgebra finfield.
From mathcomp Require Import ssrZ zify.
From RNT.Model Require Import Base Poly Algebraic LinAlg MultTable Order Round2.
From RNT.Refine Require Import MatZ MultTableOps MultTableNorm AlgNormMx DetBridge FermatBridge Round2W3Mul Round2W3Frob.
From RNT.Refine Require Round2W4Core HnfUnique.
Set Implicit Arguments.
Unset Strict Implicit.
Unset Printing Implicit Defensive.
Import GRing.Theory.
Local Close Scope Z_scope.
Local Open Scope ring_scope.

(** ** a nilpotent square matrix over a field has n-th power 0 *)
Section Nilpotent.
Variables (F : fieldType) (d : nat).
Local Notation n := d.+1.
Variable A : 'M[F]_n.

Lemma stable_pow j (X : 'M[F]_n) : A ^+ j = X * A ^+ j.+1 -> forall m, A ^+ j = X ^+ m * A ^+ (j + m).
Proof.
move=> e; elim=> [|m IH]; first by rewrite expr0 mul1r addn0.
by rewrite {1}IH exprD {1}e -mulrA -exprD addSnnS exprSr !mulrA.
Qed.

Variable t : nat.
Hypothesis nil : A ^+ t = 0.

Lemma rank_pow j : A ^+ j = 0 \/ (\rank (A ^+ j) + j <= n)%nat.
Proof.
elim: j => [|j [e0|IH]]; first by right; rewrite expr0 addn0 rank_leq_row.
  by left; rewrite exprS e0 mulr0.
have sub : (A ^+ j.+1 <= A ^+ j)%MS by rewrite exprS; exact: submxMl.
have /leqifP := mxrank_leqif_sup sub.
case: ifP => [/submxP [X eX] _|_ lt].
  by left; rewrite exprS (stable_pow eX t) exprD nil !mulr0.
by right; rewrite addnS; apply: leq_trans IH; rewrite ltn_add2r.
Qed.

Theorem nilpotent_mx : A ^+ n = 0.
Proof.
case: (rank_pow n) => // h; apply/eqP; rewrite -mxrank_eq0.
by move: h; move: (\rank (A ^+ n)) => r; rewrite -{2}[n]add0n leq_add2r leqn0.
Qed.
End Nilpotent.

(** ** the ring of coordinate vectors *)
Section RingA.
Variables (d : nat) (T : table).
Local Notation n := d.+1.
Hypothesis ct : cube n T.
Hypothesis ha : tassoc T n.
Hypothesis hc : tcomm T n.
Variable one : list Z.
Hypothesis sone : size one = n.
Hypothesis hone : forall x, size x = n -> tmul T n one x = x.

Definition vec (x : 'rV[Z]_n) : list Z := mkseq (fun k => x 0 (inord k)) n.

Lemma size_vec x : size (vec x) = n.
Proof. by rewrite size_mkseq. Qed.

Lemma nth_vec x (i : 'I_n) : seq.nth 0 (vec x) i = x 0 i.
Proof. by rewrite nth_mkseq // inord_val. Qed.

Lemma zrow_vec x : zrow n (vec x) = x.
Proof. by apply/rowP => i; rewrite mxE nth_vec. Qed.

Lemma vec_zrow v : size v = n -> vec (zrow n v) = v.
Proof.
move=> sv; apply: (@eq_from_nth _ 0); rewrite size_vec // => k hk.
by rewrite nth_mkseq // mxE inordK.
Qed.

Definition A : Type := 'rV[Z]_n.
Canonical A_eqType := Eval hnf in [eqType of A].
Canonical A_choiceType := Eval hnf in [choiceType of A].
Canonical A_zmodType := Eval hnf in [zmodType of A].

Definition mulA (x y : A) : A := zrow n (tmul T n (vec x) (vec y)).
Definition oneA : A := zrow n one.

Lemma mulAE (x y : A) : mulA x y = y *m Mrep T n (vec x).
Proof. by rewrite /mulA zrow_tmul zrow_vec. Qed.

Lemma mulA_C : commutative mulA.
Proof. by move=> x y; rewrite /mulA hc ?size_vec. Qed.

Lemma mulA_A : associative mulA.
Proof.
by move=> x y z; rewrite /mulA !vec_zrow ?size_tmul // ha ?size_vec.
Qed.

Lemma mulA_1l : left_id oneA mulA.
Proof. by move=> x; rewrite /mulA /oneA vec_zrow // hone ?size_vec // zrow_vec. Qed.

Lemma mulA_Dr : right_distributive mulA +%R.
Proof. by move=> x y z; rewrite !mulAE mulmxDl. Qed.

Lemma mulA_Dl : left_distributive mulA +%R.
Proof. by move=> x y z; rewrite mulA_C mulA_Dr !(mulA_C z). Qed.

Lemma mulA_0r (x : A) : mulA x 0 = 0.
Proof. by rewrite mulAE mul0mx. Qed.

Lemma oneA_neq0 : oneA != 0.
Proof.
apply/eqP => e0.
have all0 (x : A) : x = 0 by rewrite -(mulA_1l x) e0 mulA_C mulA_0r.
have := all0 (const_mx 1) => /rowP /(_ ord0); rewrite !mxE.
by [].
Qed.

Definition A_ringMixin := ComRingMixin mulA_A mulA_C mulA_1l mulA_Dl oneA_neq0.
Canonical A_ringType := Eval hnf in RingType A A_ringMixin.
Canonical A_comRingType := Eval hnf in ComRingType A mulA_C.

Lemma mulE (x y : A) : x * y = zrow n (tmul T n (vec x) (vec y)).
Proof. by []. Qed.

Lemma oneE : (1 : A) = zrow n one.
Proof. by []. Qed.

(** scalars *)
Lemma natA_mul (m : nat) (x : A) : (m%:R : A) * x = x *+ m.
Proof. by rewrite mulr_natl. Qed.

Lemma ent_natmul (x : A) (m : nat) i : (x *+ m) 0 i = Z.mul (x 0 i) (Z.of_nat m).
Proof.
have -> : (x *+ m) 0 i = x 0 i *+ m.
  by elim: m => [|m IH]; rewrite ?mulr0n ?mxE // !mulrS mxE IH.
elim: m => [|m IH]; first by rewrite mulr0n; lia.
by rewrite mulrS IH; lia.
Qed.

(** membership in m A, entry by entry *)
Lemma inI_nat (m : nat) (x : A) :
  Round2W4Core.inI (m%:R : A) x <-> forall i : 'I_n, Z.divide (Z.of_nat m) (x 0 i).
Proof.
split.
  by case=> w -> i; rewrite natA_mul ent_natmul; exists (w 0 i).
move=> h.
case: (posnP m) => [m0|mpos].
  exists 0; rewrite mulr0; apply/rowP => i; rewrite mxE.
  by case: (h i) => c; rewrite m0; lia.
exists (\row_i Z.div (x 0 i) (Z.of_nat m)); rewrite natA_mul; apply/rowP => i.
rewrite ent_natmul mxE; case: (h i) => c ->.
by rewrite Z.div_mul; lia.
Qed.

Lemma lreg_nat (m : nat) : (0 < m)%nat -> GRing.lreg (m%:R : A).
Proof.
move=> mpos x y; rewrite !natA_mul => /rowP e; apply/rowP => i.
by have := e i; rewrite !ent_natmul; nia.
Qed.

Lemma inI_nat_dec (m : nat) (x : A) :
  Round2W4Core.inI (m%:R : A) x \/ ~ Round2W4Core.inI (m%:R : A) x.
Proof.
have [h|h] : (forall k, (k < n)%coq_nat -> (Z.of_nat m | seq.nth 0 (vec x) k)%Z)
           \/ ~ (forall k, (k < n)%coq_nat -> (Z.of_nat m | seq.nth 0 (vec x) k)%Z).
  elim: (n) => [|k [IH|IH]]; first by left => k; lia.
    case: (Zdivide_dec (Z.of_nat m) (seq.nth 0 (vec x) k)) => hk; [left|right].
      move=> j hj; case: (j =P k) => [->//|ne]; apply: IH; lia.
    by move=> h; apply: hk; apply: h; lia.
  by right => h; apply: IH => j hj; apply: h; lia.
  left; apply/inI_nat => i; rewrite -nth_vec; apply: h; apply/ltP; exact: ltn_ord.
right => /inI_nat h'; apply: h => k /ltP hk.
by rewrite -[k]/(nat_of_ord (Ordinal hk)) nth_vec.
Qed.

(** more scalars: the vector [c one] acts as the integer c *)
Lemma zrow_vadd (u v : list Z) : size u = n -> size v = n -> zrow n (MatZ.vadd u v) = zrow n u + zrow n v.
Proof.
move=> su sv; apply/rowP => i; rewrite !mxE -!Lnth_nth MatZ.nth_vadd //.
exact: (etrans su (esym sv)).
Qed.

Lemma zrow_vzero : zrow n (vzero n) = 0.
Proof. by apply/rowP => i; rewrite !mxE -Lnth_nth nth_vzero. Qed.

Lemma zrow_vscale_nat (m : nat) (c : list Z) : zrow n (MatZ.vscale (Z.of_nat m) c) = (m%:R : A) * zrow n c.
Proof.
apply/rowP => i; rewrite natA_mul ent_natmul !mxE -!Lnth_nth MatZ.nth_vscale; exact: Z.mul_comm.
Qed.

Lemma vec_natmul (m : nat) (y : A) : vec ((m%:R : A) * y) = MatZ.vscale (Z.of_nat m) (vec y).
Proof.
rewrite -{1}(zrow_vec y) -zrow_vscale_nat vec_zrow //.
by rewrite -Llength_eq' MatZ.vscale_length Llength_eq' size_vec.
Qed.

Lemma zrow_vscale_mul (c : Z) (r : list Z) : size r = n ->
  zrow n (MatZ.vscale c r) = (zrow n (MatZ.vscale c one) : A) * zrow n r.
Proof.
move=> sr; rewrite mulE !vec_zrow //; last by rewrite -Llength_eq' MatZ.vscale_length.
by rewrite tmul_vscale_l // hone.
Qed.

(** ** reduction modulo a prime: the faithful representation by matrices over F_p *)
Variable p : nat.
Hypothesis pr : prime p.
Local Notation rho a := (Round2W3Frob.M d p T (vec a)).
Local Notation P := (p%:R : A).

Lemma Mrep_one : Mrep T n one = 1%:M.
Proof.
apply/row_matrixP => i.
by rewrite row_Mrep hone ?size_unit_vec // zrow_unit_vec row1.
Qed.

Lemma rho1 : rho (1 : A) = 1.
Proof. by rewrite oneE vec_zrow // /Round2W3Frob.M Mrep_one map_scalar_mx rmorph1. Qed.

Lemma rhoM (a b : A) : rho (a * b) = rho a * rho b.
Proof. by rewrite mulE vec_zrow ?size_tmul // (M_tmul p ha hc) ?size_vec. Qed.

Lemma rhoX (a : A) e : rho (a ^+ e) = rho a ^+ e.
Proof. by elim: e => [|e IH]; rewrite ?expr0 ?rho1 // !exprS rhoM IH. Qed.

Lemma rho_eq0 (a : A) : rho a = 0 <-> Round2W4Core.inI P a.
Proof.
split.
  rewrite -(M_vzero d p T) => /(M_inj pr hc sone hone (size_vec a)) h.
  apply/inI_nat => i.
  have := h (vzero_length n) i; rewrite nth_vzero Z.sub_0_r Lnth_nth.
  by rewrite nth_vec.
move=> /inI_nat h; rewrite -(M_vzero d p T); apply: (M_congr d T pr) => k.
rewrite nth_vzero Z.sub_0_r Lnth_nth.
case: (ltnP k n) => hk; last by rewrite seq.nth_default ?size_vec //; exists 0%Z.
by rewrite -[k]/(nat_of_ord (Ordinal hk)) nth_vec.
Qed.

(** nilpotent modulo p => the q-th power is 0 modulo p, for every q >= n *)
Theorem nilA (q : nat) : (n <= q)%nat ->
  forall (z : A) t, Round2W4Core.inI P (z ^+ t) -> Round2W4Core.inI P (z ^+ q).
Proof.
move=> nq z t /rho_eq0; rewrite rhoX => /nilpotent_mx e.
by apply/rho_eq0; rewrite rhoX -(subnKC nq) exprD e mul0r.
Qed.

(** p^s does not divide N when N < p^s *)
Lemma dvd_cancel_nat s : forall (N a b : nat), (0 < N < expn p s)%nat -> (N * a = expn p s * b)%nat -> (p %| a)%nat.
Proof.
elim: s => [|s IH] N a b; first by rewrite expn0; case: N => [|[|N]].
case/andP=> Npos Nlt e.
case: (boolP (p %| N)%nat) => [/dvdnP [k ek]|ndv].
  have pp := prime_gt0 pr.
  apply: (IH k a b).
    apply/andP; split; first by move: Npos; rewrite ek muln_gt0 => /andP[].
    by move: Nlt; rewrite ek expnS mulnC ltn_pmul2l.
  by apply/eqP; rewrite -(eqn_pmul2l (prime_gt0 pr)); apply/eqP; rewrite mulnA [(p * k)%nat]mulnC -ek e expnS mulnA.
have cop : coprime p N by rewrite prime_coprime.
by rewrite -(Gauss_dvdr _ cop) e expnS -mulnA dvdn_mulr.
Qed.

Lemma dvd_cancel_Z s (N : nat) (a b : Z) : (0 < N < expn p s)%nat ->
  Z.mul (Z.of_nat N) a = Z.mul (Z.of_nat (expn p s)) b -> Z.divide (Z.of_nat p) a.
Proof.
move=> hN e.
have e' : (N * Z.abs_nat a = expn p s * Z.abs_nat b)%nat by nia.
have /dvdnP [k ek] := dvd_cancel_nat hN e'.
case: (Z_le_gt_dec 0 a) => hpos; [exists (Z.of_nat k)|exists (Z.opp (Z.of_nat k))]; lia.
Qed.

Lemma natA_exp (m s : nat) : (m%:R : A) ^+ s = (expn m s)%:R.
Proof. by rewrite natrX. Qed.

Lemma div_cancelA (N s : nat) : (0 < N < expn p s)%nat ->
  forall z w : A, (N%:R : A) * z = P ^+ s * w -> Round2W4Core.inI P z.
Proof.
move=> hN z w; rewrite natA_exp !natA_mul => /rowP e; apply/inI_nat => i.
have := e i; rewrite !ent_natmul => ei.
by apply: (@dvd_cancel_Z s N (z 0 i) (w 0 i) hN); lia.
Qed.

(** ** the Pohst-Zassenhaus core for the ring of a table *)
Variable q : nat.
Hypothesis nq : (n <= q)%nat.
Variable N : nat.
Hypothesis Npos : (0 < N)%nat.
Variable Ll : list Z -> Prop.
Hypothesis Ll_N : forall y, size y = n -> Ll (MatZ.vscale (Z.of_nat N) y).
Hypothesis Ll_mul : forall a b, size a = n -> size b = n -> Ll a -> Ll b ->
  exists c, [/\ size c = n, Ll c & tmul T n a b = MatZ.vscale (Z.of_nat N) c].
Variable i_p : list (list Z).
Hypothesis wip : wf n i_p.
Hypothesis Hrad : forall x, size x = n -> (In_rowspanZ n x i_p <-> Round2W3Frob.M d p T x ^+ q = 0).
Variable w0 : list Z.
Hypothesis sw0 : size w0 = n.
Hypothesis Lw0 : Ll w0.
Hypothesis Pw0 : forall k, Z.divide (Z.of_nat N) (Z.mul (Z.of_nat p) (List.nth k w0 0%Z)).
Hypothesis nw0 : ~ forall k, Z.divide (Z.of_nat N) (List.nth k w0 0%Z).

Let gs : list A := [seq zrow n r | r <- i_p].

Lemma rad_rho (y : A) : Round2W4Core.rad P q y <-> rho y ^+ q = 0.
Proof. by rewrite /Round2W4Core.rad -rho_eq0 rhoX. Qed.

Lemma span_lincomb : forall (B : list (list Z)) (c : list Z),
  wf n B -> (forall r, List.In r B -> zrow n r \in gs) ->
  Round2W4Core.span gs (zrow n (lincomb n c B)).
Proof.
elim=> [|r B IH] c wB hB.
  by rewrite lincomb_nil_r zrow_vzero; constructor.
case: c => [|c0 c]; first by rewrite lincomb_nil_l zrow_vzero; constructor.
have [sr wB'] := proj1 (wf_cons _ _ _) wB.
rewrite /= zrow_vadd; first last.
- by rewrite -Llength_eq' lincomb_length.
- by rewrite -Llength_eq' MatZ.vscale_length.
rewrite zrow_vscale_mul //; constructor; first by apply: hB; left.
by apply: IH => // r' hr'; apply: hB; right.
Qed.

Lemma in_gs r : List.In r i_p -> zrow n r \in gs.
Proof.
by move=> hr; apply/mapP; exists r => //; elim: i_p hr => [|x l IH] //= [->|/IH h]; rewrite inE ?eqxx ?h ?orbT.
Qed.

Lemma row_span r : List.In r i_p -> In_rowspanZ n r i_p.
Proof.
move=> /(List.In_nth _ _ [::]) [j [hj <-]].
exact: (HnfUnique.row_in_span n i_p j wip hj).
Qed.

Lemma In_mem (r : list Z) (l : list (list Z)) : r \in l -> List.In r l.
Proof. by elim: l => [|x l IH] //=; rewrite inE => /orP[/eqP->|/IH]; auto. Qed.

Theorem pz_ring :
  exists u, [/\ size u = n, ~ (forall k, Z.divide (Z.of_nat p) (List.nth k u 0%Z)) &
    forall y, In_rowspanZ n y i_p ->
      exists z, In_rowspanZ n z i_p /\ tmul T n u y = MatZ.vscale (Z.of_nat p) z].
Proof.
have p_gt1 := prime_gt1 pr.
have hs : (0 < N < expn p N)%nat by rewrite Npos ltn_expl.
pose L (a : A) := Ll (vec a).
have L_N (y : A) : L ((N%:R : A) * y) by rewrite /L vec_natmul; apply: Ll_N; exact: size_vec.
have L_mul (a b : A) : L a -> L b -> exists c, L c /\ a * b = (N%:R : A) * c.
  move=> La Lb.
  have [c [sc Lc ec]] := Ll_mul (size_vec a) (size_vec b) La Lb.
  by exists (zrow n c); rewrite /L vec_zrow //; split=> //; rewrite mulE ec zrow_vscale_nat.
have gs_rad (g : A) : g \in gs -> Round2W4Core.rad P q g.
  move=> /mapP [r /In_mem hr ->]; apply/rad_rho.
  have sr : size r = n by move/List.Forall_forall: wip; apply.
  by rewrite vec_zrow //; apply/(Hrad sr); exact: row_span.
have gs_gen (y : A) : Round2W4Core.rad P q y -> Round2W4Core.span gs y.
  move=> /rad_rho /(Hrad (size_vec y)) [c [_ ec]].
  by rewrite -(zrow_vec y) ec; apply: span_lincomb => // r; exact: in_gs.
have Lw : L (zrow n w0) by rewrite /L vec_zrow.
have Pw : Round2W4Core.inI (N%:R : A) (P * zrow n w0).
  apply/inI_nat => i; rewrite natA_mul ent_natmul mxE -Lnth_nth.
  by rewrite Z.mul_comm; exact: Pw0.
have nw : ~ Round2W4Core.inI (N%:R : A) (zrow n w0).
  move=> /inI_nat h; apply: nw0 => k.
  case: (ltnP k n) => hk; last first.
    by rewrite List.nth_overflow; [exists 0%Z|rewrite Llength_eq' sw0; exact/leP].
  by have := h (Ordinal hk); rewrite mxE -Lnth_nth.
have [u [nu hu]] := @Round2W4Core.core A_comRingType P (N%:R) (lreg_nat (prime_gt0 pr)) (lreg_nat Npos)
  q N Npos (leq_trans (ltn0Sn d) nq) (nilA nq) (div_cancelA hs) (inI_nat_dec N)
  L L_N L_mul gs gs_rad gs_gen (zrow n w0) Lw Pw nw.
exists (vec u); split; first exact: size_vec.
  move=> h; apply: nu; apply/inI_nat => i.
  by rewrite -nth_vec -Lnth_nth; apply: h.
move=> y hy.
have sy : size y = n by case: hy => c [_ ->]; rewrite -Llength_eq' lincomb_length.
have ry : Round2W4Core.rad P q (zrow n y).
  by apply/rad_rho; rewrite vec_zrow //; apply/(Hrad sy).
have [z [/rad_rho rz ez]] := hu _ ry.
exists (vec z); split; first by apply/(Hrad (size_vec z)).
apply: (@zrow_inj n); rewrite ?size_tmul //.
  by rewrite -Llength_eq' MatZ.vscale_length Llength_eq' size_vec.
by rewrite zrow_vscale_nat zrow_vec -ez mulE vec_zrow.
Qed.
End RingA.
