(** * C08 (second wave): the equal-degree stage [final_split] returns irreducible polynomials when
    all irreducible factors of its input have degree d (ssreflect). Only the shape of the
    recursion matters: every piece is a divisor of the input and has degree in [d, 2 d). *)
From Coq Require Import ZArith List Lia Znumtheory.
From mathcomp Require Import all_ssreflect ssralg poly polydiv ssrint zmodp.
From RNT.Model Require Import Base Poly PolyModP FactorModP.
From RNT.Refine Require Import PolyModPArith PolyModPDivList FermatZ PolyZmod PolyModPDiv MonicZ PolyModPGcd FpPoly FactorNorm FactorProd FpTotal FmpField FmpSqf FmpIrred FmpDegree.
From mathcomp Require Import ssrZ zify ring.
Set Implicit Arguments. Unset Strict Implicit. Unset Printing Implicit Defensive.
Import GRing.Theory.
Local Open Scope ring_scope.

Lemma pred_lt_double (s d : nat) : (0 < d)%nat -> (d <= s.-1)%nat -> (s.-1 < d + d)%nat ->
  (1 < s)%nat /\ (s.-1 < d.-1 + d.-1 + 2)%nat.
Proof. lia. Qed.

Section Prime.
Variable p : Z.
Hypothesis Hp : Znumtheory.prime p.
Let Hp2 := prime_ge_2 _ Hp.
Let Hpp : (0 < p)%ZZ. Proof. lia. Qed.
Let Hp0 : p <> Z0. Proof. lia. Qed.

Notation n := (pnat p).
Notation RP l := (redp n (PZ l)).

Definition lirred (g : list Z) : Prop := irreducible_poly (RP g).

Lemma degs_all_irred (f : {poly 'F_n}) (d : nat) :
  (0 < d)%nat -> degs_all f d -> (d <= (size f).-1)%nat -> ((size f).-1 < d + d)%nat ->
  irreducible_poly f.
Proof.
  move=> d0 A L1 L2. have [S1 S2] := pred_lt_double d0 L1 L2.
  have G : degs_gt f d.-1.
  { move=> g Ig Dg. rewrite (A g Ig Dg). lia. }
  apply: (degs_gt_irred Hp S1 G). by rewrite mul2n -addnn.
Qed.

(** [k = deg / d = 1] *)
Lemma deg_div_one poly d :
  rnz p poly -> (1 <= d)%ZZ -> (pdeg poly / d =? 1)%ZZ = true ->
  (Z.to_nat d <= (size (RP poly)).-1)%nat /\ ((size (RP poly)).-1 < Z.to_nat d + Z.to_nat d)%nat.
Proof.
  move=> [R N] Hd /Z.eqb_eq E. rewrite (reduced_size Hp R).
  have Lp : pdeg poly = (Z.of_nat (length poly) - 1)%ZZ by move: N; rewrite /pdeg; case: (poly).
  have L0 : (0 < length poly)%coq_nat by move: N; case: (poly) => [|c l] //= _; lia.
  have := Z.div_mod (pdeg poly) d ltac:(lia). have := Z.mod_pos_bound (pdeg poly) d ltac:(lia).
  rewrite E Lp. lia.
Qed.

Opaque split_retries.
Lemma final_split_odd_irred : forall fuel poly d result r out r',
  rnz p poly -> (1 <= d)%ZZ -> degs_all (RP poly) (Z.to_nat d) ->
  final_split_odd fuel poly p d result r = Done (out, r') ->
  exists new, out = result ++ new /\ List.Forall lirred new.
Proof.
  elim=> [|f IH] poly d result r out r' Rp Hd A //=.
  rewrite /deg_div. have -> : (d =? 0)%ZZ = false by apply/Z.eqb_neq; lia.
  rewrite /=. case: (pdeg poly / d =? 0)%ZZ => //. case E1: (pdeg poly / d =? 1)%ZZ.
  - case=> <- _. exists [:: poly]. split=> //. constructor; last by constructor.
    have [L1 L2] := deg_div_one Rp Hd E1. apply: degs_all_irred A L1 L2. lia.
  - move: split_retries r => m. elim: m => [|m IHm] r0 //=.
    case: (draw_coeffs _ p r0) => [[raw r1]| |] //=.
    case: (poly_modpow _ _ poly p) => [tpow| |] //=.
    case Es: (poly_mod_sub tpow _ p) => [tpow1| |] //=.
    case Eb: (poly_gcd tpow1 poly p) => [b| |] //=.
    have [Rb [_ [t Ht]]] := gcd_rnz Hp (poly_mod_sub_reduced Hp Es) Rp Eb.
    case: b Eb Rb Ht => [|b0 b'] Eb Rb Ht; first exact: IHm.
    case: ((pdeg (b0 :: b') =? 0)%ZZ || (pdeg (b0 :: b') =? pdeg poly)%ZZ); first exact: IHm.
    case Er1: (final_split_odd f (b0 :: b') p d result r1) => [[res1 r2]| |] //=.
    have Db : RP (b0 :: b') %| RP poly by move/(eqpm_RP Hp): Ht; rewrite redpM => ->; exact: dvdp_mulr.
    have [n1 [A1 P1]] := IH _ _ _ _ _ _ Rb Hd (degs_all_dvd Db A) Er1.
    case Ed: (poly_divrem poly (b0 :: b') p) => [[dv rem]| |] //=.
    have [Rdv Edv] := quot_RP Hp Rp Rb Ht Ed.
    have Ddv : RP dv %| RP poly by rewrite Edv; exact: dvdp_mulr.
    move=> E2. have [n2 [A2 P2]] := IH _ _ _ _ _ _ Rdv Hd (degs_all_dvd Ddv A) E2.
    exists (n1 ++ n2). split; first by rewrite A2 A1 -List.app_assoc.
    apply/List.Forall_app. by split.
Qed.
Transparent split_retries.

End Prime.

Lemma final_split_2_irred : forall fuel poly d result out,
  rnz 2 poly -> (1 <= d)%ZZ -> degs_all (redp (pnat 2) (PZ poly)) (Z.to_nat d) ->
  final_split_2 fuel poly d result = Done out ->
  exists new, out = result ++ new /\ List.Forall (lirred 2) new.
Proof.
  have P2 := prime_2.
  elim=> [|f IH] poly d result out Rp Hd A //=.
  rewrite /deg_div. have -> : (d =? 0)%ZZ = false by apply/Z.eqb_neq; lia.
  rewrite /=. case: (pdeg poly / d =? 0)%ZZ => //. case E1: (pdeg poly / d =? 1)%ZZ.
  - case=> <-. exists [:: poly]. split=> //. constructor; last by constructor.
    have [L1 L2] := deg_div_one P2 Rp Hd E1. apply: (degs_all_irred P2 _ A L1 L2). lia.
  - have Rx : reduced 2 poly_x.
    { rewrite /poly_x /=. split; first by []. by repeat constructor. }
    move: (length poly + 2)%coq_nat poly_x Rx => m. elim: m => [|m IHm] t Rt //=.
    case Ec: (trace_loop _ t t poly) => [c| |] //=.
    have Rc := trace_loop_reduced Rt (proj1 Rp) Ec.
    case Eb: (poly_gcd poly c 2) => [b| |] //=.
    have [Rb [[s Hs] _]] := gcd_rnz_l P2 Rp Rc Eb.
    case: ((pdeg b =? 0)%ZZ || (pdeg b =? pdeg poly)%ZZ).
    + apply: IHm. exact: mul_x2_reduced.
    + case Er1: (final_split_2 f b d result) => [res1| |] //=.
      have Db : redp (pnat 2) (PZ b) %| redp (pnat 2) (PZ poly).
      { move/(eqpm_RP P2): Hs. rewrite redpM => ->. exact: dvdp_mulr. }
      have [n1 [A1 P1]] := IH _ _ _ _ Rb Hd (degs_all_dvd Db A) Er1.
      case Ed: (poly_divrem poly b 2) => [[dv rem]| |] //=.
      have [Rdv Edv] := quot_RP P2 Rp Rb Hs Ed.
      have Ddv : redp (pnat 2) (PZ dv) %| redp (pnat 2) (PZ poly) by rewrite Edv; exact: dvdp_mulr.
      move=> E2. have [n2 [A2 Pr2]] := IH _ _ _ _ Rdv Hd (degs_all_dvd Ddv A) E2.
      exists (n1 ++ n2). split; first by rewrite A2 A1 -List.app_assoc.
      apply/List.Forall_app. by split.
Qed.

Section Stage.
Variable p : Z.
Hypothesis Hp : Znumtheory.prime p.

(** [P] equal-degree stage: all pieces are irreducible. *)
Theorem final_split_irred poly d r out r' :
  rnz p poly -> (1 <= d)%ZZ -> degs_all (redp (pnat p) (PZ poly)) (Z.to_nat d) ->
  final_split poly p d r = Done (out, r') -> List.Forall (lirred p) out.
Proof.
  move=> Rp Hd A. rewrite /final_split. case Eo: (Z.odd p).
  - move=> H. by have [new [-> P]] := final_split_odd_irred Hp Rp Hd A H.
  - have E2 : p = 2%ZZ.
    { have Hev : Z.even p = true by rewrite -Z.negb_odd Eo.
      move/Z.even_spec: Hev => [k Hk].
      have D : (2 | p)%ZZ by exists k; lia.
      case: (prime_divisors _ Hp _ D); have := prime_ge_2 _ Hp; lia. }
    case Ef: (final_split_2 _ poly d [::]) => [res| |] //=. case=> <- _.
    move: Hp Rp A Ef. rewrite E2 => Hp' Rp A Ef.
    have A' : degs_all (redp (pnat 2) (PZ poly)) (Z.to_nat d).
    { move=> g Ig Dg. exact: A Ig Dg. }
    by have [new [-> P]] := final_split_2_irred Rp Hd A' Ef.
Qed.

End Stage.
