(** * [driver_exact]: the work-stack driver returns a strictly increasing list of accepted bases
    with positive exponents whose product is the input. *)
From Coq Require Import ZArith List Bool Lia Znumtheory Sorted.
From RNT.Model Require Import Base Elementary Ecm EcmParallel.
From RNT.Refine Require Import EcmInv EcmSound.
Open Scope Z_scope.

(** Product of p^e over an association list. *)
Definition fprod (l : list (Z * Z)) : Z := fold_right (fun pe acc => fst pe ^ snd pe * acc) 1 l.

(** [p] was accepted by the Miller-Rabin test on some draw stream. *)
Definition accepted (p : Z) : Prop := exists r r', is_prime p r = Done (true, r').

Definition good (l : list (Z * Z)) : Prop :=
  Sorted Z.lt (map fst l) /\ Forall (fun pe => 0 < snd pe) l /\ Forall (fun pe => accepted (fst pe)) l.

(** ** The multiplicity map *)
Lemma map_add_hd q p e t :
  q < p -> HdRel Z.lt q (map fst t) -> HdRel Z.lt q (map fst (map_add p e t)).
Proof.
  destruct t as [|[q' f'] t']; cbn [map_add map fst]; intros Hq Hh.
  - constructor; assumption.
  - destruct (p <? q'); [constructor; assumption|].
    destruct (p =? q'); cbn [map fst]; constructor; now inversion Hh.
Qed.

Lemma map_add_sorted p e : forall l, Sorted Z.lt (map fst l) -> Sorted Z.lt (map fst (map_add p e l)).
Proof.
  induction l as [|[q f] t IH]; cbn [map_add map fst]; intros Hs.
  - repeat constructor.
  - inversion Hs as [|? ? Hst Hhd]; subst.
    destruct (Z.ltb_spec p q) as [Hlt|Hge].
    + cbn [map fst]. constructor; [assumption|]. constructor; assumption.
    + destruct (Z.eqb_spec p q) as [->|Hne]; cbn [map fst].
      * constructor; assumption.
      * constructor; [now apply IH|]. apply map_add_hd; [lia|assumption].
Qed.

Lemma map_add_pos p e : forall l, 0 < e -> Forall (fun pe => 0 < snd pe) l ->
  Forall (fun pe => 0 < snd pe) (map_add p e l).
Proof.
  induction l as [|[q f] t IH]; cbn [map_add]; intros He Hl.
  - constructor; [assumption|constructor].
  - apply Forall_cons_iff in Hl as [Hh Ht]. cbn [snd] in Hh.
    destruct (p <? q); [constructor; [assumption|constructor; assumption]|].
    destruct (p =? q); constructor; cbn [snd]; try lia; auto.
Qed.

Lemma map_add_accepted p e : forall l, accepted p -> Forall (fun pe => accepted (fst pe)) l ->
  Forall (fun pe => accepted (fst pe)) (map_add p e l).
Proof.
  induction l as [|[q f] t IH]; cbn [map_add]; intros He Hl.
  - constructor; [assumption|constructor].
  - apply Forall_cons_iff in Hl as [Hh Ht]. cbn [fst] in Hh.
    destruct (p <? q); [constructor; [assumption|constructor; assumption]|].
    destruct (p =? q); constructor; cbn [fst]; auto.
Qed.

Lemma map_add_prod p e : forall l, 0 <= e -> Forall (fun pe => 0 < snd pe) l ->
  fprod (map_add p e l) = p ^ e * fprod l.
Proof.
  induction l as [|[q f] t IH]; cbn [map_add]; intros He Hl.
  - reflexivity.
  - apply Forall_cons_iff in Hl as [Hh Ht]. cbn [snd] in Hh.
    destruct (p <? q); [reflexivity|].
    destruct (Z.eqb_spec p q) as [->|Hne].
    + unfold fprod; cbn [fold_right fst snd]. rewrite Z.pow_add_r by lia. ring.
    + unfold fprod in *; cbn [fold_right fst snd]. rewrite IH by assumption. ring.
Qed.

Lemma map_add_good p e l : 0 < e -> accepted p -> good l -> good (map_add p e l).
Proof.
  intros He Ha (H1 & H2 & H3). repeat split;
    [now apply map_add_sorted|now apply map_add_pos|now apply map_add_accepted].
Qed.

(** ** What the driver needs from [perfect_power] *)
Lemma iroot_loop_nonneg : forall i k n r, 0 <= r -> 0 <= iroot_loop i k n r.
Proof.
  induction i as [|i IH]; intros k n r Hr; cbn [iroot_loop]; [assumption|].
  apply IH. pose proof (Z.pow_nonneg 2 (Z.of_nat i)).
  destruct (_ <=? _); lia.
Qed.

Lemma pp_search_spec : forall i n b k, pp_search i n = (b, k) ->
  (b ^ k = n /\ 0 <= b /\ 2 <= k) \/ (b = n /\ k = 1).
Proof.
  induction i as [|i IH]; intros n b k H; cbn [pp_search] in H.
  - inversion H; auto.
  - unfold is_perfect_power in H.
    destruct (iroot (Z.of_nat i + 2) n ^ (Z.of_nat i + 2) =? n) eqn:E.
    + inversion H; subst. left. apply Z.eqb_eq in E. split; [assumption|].
      split; [|lia]. unfold iroot. apply iroot_loop_nonneg. lia.
    + now apply IH.
Qed.

Lemma perfect_power_split n b k : 1 < n -> perfect_power n = Done (b, k) -> 2 <= k -> b ^ k = n /\ 1 <= b.
Proof.
  intros Hn H Hk. unfold perfect_power in H.
  destruct (n <? 0) eqn:E1; [discriminate|]. destruct (n <=? 1) eqn:E2; [apply Z.leb_le in E2; lia|].
  inversion H as [H1]. apply pp_search_spec in H1 as [(Hp & Hb & _)|[_ ->]]; [|lia].
  split; [assumption|].
  destruct (Z.eq_dec b 0) as [->|]; [|lia]. rewrite Z.pow_0_l in Hp by lia. lia.
Qed.

(** ** The loop *)
Definition stack_ok (s : list (Z * Z)) : Prop := Forall (fun vm => 1 <= fst vm /\ 0 < snd vm) s.

Section Driver.
  Variable ecm_fn : Z -> Z -> Z -> rng -> outcome (Z * Z * rng).
  Hypothesis ecm_sound : forall n b1 b2 r d c r',
    1 < n -> ecm_fn n b1 b2 r = Done (d, c, r') -> 1 < d < n /\ (d | n).

  Lemma driver_loop_exact : forall fuel b1 stack map count r l c r',
    stack_ok stack -> good map ->
    driver_loop ecm_fn fuel b1 stack map count r = Done (l, c, r') ->
    good l /\ fprod l = fprod stack * fprod map.
  Proof.
    induction fuel as [|f IH]; intros b1 stack map count r l c r' Hs Hm H; cbn [driver_loop] in H; [discriminate|].
    destruct stack as [|[now mult] rest].
    { inversion H; subst. split; [assumption|]. change (fprod []) with 1. lia. }
    apply Forall_cons_iff in Hs as [[Hnow Hmult] Hrest]. cbn [fst snd] in Hnow, Hmult.
    change (fprod ((now, mult) :: rest)) with (now ^ mult * fprod rest).
    destruct (Z.leb_spec now 1) as [Hle|Hgt].
    { apply IH in H as [Hg Hp]; [|assumption|assumption]. split; [assumption|].
      assert (now = 1) by lia. subst now. rewrite Z.pow_1_l by lia. rewrite Hp. ring. }
    apply bind_done in H as ([isp r1] & Hisp & H).
    destruct isp.
    { apply IH in H as [Hg Hp]; [|assumption|].
      - split; [assumption|]. rewrite Hp. destruct Hm as (_ & Hpos & _). rewrite map_add_prod by (assumption || lia). ring.
      - apply map_add_good; [assumption| |assumption]. exists r, r1. assumption. }
    apply bind_done in H as ([b k] & Hpp & H).
    destruct (Z.leb_spec 2 k) as [Hk|Hk].
    { apply (perfect_power_split now b k Hgt) in Hpp as [Hb Hb1]; [|assumption].
      apply IH in H as [Hg Hp]; [| |assumption].
      - split; [assumption|]. rewrite Hp. change (fprod ((b, mult * k) :: rest)) with (b ^ (mult * k) * fprod rest).
        rewrite <- Hb. rewrite <- Z.pow_mul_r by lia. now rewrite (Z.mul_comm k mult).
      - constructor; [cbn [fst snd]; split; [assumption|nia]|assumption]. }
    apply bind_done in H as ([[fac nowcount] r2] & Hecm & H).
    apply ecm_sound in Hecm as [Hfac Hdiv]; [|assumption].
    destruct (Z.eqb_spec fac 1) as [->|_]; [lia|].
    apply bind_done in H as (other & Hq & H). apply zquot_done in Hq as [_ ->].
    destruct Hdiv as [q Hq]. subst now. rewrite Z.quot_mul in H by lia.
    assert (Hq1 : 1 <= q) by nia.
    apply IH in H as [Hg Hp]; [| |assumption].
    - split; [assumption|]. rewrite Hp.
      change (fprod ((q, mult) :: (fac, mult) :: rest)) with (q ^ mult * (fac ^ mult * fprod rest)).
      rewrite Z.pow_mul_l. ring.
    - constructor; [cbn [fst snd]; lia|]. constructor; [cbn [fst snd]; lia|assumption].
  Qed.

  Lemma factorize_gen_exact x b1 r l c r' :
    factorize_gen ecm_fn x b1 r = Done (l, c, r') -> good l /\ fprod l = x.
  Proof.
    unfold factorize_gen. destruct (Z.leb_spec x 0) as [|Hx]; [discriminate|].
    intros H. apply driver_loop_exact in H as [Hg Hp].
    - split; [assumption|]. rewrite Hp. change (fprod [(x, 1)]) with (x ^ 1 * 1). change (fprod []) with 1. rewrite Z.pow_1_r. ring.
    - constructor; [cbn [fst snd]; lia|constructor].
    - repeat split; constructor.
  Qed.
End Driver.

(** [P] Both drivers, both profiles, every draw stream, every B1, every curve fuel. *)
Theorem driver_exact : forall cfuel m x b1 r l c r',
  Ecm.factorize_verbose cfuel m x b1 r = Done (l, c, r') ->
  Sorted Z.lt (map fst l) /\ Forall (fun pe => 0 < snd pe) l /\
  Forall (fun pe => accepted (fst pe)) l /\ fprod l = x.
Proof.
  intros cfuel m x b1 r l c r' H. unfold Ecm.factorize_verbose in H.
  apply factorize_gen_exact in H as [(H1 & H2 & H3) H4]; [auto|].
  intros n b1' b2 r0 d c0 r0' Hn. apply ecm_divisor_sound. exact Hn.
Qed.

Theorem driver_parallel_exact : forall cfuel m x b1 r l c r',
  EcmParallel.factorize_verbose cfuel m x b1 r = Done (l, c, r') ->
  Sorted Z.lt (map fst l) /\ Forall (fun pe => 0 < snd pe) l /\
  Forall (fun pe => accepted (fst pe)) l /\ fprod l = x.
Proof.
  intros cfuel m x b1 r l c r' H. unfold EcmParallel.factorize_verbose in H.
  apply factorize_gen_exact in H as [(H1 & H2 & H3) H4]; [auto|].
  intros n b1' b2 r0 d c0 r0' Hn. apply ecm_parallel_divisor_sound. exact Hn.
Qed.

(** n = 1: the empty list, no draw consumed. *)
Lemma driver_one cfuel m b1 r : Ecm.factorize_verbose cfuel m 1 b1 r = Done ([], 0, r).
Proof. reflexivity. Qed.
Lemma driver_parallel_one cfuel m b1 r : EcmParallel.factorize_verbose cfuel m 1 b1 r = Done ([], 0, r).
Proof. reflexivity. Qed.

(** n <= 0: the documented panic. *)
Lemma driver_nonpos cfuel m x b1 r : x <= 0 -> Ecm.factorize_verbose cfuel m x b1 r = Panic POther.
Proof. intros H. unfold Ecm.factorize_verbose, factorize_gen. apply Z.leb_le in H. now rewrite H. Qed.
Lemma driver_parallel_nonpos cfuel m x b1 r : x <= 0 -> EcmParallel.factorize_verbose cfuel m x b1 r = Panic POther.
Proof. intros H. unfold EcmParallel.factorize_verbose, factorize_gen. apply Z.leb_le in H. now rewrite H. Qed.

(** ** [C] When the accepted bases are prime, the list is the prime factorisation:
    it contains exactly the prime divisors of the input (with the product above, the
    exponents are then the multiplicities). The side condition is what C13 bounds. *)
From Coq Require Import Zpow_facts.

Lemma in_divides_fprod p e : forall l, In (p, e) l -> 0 < e -> (p | fprod l).
Proof.
  induction l as [|[q f] t IH]; intros Hin He; [contradiction|].
  change (fprod ((q, f) :: t)) with (q ^ f * fprod t).
  destruct Hin as [Heq|Hin].
  - inversion Heq; subst. apply Z.divide_mul_l.
    replace e with (Z.succ (e - 1)) by lia. rewrite Z.pow_succ_r by lia. apply Z.divide_factor_l.
  - apply Z.divide_mul_r. now apply IH.
Qed.

Lemma prime_divides_fprod q : forall l, prime q ->
  Forall (fun pe => 0 < snd pe) l -> Forall (fun pe => prime (fst pe)) l ->
  (q | fprod l) -> In q (map fst l).
Proof.
  induction l as [|[p e] t IH]; intros Hq Hpos Hpr Hd.
  - change (fprod []) with 1 in Hd. destruct Hq as [Hq1 _].
    apply Z.divide_1_r_nonneg in Hd; lia.
  - change (fprod ((p, e) :: t)) with (p ^ e * fprod t) in Hd.
    apply Forall_cons_iff in Hpos as [He Hpos]. apply Forall_cons_iff in Hpr as [Hp Hpr].
    cbn [fst snd] in *.
    apply (prime_mult q Hq) in Hd as [Hd|Hd].
    + left. symmetry. apply (prime_power_prime q p e); (assumption || lia).
    + right. now apply IH.
Qed.

Lemma factorisation_prime_divisors l x :
  Forall (fun pe => 0 < snd pe) l -> Forall (fun pe => prime (fst pe)) l -> fprod l = x ->
  forall q, prime q -> ((q | x) <-> In q (map fst l)).
Proof.
  intros Hpos Hpr <- q Hq. split.
  - now apply prime_divides_fprod.
  - intros Hin. apply in_map_iff in Hin as ([p e] & <- & Hin). cbn [fst].
    apply (in_divides_fprod p e); [assumption|].
    rewrite Forall_forall in Hpos. apply (Hpos _ Hin).
Qed.

Corollary driver_prime_factorisation : forall cfuel m x b1 r l c r',
  Ecm.factorize_verbose cfuel m x b1 r = Done (l, c, r') ->
  Forall (fun pe => prime (fst pe)) l ->
  Sorted Z.lt (map fst l) /\ Forall (fun pe => 0 < snd pe) l /\ fprod l = x /\
  forall q, prime q -> ((q | x) <-> In q (map fst l)).
Proof.
  intros cfuel m x b1 r l c r' H Hpr. apply driver_exact in H as (H1 & H2 & _ & H4).
  repeat split; auto; now apply factorisation_prime_divisors.
Qed.

Corollary driver_parallel_prime_factorisation : forall cfuel m x b1 r l c r',
  EcmParallel.factorize_verbose cfuel m x b1 r = Done (l, c, r') ->
  Forall (fun pe => prime (fst pe)) l ->
  Sorted Z.lt (map fst l) /\ Forall (fun pe => 0 < snd pe) l /\ fprod l = x /\
  forall q, prime q -> ((q | x) <-> In q (map fst l)).
Proof.
  intros cfuel m x b1 r l c r' H Hpr. apply driver_parallel_exact in H as (H1 & H2 & _ & H4).
  repeat split; auto; now apply factorisation_prime_divisors.
Qed.

(** ** Uniqueness: a strictly increasing list of primes with positive exponents is determined by
    its product (fundamental theorem of arithmetic, for the list format the drivers return). *)
Definition prime_fact (l : list (Z * Z)) : Prop :=
  Sorted Z.lt (map fst l) /\ Forall (fun pe => 0 < snd pe) l /\ Forall (fun pe => prime (fst pe)) l.

Lemma prime_fact_tail pe l : prime_fact (pe :: l) -> prime_fact l.
Proof.
  intros (H1 & H2 & H3). cbn [map] in H1. repeat split.
  - now inversion H1.
  - now apply Forall_inv_tail in H2.
  - now apply Forall_inv_tail in H3.
Qed.

Lemma prime_fact_head_lt p e l : prime_fact ((p, e) :: l) -> Forall (fun q => p < q) (map fst l).
Proof.
  intros (H1 & _ & _). cbn [map fst] in H1.
  apply Sorted_extends in H1; [assumption|]. intros a b c. apply Z.lt_trans.
Qed.

Lemma head_not_dividing_tail p e l : prime_fact ((p, e) :: l) -> ~ (p | fprod l).
Proof.
  intros Hpf Hd. pose proof (prime_fact_head_lt p e l Hpf) as Hlt.
  pose proof (prime_fact_tail _ _ Hpf) as (_ & Hpos & Hpr).
  destruct Hpf as (_ & _ & Hp). apply Forall_inv in Hp. cbn [fst] in Hp.
  apply (prime_divides_fprod p l Hp Hpos Hpr) in Hd.
  rewrite Forall_forall in Hlt. specialize (Hlt p Hd). lia.
Qed.

Lemma head_le_of_product p e l p' e' l' :
  prime_fact ((p, e) :: l) -> prime_fact ((p', e') :: l') ->
  fprod ((p, e) :: l) = fprod ((p', e') :: l') -> p' <= p.
Proof.
  intros Hpf Hpf' Heq.
  assert (Hd : (p | fprod ((p', e') :: l'))).
  { rewrite <- Heq. apply (in_divides_fprod p e); [left; reflexivity|].
    destruct Hpf as (_ & Hpos & _). now apply Forall_inv in Hpos. }
  destruct Hpf as (_ & _ & Hp). apply Forall_inv in Hp. cbn [fst] in Hp.
  pose proof (prime_fact_head_lt p' e' l' Hpf') as Hlt.
  destruct Hpf' as (_ & Hpos' & Hpr').
  apply (prime_divides_fprod p _ Hp Hpos' Hpr') in Hd. cbn [map fst] in Hd.
  destruct Hd as [->|Hin]; [lia|]. rewrite Forall_forall in Hlt. specialize (Hlt p Hin). lia.
Qed.

Lemma pow_cancel_lt p e e' A A' : 1 < p -> 0 < e < e' -> p ^ e * A = p ^ e' * A' -> (p | A).
Proof.
  intros Hp He H. replace e' with (e + (e' - e)) in H by ring.
  rewrite Z.pow_add_r in H by lia.
  assert (Hne : p ^ e <> 0) by (apply Z.pow_nonzero; lia).
  assert (HA : A = p ^ (e' - e) * A') by (apply (Z.mul_cancel_l _ _ (p ^ e) Hne); rewrite H; ring).
  rewrite HA. apply Z.divide_mul_l.
  replace (e' - e) with (Z.succ (e' - e - 1)) by ring. rewrite Z.pow_succ_r by lia. apply Z.divide_factor_l.
Qed.

Theorem factorisation_unique : forall l l', prime_fact l -> prime_fact l' -> fprod l = fprod l' -> l = l'.
Proof.
  induction l as [|[p e] t IH]; intros [|[p' e'] t'] Hpf Hpf' Heq; [reflexivity| | |].
  - exfalso. change (fprod []) with 1 in Heq.
    assert (Hd : (p' | 1)).
    { rewrite Heq. apply (in_divides_fprod p' e'); [left; reflexivity|].
      destruct Hpf' as (_ & Hpos & _). now apply Forall_inv in Hpos. }
    destruct Hpf' as (_ & _ & Hp). apply Forall_inv in Hp. cbn [fst] in Hp. destruct Hp as [Hp1 _].
    apply Z.divide_1_r_nonneg in Hd; lia.
  - exfalso. change (fprod []) with 1 in Heq.
    assert (Hd : (p | 1)).
    { rewrite <- Heq. apply (in_divides_fprod p e); [left; reflexivity|].
      destruct Hpf as (_ & Hpos & _). now apply Forall_inv in Hpos. }
    destruct Hpf as (_ & _ & Hp). apply Forall_inv in Hp. cbn [fst] in Hp. destruct Hp as [Hp1 _].
    apply Z.divide_1_r_nonneg in Hd; lia.
  - assert (p = p').
    { pose proof (head_le_of_product _ _ _ _ _ _ Hpf Hpf' Heq).
      pose proof (head_le_of_product _ _ _ _ _ _ Hpf' Hpf (eq_sym Heq)). lia. }
    subst p'.
    pose proof (head_not_dividing_tail _ _ _ Hpf) as Hn.
    pose proof (head_not_dividing_tail _ _ _ Hpf') as Hn'.
    assert (Hp1 : 1 < p).
    { destruct Hpf as (_ & _ & Hp). apply Forall_inv in Hp. now destruct Hp. }
    assert (He : 0 < e) by (destruct Hpf as (_ & Hpos & _); now apply Forall_inv in Hpos).
    assert (He' : 0 < e') by (destruct Hpf' as (_ & Hpos & _); now apply Forall_inv in Hpos).
    change (fprod ((p, e) :: t)) with (p ^ e * fprod t) in Heq.
    change (fprod ((p, e') :: t')) with (p ^ e' * fprod t') in Heq.
    assert (e = e').
    { destruct (Z.lt_trichotomy e e') as [Hlt|[Heq'|Hgt]]; [|assumption|].
      - exfalso. apply Hn. apply (pow_cancel_lt p e e' _ _ Hp1 ltac:(lia) Heq).
      - exfalso. apply Hn'. apply (pow_cancel_lt p e' e _ _ Hp1 ltac:(lia) (eq_sym Heq)). }
    subst e'. f_equal.
    apply IH; [now apply prime_fact_tail in Hpf|now apply prime_fact_tail in Hpf'|].
    apply (Z.mul_cancel_l _ _ (p ^ e)); [apply Z.pow_nonzero; lia|assumption].
Qed.

(** [C] If the accepted bases are prime, the driver's answer is THE prime factorisation of x. *)
Corollary driver_unique_factorisation : forall cfuel m x b1 r l c r',
  Ecm.factorize_verbose cfuel m x b1 r = Done (l, c, r') ->
  Forall (fun pe => prime (fst pe)) l ->
  prime_fact l /\ fprod l = x /\ forall l', prime_fact l' -> fprod l' = x -> l' = l.
Proof.
  intros cfuel m x b1 r l c r' H Hpr. apply driver_exact in H as (H1 & H2 & _ & H4).
  assert (Hpf : prime_fact l) by (repeat split; assumption).
  repeat split; try assumption. intros l' Hpf' Hx. apply factorisation_unique; congruence.
Qed.

Corollary driver_parallel_unique_factorisation : forall cfuel m x b1 r l c r',
  EcmParallel.factorize_verbose cfuel m x b1 r = Done (l, c, r') ->
  Forall (fun pe => prime (fst pe)) l ->
  prime_fact l /\ fprod l = x /\ forall l', prime_fact l' -> fprod l' = x -> l' = l.
Proof.
  intros cfuel m x b1 r l c r' H Hpr. apply driver_parallel_exact in H as (H1 & H2 & _ & H4).
  assert (Hpf : prime_fact l) by (repeat split; assumption).
  repeat split; try assumption. intros l' Hpf' Hx. apply factorisation_unique; congruence.
Qed.
