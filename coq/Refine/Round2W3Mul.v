(** Round 2 step, third wave (C06): closed form of [mul_mod_p] on a well-shaped table, and linearity of
    the table product [AlgNormMx.tmul] over integer combinations of rows ([MatZ.lincomb]).
    Style: ssreflect/MathComp (built on MultTableOps.mt_mul_closed, AlgNormMx.zrow_tmul, DetBridge). *)
From Coq Require Import ZArith List.
From mathcomp Require Import all_ssreflect ssralg zmodp matrix mxalgebra.
From mathcomp Require Import ssrZ zify.
From Coq Require Import QArith Qcanon.
From RNT.Model Require Import Base Poly Algebraic LinAlg MultTable Order Round2.
From RNT.Model Require Hnf.
From RNT.Refine Require Import QcField LinAlgQc MatZ MultTableOps AlgNormMx DetBridge.
Set Implicit Arguments.
Unset Strict Implicit.
Unset Printing Implicit Defensive.
Import GRing.Theory.
Local Close Scope Z_scope.
Local Close Scope Q_scope.
Local Close Scope Qc_scope.
Local Open Scope ring_scope.

(** [mul_mod_p] is [MultTable::mul] (release profile: no [debug_assert]) followed by [%= p] *)
Lemma mul_mod_p_mt a b t p :
  mul_mod_p a b t p = bind (mt_mul Wrapping t a b) (fun r => mapM (fun x => zrem x p) r).
Proof. by []. Qed.

Lemma mapM_zrem (p : Z) (r : list Z) : p <> 0%Z ->
  mapM (fun x => zrem x p) r = Done (List.map (fun x => Z.rem x p) (r)).
Proof.
move=> p0; elim: r => [|x r IH] //.
rewrite [mapM _ _]/= IH /zrem.
by have -> : (p =? 0)%Z = false by apply/Z.eqb_neq.
Qed.

Theorem mul_mod_p_closed n t a b (p : Z) : cube n t -> size a = n -> size b = n -> p <> 0%Z ->
  mul_mod_p a b t p = Done (List.map (fun x => Z.rem x p) (tmul t n a b)).
Proof.
move=> ct sa sb p0.
by rewrite mul_mod_p_mt (mt_mul_tmul Wrapping ct sa sb) /bind mapM_zrem.
Qed.

(** the same for users of [List.nth] / [length] *)
Lemma tmul_length t n a b : length (tmul t n a b) = n.
Proof. exact: size_tmul. Qed.

Lemma mul_mod_p_ok n t a b (p : Z) : cube n t -> length a = n -> length b = n -> p <> 0%Z ->
  exists r, [/\ mul_mod_p a b t p = Done r, length r = n &
                forall k, List.nth k r 0%Z = Z.rem (List.nth k (tmul t n a b) 0%Z) p].
Proof.
move=> ct sa sb p0; exists (List.map (fun x => Z.rem x p) (tmul t n a b)); split.
- exact: mul_mod_p_closed.
- by rewrite -[length _]/(size _) size_map size_tmul.
- move=> k; rewrite !Lnth_nth.
  case: (ltnP k n) => hk; first by rewrite (nth_map 0%Z) ?size_tmul.
  by rewrite !seq.nth_default ?size_map ?size_tmul ?size_iota //.
Qed.

(** ** linearity over [lincomb] *)
Lemma zrow_zrv n (v : list Z) : zrow n v = zrv n v.
Proof. by apply/rowP => k; rewrite !mxE Lnth_nth. Qed.

Lemma wf_size n (U : list (list Z)) i : wf n U -> (i < size U)%nat -> size (seq.nth [::] U i) = n.
Proof.
move=> wU hi; have /ltP hi' := hi.
by have := wf_row n U i wU hi'; rewrite /MatZ.row Lnth_nth.
Qed.

Lemma wf_map n (g : list Z -> list Z) (U : list (list Z)) : (forall v, size (g v) = n) -> wf n (List.map g U).
Proof.
by move=> sg; apply/List.Forall_forall => r /List.in_map_iff [u [<- _]]; exact: sg.
Qed.

Section Linear.
Variables (n : nat) (M : 'M[Z]_n) (g : list Z -> list Z).
Hypothesis sg : forall v, size (g v) = n.
Hypothesis eg : forall v, zrow n (g v) = zrow n v *m M.

Lemma lincomb_linear c (U : list (list Z)) : wf n U ->
  g (lincomb n c U) = lincomb n c (List.map g U).
Proof.
move=> wU; have wg := wf_map U sg.
apply: (@zrow_inj n); rewrite ?sg //.
  by rewrite -[size _]/(length _) lincomb_length.
rewrite eg !zrow_zrv (zrv_lincomb c wU (erefl _)).
rewrite (zrv_lincomb c wg (erefl _)) List.map_length -mulmxA; congr (_ *m _).
apply/matrixP => i j; rewrite !mxE.
have hi : (i < size U)%nat by [].
rewrite !Lnth_nth (nth_map [::]) //.
have := eg (seq.nth [::] U i) => /rowP /(_ j); rewrite !mxE => ->.
by apply: eq_bigr => k _; rewrite !mxE !Lnth_nth.
Qed.
End Linear.

Theorem tmul_lincomb_r t n a c (U : list (list Z)) : wf n U ->
  tmul t n a (lincomb n c U) = lincomb n c (List.map (tmul t n a) U).
Proof.
apply: (@lincomb_linear n (Mrep t n a)) => v; [exact: size_tmul|exact: zrow_tmul].
Qed.

Theorem tmul_lincomb_l t n a c (U : list (list Z)) : wf n U ->
  tmul t n (lincomb n c U) a = lincomb n c (List.map (fun u => tmul t n u a) U).
Proof.
apply: (@lincomb_linear n (Rrep t n a) (fun u => tmul t n u a)) => v;
  [exact: size_tmul|exact: zrow_tmul_r].
Qed.

(** scalars *)
Lemma vadd_vzero_r n (q : Z) u : size u = n -> MatZ.vadd (MatZ.vscale q u) (vzero n) = MatZ.vscale q u.
Proof.
move=> su; apply: (@vec_ext n).
- by rewrite MatZ.vadd_length MatZ.vscale_length ?vzero_length.
- by rewrite MatZ.vscale_length.
- move=> i hi; rewrite MatZ.nth_vadd ?MatZ.vscale_length ?vzero_length //.
  by rewrite nth_vzero; lia.
Qed.

Lemma tmul_vscale_r t n a (q : Z) v : size v = n ->
  tmul t n a (MatZ.vscale q v) = MatZ.vscale q (tmul t n a v).
Proof.
move=> sv; have wv : wf n [:: v] by apply/wf_cons; split=> //; constructor.
have := @tmul_lincomb_r t n a [:: q] [:: v] wv.
rewrite /= => e.
by move: e; rewrite !vadd_vzero_r ?size_tmul.
Qed.

Lemma tmul_vscale_l t n a (q : Z) v : size v = n ->
  tmul t n (MatZ.vscale q v) a = MatZ.vscale q (tmul t n v a).
Proof.
move=> sv; have wv : wf n [:: v] by apply/wf_cons; split=> //; constructor.
have := @tmul_lincomb_l t n a [:: q] [:: v] wv.
rewrite /= => e.
by move: e; rewrite !vadd_vzero_r ?size_tmul.
Qed.

(** entries of the product only depend on the table entries: two tables that agree modulo [q] give
    products that agree modulo [q] *)
Lemma dvd_sum_diff (q : Z) (r : list nat) (F G : nat -> Z) :
  (forall i, i \in r -> (q | F i - G i)%Z) ->
  (q | (\sum_(i <- r) F i) - (\sum_(i <- r) G i))%Z.
Proof.
elim: r => [|i r IH] h; first by rewrite !big_nil; exists 0%Z.
rewrite !big_cons.
have -> : ((F i + \sum_(j <- r) F j) - (G i + \sum_(j <- r) G j)
           = (F i - G i) + ((\sum_(j <- r) F j) - (\sum_(j <- r) G j)))%Z by lia.
apply: Z.divide_add_r; first by apply: h; rewrite inE eqxx.
by apply: IH => j hj; apply: h; rewrite inE hj orbT.
Qed.

Lemma tmul_congr_table (q : Z) t t' n a b :
  (forall i j k, (i < n)%nat -> (j < n)%nat -> (k < n)%nat -> (q | T3 t i j k - T3 t' i j k)%Z) ->
  forall k, (q | List.nth k (tmul t n a b) 0%Z - List.nth k (tmul t' n a b) 0%Z)%Z.
Proof.
move=> ht k; rewrite !Lnth_nth.
case: (ltnP k n) => hk; last first.
  by rewrite !seq.nth_default ?size_tmul //; exists 0%Z.
rewrite !nth_mkseq // /mul_coef.
apply: dvd_sum_diff => i; rewrite mem_iota add0n => /andP[_ hi].
apply: dvd_sum_diff => j; rewrite mem_iota add0n => /andP[_ hj].
have -> : (seq.nth 0 a i * seq.nth 0 b j * T3 t i j k - seq.nth 0 a i * seq.nth 0 b j * T3 t' i j k
           = (seq.nth 0 a i * seq.nth 0 b j) * (T3 t i j k - T3 t' i j k))%Z by lia.
by apply: Z.divide_mul_r; apply: ht.
Qed.

(** ** the shape predicate [cube] from lengths *)
Lemma cube_intro n (t : table) :
  length t = n ->
  (forall i, (i < n)%coq_nat -> length (List.nth i t [::]) = n) ->
  (forall i j, (i < n)%coq_nat -> (j < n)%coq_nat -> length (List.nth j (List.nth i t [::]) [::]) = n) ->
  cube n t.
Proof.
move=> lt h1 h2; rewrite /cube -[size t]/(length t) lt eqxx /=.
apply/(all_nthP [::]) => i; rewrite -[size t]/(length t) lt => hi.
have /ltP hi' := hi.
rewrite -Lnth_nth -[size _]/(length _) (h1 i hi') eqxx /=.
apply/(all_nthP [::]) => j; rewrite -[size _]/(length _) (h1 i hi') => hj.
have /ltP hj' := hj.
by rewrite -Lnth_nth -[size _]/(length _) (h2 i j hi' hj').
Qed.

Lemma cube_elim n (t : table) : cube n t ->
  length t = n /\
  (forall i, (i < n)%coq_nat -> length (List.nth i t [::]) = n) /\
  (forall i j, (i < n)%coq_nat -> (j < n)%coq_nat -> length (List.nth j (List.nth i t [::]) [::]) = n).
Proof.
move=> ct; split; first by case/andP: ct => /eqP.
split=> [i /ltP hi|i j /ltP hi /ltP hj]; rewrite !Lnth_nth.
- exact: (cube_row ct hi).
- exact: (cube_cell ct hi hj).
Qed.

(** computing [tmul] on concrete data through the model's [MultTable::mul] *)
Lemma tmul_by_mt n t a b r : cube n t -> length a = n -> length b = n ->
  mt_mul Wrapping t a b = Done r -> tmul t n a b = r.
Proof. by move=> ct sa sb; rewrite (mt_mul_tmul Wrapping ct sa sb) => -[]. Qed.
